#!/bin/sh
# Builds the harness once from files on disk (offline) so later checks hit the Go build cache.
set -e
cd "$(dirname "$0")/harness"
export GOFLAGS=-mod=mod GOPROXY=off GOSUMDB=off GOTOOLCHAIN=local
mkdir -p ../.work ../evidence ../replays
# go.sum of the harness = go.sum of /repo (+ rapid's own lines kept in go.sum.extra)
if [ -f /repo/go.sum ]; then cat /repo/go.sum go.sum.extra 2>/dev/null | sort -u > go.sum; fi
for d in c[0-9][0-9]*; do
  [ -d "$d" ] || continue
  go test -c -vet=off -tags verif -o ../.work/setup-$d.test ./$d || echo "setup: $d does not build (its check will report inconclusive)"
  rm -f ../.work/setup-$d.test
done
echo "setup ok"
