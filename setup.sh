#!/bin/sh
# Builds the harness once from files on disk (offline) so later checks hit the Go build cache.
set -e
cd "$(dirname "$0")/harness"
export GOFLAGS=-mod=mod GOPROXY=off GOSUMDB=off GOTOOLCHAIN=local
mkdir -p ../.work ../evidence ../replays
# go.sum of the harness = go.sum of /repo (+ rapid's own lines kept in go.sum.extra)
if [ -f /repo/go.sum ]; then cat /repo/go.sum go.sum.extra 2>/dev/null | sort -u > go.sum; fi
go test -c -vet=off -tags verif -o ../.work/setup-props.test ./props
rm -f ../.work/setup-props.test
echo "setup ok"
