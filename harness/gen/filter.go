package gen

import (
	"math"
	"regexp"
	"sort"
	"strconv"
	"strings"

	"pgregory.net/rapid"

	"verifharness/model"
)

var safeField = regexp.MustCompile(`^[a-zA-Z][a-zA-Z0-9_]*(\.[a-zA-Z][a-zA-Z0-9_]*)*$`)

// FilterColumns returns the flattened column names that can be written in SPL without quoting,
// with the values observed for each (sorted by name).
func FilterColumns(ds *Dataset) ([]string, map[string][]model.Val) {
	vals := map[string][]model.Val{}
	for _, e := range ds.Events {
		f, _ := e.Flat()
		for n, v := range f {
			if n == "_vid" || !safeField.MatchString(n) {
				continue
			}
			vals[n] = append(vals[n], v)
		}
	}
	// also columns of the schema that never materialised (all-null): comparisons on them must select nothing
	for _, c := range ds.Columns {
		if c.Shape != ShArray && safeField.MatchString(c.Name()) {
			if _, ok := vals[c.Name()]; !ok {
				vals[c.Name()] = nil
			}
		}
	}
	names := make([]string, 0, len(vals))
	for n := range vals {
		names = append(names, n)
	}
	sort.Strings(names)
	return names, vals
}

var termWords = []string{"alpha", "beta", "gamma", "delta", "err", "top", "zz", "x", "y", "abcdef", "ghijkl", "nomatch", "a", "true", "12", "uni"}
var wildPatterns = []string{"a*", "*a", "*et*", "al*a", "*", "g*", "*def", "ab*ef", "*l*", "BE*", "x*y", "*z", "zz*"}

func spellNum(t *rapid.T, l *model.Lit) {
	switch l.K {
	case model.LInt:
		switch rapid.IntRange(0, 5).Draw(t, "spellInt") {
		case 0:
			l.Spell = strconv.FormatInt(l.I, 10) + ".0"
		case 1:
			l.Spell = strconv.FormatInt(l.I, 10) + ".00"
		}
	case model.LFloat:
		if rapid.IntRange(0, 4).Draw(t, "spellFloat") == 0 {
			l.Spell = strconv.FormatFloat(l.F, 'f', -1, 64) + "0"
			if !strings.Contains(l.Spell, ".") {
				l.Spell = strconv.FormatFloat(l.F, 'f', -1, 64) + ".0"
			}
		}
	}
}

// litNear draws a literal related to an observed value.
func litNear(t *rapid.T, v model.Val) model.Lit {
	switch v.K {
	case model.KInt:
		if v.I > math.MinInt64+10 && v.I < math.MaxInt64-10 {
			switch rapid.IntRange(0, 5).Draw(t, "nearInt") {
			case 0:
				return model.Lit{K: model.LInt, I: v.I + 1}
			case 1:
				return model.Lit{K: model.LInt, I: v.I - 1}
			case 2:
				if model.ExactFloat(v.I) && v.I > -1e12 && v.I < 1e12 {
					return model.Lit{K: model.LFloat, F: float64(v.I) + 0.5}
				}
			}
		}
		return model.Lit{K: model.LInt, I: v.I}
	case model.KFloat:
		f := v.F
		if math.Abs(f) > 1e15 || (f != 0 && math.Abs(f) < 1e-6) {
			// keep literals in a range that prints without exponent
			return model.Lit{K: model.LFloat, F: 2.5}
		}
		switch rapid.IntRange(0, 4).Draw(t, "nearFloat") {
		case 0:
			return model.Lit{K: model.LFloat, F: f + 0.25}
		case 1:
			if f == math.Trunc(f) {
				return model.Lit{K: model.LInt, I: int64(f)}
			}
		case 2:
			return model.Lit{K: model.LInt, I: int64(math.Floor(f))}
		}
		return model.Lit{K: model.LFloat, F: f}
	case model.KStr:
		s := v.S
		switch rapid.IntRange(0, 5).Draw(t, "nearStr") {
		case 0:
			return model.Lit{K: model.LStr, S: strings.ToUpper(s)}
		case 1:
			return model.Lit{K: model.LStr, S: strings.ToLower(s)}
		case 2:
			if len(s) >= 2 && isASCII(s) {
				return model.Lit{K: model.LWild, S: s[:1] + "*"}
			}
		case 3:
			if len(s) >= 2 && isASCII(s) {
				return model.Lit{K: model.LWild, S: "*" + s[len(s)-1:]}
			}
		}
		return model.Lit{K: model.LStr, S: s}
	case model.KBool:
		// bare true/false literals are outside the statement's list (string, integer, decimal): use the quoted text
		return model.Lit{K: model.LStr, S: strconv.FormatBool(v.B != (rapid.IntRange(0, 3).Draw(t, "flipBool") == 0))}
	}
	return model.Lit{K: model.LInt, I: 1}
}

func isASCII(s string) bool {
	for i := 0; i < len(s); i++ {
		if s[i] < 0x21 || s[i] > 0x7e || s[i] == '"' || s[i] == '\\' || s[i] == '*' {
			return false
		}
	}
	return true
}

// queryableStr: literals must be expressible inside an SPL quoted string.
func queryableStr(s string) bool {
	for _, r := range s {
		if r < 0x20 || r == '"' || r == '\\' || r == 0x7f {
			return false
		}
	}
	return true
}

func genLit(t *rapid.T, obs []model.Val) model.Lit {
	var l model.Lit
	if len(obs) > 0 && rapid.IntRange(0, 9).Draw(t, "fromObserved") < 7 {
		v := obs[rapid.IntRange(0, len(obs)-1).Draw(t, "obsIdx")]
		l = litNear(t, v)
	} else {
		switch rapid.IntRange(0, 5).Draw(t, "litKind") {
		case 0, 1:
			l = model.Lit{K: model.LInt, I: int64(rapid.IntRange(-3, 12).Draw(t, "litInt"))}
		case 2:
			l = model.Lit{K: model.LFloat, F: float64(rapid.IntRange(-40, 40).Draw(t, "litQ")) / 4}
		case 3:
			l = model.Lit{K: model.LStr, S: rapid.SampledFrom(lowWords).Draw(t, "litWord")}
		case 4:
			l = model.Lit{K: model.LWild, S: rapid.SampledFrom(wildPatterns).Draw(t, "litWild")}
		default:
			l = model.Lit{K: model.LStr, S: strconv.FormatBool(rapid.Bool().Draw(t, "litBool"))}
		}
	}
	if (l.K == model.LStr || l.K == model.LWild) && !queryableStr(l.S) {
		l = model.Lit{K: model.LStr, S: "alpha"}
	}
	if l.K == model.LStr && strings.Contains(l.S, "*") {
		l.K = model.LWild
	}
	spellNum(t, &l)
	return l
}

// GenFilter draws a filter expression of bounded depth over the dataset's columns.
func GenFilter(t *rapid.T, names []string, vals map[string][]model.Val, depth int) *model.Filter {
	k := rapid.IntRange(0, 11).Draw(t, "filterKind")
	if depth <= 0 && k >= 8 {
		k = k % 8
	}
	switch {
	case k <= 5 && len(names) > 0: // comparison
		name := names[rapid.IntRange(0, len(names)-1).Draw(t, "field")]
		l := genLit(t, vals[name])
		var op string
		if l.IsNum() {
			op = rapid.SampledFrom([]string{"=", "!=", "<", "<=", ">", ">=", "=", "<", ">"}).Draw(t, "op")
		} else {
			op = rapid.SampledFrom([]string{"=", "=", "=", "!="}).Draw(t, "op")
		}
		return &model.Filter{Kind: "cmp", Field: name, Op: op, Lit: &l}
	case k == 6 || (k <= 5 && len(names) == 0): // term
		return &model.Filter{Kind: "term", Text: rapid.SampledFrom(termWords).Draw(t, "term")}
	case k == 7:
		return &model.Filter{Kind: "phrase", Text: rapid.SampledFrom([]string{"x y", "zz top", "alpha", "a b c", "top zz"}).Draw(t, "phrase")}
	case k == 8 || k == 9:
		n := rapid.IntRange(2, 3).Draw(t, "nKids")
		f := &model.Filter{Kind: "and"}
		if k == 9 {
			f.Kind = "or"
		}
		for i := 0; i < n; i++ {
			f.Kids = append(f.Kids, GenFilter(t, names, vals, depth-1))
		}
		return f
	case k == 10:
		return &model.Filter{Kind: "not", Kids: []*model.Filter{GenFilter(t, names, vals, depth-1)}}
	default:
		f := &model.Filter{Kind: rapid.SampledFrom([]string{"and", "or"}).Draw(t, "bin")}
		f.Kids = []*model.Filter{GenFilter(t, names, vals, depth-1), GenFilter(t, names, vals, depth-1)}
		return f
	}
}
