package gen

import (
	"pgregory.net/rapid"

	"verifharness/model"
)

// Layout describes how a list of events becomes blocks and segments.
type Layout struct {
	Batches    []int  `json:"batches"`    // batch sizes (sum = number of events)
	Flush      []bool `json:"flush"`      // flush after batch i
	Rotate     []bool `json:"rotate"`     // rotate after batch i (implies flush)
	CardLimit  int    `json:"cardLimit"`  // dictionary-encoding cardinality limit (0 = default)
	GoMaxProcs int    `json:"gomaxprocs"` // 0 = leave
	FinalRot   bool   `json:"finalRotate"`
}

// ReferenceLayout is one batch, one block, unrotated, default dictionary limit.
func ReferenceLayout(n int) Layout {
	return Layout{Batches: []int{n}, Flush: []bool{true}, Rotate: []bool{false}}
}

// GenLayout draws a layout for n events.
func GenLayout(t *rapid.T, n int) Layout {
	var l Layout
	rem := n
	maxBatches := 6
	for rem > 0 && len(l.Batches) < maxBatches-1 {
		var b int
		if rapid.IntRange(0, 3).Draw(t, "oneBatch") == 0 {
			b = rem
		} else {
			b = rapid.IntRange(1, rem).Draw(t, "batch")
		}
		l.Batches = append(l.Batches, b)
		rem -= b
	}
	if rem > 0 {
		l.Batches = append(l.Batches, rem)
	}
	for range l.Batches {
		f := rapid.IntRange(0, 9).Draw(t, "flush") < 7
		r := rapid.IntRange(0, 9).Draw(t, "rotate") < 3
		l.Flush = append(l.Flush, f)
		l.Rotate = append(l.Rotate, r)
	}
	l.CardLimit = rapid.SampledFrom([]int{0, 0, 2, 3, 8}).Draw(t, "cardLimit")
	l.GoMaxProcs = rapid.SampledFrom([]int{0, 0, 1, 2, 4, 16}).Draw(t, "gomaxprocs")
	l.FinalRot = rapid.Bool().Draw(t, "finalRotate")
	return l
}

// Blocks returns the number of flushes (≈ blocks) and rotations (≈ segments) the layout causes.
func (l Layout) Blocks() (flushes, rotations int) {
	for i := range l.Batches {
		if l.Flush[i] || l.Rotate[i] || i == len(l.Batches)-1 {
			flushes++
		}
		if l.Rotate[i] {
			rotations++
		}
	}
	if l.FinalRot {
		rotations++
	}
	return
}

// Segments returns the half-open event index ranges [from,to) that end up in the same segment.
func (l Layout) Segments() [][2]int {
	var out [][2]int
	start, pos := 0, 0
	for i, b := range l.Batches {
		pos += b
		if l.Rotate[i] {
			out = append(out, [2]int{start, pos})
			start = pos
		}
	}
	if pos > start {
		out = append(out, [2]int{start, pos})
	}
	return out
}

// BlockRanges returns the half-open event index ranges [from,to) that are flushed together into one block.
func (l Layout) BlockRanges() [][2]int {
	var out [][2]int
	start, pos := 0, 0
	for i, b := range l.Batches {
		pos += b
		if l.Flush[i] || l.Rotate[i] || i == len(l.Batches)-1 {
			out = append(out, [2]int{start, pos})
			start = pos
		}
	}
	return out
}

// StaggerTimestamps re-assigns the event times block by block: every block (flush unit) of the layout gets
// its own time window, drawn independently, so that blocks and segments overlap, nest and interleave in
// time (a block reaching below the start of a newer segment, a segment lying inside another one, ...).
// Ties inside and across windows are frequent on purpose.
func StaggerTimestamps(t *rapid.T, evs []*model.Event, l Layout) {
	for _, r := range l.BlockRanges() {
		start := BaseTs + uint64(rapid.IntRange(0, 40).Draw(t, "winStart"))*10
		length := uint64(rapid.SampledFrom([]int{0, 1, 5, 30, 100, 250}).Draw(t, "winLen"))
		n := r[1] - r[0]
		for i := r[0]; i < r[1]; i++ {
			evs[i].Ts = start + uint64(rapid.Uint64Range(0, length).Draw(t, "winOff"))
		}
		if n >= 2 {
			evs[r[0]].Ts, evs[r[1]-1].Ts = start+length, start // the window is fully used, newest event first
		}
	}
}
