package gen

import (
	"pgregory.net/rapid"

	"verifharness/model"
)

var statFns = []string{"count", "count", "sum", "sum", "min", "max", "avg", "range", "dc", "values", "list", "earliest", "latest", "perc", "median"}

// GenStatsQuery draws a stats / timechart query over the dataset's columns. The optional filter is
// kept only if the reference decides it for every event (so "the events matched by the preceding
// stage" is well defined); otherwise the query aggregates over everything.
func GenStatsQuery(t *rapid.T, ds *Dataset, names []string, vals map[string][]model.Val) *model.StatsQuery {
	q := &model.StatsQuery{}
	// aggregate only over fields that exist somewhere in the index (a field name that never
	// occurred is a user error, outside the statement)
	var existing []string
	for _, n := range names {
		if len(vals[n]) > 0 {
			existing = append(existing, n)
		}
	}
	allNames := names
	names = existing
	if len(allNames) > 0 && rapid.IntRange(0, 2).Draw(t, "withFilter") == 0 {
		f := GenFilter(t, allNames, vals, 1)
		ctx := model.NewCtx(ds.Events)
		ok := true
		for _, e := range ds.Events {
			if f.EvalIn(e, ctx) == model.DontCare {
				ok = false
				break
			}
		}
		if ok && !hasNotOverText(f, false) {
			q.Filter = f
		}
	}
	nm := rapid.IntRange(1, 4).Draw(t, "nMeasures")
	seen := map[string]bool{}
	for i := 0; i < nm; i++ {
		fn := rapid.SampledFrom(statFns).Draw(t, "fn")
		m := model.Measure{Fn: fn}
		if fn == "count" && (len(names) == 0 || rapid.Bool().Draw(t, "plainCount")) {
			// count(*)
		} else if len(names) == 0 {
			m = model.Measure{Fn: "count"}
		} else {
			m.Field = names[rapid.IntRange(0, len(names)-1).Draw(t, "mField")]
			if fn == "perc" {
				m.Perc = rapid.SampledFrom([]int{50, 90, 99, 25}).Draw(t, "perc")
			}
		}
		if seen[m.Key()] {
			continue
		}
		seen[m.Key()] = true
		q.Measures = append(q.Measures, m)
	}
	if rapid.IntRange(0, 4).Draw(t, "timechart") == 0 {
		q.Timechart = true
		sp := rapid.SampledFrom([]struct {
			t  string
			ms uint64
		}{{"1m", 60000}, {"5m", 300000}, {"1h", 3600000}, {"10s", 10000}, {"1s", 1000}}).Draw(t, "span")
		q.SpanText, q.SpanMs = sp.t, sp.ms
		return q
	}
	if len(names) > 0 {
		nb := rapid.IntRange(0, 3).Draw(t, "nBy")
		usedBy := map[string]bool{}
		for i := 0; i < nb; i++ {
			b := names[rapid.IntRange(0, len(names)-1).Draw(t, "byField")]
			if !usedBy[b] {
				usedBy[b] = true
				q.By = append(q.By, b)
			}
		}
	}
	return q
}

func hasNotOverText(f *model.Filter, underNot bool) bool {
	switch f.Kind {
	case "term", "phrase":
		return underNot
	case "not":
		return hasNotOverText(f.Kids[0], true)
	}
	for _, k := range f.Kids {
		if hasNotOverText(k, underNot) {
			return true
		}
	}
	return false
}

// TimechartSplitLimit: timechart keeps the 10 largest series and folds the rest into "other"; the
// generator stays below it so that the split-by answer is fully determined.
const TimechartSplitLimit = 8

// MaybeTimechartBy turns a timechart query into `timechart … by <field>` (half of the time) when the
// dataset has a suitable split-by column: only non-empty strings, at most TimechartSplitLimit distinct values.
func MaybeTimechartBy(t *rapid.T, q *model.StatsQuery, names []string, vals map[string][]model.Val) {
	if !q.Timechart || len(q.By) > 0 {
		return
	}
	var cands []string
	for _, n := range names {
		vs := vals[n]
		if len(vs) == 0 {
			continue
		}
		ok := true
		distinct := map[string]bool{}
		for _, v := range vs {
			if v.K == model.KNull {
				continue
			}
			if v.K != model.KStr || v.S == "" || v.S == "other" || v.S == "NULL" {
				ok = false
				break
			}
			distinct[v.S] = true
		}
		if ok && len(distinct) >= 1 && len(distinct) <= TimechartSplitLimit {
			cands = append(cands, n)
		}
	}
	if len(cands) == 0 || rapid.IntRange(0, 3).Draw(t, "timechartBy") == 0 {
		return
	}
	q.By = []string{cands[rapid.IntRange(0, len(cands)-1).Draw(t, "tcByField")]}
}
