// Package gen holds the rapid generators shared by the property checks.
package gen

import (
	"fmt"
	"math"
	"strconv"
	"strings"

	"pgregory.net/rapid"

	"verifharness/model"
)

// BaseTs is the first timestamp used for generated events (epoch ms, unambiguous millisecond range).
const BaseTs uint64 = 1_700_000_000_000

// Profile of a column: which values it draws.
type Profile int

const (
	PInt Profile = iota
	PFloat
	PBool
	PLowStr
	PHighStr
	PNumText
	PMixNumStr
	PMixNumBool
	PNullOnly
	PIntBig
	PEscStr
	PWidth6Str // strings of 6 bytes: same encoded width (1+2+6) as a number (1+8)
	PMixIntFloat
	PMixNumNumText // JSON numbers and numeric text ("5000", "12", "3.50") in one column
	PIntThenFloat  // integers for the first Cut events, floats afterwards: whole blocks / segments of one kind
	PFloatThenInt  // the reverse
	PUInt          // non-negative integers only: the engine types such a block as unsigned (own range-index / stats branch)
	numProfiles
)

var profileNames = [...]string{"int", "float", "bool", "lowstr", "highstr", "numtext", "mix_num_str", "mix_num_bool",
	"nullonly", "intbig", "escstr", "width6str", "mix_int_float", "mix_num_numtext", "int_then_float", "float_then_int", "uint"}

func (p Profile) String() string { return profileNames[p] }

// Presence pattern of a column.
type Presence int

const (
	PrAlways Presence = iota
	PrSparse
	PrLate   // absent for the first K events
	PrWindow // present only in [K, L)
	PrEarly  // present only for the first K events
)

var presenceNames = [...]string{"always", "sparse", "late", "window", "early"}

func (p Presence) String() string { return presenceNames[p] }

// Shape of a column in the JSON document.
type Shape int

const (
	ShLeaf Shape = iota
	ShNested
	ShArray
)

// Column describes one generated column.
type Column struct {
	Path     []string // JSON path of object keys (len 1 = top level)
	Shape    Shape
	Profile  Profile
	Presence Presence
	K, L     int // presence parameters
	SparseP  int // percent
	Cut      int `json:",omitempty"` // PIntThenFloat / PFloatThenInt: event index at which the kind changes
}

func (c Column) Name() string { return strings.Join(c.Path, ".") }

// Dataset is a generated set of events plus the schema that produced it.
type Dataset struct {
	Columns []Column       `json:"columns"`
	Events  []*model.Event `json:"events"`
}

var topNames = []string{"a", "b", "c", "d", "e", "ab", "abc", "x1", "Name", "msg", "lat", "k_1", "app", "host", "v", "ü", "a-b"}
var nestParents = []string{"n", "obj", "n.m", "http", "a1"}
var leafNames = []string{"x", "y", "z", "code", "id", "val"}

var lowWords = []string{"alpha", "beta", "gamma", "delta", "Alpha", "BETA", "x y", "abcdef", "ghijkl", "a", "", "zz top", "err"}
var numTexts = []string{"12", "007", "1e3", "-4", "3.50", "0", "1", "2", "2.0", "+5", " 7", "0x10", "1_0", "NaN", "inf", "9223372036854775808", "1.5"}
var escStrs = []string{"q\"uote", "back\\slash", "new\nline", "tab\there", "unié", "emoji😀x", "nul\u0001c", "sl/ash", "{\"k\":1}", "[1,2]",
	"sp  ace", "trail ", " lead", "comma,sep", "eq=sign", "pipe|x", "star*x", "percent%d", "漢字", "a.b"}
var w6Strs = []string{"abcdef", "ghijkl", "123456", "ABCDEF", "a b c ", "zzzzzz", "000001", "trueee"}
var intPool = []int64{0, 1, 2, 3, -1, -2, 5, 7, 10, 42, 100, 255, 256, 1000, 65535, 65536, -128, -129, 1 << 31, -(1 << 31) - 1}
var bigInts = []int64{math.MaxInt64, math.MinInt64, math.MaxInt64 - 1, math.MinInt64 + 1, 1 << 53, (1 << 53) + 1, (1 << 53) - 1, -(1 << 53) - 1,
	1 << 62, math.MaxInt32, math.MaxUint32, math.MaxUint32 + 1}
var floatPool = []float64{0.5, -0.5, 1.5, 2.5, 3.25, 1e-3, 0.1, 0.2, 0.30000000000000004, 1e10, -1e10, 1e300, 1e-300, 5e-324, math.MaxFloat64,
	-math.MaxFloat64, 2.0, 100.0, 1.0000000000000002, 123456789.125, 0.0}

// beyondInt64 are integer spellings outside int64: documented to be stored as float64.
var beyondInt64 = []string{"9223372036854775808", "12345678901234567890", "-9223372036854775809", "18446744073709551616", "100000000000000000000"}

// floatSpellings: (text, value) pairs with unusual but valid JSON number spellings.
var floatSpellings = []struct {
	s string
	f float64
}{{"1e3", 1000}, {"1E3", 1000}, {"2.50", 2.5}, {"1.0", 1}, {"-0.0", math.Copysign(0, -1)}, {"0.0", 0}, {"1e-2", 0.01}, {"12.5e1", 125}, {"3.0e0", 3}, {"1e+2", 100}}

func genInt(t *rapid.T) model.Val {
	switch rapid.IntRange(0, 9).Draw(t, "intKind") {
	case 0, 1, 2, 3, 4:
		return model.Int(int64(rapid.IntRange(-3, 12).Draw(t, "smallInt")))
	case 5, 6:
		return model.Int(rapid.SampledFrom(intPool).Draw(t, "poolInt"))
	case 7:
		return model.Int(rapid.Int64().Draw(t, "anyInt"))
	default:
		return model.Int(int64(rapid.IntRange(-1000, 100000).Draw(t, "midInt")))
	}
}

var uintPool = []int64{0, 1, 2, 7, 10, 200, 201, 204, 301, 404, 500, 503, 255, 256, 65535, 65536, 1 << 31, 1 << 32, (1 << 53) + 1, math.MaxInt64}

// genUint draws a non-negative integer: a block holding only such values is stored with the unsigned number type.
func genUint(t *rapid.T) model.Val {
	switch rapid.IntRange(0, 9).Draw(t, "uintKind") {
	case 0, 1, 2, 3, 4:
		return model.Int(int64(rapid.IntRange(0, 12).Draw(t, "smallUint")))
	case 5, 6, 7:
		return model.Int(rapid.SampledFrom(uintPool).Draw(t, "poolUint"))
	default:
		return model.Int(int64(rapid.IntRange(0, 100000).Draw(t, "midUint")))
	}
}

func genFloat(t *rapid.T) model.Val {
	switch rapid.IntRange(0, 9).Draw(t, "floatKind") {
	case 0, 1, 2, 3:
		return model.Float(rapid.SampledFrom(floatPool).Draw(t, "poolFloat"))
	case 4, 5:
		// quarter steps: exactly representable, sums stay exact
		return model.Float(float64(rapid.IntRange(-40, 40).Draw(t, "q")) / 4)
	case 6:
		fs := rapid.SampledFrom(floatSpellings).Draw(t, "spelt")
		return model.Val{K: model.KFloat, F: fs.f, Spell: fs.s}
	case 7:
		s := rapid.SampledFrom(beyondInt64).Draw(t, "beyond")
		f, _ := strconv.ParseFloat(s, 64)
		return model.Val{K: model.KFloat, F: f, Spell: s}
	default:
		f := rapid.Float64().Draw(t, "anyFloat")
		if math.IsNaN(f) || math.IsInf(f, 0) {
			f = 1.25
		}
		return model.Float(f)
	}
}

func genHighStr(t *rapid.T) model.Val {
	return model.Str(rapid.StringMatching(`[a-z]{1,3}[0-9]{1,4}`).Draw(t, "highStr"))
}

func genValue(t *rapid.T, p Profile) model.Val {
	switch p {
	case PInt:
		return genInt(t)
	case PUInt:
		return genUint(t)
	case PIntBig:
		if rapid.Bool().Draw(t, "big") {
			return model.Int(rapid.SampledFrom(bigInts).Draw(t, "bigInt"))
		}
		return genInt(t)
	case PFloat:
		return genFloat(t)
	case PBool:
		return model.Bool(rapid.Bool().Draw(t, "bool"))
	case PLowStr:
		return model.Str(rapid.SampledFrom(lowWords).Draw(t, "low"))
	case PHighStr:
		return genHighStr(t)
	case PNumText:
		return model.Str(rapid.SampledFrom(numTexts).Draw(t, "numtext"))
	case PMixNumStr:
		switch rapid.IntRange(0, 3).Draw(t, "mixKind") {
		case 0:
			return genInt(t)
		case 1:
			return genFloat(t)
		case 2:
			return model.Str(rapid.SampledFrom(w6Strs).Draw(t, "w6"))
		default:
			return model.Str(rapid.SampledFrom(lowWords).Draw(t, "low"))
		}
	case PMixNumBool:
		switch rapid.IntRange(0, 2).Draw(t, "mixKind") {
		case 0:
			return genInt(t)
		case 1:
			return genFloat(t)
		default:
			return model.Bool(rapid.Bool().Draw(t, "bool"))
		}
	case PMixIntFloat:
		if rapid.Bool().Draw(t, "isInt") {
			return genInt(t)
		}
		return genFloat(t)
	case PIntThenFloat:
		return genInt(t) // the caller switches to floats after the column's cut (genValueAt)
	case PFloatThenInt:
		return genFloat(t)
	case PMixNumNumText:
		switch rapid.IntRange(0, 3).Draw(t, "mixKind") {
		case 0:
			return model.Int(int64(rapid.IntRange(-5, 40).Draw(t, "nInt")))
		case 1:
			return model.Float(float64(rapid.IntRange(-40, 400).Draw(t, "nQ")) / 4)
		case 2:
			// numeric text well outside the range of the native numbers
			return model.Str(strconv.Itoa(rapid.IntRange(-9000, 9000).Draw(t, "txtInt")))
		default:
			return model.Str(rapid.SampledFrom([]string{"5000", "12", "3.50", "-7", "0", "1e3", "250.25", "007"}).Draw(t, "txtNum"))
		}
	case PNullOnly:
		return model.Null()
	case PEscStr:
		if rapid.IntRange(0, 4).Draw(t, "escKind") == 0 {
			return model.Str(rapid.String().Draw(t, "anyStr"))
		}
		return model.Str(rapid.SampledFrom(escStrs).Draw(t, "esc"))
	case PWidth6Str:
		return model.Str(rapid.SampledFrom(w6Strs).Draw(t, "w6"))
	}
	return model.Null()
}

// DatasetOpts tune the dataset generator.
type DatasetOpts struct {
	MinEvents, MaxEvents int
	MaxCols              int
	Profiles             []Profile // allowed profiles (nil = all)
	NoNested             bool      // only top-level leaf columns
	TsMode               int       // 0 = generated pattern, 1 = strictly increasing by 1
	NullPct              int       // percent chance a present value is replaced by explicit null
}

func present(c Column, i int, t *rapid.T) bool {
	switch c.Presence {
	case PrAlways:
		return true
	case PrSparse:
		return rapid.IntRange(0, 99).Draw(t, "sp") < c.SparseP
	case PrLate:
		return i >= c.K
	case PrWindow:
		return i >= c.K && i < c.L
	case PrEarly:
		return i < c.K
	}
	return true
}

// GenColumns draws a schema with pairwise non-conflicting flattened names.
func GenColumns(t *rapid.T, o DatasetOpts, n int) []Column {
	nCols := rapid.IntRange(1, o.MaxCols).Draw(t, "nCols")
	used := map[string]bool{"_vid": true, "timestamp": true}
	var cols []Column
	profiles := o.Profiles
	for len(cols) < nCols {
		var c Column
		shape := ShLeaf
		if !o.NoNested {
			switch rapid.IntRange(0, 9).Draw(t, "shape") {
			case 0, 1:
				shape = ShNested
			case 2:
				shape = ShArray
			}
		}
		c.Shape = shape
		switch shape {
		case ShLeaf, ShArray:
			c.Path = []string{rapid.SampledFrom(topNames).Draw(t, "top")}
		case ShNested:
			parent := rapid.SampledFrom(nestParents).Draw(t, "parent")
			c.Path = append(strings.Split(parent, "."), rapid.SampledFrom(leafNames).Draw(t, "leafName"))
		}
		name := c.Name()
		// reject names that equal or are a dotted prefix/extension of an existing one
		conflict := false
		for u := range used {
			if u == name || strings.HasPrefix(u, name+".") || strings.HasPrefix(name, u+".") {
				conflict = true
				break
			}
		}
		if conflict {
			// deterministic fallback name, never conflicting
			c.Path = []string{fmt.Sprintf("col%d", len(cols))}
			c.Shape = ShLeaf
			if shape == ShArray {
				c.Shape = ShArray
			}
			name = c.Name()
		}
		used[name] = true
		if profiles != nil {
			c.Profile = rapid.SampledFrom(profiles).Draw(t, "profile")
		} else {
			c.Profile = Profile(rapid.IntRange(0, int(numProfiles)-1).Draw(t, "profile"))
		}
		c.Presence = Presence(rapid.SampledFrom([]int{0, 0, 0, 1, 1, 2, 3, 4}).Draw(t, "presence"))
		c.SparseP = rapid.SampledFrom([]int{10, 50, 90}).Draw(t, "sparseP")
		if n > 0 {
			c.K = rapid.IntRange(0, n).Draw(t, "K")
			c.L = rapid.IntRange(c.K, n).Draw(t, "L")
			if c.Profile == PIntThenFloat || c.Profile == PFloatThenInt {
				c.Cut = rapid.IntRange(0, n).Draw(t, "kindCut")
			}
		}
		cols = append(cols, c)
	}
	return cols
}

// GenTimestamps draws n timestamps in one of several patterns.
func GenTimestamps(t *rapid.T, n int, mode int) []uint64 {
	ts := make([]uint64, n)
	if mode == 1 {
		for i := range ts {
			ts[i] = BaseTs + uint64(i) + 1
		}
		return ts
	}
	switch rapid.IntRange(0, 5).Draw(t, "tsPattern") {
	case 0: // increasing
		cur := BaseTs
		for i := range ts {
			cur += uint64(rapid.IntRange(1, 1000).Draw(t, "dt"))
			ts[i] = cur
		}
	case 1: // out of order within a small range, with ties
		for i := range ts {
			ts[i] = BaseTs + uint64(rapid.IntRange(0, 20).Draw(t, "ts"))
		}
	case 2: // all equal
		for i := range ts {
			ts[i] = BaseTs + 5
		}
	case 3: // decreasing
		cur := BaseTs + uint64(n)*1000 + 1000
		for i := range ts {
			cur -= uint64(rapid.IntRange(0, 1000).Draw(t, "dt"))
			ts[i] = cur
		}
	case 5: // spread over widths that cross the 1-, 2-, 4- and 8-byte timestamp delta encodings
		width := uint64(1) << uint(rapid.SampledFrom([]int{7, 8, 9, 15, 16, 17, 31, 32, 33, 36}).Draw(t, "tsWidthBits"))
		for i := range ts {
			ts[i] = BaseTs + uint64(rapid.Uint64Range(0, width).Draw(t, "tsOff"))
		}
		if n >= 2 {
			ts[0], ts[n-1] = BaseTs, BaseTs+width // make sure the full width is present
		}
	default: // wide random, clustered on minute boundaries
		for i := range ts {
			m := uint64(rapid.IntRange(0, 5).Draw(t, "min")) * 60000
			off := uint64(rapid.SampledFrom([]int{0, 1, 59999, 30000, 60000 - 1}).Draw(t, "off"))
			ts[i] = BaseTs - BaseTs%60000 + 60000 + m + off
		}
	}
	return ts
}

// GenDataset draws a dataset.
func GenDataset(t *rapid.T, o DatasetOpts) *Dataset {
	if o.MaxCols == 0 {
		o.MaxCols = 6
	}
	if o.MaxEvents == 0 {
		o.MaxEvents = 40
	}
	if o.MinEvents == 0 {
		o.MinEvents = 1
	}
	n := rapid.IntRange(o.MinEvents, o.MaxEvents).Draw(t, "nEvents")
	if o.NullPct > 0 && rapid.Bool().Draw(t, "noExplicitNulls") {
		// half of the datasets carry no explicit null at all: a missing field and an explicit null
		// take different ingest paths (an explicit null marks the column's size inconsistent)
		o.NullPct = 0
	}
	cols := GenColumns(t, o, n)
	tss := GenTimestamps(t, n, o.TsMode)
	ds := &Dataset{Columns: cols}
	for i := 0; i < n; i++ {
		ev := &model.Event{Vid: int64(i + 1), Ts: tss[i]}
		b := newDocBuilder()
		for _, c := range cols {
			if !present(c, i, t) {
				continue
			}
			switch c.Shape {
			case ShArray:
				ln := rapid.IntRange(0, 3).Draw(t, "arrLen")
				arr := model.Node{IsArr: true, Arr: []model.Node{}}
				for j := 0; j < ln; j++ {
					arr.Arr = append(arr.Arr, model.LeafNode(genValue(t, c.Profile)))
				}
				b.put(c.Path, arr)
			default:
				v := genValue(t, c.Profile)
				if i >= c.Cut {
					switch c.Profile {
					case PIntThenFloat:
						v = genFloat(t)
					case PFloatThenInt:
						v = genInt(t)
					}
				}
				if o.NullPct > 0 && rapid.IntRange(0, 99).Draw(t, "nullify") < o.NullPct {
					v = model.Null()
				}
				b.put(c.Path, model.LeafNode(v))
			}
		}
		b.put([]string{"_vid"}, model.LeafNode(model.Int(ev.Vid)))
		doc := b.node()
		// key order: rotate by a drawn amount so the timestamp/_vid are not always last
		if len(doc.Obj) > 1 {
			r := rapid.IntRange(0, len(doc.Obj)-1).Draw(t, "rot")
			doc.Obj = append(doc.Obj[r:], doc.Obj[:r]...)
		}
		ev.Doc = doc
		ds.Events = append(ds.Events, ev)
	}
	return ds
}

type docBuilder struct {
	root *bnode
}
type bnode struct {
	name  string
	leaf  *model.Node
	kids  []*bnode
	index map[string]*bnode
}

func newDocBuilder() *docBuilder { return &docBuilder{root: &bnode{index: map[string]*bnode{}}} }

func (b *docBuilder) put(path []string, n model.Node) {
	cur := b.root
	for i, p := range path {
		k, ok := cur.index[p]
		if !ok {
			k = &bnode{name: p, index: map[string]*bnode{}}
			cur.index[p] = k
			cur.kids = append(cur.kids, k)
		}
		if i == len(path)-1 {
			nn := n
			k.leaf = &nn
		}
		cur = k
	}
}

func (b *docBuilder) node() model.Node { return b.root.toNode() }

func (n *bnode) toNode() model.Node {
	if n.leaf != nil {
		return *n.leaf
	}
	out := model.Node{IsObj: true}
	for _, k := range n.kids {
		out.Obj = append(out.Obj, model.Field{Name: k.name, Node: k.toNode()})
	}
	return out
}

// BulkBody renders events as an ES bulk body for one index. The timestamp is put at a
// position drawn by the caller through tsFirst (deterministic, no randomness here).
func BulkBody(index string, evs []*model.Event) []byte {
	var sb strings.Builder
	for i, e := range evs {
		sb.WriteString(`{"index":{"_index":`)
		sb.WriteString(model.QuoteJSON(index))
		sb.WriteString("}}\n")
		sb.WriteString(EventJSON(e, i%2 == 0))
		sb.WriteString("\n")
	}
	return []byte(sb.String())
}

// EventJSON renders the event document with its timestamp key.
func EventJSON(e *model.Event, tsFirst bool) string {
	doc := e.Doc.JSONText() // {...}
	ts := `"timestamp":` + strconv.FormatUint(e.Ts, 10)
	inner := doc[1 : len(doc)-1]
	if inner == "" {
		return "{" + ts + "}"
	}
	if tsFirst {
		return "{" + ts + "," + inner + "}"
	}
	return "{" + inner + "," + ts + "}"
}
