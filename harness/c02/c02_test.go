package c02

import (
	"errors"
	"fmt"
	"os"
	"path/filepath"
	"sort"
	"strconv"
	"strings"
	"testing"
	"time"

	"pgregory.net/rapid"

	"verifharness/gen"
	"verifharness/model"
	"verifharness/pt"
	"verifharness/sut"
)

// C02 — search filters select exactly the events that satisfy them.

type c02Query struct {
	F     *model.Filter `json:"f"`
	Start uint64        `json:"start"`
	End   uint64        `json:"end"`
	// Widen: after this (narrow-window) query has been answered twice, wait for the persistent-query
	// results it may leave behind and run the same expression over the whole time range
	Widen bool `json:"widen,omitempty"`
}

type c02Case struct {
	DS      *gen.Dataset `json:"ds"`
	Layout  gen.Layout   `json:"layout"`
	Queries []c02Query   `json:"queries"`
}

var c02Profiles = []gen.Profile{gen.PInt, gen.PInt, gen.PFloat, gen.PBool, gen.PLowStr, gen.PLowStr, gen.PHighStr, gen.PNumText,
	gen.PMixNumStr, gen.PMixNumBool, gen.PIntBig, gen.PWidth6Str, gen.PMixIntFloat, gen.PNullOnly, gen.PMixNumNumText, gen.PMixNumNumText, gen.PIntThenFloat, gen.PFloatThenInt, gen.PUInt, gen.PUInt}

func genC02(t *rapid.T) *c02Case {
	ds := gen.GenDataset(t, gen.DatasetOpts{MaxEvents: pt.Scale(40, 150), MaxCols: 5, Profiles: c02Profiles, NullPct: 3})
	cs := &c02Case{DS: ds, Layout: gen.GenLayout(t, len(ds.Events))}
	if rapid.IntRange(0, 2).Draw(t, "staggered") == 0 {
		// per-block time windows that overlap and nest: blocks of a segment are then not in time order
		gen.StaggerTimestamps(t, ds.Events, cs.Layout)
	}
	names, vals := gen.FilterColumns(ds)
	lo, hi := tsBounds(ds.Events)
	nq := rapid.IntRange(1, pt.Scale(6, 12)).Draw(t, "nQueries")
	for i := 0; i < nq; i++ {
		q := c02Query{F: gen.GenFilter(t, names, vals, 2), Start: lo - 1, End: hi + 1}
		switch rapid.IntRange(0, 5).Draw(t, "range") {
		case 0: // boundaries exactly on event timestamps
			a := ds.Events[rapid.IntRange(0, len(ds.Events)-1).Draw(t, "ra")].Ts
			b := ds.Events[rapid.IntRange(0, len(ds.Events)-1).Draw(t, "rb")].Ts
			if a > b {
				a, b = b, a
			}
			q.Start, q.End = a, b
		case 1: // just outside one boundary
			a := ds.Events[rapid.IntRange(0, len(ds.Events)-1).Draw(t, "ra")].Ts
			q.Start = a + 1
		}
		lo0, hi0 := tsBounds(ds.Events)
		if (q.Start > lo0 || q.End < hi0) && rapid.IntRange(0, 1).Draw(t, "widen") == 0 {
			q.Widen = true
		}
		cs.Queries = append(cs.Queries, q)
	}
	return cs
}

func tsBounds(evs []*model.Event) (uint64, uint64) {
	lo, hi := evs[0].Ts, evs[0].Ts
	for _, e := range evs {
		if e.Ts < lo {
			lo = e.Ts
		}
		if e.Ts > hi {
			hi = e.Ts
		}
	}
	return lo, hi
}

type vidSet map[int64]bool

func (s vidSet) sorted() []int64 {
	out := make([]int64, 0, len(s))
	for k := range s {
		out = append(out, k)
	}
	sort.Slice(out, func(i, j int) bool { return out[i] < out[j] })
	return out
}

func runQuery(c *sut.Client, index, text string, start, end uint64, n int) (vidSet, error) {
	sr, err := c.Search(sut.Query{Index: index, Text: text, Start: start, End: end, Size: n + 10})
	if err != nil {
		if errors.Is(err, sut.ErrWorkerDied) {
			return nil, fmt.Errorf("server process died on query %q: %s", text, pt.CrashDetail(c))
		}
		if errors.Is(err, sut.ErrTimeout) {
			return nil, pt.Inconclusivef("query %q exceeded the per-command time budget", text)
		}
		return nil, fmt.Errorf("query %q: %v", text, err)
	}
	if sr.Err != "" {
		return nil, &queryRejected{text: text, msg: sr.Err}
	}
	if len(sr.Errors) > 0 {
		return nil, fmt.Errorf("query %q answered with errors %v", text, sr.Errors)
	}
	out := vidSet{}
	for _, r := range sr.Records {
		v, ok := r["_vid"].Int()
		if !ok {
			return nil, fmt.Errorf("query %q returned a record without integer _vid: %v", text, r)
		}
		if out[v] {
			return nil, fmt.Errorf("query %q returned _vid=%d twice", text, v)
		}
		out[v] = true
	}
	return out, nil
}

type queryRejected struct{ text, msg string }

func (q *queryRejected) Error() string { return fmt.Sprintf("query %q rejected: %s", q.text, q.msg) }

func describe(evs []*model.Event, vid int64) string {
	for _, e := range evs {
		if e.Vid == vid {
			return gen.EventJSON(e, true)
		}
	}
	return "?"
}

func checkC02(cs *c02Case, o *pt.Obs) error {
	evs := cs.DS.Events
	flushes, rots := cs.Layout.Blocks()
	if flushes >= 2 {
		o.Class("multi_block")
	}
	if rots >= 1 {
		o.Class("rotated")
	}
	dataDir := pt.NewDataDir()
	defer pt.CleanupDataDir(dataDir)
	return pt.WithWorker(sut.Options{DataDir: dataDir}, func(c *sut.Client) error {
		if err := ingest(c, "c02idx", evs, cs.Layout); err != nil {
			return err
		}
		for qi, q := range cs.Queries {
			if err := checkOneQuery(c, cs, qi, q, o); err != nil {
				return err
			}
			if q.Widen {
				// same expression again (a repeated filter is kept as a persistent query and its match
				// results are written to disk in the background), then over the whole time range
				if err := checkOneQuery(c, cs, qi, q, o); err != nil {
					return fmt.Errorf("second run: %v", err)
				}
				waitForPqmr(dataDir, 1200*time.Millisecond)
				lo, hi := tsBounds(evs)
				wide := c02Query{F: q.F, Start: lo - 1, End: hi + 1}
				if err := checkOneQuery(c, cs, qi, wide, o); err != nil {
					return fmt.Errorf("after the same expression ran over [%d,%d]: %v", q.Start, q.End, err)
				}
				o.Class("narrow_then_wide")
			}
		}
		return nil
	})
}

func ingest(c *sut.Client, index string, evs []*model.Event, l gen.Layout) error {
	if l.CardLimit > 0 {
		if err := c.Set("cardLimit", int64(l.CardLimit)); err != nil {
			return err
		}
	}
	if l.GoMaxProcs > 0 {
		if err := c.Set("gomaxprocs", int64(l.GoMaxProcs)); err != nil {
			return err
		}
	}
	pos := 0
	for i, b := range l.Batches {
		batch := evs[pos : pos+b]
		pos += b
		br, err := c.Bulk(0, gen.BulkBody(index, batch))
		if err != nil {
			if errors.Is(err, sut.ErrWorkerDied) {
				return fmt.Errorf("server died during bulk: %s", pt.CrashDetail(c))
			}
			return fmt.Errorf("bulk: %v", err)
		}
		if br.Err != "" || strings.Contains(string(br.Response), `"errors":true`) {
			return fmt.Errorf("bulk batch %d not accepted: %s %s", i, br.Err, br.Response)
		}
		if l.Flush[i] || l.Rotate[i] || i == len(l.Batches)-1 {
			if err := c.Flush(); err != nil {
				return fmt.Errorf("flush: %v", err)
			}
		}
		if l.Rotate[i] {
			if err := c.Rotate(); err != nil {
				return fmt.Errorf("rotate: %v", err)
			}
		}
	}
	if l.FinalRot {
		if err := c.Rotate(); err != nil {
			return fmt.Errorf("rotate: %v", err)
		}
	}
	return nil
}

func inRange(e *model.Event, q c02Query) bool { return e.Ts >= q.Start && e.Ts <= q.End }

// notOverText reports whether a NOT is applied to a sub-expression containing a free-text term or phrase.
func notOverText(f *model.Filter, underNot bool) bool {
	switch f.Kind {
	case "term", "phrase":
		return underNot
	case "not":
		return notOverText(f.Kids[0], true)
	}
	for _, k := range f.Kids {
		if notOverText(k, underNot) {
			return true
		}
	}
	return false
}

func checkOneQuery(c *sut.Client, cs *c02Case, qi int, q c02Query, o *pt.Obs) error {
	evs := cs.DS.Events
	text := q.F.SPL()
	if notOverText(q.F, false) && pt.KnownFindingOpen("C02-not-freetext") {
		// known finding: a negated free-text term is evaluated as "some column != term" over the
		// columns whose bloom contains the term; the class is excluded so the search continues.
		o.Known("C02-not-freetext")
		return nil
	}
	got, err := runQuery(c, "c02idx", text, q.Start, q.End, len(evs))
	if err != nil {
		var rej *queryRejected
		if errors.As(err, &rej) {
			// A supported expression must not be rejected.
			return fmt.Errorf("query %d: %v", qi, err)
		}
		return fmt.Errorf("query %d: %v", qi, err)
	}
	o.Class("root_" + q.F.Kind)
	ctx := model.NewCtx(evs)
	if pt.KnownFindingOpen("C01-numtext-to-number") {
		// while numeric text sharing a block with numbers is stored as numbers (the conversion that
		// finding is about), comparisons on those values are numeric by value
		var blocks [][]*model.Event
		for _, r := range cs.Layout.BlockRanges() {
			blocks = append(blocks, evs[r[0]:r[1]])
		}
		ctx.NumericConsolidation(blocks)
	}
	// (1) reference evaluation, strict zones only
	nT, nF, nDC := 0, 0, 0
	for _, e := range evs {
		if !inRange(e, q) {
			if got[e.Vid] {
				return fmt.Errorf("query %d %q range [%d,%d]: returned _vid=%d whose timestamp %d is outside the range", qi, text, q.Start, q.End, e.Vid, e.Ts)
			}
			continue
		}
		switch q.F.EvalIn(e, ctx) {
		case model.True:
			nT++
			if !got[e.Vid] {
				return fmt.Errorf("query %d %q range [%d,%d]: event _vid=%d satisfies the expression but is missing\n  event: %s\n  returned: %v",
					qi, text, q.Start, q.End, e.Vid, gen.EventJSON(e, true), got.sorted())
			}
		case model.False:
			nF++
			if got[e.Vid] {
				return fmt.Errorf("query %d %q range [%d,%d]: event _vid=%d does not satisfy the expression but was returned\n  event: %s",
					qi, text, q.Start, q.End, e.Vid, gen.EventJSON(e, true))
			}
		default:
			nDC++
		}
	}
	o.Count("verdict_true", int64(nT))
	o.Count("verdict_false", int64(nF))
	o.Count("verdict_dontcare", int64(nDC))
	if nT > 0 && nF > 0 {
		o.NonTrivial()
		o.Class("strict_subset")
	}
	if q.Start > 0 {
		lo, hi := tsBounds(evs)
		if q.Start > lo || q.End < hi {
			o.Class("range_cuts")
		}
	}
	// (2) metamorphic relations, engine against itself
	switch q.F.Kind {
	case "and", "or":
		var acc vidSet
		for i, k := range q.F.Kids {
			ks, err := runQuery(c, "c02idx", k.SPL(), q.Start, q.End, len(evs))
			if err != nil {
				return fmt.Errorf("query %d operand %d: %v", qi, i, err)
			}
			if acc == nil {
				acc = ks
				continue
			}
			nxt := vidSet{}
			if q.F.Kind == "and" {
				for v := range acc {
					if ks[v] {
						nxt[v] = true
					}
				}
			} else {
				for v := range acc {
					nxt[v] = true
				}
				for v := range ks {
					nxt[v] = true
				}
			}
			acc = nxt
		}
		// Compare on the events for which every leaf verdict is stated: in the silent zones
		// (absent field under !=, type-mismatched comparisons, ...) block pruning may legitimately
		// differ between the combined query and its operands.
		gotD, accD := vidSet{}, vidSet{}
		for _, e := range evs {
			if q.F.Decided(e, ctx) {
				if got[e.Vid] {
					gotD[e.Vid] = true
				}
				if acc[e.Vid] {
					accD[e.Vid] = true
				}
			}
		}
		if d := diffSets(gotD, accD); d != "" {
			what := "intersection"
			if q.F.Kind == "or" {
				what = "union"
			}
			return fmt.Errorf("query %d %q is not the %s of its operands' results: %s\n  combined: %v\n  from operands: %v", qi, text, what, d, got.sorted(), acc.sorted())
		}
		o.Class("meta_setalgebra")
	case "not":
		ks, err := runQuery(c, "c02idx", q.F.Kids[0].SPL(), q.Start, q.End, len(evs))
		if err != nil {
			return fmt.Errorf("query %d operand: %v", qi, err)
		}
		all, err := runQuery(c, "c02idx", "*", q.Start, q.End, len(evs))
		if err != nil {
			return err
		}
		// complement, on the events that carry every field the operand compares (for events
		// lacking one the engine negates operator-wise and the statement is silent)
		for _, e := range evs {
			if !inRange(e, q) || !q.F.Kids[0].Decided(e, ctx) {
				continue
			}
			if !all[e.Vid] {
				continue
			}
			if got[e.Vid] == ks[e.Vid] {
				return fmt.Errorf("query %d: %q and its operand %q both %s _vid=%d (NOT must be the complement on events carrying the compared fields)\n  event: %s",
					qi, text, q.F.Kids[0].SPL(), map[bool]string{true: "return", false: "omit"}[got[e.Vid]], e.Vid, gen.EventJSON(e, true))
			}
		}
		o.Class("meta_complement")
	case "cmp":
		if q.F.Lit.IsNum() {
			// search clause vs where stage, on events whose field is numeric
			wtext := "* | where '" + q.F.Field + "'" + whereOp(q.F.Op) + q.F.Lit.Text()
			ws, err := runQuery(c, "c02idx", wtext, q.Start, q.End, len(evs))
			if err != nil {
				return fmt.Errorf("query %d where-form: %v", qi, err)
			}
			for _, e := range evs {
				if !inRange(e, q) {
					continue
				}
				flat, _ := e.Flat()
				v, ok := flat[q.F.Field]
				if !ok || !v.IsNum() {
					continue
				}
				if colHasNonNumeric(evs, q.F.Field) {
					continue // consolidated column: the value may be stored as text
				}
				if big := float64(1 << 53); v.Num() >= big || v.Num() <= -big {
					continue // beyond 2^53 the where stage compares through float64
				}
				if model.EvalCmp(&v, q.F.Op, *q.F.Lit) == model.DontCare {
					continue // float-equality tolerance band / beyond-2^53 precision: not stated
				}
				if got[e.Vid] != ws[e.Vid] {
					return fmt.Errorf("query %d: search clause %q and %q disagree on numeric field value %s of _vid=%d (search=%v where=%v)",
						qi, text, wtext, v, e.Vid, got[e.Vid], ws[e.Vid])
				}
			}
			o.Class("meta_where")
			// literal respelling
			alt := *q.F.Lit
			if alt.K == model.LInt && model.ExactFloat(alt.I) && alt.I < 1<<53 && alt.I > -(1<<53) {
				if alt.Spell == "" {
					alt.Spell = strconv.FormatInt(alt.I, 10) + ".0"
				} else {
					alt.Spell = ""
				}
				atext := q.F.Field + q.F.Op + alt.Text()
				as, err := runQuery(c, "c02idx", atext, q.Start, q.End, len(evs))
				if err != nil {
					return fmt.Errorf("query %d respelt: %v", qi, err)
				}
				if d := diffSets(got, as); d != "" {
					return fmt.Errorf("query %d: %q and %q (same number, different spelling) return different events: %s", qi, text, atext, d)
				}
				o.Class("meta_respell")
			}
		}
	}
	return nil
}

func colHasNonNumeric(evs []*model.Event, field string) bool {
	for _, e := range evs {
		f, _ := e.Flat()
		if v, ok := f[field]; ok && !v.IsNum() {
			return true
		}
	}
	return false
}

func whereOp(op string) string {
	if op == "=" {
		return "="
	}
	return op
}

func diffSets(a, b vidSet) string {
	var onlyA, onlyB []int64
	for v := range a {
		if !b[v] {
			onlyA = append(onlyA, v)
		}
	}
	for v := range b {
		if !a[v] {
			onlyB = append(onlyB, v)
		}
	}
	if len(onlyA) == 0 && len(onlyB) == 0 {
		return ""
	}
	sort.Slice(onlyA, func(i, j int) bool { return onlyA[i] < onlyA[j] })
	sort.Slice(onlyB, func(i, j int) bool { return onlyB[i] < onlyB[j] })
	return fmt.Sprintf("only in first %v, only in second %v", onlyA, onlyB)
}

func TestC02(t *testing.T) { pt.RunProp(t, "C02", genC02, checkC02) }

// waitForPqmr waits until the number of persistent-query result files under the data directory has stopped
// growing (they are written in the background after a query), at most max. Waiting too little can only
// make the check miss something, never fail.
func waitForPqmr(dataDir string, max time.Duration) {
	count := func() int {
		n := 0
		_ = filepath.Walk(dataDir, func(p string, info os.FileInfo, err error) error {
			if err == nil && !info.IsDir() && strings.HasSuffix(p, ".pqmr") {
				n++
			}
			return nil
		})
		return n
	}
	deadline := time.Now().Add(max)
	last, stable := count(), 0
	for time.Now().Before(deadline) {
		time.Sleep(60 * time.Millisecond)
		n := count()
		if n == last && n > 0 {
			stable++
			if stable >= 3 {
				return
			}
		} else {
			stable = 0
		}
		last = n
	}
}
