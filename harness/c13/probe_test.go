package c13

import (
	"encoding/json"
	"fmt"
	"os"
	"sort"
	"strings"
	"testing"
	"time"

	"verifharness/pt"
	"verifharness/sut"
)

const T0 = uint64(1_700_000_000_000)

func body(org int64, index string, vids ...int) []byte {
	var sb strings.Builder
	for _, v := range vids {
		a, _ := json.Marshal(map[string]interface{}{"index": map[string]string{"_index": index}})
		sb.Write(a)
		sb.WriteString("\n")
		d, _ := json.Marshal(map[string]interface{}{"timestamp": T0 + uint64(v), "_vid": v, "org_m": org, "idx_m": index,
			fmt.Sprintf("mk_o%d_%s", org, strings.NewReplacer(".", "_", "-", "_").Replace(index)): 1})
		sb.Write(d)
		sb.WriteString("\n")
	}
	return []byte(sb.String())
}

func TestProbe(t *testing.T) {
	if os.Getenv("C13_PROBE") == "" {
		t.Skip()
	}
	err := pt.WithWorker(sut.Options{Orgs: []int64{0, 1, 2}, Features: []string{"c13dirs"}}, func(c *sut.Client) error {
		q := func(org int64, idx, text string) {
			st := time.Now()
			sr, err := c.Search(sut.Query{Org: org, Index: idx, Text: text, Start: T0 - 1, End: T0 + 100000, Size: 1000})
			if err != nil {
				fmt.Printf("  Q org=%d idx=%q %q: ERR %v\n", org, idx, text, err)
				return
			}
			var got []string
			for _, r := range sr.Records {
				got = append(got, fmt.Sprintf("%s/%s/%s/_index=%s", r["_vid"].Raw(), r["org_m"].Raw(), r["idx_m"].Raw(), r["_index"].Raw()))
			}
			for _, m := range sr.Measure {
				got = append(got, fmt.Sprintf("%v=%v", m.GroupBy, m.Vals))
			}
			sort.Strings(got)
			fmt.Printf("  Q org=%d idx=%q %q (%v): err=%q errors=%v %v cols=%v\n", org, idx, text, time.Since(st), sr.Err, sr.Errors, got, sr.AllColumns)
		}
		h := func(name string, org int64, args map[string]string, body []byte) {
			var hr sut.HTTPResult
			err := c.Call(&sut.Req{Op: "c13.http", Name: name, Org: org, Args: args, Body: body}, &hr)
			fmt.Printf("  H %s org=%d %v %s -> %v %d %s\n", name, org, args, body, err, hr.Status, hr.Body)
		}
		vid := 0
		ing := func(org int64, idx string, n int) {
			var vs []int
			for i := 0; i < n; i++ {
				vid++
				vs = append(vs, vid)
			}
			br, err := c.Bulk(org, body(org, idx, vs...))
			fmt.Printf("  ingest org=%d %s %v -> %v %s %s\n", org, idx, vs, err, br.Err, br.Response)
		}
		ing(0, "app", 2)
		ing(1, "app", 2)
		ing(2, "app", 1)
		ing(1, "appzx", 1)
		ing(1, "app.x", 1)
		ing(1, "App", 1)
		ing(0, "a+b", 1)
		ing(0, "ab", 1)
		ing(0, "aab", 1)
		_ = c.Flush()
		fmt.Println("after flush")
		for org := int64(0); org < 3; org++ {
			q(org, "*", "*")
			q(org, "app", "*")
			q(org, "app", "* | stats count by idx_m, org_m")
		}
		q(1, "app.*", "*")
		q(1, "*", "index=app")
		q(1, "*", "index=app.x")
		q(1, "*", "index=\"app.x\"")
		q(1, "*", "index=app*")
		q(1, "*", "index=app* | stats count by idx_m")
		q(1, "*", "index=App")
		q(0, "*", "index=\"a+b\"")
		q(1, "zz", "index=app")
		q(1, "app*", "*")
		q(1, "APP", "*")
		q(0, "a+b", "*")
		q(0, "a+*", "*")
		h("list.indices", 0, nil, nil)
		h("list.indices", 1, nil, nil)
		h("list.columns", 1, nil, []byte(`{"indexName":"app","startEpoch":1699999999999,"endEpoch":1700000100000}`))
		h("alias.put", 1, map[string]string{"uv.indexName": "app", "uv.aliasName": "al"}, nil)
		h("alias.post", 2, nil, []byte(`{"actions":[{"add":{"index":"app","alias":"al"}}]}`))
		h("alias.post", 0, nil, []byte(`{"actions":[{"add":{"index":"ab","alias":"al"}}]}`))
		for org := int64(0); org < 3; org++ {
			q(org, "al", "*")
			q(org, "a*", "* | stats count by idx_m, org_m")
		}
		_ = c.Rotate()
		fmt.Println("after rotate")
		ing(0, "app", 1)
		ing(1, "app", 1)
		ing(2, "app", 1)
		_ = c.Flush()
		for org := int64(0); org < 3; org++ {
			q(org, "*", "* | stats count by idx_m, org_m")
		}
		h("index.delete", 1, map[string]string{"uv.indexName": "app"}, nil)
		fmt.Println("after delete app of org 1")
		for org := int64(0); org < 3; org++ {
			q(org, "*", "* | stats count by idx_m, org_m")
			q(org, "app", "*")
			q(org, "al", "*")
		}
		h("list.indices", 0, nil, nil)
		h("list.indices", 1, nil, nil)
		ing(1, "app", 1)
		_ = c.Flush()
		fmt.Println("after re-ingest app of org 1")
		for org := int64(0); org < 3; org++ {
			q(org, "app", "*")
			q(org, "al", "*")
		}
		return nil
	})
	if err != nil {
		t.Fatal(err)
	}
}
