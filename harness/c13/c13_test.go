package c13

import (
	"encoding/json"
	"errors"
	"fmt"
	"os"
	"sort"
	"strconv"
	"strings"
	"testing"
	"time"

	"pgregory.net/rapid"

	"verifharness/pt"
	"verifharness/sut"
)

// C13 — searches see only the requested indexes of the requesting tenant; deleting an index removes
// all of its data and nothing else.
//
// A case is a recorded history: steps = one mutating operation + a batch of (tenant, index expression,
// query form) probes. check() replays the history against a fresh three-tenant worker and a model
// (tenant, index) → events, tenant → alias → indexes, and compares after every step.

// ---- case -----------------------------------------------------------------------------------------

type ingestPart struct {
	Org  int64  `json:"org"`
	Name string `json:"name"`
	N    int    `json:"n"`
}

type opT struct {
	K       string       `json:"k"` // ingest | flush | rotate | alias_add | alias_rm | delete
	Parts   []ingestPart `json:"parts,omitempty"`
	NoFlush bool         `json:"noflush,omitempty"` // ingest: leave the events in the write buffer
	Org     int64        `json:"org,omitempty"`
	Name    string       `json:"name,omitempty"`  // alias ops: index name; delete: index expression
	Alias   string       `json:"alias,omitempty"` // alias ops
	Via     string       `json:"via,omitempty"`   // alias_add: put | post
}

type queryT struct {
	Org  int64  `json:"org"`
	Expr string `json:"expr"`
	Form string `json:"form"` // search | stats | listcols
}

type stepT struct {
	Op      opT      `json:"op"`
	Queries []queryT `json:"queries,omitempty"`
}

type c13Case struct {
	Names   []string `json:"names"`   // index-name pool of the case (marker column ids are positions in it)
	Aliases []string `json:"aliases"` // alias-name pool of the case (disjoint from Names)
	Steps   []stepT  `json:"steps"`
}

var orgs = []int64{0, 1, 2}

const baseTs = uint64(1_700_000_000_000)

// ---- generator ------------------------------------------------------------------------------------

// Index names: prefixes of each other, names that differ in one character, upper/lower case variants and
// names with characters that are regular-expression metacharacters but ordinary in an index name
// ('.', '+', '-', '(', ')', '[', ']', '{', '}', '$' are all accepted by Elasticsearch as well).
// Not in the pool (don't-care zones): ':' (remote-cluster syntax is stripped), ',' and '*' (expression
// syntax), '/' and '..' (path elements, C19), the internal indexes traces/red-traces/service-dependency
// and .kibana*.
var nameFamilies = [][]string{
	{"app", "app1", "app.x", "appzx", "app-x", "App", "ap", "apq"},
	{"ab", "a-b", "a+b", "aab", "a.b", "axb", "AB", "b"},
	{"lg", "l(g)", "l[g]", "llg", "c{2}", "cc", "p$", "p", "l(g"},
}

var aliasPool = []string{"al", "apps", "all-app", "a", "lgs", "zz", "a.l"}

func pick[T any](t *rapid.T, label string, xs []T) T {
	return xs[rapid.IntRange(0, len(xs)-1).Draw(t, label)]
}

// flat draws from [0,n): rapid's integer draws favour small values, which would make the first alternatives
// of every choice dominate; the draw is rotated by a per-case salt and the position in the case.
func flat(t *rapid.T, label string, n, salt, pos int) int {
	return (rapid.IntRange(0, n-1).Draw(t, label) + salt + pos*37) % n
}

func wildcardFrom(t *rapid.T, s string) string {
	r := []rune(s)
	k := rapid.IntRange(0, len(r)).Draw(t, "wcCut")
	switch rapid.IntRange(0, 5).Draw(t, "wcKind") {
	case 0, 1: // prefix*
		if k == 0 {
			k = len(r)
		}
		return string(r[:k]) + "*"
	case 2: // whole name + *
		return s + "*"
	case 3: // *suffix
		if k == len(r) {
			k = 0
		}
		return "*" + string(r[k:])
	case 4: // one character replaced by *
		if k == len(r) {
			k = len(r) - 1
		}
		return string(r[:k]) + "*" + string(r[k+1:])
	default: // * inserted
		return string(r[:k]) + "*" + string(r[k:])
	}
}

func genAtom(t *rapid.T, names, aliases []string, allowAlias bool) string {
	switch k := rapid.IntRange(0, 9).Draw(t, "atomKind"); {
	case k <= 2:
		return pick(t, "atomName", names)
	case k <= 6:
		base := names
		if allowAlias && rapid.IntRange(0, 3).Draw(t, "wcFromAlias") == 3 {
			base = aliases
		}
		return wildcardFrom(t, pick(t, "wcBase", base))
	case k <= 8 && allowAlias:
		return pick(t, "atomAlias", aliases)
	default:
		return "*"
	}
}

func genExpr(t *rapid.T, names, aliases []string) string {
	n := 1
	if rapid.IntRange(0, 9).Draw(t, "exprList") >= 7 {
		n = rapid.IntRange(2, 3).Draw(t, "exprListLen")
	}
	parts := make([]string, n)
	for i := range parts {
		parts[i] = genAtom(t, names, aliases, true)
	}
	return strings.Join(parts, ",")
}

func genC13(t *rapid.T) *c13Case {
	// name pool: mostly one family (so that names collide by prefix / metacharacter), sometimes mixed
	var src []string
	if f := rapid.IntRange(0, 3).Draw(t, "family"); f < 3 {
		src = nameFamilies[f]
	} else {
		for _, fam := range nameFamilies {
			src = append(src, fam...)
		}
	}
	perm := rapid.Permutation(src).Draw(t, "namePerm")
	names := append([]string(nil), perm[:rapid.IntRange(2, 5).Draw(t, "nNames")]...)
	aperm := rapid.Permutation(aliasPool).Draw(t, "aliasPerm")
	aliases := append([]string(nil), aperm[:rapid.IntRange(1, 3).Draw(t, "nAliases")]...)
	cs := &c13Case{Names: names, Aliases: aliases}
	salt := rapid.IntRange(0, 9999).Draw(t, "salt")

	// generator-side shadow of which (tenant, name) pairs hold data: used only to aim operations at
	// interesting targets; the oracle recomputes everything from the recorded steps.
	type key struct {
		org  int64
		name string
	}
	held := map[key]bool{}
	var heldKeys []key
	hold := func(k key) {
		if !held[k] {
			held[k] = true
			heldKeys = append(heldKeys, k)
		}
	}
	type link struct {
		org   int64
		alias string
		name  string
	}
	var links []link
	genPart := func() ingestPart {
		p := ingestPart{Org: pick(t, "org", orgs), Name: pick(t, "name", names), N: rapid.IntRange(1, 4).Draw(t, "n")}
		// aim: the same name under another tenant
		if len(heldKeys) > 0 && rapid.IntRange(0, 9).Draw(t, "aimShared") >= 5 {
			k := pick(t, "sharedOf", heldKeys)
			p.Name = k.name
			p.Org = orgs[(int(k.org)+rapid.IntRange(1, 2).Draw(t, "otherOrg"))%3]
		}
		hold(key{p.Org, p.Name})
		return p
	}
	nSteps := rapid.IntRange(4, pt.Scale(14, 22)).Draw(t, "nSteps")
	for i := 0; i < nSteps; i++ {
		var op opT
		k := flat(t, "opKind", 100, salt, i)
		if i < 2 {
			k = 0
		}
		switch {
		case k < 34:
			op = opT{K: "ingest"}
			np := rapid.IntRange(1, 3).Draw(t, "nParts")
			for j := 0; j < np; j++ {
				op.Parts = append(op.Parts, genPart())
			}
			op.NoFlush = flat(t, "noFlush", 10, salt, i) == 9
		case k < 56:
			op = opT{K: "delete", Org: pick(t, "org", orgs)}
			switch d := flat(t, "delKind", 10, salt, i); {
			case d <= 5 && len(heldKeys) > 0: // an index that holds data
				kk := pick(t, "delOf", heldKeys)
				op.Org, op.Name = kk.org, kk.name
			case d <= 7 && len(heldKeys) > 0: // the name holds data under another tenant
				kk := pick(t, "delOf", heldKeys)
				op.Org, op.Name = orgs[(int(kk.org)+rapid.IntRange(1, 2).Draw(t, "otherOrg"))%3], kk.name
			case d == 8 || (d <= 7 && len(heldKeys) == 0):
				op.Name = wildcardFrom(t, pick(t, "wcBase", names))
			default:
				op.Name = pick(t, "name", names)
			}
		case k < 76:
			op = opT{K: "alias_add", Org: pick(t, "org", orgs), Name: pick(t, "name", names), Alias: pick(t, "alias", aliases),
				Via: pick(t, "via", []string{"put", "post"})}
			if len(heldKeys) > 0 && flat(t, "aimHeld", 10, salt, i) >= 3 {
				kk := pick(t, "aliasOf", heldKeys)
				op.Org, op.Name = kk.org, kk.name
			}
			// aim: an alias name another tenant uses already
			if len(links) > 0 && flat(t, "aimSharedAlias", 10, salt, i) >= 5 {
				l := pick(t, "aliasLike", links)
				op.Alias = l.alias
				if l.org == op.Org {
					op.Org = orgs[(int(l.org)+rapid.IntRange(1, 2).Draw(t, "otherOrg"))%3]
					if flat(t, "sameIndexName", 2, salt, i) == 0 {
						op.Name = l.name
					}
				}
			}
			links = append(links, link{op.Org, op.Alias, op.Name})
		case k < 84:
			op = opT{K: "alias_rm", Org: pick(t, "org", orgs), Name: pick(t, "name", names), Alias: pick(t, "alias", aliases)}
			if len(links) > 0 && flat(t, "rmExisting", 10, salt, i) >= 3 {
				l := pick(t, "rmOf", links)
				op.Org, op.Name, op.Alias = l.org, l.name, l.alias
			}
		case k < 95:
			op = opT{K: "rotate"}
		default:
			op = opT{K: "flush"}
		}
		st := stepT{Op: op}
		nq := rapid.IntRange(1, 4).Draw(t, "nQueries")
		for j := 0; j < nq; j++ {
			q := queryT{Org: pick(t, "qOrg", orgs), Expr: genExpr(t, names, aliases),
				Form: []string{"search", "stats", "search", "listcols"}[flat(t, "form", 4, salt, i+j)]}
			// aim: through an alias that exists — as the tenant that owns it, or as another one
			if len(links) > 0 && flat(t, "aimAlias", 10, salt, i+j) >= 7 {
				l := pick(t, "qAliasOf", links)
				q.Expr = l.alias
				if flat(t, "qAliasWild", 4, salt, i+j) == 0 {
					q.Expr = wildcardFrom(t, l.alias)
				}
				if flat(t, "qAliasOwner", 10, salt, i+j) < 6 {
					q.Org = l.org
				}
			}
			st.Queries = append(st.Queries, q)
		}
		cs.Steps = append(cs.Steps, st)
	}
	return cs
}

// ---- model ----------------------------------------------------------------------------------------

type mkey struct {
	org  int64
	name string
}

type event struct {
	vid     int64
	org     int64
	name    string
	pending bool // acknowledged but not flushed yet: may be returned, need not be
}

const (
	linkCertain   = 1
	linkUncertain = 2 // the statement does not fix whether the link exists (see NOTES.md): tolerated both ways
)

type mdl struct {
	nameID map[string]int
	live   map[mkey][]*event
	ever   map[mkey]bool                       // (tenant, name) was ingested at some time
	alias  map[int64]map[string]map[string]int // tenant → alias → index → link state
	byVid  map[int64]*event
	next   int64
}

func newModel(cs *c13Case) *mdl {
	m := &mdl{nameID: map[string]int{}, live: map[mkey][]*event{}, ever: map[mkey]bool{},
		alias: map[int64]map[string]map[string]int{}, byVid: map[int64]*event{}}
	add := func(n string) {
		if _, ok := m.nameID[n]; !ok {
			m.nameID[n] = len(m.nameID)
		}
	}
	for _, n := range cs.Names {
		add(n)
	}
	for _, st := range cs.Steps { // hand-written replay files may name indexes outside the pool
		for _, p := range st.Op.Parts {
			add(p.Name)
		}
	}
	return m
}

func (m *mdl) markerCol(org int64, name string) string {
	return fmt.Sprintf("mk_%d_%d", org, m.nameID[name])
}

// globMatch: '*' matches any (possibly empty) character sequence, every other character matches itself.
func globMatch(pat, s string) bool {
	p, x := []rune(pat), []rune(s)
	pi, xi, star, mark := 0, 0, -1, 0
	for xi < len(x) {
		switch {
		case pi < len(p) && p[pi] == '*':
			star, mark = pi, xi
			pi++
		case pi < len(p) && p[pi] == x[xi]:
			pi++
			xi++
		case star >= 0:
			pi = star + 1
			mark++
			xi = mark
		default:
			return false
		}
	}
	for pi < len(p) && p[pi] == '*' {
		pi++
	}
	return pi == len(p)
}

func (m *mdl) linksOf(org int64, alias string) map[string]int { return m.alias[org][alias] }

// expand returns the index names the expression names for the tenant: must ⊆ may. They differ only
// through uncertain alias links.
func (m *mdl) expand(org int64, expr string) (must, may map[string]bool) {
	must, may = map[string]bool{}, map[string]bool{}
	addLinks := func(links map[string]int) {
		for idx, st := range links {
			may[idx] = true
			if st == linkCertain {
				must[idx] = true
			}
		}
	}
	for _, part := range strings.Split(expr, ",") {
		if part == "" {
			continue
		}
		if strings.Contains(part, "*") {
			for k := range m.live {
				if k.org == org && globMatch(part, k.name) {
					must[k.name], may[k.name] = true, true
				}
			}
			for al, links := range m.alias[org] {
				if globMatch(part, al) {
					addLinks(links)
				}
			}
			continue
		}
		links := m.linksOf(org, part)
		certain := false
		for _, st := range links {
			if st == linkCertain {
				certain = true
			}
		}
		addLinks(links)
		if !certain { // not (or not surely) an alias: the name itself
			may[part] = true
			if len(links) == 0 {
				must[part] = true
			}
		}
	}
	return
}

// expected events of an expression: must (flushed events of the must-indexes) ⊆ got ⊆ may.
func (m *mdl) expected(org int64, expr string) (must, may map[int64]*event) {
	mustIdx, mayIdx := m.expand(org, expr)
	must, may = map[int64]*event{}, map[int64]*event{}
	for idx := range mayIdx {
		for _, e := range m.live[mkey{org, idx}] {
			may[e.vid] = e
			if mustIdx[idx] && !e.pending {
				must[e.vid] = e
			}
		}
	}
	return
}

func (m *mdl) aliasNameMatched(org int64, expr string) bool {
	for _, part := range strings.Split(expr, ",") {
		for al, links := range m.alias[org] {
			if len(links) > 0 && (part == al || (strings.Contains(part, "*") && globMatch(part, al))) {
				return true
			}
		}
	}
	return false
}

func vidList(s map[int64]*event) string {
	var v []int64
	for k := range s {
		v = append(v, k)
	}
	sort.Slice(v, func(i, j int) bool { return v[i] < v[j] })
	var sb strings.Builder
	sb.WriteString("[")
	for i, k := range v {
		if i > 0 {
			sb.WriteString(" ")
		}
		e := s[k]
		fmt.Fprintf(&sb, "%d(org %d,%s)", k, e.org, e.name)
		if i >= 30 {
			sb.WriteString(" …")
			break
		}
	}
	sb.WriteString("]")
	return sb.String()
}

// ---- execution ------------------------------------------------------------------------------------

type runner struct {
	c  *sut.Client
	m  *mdl
	o  *pt.Obs
	cs *c13Case
	// trail of executed operations for failure messages
	trail []string
}

func (r *runner) http(name string, org int64, args map[string]string, body []byte) (*sut.HTTPResult, error) {
	var hr sut.HTTPResult
	err := r.c.Call(&sut.Req{Op: "c13.http", Name: name, Org: org, Args: args, Body: body}, &hr)
	return &hr, err
}

// transport turns worker-level trouble into a verdict: a dead server is a violation, a hang is inconclusive.
func (r *runner) transport(what string, err error) error {
	if errors.Is(err, sut.ErrWorkerDied) {
		return fmt.Errorf("server process died during %s: %s", what, pt.CrashDetail(r.c))
	}
	if errors.Is(err, sut.ErrTimeout) {
		if dir := os.Getenv("C13_HANG_DUMPS"); dir != "" { // development aid: keep the goroutine dump of the killed worker
			_ = os.WriteFile(fmt.Sprintf("%s/hang-%d-%d.txt", dir, os.Getpid(), len(r.trail)), []byte(what+"\n"+strings.Join(r.trail, "\n")+"\n"+r.c.Stderr()), 0o644)
		}
		return pt.Inconclusivef("%s did not return within the per-command time budget", what)
	}
	return fmt.Errorf("%s: %v", what, err)
}

func (r *runner) bulkBody(parts []ingestPart, pending bool) ([]byte, []*event) {
	var sb strings.Builder
	var evs []*event
	for _, p := range parts {
		for i := 0; i < p.N; i++ {
			r.m.next++
			e := &event{vid: r.m.next, org: p.Org, name: p.Name, pending: pending}
			evs = append(evs, e)
			a, _ := json.Marshal(map[string]interface{}{"index": map[string]string{"_index": p.Name}})
			sb.Write(a)
			sb.WriteString("\n")
			d, _ := json.Marshal(map[string]interface{}{"timestamp": baseTs + uint64(e.vid), "_vid": e.vid, "org_m": p.Org,
				"idx_m": p.Name, r.m.markerCol(p.Org, p.Name): e.vid})
			sb.Write(d)
			sb.WriteString("\n")
		}
	}
	return []byte(sb.String()), evs
}

func describeOp(op opT) string {
	switch op.K {
	case "ingest":
		var ps []string
		for _, p := range op.Parts {
			ps = append(ps, fmt.Sprintf("%d×(org %d, %q)", p.N, p.Org, p.Name))
		}
		s := "ingest " + strings.Join(ps, " ")
		if op.NoFlush {
			return s + " [no flush]"
		}
		return s + " +flush"
	case "delete":
		return fmt.Sprintf("delete index %q of org %d", op.Name, op.Org)
	case "alias_add":
		return fmt.Sprintf("add alias %q → %q in org %d (%s)", op.Alias, op.Name, op.Org, op.Via)
	case "alias_rm":
		return fmt.Sprintf("remove alias %q → %q in org %d", op.Alias, op.Name, op.Org)
	}
	return op.K
}

func (r *runner) apply(op opT) error {
	m := r.m
	switch op.K {
	case "ingest":
		// consecutive parts of one tenant travel in one bulk request
		for i := 0; i < len(op.Parts); {
			j := i
			for j < len(op.Parts) && op.Parts[j].Org == op.Parts[i].Org {
				j++
			}
			body, evs := r.bulkBody(op.Parts[i:j], op.NoFlush)
			br, err := r.c.Bulk(op.Parts[i].Org, body)
			if err != nil {
				return r.transport("bulk", err)
			}
			if br.Err != "" || !strings.Contains(string(br.Response), `"errors":false`) {
				return fmt.Errorf("bulk request for org %d was not fully accepted: err=%q response=%s\nbody:\n%s", op.Parts[i].Org, br.Err, br.Response, body)
			}
			for _, e := range evs {
				k := mkey{e.org, e.name}
				m.live[k] = append(m.live[k], e)
				m.ever[k] = true
				m.byVid[e.vid] = e
			}
			i = j
		}
		if !op.NoFlush {
			if err := r.c.Flush(); err != nil {
				return r.transport("flush", err)
			}
			m.flushed()
		}
	case "flush":
		if err := r.c.Flush(); err != nil {
			return r.transport("flush", err)
		}
		m.flushed()
	case "rotate":
		if err := r.c.Rotate(); err != nil {
			return r.transport("rotate", err)
		}
	case "alias_add":
		var hr *sut.HTTPResult
		var err error
		if op.Via == "put" {
			hr, err = r.http("alias.put", op.Org, map[string]string{"uv.indexName": op.Name, "uv.aliasName": op.Alias}, nil)
		} else {
			b, _ := json.Marshal(map[string]interface{}{"actions": []interface{}{map[string]interface{}{"add": map[string]string{"index": op.Name, "alias": op.Alias}}}})
			hr, err = r.http("alias.post", op.Org, nil, b)
		}
		if err != nil {
			return r.transport("alias add", err)
		}
		if m.alias[op.Org] == nil {
			m.alias[op.Org] = map[string]map[string]int{}
		}
		if m.alias[op.Org][op.Alias] == nil {
			m.alias[op.Org][op.Alias] = map[string]int{}
		}
		cur := m.alias[op.Org][op.Alias][op.Name]
		if hr.Status == 200 {
			m.alias[op.Org][op.Alias][op.Name] = linkCertain
		} else if cur == 0 {
			r.o.Class("alias_add_refused")
			m.alias[op.Org][op.Alias][op.Name] = linkUncertain
		}
	case "alias_rm":
		b, _ := json.Marshal(map[string]interface{}{"actions": []interface{}{map[string]interface{}{"remove": map[string]string{"index": op.Name, "alias": op.Alias}}}})
		hr, err := r.http("alias.post", op.Org, nil, b)
		if err != nil {
			return r.transport("alias remove", err)
		}
		links := m.alias[op.Org][op.Alias]
		if hr.Status == 200 {
			delete(links, op.Name)
		} else if links[op.Name] != 0 {
			r.o.Class("alias_rm_refused")
			links[op.Name] = linkUncertain
		}
	case "delete":
		// Deleting through an alias name (directly or by a wildcard that also matches an alias) is outside the
		// statement (Elasticsearch refuses it, SigLens deletes the aliased index): such an operation is skipped.
		if m.aliasNameMatched(op.Org, op.Name) {
			r.o.Class("delete_skipped_alias_match")
			return nil
		}
		var targets []string
		if strings.Contains(op.Name, "*") {
			for k := range m.ever {
				if k.org == op.Org && globMatch(op.Name, k.name) {
					targets = append(targets, k.name)
				}
			}
			sort.Strings(targets)
		} else {
			targets = []string{op.Name}
		}
		hr, err := r.http("index.delete", op.Org, map[string]string{"uv.indexName": op.Name}, nil)
		if err != nil {
			return r.transport("delete index", err)
		}
		if hr.Status != 200 {
			r.o.Class("delete_refused")
			return nil // refused (404 for an unknown index): nothing may have changed
		}
		for _, tname := range targets {
			k := mkey{op.Org, tname}
			if len(m.live[k]) > 0 {
				r.o.Class("delete_with_data")
			}
			for _, e := range m.live[k] {
				delete(m.byVid, e.vid)
			}
			delete(m.live, k)
			// Elasticsearch drops the aliases of a deleted index, SigLens keeps most of them: not fixed by the statement.
			for _, links := range m.alias[op.Org] {
				if links[tname] != 0 {
					links[tname] = linkUncertain
				}
			}
		}
	default:
		return fmt.Errorf("unknown operation %q in case", op.K)
	}
	return nil
}

func (m *mdl) flushed() {
	for _, evs := range m.live {
		for _, e := range evs {
			e.pending = false
		}
	}
}

const qSize = 2000

// every command of a case takes milliseconds; a command that needs more than this is a hang (C17 owns
// termination: here it only makes the case inconclusive)
const cmdTimeout = 40 * time.Second

func (r *runner) fail(q queryT, why string, a ...interface{}) error {
	must, may := r.m.expected(q.Org, q.Expr)
	mustIdx, mayIdx := r.m.expand(q.Org, q.Expr)
	return fmt.Errorf("%s\n  query: org=%d index expression %q form=%s\n  model: expression names indexes %v (may %v) of org %d; expected events %s (may %s)\n  history:\n    %s",
		fmt.Sprintf(why, a...), q.Org, q.Expr, q.Form, keys(mustIdx), keys(mayIdx), q.Org, vidList(must), vidList(may), strings.Join(r.trail, "\n    "))
}

func keys(m map[string]bool) []string {
	out := make([]string, 0, len(m))
	for k := range m {
		out = append(out, k)
	}
	sort.Strings(out)
	return out
}

func (r *runner) markerCols(evs map[int64]*event) map[string]bool {
	out := map[string]bool{}
	for _, e := range evs {
		out[r.m.markerCol(e.org, e.name)] = true
	}
	return out
}

func (r *runner) checkCols(q queryT, what string, cols []string, must, may map[int64]*event) error {
	mustC, mayC := r.markerCols(must), r.markerCols(may)
	seen := map[string]bool{}
	for _, c := range cols {
		if !strings.HasPrefix(c, "mk_") {
			continue
		}
		seen[c] = true
		if !mayC[c] {
			return r.fail(q, "%s lists column %q, which exists only in %s — not in what the expression names for this tenant", what, c, r.colOwner(c))
		}
	}
	for c := range mustC {
		if !seen[c] {
			return r.fail(q, "%s does not list column %q of %s (flushed data the expression names); listed %v", what, c, r.colOwner(c), cols)
		}
	}
	return nil
}

func (r *runner) colOwner(col string) string {
	p := strings.Split(col, "_")
	if len(p) != 3 {
		return "?"
	}
	id, _ := strconv.Atoi(p[2])
	for n, i := range r.m.nameID {
		if i == id {
			return fmt.Sprintf("index %q of org %s", n, p[1])
		}
	}
	return "?"
}

func (r *runner) query(q queryT) error {
	must, may := r.m.expected(q.Org, q.Expr)
	r.o.Count("queries", 1)
	switch q.Form {
	case "search", "stats":
		text := "*"
		if q.Form == "stats" {
			text = "* | stats count by idx_m, org_m"
		}
		sr, err := r.c.Search(sut.Query{Org: q.Org, Index: q.Expr, Text: text, Start: baseTs - 1, End: baseTs + 1_000_000, Size: qSize})
		if err != nil {
			return r.transport(fmt.Sprintf("query %q on %q", text, q.Expr), err)
		}
		if sr.Err != "" || len(sr.Errors) > 0 {
			return r.fail(q, "query answered with an error: %q %v", sr.Err, sr.Errors)
		}
		if q.Form == "search" {
			seen := map[int64]bool{}
			for _, rec := range sr.Records {
				vid, ok := rec["_vid"].Int()
				if !ok {
					return r.fail(q, "returned a record without integer _vid: %v", rec)
				}
				if seen[vid] {
					return r.fail(q, "returned event _vid=%d twice", vid)
				}
				seen[vid] = true
				if gotOrg, ok := rec["org_m"].Int(); !ok || gotOrg != q.Org {
					return r.fail(q, "LEAK across tenants: returned event %v belongs to org %s", rec, rec["org_m"].Raw())
				}
				e := may[vid]
				if e == nil {
					if old := r.m.byVid[vid]; old != nil {
						return r.fail(q, "returned event _vid=%d of index %q (org %d), which the expression does not name", vid, old.name, old.org)
					}
					return r.fail(q, "returned event _vid=%d (index marker %s), which was deleted or never existed", vid, rec["idx_m"].Raw())
				}
				if nm, _ := rec["idx_m"].Str(); nm != e.name {
					return r.fail(q, "event _vid=%d came back with index marker %q, sent %q", vid, nm, e.name)
				}
			}
			for vid, e := range must {
				if !seen[vid] {
					return r.fail(q, "flushed event _vid=%d of index %q (org %d) is missing; got %d records", vid, e.name, e.org, len(sr.Records))
				}
			}
			return r.checkCols(q, "allColumns of the search response", sr.AllColumns, must, may)
		}
		// stats
		cnt := func(evs map[int64]*event) map[string]int {
			out := map[string]int{}
			for _, e := range evs {
				out[e.name]++
			}
			return out
		}
		mustN, mayN := cnt(must), cnt(may)
		seen := map[string]bool{}
		for _, b := range sr.Measure {
			if len(b.GroupBy) != 2 {
				return r.fail(q, "stats bucket with group-by values %v", b.GroupBy)
			}
			idx, og := b.GroupBy[0], b.GroupBy[1]
			if og != strconv.FormatInt(q.Org, 10) {
				return r.fail(q, "LEAK across tenants: stats bucket %v counts events of org %s", b.GroupBy, og)
			}
			n, ok := b.Vals["count(*)"].Int()
			if !ok {
				return r.fail(q, "stats bucket %v without integer count: %v", b.GroupBy, b.Vals)
			}
			if seen[idx] {
				return r.fail(q, "stats bucket %v returned twice", b.GroupBy)
			}
			seen[idx] = true
			if n > int64(mayN[idx]) || n < int64(mustN[idx]) {
				return r.fail(q, "stats counts %d events of index %q; the model has %d (flushed) to %d (all) events of it under this expression", n, idx, mustN[idx], mayN[idx])
			}
		}
		for idx, n := range mustN {
			if !seen[idx] {
				return r.fail(q, "stats has no bucket for index %q (%d flushed events); buckets %v", idx, n, sr.Measure)
			}
		}
		return nil
	case "listcols":
		b, _ := json.Marshal(map[string]interface{}{"indexName": q.Expr, "startEpoch": baseTs - 1, "endEpoch": baseTs + 1_000_000})
		hr, err := r.http("list.columns", q.Org, nil, b)
		if err != nil {
			return r.transport("listColumnNames", err)
		}
		if hr.Status != 200 {
			return r.fail(q, "listColumnNames answered %d %s", hr.Status, hr.Body)
		}
		var cols []string
		if err := json.Unmarshal(hr.Body, &cols); err != nil {
			return r.fail(q, "listColumnNames answer is not a list of names: %s", hr.Body)
		}
		return r.checkCols(q, "listColumnNames", cols, must, may)
	}
	return fmt.Errorf("unknown query form %q in case", q.Form)
}

// listIndices: a tenant sees only names it ingested itself, and every name it holds data in.
func (r *runner) checkListIndices(org int64) error {
	hr, err := r.http("list.indices", org, nil, nil)
	if err != nil {
		return r.transport("listIndices", err)
	}
	if hr.Status != 200 {
		return fmt.Errorf("listIndices of org %d answered %d %s", org, hr.Status, hr.Body)
	}
	var got []struct {
		Index string `json:"index"`
	}
	if err := json.Unmarshal(hr.Body, &got); err != nil {
		return fmt.Errorf("listIndices of org %d: unreadable answer %s", org, hr.Body)
	}
	seen := map[string]bool{}
	for _, g := range got {
		seen[g.Index] = true
		if !r.m.ever[mkey{org, g.Index}] {
			return fmt.Errorf("listIndices of org %d names index %q, which this tenant never created (answer %s)\n  history:\n    %s", org, g.Index, hr.Body, strings.Join(r.trail, "\n    "))
		}
	}
	for k, evs := range r.m.live {
		if k.org == org && !seen[k.name] {
			for _, e := range evs {
				if !e.pending {
					return fmt.Errorf("listIndices of org %d does not name index %q, which holds flushed data (answer %s)\n  history:\n    %s", org, k.name, hr.Body, strings.Join(r.trail, "\n    "))
				}
			}
		}
	}
	return nil
}

// ---- classification -------------------------------------------------------------------------------

const metaChars = `.+()[]{}$^|?\`

func hasMeta(s string) bool { return strings.ContainsAny(s, metaChars) }

// entangled reports whether the live data contains the situations the property is about: one name held by
// two tenants, or one tenant holding two names where one is a prefix of the other or one contains a
// regular-expression metacharacter.
func (m *mdl) entangled() (shared, related bool) {
	byName := map[string]int{}
	byOrg := map[int64][]string{}
	for k, evs := range m.live {
		if len(evs) == 0 {
			continue
		}
		byName[k.name]++
		byOrg[k.org] = append(byOrg[k.org], k.name)
	}
	for _, n := range byName {
		if n >= 2 {
			shared = true
		}
	}
	for _, ns := range byOrg {
		for _, a := range ns {
			for _, b := range ns {
				if a != b && (strings.HasPrefix(b, a) || hasMeta(a) || strings.EqualFold(a, b)) {
					related = true
				}
			}
		}
	}
	return
}

// ---- check ----------------------------------------------------------------------------------------

func checkC13(cs *c13Case, o *pt.Obs) error {
	if len(cs.Steps) == 0 {
		return nil
	}
	return pt.WithWorker(sut.Options{Orgs: orgs, Features: []string{"c13dirs"}, Timeout: cmdTimeout}, func(c *sut.Client) error {
		r := &runner{c: c, m: newModel(cs), o: o, cs: cs}
		nontrivial := false
		for si, st := range cs.Steps {
			sharedBefore, relatedBefore := r.m.entangled()
			liveBefore := map[mkey]bool{}
			for k, evs := range r.m.live {
				if len(evs) > 0 {
					liveBefore[k] = true
				}
			}
			r.trail = append(r.trail, fmt.Sprintf("step %d: %s", si, describeOp(st.Op)))
			if err := r.apply(st.Op); err != nil {
				return err
			}
			o.Class("op_" + st.Op.K)
			if st.Op.K == "ingest" && st.Op.NoFlush {
				o.Class("ingest_unflushed")
			}
			shared, related := r.m.entangled()
			if shared {
				o.Class("state_name_shared_by_tenants")
			}
			if related {
				o.Class("state_related_names_in_tenant")
			}
			if st.Op.K == "delete" {
				if sharedBefore {
					o.Class("delete_while_name_shared")
				}
				if sharedBefore || relatedBefore {
					nontrivial = true
				}
				if strings.Contains(st.Op.Name, "*") {
					o.Class("delete_by_wildcard")
				}
				// was the deleted name held by another tenant?
				for k := range liveBefore {
					if k.name == st.Op.Name && k.org != st.Op.Org {
						o.Class("delete_name_held_by_other_tenant")
					}
				}
			}
			// (1) every tenant's whole view
			for _, org := range orgs {
				if err := r.query(queryT{Org: org, Expr: "*", Form: "search"}); err != nil {
					return fmt.Errorf("after step %d (%s): %w", si, describeOp(st.Op), err)
				}
			}
			// (2) after a delete / rotation: every (tenant, name) that held data, by its plain name
			if st.Op.K == "delete" || st.Op.K == "rotate" {
				var ks []mkey
				for k := range liveBefore {
					ks = append(ks, k)
				}
				sort.Slice(ks, func(i, j int) bool {
					if ks[i].org != ks[j].org {
						return ks[i].org < ks[j].org
					}
					return ks[i].name < ks[j].name
				})
				for _, k := range ks {
					if _, isAlias := r.m.alias[k.org][k.name]; isAlias {
						continue
					}
					if err := r.query(queryT{Org: k.org, Expr: k.name, Form: "search"}); err != nil {
						return fmt.Errorf("after step %d (%s): %w", si, describeOp(st.Op), err)
					}
				}
				for _, org := range orgs {
					if err := r.checkListIndices(org); err != nil {
						return fmt.Errorf("after step %d (%s): %v", si, describeOp(st.Op), err)
					}
				}
			}
			// (3) the generated probes
			for _, q := range st.Queries {
				o.Class("form_" + q.Form)
				wild := strings.Contains(q.Expr, "*") && q.Expr != "*"
				if wild {
					o.Class("query_wildcard")
					if hasMeta(q.Expr) {
						o.Class("query_wildcard_with_metachar")
					}
					if shared || related {
						nontrivial = true
					}
				}
				if strings.Contains(q.Expr, ",") {
					o.Class("query_list")
				}
				mustIdx, mayIdx := r.m.expand(q.Org, q.Expr)
				if len(mayIdx) != len(mustIdx) {
					o.Class("query_through_uncertain_alias")
				}
				for _, part := range strings.Split(q.Expr, ",") {
					if len(r.m.alias[q.Org][part]) > 0 {
						o.Class("query_through_alias")
						for _, og := range orgs {
							if og != q.Org && len(r.m.alias[og][part]) > 0 {
								o.Class("query_through_alias_shared_by_tenants")
							}
						}
					}
				}
				_, may := r.m.expected(q.Org, q.Expr)
				if len(may) == 0 {
					o.Class("query_expect_empty")
				} else {
					o.Class("query_expect_data")
				}
				if err := r.query(q); err != nil {
					return fmt.Errorf("after step %d (%s): %w", si, describeOp(st.Op), err)
				}
			}
		}
		for _, org := range orgs {
			if err := r.checkListIndices(org); err != nil {
				return fmt.Errorf("at the end: %v", err)
			}
		}
		o.Max("events", r.m.next)
		if nontrivial {
			o.NonTrivial()
		}
		return nil
	})
}

func TestC13(t *testing.T) { pt.RunProp(t, "C13", genC13, checkC13) }
