#!/usr/bin/env python3
# usage: mutant.py <name> <relpath> <old> <new> [<relpath> <old> <new> ...]
import sys,json,os,shutil
name=sys.argv[1]; args=sys.argv[2:]
d=f'/tmp/agent-C13/mut/{name}'; os.makedirs(d,exist_ok=True)
ov=json.load(open('/tmp/agent-C13/fix-overlay.json'))
for i in range(0,len(args),3):
    rel,old,new=args[i:i+3]
    src=ov['Replace'].get('/repo/'+rel,'/repo/'+rel)
    # allow stacking on an earlier mutation of the same file
    dst=f'{d}/{rel.replace("/","__")}'
    if os.path.exists(dst) and i>0: src=dst
    s=open(src).read()
    assert s.count(old)>=1,(rel,old)
    s=s.replace(old,new,1)
    open(dst,'w').write(s)
    ov['Replace']['/repo/'+rel]=dst
json.dump(ov,open(f'{d}/overlay.json','w'),indent=1)
print(d)
