#!/bin/bash
# regenerates and runs the log-side sensitivity mutants of C13 (each = fixed tree + one deliberate break)
cd /tmp/agent-C13 || exit 1
M=./mutant.py
$M unrot-noorg pkg/segment/writer/unrotatedquery.go 'if !timeRange.CheckRangeOverLap(usi.tsRange.StartEpochMs, usi.tsRange.EndEpochMs) || usi.orgid != orgid {
			continue
		}
		if _, ok := retVal[usi.TableName]; !ok {' 'if !timeRange.CheckRangeOverLap(usi.tsRange.StartEpochMs, usi.tsRange.EndEpochMs) {
			continue
		}
		if _, ok := retVal[usi.TableName]; !ok {' >/dev/null && ./runmut.sh unrot-noorg | head -1
$M streamid-noorg pkg/utils/segutils.go 'return fmt.Sprintf("%d-%v-%v", rand.Intn(MAX_SHARDS), orgId, xxhash.Sum64String(indexName))' 'return fmt.Sprintf("%d-%v-%v", rand.Intn(MAX_SHARDS)*0, 0, xxhash.Sum64String(indexName))' >/dev/null && ./runmut.sh streamid-noorg | head -1
$M alias-noorg pkg/virtualtable/virtualtable.go '	if _, ok := aliasToIndexNames[orgid]; !ok {
		aliasToIndexNames[orgid] = make(map[string]map[string]bool)
	}
	if _, pres := aliasToIndexNames[orgid][aliasName]; !pres {' '	orgid = 0
	if _, ok := aliasToIndexNames[orgid]; !ok {
		aliasToIndexNames[orgid] = make(map[string]map[string]bool)
	}
	if _, pres := aliasToIndexNames[orgid][aliasName]; !pres {' pkg/virtualtable/virtualtable.go 'if indexMap, pres := aliasToIndexNames[orgid][indexName]; pres {' 'if indexMap, pres := aliasToIndexNames[0][indexName]; pres {' pkg/virtualtable/virtualtable.go 'for alias, indexMap := range aliasToIndexNames[orgid] {' 'for alias, indexMap := range aliasToIndexNames[0] {' >/dev/null && ./runmut.sh alias-noorg | head -1
$M wc-unanchored pkg/virtualtable/virtualtable.go 'regexStr := "^" + strings.Join(literalParts, `.*`) + "$"' 'regexStr := strings.Join(literalParts, `.*`)' >/dev/null && ./runmut.sh wc-unanchored | head -1
$M rotated-noorg pkg/segment/metadata/metadata.go 'if timeRange.CheckRangeOverLap(smi.EarliestEpochMS, smi.LatestEpochMS) && smi.OrgId == orgid {
				if _, ok := retVal[index]; !ok {' 'if timeRange.CheckRangeOverLap(smi.EarliestEpochMS, smi.LatestEpochMS) {
				if _, ok := retVal[index]; !ok {' >/dev/null && ./runmut.sh rotated-noorg | head -1
$M vtable-noorg pkg/virtualtable/virtualtable.go 'func getVirtualTableFileName(orgid int64) string {
	var vTableFileName string
	if orgid == 0 {' 'func getVirtualTableFileName(orgid int64) string {
	var vTableFileName string
	if orgid == 0 || true {' >/dev/null && ./runmut.sh vtable-noorg | head -1
$M listcols-noorg pkg/segment/metadata/metadata.go 'if timeRange.CheckRangeOverLap(smi.EarliestEpochMS, smi.LatestEpochMS) && smi.OrgId == orgid {
				for col := range smi.ColumnNames {
					resAllColumns' 'if timeRange.CheckRangeOverLap(smi.EarliestEpochMS, smi.LatestEpochMS) {
				for col := range smi.ColumnNames {
					resAllColumns' >/dev/null && ./runmut.sh listcols-noorg | head -1
export TESTRE='TestC13Metrics$'
$M m-names-noorg pkg/segment/query/metricsquery.go 'mSgementsMeta := segmetadata.GetMetricSegmentsOverTheTimeRange(timeRange, utils.Some(orgid))' 'mSgementsMeta := segmetadata.GetMetricSegmentsOverTheTimeRange(timeRange, utils.None[int64]())' >/dev/null && ./runmut.sh m-names-noorg | head -1
$M m-rot-noorg pkg/segment/metadata/tsmeta.go 'if !tRange.CheckRangeOverLap(mSegMeta.EarliestEpochSec, mSegMeta.LatestEpochSec) || (orgPresent && mSegMeta.OrgId != org) {' 'if !tRange.CheckRangeOverLap(mSegMeta.EarliestEpochSec, mSegMeta.LatestEpochSec) || (orgPresent && org < -5) {' >/dev/null && ./runmut.sh m-rot-noorg | head -1
$M m-unrot-noorg pkg/segment/writer/metrics/metricssegment.go 'if !tRange.CheckRangeOverLap(mSeg.lowTS, mSeg.highTS) || (orgPresent && mSeg.Orgid != org) {' 'if !tRange.CheckRangeOverLap(mSeg.lowTS, mSeg.highTS) {' pkg/segment/writer/metrics/metricssegment.go '	if orgPresent {
		allMetricsSegments = GetMetricSegments(org)
	} else {
		allMetricsSegments = GetAllMetricsSegments()
	}
	idxCtr := 0' '	_, _ = org, orgPresent
	allMetricsSegments = GetAllMetricsSegments()
	idxCtr := 0' >/dev/null && ./runmut.sh m-unrot-noorg | head -1
for m in unrot-noorg streamid-noorg alias-noorg wc-unanchored rotated-noorg vtable-noorg listcols-noorg m-names-noorg m-rot-noorg m-unrot-noorg; do
  echo "$m first-shard-done: $(sort -k2 -n mut/$m/done.txt | head -1)"
done
