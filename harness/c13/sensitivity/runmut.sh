#!/bin/bash
# usage: runmut.sh <name>   builds with the mutant overlay, runs 16 shards x 30 cases, reports first-failure time
name=$1
export GOFLAGS=-mod=mod GOPROXY=off GOSUMDB=off GOTOOLCHAIN=local
cd /verif/harness && go test -c -vet=off -overlay /tmp/agent-C13/mut/$name/overlay.json -o /tmp/agent-C13/mut/$name/c13.test ./c13 || exit 1
cd /tmp/agent-C13/mut/$name && rm -f run-*.txt
start=$(date +%s.%N)
pids=()
for s in $(seq 1 16); do
  ( VERIF_REPLAY_OUT=/tmp/agent-C13/mut/$name/fail-$s.json ./c13.test -test.run "${TESTRE:-TestC13\$}" -rapid.checks=30 -rapid.seed=$((s*104729+7)) -rapid.nofailfile -rapid.shrinktime=1s > run-$s.txt 2>&1; echo "$s $(echo "$(date +%s.%N) - $start" | bc)" >> done.txt ) &
  pids+=($!)
done
rm -f done.txt
for p in "${pids[@]}"; do wait $p; done
nfail=$(grep -l "^--- FAIL\|^FAIL" run-*.txt | wc -l)
echo "mutant $name: shards failing $nfail/16; total $(echo "$(date +%s.%N) - $start" | bc)s"
for f in $(grep -l "^--- FAIL" run-*.txt | head -2); do grep -m1 -A3 "C13 violated" $f | cut -c1-700; done
