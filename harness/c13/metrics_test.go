package c13

import (
	"encoding/json"
	"fmt"
	"sort"
	"strconv"
	"strings"
	"testing"

	"pgregory.net/rapid"

	"verifharness/pt"
	"verifharness/sut"
)

// C13, metrics part — a metrics query issued for tenant X returns series, metric names, label names and
// label values of X only. Metrics have no index; the only link to the index operations is that the rotated
// metrics segments live in <data>/<host>/final/ts/, the directory a log index named "ts" would use:
// deleting that index must not remove them ("... and nothing else").

type mSeries struct {
	Org    int64       `json:"org"`
	Metric string      `json:"metric"`
	Tags   [][2]string `json:"tags"` // u=<id from a small shared pool>, usually o=<org>; without o the series is identical across tenants
}

type mStep struct {
	K      string `json:"k"` // put | rotate_block | rotate_segment | logs_ts | delete_ts
	Org    int64  `json:"org,omitempty"`
	Series []int  `json:"series,omitempty"` // put: positions in Series (all of tenant Org)
	I      int    `json:"i,omitempty"`      // put: sample index
}

type c13mCase struct {
	Series []mSeries `json:"series"`
	Steps  []mStep   `json:"steps"`
}

const (
	mStepSec = uint32(60)
	mT0      = uint32(1_700_000_040) // multiple of 60
	mMaxI    = 12
)

var sharedMetrics = []string{"m_req", "m_req2", "mreq", "cpu"}

func genC13M(t *rapid.T) *c13mCase {
	cs := &c13mCase{}
	salt := rapid.IntRange(0, 9999).Draw(t, "salt")
	perOrg := map[int64][]int{}
	uid := 0
	for _, org := range orgs {
		n := rapid.IntRange(1, 4).Draw(t, "nSeries")
		for j := 0; j < n; j++ {
			uid++
			s := mSeries{Org: org, Metric: sharedMetrics[flat(t, "metric", len(sharedMetrics), salt, uid)]}
			if flat(t, "ownMetric", 4, salt, uid) == 0 {
				s.Metric = fmt.Sprintf("only_o%d", org)
			}
			// the same label set may exist under two tenants: u is drawn from a small shared pool
			oTag := [2]string{"o", strconv.FormatInt(org, 10)}
			uTag := [2]string{"u", fmt.Sprintf("s%d", flat(t, "u", 4, salt, uid))}
			marker := flat(t, "noMarker", 6, salt, uid) != 0
			// aim: the series another tenant has (same metric name, same labels apart from the tenant marker) ...
			if len(cs.Series) > 0 && flat(t, "twin", 2, salt, uid) == 0 {
				tw := cs.Series[flat(t, "twinOf", len(cs.Series), salt, uid)]
				s.Metric = tw.Metric
				if strings.HasPrefix(s.Metric, "only_") {
					s.Metric = sharedMetrics[0]
				}
				for _, kv := range tw.Tags {
					if kv[0] == "u" {
						uTag = kv
					}
				}
				// ... or exactly the same series (same TSID): only the sample values tell the tenants apart
				if tw.Tags[0][0] != "o" || flat(t, "identical", 3, salt, uid) == 0 {
					marker = false
				}
			}
			if marker {
				s.Tags = [][2]string{oTag, uTag}
				if flat(t, "ownKey", 3, salt, uid) == 0 {
					s.Tags = append(s.Tags, [2]string{fmt.Sprintf("k%d", org), "v"})
				}
			} else {
				s.Tags = [][2]string{uTag}
			}
			dup := false
			for _, k := range perOrg[org] {
				if cs.Series[k].Metric == s.Metric && fmt.Sprint(cs.Series[k].Tags) == fmt.Sprint(s.Tags) {
					dup = true
				}
			}
			if dup {
				continue
			}
			perOrg[org] = append(perOrg[org], len(cs.Series))
			cs.Series = append(cs.Series, s)
		}
	}
	nSteps := rapid.IntRange(3, pt.Scale(10, 16)).Draw(t, "nSteps")
	next := map[int]int{} // series → next sample index
	var tsHolders []int64
	for i := 0; i < nSteps; i++ {
		k := flat(t, "opKind", 100, salt, i)
		if i < 2 {
			k = 0
		}
		switch {
		case k < 50:
			org := orgs[flat(t, "org", 3, salt, i)]
			st := mStep{K: "put", Org: org}
			for _, si := range perOrg[org] {
				if rapid.Bool().Draw(t, "inPut") && next[si] < mMaxI {
					st.Series = append(st.Series, si)
				}
			}
			if len(st.Series) == 0 {
				si := perOrg[org][0]
				if next[si] >= mMaxI {
					continue
				}
				st.Series = []int{si}
			}
			// one sample index per put: the largest next index of the chosen series keeps every series increasing
			for _, si := range st.Series {
				if next[si] > st.I {
					st.I = next[si]
				}
			}
			for _, si := range st.Series {
				next[si] = st.I + 1
			}
			cs.Steps = append(cs.Steps, st)
		case k < 60:
			cs.Steps = append(cs.Steps, mStep{K: "rotate_block"})
		case k < 74:
			cs.Steps = append(cs.Steps, mStep{K: "rotate_segment"})
		case k < 87 || len(tsHolders) == 0:
			org := orgs[flat(t, "org", 3, salt, i)]
			cs.Steps = append(cs.Steps, mStep{K: "logs_ts", Org: org})
			tsHolders = append(tsHolders, org)
		default:
			// mostly a tenant that has the log index, sometimes any tenant (answer 404, nothing may change)
			org := tsHolders[flat(t, "tsHolder", len(tsHolders), salt, i)]
			if flat(t, "anyOrg", 5, salt, i) == 0 {
				org = orgs[flat(t, "org", 3, salt, i)]
			}
			cs.Steps = append(cs.Steps, mStep{K: "delete_ts", Org: org})
		}
	}
	// aim: a tenant creates and deletes the log index "ts" after a metrics segment was rotated
	if flat(t, "tsScenario", 10, salt, 0) < 4 && len(cs.Steps) >= 2 {
		org := orgs[flat(t, "tsOrg", 3, salt, 1)]
		insert := func(at int, st mStep) {
			cs.Steps = append(cs.Steps[:at], append([]mStep{st}, cs.Steps[at:]...)...)
		}
		a := rapid.IntRange(1, len(cs.Steps)).Draw(t, "tsRotAt")
		insert(a, mStep{K: "rotate_segment"})
		b := rapid.IntRange(1, len(cs.Steps)).Draw(t, "tsLogsAt")
		insert(b, mStep{K: "logs_ts", Org: org})
		if a > b {
			b = a + 1
		}
		c := rapid.IntRange(b+1, len(cs.Steps)).Draw(t, "tsDelAt")
		insert(c, mStep{K: "delete_ts", Org: org})
	}
	return cs
}

func mValue(org int64, series, i int) float64 {
	return float64(org*100000 + int64(series)*100 + int64(i))
}

type mRunner struct {
	c     *sut.Client
	cs    *c13mCase
	pts   map[int]map[int]bool // series → sample indexes put
	trail []string
	logID int64
}

func (r *mRunner) call(name string, org int64, args map[string]string, body []byte) (*sut.HTTPResult, error) {
	var hr sut.HTTPResult
	err := r.c.Call(&sut.Req{Op: "c13.http", Name: name, Org: org, Args: args, Body: body}, &hr)
	if err != nil {
		rr := &runner{c: r.c, trail: r.trail}
		return nil, rr.transport(name, err)
	}
	return &hr, nil
}

func (r *mRunner) failf(org int64, f string, a ...interface{}) error {
	return fmt.Errorf("%s\n  tenant %d; history:\n    %s", fmt.Sprintf(f, a...), org, strings.Join(r.trail, "\n    "))
}

func labelKey(m map[string]string) string {
	var ks []string
	for k := range m {
		if k != "__name__" {
			ks = append(ks, k)
		}
	}
	sort.Strings(ks)
	var sb strings.Builder
	for _, k := range ks {
		fmt.Fprintf(&sb, "%s=%s,", k, m[k])
	}
	return sb.String()
}

func tagsKey(tags [][2]string) string {
	m := map[string]string{}
	for _, kv := range tags {
		m[kv[0]] = kv[1]
	}
	return labelKey(m)
}

func strList(body []byte, field string) ([]string, error) {
	var m map[string]json.RawMessage
	if err := json.Unmarshal(body, &m); err != nil {
		return nil, err
	}
	var out []string
	if len(m[field]) == 0 || string(m[field]) == "null" {
		return nil, nil
	}
	if err := json.Unmarshal(m[field], &out); err != nil {
		return nil, err
	}
	return out, nil
}

// verify checks every metrics view of one tenant against the model.
func (r *mRunner) verify(org int64, o *pt.Obs, full bool) error {
	start, end := strconv.FormatUint(uint64(mT0), 10), strconv.FormatUint(uint64(mT0+mMaxI*mStepSec), 10)
	// model of this tenant
	// ownVals: every label value of the tenant. The label-values API answers with the values of all labels of
	// the matching series, not only of the named one (a metrics-API matter, C09); the isolation clause only needs
	// that no value of another tenant shows up — the o label carries the tenant id.
	ownMetrics, ownKeys, ownVals := map[string]bool{}, map[string]bool{}, map[string]bool{}
	everMetrics := map[string]bool{}
	byMetric := map[string][]int{}
	for si, s := range r.cs.Series {
		if s.Org != org {
			continue
		}
		everMetrics[s.Metric] = true
		if len(r.pts[si]) == 0 {
			continue
		}
		ownMetrics[s.Metric] = true
		byMetric[s.Metric] = append(byMetric[s.Metric], si)
		for _, kv := range s.Tags {
			ownKeys[kv[0]] = true
			ownVals[kv[1]] = true
		}
	}
	// (1) series and samples of every metric name any tenant uses
	names := map[string]bool{}
	for _, s := range r.cs.Series {
		names[s.Metric] = true
	}
	for _, metric := range pt.SortedKeys(names) {
		hr, err := r.call("m.query_range", org, map[string]string{"q.query": metric, "q.start": start, "q.end": end, "q.step": "60"}, nil)
		if err != nil {
			return err
		}
		o.Count("metric_queries", 1)
		if hr.Status != 200 {
			return r.failf(org, "query_range %q answered %d %s", metric, hr.Status, hr.Body)
		}
		var pr struct {
			Status string `json:"status"`
			Data   struct {
				Result []struct {
					Metric map[string]string `json:"metric"`
					Values [][]interface{}   `json:"values"`
				} `json:"result"`
			} `json:"data"`
		}
		if err := json.Unmarshal(hr.Body, &pr); err != nil || pr.Status != "success" {
			return r.failf(org, "query_range %q: unusable answer %s", metric, hr.Body)
		}
		want := map[string]int{}
		for _, si := range byMetric[metric] {
			want[tagsKey(r.cs.Series[si].Tags)] = si
		}
		seen := map[string]bool{}
		for _, res := range pr.Data.Result {
			if len(res.Values) == 0 {
				continue
			}
			if v, has := res.Metric["o"]; has && v != strconv.FormatInt(org, 10) {
				return r.failf(org, "LEAK across tenants: query_range %q returned series %v", metric, res.Metric)
			}
			key := labelKey(res.Metric)
			si, ok := want[key]
			if !ok {
				return r.failf(org, "query_range %q returned series %v, which this tenant never wrote", metric, res.Metric)
			}
			if seen[key] {
				return r.failf(org, "query_range %q returned series %v twice", metric, res.Metric)
			}
			seen[key] = true
			got := map[int]float64{}
			for _, v := range res.Values {
				tf, ok1 := v[0].(float64)
				vs, ok2 := v[1].(string)
				if len(v) != 2 || !ok1 || !ok2 {
					return r.failf(org, "query_range %q: malformed sample %v", metric, v)
				}
				f, _ := strconv.ParseFloat(vs, 64)
				got[int((uint32(tf)-mT0)/mStepSec)] = f
			}
			for i, f := range got {
				if !r.pts[si][i] || f != mValue(org, si, i) {
					return r.failf(org, "query_range %q series %v: sample %d = %v (values are tenant*100000 + series*100 + sample); this tenant wrote %v there (samples written: %v)", metric, res.Metric, i, f,
						map[bool]interface{}{true: mValue(org, si, i), false: "nothing"}[r.pts[si][i]], r.pts[si])
				}
			}
			for i := range r.pts[si] {
				if _, ok := got[i]; !ok {
					return r.failf(org, "query_range %q series %v: sample %d (value %v) is missing; got %v", metric, res.Metric, i, mValue(org, si, i), got)
				}
			}
		}
		for key, si := range want {
			if !seen[key] {
				return r.failf(org, "query_range %q does not return series {%s} (samples %v)", metric, key, r.pts[si])
			}
		}
	}
	// (2) metric names
	b, _ := json.Marshal(map[string]string{"start": start, "end": end})
	hr, err := r.call("m.metric_names", org, nil, b)
	if err != nil {
		return err
	}
	if hr.Status != 200 {
		return r.failf(org, "metric_names answered %d %s", hr.Status, hr.Body)
	}
	got, perr := strList(hr.Body, "metricNames")
	if perr != nil {
		return r.failf(org, "metric_names: unusable answer %s", hr.Body)
	}
	if err := r.subset(org, "metric_names", got, everMetrics, ownMetrics); err != nil {
		return err
	}
	if !full {
		return nil
	}
	// (3) label names, label values
	hr, err = r.call("m.labels", org, map[string]string{"q.start": start, "q.end": end}, nil)
	if err != nil {
		return err
	}
	if got, perr = strList(hr.Body, "data"); perr != nil {
		return r.failf(org, "labels: unusable answer %s", hr.Body)
	}
	if err := r.subset(org, "labels", got, ownKeys, nil); err != nil {
		return err
	}
	for _, lv := range []struct {
		label string
		upper map[string]bool
	}{{"__name__", everMetrics}, {"o", ownVals}, {"u", ownVals}} {
		hr, err = r.call("m.label_values", org, map[string]string{"uv.labelName": lv.label, "q.start": start, "q.end": end}, nil)
		if err != nil {
			return err
		}
		if got, perr = strList(hr.Body, "data"); perr != nil {
			return r.failf(org, "label values of %q: unusable answer %s", lv.label, hr.Body)
		}
		if err := r.subset(org, "label values of "+lv.label, got, lv.upper, nil); err != nil {
			return err
		}
	}
	// (4) series listing
	for _, metric := range pt.SortedKeys(names) {
		hr, err = r.call("m.series", org, map[string]string{"q.match[]": metric, "q.start": start, "q.end": end}, nil)
		if err != nil {
			return err
		}
		if hr.Status != 200 {
			continue // refusals of the listing are not this property's business
		}
		var sr struct {
			Data []map[string]string `json:"data"`
		}
		if err := json.Unmarshal(hr.Body, &sr); err != nil {
			return r.failf(org, "series %q: unusable answer %s", metric, hr.Body)
		}
		for _, m := range sr.Data {
			if v, ok := m["o"]; ok && v != strconv.FormatInt(org, 10) {
				return r.failf(org, "LEAK across tenants: series listing of %q returned %v", metric, m)
			}
		}
	}
	return nil
}

// subset: got ⊆ upper (strict: this is the isolation clause); must ⊆ got when must is given.
func (r *mRunner) subset(org int64, what string, got []string, upper, must map[string]bool) error {
	seen := map[string]bool{}
	for _, g := range got {
		seen[g] = true
		if !upper[g] {
			return r.failf(org, "LEAK across tenants: %s lists %q; this tenant only has %v (answer %v)", what, g, pt.SortedKeys(upper), got)
		}
	}
	for m := range must {
		if !seen[m] {
			return r.failf(org, "%s does not list %q, which this tenant wrote (answer %v)", what, m, got)
		}
	}
	return nil
}

func checkC13M(cs *c13mCase, o *pt.Obs) error {
	if len(cs.Steps) == 0 || len(cs.Series) == 0 {
		return nil
	}
	return pt.WithWorker(sut.Options{Orgs: orgs, Features: []string{"c13dirs"}, Timeout: cmdTimeout}, func(c *sut.Client) error {
		r := &mRunner{c: c, cs: cs, pts: map[int]map[int]bool{}}
		rr := &runner{c: c}
		rotatedSeg, nontrivial, logsTs := false, false, map[int64]bool{}
		for si, st := range cs.Steps {
			switch st.K {
			case "put":
				type point struct {
					Metric    string            `json:"metric"`
					Tags      map[string]string `json:"tags"`
					Timestamp uint32            `json:"timestamp"`
					Value     float64           `json:"value"`
				}
				var pts []point
				for _, k := range st.Series {
					s := cs.Series[k]
					if s.Org != st.Org {
						return fmt.Errorf("case error: series %d is not of tenant %d", k, st.Org)
					}
					tags := map[string]string{}
					for _, kv := range s.Tags {
						tags[kv[0]] = kv[1]
					}
					pts = append(pts, point{Metric: s.Metric, Tags: tags, Timestamp: mT0 + uint32(st.I)*mStepSec, Value: mValue(s.Org, k, st.I)})
				}
				b, _ := json.Marshal(pts)
				var pr putResult
				if err := c.Call(&sut.Req{Op: "c13.mput", Org: st.Org, Body: b}, &pr); err != nil {
					return rr.transport("metrics put", err)
				}
				if pr.Err != "" || pr.Failed != 0 || int(pr.Success) != len(pts) {
					return fmt.Errorf("metrics put of tenant %d not fully accepted: %+v body %s", st.Org, pr, b)
				}
				for _, k := range st.Series {
					if r.pts[k] == nil {
						r.pts[k] = map[int]bool{}
					}
					r.pts[k][st.I] = true
				}
				r.trail = append(r.trail, fmt.Sprintf("step %d: tenant %d puts sample %d of series %v", si, st.Org, st.I, st.Series))
			case "rotate_block", "rotate_segment":
				if err := c.Call(&sut.Req{Op: "c13.mrotate", Name: strings.TrimPrefix(st.K, "rotate_")}, nil); err != nil {
					return rr.transport("metrics rotation", err)
				}
				if st.K == "rotate_segment" {
					rotatedSeg = true
				}
				r.trail = append(r.trail, fmt.Sprintf("step %d: %s", si, st.K))
			case "logs_ts":
				r.logID++
				doc, _ := json.Marshal(map[string]interface{}{"timestamp": baseTs + uint64(r.logID), "_vid": r.logID, "org_m": st.Org})
				br, err := c.Bulk(st.Org, []byte(`{"index":{"_index":"ts"}}`+"\n"+string(doc)+"\n"))
				if err != nil {
					return rr.transport("bulk", err)
				}
				if br.Err != "" || !strings.Contains(string(br.Response), `"errors":false`) {
					return fmt.Errorf("bulk into index ts not accepted: %s %s", br.Err, br.Response)
				}
				if err := c.Flush(); err != nil {
					return rr.transport("flush", err)
				}
				logsTs[st.Org] = true
				r.trail = append(r.trail, fmt.Sprintf("step %d: tenant %d ingests a log event into index \"ts\"", si, st.Org))
			case "delete_ts":
				hr, err := r.call("index.delete", st.Org, map[string]string{"uv.indexName": "ts"}, nil)
				if err != nil {
					return err
				}
				r.trail = append(r.trail, fmt.Sprintf("step %d: tenant %d deletes log index \"ts\" (answer %d)", si, st.Org, hr.Status))
				if hr.Status == 200 {
					o.Class("m_delete_index_ts")
					if rotatedSeg {
						o.Class("m_delete_index_ts_after_segment_rotation")
						nontrivial = true
					}
				}
				delete(logsTs, st.Org)
			default:
				return fmt.Errorf("unknown step %q in case", st.K)
			}
			o.Class("m_" + st.K)
			for _, org := range orgs {
				// after a put: series + metric names of every tenant; after everything else and at the end: all views
				if err := r.verify(org, o, st.K != "put" || si == len(cs.Steps)-1); err != nil {
					return fmt.Errorf("after step %d (%s): %w", si, st.K, err)
				}
			}
		}
		// non-trivial: the same metric name and label set (apart from the tenant marker) under two tenants, both with samples
		type mk struct{ m, u string }
		holders := map[mk]map[int64]bool{}
		for k, s := range cs.Series {
			if len(r.pts[k]) == 0 {
				continue
			}
			key := mk{s.Metric, ""}
			for _, kv := range s.Tags {
				if kv[0] == "u" {
					key.u = kv[1]
				}
			}
			if len(s.Tags) == 1 {
				key.u += " (identical)"
			}
			if holders[key] == nil {
				holders[key] = map[int64]bool{}
			}
			holders[key][s.Org] = true
		}
		for key, h := range holders {
			if len(h) >= 2 {
				o.Class("m_same_series_in_two_tenants")
				if strings.HasSuffix(key.u, "(identical)") {
					o.Class("m_identical_series_in_two_tenants")
				}
				nontrivial = true
			}
		}
		if rotatedSeg {
			o.Class("m_rotated_segment")
		}
		if nontrivial {
			o.NonTrivial()
		}
		return nil
	})
}

func TestC13Metrics(t *testing.T) { pt.RunProp(t, "C13", genC13M, checkC13M) }
