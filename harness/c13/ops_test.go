package c13

import (
	"fmt"
	"net/url"
	"os"
	"reflect"
	"strconv"
	"strings"
	"sync"
	"unsafe"

	"github.com/siglens/siglens/pkg/ast/pipesearch"
	"github.com/siglens/siglens/pkg/config"
	eswriter "github.com/siglens/siglens/pkg/es/writer"
	otsdbwriter "github.com/siglens/siglens/pkg/integrations/otsdb/writer"
	"github.com/siglens/siglens/pkg/integrations/prometheus/promql"
	"github.com/siglens/siglens/pkg/segment/query"
	sutils "github.com/siglens/siglens/pkg/segment/utils"
	"github.com/siglens/siglens/pkg/segment/writer/metrics"
	mmeta "github.com/siglens/siglens/pkg/segment/writer/metrics/meta"
	"github.com/valyala/fasthttp"

	"verifharness/sut"
)

// Worker-side operations of C13: the exported request handlers the query server routes to
// (pkg/server/query/entryHandlers.go), called with an in-memory fasthttp ctx and the tenant id the
// CallWithMyId wrappers would have passed.

type h2 = func(*fasthttp.RequestCtx, int64)

var handlers = map[string]h2{
	"alias.put":    eswriter.ProcessPutAliasesRequest,  // PUT|POST /{indexName}/_alias/{aliasName}
	"alias.post":   eswriter.ProcessPostAliasesRequest, // POST /_aliases
	"index.delete": eswriter.ProcessDeleteIndex,        // DELETE /{indexName}, POST /api/deleteIndex/{indexName}
	// metrics (Prometheus-compatible API and the metrics explorer API)
	"m.query_range":  promql.ProcessPromqlMetricsRangeSearchRequest, // GET /promql/api/v1/query_range
	"m.labels":       promql.ProcessGetLabelsRequest,                // GET /promql/api/v1/labels
	"m.label_values": promql.ProcessGetLabelValuesRequest,           // GET /promql/api/v1/label/{labelName}/values
	"m.series":       promql.ProcessGetSeriesByLabelRequest,         // GET /promql/api/v1/series
	"m.metric_names": promql.ProcessGetAllMetricNamesRequest,        // POST /metrics-explorer/api/v1/metric_names
	"list.indices":   pipesearch.ListIndicesHandler,                 // GET /api/listIndices
	"list.columns":   pipesearch.ListColumnNamesHandler,             // POST /api/listColumnNames
}

func workerOrgs() []int64 {
	var out []int64
	for _, p := range strings.Split(os.Getenv("VERIF_ORGS"), ",") {
		if v, err := strconv.ParseInt(p, 10, 64); err == nil {
			out = append(out, v)
		}
	}
	return out
}

func init() {
	// The per-tenant alias directory exists only for tenant 0 in the open-source start-up; a multi-tenant
	// build creates it when the tenant is created. Without it every alias write of tenants != 0 fails with
	// ENOENT, which would only remove the alias part of the domain.
	sut.RegisterFeature("c13dirs", func() error {
		for _, o := range workerOrgs() {
			if o == 0 {
				continue
			}
			dir := config.GetDataPath() + "ingestnodes/" + config.GetHostID() + "/vtabledata/aliases/" + strconv.FormatInt(o, 10)
			if err := os.MkdirAll(dir, 0o764); err != nil {
				return err
			}
		}
		return nil
	})
	sut.RegisterOp("c13.http", opHTTP)
	sut.RegisterOp("c13.mput", opMPut)
	sut.RegisterOp("c13.mrotate", opMRotate)
}

func opHTTP(r *sut.Req) (interface{}, error) {
	h, ok := handlers[r.Name]
	if !ok {
		return nil, fmt.Errorf("unknown handler %q", r.Name)
	}
	ctx := &fasthttp.RequestCtx{}
	ctx.Request.Header.SetMethod("POST")
	if r.Body != nil {
		ctx.Request.Header.SetContentType("application/json")
		ctx.Request.SetBody(r.Body)
	}
	qa := url.Values{}
	for k, v := range r.Args {
		switch {
		case strings.HasPrefix(k, "uv."):
			ctx.SetUserValue(k[3:], v)
		case strings.HasPrefix(k, "q."):
			qa.Set(k[2:], v)
		}
	}
	if len(qa) > 0 {
		ctx.Request.Header.SetMethod("GET")
		ctx.Request.SetRequestURI("/x?" + qa.Encode())
	}
	h(ctx, r.Org)
	return &sut.HTTPResult{Status: ctx.Response.StatusCode(), Body: append([]byte(nil), ctx.Response.Body()...)}, nil
}

// ---- metrics ---------------------------------------------------------------------------------------

type putResult struct {
	Success uint64 `json:"success"`
	Failed  uint64 `json:"failed"`
	Err     string `json:"err,omitempty"`
}

func opMPut(req *sut.Req) (interface{}, error) {
	ok, failed, err := otsdbwriter.HandlePutMetrics(req.Body, req.Org)
	r := &putResult{Success: ok, Failed: failed}
	if err != nil {
		r.Err = err.Error()
	}
	return r, nil
}

// segLock returns the lock every production caller of CheckAndRotate holds (unexported field).
func segLock(ms *metrics.MetricsSegment) (*sync.RWMutex, error) {
	f := reflect.ValueOf(ms).Elem().FieldByName("rwLock")
	if !f.IsValid() || f.Kind() != reflect.Ptr {
		return nil, fmt.Errorf("MetricsSegment.rwLock not found")
	}
	p := *(**sync.RWMutex)(unsafe.Pointer(f.UnsafeAddr()))
	if p == nil {
		return nil, fmt.Errorf("MetricsSegment.rwLock is nil")
	}
	return p, nil
}

// opMRotate drives the size-triggered rotation path (timeBasedRotate -> CheckAndRotate(false)) of every
// tenant's metrics segments at a chosen moment by lowering the exported thresholds for the duration of the
// call (same device as the C09 check): Name = block | segment.
func opMRotate(req *sut.Req) (interface{}, error) {
	if req.Name != "block" && req.Name != "segment" {
		return nil, fmt.Errorf("unknown rotation %q", req.Name)
	}
	oldB, oldS := sutils.MAX_BYTES_METRICS_BLOCK, sutils.MAX_BYTES_METRICS_SEGMENT
	sutils.MAX_BYTES_METRICS_BLOCK = 0
	if req.Name == "segment" {
		sutils.MAX_BYTES_METRICS_SEGMENT = 0
	}
	defer func() { sutils.MAX_BYTES_METRICS_BLOCK, sutils.MAX_BYTES_METRICS_SEGMENT = oldB, oldS }()
	n := 0
	for _, ms := range metrics.GetAllMetricsSegments() {
		l, err := segLock(ms)
		if err != nil {
			return nil, err
		}
		l.Lock()
		err = ms.CheckAndRotate(false)
		l.Unlock()
		if err != nil {
			return nil, fmt.Errorf("CheckAndRotate: %v", err)
		}
		n++
	}
	if req.Name == "segment" {
		// the query side re-reads metricmeta.json every 5 s; forced here so that no verdict depends on the clock
		if err := query.PopulateMetricsMetadataForTheFile_TestOnly(mmeta.GetLocalMetricsMetaFName()); err != nil {
			return nil, fmt.Errorf("metrics meta refresh: %v", err)
		}
	}
	return n, nil
}
