package c13

import (
	"fmt"
	"os"
	"strconv"
	"strings"

	"github.com/siglens/siglens/pkg/ast/pipesearch"
	"github.com/siglens/siglens/pkg/config"
	esreader "github.com/siglens/siglens/pkg/es/reader"
	eswriter "github.com/siglens/siglens/pkg/es/writer"
	"github.com/valyala/fasthttp"

	"verifharness/sut"
)

// Worker-side operations of C13: the exported request handlers the query server routes to
// (pkg/server/query/entryHandlers.go), called with an in-memory fasthttp ctx and the tenant id the
// CallWithMyId wrappers would have passed.

type h2 = func(*fasthttp.RequestCtx, int64)

var handlers = map[string]h2{
	"alias.put":    eswriter.ProcessPutAliasesRequest,  // PUT|POST /{indexName}/_alias/{aliasName}
	"alias.post":   eswriter.ProcessPostAliasesRequest, // POST /_aliases
	"index.delete": eswriter.ProcessDeleteIndex,        // DELETE /{indexName}, POST /api/deleteIndex/{indexName}
	"es.search":    esreader.ProcessSearchRequest,
	"list.indices": pipesearch.ListIndicesHandler,      // GET /api/listIndices
	"list.columns": pipesearch.ListColumnNamesHandler,  // POST /api/listColumnNames
}

func workerOrgs() []int64 {
	var out []int64
	for _, p := range strings.Split(os.Getenv("VERIF_ORGS"), ",") {
		if v, err := strconv.ParseInt(p, 10, 64); err == nil {
			out = append(out, v)
		}
	}
	return out
}

func init() {
	// The per-tenant alias directory exists only for tenant 0 in the open-source start-up; a multi-tenant
	// build creates it when the tenant is created. Without it every alias write of tenants != 0 fails with
	// ENOENT, which would only remove the alias part of the domain.
	sut.RegisterFeature("c13dirs", func() error {
		for _, o := range workerOrgs() {
			if o == 0 {
				continue
			}
			dir := config.GetDataPath() + "ingestnodes/" + config.GetHostID() + "/vtabledata/aliases/" + strconv.FormatInt(o, 10)
			if err := os.MkdirAll(dir, 0o764); err != nil {
				return err
			}
		}
		return nil
	})
	sut.RegisterOp("c13.http", opHTTP)
}

func opHTTP(r *sut.Req) (interface{}, error) {
	h, ok := handlers[r.Name]
	if !ok {
		return nil, fmt.Errorf("unknown handler %q", r.Name)
	}
	ctx := &fasthttp.RequestCtx{}
	ctx.Request.Header.SetMethod("POST")
	if r.Body != nil {
		ctx.Request.Header.SetContentType("application/json")
		ctx.Request.SetBody(r.Body)
	}
	for k, v := range r.Args {
		if strings.HasPrefix(k, "uv.") {
			ctx.SetUserValue(k[3:], v)
		}
	}
	h(ctx, r.Org)
	return &sut.HTTPResult{Status: ctx.Response.StatusCode(), Body: append([]byte(nil), ctx.Response.Body()...)}, nil
}
