// Package lq holds helpers shared by the log-query property packages: ingesting a dataset under a
// layout and running searches with uniform error classification.
package lq

import (
	"errors"
	"fmt"
	"sort"
	"strings"

	"verifharness/gen"
	"verifharness/model"
	"verifharness/pt"
	"verifharness/sut"
)

// Ingest sends the events under the layout (batches, flushes, rotations, dictionary limit, GOMAXPROCS).
// All events are flushed when it returns.
func Ingest(c *sut.Client, index string, org int64, evs []*model.Event, l gen.Layout) error {
	if l.CardLimit > 0 {
		if err := c.Set("cardLimit", int64(l.CardLimit)); err != nil {
			return err
		}
	}
	if l.GoMaxProcs > 0 {
		if err := c.Set("gomaxprocs", int64(l.GoMaxProcs)); err != nil {
			return err
		}
	}
	pos := 0
	for i, b := range l.Batches {
		batch := evs[pos : pos+b]
		pos += b
		br, err := c.Bulk(org, gen.BulkBody(index, batch))
		if err != nil {
			return Classify(c, "bulk", err)
		}
		if br.Err != "" || strings.Contains(string(br.Response), `"errors":true`) {
			return fmt.Errorf("bulk batch %d not accepted: %s %s", i, br.Err, br.Response)
		}
		if l.Flush[i] || l.Rotate[i] || i == len(l.Batches)-1 {
			if err := c.Flush(); err != nil {
				return Classify(c, "flush", err)
			}
		}
		if l.Rotate[i] {
			if err := c.Rotate(); err != nil {
				return Classify(c, "rotate", err)
			}
		}
	}
	if l.FinalRot {
		if err := c.Rotate(); err != nil {
			return Classify(c, "rotate", err)
		}
	}
	return nil
}

// Classify turns transport-level errors into violation texts (crash / hang) or passes them on.
func Classify(c *sut.Client, what string, err error) error {
	if errors.Is(err, sut.ErrWorkerDied) {
		return fmt.Errorf("server process died during %s: %s", what, pt.CrashDetail(c))
	}
	if errors.Is(err, sut.ErrTimeout) {
		// A time budget hit is never a violation for the data properties (C17 owns termination):
		// under machine load a healthy worker can miss the per-command deadline.
		return pt.Inconclusivef("%s did not return within the per-command time budget", what)
	}
	return fmt.Errorf("%s: %v", what, err)
}

// Rejected is returned when the query entry point answered with an error.
type Rejected struct{ Text, Msg string }

func (q *Rejected) Error() string { return fmt.Sprintf("query %q rejected: %s", q.Text, q.Msg) }

// Search runs a query and classifies crash/hang/rejection/partial errors.
func Search(c *sut.Client, q sut.Query) (*sut.SearchResult, error) {
	sr, err := c.Search(q)
	if err != nil {
		return nil, Classify(c, fmt.Sprintf("query %q", q.Text), err)
	}
	if sr.Err != "" {
		return nil, &Rejected{Text: q.Text, Msg: sr.Err}
	}
	if len(sr.Errors) > 0 {
		return nil, fmt.Errorf("query %q answered with errors %v", q.Text, sr.Errors)
	}
	return sr, nil
}

// VidSet is a set of _vid values.
type VidSet map[int64]bool

func (s VidSet) Sorted() []int64 {
	out := make([]int64, 0, len(s))
	for k := range s {
		out = append(out, k)
	}
	sort.Slice(out, func(i, j int) bool { return out[i] < out[j] })
	return out
}

// Vids extracts the _vid of every record; duplicates are an error.
func Vids(text string, recs []sut.Record) (VidSet, []int64, error) {
	out := VidSet{}
	var order []int64
	for _, r := range recs {
		v, ok := r["_vid"].Int()
		if !ok {
			return nil, nil, fmt.Errorf("query %q returned a record without integer _vid: %v", text, r)
		}
		if out[v] {
			return nil, nil, fmt.Errorf("query %q returned _vid=%d twice", text, v)
		}
		out[v] = true
		order = append(order, v)
	}
	return out, order, nil
}

// TsBounds returns min and max timestamp.
func TsBounds(evs []*model.Event) (uint64, uint64) {
	lo, hi := evs[0].Ts, evs[0].Ts
	for _, e := range evs {
		if e.Ts < lo {
			lo = e.Ts
		}
		if e.Ts > hi {
			hi = e.Ts
		}
	}
	return lo, hi
}
