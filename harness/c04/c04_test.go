package c04

import (
	"errors"
	"fmt"
	"math"
	"sort"
	"strconv"
	"strings"
	"testing"

	"pgregory.net/rapid"

	"verifharness/gen"
	"verifharness/lq"
	"verifharness/model"
	"verifharness/pt"
	"verifharness/sut"
)

// C04 — aggregations equal the mathematical aggregate of the matching events.

type c04Case struct {
	DS      *gen.Dataset        `json:"ds"`
	Layout  gen.Layout          `json:"layout"`
	Queries []*model.StatsQuery `json:"queries"`
}

var c04Profiles = []gen.Profile{gen.PInt, gen.PInt, gen.PFloat, gen.PBool, gen.PLowStr, gen.PLowStr, gen.PLowStr, gen.PHighStr, gen.PNumText,
	gen.PMixNumStr, gen.PMixIntFloat, gen.PMixIntFloat, gen.PWidth6Str, gen.PNullOnly, gen.PIntThenFloat, gen.PFloatThenInt, gen.PUInt, gen.PUInt}

func genC04(t *rapid.T) *c04Case {
	ds := gen.GenDataset(t, gen.DatasetOpts{MaxEvents: pt.Scale(50, 200), MaxCols: 5, Profiles: c04Profiles, NullPct: 3, NoNested: false})
	cs := &c04Case{DS: ds, Layout: gen.GenLayout(t, len(ds.Events))}
	names, vals := gen.FilterColumns(ds)
	n := rapid.IntRange(1, pt.Scale(5, 10)).Draw(t, "nQueries")
	for i := 0; i < n; i++ {
		q := gen.GenStatsQuery(t, ds, names, vals)
		gen.MaybeTimechartBy(t, q, names, vals)
		cs.Queries = append(cs.Queries, q)
	}
	return cs
}

// norm renders a value text canonically: numbers by value, everything else verbatim.
func norm(s string) string {
	// booleans are rendered as 1/0 inside values()/list(): a representation choice, not a value change
	switch s {
	case "true":
		s = "1"
	case "false":
		s = "0"
	}
	if f, err := strconv.ParseFloat(s, 64); err == nil && !math.IsNaN(f) && !math.IsInf(f, 0) && strings.TrimSpace(s) == s {
		return "#" + strconv.FormatFloat(f, 'g', -1, 64)
	}
	return "$" + s
}

func tvText(v sut.TV) (string, bool) {
	switch v.Kind() {
	case 'i', 'u', 'f', 's', 'b':
		return v.Raw(), true
	}
	return "", false
}

func tvNum(v sut.TV) (float64, bool) {
	switch v.Kind() {
	case 'i', 'u', 'f':
		return v.Float()
	}
	return 0, false
}

func normList(xs []string) []string {
	out := make([]string, len(xs))
	for i, x := range xs {
		out[i] = norm(x)
	}
	sort.Strings(out)
	return out
}

// listOf extracts the elements of a values()/list() result. ok=false when the rendering is ambiguous.
func listOf(v sut.TV, expected []string) ([]string, bool) {
	if xs, ok := v.List(); ok {
		if v.Kind() == 'L' {
			out := make([]string, len(xs))
			for i, x := range xs {
				out[i] = sut.TV(x).Raw()
			}
			return out, true
		}
		return xs, true
	}
	if s, ok := v.Str(); ok && strings.HasPrefix(s, "[") && strings.HasSuffix(s, "]") {
		for _, e := range expected {
			if strings.ContainsAny(e, " []") || e == "" {
				return nil, false
			}
		}
		inner := s[1 : len(s)-1]
		if inner == "" {
			return []string{}, true
		}
		return strings.Split(inner, " "), true
	}
	return nil, false
}

// grouped is true for results computed on the group-by / timechart path.
func compareMeasure(key string, got sut.TV, present bool, ex model.Expect, grouped bool, o *pt.Obs) error {
	if ex.DontCare {
		return nil
	}
	if ex.AltID == "C04-earliest-latest-null-bool" && present && pt.KnownFindingOpen(ex.AltID) {
		if n, ok := tvNum(got); ok && n == 0 && got.Kind() == 'i' {
			o.Known(ex.AltID)
			return nil
		}
	}
	if ex.AltID == "C04-count-field-groupby" && grouped && present && pt.KnownFindingOpen(ex.AltID) {
		if n, ok := tvNum(got); ok && ex.Kind == "uint" && n == float64(ex.AltCount) && ex.AltCount != ex.Count {
			o.Known(ex.AltID)
			return nil
		}
		if n, ok := tvNum(got); ok && ex.Kind == "num" && math.Abs(n-ex.AltNum) <= ex.Tol+1e-9*math.Abs(ex.AltNum) {
			o.Known(ex.AltID)
			return nil
		}
	}
	if !present {
		return fmt.Errorf("measure %s missing from the group", key)
	}
	switch ex.Kind {
	case "uint":
		n, ok := tvNum(got)
		if !ok || n != float64(ex.Count) {
			return fmt.Errorf("%s = %q, expected %d", key, got, ex.Count)
		}
	case "approxcount":
		n, ok := tvNum(got)
		if !ok || math.Abs(n-float64(ex.Count)) > 0.02*float64(ex.Count)+1 {
			return fmt.Errorf("%s = %q, expected %d within sketch error", key, got, ex.Count)
		}
	case "num":
		n, ok := tvNum(got)
		if !ok {
			return fmt.Errorf("%s = %q is not a number, expected %v", key, got, ex.Num)
		}
		if math.Abs(n-ex.Num) > ex.Tol {
			return fmt.Errorf("%s = %v, expected %v (tolerance %g)", key, n, ex.Num, ex.Tol)
		}
	case "between":
		n, ok := tvNum(got)
		if !ok || n < ex.Lo || n > ex.Hi {
			return fmt.Errorf("%s = %q, expected within [%v, %v]", key, got, ex.Lo, ex.Hi)
		}
	case "set", "multiset":
		xs, ok := listOf(got, ex.Strs)
		if !ok {
			return nil // rendering ambiguous
		}
		g := normList(xs)
		w := normList(ex.Strs)
		if ex.Kind == "set" {
			g = uniq(g)
			w = uniq(w)
		}
		if strings.Join(g, "\x1f") != strings.Join(w, "\x1f") {
			// known finding C04-float-text-6dp: float values are rendered with %f (6 decimals)
			if pt.KnownFindingOpen("C04-float-text-6dp") {
				g6, w6 := norm6List(xs), norm6List(ex.Strs)
				if ex.Kind == "set" {
					g6, w6 = uniq(g6), uniq(w6)
				}
				if strings.Join(g6, "\x1f") == strings.Join(w6, "\x1f") {
					o.Known("C04-float-text-6dp")
					return nil
				}
			}
			return fmt.Errorf("%s = %v, expected %v", key, xs, ex.Strs)
		}
	case "oneof":
		t, ok := tvText(got)
		if !ok {
			return fmt.Errorf("%s = %q, expected one of %v", key, got, ex.Strs)
		}
		for _, a := range ex.Strs {
			if norm(a) == norm(t) {
				return nil
			}
		}
		if pt.KnownFindingOpen("C04-float-text-6dp") {
			for _, a := range ex.Strs {
				if norm6(a) == norm6(t) {
					o.Known("C04-float-text-6dp")
					return nil
				}
			}
		}
		return fmt.Errorf("%s = %q, expected one of %v", key, got, ex.Strs)
	}
	return nil
}

// norm6 renders numbers the way the engine's GetString does (%f, six decimals).
func norm6(s string) string {
	if f, err := strconv.ParseFloat(s, 64); err == nil && !math.IsNaN(f) && !math.IsInf(f, 0) && strings.TrimSpace(s) == s {
		return "#" + fmt.Sprintf("%f", f)
	}
	return "$" + s
}

func norm6List(xs []string) []string {
	out := make([]string, len(xs))
	for i, x := range xs {
		out[i] = norm6(x)
	}
	sort.Strings(out)
	return out
}

func uniq(xs []string) []string {
	var out []string
	for i, x := range xs {
		if i == 0 || x != xs[i-1] {
			out = append(out, x)
		}
	}
	return out
}

func bucketKey(b sut.MeasureBucket) (string, bool) {
	// prefer the typed group-by values
	if len(b.IGroupBy) > 0 {
		parts := make([]string, len(b.IGroupBy))
		for i, v := range b.IGroupBy {
			if v.IsNil() {
				return "", false
			}
			t, ok := tvText(v)
			if !ok {
				return "", false
			}
			parts[i] = norm(t)
		}
		return strings.Join(parts, "\x1f"), true
	}
	parts := make([]string, len(b.GroupBy))
	for i, s := range b.GroupBy {
		parts[i] = norm(s)
	}
	return strings.Join(parts, "\x1f"), true
}

func expectedKey(g *model.Group) string {
	parts := make([]string, len(g.Key.Vals))
	for i, v := range g.Key.Vals {
		parts[i] = norm(model.CanonText(v))
	}
	return strings.Join(parts, "\x1f")
}

func checkC04(cs *c04Case, o *pt.Obs) error {
	evs := cs.DS.Events
	flushes, rots := cs.Layout.Blocks()
	lo, hi := lq.TsBounds(evs)
	ctx := model.NewCtx(evs)
	kinds := model.ColKinds(evs)
	// fields that have values in one segment (or block) and none in another, among the events a query matches
	ranges := append(cs.Layout.Segments(), cs.Layout.BlockRanges()...)
	nullSegmentsOf := func(matched []*model.Event) map[string]bool {
		in := map[*model.Event]bool{}
		for _, e := range matched {
			in[e] = true
		}
		out := map[string]bool{}
		for name := range kinds {
			with, without := 0, 0
			for _, sg := range ranges {
				has := false
				for _, e := range evs[sg[0]:sg[1]] {
					if !in[e] {
						continue
					}
					f, _ := e.Flat()
					if v, ok := f[name]; ok && v.K != model.KNull {
						has = true
						break
					}
				}
				if has {
					with++
				} else {
					without++
				}
			}
			if with > 0 && without > 0 {
				out[name] = true
			}
		}
		return out
	}
	return pt.WithWorker(sut.Options{}, func(c *sut.Client) error {
		if err := lq.Ingest(c, "c04idx", 0, evs, cs.Layout); err != nil {
			return err
		}
		for qi, q := range cs.Queries {
			text := q.SPL()
			if q.MeasureFieldInBy() && pt.KnownFindingOpen("C04-measure-field-in-by") {
				// known finding: such queries can crash the server (see known_findings.jsonl); excluded
				// by construction so that the search continues behind it
				o.Known("C04-measure-field-in-by")
				continue
			}
			sr, err := lq.Search(c, sut.Query{Index: "c04idx", Text: text, Start: lo - 1, End: hi + 1, Size: 1000})
			if err != nil {
				// "Running such a query never fails merely because a grouping field is absent, sparse or of mixed type"
				var rej *lq.Rejected
				if errors.As(err, &rej) {
					return fmt.Errorf("query %d: legal aggregation was rejected: %v", qi, err)
				}
				return fmt.Errorf("query %d: %v", qi, err)
			}
			var matched []*model.Event
			for _, e := range evs {
				if q.Filter == nil || q.Filter.EvalIn(e, ctx) == model.True {
					matched = append(matched, e)
				}
			}
			if q.Timechart {
				o.Class("timechart")
				if err := checkTimechart(q, text, sr, matched, kinds, o); err != nil {
					return fmt.Errorf("query %d %q: %v", qi, text, err)
				}
				continue
			}
			groups := model.AggregateGroups(matched, q, ctx, kinds)
			if err := checkStats(q, text, sr, groups, matched, kinds, nullSegmentsOf(matched), o); err != nil {
				return fmt.Errorf("query %d %q: %v", qi, text, err)
			}
			if len(groups) >= 2 && (flushes >= 2 || rots >= 1) {
				o.NonTrivial()
				o.Class("multi_group_multi_block")
			}
			for _, b := range q.By {
				if len(kinds[b]) > 1 {
					o.Class("by_mixed")
					o.NonTrivial()
				}
			}
		}
		return nil
	})
}

func checkStats(q *model.StatsQuery, text string, sr *sut.SearchResult, groups []*model.Group, matched []*model.Event,
	kinds map[string]map[model.Kind]bool, nullSegment map[string]bool, o *pt.Obs) error {
	if len(q.By) == 0 {
		o.Class("no_by")
		if len(matched) == 0 {
			return nil // aggregates over nothing: not stated
		}
		if len(sr.Measure) != 1 {
			return fmt.Errorf("expected exactly one result row without by-clause, got %d: %v", len(sr.Measure), sr.Measure)
		}
		// known finding C04-segstats-null-segment: on the segment-statistics (no by-clause) path a
		// measure of field f is unreliable when f has no value at all in one segment but has values
		// in another (running SegStats objects are shared / substituted by the timestamp column's).
		for _, m := range q.Measures {
			if m.Field != "" && nullSegment[m.Field] && pt.KnownFindingOpen("C04-segstats-null-segment") {
				o.Known("C04-segstats-null-segment")
				continue
			}
			got, ok := sr.Measure[0].Vals[m.Key()]
			if err := compareMeasure(m.Key(), got, ok, model.ExpectMeasure(matched, m, kinds), false, o); err != nil {
				return err
			}
		}
		return nil
	}
	o.Class(fmt.Sprintf("by_%d", len(q.By)))
	mixedBy := false
	for _, b := range q.By {
		if len(kinds[b]) > 1 {
			// includes int+float columns: the engine keys groups by encoded value, so 2 and 2.0
			// may or may not share a group; the statement does not say
			mixedBy = true
		}
		if kinds[b][model.KStr] {
			for _, e := range matched {
				f, _ := e.Flat()
				if v, ok := f[b]; ok && v.K == model.KStr {
					if _, err := strconv.ParseFloat(strings.TrimSpace(v.S), 64); err == nil {
						mixedBy = true // numeric text as a group key: "2" vs "2.0" vs 2 is not stated
					}
				}
			}
		}
	}
	// the engine reports the by-columns in its own order (GroupByCols): map back to the query's order
	perm := make([]int, len(q.By))
	if len(sr.GroupByCols) == len(q.By) {
		for i, name := range q.By {
			perm[i] = -1
			for j, g := range sr.GroupByCols {
				if g == name {
					perm[i] = j
				}
			}
			if perm[i] < 0 {
				return fmt.Errorf("by-column %q not among reported group-by columns %v", name, sr.GroupByCols)
			}
		}
	} else if len(sr.Measure) > 0 {
		return fmt.Errorf("reported group-by columns %v do not correspond to the by-clause %v", sr.GroupByCols, q.By)
	}
	got := map[string]sut.MeasureBucket{}
	for _, b0 := range sr.Measure {
		b := b0
		if len(b.GroupBy) == len(perm) {
			gb := make([]string, len(perm))
			for i, j := range perm {
				gb[i] = b.GroupBy[j]
			}
			b.GroupBy = gb
		}
		if len(b.IGroupBy) == len(perm) {
			ig := make([]sut.TV, len(perm))
			for i, j := range perm {
				ig[i] = b.IGroupBy[j]
			}
			b.IGroupBy = ig
		}
		k, ok := bucketKey(b)
		if !ok {
			continue // null-key group: not stated
		}
		if _, dup := got[k]; dup && !mixedBy {
			return fmt.Errorf("group %v reported more than once", b.GroupBy)
		}
		got[k] = b
	}
	if mixedBy {
		// keys of different JSON types may or may not coincide after consolidation: only totals are asserted
		var total float64
		counted := false
		for _, b := range sr.Measure {
			if v, ok := b.Vals["count(*)"]; ok {
				n, _ := tvNum(v)
				total += n
				counted = true
			}
		}
		if counted && total > float64(len(matched)) {
			return fmt.Errorf("count(*) over all groups is %v but only %d events matched", total, len(matched))
		}
		return nil
	}
	want := map[string]*model.Group{}
	for _, g := range groups {
		want[expectedKey(g)] = g
	}
	for k, g := range want {
		b, ok := got[k]
		if !ok {
			return fmt.Errorf("group %v (%d events) is missing from the result; got groups %v", g.Key, len(g.Events), groupNames(sr))
		}
		for _, m := range q.Measures {
			v, present := b.Vals[m.Key()]
			if err := compareMeasure(m.Key(), v, present, g.Expect[m.Key()], true, o); err != nil {
				return fmt.Errorf("group %v: %v", g.Key, err)
			}
		}
	}
	for k, b := range got {
		if _, ok := want[k]; !ok {
			return fmt.Errorf("result has group %v that no matched event belongs to", b.GroupBy)
		}
	}
	return nil
}

func groupNames(sr *sut.SearchResult) [][]string {
	var out [][]string
	for _, b := range sr.Measure {
		out = append(out, b.GroupBy)
	}
	return out
}

func checkTimechart(q *model.StatsQuery, text string, sr *sut.SearchResult, matched []*model.Event,
	kinds map[string]map[model.Kind]bool, o *pt.Obs) error {
	type bucket struct {
		start uint64
		b     sut.MeasureBucket
	}
	var bs []bucket
	for _, b := range sr.Measure {
		if len(b.GroupBy) != 1 {
			return fmt.Errorf("timechart row without a single time key: %v", b.GroupBy)
		}
		ts, err := strconv.ParseUint(b.GroupBy[0], 10, 64)
		if err != nil {
			return fmt.Errorf("timechart key %q is not an epoch", b.GroupBy[0])
		}
		bs = append(bs, bucket{ts, b})
	}
	sort.Slice(bs, func(i, j int) bool { return bs[i].start < bs[j].start })
	for i := 1; i < len(bs); i++ {
		if bs[i].start == bs[i-1].start {
			return fmt.Errorf("time bucket %d reported twice", bs[i].start)
		}
		if bs[i].start-bs[i-1].start < q.SpanMs {
			return fmt.Errorf("time buckets %d and %d overlap (span %d ms)", bs[i-1].start, bs[i].start, q.SpanMs)
		}
		if (bs[i].start-bs[0].start)%q.SpanMs != 0 {
			return fmt.Errorf("time bucket %d is not aligned with %d on span %d", bs[i].start, bs[0].start, q.SpanMs)
		}
	}
	per := make([][]*model.Event, len(bs))
	for _, e := range matched {
		found := -1
		for i, b := range bs {
			if e.Ts >= b.start && e.Ts < b.start+q.SpanMs {
				found = i
				break
			}
		}
		if found < 0 {
			return fmt.Errorf("matched event _vid=%d ts=%d lies in no reported bucket %v", e.Vid, e.Ts, starts(sr))
		}
		per[found] = append(per[found], e)
	}
	if len(q.By) == 1 {
		// `timechart … by f`: one series per measure and value of f, reported as "<measure>: <value>". Cells
		// without an event are filled in by the engine (not stated); every cell that has events is checked.
		nSeries := map[string]bool{}
		for i, b := range bs {
			byVal := map[string][]*model.Event{}
			var order []string
			for _, e := range per[i] {
				flat, _ := e.Flat()
				v, ok := flat[q.By[0]]
				if !ok || v.K != model.KStr {
					continue // events without the split-by field form the null series, which is not compared
				}
				if _, seen := byVal[v.S]; !seen {
					order = append(order, v.S)
				}
				byVal[v.S] = append(byVal[v.S], e)
			}
			sort.Strings(order)
			for _, val := range order {
				nSeries[val] = true
				for _, m := range q.Measures {
					if m.Field != "" && m.Fn != "count" {
						// a cell in which no event carries the measure field has no input for the measure:
						// whether the engine omits the series or fills it in is not stated
						has := false
						for _, e := range byVal[val] {
							flat, _ := e.Flat()
							if v, ok := flat[m.Field]; ok && v.K != model.KNull {
								has = true
								break
							}
						}
						if !has {
							continue
						}
					}
					ex := model.ExpectMeasure(byVal[val], m, kinds)
					key := m.Key() + ": " + val
					v, present := b.b.Vals[key]
					if !present && !ex.DontCare && ex.AltID == "C04-earliest-latest-null-bool" && pt.KnownFindingOpen(ex.AltID) {
						// same finding on the split-by path: the null taken from the first/last event drops the series
						o.Known(ex.AltID)
						continue
					}
					if err := compareMeasure(key, v, present, ex, true, o); err != nil {
						return fmt.Errorf("bucket [%d,+%d) series %q: %v", b.start, q.SpanMs, val, err)
					}
				}
			}
		}
		o.Class("timechart_by")
		if len(bs) >= 2 && len(nSeries) >= 2 {
			o.NonTrivial()
			o.Class("timechart_by_multi")
		}
		return nil
	}
	for i, b := range bs {
		for _, m := range q.Measures {
			ex := model.ExpectMeasure(per[i], m, kinds)
			if len(per[i]) == 0 && !(m.Fn == "count") {
				continue // empty bucket: not stated
			}
			v, present := b.b.Vals[m.Key()]
			if err := compareMeasure(m.Key(), v, present, ex, true, o); err != nil {
				return fmt.Errorf("bucket [%d,+%d): %v", b.start, q.SpanMs, err)
			}
		}
	}
	if len(bs) >= 2 {
		o.NonTrivial()
		o.Class("timechart_multi_bucket")
	}
	return nil
}

func starts(sr *sut.SearchResult) []string {
	var out []string
	for _, b := range sr.Measure {
		out = append(out, strings.Join(b.GroupBy, ","))
	}
	return out
}

func TestC04(t *testing.T) { pt.RunProp(t, "C04", genC04, checkC04) }
