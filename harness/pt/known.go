package pt

import (
	"bufio"
	"encoding/json"
	"os"
	"sync"
)

// known_findings.jsonl is read-only at run time. An "open" entry enables the exclusion /
// tolerance class named by its id; a "fixed" entry enables nothing.
type knownFinding struct {
	Status   string `json:"status"`
	Property string `json:"property"`
	ID       string `json:"id"`
	What     string `json:"what"`
}

var (
	knownOnce sync.Once
	knownOpen map[string]bool
)

func KnownFindingOpen(id string) bool {
	knownOnce.Do(func() {
		knownOpen = map[string]bool{}
		path := os.Getenv("VERIF_KNOWN")
		if path == "" {
			path = "/verif/known_findings.jsonl"
		}
		f, err := os.Open(path)
		if err != nil {
			return
		}
		defer f.Close()
		sc := bufio.NewScanner(f)
		sc.Buffer(make([]byte, 1<<20), 1<<20)
		for sc.Scan() {
			var k knownFinding
			if json.Unmarshal(sc.Bytes(), &k) == nil && k.Status == "open" {
				knownOpen[k.ID] = true
			}
		}
	})
	return knownOpen[id]
}
