// Package pt is the shared property-test runtime: run statistics, the rapid/replay runner,
// worker helpers. Property packages (c01, c02, ...) import it; the driver merges the statistics.
package pt

import (
	"crypto/sha256"
	"encoding/hex"
	"encoding/json"
	"errors"
	"fmt"
	"os"
	"path/filepath"
	"sort"
	"strconv"
	"strings"
	"sync"
	"testing"

	"pgregory.net/rapid"

	"verifharness/sut"
)

// ---- run statistics (merged by the driver into evidence/<id>.json) -------------------------

type runStats struct {
	mu          sync.Mutex
	Property    string                     `json:"property"`
	Evaluations int                        `json:"evaluations"`
	NonTrivial  map[string]bool            `json:"nontrivial"` // distinct hashes of non-trivial cases
	Classes     map[string]int             `json:"classes"`
	Counters    map[string]int64           `json:"counters"`
	Samples     []json.RawMessage          `json:"samples"`
	Known       map[string]int             `json:"known"` // known-finding id → cases excluded/hit
	KnownSample map[string]json.RawMessage `json:"known_sample"`
	Failures    []failureRec               `json:"failures"`
	Inconcl     []string                   `json:"inconclusive"`
	Maxes       map[string]int64           `json:"maxes"`
}

type failureRec struct {
	Msg    string `json:"msg"`
	Replay string `json:"replay"`
}

var stats = &runStats{NonTrivial: map[string]bool{}, Classes: map[string]int{}, Counters: map[string]int64{},
	Known: map[string]int{}, KnownSample: map[string]json.RawMessage{}, Maxes: map[string]int64{}}

func WriteStats() {
	path := os.Getenv("VERIF_STATS")
	if path == "" {
		return
	}
	stats.mu.Lock()
	defer stats.mu.Unlock()
	b, _ := json.Marshal(stats)
	_ = os.WriteFile(path, b, 0o644)
}

// obs is the per-case observation handle passed to check functions.
type Obs struct {
	classes    []string
	nontrivial bool
	known      []string
	counters   map[string]int64
	maxes      map[string]int64
}

func (o *Obs) Class(c string)  { o.classes = append(o.classes, c) }
func (o *Obs) NonTrivial()     { o.nontrivial = true }
func (o *Obs) Known(id string) { o.known = append(o.known, id) }
func (o *Obs) Count(k string, n int64) {
	if o.counters == nil {
		o.counters = map[string]int64{}
	}
	o.counters[k] += n
}
func (o *Obs) Max(k string, n int64) {
	if o.maxes == nil {
		o.maxes = map[string]int64{}
	}
	if n > o.maxes[k] {
		o.maxes[k] = n
	}
}

func caseHash(b []byte) string {
	h := sha256.Sum256(b)
	return hex.EncodeToString(h[:8])
}

func (s *runStats) record(caseJSON []byte, o *Obs) {
	s.mu.Lock()
	defer s.mu.Unlock()
	s.Evaluations++
	seen := map[string]bool{}
	for _, c := range o.classes {
		if !seen[c] {
			s.Classes[c]++
			seen[c] = true
		}
	}
	for k, v := range o.counters {
		s.Counters[k] += v
	}
	for k, v := range o.maxes {
		if v > s.Maxes[k] {
			s.Maxes[k] = v
		}
	}
	for _, k := range o.known {
		s.Known[k]++
		if _, ok := s.KnownSample[k]; !ok && len(caseJSON) < 8192 {
			s.KnownSample[k] = caseJSON
		}
	}
	if o.nontrivial {
		s.NonTrivial[caseHash(caseJSON)] = true
		if len(s.Samples) < 4 && len(caseJSON) < 16384 {
			s.Samples = append(s.Samples, json.RawMessage(caseJSON))
		}
	} else if len(s.Samples) == 0 && len(caseJSON) < 16384 {
		// make sure there is at least one sample even if nothing was non-trivial
		s.Samples = append(s.Samples, json.RawMessage(caseJSON))
	}
}

// inconclusive is returned by a check that could not decide (time budget, environment).
type Inconclusive struct{ msg string }

func (e *Inconclusive) Error() string { return "INCONCLUSIVE: " + e.msg }

func Inconclusivef(f string, a ...interface{}) error { return &Inconclusive{fmt.Sprintf(f, a...)} }

// asInconclusive recognises an inconclusive verdict even when a check wrapped it with %v.
func asInconclusive(err error) (*Inconclusive, bool) {
	var inc *Inconclusive
	if errors.As(err, &inc) {
		return inc, true
	}
	if err != nil && strings.Contains(err.Error(), "INCONCLUSIVE: ") {
		return &Inconclusive{msg: strings.Replace(err.Error(), "INCONCLUSIVE: ", "", 1)}, true
	}
	return nil, false
}

// ---- property runner ------------------------------------------------------------------------

func Tier() string {
	if v := os.Getenv("VERIF_TIER"); v != "" {
		return v
	}
	return "quick"
}

func Thorough() bool { return Tier() == "thorough" }

// scale returns q in the quick tier and th in the thorough tier.
func Scale(q, th int) int {
	if Thorough() {
		return th
	}
	return q
}

func replayOutPath(id string) string {
	if p := os.Getenv("VERIF_REPLAY_OUT"); p != "" {
		return p
	}
	return filepath.Join(os.TempDir(), "verif-replay-"+id+".json")
}

// runProp drives one property: either replays a saved case (VERIF_REPLAY) or runs rapid.
// gen must draw everything from t; check must be a pure function of (code under test, case).
func RunProp[C any](t *testing.T, id string, gen func(*rapid.T) C, check func(C, *Obs) error) {
	stats.Property = id
	defer WriteStats()
	if rp := os.Getenv("VERIF_REPLAY"); rp != "" {
		b, err := os.ReadFile(rp)
		if err != nil {
			t.Fatalf("cannot read replay file: %v", err)
		}
		var env replayEnvelope
		if err := json.Unmarshal(b, &env); err != nil {
			t.Fatalf("bad replay file: %v", err)
		}
		if env.Test != "" && env.Test != t.Name() {
			t.Skipf("replay file is for %s", env.Test)
		}
		var c C
		if err := json.Unmarshal(env.Case, &c); err != nil {
			t.Fatalf("bad replay case: %v", err)
		}
		o := &Obs{}
		err = check(c, o)
		stats.record(env.Case, o)
		if err != nil {
			if _, ok := asInconclusive(err); ok {
				stats.Inconcl = append(stats.Inconcl, err.Error())
				t.Skip(err.Error())
			}
			stats.Failures = append(stats.Failures, failureRec{Msg: err.Error(), Replay: rp})
			t.Fatalf("REPLAY-FAIL %s: %v", id, err)
		}
		return
	}
	out := replayOutPath(id)
	_ = os.Remove(out)
	var lastFail string
	rapid.Check(t, func(rt *rapid.T) {
		c := gen(rt)
		cj, _ := json.Marshal(c)
		o := &Obs{}
		err := check(c, o)
		if err != nil {
			if inc, ok := asInconclusive(err); ok {
				stats.mu.Lock()
				stats.Inconcl = append(stats.Inconcl, inc.Error())
				stats.mu.Unlock()
				rt.Skip(inc.Error())
			}
			env := replayEnvelope{Property: id, Test: t.Name(), Msg: err.Error(), Case: cj}
			eb, _ := json.MarshalIndent(env, "", " ")
			_ = os.WriteFile(out, eb, 0o644)
			lastFail = err.Error()
			rt.Fatalf("%s violated: %v", id, err)
		}
		stats.record(cj, o)
	})
	if t.Failed() {
		stats.Failures = append(stats.Failures, failureRec{Msg: lastFail, Replay: out})
	}
}

type replayEnvelope struct {
	Property string          `json:"property"`
	Test     string          `json:"test"`
	Msg      string          `json:"msg"`
	Case     json.RawMessage `json:"case"`
}

// ---- worker helpers -------------------------------------------------------------------------

var workSeq int
var workMu sync.Mutex

func workRoot() string {
	if w := os.Getenv("VERIF_WORK"); w != "" {
		return w
	}
	return "/verif/.work"
}

// newDataDir returns a fresh directory path for one case.
func NewDataDir() string {
	workMu.Lock()
	workSeq++
	n := workSeq
	workMu.Unlock()
	root := filepath.Join(workRoot(), "cases")
	_ = os.MkdirAll(root, 0o755)
	return filepath.Join(root, fmt.Sprintf("p%d-%d", os.Getpid(), n), "data")
}

func CleanupDataDir(dataDir string) {
	_ = os.RemoveAll(filepath.Dir(dataDir))
}

// withWorker starts a fresh worker on a fresh directory, runs fn, and cleans up.
func WithWorker(opts sut.Options, fn func(c *sut.Client) error) error {
	if opts.DataDir == "" {
		opts.DataDir = NewDataDir()
		defer CleanupDataDir(opts.DataDir)
	}
	if opts.Env == nil {
		opts.Env = map[string]string{}
	}
	if _, ok := opts.Env["VERIF_LOGLEVEL"]; !ok {
		opts.Env["VERIF_LOGLEVEL"] = "error"
	}
	c, err := sut.Start(opts)
	if err != nil {
		return Inconclusivef("worker start: %v", err)
	}
	defer c.Close()
	return fn(c)
}

// crashDetail formats what is known about a dead worker.
func CrashDetail(c *sut.Client) string {
	se := c.Stderr()
	if len(se) > 3000 {
		se = se[:3000]
	}
	return fmt.Sprintf("exit=%s stderr:\n%s", c.ExitInfo(), se)
}

func SeedFromEnv() int64 {
	v, _ := strconv.ParseInt(os.Getenv("VERIF_SEED"), 10, 64)
	return v
}

func SortedKeys[V any](m map[string]V) []string {
	out := make([]string, 0, len(m))
	for k := range m {
		out = append(out, k)
	}
	sort.Strings(out)
	return out
}

// Main is the TestMain body of every property package: a test binary started with
// VERIF_WORKER=1 becomes the system-under-test worker instead of running tests.
func Main(m *testing.M) {
	if os.Getenv(sut.WorkerEnv) == "1" {
		sut.RunWorker()
		return
	}
	code := m.Run()
	WriteStats()
	os.Exit(code)
}

// RunCases drives a property over an explicit (enumerated or hand-rolled) sequence of cases
// instead of rapid: next returns the i-th case or ok=false. A replay file (VERIF_REPLAY) runs
// only the saved case. The first failing case is written as the replay file and fails the test.
func RunCases[C any](t *testing.T, id string, next func(i int) (C, bool), check func(C, *Obs) error) {
	stats.Property = id
	defer WriteStats()
	if rp := os.Getenv("VERIF_REPLAY"); rp != "" {
		b, err := os.ReadFile(rp)
		if err != nil {
			t.Fatalf("cannot read replay file: %v", err)
		}
		var env replayEnvelope
		if err := json.Unmarshal(b, &env); err != nil {
			t.Fatalf("bad replay file: %v", err)
		}
		if env.Test != "" && env.Test != t.Name() {
			t.Skipf("replay file is for %s", env.Test)
		}
		var c C
		if err := json.Unmarshal(env.Case, &c); err != nil {
			t.Fatalf("bad replay case: %v", err)
		}
		o := &Obs{}
		err = check(c, o)
		stats.record(env.Case, o)
		if err != nil {
			if _, ok := asInconclusive(err); ok {
				t.Skip(err.Error())
			}
			stats.Failures = append(stats.Failures, failureRec{Msg: err.Error(), Replay: rp})
			t.Fatalf("REPLAY-FAIL %s: %v", id, err)
		}
		return
	}
	out := replayOutPath(id)
	_ = os.Remove(out)
	for i := 0; ; i++ {
		c, ok := next(i)
		if !ok {
			return
		}
		cj, _ := json.Marshal(c)
		o := &Obs{}
		err := check(c, o)
		if err != nil {
			if inc, ok := asInconclusive(err); ok {
				stats.mu.Lock()
				stats.Inconcl = append(stats.Inconcl, inc.Error())
				stats.mu.Unlock()
				continue
			}
			env := replayEnvelope{Property: id, Test: t.Name(), Msg: err.Error(), Case: cj}
			eb, _ := json.MarshalIndent(env, "", " ")
			_ = os.WriteFile(out, eb, 0o644)
			stats.Failures = append(stats.Failures, failureRec{Msg: err.Error(), Replay: out})
			t.Fatalf("%s violated: %v", id, err)
		}
		stats.record(cj, o)
	}
}

// Shard returns this process's shard index and the shard count (driver-provided).
func Shard() (int, int) {
	s, _ := strconv.Atoi(os.Getenv("VERIF_SHARD"))
	n, _ := strconv.Atoi(os.Getenv("VERIF_SHARDS"))
	if n <= 0 {
		n = 1
	}
	return s, n
}

// Cases returns the number of cases this shard was asked to run (non-rapid tests).
func Cases(def int) int {
	n, err := strconv.Atoi(os.Getenv("VERIF_CASES"))
	if err != nil || n <= 0 {
		return def
	}
	return n
}
