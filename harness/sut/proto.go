// Package sut runs SigLens (the system under test) in a child process and talks to it over a
// pair of pipes with line-delimited JSON. The parent side (Client) imports nothing from
// siglens; the worker side (worker.go) initialises siglens the way cmd/startup does.
package sut

import (
	"encoding/json"
	"fmt"
	"math"
	"strconv"
	"strings"
)

// Req is one command sent to the worker.
type Req struct {
	Op string `json:"op"`

	Org   int64  `json:"org,omitempty"`
	Index string `json:"index,omitempty"`
	Body  []byte `json:"body,omitempty"` // base64 in JSON
	Text  string `json:"text,omitempty"`
	Lang  string `json:"lang,omitempty"`
	Start uint64 `json:"start,omitempty"`
	End   uint64 `json:"end,omitempty"`
	Size  int    `json:"size,omitempty"`
	From  int    `json:"from,omitempty"`

	Name string            `json:"name,omitempty"` // handler / function / setting name
	Args map[string]string `json:"args,omitempty"` // string arguments (user values, form values, settings)
	Ints map[string]int64  `json:"ints,omitempty"`
	Strs []string          `json:"strs,omitempty"`
}

// Resp is the worker's answer.
type Resp struct {
	OK   bool            `json:"ok"`
	Err  string          `json:"err,omitempty"`
	Data json.RawMessage `json:"data,omitempty"`
}

// TV is a typed value crossing the process boundary without losing its Go type:
// "i:<int64>", "u:<uint64>", "f:<float64 shortest repr>", "s:<string>", "b:true|false", "n:" (nil),
// "x:<%T>:<%v>" anything else.
type TV string

func EncodeTV(v interface{}) TV {
	switch x := v.(type) {
	case nil:
		return "n:"
	case int64:
		return TV("i:" + strconv.FormatInt(x, 10))
	case int:
		return TV("i:" + strconv.FormatInt(int64(x), 10))
	case int32:
		return TV("i:" + strconv.FormatInt(int64(x), 10))
	case int16:
		return TV("i:" + strconv.FormatInt(int64(x), 10))
	case int8:
		return TV("i:" + strconv.FormatInt(int64(x), 10))
	case uint64:
		return TV("u:" + strconv.FormatUint(x, 10))
	case uint32:
		return TV("u:" + strconv.FormatUint(uint64(x), 10))
	case uint16:
		return TV("u:" + strconv.FormatUint(uint64(x), 10))
	case uint8:
		return TV("u:" + strconv.FormatUint(uint64(x), 10))
	case uint:
		return TV("u:" + strconv.FormatUint(uint64(x), 10))
	case float64:
		return TV("f:" + strconv.FormatFloat(x, 'g', -1, 64))
	case float32:
		return TV("f:" + strconv.FormatFloat(float64(x), 'g', -1, 64))
	case string:
		return TV("s:" + x)
	case []byte:
		return TV("s:" + string(x))
	case bool:
		if x {
			return "b:true"
		}
		return "b:false"
	case json.Number:
		return TV("j:" + string(x))
	case []string:
		b, _ := json.Marshal(x)
		return TV("l:" + string(b))
	case []interface{}:
		parts := make([]string, len(x))
		for i, e := range x {
			parts[i] = string(EncodeTV(e))
		}
		b, _ := json.Marshal(parts)
		return TV("L:" + string(b))
	default:
		return TV(fmt.Sprintf("x:%T:%v", v, v))
	}
}

// Kind returns the one-letter tag.
func (t TV) Kind() byte {
	if len(t) < 2 {
		return '?'
	}
	return t[0]
}
func (t TV) Raw() string {
	if len(t) < 2 {
		return ""
	}
	return string(t[2:])
}
func (t TV) IsNil() bool { return t.Kind() == 'n' }

// Num returns the numeric value if the TV is a number.
func (t TV) Int() (int64, bool) {
	switch t.Kind() {
	case 'i':
		v, err := strconv.ParseInt(t.Raw(), 10, 64)
		return v, err == nil
	case 'u':
		v, err := strconv.ParseUint(t.Raw(), 10, 64)
		if err != nil || v > math.MaxInt64 {
			return 0, false
		}
		return int64(v), true
	}
	return 0, false
}
func (t TV) Float() (float64, bool) {
	switch t.Kind() {
	case 'f':
		v, err := strconv.ParseFloat(t.Raw(), 64)
		return v, err == nil
	case 'i':
		v, ok := t.Int()
		return float64(v), ok
	case 'u':
		v, err := strconv.ParseUint(t.Raw(), 10, 64)
		return float64(v), err == nil
	}
	return 0, false
}
func (t TV) Str() (string, bool) {
	if t.Kind() == 's' {
		return t.Raw(), true
	}
	return "", false
}

// List returns the elements of a list value: "l:" (strings) or "L:" (typed values).
func (t TV) List() ([]string, bool) {
	switch t.Kind() {
	case 'l', 'L':
		var out []string
		if err := json.Unmarshal([]byte(t.Raw()), &out); err != nil {
			return nil, false
		}
		return out, true
	}
	return nil, false
}

func (t TV) Bool() (bool, bool) {
	if t.Kind() == 'b' {
		return t.Raw() == "true", true
	}
	return false, false
}

// Record is one returned row.
type Record map[string]TV

// SearchResult is the typed copy of structs.PipeSearchResponseOuter.
type SearchResult struct {
	Err          string          `json:"err,omitempty"` // error returned by the query entry point
	Records      []Record        `json:"records,omitempty"`
	TotalMatched string          `json:"totalMatched,omitempty"` // fmt %v of the interface
	AllColumns   []string        `json:"allColumns,omitempty"`
	ColumnsOrder []string        `json:"columnsOrder,omitempty"`
	Errors       []string        `json:"errors,omitempty"`
	Qtype        string          `json:"qtype,omitempty"`
	MeasureFuncs []string        `json:"measureFunctions,omitempty"`
	GroupByCols  []string        `json:"groupByCols,omitempty"`
	Measure      []MeasureBucket `json:"measure,omitempty"`
	BucketCount  int             `json:"bucketCount,omitempty"`
	ScrollMax    bool            `json:"scrollMax,omitempty"`
	Nil          bool            `json:"nil,omitempty"` // entry point returned a nil response without error
}

type MeasureBucket struct {
	GroupBy  []string      `json:"g"`
	IGroupBy []TV          `json:"ig,omitempty"`
	Vals     map[string]TV `json:"m"`
}

func (r *SearchResult) String() string {
	var sb strings.Builder
	fmt.Fprintf(&sb, "err=%q errors=%v total=%s n=%d", r.Err, r.Errors, r.TotalMatched, len(r.Records))
	return sb.String()
}

// BulkResult is the decoded answer of HandleBulkBody.
type BulkResult struct {
	Processed int             `json:"processed"`
	Err       string          `json:"err,omitempty"`
	Response  json.RawMessage `json:"response,omitempty"`
}

// HTTPResult is the outcome of a handler invoked on an in-memory fasthttp ctx.
type HTTPResult struct {
	Status int    `json:"status"`
	Body   []byte `json:"body"`
}
