package sut

import (
	"bufio"
	"bytes"
	"encoding/json"
	"errors"
	"fmt"
	"io"
	"os"
	"os/exec"
	"path/filepath"
	"strings"
	"sync"
	"syscall"
	"time"
)

// ErrWorkerDied is returned when the worker process exits while a command is in flight.
var ErrWorkerDied = errors.New("worker process died")

// ErrTimeout is returned when a command did not answer in time (the worker is killed).
var ErrTimeout = errors.New("worker command timed out")

// Options configure a worker.
type Options struct {
	DataDir  string            // data directory; created if missing. Required.
	Orgs     []int64           // tenant ids (default {0})
	Features []string          // optional init features (alertsdb, stores, ...)
	Env      map[string]string // extra environment
	Config   string            // extra YAML appended to the generated server config
	Cwd      string            // working directory of the worker (default: <DataDir>-aux)
	Timeout  time.Duration     // per-command timeout (default 60 s)
	Binary   string            // worker binary (default: this executable)
}

// Client is the parent-side handle of one worker process.
type Client struct {
	opts    Options
	cmd     *exec.Cmd
	in      io.WriteCloser
	out     *bufio.Reader
	outF    *os.File
	stderr  *bytes.Buffer
	mu      sync.Mutex
	dead    bool
	exitErr error
	waitCh  chan struct{}
}

// AuxDir is where the worker keeps its log and cwd.
func AuxDir(dataDir string) string { return strings.TrimSuffix(dataDir, "/") + "-aux" }

// Start launches a worker and waits until it reports ready.
func Start(opts Options) (*Client, error) {
	if opts.DataDir == "" {
		return nil, errors.New("DataDir required")
	}
	if opts.Timeout == 0 {
		opts.Timeout = 180 * time.Second
	}
	bin := opts.Binary
	if bin == "" {
		var err error
		bin, err = os.Executable()
		if err != nil {
			return nil, err
		}
	}
	if err := os.MkdirAll(opts.DataDir, 0o755); err != nil {
		return nil, err
	}
	aux := AuxDir(opts.DataDir)
	if err := os.MkdirAll(aux, 0o755); err != nil {
		return nil, err
	}
	cwd := opts.Cwd
	if cwd == "" {
		cwd = aux
	}
	toWorkerR, toWorkerW, err := os.Pipe()
	if err != nil {
		return nil, err
	}
	fromWorkerR, fromWorkerW, err := os.Pipe()
	if err != nil {
		return nil, err
	}
	cmd := exec.Command(bin, "-test.run=^$")
	cmd.Dir = cwd
	cmd.ExtraFiles = []*os.File{toWorkerR, fromWorkerW}
	env := os.Environ()
	env = append(env, WorkerEnv+"=1", "VERIF_DATA="+opts.DataDir)
	if len(opts.Orgs) > 0 {
		parts := make([]string, len(opts.Orgs))
		for i, o := range opts.Orgs {
			parts[i] = fmt.Sprint(o)
		}
		env = append(env, "VERIF_ORGS="+strings.Join(parts, ","))
	}
	if len(opts.Features) > 0 {
		env = append(env, "VERIF_FEATURES="+strings.Join(opts.Features, ","))
	}
	if opts.Config != "" {
		env = append(env, "VERIF_CONFIG_EXTRA="+opts.Config)
	}
	for k, v := range opts.Env {
		env = append(env, k+"="+v)
	}
	cmd.Env = env
	stderr := &bytes.Buffer{}
	cmd.Stderr = &capWriter{buf: stderr, max: 256 << 10}
	cmd.Stdout = io.Discard
	cmd.SysProcAttr = &syscall.SysProcAttr{Pdeathsig: syscall.SIGKILL}
	if err := cmd.Start(); err != nil {
		return nil, err
	}
	toWorkerR.Close()
	fromWorkerW.Close()
	c := &Client{opts: opts, cmd: cmd, in: toWorkerW, out: bufio.NewReaderSize(fromWorkerR, 1<<20), outF: fromWorkerR,
		stderr: stderr, waitCh: make(chan struct{})}
	go func() {
		c.exitErr = cmd.Wait()
		close(c.waitCh)
	}()
	// wait for ready
	var r Resp
	if err := c.readResp(&r, 60*time.Second); err != nil {
		c.Kill()
		return nil, fmt.Errorf("worker did not become ready: %v; stderr: %s", err, c.Stderr())
	}
	return c, nil
}

type capWriter struct {
	mu  sync.Mutex
	buf *bytes.Buffer
	max int
}

func (w *capWriter) Write(p []byte) (int, error) {
	w.mu.Lock()
	defer w.mu.Unlock()
	if w.buf.Len() < w.max {
		w.buf.Write(p)
	}
	return len(p), nil
}

// Stderr returns what the worker wrote to stderr (panic traces end up here).
func (c *Client) Stderr() string { return c.stderr.String() }

// LogTail returns the last n bytes of the worker log.
func (c *Client) LogTail(n int) string {
	b, err := os.ReadFile(filepath.Join(AuxDir(c.opts.DataDir), "worker.log"))
	if err != nil {
		return ""
	}
	if len(b) > n {
		b = b[len(b)-n:]
	}
	return string(b)
}

func (c *Client) readResp(r *Resp, timeout time.Duration) error {
	type res struct {
		line []byte
		err  error
	}
	ch := make(chan res, 1)
	go func() {
		line, err := c.out.ReadBytes('\n')
		ch <- res{line, err}
	}()
	select {
	case x := <-ch:
		if x.err != nil {
			<-c.waitCh
			c.dead = true
			return ErrWorkerDied
		}
		return json.Unmarshal(x.line, r)
	case <-time.After(timeout):
		return ErrTimeout
	}
}

// Call sends one command and decodes the answer into out (may be nil).
// An application-level failure is returned as *OpError; worker death as ErrWorkerDied; a hang as ErrTimeout.
func (c *Client) Call(req *Req, out interface{}) error {
	return c.CallT(req, out, c.opts.Timeout)
}

type OpError struct{ Msg string }

func (e *OpError) Error() string { return e.Msg }

func (c *Client) CallT(req *Req, out interface{}, timeout time.Duration) error {
	c.mu.Lock()
	defer c.mu.Unlock()
	if c.dead {
		return ErrWorkerDied
	}
	b, err := json.Marshal(req)
	if err != nil {
		return err
	}
	b = append(b, '\n')
	if _, err := c.in.Write(b); err != nil {
		<-c.waitCh
		c.dead = true
		return ErrWorkerDied
	}
	var r Resp
	if err := c.readResp(&r, timeout); err != nil {
		if err == ErrTimeout {
			c.dumpAndKill()
		}
		return err
	}
	if !r.OK {
		return &OpError{Msg: r.Err}
	}
	if out != nil && len(r.Data) > 0 {
		return json.Unmarshal(r.Data, out)
	}
	return nil
}

func (c *Client) dumpAndKill() {
	// SIGQUIT makes the Go runtime dump all goroutines to stderr before exiting.
	_ = c.cmd.Process.Signal(syscall.SIGQUIT)
	select {
	case <-c.waitCh:
	case <-time.After(5 * time.Second):
		_ = c.cmd.Process.Kill()
		<-c.waitCh
	}
	c.dead = true
}

// Kill terminates the worker with SIGKILL (process-crash model).
func (c *Client) Kill() {
	if c.cmd != nil && c.cmd.Process != nil {
		_ = c.cmd.Process.Kill()
	}
	<-c.waitCh
	c.dead = true
	c.in.Close()
	c.outF.Close()
}

// Close asks the worker to quit and waits; kills it if it does not.
func (c *Client) Close() {
	if !c.dead {
		c.mu.Lock()
		b, _ := json.Marshal(&Req{Op: "quit"})
		_, _ = c.in.Write(append(b, '\n'))
		c.mu.Unlock()
		select {
		case <-c.waitCh:
		case <-time.After(3 * time.Second):
			_ = c.cmd.Process.Kill()
			<-c.waitCh
		}
		c.dead = true
	}
	c.in.Close()
	c.outF.Close()
}

// Dead reports whether the worker process has exited.
func (c *Client) Dead() bool {
	select {
	case <-c.waitCh:
		return true
	default:
		return false
	}
}

// ExitInfo describes how the worker ended.
func (c *Client) ExitInfo() string {
	select {
	case <-c.waitCh:
		return fmt.Sprintf("%v", c.exitErr)
	default:
		return "running"
	}
}

// ---- typed helpers ---------------------------------------------------------------------

func (c *Client) Bulk(org int64, body []byte) (*BulkResult, error) {
	var br BulkResult
	err := c.Call(&Req{Op: "bulk", Org: org, Body: body}, &br)
	return &br, err
}
func (c *Client) Flush() error  { return c.Call(&Req{Op: "flush"}, nil) }
func (c *Client) Rotate() error { return c.Call(&Req{Op: "rotate"}, nil) }
func (c *Client) Set(name string, v int64) error {
	return c.Call(&Req{Op: "set", Ints: map[string]int64{name: v}}, nil)
}

type Query struct {
	Org   int64
	Index string
	Text  string
	Lang  string
	Start uint64
	End   uint64
	Size  int
	From  int
	// IncludeNulls asks for null and empty-string values to be reported instead of being hidden.
	IncludeNulls bool
}

func (c *Client) Search(q Query) (*SearchResult, error) {
	var sr SearchResult
	req := &Req{Op: "search", Org: q.Org, Index: q.Index, Text: q.Text, Lang: q.Lang, Start: q.Start, End: q.End,
		Size: q.Size, From: q.From}
	if q.IncludeNulls {
		req.Args = map[string]string{"includeNulls": "true"}
	}
	err := c.Call(req, &sr)
	return &sr, err
}
