package sut

import (
	"bufio"
	"context"
	"encoding/json"
	"fmt"
	"os"
	"runtime"
	"runtime/debug"
	"runtime/pprof"
	"strconv"
	"strings"
	"sync/atomic"
	"time"

	"github.com/siglens/siglens/pkg/ast/pipesearch"
	"github.com/siglens/siglens/pkg/config"
	eswriter "github.com/siglens/siglens/pkg/es/writer"
	"github.com/siglens/siglens/pkg/hooks"
	"github.com/siglens/siglens/pkg/querytracker"
	"github.com/siglens/siglens/pkg/segment/memory/limit"
	"github.com/siglens/siglens/pkg/segment/query"
	"github.com/siglens/siglens/pkg/segment/structs"
	"github.com/siglens/siglens/pkg/segment/writer"
	"github.com/siglens/siglens/pkg/segment/writer/metrics"
	server_utils "github.com/siglens/siglens/pkg/server/utils"
	vtable "github.com/siglens/siglens/pkg/virtualtable"
	log "github.com/sirupsen/logrus"
)

// WorkerEnv is the environment variable that turns a test binary into a worker.
const WorkerEnv = "VERIF_WORKER"

var qidCounter uint64 = 1000

func nextQid() uint64 { return atomic.AddUint64(&qidCounter, 1) }

// opHandlers lets other files (and build-tagged files) register additional operations.
var opHandlers = map[string]func(*Req) (interface{}, error){}

// RegisterOp registers a worker operation.
func RegisterOp(name string, fn func(*Req) (interface{}, error)) { opHandlers[name] = fn }

// initHooks are run after the core initialisation, in registration order, when the
// worker was started with the named feature (VERIF_FEATURES=a,b,c).
var featureInits = map[string]func() error{}

func RegisterFeature(name string, fn func() error) { featureInits[name] = fn }

func workerConfigYAML(dataDir string) string {
	var sb strings.Builder
	fmt.Fprintf(&sb, "dataPath: %s/\n", dataDir)
	fmt.Fprintf(&sb, "log:\n  logPrefix: %s/logs/\n", strings.TrimSuffix(dataDir, "/")+"-aux")
	sb.WriteString("ssInstanceName: verifnode\n")
	sb.WriteString("pqsEnabled: true\n")
	sb.WriteString("esVersion: \"7.9.3\"\n")
	sb.WriteString("timestampKey: timestamp\n")
	qt := "300"
	if v := os.Getenv("VERIF_QUERY_TIMEOUT_SECS"); v != "" {
		qt = v // checks that need queries to run into the server's own timeout
	}
	sb.WriteString("queryTimeoutSecs: " + qt + "\n")
	if extra := os.Getenv("VERIF_CONFIG_EXTRA"); extra != "" {
		sb.WriteString(extra)
		if !strings.HasSuffix(extra, "\n") {
			sb.WriteString("\n")
		}
	}
	return sb.String()
}

// RunWorker is the entry point of the worker process. It never returns.
func RunWorker() {
	dataDir := os.Getenv("VERIF_DATA")
	if dataDir == "" {
		fmt.Fprintln(os.Stderr, "VERIF_DATA not set")
		os.Exit(97)
	}
	in := os.NewFile(3, "cmd-in")
	out := os.NewFile(4, "cmd-out")
	if in == nil || out == nil {
		fmt.Fprintln(os.Stderr, "fd 3/4 missing")
		os.Exit(97)
	}
	auxDir := strings.TrimSuffix(dataDir, "/") + "-aux"
	_ = os.MkdirAll(auxDir+"/logs", 0o755)
	logf, err := os.OpenFile(auxDir+"/worker.log", os.O_CREATE|os.O_WRONLY|os.O_APPEND, 0o644)
	if err == nil {
		log.SetOutput(logf)
		// panics and runtime crashes go to stderr; the parent captures stderr separately
	}
	log.SetLevel(log.InfoLevel)
	if os.Getenv("VERIF_LOGLEVEL") == "error" {
		log.SetLevel(log.ErrorLevel)
	}
	debug.SetTraceback("all")

	if err := initSiglens(dataDir); err != nil {
		fmt.Fprintf(os.Stderr, "worker init failed: %v\n", err)
		os.Exit(96)
	}

	w := bufio.NewWriter(out)
	enc := json.NewEncoder(w)
	sc := bufio.NewScanner(in)
	sc.Buffer(make([]byte, 1<<20), 1<<30)
	// ready line
	_ = enc.Encode(&Resp{OK: true})
	_ = w.Flush()
	for sc.Scan() {
		var req Req
		if err := json.Unmarshal(sc.Bytes(), &req); err != nil {
			_ = enc.Encode(&Resp{Err: "bad request: " + err.Error()})
			_ = w.Flush()
			continue
		}
		if req.Op == "quit" {
			_ = enc.Encode(&Resp{OK: true})
			_ = w.Flush()
			os.Exit(0)
		}
		data, err := dispatch(&req)
		resp := &Resp{OK: err == nil}
		if err != nil {
			resp.Err = err.Error()
		}
		if data != nil {
			b, merr := json.Marshal(data)
			if merr != nil {
				resp.OK = false
				resp.Err = "marshal: " + merr.Error()
			} else {
				resp.Data = b
			}
		}
		if e := enc.Encode(resp); e != nil {
			os.Exit(95)
		}
		_ = w.Flush()
	}
	os.Exit(0)
}

var orgIds = []int64{0}

func initSiglens(dataDir string) error {
	if s := os.Getenv("VERIF_ORGS"); s != "" {
		orgIds = nil
		for _, p := range strings.Split(s, ",") {
			v, err := strconv.ParseInt(p, 10, 64)
			if err != nil {
				return err
			}
			orgIds = append(orgIds, v)
		}
	}
	if len(orgIds) != 1 || orgIds[0] != 0 {
		hooks.GlobalHooks.GetIdsConditionHook = func() (bool, []int64) { return true, orgIds }
	}
	cfg, err := config.ExtractConfigData([]byte(workerConfigYAML(dataDir)))
	if err != nil {
		return fmt.Errorf("ExtractConfigData: %v", err)
	}
	config.SetConfig(cfg)
	if err := os.MkdirAll(dataDir, 0o755); err != nil {
		return err
	}
	if err := config.InitDerivedConfig("verifnode"); err != nil {
		return err
	}

	features := map[string]bool{}
	for _, f := range strings.Split(os.Getenv("VERIF_FEATURES"), ",") {
		if f != "" {
			features[f] = true
		}
	}
	// order follows cmd/startup.StartSiglensServer
	if fn := featureInits["alertsdb"]; fn != nil && features["alertsdb"] {
		if err := fn(); err != nil {
			return fmt.Errorf("alertsdb: %v", err)
		}
	}
	limit.InitMemoryLimiter()
	if fn := featureInits["stores"]; fn != nil && features["stores"] {
		if err := fn(); err != nil {
			return fmt.Errorf("stores: %v", err)
		}
	}
	querytracker.InitQT()
	if err := vtable.InitVTable(server_utils.GetMyIds); err != nil {
		return fmt.Errorf("InitVTable: %v", err)
	}
	// ingest server part
	writer.InitWriterNode()
	if !features["nowalrecover"] {
		metrics.RecoverWALData()
		metrics.RecoverMNameWALData()
		metrics.RecoverMEntryWALData()
	}
	// query server part
	if err := query.InitQueryNode(server_utils.GetMyIds, server_utils.ExtractKibanaRequests); err != nil {
		return fmt.Errorf("InitQueryNode: %v", err)
	}
	query.InitMaxRunningQueries()
	go query.PullQueriesToRun(context.Background())

	for name, fn := range featureInits {
		if name == "alertsdb" || name == "stores" {
			continue
		}
		if features[name] {
			if err := fn(); err != nil {
				return fmt.Errorf("%s: %v", name, err)
			}
		}
	}
	return nil
}

func dispatch(req *Req) (data interface{}, err error) {
	defer func() {
		if r := recover(); r != nil {
			// A panic on the command goroutine is reported as a crash-equivalent outcome: the
			// real server would have died (or its Recovery middleware would have answered 500).
			err = fmt.Errorf("PANIC: %v\n%s", r, debug.Stack())
		}
	}()
	switch req.Op {
	case "ping":
		return "pong", nil
	case "bulk":
		processed, resp, herr := eswriter.HandleBulkBody(req.Body, nil, 0, req.Org, false)
		br := &BulkResult{Processed: processed}
		if herr != nil {
			br.Err = herr.Error()
		}
		if resp != nil {
			b, merr := json.Marshal(resp)
			if merr != nil {
				return nil, merr
			}
			br.Response = b
		}
		return br, nil
	case "flush":
		z := time.Duration(0)
		writer.FlushWipBufferToFile(&z, nil)
		return nil, nil
	case "rotate":
		writer.ForceRotateSegmentsForTest()
		return nil, nil
	case "search":
		return doSearch(req), nil
	case "set":
		for k, v := range req.Ints {
			switch k {
			case "cardLimit":
				writer.SetCardinalityLimit(uint16(v))
			case "gomaxprocs":
				runtime.GOMAXPROCS(int(v))
			case "pqs":
				config.SetPQSEnabled(v != 0)
			case "aggs":
				config.SetAggregationsFlag(v != 0)
			default:
				return nil, fmt.Errorf("unknown setting %q", k)
			}
		}
		return nil, nil
	case "goroutines":
		return runtime.NumGoroutine(), nil
	case "cpuprof_start":
		f, err := os.Create(req.Name)
		if err != nil {
			return nil, err
		}
		return nil, pprof.StartCPUProfile(f)
	case "cpuprof_stop":
		pprof.StopCPUProfile()
		return nil, nil
	}
	if fn, ok := opHandlers[req.Op]; ok {
		return fn(req)
	}
	return nil, fmt.Errorf("unknown op %q", req.Op)
}

func doSearch(req *Req) *SearchResult {
	m := map[string]interface{}{
		"searchText":    req.Text,
		"indexName":     req.Index,
		"startEpoch":    req.Start,
		"endEpoch":      req.End,
		"queryLanguage": "Splunk QL",
	}
	if req.Lang != "" {
		m["queryLanguage"] = req.Lang
	}
	if req.Size > 0 {
		m["size"] = uint64(req.Size)
	}
	if req.From > 0 {
		m["from"] = float64(req.From)
	}
	if req.Args["includeNulls"] == "true" {
		m["includeNulls"] = true
	}
	qid := nextQid()
	resp, scrollMax, _, err := pipesearch.ParseAndExecutePipeRequest(m, qid, req.Org, time.Now(), "", nil)
	out := &SearchResult{ScrollMax: scrollMax}
	if err != nil {
		out.Err = err.Error()
		return out
	}
	if resp == nil {
		out.Nil = true
		return out
	}
	ConvertResponse(resp, out)
	return out
}

// ConvertResponse copies a siglens response into the typed transport form.
func ConvertResponse(resp *structs.PipeSearchResponseOuter, out *SearchResult) {
	out.TotalMatched = fmt.Sprintf("%v", resp.Hits.TotalMatched)
	out.AllColumns = resp.AllPossibleColumns
	out.ColumnsOrder = resp.ColumnsOrder
	out.Errors = resp.Errors
	out.Qtype = resp.Qtype
	out.MeasureFuncs = resp.MeasureFunctions
	out.GroupByCols = resp.GroupByCols
	out.BucketCount = resp.BucketCount
	for _, h := range resp.Hits.Hits {
		r := make(Record, len(h))
		for k, v := range h {
			r[k] = EncodeTV(v)
		}
		out.Records = append(out.Records, r)
	}
	for _, b := range resp.MeasureResults {
		if b == nil {
			continue
		}
		mb := MeasureBucket{GroupBy: b.GroupByValues, Vals: map[string]TV{}}
		for _, ig := range b.IGroupByValues {
			mb.IGroupBy = append(mb.IGroupBy, EncodeTV(ig.CVal))
		}
		for k, v := range b.MeasureVal {
			mb.Vals[k] = EncodeTV(v)
		}
		out.Measure = append(out.Measure, mb)
	}
}
