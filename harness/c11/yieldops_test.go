//go:build verifoverlay

package c11

import (
	"github.com/siglens/siglens/pkg/verifyield"

	"verifharness/sut"
)

func init() {
	yieldBuilt = true
	// yield_arm switches the injected yield points on (permille = 0: off)
	sut.RegisterOp("yield_arm", func(r *sut.Req) (interface{}, error) {
		verifyield.Arm(uint64(r.Ints["seed"]), r.Ints["permille"], r.Ints["maxMicros"])
		return nil, nil
	})
}
