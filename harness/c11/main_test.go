package c11

import (
	"testing"

	"verifharness/pt"
)

func TestMain(m *testing.M) { pt.Main(m) }
