package c11

import (
	"encoding/json"
	"errors"
	"fmt"
	"os"
	"path/filepath"
	"regexp"
	"sort"
	"strings"
	"testing"
	"time"

	"pgregory.net/rapid"

	"verifharness/gen"
	"verifharness/lq"
	"verifharness/model"
	"verifharness/pt"
	"verifharness/sut"
)

// C11 — concurrent ingest, flush, rotation and search stay consistent.

type c11Case struct {
	DS         *gen.Dataset `json:"ds"`
	Ingesters  [][][2]int   `json:"ingesters"` // per ingester: list of [from,to) event ranges
	IngIndex   []int        `json:"ingIndex"`  // index of each ingester
	NIdx       int          `json:"nIdx"`
	Flushers   int          `json:"flushers"`
	Rotators   int          `json:"rotators"`
	Searchers  int          `json:"searchers"`
	FlushN     int          `json:"flushN"`
	RotateN    int          `json:"rotateN"`
	SearchN    int          `json:"searchN"`
	GoMaxProcs int          `json:"gomaxprocs"`
	// injected yield points (build-time overlay): at about YieldPermille/1000 of the hits a goroutine yields or
	// sleeps up to YieldMaxUs microseconds; 0 = off. The points sit on both sides of the unrotated -> rotated
	// hand-over (query listing, readers, rotation, segstore creation).
	YieldPermille int   `json:"yieldPermille,omitempty"`
	YieldMaxUs    int   `json:"yieldMaxUs,omitempty"`
	YieldSeed     int64 `json:"yieldSeed,omitempty"`
}

// yieldBuilt is set by yieldops_test.go when the binary carries the yield-point overlay.
var yieldBuilt bool

var idxNames = []string{"c11a", "c11b", "c11c"}

func genC11(t *rapid.T) *c11Case {
	profiles := []gen.Profile{gen.PInt, gen.PFloat, gen.PLowStr, gen.PHighStr, gen.PMixNumStr, gen.PBool}
	ds := gen.GenDataset(t, gen.DatasetOpts{MinEvents: 8, MaxEvents: pt.Scale(120, 600), MaxCols: 4, Profiles: profiles, NullPct: 3, TsMode: 1})
	// arrival order against event time: as generated, oldest first, or newest first (a later batch then
	// carries events older than everything a running search has listed so far)
	switch rapid.IntRange(0, 2).Draw(t, "arrivalOrder") {
	case 1:
		sort.SliceStable(ds.Events, func(i, j int) bool { return ds.Events[i].Ts < ds.Events[j].Ts })
	case 2:
		sort.SliceStable(ds.Events, func(i, j int) bool { return ds.Events[i].Ts > ds.Events[j].Ts })
	}
	n := len(ds.Events)
	cs := &c11Case{DS: ds}
	cs.NIdx = rapid.IntRange(1, 3).Draw(t, "nIdx")
	ni := rapid.IntRange(1, 6).Draw(t, "nIngesters")
	// cut the events into ni contiguous shares, each share into batches
	cuts := []int{0}
	for i := 1; i < ni; i++ {
		cuts = append(cuts, rapid.IntRange(0, n).Draw(t, "cut"))
	}
	cuts = append(cuts, n)
	sort.Ints(cuts)
	for i := 0; i < ni; i++ {
		from, to := cuts[i], cuts[i+1]
		var batches [][2]int
		for from < to {
			b := rapid.IntRange(1, to-from).Draw(t, "batch")
			if b > 40 {
				b = 40
			}
			batches = append(batches, [2]int{from, from + b})
			from += b
		}
		cs.Ingesters = append(cs.Ingesters, batches)
		cs.IngIndex = append(cs.IngIndex, rapid.IntRange(0, cs.NIdx-1).Draw(t, "ingIdx"))
	}
	cs.Flushers = rapid.IntRange(0, 2).Draw(t, "flushers")
	cs.Rotators = rapid.IntRange(0, 2).Draw(t, "rotators")
	cs.Searchers = rapid.IntRange(1, 4).Draw(t, "searchers")
	cs.FlushN = rapid.IntRange(1, 30).Draw(t, "flushN")
	cs.RotateN = rapid.IntRange(1, 12).Draw(t, "rotateN")
	cs.SearchN = rapid.IntRange(1, 12).Draw(t, "searchN")
	cs.GoMaxProcs = rapid.SampledFrom([]int{1, 2, 4, 16}).Draw(t, "gomaxprocs")
	if rapid.IntRange(0, 2).Draw(t, "yield") > 0 {
		cs.YieldPermille = rapid.SampledFrom([]int{5, 20, 60, 150}).Draw(t, "yieldPermille")
		cs.YieldMaxUs = rapid.SampledFrom([]int{0, 200, 1000, 3000}).Draw(t, "yieldMaxUs")
		cs.YieldSeed = int64(rapid.IntRange(1, 1<<30).Draw(t, "yieldSeed"))
	}
	if os.Getenv("VERIF_C11_HEAVY") != "" {
		// development aid: only programmes that search while rotating
		if cs.Rotators == 0 {
			cs.Rotators = 2
		}
		cs.RotateN = 12
		cs.SearchN = 12
		if cs.Searchers < 3 {
			cs.Searchers = 3
		}
	}
	return cs
}

var raceHeader = regexp.MustCompile(`(?m)^WARNING: DATA RACE`)
var frameRe = regexp.MustCompile(`(?m)^\s+(github\.com/siglens/siglens/[^\s(]+)\(`)

// raceSignatures extracts one signature per report: the first siglens frame of each of the two accesses.
func raceSignatures(text string) map[string]string {
	out := map[string]string{}
	idxs := raceHeader.FindAllStringIndex(text, -1)
	for i, loc := range idxs {
		end := len(text)
		if i+1 < len(idxs) {
			end = idxs[i+1][0]
		}
		rep := text[loc[0]:end]
		// split the report into its stack sections
		secs := regexp.MustCompile(`(?m)^(Write|Read|Previous write|Previous read|Goroutine)`).Split(rep, -1)
		var tops []string
		for _, s := range secs[1:] {
			if m := frameRe.FindStringSubmatch(s); m != nil {
				fn := m[1]
				fn = strings.TrimPrefix(fn, "github.com/siglens/siglens/")
				tops = append(tops, fn)
				if len(tops) == 2 {
					break
				}
			}
		}
		if len(tops) == 0 {
			continue // race entirely outside siglens code (harness / runtime)
		}
		sort.Strings(tops)
		sig := strings.Join(tops, " <-> ")
		if _, ok := out[sig]; !ok {
			if len(rep) > 3500 {
				rep = rep[:3500]
			}
			out[sig] = rep
		}
	}
	return out
}

func raceKnown(sig string) (string, bool) {
	for _, k := range knownRaces {
		if strings.Contains(sig, k.match) && pt.KnownFindingOpen(k.id) {
			return k.id, true
		}
	}
	return "", false
}

type knownRace struct{ id, match string }

var knownRaces = []knownRace{
	{"C11-race-memory-summary", "limit.printMemoryManagerSummary"},
	{"C11-race-memory-summary", "writer.GetUnrotatedMetadataInfo"},
	{"C11-race-blockresults-init", "blockresults.InitBlockResults"},
	{"C11-race-unrotated-colmap", "utils.MergeMapsRetainingFirst"},
	{"C11-race-smi-lazy-load", "pkg/segment/metadata."},
	{"C11-race-smi-lazy-load", "microreader.ReadBlockSummaries"},
	{"C11-race-smi-lazy-load", "pkg/segment/query/metadata.RunCmiCheck"},
	{"C11-race-smi-lazy-load", "pkg/segment/query/metadata.convertBlocksToSearchRequest"},
}

func checkC11(cs *c11Case, o *pt.Obs) error {
	evs := cs.DS.Events
	// a queryable copy of the event id: half of the searches use the filter `vk>-1` (true for every event),
	// which takes the micro-index path of unrotated segments instead of the match-all shortcut
	for _, e := range evs {
		has := false
		for _, f := range e.Doc.Obj {
			if f.Name == "vk" {
				has = true
			}
		}
		if !has {
			e.Doc.Obj = append(e.Doc.Obj, model.Field{Name: "vk", Node: model.LeafNode(model.Int(e.Vid))})
		}
	}
	lo, hi := lq.TsBounds(evs)
	prog := programme{Flushers: cs.Flushers, Rotators: cs.Rotators, Searchers: cs.Searchers, FlushN: cs.FlushN, RotateN: cs.RotateN,
		SearchN: cs.SearchN, Start: lo - 1, End: hi + 1, Total: len(evs), Indexes: idxNames[:cs.NIdx]}
	perIndex := map[string][]*model.Event{}
	for gi, batches := range cs.Ingesters {
		ix := idxNames[cs.IngIndex[gi]]
		var bs []batch
		for _, r := range batches {
			part := evs[r[0]:r[1]]
			b := batch{Index: ix, Body: gen.BulkBody(ix, part)}
			for _, e := range part {
				b.Vids = append(b.Vids, e.Vid)
			}
			bs = append(bs, b)
			perIndex[ix] = append(perIndex[ix], part...)
		}
		prog.Ingesters = append(prog.Ingesters, bs)
	}
	o.Class(fmt.Sprintf("gomaxprocs_%d", cs.GoMaxProcs))
	if len(cs.Ingesters) >= 2 {
		o.Class("multi_ingester")
	}
	dataDir := pt.NewDataDir()
	defer pt.CleanupDataDir(dataDir)
	raceLog := filepath.Join(sut.AuxDir(dataDir), "race")
	env := map[string]string{"GORACE": "halt_on_error=0 exitcode=0 history_size=3 log_path=" + raceLog, "VERIF_LOGLEVEL": "error"}
	c, err := sut.Start(sut.Options{DataDir: dataDir, Env: env})
	if err != nil {
		return pt.Inconclusivef("worker start: %v", err)
	}
	defer c.Close()
	if err := c.Set("gomaxprocs", int64(cs.GoMaxProcs)); err != nil {
		return err
	}
	if cs.YieldPermille > 0 && yieldBuilt {
		if err := c.Call(&sut.Req{Op: "yield_arm", Ints: map[string]int64{"seed": cs.YieldSeed, "permille": int64(cs.YieldPermille), "maxMicros": int64(cs.YieldMaxUs)}}, nil); err != nil {
			return err
		}
		o.Class("yield_points_on")
	}
	body, _ := json.Marshal(&prog)
	var res progResult
	if err := c.Call(&sut.Req{Op: "c11_start", Body: body}, nil); err != nil {
		return lq.Classify(c, "starting the concurrent programme", err)
	}
	started := time.Now()
	lastStallCheck := started
	var lastStall []string // goroutines of the most recent no-progress observation (diagnostics only)
	for {
		var pr *progResult
		if err := c.Call(&sut.Req{Op: "c11_poll"}, &pr); err != nil {
			if errors.Is(err, sut.ErrWorkerDied) {
				return fmt.Errorf("server process died during the concurrent programme: %s", pt.CrashDetail(c))
			}
			return lq.Classify(c, "polling the concurrent programme", err)
		}
		if pr != nil {
			res = *pr
			break
		}
		if time.Since(started) > 300*time.Second {
			return pt.Inconclusivef("concurrent programme exceeded its time budget without a provable deadlock")
		}
		if time.Since(started) > 15*time.Second && time.Since(lastStallCheck) > 10*time.Second {
			lastStallCheck = time.Now()
			// deadlock = two observations 5 s apart with (almost) no CPU used by the process and the same
			// siglens goroutines parked on locks/channels in the same frames, none runnable
			var a, b stallInfo
			if err := c.Call(&sut.Req{Op: "c11_stall"}, &a); err != nil {
				continue
			}
			time.Sleep(5 * time.Second)
			if err := c.Call(&sut.Req{Op: "c11_stall"}, &b); err != nil {
				continue
			}
			if allParked(b.Goroutines) || len(lastStall) == 0 {
				lastStall = b.Goroutines // keep the most recent sample that still shows blocked programme goroutines
			}
			var again *progResult
			_ = c.Call(&sut.Req{Op: "c11_poll"}, &again)
			if again != nil {
				res = *again
				break
			}
			if b.CPUTicks-a.CPUTicks <= 5 && strings.Join(a.Goroutines, "\n") == strings.Join(b.Goroutines, "\n") && allParked(b.Goroutines) {
				return fmt.Errorf("deadlock: the concurrent programme made no progress for 5 s while the process used no CPU and all of its siglens goroutines are parked in the same frames:\n%s", strings.Join(b.Goroutines, "\n"))
			}
		}
		time.Sleep(100 * time.Millisecond)
	}
	if len(res.Panics) > 0 {
		return fmt.Errorf("panic inside siglens during the concurrent programme: %s", res.Panics[0])
	}
	if len(res.BulkErrs) > 0 {
		return fmt.Errorf("bulk request failed during the concurrent programme: %v", res.BulkErrs[0])
	}
	// (iii) every search: no duplicates, contains everything acknowledged before it began
	overlapRot := false
	for si, s := range res.Searches {
		if s.Err != "" {
			diag := ""
			if len(lastStall) > 0 {
				diag = "\nsiglens goroutines while the programme was making no progress:\n" + strings.Join(lastStall, "\n")
			}
			return fmt.Errorf("search %d (%s) on %s answered with an error during concurrent activity: %s%s", si, s.Text, s.Index, s.Err, diag)
		}
		seen := map[int64]bool{}
		for _, v := range s.Got {
			if seen[v] {
				return fmt.Errorf("search %d (%s) on %s returned _vid=%d twice (rotation during search: %v) %v%s", si, s.Text, s.Index, v, s.DuringRot, s.Odd, errorLog(dataDir))
			}
			seen[v] = true
		}
		for _, v := range s.AckedStart {
			if !seen[v] && s.Text != "*" && s.DuringRot && pt.KnownFindingOpen("C11-filter-search-rotation-miss") {
				// open finding: a filter search (persistent-query path) that overlaps a rotation of its
				// index can skip events of the segment being handed over; match-all searches and
				// searches that did not overlap a rotation stay strict
				o.Known("C11-filter-search-rotation-miss")
				break
			}
			if !seen[v] {
				return fmt.Errorf("search %d (%s) on %s misses _vid=%d whose flush had completed before the search began (returned %d, acknowledged %d, rotation during search: %v)%s",
					si, s.Text, s.Index, v, len(s.Got), len(s.AckedStart), s.DuringRot, errorLog(dataDir))
			}
		}
		if s.DuringRot {
			overlapRot = true
		}
	}
	if overlapRot {
		o.NonTrivial()
		o.Class("search_overlapped_rotation")
	}
	o.Count("searches", int64(len(res.Searches)))
	o.Count("rotations", res.Rotations)
	// (iv) quiescent state equals the sequential result
	if err := c.Flush(); err != nil {
		return lq.Classify(c, "final flush", err)
	}
	for ix, want := range perIndex {
		sr, err := lq.Search(c, sut.Query{Index: ix, Text: "*", Start: lo - 1, End: hi + 1, Size: len(evs) + 10})
		if err != nil {
			return fmt.Errorf("final query on %s: %v", ix, err)
		}
		got, _, err := lq.Vids("*", sr.Records)
		if err != nil {
			return fmt.Errorf("final state of %s: %v", ix, err)
		}
		for _, e := range want {
			if !got[e.Vid] {
				return fmt.Errorf("final state of %s: event _vid=%d is missing after all activity stopped (%d of %d present)", ix, e.Vid, len(got), len(want))
			}
		}
		if len(got) != len(want) {
			return fmt.Errorf("final state of %s: %d events, %d were ingested", ix, len(got), len(want))
		}
	}
	c.Close()
	// (i) data races reported by the detector
	files, _ := filepath.Glob(raceLog + ".*")
	var sigs []string
	reports := map[string]string{}
	for _, f := range files {
		b, _ := os.ReadFile(f)
		for sig, rep := range raceSignatures(string(b)) {
			if _, ok := reports[sig]; !ok {
				reports[sig] = rep
				sigs = append(sigs, sig)
			}
		}
	}
	sort.Strings(sigs)
	o.Count("race_reports", int64(len(sigs)))
	for _, sig := range sigs {
		if id, ok := raceKnown(sig); ok {
			o.Known(id)
			continue
		}
		if cf := os.Getenv("VERIF_C11_COLLECT"); cf != "" {
			f, _ := os.OpenFile(cf, os.O_APPEND|os.O_CREATE|os.O_WRONLY, 0o644)
			fmt.Fprintf(f, "SIG %s\n%s\n\n", sig, reports[sig])
			f.Close()
			continue
		}
		return fmt.Errorf("data race reported by the race detector: %s\n%s", sig, reports[sig])
	}
	return nil
}

// errorLog returns the last error-level lines the server wrote (the worker logs errors only).
func errorLog(dataDir string) string {
	b, err := os.ReadFile(filepath.Join(sut.AuxDir(dataDir), "worker.log"))
	if err != nil {
		return ""
	}
	lines := strings.Split(strings.TrimSpace(string(b)), "\n")
	if len(lines) > 12 {
		lines = lines[len(lines)-12:]
	}
	out := strings.Join(lines, "\n")
	if len(out) > 4000 {
		out = out[len(out)-4000:]
	}
	return "\nserver error log (tail):\n" + out
}

// allParked: at least two programme goroutines exist and none of the listed goroutines is running or runnable.
func allParked(gs []string) bool {
	n := 0
	for _, g := range gs {
		if strings.Contains(g, "[running]") || strings.Contains(g, "[runnable]") || strings.Contains(g, "[syscall") || strings.Contains(g, "[sleep") || strings.Contains(g, "[IO wait") {
			if strings.Contains(g, "c11.") || strings.Contains(g, "HandleBulkBody") || strings.Contains(g, "FlushWipBufferToFile") || strings.Contains(g, "ParseAndExecutePipeRequest") {
				return false
			}
			continue
		}
		if strings.Contains(g, "sync.") || strings.Contains(g, "chan ") || strings.Contains(g, "semacquire") || strings.Contains(g, "select") {
			n++
		}
	}
	return n >= 2
}

func TestC11(t *testing.T) { pt.RunProp(t, "C11", genC11, checkC11) }
