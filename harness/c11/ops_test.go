package c11

import (
	"encoding/json"
	"fmt"
	"os"
	"runtime"
	"sort"
	"strconv"
	"strings"
	"sync"
	"sync/atomic"
	"time"

	"github.com/siglens/siglens/pkg/ast/pipesearch"
	eswriter "github.com/siglens/siglens/pkg/es/writer"
	"github.com/siglens/siglens/pkg/segment/writer"

	"verifharness/sut"
)

// programme executed inside the worker (the command pipe is sequential, concurrency must live here)
type programme struct {
	Ingesters [][]batch `json:"ingesters"` // per ingester goroutine: its batches, in order
	Flushers  int       `json:"flushers"`  // extra goroutines calling flush in a loop
	Rotators  int       `json:"rotators"`
	Searchers int       `json:"searchers"`
	FlushN    int       `json:"flushN"` // iterations of each flusher
	RotateN   int       `json:"rotateN"`
	SearchN   int       `json:"searchN"`
	Indexes   []string  `json:"indexes"`
	Start     uint64    `json:"start"`
	End       uint64    `json:"end"`
	Total     int       `json:"total"`
}

type batch struct {
	Index string  `json:"index"`
	Body  []byte  `json:"body"`
	Vids  []int64 `json:"vids"`
}

type searchObs struct {
	Index      string   `json:"index"`
	Text       string   `json:"text"`
	Odd        []string `json:"odd,omitempty"` // hits without a usable _vid, verbatim
	AckedStart []int64  `json:"ackedStart"`    // vids (of this index) whose flush had completed when the search began
	Got        []int64  `json:"got"`
	Err        string   `json:"err,omitempty"`
	DuringRot  bool     `json:"duringRot"` // a rotation completed while the search ran
}

type progResult struct {
	Searches   []searchObs `json:"searches"`
	BulkErrs   []string    `json:"bulkErrs"`
	Panics     []string    `json:"panics"`
	Rotations  int64       `json:"rotations"`
	DurationMs int64       `json:"durationMs"`
}

var qidSeq uint64 = 5_000_000

var (
	progMu         sync.Mutex
	lastProgResult *progResult
)

// stallInfo is what the parent needs to tell a deadlock from a slow run: the process CPU time and the
// state of every goroutine that belongs to the programme.
type stallInfo struct {
	CPUTicks   int64    `json:"cpuTicks"` // utime+stime of the worker process (clock ticks)
	Goroutines []string `json:"goroutines"`
	Dump       string   `json:"dump"`
}

func init() {
	sut.RegisterOp("c11_run", func(r *sut.Req) (interface{}, error) {
		var p programme
		if err := json.Unmarshal(r.Body, &p); err != nil {
			return nil, err
		}
		return runProgramme(&p), nil
	})
	// asynchronous variant: start, then poll; lets the parent examine a stall
	sut.RegisterOp("c11_start", func(r *sut.Req) (interface{}, error) {
		var p programme
		if err := json.Unmarshal(r.Body, &p); err != nil {
			return nil, err
		}
		progMu.Lock()
		lastProgResult = nil
		progMu.Unlock()
		go func() {
			res := runProgramme(&p)
			progMu.Lock()
			lastProgResult = res
			progMu.Unlock()
		}()
		return nil, nil
	})
	sut.RegisterOp("c11_poll", func(r *sut.Req) (interface{}, error) {
		progMu.Lock()
		defer progMu.Unlock()
		return lastProgResult, nil
	})
	sut.RegisterOp("c11_stall", func(r *sut.Req) (interface{}, error) {
		info := &stallInfo{}
		if b, err := os.ReadFile("/proc/self/stat"); err == nil {
			// fields 14 and 15 (utime, stime) after the ")" that ends the command name
			s := string(b)
			if i := strings.LastIndex(s, ")"); i >= 0 {
				f := strings.Fields(s[i+1:])
				if len(f) > 13 {
					u, _ := strconv.ParseInt(f[11], 10, 64)
					st, _ := strconv.ParseInt(f[12], 10, 64)
					info.CPUTicks = u + st
				}
			}
		}
		buf := make([]byte, 4<<20)
		n := runtime.Stack(buf, true)
		for _, g := range strings.Split(string(buf[:n]), "\n\n") {
			if !strings.Contains(g, "siglens/siglens/pkg/") && !strings.Contains(g, "c11.runProgramme") {
				continue
			}
			if strings.Contains(g, "c11.init") && strings.Contains(g, "c11_stall") {
				continue
			}
			lines := strings.Split(g, "\n")
			if len(lines) < 2 {
				continue
			}
			// header without the minutes counter + the top two frames
			hdr := lines[0]
			if i := strings.Index(hdr, ","); i >= 0 {
				hdr = hdr[:i] + "]:"
			}
			top := hdr
			depth := 3
			if strings.Contains(hdr, "[running") || strings.Contains(hdr, "[runnable") {
				depth = 16 // a goroutine that is still computing: show where it comes from
			}
			for _, l := range lines[1:] {
				if !strings.HasPrefix(l, "\t") {
					if i := strings.Index(l, "("); depth > 3 && i > 0 {
						l = l[:i] // drop argument values, they differ between samples
					}
					top += " | " + l
					if strings.Count(top, "|") >= depth {
						break
					}
				}
			}
			info.Goroutines = append(info.Goroutines, top)
		}
		sort.Strings(info.Goroutines)
		if n > 60000 {
			n = 60000
		}
		info.Dump = string(buf[:n])
		return info, nil
	})
}

func runProgramme(p *programme) *progResult {
	res := &progResult{}
	var mu sync.Mutex // protects res and acked
	acked := map[string]map[int64]bool{}
	for _, ix := range p.Indexes {
		acked[ix] = map[int64]bool{}
	}
	var rotations, rotStarted int64 // completed / begun rotations
	var wg sync.WaitGroup
	// all goroutines of the programme leave the gate together: the first batches of several ingesters
	// then reach a stream that does not exist yet at the same moment
	gate := make(chan struct{})
	guard := func(name string, fn func()) {
		wg.Add(1)
		go func() {
			defer wg.Done()
			defer func() {
				if r := recover(); r != nil {
					buf := make([]byte, 4096)
					n := runtime.Stack(buf, false)
					mu.Lock()
					res.Panics = append(res.Panics, fmt.Sprintf("%s: %v\n%s", name, r, buf[:n]))
					mu.Unlock()
				}
			}()
			<-gate
			fn()
		}()
	}
	t0 := time.Now()
	zero := time.Duration(0)
	for gi, batches := range p.Ingesters {
		batches := batches
		guard(fmt.Sprintf("ingester-%d", gi), func() {
			for _, b := range batches {
				_, resp, err := eswriter.HandleBulkBody(b.Body, nil, 0, 0, false)
				if err != nil || fmt.Sprint(resp["errors"]) == "true" {
					mu.Lock()
					res.BulkErrs = append(res.BulkErrs, fmt.Sprintf("bulk err=%v resp=%v", err, resp["errors"]))
					mu.Unlock()
					continue
				}
				// the flush this ingester asks for; when it returns, the batch is acknowledged
				writer.FlushWipBufferToFile(&zero, nil)
				mu.Lock()
				for _, v := range b.Vids {
					acked[b.Index][v] = true
				}
				mu.Unlock()
			}
		})
	}
	for i := 0; i < p.Flushers; i++ {
		guard("flusher", func() {
			for k := 0; k < p.FlushN; k++ {
				writer.FlushWipBufferToFile(&zero, nil)
				runtime.Gosched()
			}
		})
	}
	for i := 0; i < p.Rotators; i++ {
		guard("rotator", func() {
			for k := 0; k < p.RotateN; k++ {
				atomic.AddInt64(&rotStarted, 1)
				writer.ForceRotateSegmentsForTest()
				atomic.AddInt64(&rotations, 1)
				time.Sleep(time.Duration(200+k*137%700) * time.Microsecond)
			}
		})
	}
	for i := 0; i < p.Searchers; i++ {
		i := i
		guard("searcher", func() {
			for k := 0; k < p.SearchN; k++ {
				ix := p.Indexes[(i+k)%len(p.Indexes)]
				mu.Lock()
				start := make([]int64, 0, len(acked[ix]))
				for v := range acked[ix] {
					start = append(start, v)
				}
				mu.Unlock()
				rot0 := atomic.LoadInt64(&rotations)
				text := "*"
				if (i+k)%2 == 1 {
					text = "vk>-1"
				}
				m := map[string]interface{}{"searchText": text, "indexName": ix, "startEpoch": p.Start, "endEpoch": p.End,
					"queryLanguage": "Splunk QL", "size": uint64(p.Total + 10)}
				qid := atomic.AddUint64(&qidSeq, 1)
				resp, _, _, err := pipesearch.ParseAndExecutePipeRequest(m, qid, 0, time.Now(), "", nil)
				// a rotation overlapped the search if one was begun before the search ended that had not
				// completed when the search began
				ob := searchObs{Index: ix, Text: text, AckedStart: start, DuringRot: atomic.LoadInt64(&rotStarted) != rot0}
				if err != nil {
					ob.Err = err.Error()
				} else if resp != nil {
					if len(resp.Errors) > 0 {
						ob.Err = fmt.Sprint(resp.Errors)
					}
					for _, h := range resp.Hits.Hits {
						switch v := h["_vid"].(type) {
						case int64:
							ob.Got = append(ob.Got, v)
						case uint64:
							ob.Got = append(ob.Got, int64(v))
						case float64:
							ob.Got = append(ob.Got, int64(v))
						default:
							ob.Got = append(ob.Got, -1)
							if len(ob.Odd) < 3 {
								ob.Odd = append(ob.Odd, fmt.Sprintf("%v", h))
							}
						}
					}
				}
				mu.Lock()
				res.Searches = append(res.Searches, ob)
				mu.Unlock()
			}
		})
	}
	close(gate)
	wg.Wait()
	res.Rotations = atomic.LoadInt64(&rotations)
	res.DurationMs = time.Since(t0).Milliseconds()
	return res
}
