package c07

import (
	"fmt"
	"math"
	"strconv"

	"verifharness/gen"
	"verifharness/model"
	"verifharness/pt"
	"verifharness/sut"
)

func compareOne(r sut.Record, e *model.Event, info map[string]*colInfo) error {
	return compareOneObs(r, e, info, nil)
}

var _ = gen.EventJSON

// colKinds summarises which kinds of values each column holds in a set of events.
type colInfo struct {
	hasNum, hasNonNumStr, hasBool, hasStr bool
}

func columnInfo(evs []*model.Event) map[string]*colInfo {
	info := map[string]*colInfo{}
	for _, e := range evs {
		f, _ := e.Flat()
		for name, v := range f {
			ci := info[name]
			if ci == nil {
				ci = &colInfo{}
				info[name] = ci
			}
			switch v.K {
			case model.KInt, model.KFloat:
				ci.hasNum = true
			case model.KStr:
				ci.hasStr = true
				if _, err := strconv.ParseFloat(v.S, 64); err != nil {
					ci.hasNonNumStr = true
				}
			case model.KBool:
				ci.hasBool = true
			}
		}
	}
	return info
}

// valueMatches implements the C01 comparison: exact by value and type, with the relaxations
// the statement and the documented block-level type consolidation grant:
//   - a number may come back as its decimal text if its column also held a non-numeric value
//     (a non-numeric string, or a boolean: "if a column has both [a bloom and a range index] we
//     convert all the values to one type");
//   - a boolean in a column that also holds numbers may come back as the text true/false.
//
// known is set when the only way to accept the value is the known finding
// C01-numtext-to-number (numeric text silently converted to a number).
func valueMatches(want model.Val, got sut.TV, ci *colInfo, known *bool) bool {
	numAsTextOK := ci != nil && ci.hasNum && (ci.hasNonNumStr || ci.hasBool)
	switch want.K {
	case model.KInt:
		if gi, ok := got.Int(); ok && (got.Kind() == 'i' || got.Kind() == 'u') {
			return gi == want.I
		}
		if got.Kind() == 'u' { // > MaxInt64 cannot equal an int64
			return false
		}
		if gf, ok := got.Float(); ok && got.Kind() == 'f' {
			return model.ExactFloat(want.I) && gf == float64(want.I)
		}
		if s, ok := got.Str(); ok && numAsTextOK {
			if pi, err := strconv.ParseInt(s, 10, 64); err == nil {
				return pi == want.I
			}
			if pf, err := strconv.ParseFloat(s, 64); err == nil {
				return model.ExactFloat(want.I) && pf == float64(want.I)
			}
		}
		return false
	case model.KFloat:
		if got.Kind() == 'f' {
			gf, ok := got.Float()
			return ok && floatSame(gf, want.F)
		}
		if got.Kind() == 'i' || got.Kind() == 'u' {
			gf, ok := got.Float()
			if !ok {
				return false
			}
			if gi, ok2 := got.Int(); ok2 && !model.ExactFloat(gi) {
				return false
			}
			return gf == want.F
		}
		if s, ok := got.Str(); ok && numAsTextOK {
			if pf, err := strconv.ParseFloat(s, 64); err == nil {
				return floatSame(pf, want.F)
			}
		}
		return false
	case model.KStr:
		if s, ok := got.Str(); ok {
			return s == want.S
		}
		// known finding C01-numtext-to-number: a numeric text in a column that also holds numbers
		// (and no non-numeric value in the same block) is stored as the number it parses to.
		if ci != nil && ci.hasNum && pt.KnownFindingOpen("C01-numtext-to-number") {
			if pf, err := strconv.ParseFloat(want.S, 64); err == nil {
				if gf, ok := got.Float(); ok && floatSame(gf, pf) {
					if known != nil {
						*known = true
					}
					return true
				}
			}
		}
		return false
	case model.KBool:
		if b, ok := got.Bool(); ok {
			return b == want.B
		}
		if s, ok := got.Str(); ok && ci != nil && ci.hasNum {
			return s == strconv.FormatBool(want.B)
		}
		return false
	}
	return false
}

// floatSame: equal values; +0 and -0 are the same JSON number for this comparison.
func floatSame(a, b float64) bool {
	if a == b {
		return true
	}
	return math.IsNaN(a) && math.IsNaN(b)
}

// compareRecords checks the multiset of returned records against the expected events.
// Columns named in skipCols are ignored.
func compareRecordsUnused(recs []sut.Record, want []*model.Event, info map[string]*colInfo, o *pt.Obs) error {
	byVid := map[int64]*model.Event{}
	for _, e := range want {
		byVid[e.Vid] = e
	}
	seen := map[int64]bool{}
	for _, r := range recs {
		vt, ok := r["_vid"]
		if !ok {
			return fmt.Errorf("returned record without _vid: %v", r)
		}
		vid, ok := vt.Int()
		if !ok {
			return fmt.Errorf("returned record with non-integer _vid %q: %v", vt, r)
		}
		e := byVid[vid]
		if e == nil {
			return fmt.Errorf("invented or unexpected record _vid=%d: %v", vid, r)
		}
		if seen[vid] {
			return fmt.Errorf("record _vid=%d returned more than once", vid)
		}
		seen[vid] = true
		if err := compareOneObs(r, e, info, o); err != nil {
			return fmt.Errorf("_vid=%d: %v\n  sent: %s\n  got:  %v", vid, err, gen.EventJSON(e, true), r)
		}
	}
	for _, e := range want {
		if !seen[e.Vid] {
			return fmt.Errorf("event _vid=%d (flushed) is missing from match-all; sent %s", e.Vid, gen.EventJSON(e, true))
		}
	}
	return nil
}

func compareOneObs(r sut.Record, e *model.Event, info map[string]*colInfo, o *pt.Obs) error {
	flat, _ := e.Flat()
	ts, ok := r["timestamp"]
	if !ok {
		return fmt.Errorf("no timestamp column")
	}
	if tf, ok := ts.Float(); !ok || uint64(tf) != e.Ts {
		return fmt.Errorf("timestamp %q != sent %d", ts, e.Ts)
	}
	for name, tv := range r {
		if name == "timestamp" || name == "_index" {
			continue
		}
		if tv.IsNil() {
			continue
		}
		w, ok := flat[name]
		if !ok {
			return fmt.Errorf("column %q=%q was not sent with this event (value migrated or invented)", name, tv)
		}
		var known bool
		if !valueMatches(w, tv, info[name], &known) {
			return fmt.Errorf("column %q: sent %s, got %q", name, w, tv)
		}
		if known && o != nil {
			o.Known("C01-numtext-to-number")
		}
	}
	for name, w := range flat {
		tv, ok := r[name]
		if !ok || tv.IsNil() {
			return fmt.Errorf("column %q (sent %s) is missing", name, w)
		}
	}
	return nil
}
