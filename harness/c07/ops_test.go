package c07

import (
	"time"

	"github.com/siglens/siglens/pkg/segment/metadata"

	"verifharness/sut"
)

var overlayBuilt bool

func init() {
	// wait until the background start-up sync of segment metadata has settled
	sut.RegisterOp("wait_meta", func(r *sut.Req) (interface{}, error) {
		deadline := time.Now().Add(15 * time.Second)
		last := -1
		stableSince := time.Now()
		start := time.Now()
		for time.Now().Before(deadline) {
			n := metadata.GetTotalSMICount()
			if int(n) != last {
				last = int(n)
				stableSince = time.Now()
			}
			if time.Since(stableSince) > 400*time.Millisecond && time.Since(start) > 500*time.Millisecond {
				return map[string]interface{}{"smi": last, "stable": true}, nil
			}
			time.Sleep(50 * time.Millisecond)
		}
		return map[string]interface{}{"smi": last, "stable": false}, nil
	})
}
