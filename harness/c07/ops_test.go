package c07

import (
	"time"

	"github.com/siglens/siglens/pkg/config"
	"github.com/siglens/siglens/pkg/retention"
	"github.com/siglens/siglens/pkg/segment/metadata"

	"verifharness/sut"
)

var overlayBuilt bool

// c07RetentionHours: 20 years. The pass the server runs every 30 minutes (internalRetentionCleaner), called with a
// horizon older than every generated event (they carry fixed 2023 timestamps): nothing expires, so the pass must not
// change what is stored. The configuration loader caps the setting at 30 days; the pass itself takes any horizon
// (a horizon before 1970 would wrap around in GetRetentionTimeMs - not reachable through the configuration).
const c07RetentionHours = 24 * 365 * 20

func init() {
	sut.RegisterOp("c07.retention", func(r *sut.Req) (interface{}, error) {
		retention.DoRetentionBasedDeletion(config.GetCurrentNodeIngestDir(), c07RetentionHours, 0)
		return nil, nil
	})
	// wait until the background start-up sync of segment metadata has settled
	sut.RegisterOp("wait_meta", func(r *sut.Req) (interface{}, error) {
		deadline := time.Now().Add(15 * time.Second)
		last := -1
		stableSince := time.Now()
		start := time.Now()
		for time.Now().Before(deadline) {
			n := metadata.GetTotalSMICount()
			if int(n) != last {
				last = int(n)
				stableSince = time.Now()
			}
			if time.Since(stableSince) > 400*time.Millisecond && time.Since(start) > 500*time.Millisecond {
				return map[string]interface{}{"smi": last, "stable": true}, nil
			}
			time.Sleep(50 * time.Millisecond)
		}
		return map[string]interface{}{"smi": last, "stable": false}, nil
	})
}
