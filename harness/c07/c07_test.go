package c07

import (
	"encoding/json"
	"errors"
	"fmt"
	"os"
	"sort"
	"strings"
	"testing"

	"pgregory.net/rapid"

	"verifharness/gen"
	"verifharness/lq"
	"verifharness/model"
	"verifharness/pt"
	"verifharness/sut"
)

// C07 — flushed log data survives a process crash at any instant.

type hop struct {
	Kind  string `json:"kind"` // bulk | flush | rotate | query | retention
	Index int    `json:"index"`
	From  int    `json:"from"`
	To    int    `json:"to"`
}

type c07Case struct {
	DS     *gen.Dataset `json:"ds"`
	Card   int          `json:"cardLimit"`
	Ops    []hop        `json:"ops"`
	Points []int        `json:"points,omitempty"` // explicit crash points (replay of a single failing point)
	// PointName/PointOcc: replay of one failing point by name: crash at the PointOcc-th hit of PointName
	PointName string       `json:"pointName,omitempty"`
	PointOcc  int64        `json:"pointOcc,omitempty"`
	Sample    int          `json:"sample"`          // number of crash points to sample (0 = all)
	Pick      int64        `json:"pick"`            // sampling salt
	Extra     *model.Event `json:"extra,omitempty"` // event ingested after the restart
	PreQ      bool         `json:"preQuery"`        // run a filter query first so that it becomes a persistent query
	// Prior: before the history, an earlier life of the server on the same data directory accepted one event
	// per index and was killed before any flush (it leaves segment directories without metadata behind)
	Prior bool `json:"prior,omitempty"`
}

var indexNames = []string{"c07a", "c07b"}

func genC07(t *rapid.T) *c07Case {
	profiles := []gen.Profile{gen.PInt, gen.PFloat, gen.PLowStr, gen.PHighStr, gen.PMixNumStr, gen.PBool, gen.PWidth6Str}
	ds := gen.GenDataset(t, gen.DatasetOpts{MinEvents: 2, MaxEvents: pt.Scale(14, 20), MaxCols: 4, Profiles: profiles, NullPct: 5})
	n := len(ds.Events)
	for _, e := range ds.Events {
		// a queryable copy of the id (field names starting with "_" are not parsed as fields by SPL)
		e.Doc.Obj = append(e.Doc.Obj, model.Field{Name: "vk", Node: model.LeafNode(model.Int(e.Vid))})
	}
	cs := &c07Case{DS: ds, Card: rapid.SampledFrom([]int{0, 0, 2}).Draw(t, "card"), Sample: pt.Scale(40, 0), Pick: int64(rapid.IntRange(1, 1<<30).Draw(t, "pick"))}
	cs.PreQ = rapid.IntRange(0, 3).Draw(t, "preQ") == 0
	cs.Prior = rapid.IntRange(0, 2).Draw(t, "priorLife") == 0
	pos := 0
	for pos < n {
		b := rapid.IntRange(1, n-pos).Draw(t, "batch")
		if rapid.IntRange(0, 2).Draw(t, "whole") == 0 {
			b = n - pos
		}
		idx := rapid.IntRange(0, 1).Draw(t, "index")
		if rapid.IntRange(0, 2).Draw(t, "sameIndex") > 0 {
			idx = 0
		}
		cs.Ops = append(cs.Ops, hop{Kind: "bulk", Index: idx, From: pos, To: pos + b})
		pos += b
		switch rapid.IntRange(0, 5).Draw(t, "after") {
		case 0, 1, 2:
			cs.Ops = append(cs.Ops, hop{Kind: "flush"})
		case 3:
			cs.Ops = append(cs.Ops, hop{Kind: "rotate"})
		case 4:
			cs.Ops = append(cs.Ops, hop{Kind: "flush"}, hop{Kind: "query"})
		}
		// the periodic retention pass (nothing is old enough to expire) may run between any two steps
		if rapid.IntRange(0, 5).Draw(t, "retentionPass") == 0 {
			cs.Ops = append(cs.Ops, hop{Kind: "retention"})
		}
	}
	last := cs.Ops[len(cs.Ops)-1].Kind
	if last == "bulk" || rapid.Bool().Draw(t, "finalFlush") {
		cs.Ops = append(cs.Ops, hop{Kind: rapid.SampledFrom([]string{"flush", "rotate"}).Draw(t, "final")})
	}
	if rapid.Bool().Draw(t, "finalRotate") {
		cs.Ops = append(cs.Ops, hop{Kind: "rotate"})
	}
	ex := &model.Event{Vid: int64(n + 1), Ts: ds.Events[0].Ts + 7, Doc: model.Node{IsObj: true, Obj: []model.Field{
		{Name: "_vid", Node: model.LeafNode(model.Int(int64(n + 1)))}, {Name: "extra", Node: model.LeafNode(model.Str("after restart"))}}}}
	cs.Extra = ex
	return cs
}

type runState struct {
	ingested [2][]*model.Event // per index, in ingest order
	groups   [2][][2]int       // per index: [from,to) ranges of ingested[] covered by each completed flush
	flushed  [2]int            // number of events per index covered by a completed flush
	inflight bool              // the op that died was a flush/rotate
	diedAt   int               // index of the op during which the worker died (-1 = completed)
}

// execute runs the history; returns the state at the moment the worker died (or completed).
func execute(c *sut.Client, cs *c07Case, lo, hi uint64) (*runState, error) {
	st := &runState{diedAt: -1}
	for i, op := range cs.Ops {
		var err error
		switch op.Kind {
		case "bulk":
			evs := cs.DS.Events[op.From:op.To]
			var br *sut.BulkResult
			br, err = c.Bulk(0, gen.BulkBody(indexNames[op.Index], evs))
			if err == nil {
				if br.Err != "" || strings.Contains(string(br.Response), `"errors":true`) {
					return st, fmt.Errorf("bulk not accepted: %s %s", br.Err, br.Response)
				}
				st.ingested[op.Index] = append(st.ingested[op.Index], evs...)
			}
		case "flush", "rotate":
			if op.Kind == "flush" {
				err = c.Flush()
			} else {
				err = c.Rotate()
			}
			if err == nil {
				for ix := 0; ix < 2; ix++ {
					if len(st.ingested[ix]) > st.flushed[ix] {
						st.groups[ix] = append(st.groups[ix], [2]int{st.flushed[ix], len(st.ingested[ix])})
					}
					st.flushed[ix] = len(st.ingested[ix])
				}
			}
		case "query":
			_, err = c.Search(sut.Query{Index: indexNames[0], Text: "*", Start: lo - 1, End: hi + 10, Size: 1000})
		case "retention":
			err = c.Call(&sut.Req{Op: "c07.retention"}, nil)
		}
		if err != nil {
			if errors.Is(err, sut.ErrWorkerDied) {
				st.diedAt = i
				st.inflight = op.Kind == "flush" || op.Kind == "rotate"
				return st, nil
			}
			if errors.Is(err, sut.ErrTimeout) {
				return st, pt.Inconclusivef("op %d (%s) exceeded its time budget", i, op.Kind)
			}
			return st, fmt.Errorf("op %d (%s): %v", i, op.Kind, err)
		}
	}
	return st, nil
}

const priorVidBase = 900000

// priorEvent is the event an earlier life of the server accepted for index ix and never flushed.
func priorEvent(ix int, ts uint64) *model.Event {
	vid := int64(priorVidBase + ix)
	return &model.Event{Vid: vid, Ts: ts, Doc: model.Node{IsObj: true, Obj: []model.Field{
		{Name: "_vid", Node: model.LeafNode(model.Int(vid))}, {Name: "vk", Node: model.LeafNode(model.Int(vid))},
		{Name: "prior", Node: model.LeafNode(model.Str("never flushed"))}}}}
}

// priorLife runs the earlier life on dataDir: accept one event per index, die by SIGKILL before any flush.
func priorLife(dataDir string, ts uint64) error {
	p, err := sut.Start(sut.Options{DataDir: dataDir, Env: map[string]string{"VERIF_LOGLEVEL": "error"}})
	if err != nil {
		return pt.Inconclusivef("worker start (prior life): %v", err)
	}
	for ix := range indexNames {
		if _, err := p.Bulk(0, gen.BulkBody(indexNames[ix], []*model.Event{priorEvent(ix, ts)})); err != nil {
			p.Close()
			return pt.Inconclusivef("prior life bulk: %v", err)
		}
	}
	p.Kill()
	return nil
}

type crashCount struct {
	Count int64    `json:"count"`
	Names []string `json:"names"`
}

func checkC07(cs *c07Case, o *pt.Obs) error {
	if !overlayBuilt {
		return pt.Inconclusivef("binary built without the crash-point overlay")
	}
	lo, hi := lq.TsBounds(cs.DS.Events)
	info := columnInfo(cs.DS.Events)
	prep := func(c *sut.Client, at int64, name string, occ int64, record bool) error {
		if cs.Card > 0 {
			if err := c.Set("cardLimit", int64(cs.Card)); err != nil {
				return err
			}
		}
		if cs.PreQ {
			_, _ = c.Search(sut.Query{Index: indexNames[0], Text: "vk>2", Start: lo - 1, End: hi + 10, Size: 100})
		}
		rec := int64(0)
		if record {
			rec = 1
		}
		// a named target (the occ-th hit of one point) when the dry run gave the point a name: counting per
		// name is not shifted by background goroutines that pass other points
		return c.Call(&sut.Req{Op: "crash_arm", Name: name, Ints: map[string]int64{"at": at, "occ": occ, "record": rec}}, nil)
	}
	// 1. dry run: count the crash points this history executes
	var cc crashCount
	dryDir := pt.NewDataDir()
	defer pt.CleanupDataDir(dryDir)
	if cs.Prior {
		if err := priorLife(dryDir, lo+1); err != nil {
			return err
		}
		o.Class("prior_life_killed_before_first_flush")
	}
	for _, op := range cs.Ops {
		if op.Kind == "retention" {
			o.Class("history_with_retention_pass")
			break
		}
	}
	err := pt.WithWorker(sut.Options{DataDir: dryDir}, func(c *sut.Client) error {
		if err := prep(c, 0, "", 0, true); err != nil {
			return err
		}
		st, err := execute(c, cs, lo, hi)
		if err != nil {
			return err
		}
		if st.diedAt >= 0 {
			return fmt.Errorf("server died without an injected crash at op %d: %s", st.diedAt, pt.CrashDetail(c))
		}
		return c.Call(&sut.Req{Op: "crash_count"}, &cc)
	})
	if err != nil {
		return err
	}
	K := int(cc.Count)
	o.Max("crash_points_in_history", int64(K))
	if K == 0 {
		return nil
	}
	// 2. choose crash points
	points := cs.Points
	if len(points) == 0 {
		if cs.Sample <= 0 || cs.Sample >= K {
			for k := 1; k <= K; k++ {
				points = append(points, k)
			}
		} else {
			points = stratified(cc.Names, cs.Sample, cs.Pick)
		}
	}
	o.Count("crash_points_tried", int64(len(points)))
	funcs := map[string]bool{}
	for _, k := range points {
		if k-1 < len(cc.Names) {
			funcs[strings.SplitN(cc.Names[k-1], ":", 2)[0]] = true
		}
	}
	for f := range funcs {
		o.Class("crash_in_" + f)
	}
	if len(points) >= 2 {
		o.NonTrivial()
	}
	if cs.PointName != "" {
		// narrowed replay: exactly the named point
		if err := crashAndRecover(cs, 0, cs.PointName, cs.PointOcc, lo, hi, info, prep, o); err != nil {
			if _, ok := err.(*pt.Inconclusive); ok {
				return err
			}
			return fmt.Errorf("crash at hit %d of point %s: %v", cs.PointOcc, cs.PointName, err)
		}
		return nil
	}
	// 3. one crash + restart per point
	for _, k := range points {
		name := ""
		occ := int64(0)
		if k-1 < len(cc.Names) {
			name = cc.Names[k-1]
			for _, nm := range cc.Names[:k] {
				if nm == name {
					occ++
				}
			}
		}
		if err := crashAndRecover(cs, k, name, occ, lo, hi, info, prep, o); err != nil {
			if _, ok := err.(*pt.Inconclusive); ok {
				o.Count("inconclusive_points", 1)
				continue
			}
			// make the replay file reproduce exactly this point
			return &pointFailure{k: k, name: name, occ: occ, err: fmt.Errorf("crash at point %d (%s, hit %d of that point): %v", k, name, occ, err)}
		}
	}
	return nil
}

type pointFailure struct {
	k    int
	name string
	occ  int64
	err  error
}

func (p *pointFailure) Error() string { return p.err.Error() }

func crashAndRecover(cs *c07Case, k int, name string, occ int64, lo, hi uint64, info map[string]*colInfo,
	prep func(*sut.Client, int64, string, int64, bool) error, o *pt.Obs) error {
	dataDir := pt.NewDataDir()
	defer pt.CleanupDataDir(dataDir)
	envq := map[string]string{"VERIF_LOGLEVEL": "error"}
	if cs.Prior {
		if err := priorLife(dataDir, lo+1); err != nil {
			return err
		}
	}
	a, err := sut.Start(sut.Options{DataDir: dataDir, Env: envq})
	if err != nil {
		return pt.Inconclusivef("worker start: %v", err)
	}
	at := int64(k)
	if name != "" {
		at = 0
	}
	if err := prep(a, at, name, occ, false); err != nil {
		a.Close()
		return err
	}
	st, err := execute(a, cs, lo, hi)
	if err != nil {
		a.Close()
		return err
	}
	if st.diedAt < 0 {
		// the point was not reached this time (background activity shifted the numbering)
		a.Close()
		o.Count("points_not_reached", 1)
		return nil
	}
	if !strings.Contains(a.ExitInfo(), "killed") {
		detail := pt.CrashDetail(a)
		a.Close()
		return fmt.Errorf("server died on its own (not the injected SIGKILL) at op %d: %s", st.diedAt, detail)
	}
	a.Close()
	// restart on the same directory through the normal start-up path
	b, err := sut.Start(sut.Options{DataDir: dataDir, Env: envq})
	if err != nil {
		if errors.Is(err, sut.ErrTimeout) || strings.Contains(err.Error(), "timed out") {
			return pt.Inconclusivef("restart after the crash did not become ready within the time budget: %v", err)
		}
		return fmt.Errorf("restart after the crash failed: %v", err)
	}
	defer b.Close()
	var wm struct {
		Stable bool `json:"stable"`
	}
	if err := b.Call(&sut.Req{Op: "wait_meta"}, &wm); err != nil {
		return lq.Classify(b, "waiting for start-up metadata sync", err)
	}
	if !wm.Stable {
		return pt.Inconclusivef("segment metadata did not settle within 15 s after restart")
	}
	verify := func(stage string, extra []*model.Event) error {
		for ix := 0; ix < 2; ix++ {
			ing := st.ingested[ix]
			if len(ing) == 0 && (ix != 0 || len(extra) == 0) {
				continue
			}
			sr, err := b.Search(sut.Query{Index: indexNames[ix], Text: "*", Start: lo - 1, End: hi + 10, Size: len(cs.DS.Events) + 10, IncludeNulls: true})
			if err != nil {
				return lq.Classify(b, stage+": match-all after restart", err)
			}
			if sr.Err != "" {
				if st.flushed[ix] == 0 && strings.Contains(strings.ToLower(sr.Err), "index") {
					continue // index never became durable: "no such index" is fine
				}
				return fmt.Errorf("%s: index %s: query answered with error after restart: %s", stage, indexNames[ix], sr.Err)
			}
			if len(sr.Errors) > 0 {
				return fmt.Errorf("%s: index %s: query reported errors after restart: %v", stage, indexNames[ix], sr.Errors)
			}
			acked := ing[:st.flushed[ix]]
			pending := ing[st.flushed[ix]:]
			want := map[int64]*model.Event{}
			for _, e := range acked {
				want[e.Vid] = e
			}
			pend := map[int64]*model.Event{}
			for _, e := range pending {
				pend[e.Vid] = e
			}
			ext := map[int64]*model.Event{}
			if ix == 0 {
				for _, e := range extra {
					ext[e.Vid] = e
				}
			}
			seen := map[int64]int{}
			nPend := 0
			for _, r := range sr.Records {
				v, ok := r["_vid"].Int()
				if !ok {
					return fmt.Errorf("%s: index %s: record without _vid after restart: %v", stage, indexNames[ix], r)
				}
				seen[v]++
				var e *model.Event
				switch {
				case want[v] != nil:
					e = want[v]
				case pend[v] != nil:
					e = pend[v]
					nPend++
				case ext[v] != nil:
					e = ext[v]
				case cs.Prior && v >= priorVidBase && v < priorVidBase+int64(len(indexNames)):
					continue // accepted by the earlier life, never flushed: may or may not be there
				default:
					return fmt.Errorf("%s: index %s: unexpected record _vid=%d after restart: %v", stage, indexNames[ix], v, r)
				}
				if seen[v] > 1 {
					return fmt.Errorf("%s: index %s: _vid=%d returned %d times after restart", stage, indexNames[ix], v, seen[v])
				}
				if err := compareOne(r, e, info); err != nil {
					if pend[v] != nil && inSfmWindow(name) && pt.KnownFindingOpen("C07-block-visible-before-sfm") {
						o.Known("C07-block-visible-before-sfm")
						continue
					}
					return fmt.Errorf("%s: index %s: _vid=%d content changed by the crash: %v", stage, indexNames[ix], v, err)
				}
			}
			for _, e := range acked {
				if seen[e.Vid] == 0 {
					return fmt.Errorf("%s: index %s: event _vid=%d belongs to a flush acknowledged before the crash but is not searchable after restart (acked %d, in flight %d, returned %d)",
						stage, indexNames[ix], e.Vid, len(acked), len(pending), len(sr.Records))
				}
			}
			for _, e := range ext {
				if seen[e.Vid] == 0 {
					return fmt.Errorf("%s: event ingested and flushed after the restart is not searchable", stage)
				}
			}
			// every acknowledged flush must also be reachable through a time range that covers only it
			// and through a filter on one of its events (segment-level metadata must describe it)
			for gi, g := range st.groups[ix] {
				grp := ing[g[0]:g[1]]
				glo, ghi := lq.TsBounds(grp)
				sr2, err := b.Search(sut.Query{Index: indexNames[ix], Text: "*", Start: glo, End: ghi, Size: len(cs.DS.Events) + 10})
				if err != nil {
					return lq.Classify(b, stage+": time-range query after restart", err)
				}
				if sr2.Err != "" || len(sr2.Errors) > 0 {
					return fmt.Errorf("%s: index %s: query over the time range of acknowledged flush %d answered with error: %s %v", stage, indexNames[ix], gi, sr2.Err, sr2.Errors)
				}
				got2, _, err := lq.Vids("*", sr2.Records)
				if err != nil {
					return fmt.Errorf("%s: index %s: %v", stage, indexNames[ix], err)
				}
				for _, e := range grp {
					if !got2[e.Vid] {
						return fmt.Errorf("%s: index %s: event _vid=%d of acknowledged flush %d is not returned by a search over exactly that flush's time range [%d,%d] (returned %d records)",
							stage, indexNames[ix], e.Vid, gi, glo, ghi, len(sr2.Records))
					}
				}
				probe := grp[len(grp)-1]
				sr3, err := b.Search(sut.Query{Index: indexNames[ix], Text: fmt.Sprintf("vk=%d", probe.Vid), Start: lo - 1, End: hi + 10, Size: 10})
				if err != nil {
					return lq.Classify(b, stage+": filter query after restart", err)
				}
				if sr3.Err != "" || len(sr3.Errors) > 0 || len(sr3.Records) != 1 {
					return fmt.Errorf("%s: index %s: filter vk=%d (event of acknowledged flush %d) returned %d records, err=%q %v", stage, indexNames[ix], probe.Vid, gi, len(sr3.Records), sr3.Err, sr3.Errors)
				}
			}
			if nPend != 0 && nPend != len(pending) && inSfmWindow(name) && pt.KnownFindingOpen("C07-block-visible-before-sfm") {
				o.Known("C07-block-visible-before-sfm")
			} else if nPend != 0 && nPend != len(pending) {
				// all-or-nothing per flush: the pending events of one index belong to one flush
				return fmt.Errorf("%s: index %s: %d of %d events of the flush in progress are visible (must be all or none)", stage, indexNames[ix], nPend, len(pending))
			}
		}
		return nil
	}
	if err := verify("after restart", nil); err != nil {
		return err
	}
	// later ingestion must not overwrite recovered data
	br, err := b.Bulk(0, gen.BulkBody(indexNames[0], []*model.Event{cs.Extra}))
	if err != nil {
		return lq.Classify(b, "bulk after restart", err)
	}
	if br.Err != "" {
		return fmt.Errorf("bulk after restart rejected: %s", br.Err)
	}
	if err := b.Flush(); err != nil {
		return lq.Classify(b, "flush after restart", err)
	}
	if err := verify("after restart + new flush", []*model.Event{cs.Extra}); err != nil {
		return err
	}
	if err := b.Rotate(); err != nil {
		return lq.Classify(b, "rotate after restart", err)
	}
	return verify("after restart + rotate", []*model.Event{cs.Extra})
}

// inSfmWindow: crash points between the block summary write (which makes the block visible) and the
// completed rewrite of the running segment meta (which describes its columns and counts).
func inSfmWindow(point string) bool {
	fn := strings.SplitN(point, ":", 2)[0]
	switch fn {
	case "AppendWipToSegfile", "FlushSegStats", "WriteRunningSegMeta", "WriteSfm", "updateUnrotatedBlockInfo", "flushBlockSummary":
		return true
	}
	return false
}

// stratified picks about n point numbers spread over the functions that were hit.
func stratified(names []string, n int, salt int64) []int {
	byFn := map[string][]int{}
	var fns []string
	for i, nm := range names {
		fn := strings.SplitN(nm, ":", 2)[0]
		if strings.HasPrefix(fn, "os.") {
			fn = nm // the windows of a modelled system-call sequence are strata of their own
		}
		if _, ok := byFn[fn]; !ok {
			fns = append(fns, fn)
		}
		byFn[fn] = append(byFn[fn], i+1)
	}
	sort.Strings(fns)
	picked := map[int]bool{}
	x := uint64(salt)*2862933555777941757 + 3037000493
	next := func(m int) int {
		x = x*6364136223846793005 + 1442695040888963407
		return int((x >> 33) % uint64(m))
	}
	// the order in which the strata are visited differs from case to case (the sample is smaller than the
	// number of strata, a fixed order would never reach the last ones)
	for i := len(fns) - 1; i > 0; i-- {
		j := next(i + 1)
		fns[i], fns[j] = fns[j], fns[i]
	}
	for len(picked) < n {
		progressed := false
		for _, fn := range fns {
			lst := byFn[fn]
			if len(lst) == 0 {
				continue
			}
			j := next(len(lst))
			picked[lst[j]] = true
			byFn[fn] = append(lst[:j], lst[j+1:]...)
			progressed = true
			if len(picked) >= n {
				break
			}
		}
		if !progressed {
			break
		}
	}
	out := make([]int, 0, len(picked))
	for k := range picked {
		out = append(out, k)
	}
	sort.Ints(out)
	return out
}

func TestC07(t *testing.T) {
	pt.RunProp(t, "C07", genC07, func(cs *c07Case, o *pt.Obs) error {
		err := checkC07(cs, o)
		var pf *pointFailure
		if errors.As(err, &pf) && len(cs.Points) == 0 {
			// narrow the replay file to the failing point
			cs.Points = []int{pf.k}
			cs.PointName, cs.PointOcc = pf.name, pf.occ
			if p := os.Getenv("VERIF_REPLAY_OUT"); p != "" {
				b, _ := json.Marshal(cs)
				_ = os.WriteFile(p+".point", b, 0o644)
			}
			cs.Points = nil
			cs.PointName, cs.PointOcc = "", 0
		}
		return err
	})
}
