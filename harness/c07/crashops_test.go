//go:build verifoverlay

package c07

import (
	"github.com/siglens/siglens/pkg/verifcrash"

	"verifharness/sut"
)

func init() {
	overlayBuilt = true
	sut.RegisterOp("crash_arm", func(r *sut.Req) (interface{}, error) {
		verifcrash.Record(r.Ints["record"] != 0)
		if r.Name != "" {
			verifcrash.ArmNamed(r.Name, r.Ints["occ"])
		} else {
			verifcrash.Arm(r.Ints["at"])
		}
		return nil, nil
	})
	sut.RegisterOp("crash_count", func(r *sut.Req) (interface{}, error) {
		return map[string]interface{}{"count": verifcrash.Count(), "names": verifcrash.Names()}, nil
	})
}
