package c20

// saved queries (pkg/usersavedqueries): key = query name per tenant.

import (
	"encoding/json"
	"strings"

	"pgregory.net/rapid"
)

// request field → stored field (SaveUserQueries)
var usqFields = map[string]string{"queryDescription": "description", "searchText": "searchText", "indexName": "indexName",
	"filterTab": "filterTab", "queryLanguage": "queryLanguage", "dataSource": "dataSource", "startTime": "startTime",
	"endTime": "endTime", "metricsQueryParams": "metricsQueryParams"}
var usqFieldNames = []string{"queryDescription", "searchText", "indexName", "filterTab", "queryLanguage", "dataSource", "startTime", "endTime", "metricsQueryParams"}

func genUsqOp(t *rapid.T, names []string, early bool) storeOp {
	k := pct(t, "usqOp")
	if early {
		k = 0
	}
	switch {
	case k < 55:
		f := map[string]string{}
		for _, fn := range usqFieldNames {
			if rapid.IntRange(0, 2).Draw(t, "has") > 0 {
				f[fn] = rapid.SampledFrom(textVals).Draw(t, "fv")
			}
		}
		if rapid.IntRange(0, 9).Draw(t, "unknownField") == 0 {
			f["notAField"] = "ignored"
		}
		name := pick(t, names, "name")
		if rapid.IntRange(0, 19).Draw(t, "empty") == 0 {
			name = ""
		}
		return storeOp{Op: "usq.save", Name: name, F: f}
	case k < 80:
		return storeOp{Op: "usq.delete", Name: pick(t, names, "name")}
	default:
		q := pick(t, names, "name")
		if rapid.Bool().Draw(t, "prefix") && len(q) > 1 {
			q = q[:len(q)/2]
		}
		return storeOp{Op: "usq.search", Name: q}
	}
}

type usqStore struct {
	m map[int64]map[string]map[string]string
}

func newUsqStore() *usqStore {
	s := &usqStore{m: map[int64]map[string]map[string]string{}}
	for _, t := range tenants {
		s.m[t] = map[string]map[string]string{}
	}
	return s
}

func (s *usqStore) restarted(d *storeDriver) {}

func (s *usqStore) apply(d *storeDriver, op *storeOp) error {
	switch op.Op {
	case "usq.save":
		body := map[string]string{"queryName": op.Name}
		for k, v := range op.F {
			body[k] = v
		}
		r, err := d.callJSON("usq.save", op.T, body, nil)
		if err != nil {
			return err
		}
		if r.OK() {
			stored := map[string]string{}
			for k, v := range op.F {
				if sk, ok := usqFields[k]; ok {
					stored[sk] = v
				}
			}
			if _, had := s.m[op.T][op.Name]; had {
				d.o.Class("usq_overwrite")
			}
			s.m[op.T][op.Name] = stored
			d.o.Class("usq_saved")
		} else {
			d.o.Class("usq_save_rejected")
		}
	case "usq.delete":
		r, err := d.call("usq.delete", op.T, nil, map[string]string{"uv.qname": op.Name})
		if err != nil {
			return err
		}
		if r.OK() {
			if _, had := s.m[op.T][op.Name]; had {
				d.noteRenameOrDelete()
				d.o.Class("usq_deleted")
			}
			delete(s.m[op.T], op.Name)
		}
	case "usq.search":
		r, err := d.call("usq.search", op.T, nil, map[string]string{"uv.qname": op.Name})
		if err != nil {
			return err
		}
		want, has := s.m[op.T][op.Name]
		if r.Status == 200 {
			var got map[string]map[string]string
			if err := r.JSON(&got); err != nil {
				return d.violation("saved-query search answered 200 with an unreadable body: %v", err)
			}
			// whatever the matching rule, a returned entry must be a stored entry with its stored value
			for k, v := range got {
				mv, ok := s.m[op.T][k]
				if !ok {
					return d.violation("saved-query search for %s (tenant %d) returned %s which is not stored for this tenant", short(op.Name), op.T, short(k))
				}
				if canon(mv) != canon(v) {
					return d.violation("saved-query search for %s (tenant %d) returned %s = %s, last written %s", short(op.Name), op.T, short(k), brief(v), brief(mv))
				}
			}
			if has {
				if _, ok := got[op.Name]; !ok {
					return d.violation("saved-query search for the exact name %s (tenant %d) does not return it; last written %s", short(op.Name), op.T, brief(want))
				}
			}
		} else if has {
			return d.violation("saved-query search for the stored name %s (tenant %d) answered %s", short(op.Name), op.T, r)
		}
	}
	return nil
}

func (s *usqStore) verify(d *storeDriver) error {
	for _, t := range tenants {
		r, err := d.call("usq.all", t, nil, nil)
		if err != nil {
			return err
		}
		if !r.OK() {
			return d.violation("listing saved queries of tenant %d failed: %s", t, r)
		}
		got := map[string]map[string]string{}
		if len(strings.TrimSpace(string(r.Body))) > 0 {
			if err := json.Unmarshal(r.Body, &got); err != nil {
				return d.violation("saved-query list of tenant %d is unreadable: %v (%.200q)", t, err, r.Body)
			}
		}
		if err := diffMaps("saved queries", t, s.m[t], got, d); err != nil {
			return err
		}
	}
	return nil
}

// diffMaps compares name → value maps.
func diffMaps(kind string, t int64, want, got map[string]map[string]string, d *storeDriver) error {
	for k, wv := range want {
		gv, ok := got[k]
		if !ok {
			return d.violation("%s of tenant %d: %s is missing from the list; last written %s; listed names %v", kind, t, short(k), brief(wv), keysShort(got))
		}
		if canon(gv) != canon(wv) {
			return d.violation("%s of tenant %d: %s reads %s, last written %s", kind, t, short(k), brief(gv), brief(wv))
		}
	}
	for k, gv := range got {
		if _, ok := want[k]; !ok {
			return d.violation("%s of tenant %d: the list contains %s = %s which is not stored (deleted, never written, or another tenant's)", kind, t, short(k), brief(gv))
		}
	}
	return nil
}

func keysShort(m map[string]map[string]string) []string {
	var out []string
	for k := range m {
		out = append(out, short(k))
	}
	return out
}
