package c20

// lookup files (pkg/lookups): key = file name, one namespace for the whole server.

import (
	"bytes"
	"compress/gzip"
	"encoding/json"
	"sort"
	"strings"

	"pgregory.net/rapid"
)

var lookupContents = []string{"a,b\n1,2\n", "", "k,v\nü,名\n", "x\n" + strings.Repeat("row,1\n", 500), "\"q,1\",\"line\nbreak\"\n", "a,b\r\n1,2\r\n"}

func genLookupOp(t *rapid.T, names []string, early bool) storeOp {
	k := pct(t, "lookupOp")
	if early {
		k = 0
	}
	name := pick(t, names, "name")
	if rapid.IntRange(0, 2).Draw(t, "ext") == 0 {
		name += rapid.SampledFrom([]string{".csv", ".CSV", ".csv.gz", ".Csv.Gz", ".txt"}).Draw(t, "extv")
	}
	switch {
	case k < 60:
		return storeOp{Op: "lookup.upload", Name: name, Val: rapid.SampledFrom(lookupContents).Draw(t, "content"),
			Flag: rapid.Bool().Draw(t, "overwrite"), Flag2: rapid.IntRange(0, 3).Draw(t, "gz") == 0}
	case k < 85:
		return storeOp{Op: "lookup.delete", Name: name, Ref: rapid.IntRange(0, 9).Draw(t, "ref"), Flag: rapid.Bool().Draw(t, "byRef")}
	default:
		return storeOp{Op: "lookup.get", Name: name}
	}
}

type lookupStore struct {
	files   map[string]string
	created []string // final names ever stored
}

func newLookupStore() *lookupStore { return &lookupStore{files: map[string]string{}} }

func (s *lookupStore) restarted(d *storeDriver) {}

func gz(s string) []byte {
	var b bytes.Buffer
	w := gzip.NewWriter(&b)
	_, _ = w.Write([]byte(s))
	_ = w.Close()
	return b.Bytes()
}

func (s *lookupStore) apply(d *storeDriver, op *storeOp) error {
	switch op.Op {
	case "lookup.upload":
		content := []byte(op.Val)
		fn := "upload.csv"
		if op.Flag2 {
			content = gz(op.Val)
			fn = "upload.csv.gz"
		}
		args := map[string]string{"mp.name": op.Name, "mpfile": fn}
		if op.Flag {
			args["mp.overwrite"] = "true"
		}
		r, err := d.call("lookup.upload", 0, content, args)
		if err != nil {
			return err
		}
		if r.OK() {
			const pfx = "File uploaded successfully: "
			body := string(r.Body)
			if !strings.HasPrefix(body, pfx) {
				return d.violation("lookup upload answered 200 with %s", r)
			}
			final := body[len(pfx):]
			if _, had := s.files[final]; had {
				if !op.Flag {
					return d.violation("lookup upload of %s without overwrite replaced the existing file %s", short(op.Name), short(final))
				}
				d.o.Class("lookup_overwritten")
			}
			s.files[final] = string(content)
			s.created = append(s.created, final)
			d.o.Class("lookup_uploaded")
		} else {
			d.o.Class("lookup_upload_rejected")
		}
	case "lookup.delete":
		name := op.Name
		if op.Flag && len(s.created) > 0 {
			name = s.created[op.Ref%len(s.created)]
		}
		r, err := d.call("lookup.delete", 0, nil, map[string]string{"uv.lookupFilename": name})
		if err != nil {
			return err
		}
		if r.OK() {
			if _, had := s.files[name]; !had {
				return d.violation("delete of the lookup file %s, which is not stored, was acknowledged: %s", short(name), r)
			}
			delete(s.files, name)
			d.noteRenameOrDelete()
			d.o.Class("lookup_deleted")
		}
	case "lookup.get":
		r, err := d.call("lookup.get", 0, nil, map[string]string{"uv.lookupFilename": op.Name})
		if err != nil {
			return err
		}
		want, has := s.files[op.Name]
		if has && (!r.OK() || string(r.Body) != want) {
			return d.violation("lookup file %s reads %s, last written %d bytes %.100q", short(op.Name), r, len(want), want)
		}
		if !has && r.OK() {
			return d.violation("lookup file %s is not stored but reads %s", short(op.Name), r)
		}
	}
	return nil
}

func (s *lookupStore) verify(d *storeDriver) error {
	r, err := d.call("lookup.all", 0, nil, nil)
	if err != nil {
		return err
	}
	if !r.OK() {
		return d.violation("listing lookup files failed: %s", r)
	}
	var got []string
	if err := json.Unmarshal(r.Body, &got); err != nil {
		return d.violation("lookup list unreadable: %v (%.200q)", err, r.Body)
	}
	sort.Strings(got)
	want := []string{}
	for k := range s.files {
		want = append(want, k)
	}
	sort.Strings(want)
	if canon(got) != canon(want) {
		return d.violation("lookup files listed %.500s, stored %.500s", canon(got), canon(want))
	}
	for _, k := range want {
		r, err := d.call("lookup.get", 0, nil, map[string]string{"uv.lookupFilename": k})
		if err != nil {
			return err
		}
		if !r.OK() || string(r.Body) != s.files[k] {
			return d.violation("lookup file %s reads status %d, %d bytes %.100q; last written %d bytes %.100q", short(k), r.Status, len(r.Body), r.Body, len(s.files[k]), s.files[k])
		}
	}
	return nil
}
