package c20

// dashboards + folders (pkg/dashboards): key = server-assigned id per tenant; folders form a tree.

import (
	"encoding/json"
	"fmt"
	"sort"
	"strings"

	"pgregory.net/rapid"
)

const rootFolder = "root-folder"

func genDashOp(t *rapid.T, names []string, early bool) storeOp {
	k := pct(t, "dashOp")
	if early {
		k = rapid.SampledFrom([]int{0, 40, 40}).Draw(t, "earlyOp") // folder.create | dash.create
	}
	ref := rapid.IntRange(0, 9).Draw(t, "ref")
	parent := func() int { // -1 = root, otherwise a created folder
		if rapid.IntRange(0, 9).Draw(t, "inRoot") < 6 {
			return -1
		}
		return rapid.IntRange(0, 9).Draw(t, "parent")
	}
	xt := rapid.IntRange(0, 9).Draw(t, "xt") == 0
	switch {
	case k < 18:
		return storeOp{Op: "folder.create", Name: pick(t, names, "name"), Ref2: parent()}
	case k < 28:
		op := storeOp{Op: "folder.update", Ref: ref, XT: xt, Ref2: -2}
		switch rapid.IntRange(0, 2).Draw(t, "fu") {
		case 0:
			op.Name = pick(t, names, "name")
		case 1:
			op.Ref2 = parent()
		default:
			op.Name = pick(t, names, "name")
			op.Ref2 = parent()
		}
		return op
	case k < 36:
		return storeOp{Op: "folder.delete", Ref: ref, XT: xt}
	case k < 58:
		return storeOp{Op: "dash.create", Name: pick(t, names, "name"), Val: rapid.SampledFrom(textVals).Draw(t, "desc"), Ref2: parent()}
	case k < 76:
		op := storeOp{Op: "dash.update", Ref: ref, XT: xt, Name: pick(t, names, "name"), Val: rapid.SampledFrom(textVals).Draw(t, "desc"), Ref2: -2}
		op.Flag = rapid.Bool().Draw(t, "withFavorite") // details carry isFavorite
		op.Flag2 = rapid.Bool().Draw(t, "favValue")
		op.I = rapid.IntRange(0, 3).Draw(t, "panels")
		if rapid.IntRange(0, 3).Draw(t, "move") == 0 {
			op.Ref2 = parent()
		}
		return op
	case k < 86:
		return storeOp{Op: "dash.delete", Ref: ref, XT: xt}
	default:
		return storeOp{Op: "dash.favorite", Ref: ref, XT: xt}
	}
}

type dashItem struct {
	typ    string // "folder" | "dashboard"
	name   string
	parent string
	doc    map[string]interface{} // dashboards: the stored details document (without "folder")
}

type dashStore struct {
	items   map[int64]map[string]*dashItem
	folders []objRef // created folders (including deleted ones)
	dashes  []objRef
	deleted map[int64]map[string]string // id → type
}

func newDashStore() *dashStore {
	s := &dashStore{items: map[int64]map[string]*dashItem{}, deleted: map[int64]map[string]string{}}
	for _, t := range tenants {
		s.items[t] = map[string]*dashItem{}
		s.deleted[t] = map[string]string{}
	}
	return s
}

func (s *dashStore) restarted(d *storeDriver) {}

func (s *dashStore) parentID(t int64, ref2 int) string {
	if ref2 == -1 {
		return rootFolder
	}
	id, _, _ := pickRef(s.folders, t, ref2, false)
	return id
}

func (s *dashStore) path(t int64, id string, includeSelf bool) ([]string, []string) {
	var names, ids []string
	cur := id
	if !includeSelf {
		if it := s.items[t][id]; it != nil {
			cur = it.parent
		}
	}
	for n := 0; cur != "" && cur != rootFolder && n < 1000; n++ {
		it := s.items[t][cur]
		if it == nil {
			break
		}
		names = append([]string{it.name}, names...)
		ids = append([]string{cur}, ids...)
		cur = it.parent
	}
	return names, ids
}

func (s *dashStore) isAncestor(t int64, anc, id string) bool {
	cur := id
	for n := 0; cur != "" && cur != rootFolder && n < 1000; n++ {
		if cur == anc {
			return true
		}
		it := s.items[t][cur]
		if it == nil {
			return false
		}
		cur = it.parent
	}
	return false
}

func (s *dashStore) removeTree(t int64, id string) {
	for cid, it := range s.items[t] {
		if it.parent == id {
			s.removeTree(t, cid)
		}
	}
	if it := s.items[t][id]; it != nil {
		s.deleted[t][id] = it.typ
	}
	delete(s.items[t], id)
}

func (s *dashStore) apply(d *storeDriver, op *storeOp) error {
	t := op.T
	switch op.Op {
	case "folder.create":
		pid := s.parentID(t, op.Ref2)
		body := map[string]string{"name": op.Name}
		if pid != rootFolder || op.Ref2%2 == 0 {
			body["parentId"] = pid
		}
		r, err := d.callJSON("folder.create", t, body, nil)
		if err != nil {
			return err
		}
		if r.OK() {
			var out struct {
				ID string `json:"id"`
			}
			if err := r.JSON(&out); err != nil || out.ID == "" {
				return d.violation("folder create answered 200 without an id: %s", r)
			}
			if _, dup := s.items[t][out.ID]; dup {
				return d.violation("folder create returned the id %s of an existing item", out.ID)
			}
			s.items[t][out.ID] = &dashItem{typ: "folder", name: op.Name, parent: pid}
			s.folders = append(s.folders, objRef{out.ID, t})
			d.o.Class("folder_created")
		} else {
			d.o.Class("folder_create_rejected")
		}
	case "folder.update":
		id, owner, ok := pickRef(s.folders, t, op.Ref, op.XT)
		body := map[string]string{}
		if op.Name != "" {
			body["name"] = op.Name
		}
		newParent := ""
		if op.Ref2 != -2 {
			newParent = s.parentID(t, op.Ref2)
			body["parentId"] = newParent
		}
		r, err := d.callJSON("folder.update", t, body, map[string]string{"uv.folder-id": id})
		if err != nil {
			return err
		}
		if op.XT && ok {
			d.o.Class("cross_tenant_attempt")
			_ = owner // the other tenant's model is left as it is; verify() decides
			return nil
		}
		it := s.items[t][id]
		if r.OK() {
			if it == nil || it.typ != "folder" {
				return d.violation("folder update of %s (not an existing folder of tenant %d) was acknowledged: %s", id, t, r)
			}
			if newParent != "" && newParent != it.parent {
				if s.isAncestor(t, id, newParent) {
					return d.violation("moving folder %s below its own descendant %s was acknowledged", id, newParent)
				}
				it.parent = newParent
				d.o.Class("folder_moved")
			}
			if op.Name != "" && op.Name != it.name {
				it.name = op.Name
				d.noteRenameOrDelete()
				d.o.Class("folder_renamed")
			}
		}
	case "folder.delete":
		id, _, ok := pickRef(s.folders, t, op.Ref, op.XT)
		r, err := d.call("folder.delete", t, nil, map[string]string{"uv.folder-id": id})
		if err != nil {
			return err
		}
		if op.XT && ok {
			d.o.Class("cross_tenant_attempt")
			return nil
		}
		if r.OK() {
			if it := s.items[t][id]; it == nil || it.typ != "folder" {
				return d.violation("delete of folder %s (not an existing folder of tenant %d) was acknowledged: %s", id, t, r)
			}
			s.removeTree(t, id)
			d.noteRenameOrDelete()
			d.o.Class("folder_deleted")
		}
	case "dash.create":
		pid := s.parentID(t, op.Ref2)
		body := map[string]string{"name": op.Name, "description": op.Val}
		if pid != rootFolder || op.Ref2%2 == 0 {
			body["parentId"] = pid
		}
		r, err := d.callJSON("dash.create", t, body, nil)
		if err != nil {
			return err
		}
		if r.OK() {
			var out map[string]string
			if err := r.JSON(&out); err != nil || len(out) != 1 {
				return d.violation("dashboard create answered 200 without exactly one id: %s", r)
			}
			for id, nm := range out {
				if nm != op.Name {
					return d.violation("dashboard create echoed name %s, sent %s", short(nm), short(op.Name))
				}
				if _, dup := s.items[t][id]; dup {
					return d.violation("dashboard create returned the id %s of an existing item", id)
				}
				s.items[t][id] = &dashItem{typ: "dashboard", name: op.Name, parent: pid,
					doc: map[string]interface{}{"name": op.Name, "description": op.Val, "isFavorite": false}}
				s.dashes = append(s.dashes, objRef{id, t})
			}
			d.o.Class("dash_created")
		} else {
			d.o.Class("dash_create_rejected")
		}
	case "dash.update":
		id, _, ok := pickRef(s.dashes, t, op.Ref, op.XT)
		details := map[string]interface{}{"name": op.Name, "description": op.Val}
		if op.Flag {
			details["isFavorite"] = op.Flag2
		}
		if op.I > 0 {
			var panels []interface{}
			for p := 0; p < op.I; p++ {
				panels = append(panels, map[string]interface{}{"panelId": fmt.Sprintf("p%d", p), "title": op.Name, "queryData": map[string]interface{}{"searchText": op.Val}})
			}
			details["panels"] = panels
		}
		newParent := ""
		if op.Ref2 != -2 {
			newParent = s.parentID(t, op.Ref2)
			details["folder"] = map[string]interface{}{"id": newParent}
		}
		r, err := d.callJSON("dash.update", t, map[string]interface{}{"id": id, "details": details}, nil)
		if err != nil {
			return err
		}
		if op.XT && ok {
			d.o.Class("cross_tenant_attempt")
			return nil
		}
		if r.OK() {
			it := s.items[t][id]
			if it == nil || it.typ != "dashboard" {
				return d.violation("update of dashboard %s (not an existing dashboard of tenant %d) was acknowledged: %s", id, t, r)
			}
			if newParent != "" && newParent != it.parent {
				it.parent = newParent
				d.o.Class("dash_moved")
			}
			if it.name != op.Name {
				d.noteRenameOrDelete()
				d.o.Class("dash_renamed")
			}
			it.name = op.Name
			delete(details, "folder")
			it.doc = details
			d.o.Class("dash_updated")
		}
	case "dash.delete":
		id, _, ok := pickRef(s.dashes, t, op.Ref, op.XT)
		r, err := d.call("dash.delete", t, nil, map[string]string{"uv.dashboard-id": id})
		if err != nil {
			return err
		}
		if op.XT && ok {
			d.o.Class("cross_tenant_attempt")
			return nil
		}
		if r.OK() {
			if it := s.items[t][id]; it == nil || it.typ != "dashboard" {
				return d.violation("delete of dashboard %s (not an existing dashboard of tenant %d) was acknowledged: %s", id, t, r)
			}
			s.removeTree(t, id)
			d.noteRenameOrDelete()
			d.o.Class("dash_deleted")
		}
	case "dash.favorite":
		id, _, ok := pickRef(s.dashes, t, op.Ref, op.XT)
		r, err := d.call("dash.favorite", t, nil, map[string]string{"uv.dashboard-id": id})
		if err != nil {
			return err
		}
		if op.XT && ok {
			d.o.Class("cross_tenant_attempt")
			return nil
		}
		if r.OK() {
			it := s.items[t][id]
			if it == nil || it.typ != "dashboard" {
				return d.violation("favorite toggle of %s (not an existing dashboard of tenant %d) was acknowledged: %s", id, t, r)
			}
			prev, _ := it.doc["isFavorite"].(bool)
			var out struct {
				Fav *bool `json:"isFavorite"`
			}
			if err := r.JSON(&out); err != nil || out.Fav == nil || *out.Fav != !prev {
				return d.violation("favorite toggle of dashboard %s answered %s, stored value was %v", id, r, prev)
			}
			it.doc["isFavorite"] = !prev
			d.o.Class("dash_favorite_toggled")
		}
	}
	return nil
}

type listItem struct {
	ID          string `json:"id"`
	Name        string `json:"name"`
	Type        string `json:"type"`
	ParentID    string `json:"parentId"`
	ParentName  string `json:"parentName"`
	FullPath    string `json:"fullPath"`
	IsStarred   bool   `json:"isStarred"`
	Description string `json:"description"`
}

func (s *dashStore) verify(d *storeDriver) error {
	for _, t := range tenants {
		m := s.items[t]
		// 1. the flat list of everything
		r, err := d.call("dash.list", t, nil, nil)
		if err != nil {
			return err
		}
		if !r.OK() {
			return d.violation("listing dashboards/folders of tenant %d failed: %s", t, r)
		}
		var lst struct {
			Items []listItem `json:"items"`
			Total int        `json:"totalCount"`
		}
		if err := r.JSON(&lst); err != nil {
			return d.violation("dashboard list of tenant %d unreadable: %v", t, err)
		}
		seen := map[string]bool{}
		for _, li := range lst.Items {
			it := m[li.ID]
			if it == nil {
				return d.violation("tenant %d: the list contains %s %s (id %s) which does not exist for this tenant (deleted: %v)", t, li.Type, short(li.Name), li.ID, s.deleted[t][li.ID] != "")
			}
			if seen[li.ID] {
				return d.violation("tenant %d: the list contains id %s twice", t, li.ID)
			}
			seen[li.ID] = true
			names, _ := s.path(t, li.ID, true)
			wantParentName := ""
			if it.parent != rootFolder {
				if p := m[it.parent]; p != nil {
					wantParentName = p.name
				}
			}
			if li.Name != it.name || li.Type != it.typ || li.ParentID != it.parent || li.FullPath != strings.Join(names, "/") || li.ParentName != wantParentName {
				return d.violation("tenant %d: list entry of %s is {name %s type %s parent %s parentName %s path %s}, last written {name %s type %s parent %s parentName %s path %s}",
					t, li.ID, short(li.Name), li.Type, li.ParentID, short(li.ParentName), short(li.FullPath),
					short(it.name), it.typ, it.parent, short(wantParentName), short(strings.Join(names, "/")))
			}
			if it.typ == "dashboard" {
				fav, _ := it.doc["isFavorite"].(bool)
				desc, _ := it.doc["description"].(string)
				if li.IsStarred != fav || li.Description != desc {
					return d.violation("tenant %d: list entry of dashboard %s has starred=%v description=%s, last written starred=%v description=%s",
						t, li.ID, li.IsStarred, short(li.Description), fav, short(desc))
				}
			}
		}
		for id, it := range m {
			if !seen[id] {
				return d.violation("tenant %d: %s %s (id %s) is missing from the list", t, it.typ, short(it.name), id)
			}
		}
		// 2. every dashboard document
		ids := make([]string, 0, len(m))
		for id := range m {
			ids = append(ids, id)
		}
		sort.Strings(ids)
		for _, id := range ids {
			it := m[id]
			if it.typ != "dashboard" {
				continue
			}
			r, err := d.call("dash.get", t, nil, map[string]string{"uv.dashboard-id": id})
			if err != nil {
				return err
			}
			if !r.OK() {
				return d.violation("tenant %d: reading dashboard %s (%s) failed: %s", t, id, short(it.name), r)
			}
			var doc map[string]interface{}
			if err := r.JSON(&doc); err != nil {
				return d.violation("tenant %d: dashboard %s unreadable: %v", t, id, err)
			}
			folder, _ := doc["folder"].(map[string]interface{})
			delete(doc, "folder")
			delete(doc, "createdAtMs")
			var want map[string]interface{}
			_ = json.Unmarshal([]byte(canon(it.doc)), &want)
			if canon(doc) != canon(want) {
				return d.violation("tenant %d: dashboard %s reads %.600s, last written %.600s", t, id, brief(doc), brief(want))
			}
			pnames, pids := s.path(t, id, false)
			wantFolderName := "Root"
			if it.parent != rootFolder {
				if p := m[it.parent]; p != nil {
					wantFolderName = p.name
				}
			}
			if folder == nil || folder["id"] != it.parent || folder["name"] != wantFolderName || folder["path"] != strings.Join(pnames, "/") {
				return d.violation("tenant %d: dashboard %s reports folder %s, it is in folder %s (name %s, path %s)", t, id, brief(folder), it.parent, short(wantFolderName), short(strings.Join(pnames, "/")))
			}
			var bc []interface{}
			bc = append(bc, map[string]interface{}{"id": rootFolder, "name": "Root"})
			for i := range pids {
				bc = append(bc, map[string]interface{}{"id": pids[i], "name": pnames[i]})
			}
			if canon(folder["breadcrumbs"]) != canon(bc) {
				return d.violation("tenant %d: dashboard %s reports breadcrumbs %s, expected %s", t, id, brief(folder["breadcrumbs"]), brief(bc))
			}
		}
		// 3. every folder's content
		for _, fid := range append([]string{rootFolder}, ids...) {
			if fid != rootFolder && m[fid].typ != "folder" {
				continue
			}
			r, err := d.call("folder.get", t, nil, map[string]string{"uv.folder-id": fid})
			if err != nil {
				return err
			}
			if !r.OK() {
				return d.violation("tenant %d: reading folder %s failed: %s", t, fid, r)
			}
			var fc struct {
				Folder struct {
					ID   string `json:"id"`
					Name string `json:"name"`
				} `json:"folder"`
				Items []struct {
					ID         string `json:"id"`
					Name       string `json:"name"`
					Type       string `json:"type"`
					ChildCount int    `json:"childCount"`
				} `json:"items"`
			}
			if err := r.JSON(&fc); err != nil {
				return d.violation("tenant %d: folder %s unreadable: %v", t, fid, err)
			}
			wantName := "Root"
			if fid != rootFolder {
				wantName = m[fid].name
			}
			if fc.Folder.ID != fid || fc.Folder.Name != wantName {
				return d.violation("tenant %d: folder %s reads name %s, last written %s", t, fid, short(fc.Folder.Name), short(wantName))
			}
			got := map[string]string{}
			for _, ci := range fc.Items {
				cc := 0
				for _, x := range m {
					if x.parent == ci.ID {
						cc++
					}
				}
				got[ci.ID] = fmt.Sprintf("%s|%s", ci.Type, ci.Name)
				if it := m[ci.ID]; it != nil && it.typ == "folder" && ci.ChildCount != cc {
					return d.violation("tenant %d: folder %s lists sub-folder %s with %d children, it has %d", t, fid, ci.ID, ci.ChildCount, cc)
				}
			}
			want := map[string]string{}
			for id, it := range m {
				if it.parent == fid {
					want[id] = fmt.Sprintf("%s|%s", it.typ, it.name)
				}
			}
			if canon(got) != canon(want) {
				return d.violation("tenant %d: folder %s (%s) contains %.500s, expected %.500s", t, fid, short(wantName), brief(got), brief(want))
			}
		}
		// 4. deleted dashboards must not be readable any more
		n := 0
		for id, typ := range s.deleted[t] {
			if typ != "dashboard" || n >= 3 {
				continue
			}
			n++
			r, err := d.call("dash.get", t, nil, map[string]string{"uv.dashboard-id": id})
			if err != nil {
				return err
			}
			if r.OK() {
				return d.violation("tenant %d: deleted dashboard %s is still readable: %s", t, id, r)
			}
		}
	}
	return nil
}
