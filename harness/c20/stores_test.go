package c20

// C20 (b) — dashboards, folders, saved queries, index aliases, lookup files, alerts and contact points as keyed
// stores. A case is a recorded list of operations (generated as data); the check replays it against a live
// server process and a map model per tenant. The model follows the API's own answer for accept / reject
// ("rejected ⇒ unchanged, acknowledged ⇒ written") and after every operation every read of the touched store
// must return exactly the model for every tenant; after a restart and at the end every store is read.

import (
	"encoding/json"
	"errors"
	"fmt"
	"sort"
	"strings"
	"testing"
	"unicode"

	"pgregory.net/rapid"

	"verifharness/pt"
	"verifharness/sut"
)

type storeOp struct {
	Op    string            `json:"op"`
	T     int64             `json:"t"`
	Name  string            `json:"name,omitempty"`
	Name2 string            `json:"name2,omitempty"`
	Ref   int               `json:"ref,omitempty"`  // which earlier created object (resolved at run time)
	Ref2  int               `json:"ref2,omitempty"` // parent folder / contact point; <0: see op
	XT    bool              `json:"xt,omitempty"`   // aim at an object of another tenant
	Val   string            `json:"val,omitempty"`
	F     map[string]string `json:"f,omitempty"`
	Flag  bool              `json:"flag,omitempty"`
	Flag2 bool              `json:"flag2,omitempty"`
	I     int               `json:"i,omitempty"`
}

type storeCase struct {
	Stores []string  `json:"stores"`
	Ops    []storeOp `json:"ops"`
}

var allStores = []string{"usq", "dash", "alias", "lookup", "alert"}
var tenants = []int64{0, 1, 2}

// ---- adversarial names ------------------------------------------------------------------------

var nameSimple = []string{"q1", "alpha", "Z", "my query", "prod-errors", "x"}
var nameSpace = []string{" lead", "trail ", "in  ner", "tab\tname", "nl\nname", " "}
var nameUnicode = []string{"ünïcödé", "名前", "😀 dash", "é", "é", "ǅ", "straße", "STRASSE", "a​b", "‮abc", "İstanbul", "ı"}
var nameSpecial = []string{`a"b`, `a\b`, "a%20b", "a%2Fb", "a#b", "a?b=c&d", "a;b", "<script>alert(1)</script>", "a'b", "a`b",
	`{"x":1}`, "[1]", "$ne", "a*b", "*", "a.b", ".hidden", "a..b", "-", "--flag", "null", "true", "0", "-1", "NaN",
	"root-folder", "__proto__", "constructor", "a,b", "a|b", "a=b", "~", "%s%n", "a:b", "CON", "a.csv", "A.CSV", "b.csv.gz", "a.json"}
var nameSlash = []string{"a/b", "/abs", "a/../b", "a\\..\\b"}

func caseVariant(t *rapid.T, s string) string {
	switch rapid.IntRange(0, 2).Draw(t, "cv") {
	case 0:
		return strings.ToUpper(s)
	case 1:
		return strings.ToLower(s)
	}
	r := []rune(s)
	for i := range r {
		if i%2 == 0 {
			r[i] = unicode.ToUpper(r[i])
		} else {
			r[i] = unicode.ToLower(r[i])
		}
	}
	return string(r)
}

// genNames draws a pool of 3..7 names; operations pick from the pool so that names repeat.
func genNames(t *rapid.T, fileSafe bool) []string {
	n := rapid.IntRange(3, 7).Draw(t, "nNames")
	var pool []string
	for len(pool) < n {
		var s string
		k := pct(t, "nameKind")
		switch {
		case k < 22:
			s = rapid.SampledFrom(nameSimple).Draw(t, "simple")
		case k < 38 && len(pool) > 0:
			s = caseVariant(t, pool[rapid.IntRange(0, len(pool)-1).Draw(t, "cvOf")])
		case k < 48:
			s = rapid.SampledFrom(nameSpace).Draw(t, "space")
		case k < 64:
			s = rapid.SampledFrom(nameUnicode).Draw(t, "unicode")
		case k < 86:
			s = rapid.SampledFrom(nameSpecial).Draw(t, "special")
		case k < 92:
			l := rapid.SampledFrom([]int{64, 200, 250, 251, 255, 256, 300, 5000}).Draw(t, "len")
			s = strings.Repeat(rapid.SampledFrom([]string{"L", "é", "名"}).Draw(t, "longCh"), l)
		case k < 96 && !fileSafe:
			s = rapid.SampledFrom(nameSlash).Draw(t, "slash")
		case k < 98 && !fileSafe:
			s = "nul\x00byte"
		default:
			s = rapid.StringOfN(rapid.RuneFrom(nil, unicode.Letter, unicode.Digit, unicode.Punct, unicode.Symbol), 1, 12, -1).Draw(t, "rnd")
		}
		if fileSafe && (strings.ContainsAny(s, "/\x00") || s == "." || s == ".." || s == "") {
			continue
		}
		pool = append(pool, s)
	}
	return pool
}

// pct draws an (almost) uniform number in 0..99. rapid's IntRange is deliberately biased towards small values,
// which would turn "k < 5" into a 25 % choice; seven fair coins are not.
func pct(t *rapid.T, label string) int {
	v := 0
	for i := 0; i < 7; i++ {
		if rapid.Bool().Draw(t, label) {
			v |= 1 << i
		}
	}
	return v * 100 / 128
}

func pick(t *rapid.T, pool []string, label string) string {
	return pool[rapid.IntRange(0, len(pool)-1).Draw(t, label)]
}

var textVals = []string{"", "* | stats count", "error AND \"x y\"", "ünï 名前 😀", "line1\nline2", `{"a":[1,2,{"b":null}]}`, strings.Repeat("v", 3000), "  padded  ", "0", "null"}

// ---- generator ------------------------------------------------------------------------------

func genStoreCase(t *rapid.T) *storeCase {
	cs := &storeCase{}
	k := rapid.IntRange(1, 3).Draw(t, "nStores")
	perm := rapid.Permutation(allStores).Draw(t, "stores")
	cs.Stores = append(cs.Stores, perm[:k]...)
	sort.Strings(cs.Stores)
	names := genNames(t, false)
	fnames := genNames(t, true)
	nOps := rapid.IntRange(6, pt.Scale(36, 60)).Draw(t, "nOps")
	main := rapid.SampledFrom(tenants).Draw(t, "mainTenant")
	tn := func() int64 {
		if rapid.IntRange(0, 9).Draw(t, "onMain") < 6 {
			return main
		}
		return rapid.SampledFrom(tenants).Draw(t, "tenant")
	}
	ref := func(l string) int { return rapid.IntRange(0, 7).Draw(t, l) }
	for i := 0; i < nOps; i++ {
		if pct(t, "restart") < 6 {
			// Flag = quiet restart: the stores are NOT read back right after the restart, so that the next
			// generated operation is the first request of its kind the new process sees (a read-all would
			// load every lazily loaded per-tenant file and hide a write that forgets to load first).
			cs.Ops = append(cs.Ops, storeOp{Op: "restart", Flag: rapid.IntRange(0, 1).Draw(t, "quietRestart") == 1})
			continue
		}
		st := rapid.SampledFrom(cs.Stores).Draw(t, "store")
		// the first third of a case mostly creates, so that later updates / renames / deletes find objects
		early := i*3 < nOps && rapid.IntRange(0, 9).Draw(t, "early") < 7
		var op storeOp
		switch st {
		case "usq":
			op = genUsqOp(t, names, early)
		case "dash":
			op = genDashOp(t, names, early)
		case "alias":
			op = genAliasOp(t, fnames, early)
		case "lookup":
			op = genLookupOp(t, fnames, early)
		case "alert":
			op = genAlertStoreOp(t, names, early)
		}
		if st != "lookup" {
			op.T = tn()
		}
		_ = ref
		cs.Ops = append(cs.Ops, op)
	}
	return cs
}

// ---- driver ----------------------------------------------------------------------------------

type storeImpl interface {
	// apply executes the operation and advances the model according to the server's answer.
	apply(d *storeDriver, op *storeOp) error
	// verify reads the whole store for every tenant and compares it with the model.
	verify(d *storeDriver) error
	// restarted tells the store that the server process was replaced.
	restarted(d *storeDriver)
}

type storeDriver struct {
	cs      *storeCase
	o       *pt.Obs
	c       *sut.Client
	dataDir string
	impls   map[string]storeImpl
	step    int
	what    string
	muts    int // acknowledged renames / deletes so far

	timedOut bool // a worker command timed out (the worker is killed then)
}

type objRef struct {
	id string
	t  int64
}

// pickRef resolves a symbolic reference against the objects created so far (including deleted ones).
func pickRef(l []objRef, t int64, ref int, xt bool) (string, int64, bool) {
	var c []objRef
	for _, o := range l {
		if (o.t == t) != xt {
			c = append(c, o)
		}
	}
	if len(c) == 0 {
		return "c20-no-such-id", t, false
	}
	if ref < 0 {
		ref = -ref
	}
	o := c[ref%len(c)]
	return o.id, o.t, true
}

func (d *storeDriver) wrap(err error) error {
	if err == nil {
		return nil
	}
	if errors.Is(err, sut.ErrTimeout) {
		d.timedOut = true // the client kills the worker after a timeout
		return pt.Inconclusivef("%s: worker command timed out", d.what)
	}
	if errors.Is(err, sut.ErrWorkerDied) {
		if d.timedOut {
			return pt.Inconclusivef("%s: worker was killed after a command timeout", d.what)
		}
		return fmt.Errorf("%s: server process died: %s", d.what, pt.CrashDetail(d.c))
	}
	var ope *sut.OpError
	if errors.As(err, &ope) && strings.HasPrefix(ope.Msg, "PANIC") {
		return fmt.Errorf("%s: request handler panicked: %.1500s", d.what, ope.Msg)
	}
	return fmt.Errorf("%s: %w", d.what, err)
}

func (d *storeDriver) call(handler string, org int64, body []byte, args map[string]string) (*httpRes, error) {
	r, err := call(d.c, handler, org, body, args)
	return r, d.wrap(err)
}

func (d *storeDriver) callJSON(handler string, org int64, body interface{}, args map[string]string) (*httpRes, error) {
	r, err := callJSON(d.c, handler, org, body, args)
	return r, d.wrap(err)
}

func (d *storeDriver) violation(format string, a ...interface{}) error {
	return fmt.Errorf("%s: %s", d.what, fmt.Sprintf(format, a...))
}

func (d *storeDriver) start() error {
	c, err := sut.Start(sut.Options{DataDir: d.dataDir, Features: []string{"alertsdb", "stores"}, Orgs: tenants,
		Env: map[string]string{"VERIF_LOGLEVEL": "error"}})
	if err != nil {
		return pt.Inconclusivef("worker start: %v", err)
	}
	d.c = c
	return nil
}

func storeOf(op string) string {
	if i := strings.IndexByte(op, '.'); i > 0 {
		s := op[:i]
		switch s {
		case "folder":
			return "dash"
		case "index":
			return "alias"
		case "contact":
			return "alert"
		}
		return s
	}
	return op
}

func canon(v interface{}) string {
	b, _ := json.Marshal(v)
	return string(b)
}

// brief renders a value for a message: long strings are abbreviated.
func brief(v interface{}) string {
	var x interface{}
	if json.Unmarshal([]byte(canon(v)), &x) != nil {
		return canon(v)
	}
	var walk func(interface{}) interface{}
	walk = func(y interface{}) interface{} {
		switch z := y.(type) {
		case string:
			if len(z) > 48 {
				return fmt.Sprintf("%s…(%d bytes)", z[:24], len(z))
			}
		case map[string]interface{}:
			o := map[string]interface{}{}
			for k, w := range z {
				kk, _ := walk(k).(string)
				o[kk] = walk(w)
			}
			return o
		case []interface{}:
			for i := range z {
				z[i] = walk(z[i])
			}
		}
		return y
	}
	s := canon(walk(x))
	if len(s) > 900 {
		s = s[:900] + "…"
	}
	return s
}

func short(s string) string {
	if len(s) > 60 {
		return fmt.Sprintf("%.40q…(%d bytes)", s, len(s))
	}
	return fmt.Sprintf("%q", s)
}

func checkStores(cs *storeCase, o *pt.Obs) error {
	d := &storeDriver{cs: cs, o: o, dataDir: pt.NewDataDir(), impls: map[string]storeImpl{}}
	defer pt.CleanupDataDir(d.dataDir)
	if err := d.start(); err != nil {
		return err
	}
	defer func() { d.c.Close() }()
	for _, s := range cs.Stores {
		o.Class("store_" + s)
		switch s {
		case "usq":
			d.impls[s] = newUsqStore()
		case "dash":
			d.impls[s] = newDashStore()
		case "alias":
			d.impls[s] = newAliasStore()
		case "lookup":
			d.impls[s] = newLookupStore()
		case "alert":
			d.impls[s] = newAlertStore()
		default:
			return fmt.Errorf("bad store %q", s)
		}
	}
	verifyAll := func() error {
		for _, s := range cs.Stores {
			if err := d.impls[s].verify(d); err != nil {
				return err
			}
		}
		return nil
	}
	mutated := false // a rename or delete was acknowledged
	nontrivial := false
	for i := range cs.Ops {
		op := &cs.Ops[i]
		d.step = i
		d.what = fmt.Sprintf("op %d %s", i, describeOp(op))
		if op.Op == "restart" {
			o.Class("op_restart")
			d.c.Close()
			if err := d.start(); err != nil {
				return err
			}
			for _, s := range cs.Stores {
				d.impls[s].restarted(d)
			}
			d.what = fmt.Sprintf("after restart (op %d)", i)
			if op.Flag {
				o.Class("op_restart_quiet")
			} else if err := verifyAll(); err != nil {
				return err
			}
			if mutated {
				nontrivial = true
			}
			continue
		}
		s := storeOf(op.Op)
		impl := d.impls[s]
		if impl == nil {
			return fmt.Errorf("operation %q for a store that is not part of the case", op.Op)
		}
		o.Class("op_" + op.Op)
		before := d.muts
		if err := impl.apply(d, op); err != nil {
			return err
		}
		if d.muts != before {
			mutated = true
		}
		if err := impl.verify(d); err != nil {
			return err
		}
	}
	d.what = "at the end"
	if err := verifyAll(); err != nil {
		return err
	}
	if nontrivial {
		o.NonTrivial()
	}
	return nil
}

// stores call this when a rename or delete was acknowledged by the server.
func (d *storeDriver) noteRenameOrDelete() {
	d.muts++
	d.o.Count("acknowledged_renames_deletes", 1)
}

func describeOp(op *storeOp) string { return brief(op) }

func TestC20Stores(t *testing.T) { pt.RunProp(t, "C20", genStoreCase, checkStores) }
