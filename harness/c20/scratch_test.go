package c20

import (
	"fmt"
	"os"
	"testing"

	"verifharness/pt"
	"verifharness/sut"
)

func TestScratch(t *testing.T) {
	if os.Getenv("C20_SCRATCH") == "" {
		t.Skip()
	}
	sk, err := getSink()
	if err != nil {
		t.Fatal(err)
	}
	err = pt.WithWorker(sut.Options{Features: []string{"alertsdb", "stores"}, Orgs: []int64{0, 1, 2}, Env: map[string]string{"VERIF_LOGLEVEL": "info"}}, func(c *sut.Client) error {
		r, err := callJSON(c, "contact.create", 0, map[string]interface{}{
			"contact_name": "cp1", "webhook": []map[string]interface{}{{"webhook": sk.URL("/x1")}},
		}, nil)
		fmt.Println("contact.create", r, err)
		r, err = call(c, "contact.all", 0, nil, nil)
		fmt.Println("contact.all", r, err)
		var cs struct {
			Contacts []struct {
				ContactId string `json:"contact_id"`
			} `json:"contacts"`
		}
		_ = r.JSON(&cs)
		base := uint64(1700000000000)
		body := bulkLine("ix", base+1, `"v":3,"g":"a"`) + bulkLine("ix", base+2, `"v":4.5,"g":"b"`)
		br, err := c.Bulk(0, []byte(body))
		fmt.Println("bulk", br, err)
		_ = c.Flush()
		for _, q := range []string{"* | stats sum(v)", "* | stats sum(v) as s", "* | stats sum(v) by g", "* | stats sum(v) as s by g | where s > 3", "* | stats count", "* | stats avg(v)", "* | stats sum(v) as s | eval z=s*1000", "nomatch=1 | stats sum(v)", "nomatch=1 | stats count", "nomatch=1 | stats sum(v) by g", "* | stats sum(v) as s | eval s=s*1000", "* | stats sum(v) as s by g | sort -s", "* | stats sum(v) as s | fields s", "* | stats sum(v) as s by g | head 1", "* | timechart sum(v)", "* | stats sum(v) as s by g | eval s2=s+1 | fields g, s2", "* | stats sum(v) as s by g | stats max(s) as m", "* | stats sum(v) as s by g | rename s as zz", "* | eval w=v*2 | stats sum(w)", "* | stats count by g | where count > 0", "* | stats sum(v) as s by g | eval big=s*100000"} {
			sr, err := c.Search(sut.Query{Index: "ix", Text: q, Start: base, End: base + 1000})
			fmt.Printf("Q %q err=%v qtype=%s measure=%v funcs=%v recs=%v errors=%v\n", q, err, sr.Qtype, sr.Measure, sr.MeasureFuncs, sr.Records, sr.Errors)
		}
		r, err = callJSON(c, "alert.create", 0, map[string]interface{}{
			"alert_name": "a1", "alert_type": 1, "contact_id": cs.Contacts[0].ContactId,
			"queryParams": map[string]interface{}{"data_source": "Logs", "queryLanguage": "Splunk QL", "queryText": "* | stats sum(v)",
				"startTime": fmt.Sprint(base), "endTime": fmt.Sprint(base + 1000), "index": "ix"},
			"condition": 0, "value": 5, "eval_for": 2, "eval_interval": 1, "message": "msg {{alert_rule_name}}",
		}, nil)
		fmt.Println("alert.create", r, err)
		r, err = call(c, "alert.all", 0, nil, nil)
		fmt.Println("alert.all", r, err)
		var as struct {
			Alerts []struct {
				AlertId string `json:"alert_id"`
			} `json:"alerts"`
		}
		_ = r.JSON(&as)
		id := as.Alerts[0].AlertId
		var er evalResult
		err = c.Call(&sut.Req{Op: "c20.waitHistory", Name: id, Ints: map[string]int64{"rows": 1}}, &er)
		fmt.Println("waitHistory", er, err)
		for i := 0; i < 3; i++ {
			err = c.Call(&sut.Req{Op: "c20.eval", Name: id}, &er)
			fmt.Println("eval", er, err)
			r, err = call(c, "alert.get", 0, nil, map[string]string{"uv.alertID": id})
			fmt.Println("alert.get", r, err)
			var ns notifSnap
			err = c.Call(&sut.Req{Op: "c20.notif", Name: id}, &ns)
			fmt.Println("notif", ns, err, "posts", sk.Posts("/x1"))
		}
		r, err = call(c, "alert.history", 0, nil, map[string]string{"uv.alertID": id, "q.sort_order": "ASC", "q.limit": "1000"})
		fmt.Println("alert.history", r, err)
		fmt.Println(c.LogTail(6000))
		return nil
	})
	fmt.Println(err)
}
