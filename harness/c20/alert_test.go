package c20

// C20 (a) — alert state machine, end to end.
//
// A generated case is an alert definition (tenant, evaluation window / interval ⇒ N, cool-down, condition,
// threshold, query/result shape) plus a list of steps. Every evaluating step first moves the data so that the
// alert's query returns chosen values around the threshold, then triggers exactly one evaluation: the first run of
// a job registered by the create handler, the update handler or InitAlertingService (after a restart of the server
// process, or repeated in the running process), or one more run of the job that is registered at that moment —
// which evaluates with the alert object captured at registration / load time, like the cron job in production.
// After each evaluation the alert state, the new history row, the webhook posts received by a loopback sink and the
// notification row are compared with the reference model derived from the property statement.

import (
	"encoding/json"
	"errors"
	"fmt"
	"math"
	"os"
	"strconv"
	"strings"
	"sync/atomic"
	"testing"
	"time"

	"pgregory.net/rapid"

	"verifharness/pt"
	"verifharness/sut"
)

const (
	stInactive = 0
	stNormal   = 1
	stPending  = 2
	stFiring   = 3

	condAbove    = 0
	condBelow    = 1
	condEqual    = 2
	condNotEqual = 3
	condNoValue  = 4
)

var stateName = map[int]string{0: "Inactive", 1: "Normal", 2: "Pending", 3: "Firing"}
var condName = map[int]string{0: "above", 1: "below", 2: "equal", 3: "notequal", 4: "novalue"}
var stateDesc = map[int]string{1: "Alert Normal", 2: "Alert Pending", 3: "Alert Firing"}

type alertStep struct {
	// eval: one more run of the cron job registered last (alert object captured at that registration);
	// edit: update handler (message change) which re-registers the job with the alert as stored now and evaluates once;
	// restart: new server process on the same data + start-up alert initialisation (InitAlertingService: loads the
	// alert from the store, registers the job) which evaluates once;
	// reinit: the same initialisation repeated in the running process (job removed, InitAlertingService);
	// age: the harness moves last_sent_time back beyond the cool-down (no evaluation).
	Kind string    `json:"kind"`
	Vals []float64 `json:"vals,omitempty"` // target query-result value per group / timestamp
}

type alertCase struct {
	Org       int64       `json:"org"`
	N         int         `json:"n"`        // evaluation window / interval
	Interval  int         `json:"interval"` // minutes
	Cooldown  int64       `json:"cooldown"` // minutes: 0, 5, 1e6
	Shape     string      `json:"shape"`    // sum | sumas | grouped | count | metric | metric2
	Cond      int         `json:"cond"`
	Threshold float64     `json:"threshold"`
	Groups    int         `json:"groups"`
	Init      []float64   `json:"init"` // values at creation (the create handler evaluates immediately)
	Steps     []alertStep `json:"steps"`
}

func holds(cond int, v, t float64) bool {
	switch cond {
	case condAbove:
		return v > t
	case condBelow:
		return v < t
	case condEqual:
		return v == t
	case condNotEqual:
		return v != t
	}
	return false
}

// ---- generator ------------------------------------------------------------------------------

func half(t *rapid.T, lo, hi int, label string) float64 {
	return float64(rapid.IntRange(lo*2, hi*2).Draw(t, label)) / 2
}

// drawVal draws one result value that does / does not satisfy the condition, close to the threshold.
func drawVal(t *rapid.T, cond int, th float64, want bool, integral bool) float64 {
	step := 0.5
	if integral {
		step = 1
	}
	d := rapid.SampledFrom([]float64{step, step, 1, 2, 1000, 1234567}).Draw(t, "dist")
	var v float64
	switch cond {
	case condAbove:
		if want {
			v = th + d
		} else {
			v = th - rapid.SampledFrom([]float64{0, 0, step, 1, 1000}).Draw(t, "below")
		}
	case condBelow:
		if want {
			v = th - d
		} else {
			v = th + rapid.SampledFrom([]float64{0, 0, step, 1, 1000}).Draw(t, "above")
		}
	case condEqual:
		if want {
			v = th
		} else if rapid.Bool().Draw(t, "side") {
			v = th + d
		} else {
			v = th - d
		}
	case condNotEqual:
		if want {
			if rapid.Bool().Draw(t, "side") {
				v = th + d
			} else {
				v = th - d
			}
		} else {
			v = th
		}
	default: // novalue: the statement does not define it; explore zero / non-zero
		if want {
			v = 0
		} else {
			v = rapid.SampledFrom([]float64{1, -1, 0.5, th, th + 1}).Draw(t, "nz")
			if v == 0 {
				v = 1
			}
		}
	}
	return v
}

func genAlertCase(t *rapid.T) *alertCase {
	c := &alertCase{}
	c.Org = rapid.SampledFrom([]int64{0, 0, 1, 2}).Draw(t, "org")
	c.N = rapid.SampledFrom([]int{1, 2, 2, 3, 3, 4, 5}).Draw(t, "n")
	c.Interval = rapid.IntRange(1, 3).Draw(t, "interval")
	c.Cooldown = rapid.SampledFrom([]int64{0, 0, 5, 1000000}).Draw(t, "cooldown")
	c.Shape = rapid.SampledFrom([]string{"sum", "sumas", "grouped", "grouped", "count", "metric", "metric2"}).Draw(t, "shape")
	c.Cond = rapid.SampledFrom([]int{0, 0, 1, 1, 2, 3, 4}).Draw(t, "cond")
	c.Groups = 1
	switch c.Shape {
	case "grouped":
		c.Groups = rapid.IntRange(2, 3).Draw(t, "groups")
	case "metric2":
		c.Groups = 2
	}
	integral := c.Shape == "count"
	if integral {
		c.Threshold = float64(rapid.IntRange(1, 6).Draw(t, "thInt"))
		if rapid.IntRange(0, 3).Draw(t, "thHalf") == 0 {
			c.Threshold += 0.5
		}
	} else {
		c.Threshold = rapid.SampledFrom([]float64{0, 1, 5, 10.5, -3, 999.5, 1000, 100000}).Draw(t, "threshold")
	}
	nSteps := rapid.IntRange(5, pt.Scale(30, 40)).Draw(t, "nsteps")
	want := rapid.Bool().Draw(t, "want0")
	stay := rapid.SampledFrom([]int{60, 75, 85, 90}).Draw(t, "stay")
	prev := make([]float64, c.Groups)
	draw := func() []float64 {
		vals := make([]float64, c.Groups)
		sat := rapid.IntRange(0, c.Groups-1).Draw(t, "satGroup")
		for g := range vals {
			w := false
			if want {
				w = g == sat || rapid.IntRange(0, 2).Draw(t, "alsoSat") == 0
			}
			v := drawVal(t, c.Cond, c.Threshold, w, integral)
			if c.Shape == "count" {
				// a count only grows and is a non-negative integer
				if v < prev[g] {
					v = prev[g]
				}
				if v > prev[g]+4 {
					v = prev[g] + float64(rapid.IntRange(0, 2).Draw(t, "inc"))
				}
				if v < 1 {
					v = 1
				}
				v = math.Floor(v)
			}
			vals[g] = v
		}
		copy(prev, vals)
		if pct(t, "flip") >= stay {
			want = !want
		}
		return vals
	}
	// The generator follows the state the definition gives for the values drawn (never used by the oracle), so that
	// restarts / re-registrations are placed often while the alert is Firing or Pending.
	var outs []bool
	push := func(vals []float64) {
		h := false
		for _, v := range vals {
			if c.Cond == condNoValue {
				h = h || v == 0
			} else {
				h = h || holds(c.Cond, v, c.Threshold)
			}
		}
		outs = append(outs, h)
	}
	predicted := func() int {
		n := len(outs)
		if n == 0 || !outs[n-1] {
			return stNormal
		}
		if n < c.N {
			return stPending
		}
		for _, b := range outs[n-c.N:] {
			if !b {
				return stPending
			}
		}
		return stFiring
	}
	c.Init = draw()
	push(c.Init)
	for i := 0; i < nSteps; i++ {
		pEdit, pRestart, pReinit := 2, 3, 3
		switch predicted() {
		case stFiring:
			pEdit, pRestart, pReinit = 6, 9, 9
		case stPending:
			pEdit, pRestart, pReinit = 4, 6, 6
		}
		k := pct(t, "kind")
		kind := "eval"
		switch {
		case k < pEdit:
			kind = "edit"
		case k < pEdit+pRestart:
			kind = "restart"
		case k < pEdit+pRestart+pReinit:
			kind = "reinit"
		case k < pEdit+pRestart+pReinit+8 && c.Cooldown > 0:
			kind = "age"
		}
		if kind == "age" {
			c.Steps = append(c.Steps, alertStep{Kind: kind})
			continue
		}
		st := alertStep{Kind: kind, Vals: draw()}
		push(st.Vals)
		c.Steps = append(c.Steps, st)
	}
	return c
}

// ---- driver ----------------------------------------------------------------------------------

const (
	logBaseMs  = uint64(1700000000000)
	metricBase = int64(1700000000)
)

var sinkSeq int64

type alertDriver struct {
	cs      *alertCase
	o       *pt.Obs
	c       *sut.Client
	dataDir string
	sk      *sink
	path    string
	alertID string
	contact string
	cur     []float64 // current query-result value per group
	exists  []bool    // the group / timestamp has at least one event / point
	evSeq   int       // ingested events / series so far
	message string
	jobRuns int    // runs the alert's live cron job must have made (1 after a registration)
	loaded  int    // alert state stored when the live job's alert object was loaded (Inactive: created in this process)
	loadBy  string // create | edit | restart | reinit
	sinceLd string // states after the evaluations of the live job, first letters

	timedOut bool // a worker command timed out (the worker is killed then)
	abnormal bool // the last observe() found the query answering abnormally
}

func (d *alertDriver) opts() sut.Options {
	return sut.Options{DataDir: d.dataDir, Features: []string{"alertsdb"}, Orgs: []int64{0, 1, 2},
		Env: map[string]string{"VERIF_LOGLEVEL": "error"}}
}

func (d *alertDriver) start() error {
	c, err := sut.Start(d.opts())
	if err != nil {
		return pt.Inconclusivef("worker start: %v", err)
	}
	d.c = c
	return nil
}

func (d *alertDriver) wrap(what string, err error) error {
	if err == nil {
		return nil
	}
	if errors.Is(err, sut.ErrTimeout) {
		d.timedOut = true // the client kills the worker after a timeout
		return pt.Inconclusivef("%s: worker command timed out", what)
	}
	if errors.Is(err, sut.ErrWorkerDied) {
		if d.timedOut {
			return pt.Inconclusivef("%s: worker was killed after a command timeout", what)
		}
		return fmt.Errorf("%s: server process died: %s", what, pt.CrashDetail(d.c))
	}
	return fmt.Errorf("%s: %w", what, err)
}

func (d *alertDriver) isMetric() bool { return strings.HasPrefix(d.cs.Shape, "metric") }

func (d *alertDriver) queryText() string {
	switch d.cs.Shape {
	case "sum":
		return "* | stats sum(v)"
	case "sumas":
		return "* | stats sum(v) as total"
	case "grouped":
		return "* | stats sum(v) as total by g"
	case "count":
		return "* | stats count"
	}
	return ""
}

func (d *alertDriver) metricsParams() string {
	b, _ := json.Marshal(map[string]interface{}{
		"start": metricBase, "end": metricBase + 3600,
		"queries":  []map[string]interface{}{{"name": "a", "query": "sum(c20m)", "qlType": "promql"}},
		"formulas": []map[string]interface{}{{"formula": "a"}},
	})
	return string(b)
}

func fnum(v float64) string { return strconv.FormatFloat(v, 'f', -1, 64) }

// setData moves the data so that the alert query returns target[g] for group / timestamp g.
func (d *alertDriver) setData(target []float64) error {
	if d.isMetric() {
		var pts []map[string]interface{}
		for g, tv := range target {
			delta := tv - d.cur[g]
			if delta == 0 && d.exists[g] {
				continue
			}
			d.evSeq++
			d.exists[g] = true
			pts = append(pts, map[string]interface{}{"metric": "c20m", "tags": map[string]string{"k": fmt.Sprintf("s%d", d.evSeq)},
				"timestamp": metricBase + 100 + int64(g)*1800, "value": delta})
		}
		if len(pts) > 0 {
			b, _ := json.Marshal(pts)
			var r metricsPutResult
			if err := d.c.Call(&sut.Req{Op: "c20.metricsPut", Org: d.cs.Org, Body: b}, &r); err != nil {
				return d.wrap("metrics put", err)
			}
			if r.Err != "" || r.Failed != 0 || int(r.Processed) != len(pts) {
				return pt.Inconclusivef("metrics ingest not accepted: %+v", r)
			}
		}
		copy(d.cur, target)
		return nil
	}
	var sb strings.Builder
	for g, tv := range target {
		if d.cs.Shape == "count" {
			for n := int(tv - d.cur[g]); n > 0; n-- {
				d.evSeq++
				sb.WriteString(bulkLine("c20a", logBaseMs+uint64(d.evSeq), `"v":1,"g":"g0"`))
			}
			continue
		}
		delta := tv - d.cur[g]
		if delta == 0 && d.exists[g] {
			continue
		}
		d.evSeq++
		d.exists[g] = true
		sb.WriteString(bulkLine("c20a", logBaseMs+uint64(d.evSeq), fmt.Sprintf(`"v":%s,"g":"g%d"`, fnum(delta), g)))
	}
	if sb.Len() > 0 {
		br, err := d.c.Bulk(d.cs.Org, []byte(sb.String()))
		if err != nil {
			return d.wrap("bulk", err)
		}
		if br.Err != "" || strings.Contains(string(br.Response), `"errors":true`) {
			return pt.Inconclusivef("bulk not accepted: %s %s", br.Err, br.Response)
		}
		if err := d.c.Flush(); err != nil {
			return d.wrap("flush", err)
		}
	}
	copy(d.cur, target)
	return nil
}

func bulkLine(index string, ts uint64, fields string) string {
	return fmt.Sprintf("{\"index\":{\"_index\":%q}}\n{\"timestamp\":%d,%s}\n", index, ts, fields)
}

// observe runs the alert's own query and returns the result values the condition is applied to.
func (d *alertDriver) observe() ([]float64, error) {
	var vals []float64
	d.abnormal = false
	if d.isMetric() {
		var r metricsQueryResult
		if err := d.c.Call(&sut.Req{Op: "c20.metricsQuery", Org: d.cs.Org, Body: []byte(d.metricsParams())}, &r); err != nil {
			return nil, d.wrap("metrics query", err)
		}
		if r.Err != "" || r.Scalar {
			d.abnormal = true
			return nil, pt.Inconclusivef("metrics query of the alert did not answer normally: %+v", r)
		}
		if len(r.Errs) > 0 {
			// evaluateMetricsAlert applies the condition to Results whatever the query's error list says
			// (e.g. "no tags tree directory yet" for a store without rotated metrics segments); so does the harness
			d.o.Class("metrics_query_with_error_list")
		}
		for _, m := range r.Results {
			for _, v := range m {
				vals = append(vals, v)
			}
		}
		return vals, nil
	}
	sr, err := d.c.Search(sut.Query{Org: d.cs.Org, Index: "c20a", Text: d.queryText(), Start: logBaseMs, End: logBaseMs + 1000000})
	if err != nil {
		return nil, d.wrap("search", err)
	}
	if sr.Err != "" || len(sr.Errors) > 0 || sr.Nil {
		d.abnormal = true
		return nil, pt.Inconclusivef("query of the alert did not answer normally: %s", sr)
	}
	for _, b := range sr.Measure {
		if len(b.Vals) != 1 {
			return nil, pt.Inconclusivef("query of the alert returned %d measure columns", len(b.Vals))
		}
		for _, tv := range b.Vals {
			f, ok := tv.Float()
			if !ok {
				return nil, pt.Inconclusivef("non-numeric measure value %q", tv)
			}
			vals = append(vals, f)
		}
	}
	return vals, nil
}

// waitDataBack polls the alert's query until it returns want again (20 s for logs, 3 s for metrics).
func (d *alertDriver) waitDataBack(want []float64) (bool, error) {
	limit := 20 * time.Second
	if d.isMetric() {
		limit = 3 * time.Second
	}
	dl := time.Now().Add(limit)
	for {
		got, err := d.observe()
		if err != nil {
			if !d.abnormal { // anything but "the query answered with an error" (not loaded yet) ends the case
				return false, err
			}
		} else if sameMultiset(got, want) {
			return true, nil
		}
		if time.Now().After(dl) {
			return false, nil
		}
		time.Sleep(5 * time.Millisecond)
	}
}

func (d *alertDriver) resyncMetrics() error {
	var r metricsQueryResult
	if err := d.c.Call(&sut.Req{Op: "c20.metricsQuery", Org: d.cs.Org, Body: []byte(d.metricsParams())}, &r); err != nil {
		return d.wrap("metrics query", err)
	}
	if r.Err != "" || r.Scalar {
		return pt.Inconclusivef("metrics query of the alert did not answer normally: %+v", r)
	}
	for g := range d.cur {
		d.cur[g], d.exists[g] = 0, false
		ts := strconv.FormatInt(metricBase+100+int64(g)*1800, 10)
		for _, m := range r.Results {
			if v, ok := m[ts]; ok {
				d.cur[g], d.exists[g] = v, true
			}
		}
	}
	return nil
}

func sameMultiset(a, b []float64) bool {
	if len(a) != len(b) {
		return false
	}
	used := make([]bool, len(b))
outer:
	for _, x := range a {
		for j, y := range b {
			if !used[j] && x == y {
				used[j] = true
				continue outer
			}
		}
		return false
	}
	return true
}

type alertView struct {
	State    int    `json:"state"`
	NumEvals uint64 `json:"num_evaluations_count"`
	Name     string `json:"alert_name"`
	Message  string `json:"message"`
}

type historyRow struct {
	ID    uint   `json:"ID"`
	State int    `json:"alert_state"`
	Desc  string `json:"event_description"`
	User  string `json:"user_name"`
}

func (d *alertDriver) readAlert() (*alertView, error) {
	r, err := call(d.c, "alert.get", d.cs.Org, nil, map[string]string{"uv.alertID": d.alertID})
	if err != nil {
		return nil, d.wrap("alert.get", err)
	}
	var out struct {
		Alert alertView `json:"alert"`
	}
	if !r.OK() {
		return nil, fmt.Errorf("GET alert %s failed: %s", d.alertID, r)
	}
	if err := r.JSON(&out); err != nil {
		return nil, fmt.Errorf("GET alert: %v", err)
	}
	return &out.Alert, nil
}

func (d *alertDriver) readHistory() ([]historyRow, error) {
	r, err := call(d.c, "alert.history", d.cs.Org, nil, map[string]string{"uv.alertID": d.alertID, "q.sort_order": "ASC", "q.limit": "100000"})
	if err != nil {
		return nil, d.wrap("alert.history", err)
	}
	var out struct {
		Rows []historyRow `json:"alertHistory"`
	}
	if !r.OK() {
		return nil, fmt.Errorf("GET alert history failed: %s", r)
	}
	if err := r.JSON(&out); err != nil {
		return nil, fmt.Errorf("GET alert history: %v", err)
	}
	return out.Rows, nil
}

func (d *alertDriver) readNotif() (*notifSnap, error) {
	var ns notifSnap
	if err := d.c.Call(&sut.Req{Op: "c20.notif", Name: d.alertID}, &ns); err != nil {
		return nil, d.wrap("read notification row", err)
	}
	return &ns, nil
}

func (d *alertDriver) alertBody(withID bool) map[string]interface{} {
	b := map[string]interface{}{
		"alert_name": "c20 alert", "contact_id": d.contact,
		"condition": d.cs.Cond, "value": d.cs.Threshold,
		"eval_for": d.cs.N * d.cs.Interval, "eval_interval": d.cs.Interval,
		"message": d.message,
	}
	if d.isMetric() {
		b["alert_type"] = 2
		b["metricsQueryParams"] = d.metricsParams()
		b["queryParams"] = map[string]interface{}{"data_source": "Metrics"}
	} else {
		b["alert_type"] = 1
		b["queryParams"] = map[string]interface{}{"data_source": "Logs", "queryLanguage": "Splunk QL", "queryText": d.queryText(),
			"startTime": fmt.Sprint(logBaseMs), "endTime": fmt.Sprint(logBaseMs + 1000000), "index": "c20a"}
	}
	if withID {
		b["alert_id"] = d.alertID
	}
	return b
}

// waitRows waits for the first run of a job that was just registered (by is create | edit | restart | reinit); the
// job stays registered and the following "eval" steps are further runs of it. stored is the alert state in the store
// at the moment of the registration, i.e. the State of the alert object the job captured.
func (d *alertDriver) waitRows(op string, rows int, by string, stored int) error {
	var er evalResult
	ints := map[string]int64{"rows": int64(rows), "keep": 1}
	if by == "reinit" {
		ints["remove"] = 1
	}
	if err := d.c.Call(&sut.Req{Op: op, Name: d.alertID, Ints: ints}, &er); err != nil {
		return d.wrap(op, err)
	}
	if er.TimedOut {
		return pt.Inconclusivef("%s: the evaluation started by the handler did not write its history row within 40 s (rows=%d, want %d, job runs %d finished %d); log tail:\n%s",
			op, er.Rows, rows, er.Runs, er.Finished, d.c.LogTail(1500))
	}
	d.jobRuns, d.loaded, d.loadBy, d.sinceLd = 1, stored, by, ""
	if by != "create" {
		d.o.Class(fmt.Sprintf("load_%s_while_%s", by, stateName[stored]))
	}
	return nil
}

// runLive makes the registered job run once more (the evaluation a scheduled run performs).
func (d *alertDriver) runLive(what string) error {
	var rr runResult
	if err := d.c.Call(&sut.Req{Op: "c20.run", Name: d.alertID, Ints: map[string]int64{"runs": int64(d.jobRuns)}}, &rr); err != nil {
		return d.wrap(what, err)
	}
	switch {
	case rr.Jobs != 1:
		return fmt.Errorf("%s: %d cron jobs are registered for the alert after a %s, expected 1", what, rr.Jobs, d.loadBy)
	case rr.TooLate:
		return pt.Inconclusivef("%s: case ran so slowly that the job's own timer is due in %d ms", what, rr.NextMs)
	case !rr.Started:
		return pt.Inconclusivef("%s: the job's run count is %d/%d, expected %d (its own timer fired: case ran too slowly)", what, rr.Runs, rr.Finished, d.jobRuns)
	case rr.TimedOut:
		return pt.Inconclusivef("%s: the evaluation did not finish within 40 s: %+v", what, rr)
	case rr.Runs != d.jobRuns+1 || rr.Finished != d.jobRuns+1:
		return pt.Inconclusivef("%s: the job ran %d/%d times, expected %d (its own timer fired)", what, rr.Runs, rr.Finished, d.jobRuns+1)
	}
	d.jobRuns++
	if d.jobRuns > 2 {
		d.o.Class("job_ran_3_or_more_times_with_one_alert_object")
	}
	return nil
}

// ---- reference model ----------------------------------------------------------------------------

type alertModel struct {
	n            int
	outcomes     []bool
	state        int
	lastNotified int  // state carried by the last notification (Inactive: none yet)
	everSent     bool // a notification has been sent
	aged         bool // the harness moved last_sent_time beyond the cool-down since the last notification
	cooldown     int64
	sentAt       time.Time // parent wall clock of the last notification (guard only, never a verdict)
	rows         int       // history rows
	editRowAge   int       // evaluations since the last edit (-1: none)
	posts        int
}

func (m *alertModel) stateFor(outcome bool) int {
	if !outcome {
		return stNormal
	}
	seq := append(append([]bool(nil), m.outcomes...), true)
	if len(seq) < m.n {
		return stPending
	}
	for _, b := range seq[len(seq)-m.n:] {
		if !b {
			return stPending
		}
	}
	return stFiring
}

func (m *alertModel) cooldownOver() bool {
	return !m.everSent || m.cooldown == 0 || m.aged
}

func checkAlert(cs *alertCase, o *pt.Obs) (err error) {
	if os.Getenv("C20_DEBUG") != "" {
		t0 := time.Now()
		defer func() {
			if time.Since(t0) > 3*time.Second {
				b, _ := json.Marshal(cs)
				fmt.Fprintf(os.Stderr, "SLOW %v err=%v case=%s\n", time.Since(t0), err, b)
			}
		}()
	}
	sk, serr := getSink()
	if serr != nil {
		return pt.Inconclusivef("webhook sink: %v", serr)
	}
	d := &alertDriver{cs: cs, o: o, sk: sk, dataDir: pt.NewDataDir(), cur: make([]float64, cs.Groups), exists: make([]bool, cs.Groups), message: "c20 message 0"}
	d.path = fmt.Sprintf("/c20/%d/%d", os.Getpid(), atomic.AddInt64(&sinkSeq, 1))
	defer pt.CleanupDataDir(d.dataDir)
	defer sk.Forget(d.path)
	if err := d.start(); err != nil {
		return err
	}
	defer func() { d.c.Close() }()

	o.Class("shape_" + cs.Shape)
	o.Class("cond_" + condName[cs.Cond])
	o.Class(fmt.Sprintf("N_%d", cs.N))
	o.Class(fmt.Sprintf("cooldown_%d", cs.Cooldown))
	o.Class(fmt.Sprintf("org_%d", cs.Org))

	// contact point with a webhook to the sink
	r, cerr := callJSON(d.c, "contact.create", cs.Org, map[string]interface{}{
		"contact_name": "c20 sink", "webhook": []map[string]interface{}{{"webhook": sk.URL(d.path)}}}, nil)
	if cerr != nil {
		return d.wrap("contact.create", cerr)
	}
	if !r.OK() {
		return fmt.Errorf("creating a webhook contact point failed: %s", r)
	}
	r, cerr = call(d.c, "contact.all", cs.Org, nil, nil)
	if cerr != nil {
		return d.wrap("contact.all", cerr)
	}
	var cl struct {
		Contacts []struct {
			ID   string `json:"contact_id"`
			Name string `json:"contact_name"`
		} `json:"contacts"`
	}
	if err := r.JSON(&cl); err != nil || len(cl.Contacts) != 1 {
		return fmt.Errorf("contact list after one create: %s (%v)", r, err)
	}
	d.contact = cl.Contacts[0].ID

	m := &alertModel{n: cs.N, cooldown: cs.Cooldown, editRowAge: -1}

	// ---- creation: the create handler schedules the alert, which evaluates immediately -----------
	if err := d.setData(cs.Init); err != nil {
		return err
	}
	obsVals, err := d.observe()
	if err != nil {
		return err
	}
	r, cerr = callJSON(d.c, "alert.create", cs.Org, d.alertBody(false), nil)
	if cerr != nil {
		return d.wrap("alert.create", cerr)
	}
	if !r.OK() {
		return fmt.Errorf("creating the alert failed: %s\nbody: %v", r, d.alertBody(false))
	}
	r, cerr = call(d.c, "alert.all", cs.Org, nil, nil)
	if cerr != nil {
		return d.wrap("alert.all", cerr)
	}
	var al struct {
		Alerts []struct {
			ID string `json:"alert_id"`
		} `json:"alerts"`
	}
	if err := r.JSON(&al); err != nil || len(al.Alerts) != 1 {
		return fmt.Errorf("alert list after one create: %s (%v)", r, err)
	}
	d.alertID = al.Alerts[0].ID
	if err := d.waitRows("c20.waitHistory", 1, "create", stInactive); err != nil {
		return err
	}
	if err := d.afterEvaluation(m, "create", cs.Init, obsVals, 1); err != nil {
		return err
	}
	if cs.Cooldown != 0 {
		if err := d.c.Call(&sut.Req{Op: "c20.setNotif", Name: d.alertID, Ints: map[string]int64{"cooldown": cs.Cooldown}}, nil); err != nil {
			return d.wrap("set cool-down", err)
		}
	}

	visited := ""
	track := func() {
		s := stateName[m.state][:1]
		if !strings.HasSuffix(visited, s) {
			visited += s
		}
	}
	track()
	for i, st := range cs.Steps {
		what := fmt.Sprintf("step %d (%s)", i, st.Kind)
		if os.Getenv("C20_DEBUG") != "" {
			ts := time.Now()
			defer func(w string) { fmt.Fprintf(os.Stderr, "STEP %s started %v\n", w, ts.Format("05.000")) }(what)
		}
		switch st.Kind {
		case "age":
			o.Class("step_age")
			if m.everSent && m.cooldown > 0 {
				age := m.cooldown*60 + 120
				if err := d.c.Call(&sut.Req{Op: "c20.setNotif", Name: d.alertID, Ints: map[string]int64{"ageSentSec": age}}, nil); err != nil {
					return d.wrap("age last_sent_time", err)
				}
				m.aged = true
			}
			continue
		case "eval":
			if err := d.setData(st.Vals); err != nil {
				return err
			}
			if obsVals, err = d.observe(); err != nil {
				return err
			}
			if err := d.runLive(what); err != nil {
				return err
			}
			if err := d.afterEvaluation(m, what, st.Vals, obsVals, 1); err != nil {
				return err
			}
		case "edit":
			o.Class("step_edit")
			if err := d.setData(st.Vals); err != nil {
				return err
			}
			if obsVals, err = d.observe(); err != nil {
				return err
			}
			d.message = fmt.Sprintf("c20 message %d", i+1)
			r, cerr := callJSON(d.c, "alert.update", cs.Org, d.alertBody(true), nil)
			if cerr != nil {
				return d.wrap(what, cerr)
			}
			if !r.OK() {
				return fmt.Errorf("%s: updating the alert message failed: %s", what, r)
			}
			// the update handler writes a "Config Modified" history row and re-schedules ⇒ one evaluation
			if err := d.waitRows("c20.waitHistory", m.rows+2, "edit", m.state); err != nil {
				return err
			}
			m.editRowAge = 0
			if err := d.afterEvaluation(m, what, st.Vals, obsVals, 2); err != nil {
				return err
			}
			av, err := d.readAlert()
			if err != nil {
				return err
			}
			if av.Message != d.message {
				return fmt.Errorf("%s: alert message after update is %q, written %q", what, av.Message, d.message)
			}
		case "restart":
			o.Class("step_restart")
			d.c.Close()
			if err := d.start(); err != nil {
				return err
			}
			// The new process loads segment metadata in the background (initSyncSegMetaForAllIds): wait until the
			// alert's query sees again what it saw before the restart, so that the harness' reading of the query
			// result and the evaluation cannot fall on different sides of that load.
			back, err := d.waitDataBack(obsVals)
			if err != nil {
				return err
			}
			if !back {
				if !d.isMetric() {
					return pt.Inconclusivef("%s: the alert's query does not return the pre-restart result %v within 20 s after the restart (durability is another property)", what, obsVals)
				}
				// what survives a restart of the metrics store is another property's business (C08/C10):
				// continue from what the alert query sees now
				o.Class("metrics_changed_by_restart")
				if err := d.resyncMetrics(); err != nil {
					return err
				}
			}
			if err := d.setData(st.Vals); err != nil {
				return err
			}
			if obsVals, err = d.observe(); err != nil {
				return err
			}
			if err := d.waitRows("c20.initAlerting", m.rows+1, "restart", m.state); err != nil {
				return err
			}
			if err := d.afterEvaluation(m, what, st.Vals, obsVals, 1); err != nil {
				return err
			}
		case "reinit":
			o.Class("step_reinit")
			if err := d.setData(st.Vals); err != nil {
				return err
			}
			if obsVals, err = d.observe(); err != nil {
				return err
			}
			if err := d.waitRows("c20.initAlerting", m.rows+1, "reinit", m.state); err != nil {
				return err
			}
			if err := d.afterEvaluation(m, what, st.Vals, obsVals, 1); err != nil {
				return err
			}
		default:
			return fmt.Errorf("bad step kind %q", st.Kind)
		}
		track()
	}
	switch {
	case strings.Contains(visited, "PFN"):
		o.Class("path_pending_firing_normal")
	case strings.Contains(visited, "F"):
		o.Class("path_reached_firing")
	case strings.Contains(visited, "P"):
		o.Class("path_reached_pending_only")
	default:
		o.Class("path_stayed_normal")
	}
	if strings.Count(visited, "F") >= 2 {
		o.Class("path_firing_twice_or_more")
	}
	o.Count("evaluations", int64(len(m.outcomes)))
	o.Count("notifications", int64(m.posts))
	if cs.N >= 2 && strings.Contains(visited, "PFN") {
		o.NonTrivial()
	}
	return nil
}

// afterEvaluation compares everything observable after one evaluation with the model and advances the model.
// newRows is the number of history rows the step must have added (2 for an edit: config row + evaluation).
func (d *alertDriver) afterEvaluation(m *alertModel, what string, target, obsVals []float64, newRows int) error {
	cs, o := d.cs, d.o
	if !sameMultiset(target, obsVals) {
		// the query engine answered something else than the harness arranged: not this property's business,
		// the condition is defined over the actual query result.
		o.Class("query_result_differs_from_arranged")
		if os.Getenv("C20_DEBUG") != "" {
			fmt.Fprintf(os.Stderr, "DIFFERS %s shape=%s target=%v observed=%v\n", what, cs.Shape, target, obsVals)
		}
	}
	// which outcomes does the statement allow for these result values?
	var allowed []bool
	if cs.Cond == condNoValue {
		// "has no value" is not a threshold comparison; the statement leaves it open. Only the evident part is
		// asserted: when every result value is a non-zero number the condition cannot hold.
		nonzero := len(obsVals) > 0
		for _, v := range obsVals {
			if v == 0 {
				nonzero = false
			}
		}
		if nonzero {
			allowed = []bool{false}
		} else {
			allowed = []bool{false, true}
			o.Class("outcome_dontcare_novalue")
		}
	} else {
		h := false
		for _, v := range obsVals {
			if holds(cs.Cond, v, cs.Threshold) {
				h = true
			}
			if v == cs.Threshold {
				o.Class("value_equals_threshold")
			}
		}
		allowed = []bool{h}
	}

	av, err := d.readAlert()
	if err != nil {
		return err
	}
	rows, err := d.readHistory()
	if err != nil {
		return err
	}
	ns, err := d.readNotif()
	if err != nil {
		return err
	}
	posts := d.sk.Posts(d.path)
	// the alert has exactly one cron job, which has made exactly the runs the harness waited for: a run started by
	// the job's own timer (case slower than the evaluation interval) is not part of the generated history
	var ji jobInfo
	if err := d.c.Call(&sut.Req{Op: "c20.job", Name: d.alertID}, &ji); err != nil {
		return d.wrap("job state", err)
	}
	if ji.Jobs != 1 {
		return fmt.Errorf("%s: %d cron jobs are registered for the alert after a %s, expected 1", what, ji.Jobs, d.loadBy)
	}
	if ji.Runs != d.jobRuns || ji.Finished != d.jobRuns {
		return pt.Inconclusivef("%s: the job ran %d/%d times, expected %d (its own timer fired: case ran too slowly)", what, ji.Runs, ji.Finished, d.jobRuns)
	}

	inEditWindow := m.editRowAge >= 0 && m.editRowAge < m.n-1
	// pick the outcome consistent with the observed state
	var outcome bool
	var expState []int
	found := false
	var wantStates []string
	for _, oc := range allowed {
		exp := []int{m.stateFor(oc)}
		if inEditWindow && exp[0] == stFiring {
			// A configuration edit writes a history row of its own; whether the evaluations before an edit still
			// count towards the window is not fixed by the statement ⇒ Pending is accepted instead of Firing for
			// the N-1 evaluations after an edit.
			exp = append(exp, stPending)
		}
		for _, e := range exp {
			wantStates = append(wantStates, stateName[e])
			if e == av.State && !found {
				found, outcome, expState = true, oc, exp
			}
		}
	}
	desc := fmt.Sprintf("%s: condition %s %v, N=%d, query result %v, outcomes so far %v", what, condName[cs.Cond], cs.Threshold, m.n, obsVals, fmtOutcomes(m.outcomes))
	if !found {
		return fmt.Errorf("%s\n  alert state after the evaluation is %s, the definition gives %v", desc, stateName[av.State], wantStates)
	}
	_ = expState
	if inEditWindow && m.stateFor(outcome) == stFiring && av.State == stPending {
		o.Class("edit_resets_window")
	}
	st := av.State

	// history: exactly newRows new rows, the last one describes this evaluation
	if len(rows) != m.rows+newRows {
		return fmt.Errorf("%s\n  history has %d rows, expected %d (+%d)", desc, len(rows), m.rows+newRows, newRows)
	}
	last := rows[len(rows)-1]
	if last.State != st || last.Desc != stateDesc[st] || last.User != "System Generated" {
		return fmt.Errorf("%s\n  last history row is %+v, expected state %s / %q / System Generated", desc, last, stateName[st], stateDesc[st])
	}
	for i := 1; i < len(rows); i++ {
		if rows[i].ID <= rows[i-1].ID {
			return fmt.Errorf("%s\n  history rows are not returned in creation order: %+v", desc, rows)
		}
	}

	// notifications
	newPosts := posts[m.posts:]
	over := m.cooldownOver()
	if m.cooldown == 5 && m.everSent && !m.aged && time.Since(m.sentAt) > 2*time.Minute {
		return pt.Inconclusivef("case ran too slowly for the five-minute cool-down to be certainly pending")
	}
	must, mustNot := false, false
	zone := ""
	switch st {
	case stPending:
		mustNot, zone = true, "pending"
	case stFiring:
		switch {
		case over:
			must = true
			if m.state == stFiring {
				zone = "repeat_after_cooldown"
			} else {
				zone = "enter_firing"
			}
		case m.state == stFiring:
			mustNot, zone = true, "repeat_within_cooldown"
		default:
			zone = "dontcare_reenter_firing_within_cooldown"
		}
	case stNormal:
		switch {
		case m.lastNotified != stFiring:
			mustNot, zone = true, "normal_nothing_to_resolve"
		case over:
			must, zone = true, "return_to_normal"
		default:
			zone = "dontcare_return_to_normal_within_cooldown"
		}
	}
	o.Class("notify_" + zone)
	if len(newPosts) > 1 {
		return fmt.Errorf("%s\n  %d webhook posts for one evaluation: %+v", desc, len(newPosts), newPosts)
	}
	sent := len(newPosts) == 1
	if must && !sent {
		return fmt.Errorf("%s\n  state %s (previous %s, last notified %s, cool-down %d min over=%v): a notification is due (%s) but the webhook received none",
			desc, stateName[st], stateName[m.state], stateName[m.lastNotified], m.cooldown, over, zone)
	}
	if mustNot && sent {
		return fmt.Errorf("%s\n  state %s (previous %s, last notified %s, cool-down %d min over=%v): no notification is due (%s) but the webhook received %+v",
			desc, stateName[st], stateName[m.state], stateName[m.lastNotified], m.cooldown, over, zone, newPosts)
	}
	if sent {
		wantStatus := map[int]string{stFiring: "firing", stNormal: "normal"}[st]
		if newPosts[0].Status != wantStatus {
			return fmt.Errorf("%s\n  webhook post says status %q, alert state is %s", desc, newPosts[0].Status, stateName[st])
		}
		if ns.LastSentZero || ns.LastState != st {
			return fmt.Errorf("%s\n  a notification was posted but the notification row says last_alert_state=%s last_sent zero=%v", desc, stateName[ns.LastState], ns.LastSentZero)
		}
		m.everSent, m.aged, m.lastNotified, m.sentAt = true, false, st, time.Now()
	} else {
		if ns.LastState != m.lastNotified || ns.LastSentZero != !m.everSent {
			return fmt.Errorf("%s\n  no notification was posted but the notification row changed: last_alert_state=%s (was %s) last_sent zero=%v",
				desc, stateName[ns.LastState], stateName[m.lastNotified], ns.LastSentZero)
		}
	}
	m.posts = len(posts)
	m.outcomes = append(m.outcomes, outcome)
	m.state = st
	// classes: what the live job's alert object was loaded as, and what the job has been through since
	d.sinceLd += stateName[st][:1]
	if d.loadBy != "create" && d.jobRuns >= 2 {
		nq := "N1"
		if m.n >= 2 {
			nq = "Nge2"
		}
		o.Class(fmt.Sprintf("job_loaded_while_%s_ran_again_%s", stateName[d.loaded], nq))
		if k := len(d.sinceLd); k >= 2 && d.sinceLd[k-2] == 'N' && st != stNormal {
			// the evaluation the statement's window decides: first match after a Normal, by a job whose alert object
			// still carries the state stored at load time
			o.Class(fmt.Sprintf("job_loaded_while_%s_normal_then_match_%s", stateName[d.loaded], nq))
			o.Class(fmt.Sprintf("job_loaded_by_%s_while_%s_normal_then_match", d.loadBy, stateName[d.loaded]))
		}
	}
	m.rows = len(rows)
	if m.editRowAge >= 0 {
		m.editRowAge++
	}
	return nil
}

func fmtOutcomes(b []bool) string {
	var sb strings.Builder
	for _, x := range b {
		if x {
			sb.WriteByte('T')
		} else {
			sb.WriteByte('f')
		}
	}
	if len(b) > 12 {
		return "…" + sb.String()[len(b)-12:]
	}
	return sb.String()
}

func TestC20Alert(t *testing.T) { pt.RunProp(t, "C20", genAlertCase, checkAlert) }
