package c20

// alerts + contact points as a keyed store (alertsHandler CRUD handlers on the sqlite DB): key = server-assigned id.

import (
	"fmt"
	"os"
	"sort"

	"pgregory.net/rapid"

	"verifharness/pt"
	"verifharness/sut"
)

func genAlertStoreOp(t *rapid.T, names []string, early bool) storeOp {
	k := pct(t, "alertOp")
	if early {
		k = rapid.SampledFrom([]int{0, 40, 40}).Draw(t, "earlyOp") // contact.create | alert.create
	}
	ref := rapid.IntRange(0, 9).Draw(t, "ref")
	switch {
	case k < 18:
		return storeOp{Op: "contact.create", Name: pick(t, names, "name"), I: rapid.IntRange(0, 7).Draw(t, "shape"), Val: rapid.SampledFrom(textVals).Draw(t, "pager")}
	case k < 30:
		return storeOp{Op: "contact.update", Ref: ref, Name: pick(t, names, "name"), I: rapid.IntRange(0, 7).Draw(t, "shape"), Val: rapid.SampledFrom(textVals).Draw(t, "pager")}
	case k < 38:
		return storeOp{Op: "contact.delete", Ref: ref}
	case k < 62:
		return genAlertFields(t, storeOp{Op: "alert.create", Name: pick(t, names, "name"), Ref2: rapid.IntRange(0, 9).Draw(t, "contact")})
	case k < 86:
		return genAlertFields(t, storeOp{Op: "alert.update", Ref: ref, Name: pick(t, names, "name"), Ref2: rapid.IntRange(0, 9).Draw(t, "contact")})
	default:
		return storeOp{Op: "alert.delete", Ref: ref}
	}
}

var labelNames = []string{"env", "team", "Env", "sev"}

func genAlertFields(t *rapid.T, op storeOp) storeOp {
	op.F = map[string]string{
		"message":   rapid.SampledFrom(textVals).Draw(t, "message"),
		"queryText": rapid.SampledFrom([]string{"* | stats count", "* | stats sum(v) as s", "level=error | stats count by host", "* | stats avg(v) as \"ü 名\""}).Draw(t, "query"),
		"index":     rapid.SampledFrom([]string{"c20b", "*"}).Draw(t, "index"),
		"startTime": rapid.SampledFrom([]string{"now-5m", "now-1h", "1700000000000"}).Draw(t, "start"),
		"cond":      fmt.Sprint(rapid.IntRange(0, 4).Draw(t, "cond")),
		"value":     rapid.SampledFrom([]string{"0", "1", "10.5", "-3", "100000"}).Draw(t, "value"),
		"interval":  fmt.Sprint(rapid.IntRange(1, 5).Draw(t, "interval")),
		"n":         fmt.Sprint(rapid.IntRange(1, 4).Draw(t, "n")),
	}
	nl := rapid.IntRange(0, 2).Draw(t, "nLabels")
	for i := 0; i < nl; i++ {
		op.F["label."+rapid.SampledFrom(labelNames).Draw(t, "ln")] = rapid.SampledFrom([]string{"prod", "dev", "", "ü"}).Draw(t, "lv")
	}
	return op
}

type contactModel struct {
	Name    string
	Emails  []string
	Slack   []string // channel|token
	Webhook []string // url|headers
	Pager   string
	Org     int64
}

type alertStoreModel struct {
	Name      string
	Contact   string
	Labels    map[string]string
	Query     map[string]string
	Cond      int
	Value     float64
	EvalFor   uint64
	Interval  uint64
	Message   string
	Org       int64
	AlertType int
}

type alertStore struct {
	contacts   map[string]*contactModel
	alerts     map[string]*alertStoreModel
	contactIDs []objRef
	alertIDs   []objRef
	prepared   map[int64]bool
	labelVals  map[string]map[string]bool // label name → values written by any alert create/update of the case
	knownNoted bool
}

func newAlertStore() *alertStore {
	return &alertStore{contacts: map[string]*contactModel{}, alerts: map[string]*alertStoreModel{}, prepared: map[int64]bool{},
		labelVals: map[string]map[string]bool{}}
}

func (s *alertStore) restarted(d *storeDriver) {}

func contactBody(op *storeOp, id string) (map[string]interface{}, *contactModel) {
	m := &contactModel{Name: op.Name, Pager: op.Val, Emails: []string{}, Slack: []string{}, Webhook: []string{}}
	// like the UI, every request carries the complete contact: empty lists are sent as empty lists
	b := map[string]interface{}{"contact_name": op.Name, "pager_duty": op.Val, "slack": []interface{}{}, "webhook": []interface{}{}}
	if id != "" {
		b["contact_id"] = id
	}
	if op.I&1 != 0 {
		var sl []map[string]string
		for i := 0; i <= op.I/4; i++ {
			ch, tok := fmt.Sprintf("C%d%s", i, op.Name), fmt.Sprintf("xoxb-%d", op.I)
			sl = append(sl, map[string]string{"channel_id": ch, "slack_token": tok})
			m.Slack = append(m.Slack, ch+"|"+tok)
		}
		b["slack"] = sl
	}
	if op.I&2 != 0 {
		var wh []map[string]interface{}
		for i := 0; i <= op.I/4; i++ {
			url := fmt.Sprintf("http://127.0.0.1:1/hook/%d/%d", op.I, i)
			hd := map[string]string{"X-K": op.Val}
			wh = append(wh, map[string]interface{}{"webhook": url, "headers": hd})
			m.Webhook = append(m.Webhook, url+"|"+canon(hd))
		}
		b["webhook"] = wh
	}
	sort.Strings(m.Slack)
	sort.Strings(m.Webhook)
	return b, m
}

type contactView struct {
	ID    string   `json:"contact_id"`
	Name  string   `json:"contact_name"`
	Email []string `json:"email"`
	Slack []struct {
		Ch  string `json:"channel_id"`
		Tok string `json:"slack_token"`
	} `json:"slack"`
	Pager   string `json:"pager_duty"`
	Webhook []struct {
		URL     string            `json:"webhook"`
		Headers map[string]string `json:"headers"`
	} `json:"webhook"`
	Org int64 `json:"org_id"`
}

func (v *contactView) model() *contactModel {
	m := &contactModel{Name: v.Name, Pager: v.Pager, Org: v.Org, Emails: []string{}, Slack: []string{}, Webhook: []string{}}
	m.Emails = append(m.Emails, v.Email...)
	for _, s := range v.Slack {
		m.Slack = append(m.Slack, s.Ch+"|"+s.Tok)
	}
	for _, w := range v.Webhook {
		h := w.Headers
		if h == nil {
			h = map[string]string{}
		}
		m.Webhook = append(m.Webhook, w.URL+"|"+canon(h))
	}
	sort.Strings(m.Slack)
	sort.Strings(m.Webhook)
	return m
}

func (s *alertStore) listContacts(d *storeDriver, t int64) (map[string]*contactView, error) {
	r, err := d.call("contact.all", t, nil, nil)
	if err != nil {
		return nil, err
	}
	if !r.OK() {
		return nil, d.violation("listing contact points of tenant %d failed: %s", t, r)
	}
	var out struct {
		Contacts []*contactView `json:"contacts"`
	}
	if err := r.JSON(&out); err != nil {
		return nil, d.violation("contact list of tenant %d unreadable: %v", t, err)
	}
	m := map[string]*contactView{}
	for _, c := range out.Contacts {
		if m[c.ID] != nil {
			return nil, d.violation("contact list of tenant %d contains id %s twice", t, c.ID)
		}
		m[c.ID] = c
	}
	return m, nil
}

type alertViewFull struct {
	ID        string `json:"alert_id"`
	Name      string `json:"alert_name"`
	AlertType int    `json:"alert_type"`
	Contact   string `json:"contact_id"`
	Labels    []struct {
		N string `json:"label_name"`
		V string `json:"label_value"`
	} `json:"labels"`
	Query    map[string]string `json:"queryParams"`
	Cond     int               `json:"condition"`
	Value    float64           `json:"value"`
	EvalFor  uint64            `json:"eval_for"`
	Interval uint64            `json:"eval_interval"`
	Message  string            `json:"message"`
	Org      int64             `json:"org_id"`
}

func (v *alertViewFull) model() *alertStoreModel {
	m := &alertStoreModel{Name: v.Name, Contact: v.Contact, Labels: map[string]string{}, Query: v.Query, Cond: v.Cond, Value: v.Value,
		EvalFor: v.EvalFor, Interval: v.Interval, Message: v.Message, Org: v.Org, AlertType: v.AlertType}
	for _, l := range v.Labels {
		m.Labels[l.N] = l.V
	}
	return m
}

func (s *alertStore) listAlerts(d *storeDriver, t int64) (map[string]*alertViewFull, error) {
	r, err := d.call("alert.all", t, nil, nil)
	if err != nil {
		return nil, err
	}
	if !r.OK() {
		return nil, d.violation("listing alerts of tenant %d failed: %s", t, r)
	}
	var out struct {
		Alerts []*alertViewFull `json:"alerts"`
	}
	if err := r.JSON(&out); err != nil {
		return nil, d.violation("alert list of tenant %d unreadable: %v", t, err)
	}
	m := map[string]*alertViewFull{}
	for _, a := range out.Alerts {
		if m[a.ID] != nil {
			return nil, d.violation("alert list of tenant %d contains id %s twice", t, a.ID)
		}
		m[a.ID] = a
	}
	return m, nil
}

func alertBodyOf(op *storeOp, contactID string, id string) (map[string]interface{}, *alertStoreModel) {
	var cond int
	var val float64
	var interval, n uint64
	fmt.Sscan(op.F["cond"], &cond)
	fmt.Sscan(op.F["value"], &val)
	fmt.Sscan(op.F["interval"], &interval)
	fmt.Sscan(op.F["n"], &n)
	q := map[string]string{"data_source": "Logs", "queryLanguage": "Splunk QL", "queryText": op.F["queryText"],
		"startTime": op.F["startTime"], "endTime": "now", "index": op.F["index"], "queryMode": "Builder"}
	labels := []map[string]string{}
	lm := map[string]string{}
	for k, v := range op.F {
		if len(k) > 6 && k[:6] == "label." {
			lm[k[6:]] = v
		}
	}
	lk := make([]string, 0, len(lm))
	for k := range lm {
		lk = append(lk, k)
	}
	sort.Strings(lk)
	for _, k := range lk {
		labels = append(labels, map[string]string{"label_name": k, "label_value": lm[k]})
	}
	b := map[string]interface{}{"alert_name": op.Name, "alert_type": 1, "contact_id": contactID, "labels": labels, "queryParams": q,
		"condition": cond, "value": val, "eval_for": n * interval, "eval_interval": interval, "message": op.F["message"]}
	if id != "" {
		b["alert_id"] = id
	}
	m := &alertStoreModel{Name: op.Name, Contact: contactID, Labels: lm, Query: q, Cond: cond, Value: val, EvalFor: n * interval,
		Interval: interval, Message: op.F["message"], AlertType: 1}
	return b, m
}

// quiesce waits for the evaluation a create/update handler starts immediately (it adds one history row) and
// removes the cron job, so that no background evaluation runs while the store is exercised.
func (s *alertStore) quiesce(d *storeDriver, id string, minRows int) error {
	var er evalResult
	if err := d.c.Call(&sut.Req{Op: "c20.quiesce", Name: id, Ints: map[string]int64{"min": int64(minRows)}}, &er); err != nil {
		return d.wrap(err)
	}
	if er.TimedOut {
		d.o.Class("alert_background_evaluation_wrote_no_row")
	}
	return nil
}

func (s *alertStore) historyRows(d *storeDriver, id string) int {
	var er evalResult
	if err := d.c.Call(&sut.Req{Op: "c20.historyCount", Name: id}, &er); err != nil {
		return 0
	}
	return er.Rows
}

func (s *alertStore) apply(d *storeDriver, op *storeOp) error {
	t := op.T
	switch op.Op {
	case "contact.create":
		before, err := s.listContacts(d, t)
		if err != nil {
			return err
		}
		body, m := contactBody(op, "")
		r, err := d.callJSON("contact.create", t, body, nil)
		if err != nil {
			return err
		}
		if r.OK() {
			after, err := s.listContacts(d, t)
			if err != nil {
				return err
			}
			var newIDs []string
			for id := range after {
				if before[id] == nil {
					newIDs = append(newIDs, id)
				}
			}
			if len(newIDs) != 1 {
				holder := "none"
				for id, c := range s.contacts {
					if c.Name == op.Name {
						holder = fmt.Sprintf("contact %s of tenant %d", id, c.Org)
					}
				}
				return d.violation("contact point create (name %s) was acknowledged (%s) but the tenant's contact list gained %d entries; existing holder of the name: %s",
					short(op.Name), r, len(newIDs), holder)
			}
			m.Org = t
			s.contacts[newIDs[0]] = m
			s.contactIDs = append(s.contactIDs, objRef{newIDs[0], t})
			d.o.Class("contact_created")
		} else {
			d.o.Class("contact_create_rejected")
		}
	case "contact.update":
		id, _, _ := pickRef(s.contactIDs, t, op.Ref, false)
		body, m := contactBody(op, id)
		old := s.contacts[id]
		if old != nil {
			body["org_id"] = old.Org
		}
		r, err := d.callJSON("contact.update", t, body, nil)
		if err != nil {
			return err
		}
		if r.OK() {
			if old == nil {
				return d.violation("update of contact point %s, which does not exist, was acknowledged: %s", id, r)
			}
			if old.Name != m.Name {
				d.noteRenameOrDelete()
				d.o.Class("contact_renamed")
			}
			m.Org = old.Org
			s.contacts[id] = m
			d.o.Class("contact_updated")
		}
	case "contact.delete":
		id, _, _ := pickRef(s.contactIDs, t, op.Ref, false)
		r, err := d.callJSON("contact.delete", t, map[string]string{"contact_id": id}, nil)
		if err != nil {
			return err
		}
		if r.OK() {
			if s.contacts[id] == nil {
				return d.violation("delete of contact point %s, which does not exist, was acknowledged: %s", id, r)
			}
			delete(s.contacts, id)
			d.noteRenameOrDelete()
			d.o.Class("contact_deleted")
		}
	case "alert.create":
		if !s.prepared[t] {
			// the index the alerts query must exist, otherwise the evaluation started by the handler has nothing to search
			if _, err := d.c.Bulk(t, []byte(bulkLine("c20b", logBaseMs+1, `"v":1`))); err != nil {
				return d.wrap(err)
			}
			if err := d.c.Flush(); err != nil {
				return d.wrap(err)
			}
			s.prepared[t] = true
		}
		cid := s.contactFor(t, op.Ref2)
		before, err := s.listAlerts(d, t)
		if err != nil {
			return err
		}
		body, m := alertBodyOf(op, cid, "")
		s.noteLabels(m)
		r, err := d.callJSON("alert.create", t, body, nil)
		if err != nil {
			return err
		}
		if r.OK() {
			after, err := s.listAlerts(d, t)
			if err != nil {
				return err
			}
			var newIDs []string
			for id := range after {
				if before[id] == nil {
					newIDs = append(newIDs, id)
				}
			}
			if len(newIDs) != 1 {
				return d.violation("alert create (name %s) was acknowledged (%s) but the tenant's alert list gained %d entries", short(op.Name), r, len(newIDs))
			}
			m.Org = t
			s.alerts[newIDs[0]] = m
			s.alertIDs = append(s.alertIDs, objRef{newIDs[0], t})
			d.o.Class("alert_created")
			if err := s.quiesce(d, newIDs[0], 1); err != nil {
				return err
			}
		} else {
			d.o.Class("alert_create_rejected")
			if os.Getenv("C20_DEBUG") != "" {
				fmt.Fprintf(os.Stderr, "ALERT-REJECT %s\n", r)
			}
		}
	case "alert.update":
		id, _, _ := pickRef(s.alertIDs, t, op.Ref, false)
		cid := s.contactFor(t, op.Ref2)
		body, m := alertBodyOf(op, cid, id)
		s.noteLabels(m)
		rowsBefore := 0
		if s.alerts[id] != nil {
			rowsBefore = s.historyRows(d, id)
		}
		r, err := d.callJSON("alert.update", t, body, nil)
		if err != nil {
			return err
		}
		if r.OK() {
			old := s.alerts[id]
			if old == nil {
				return d.violation("update of alert %s, which does not exist, was acknowledged: %s", id, r)
			}
			if old.Name != m.Name {
				d.noteRenameOrDelete()
				d.o.Class("alert_renamed")
			}
			m.Org = old.Org
			s.alerts[id] = m
			d.o.Class("alert_updated")
			if err := s.quiesce(d, id, rowsBefore+2); err != nil {
				return err
			}
		} else if s.alerts[id] != nil {
			// a rejected update may already have re-scheduled nothing; make sure no job is left behind
			d.o.Class("alert_update_rejected")
		}
	case "alert.delete":
		id, _, _ := pickRef(s.alertIDs, t, op.Ref, false)
		r, err := d.callJSON("alert.delete", t, map[string]string{"alert_id": id}, nil)
		if err != nil {
			return err
		}
		if r.OK() {
			if s.alerts[id] == nil {
				return d.violation("delete of alert %s, which does not exist, was acknowledged: %s", id, r)
			}
			delete(s.alerts, id)
			d.noteRenameOrDelete()
			d.o.Class("alert_deleted")
		}
	}
	return nil
}

// contactFor resolves the contact reference of an alert: a contact point of the tenant, else of any tenant
// (alerts are not restricted to contact points of their tenant).
func (s *alertStore) contactFor(t int64, ref int) string {
	if id, _, ok := pickRef(s.contactIDs, t, ref, false); ok {
		return id
	}
	id, _, _ := pickRef(s.contactIDs, t, ref, true)
	return id
}

func (s *alertStore) noteLabels(m *alertStoreModel) {
	for k, v := range m.Labels {
		if s.labelVals[k] == nil {
			s.labelVals[k] = map[string]bool{}
		}
		s.labelVals[k][v] = true
	}
}

// sameAlert compares a read alert with the model. Known finding C20-alert-label-values-shared: label values are
// stored once per label name for the whole database; when a label name has been written with two different values
// in the case, the value read back is tolerated (the label names are still compared).
func (s *alertStore) sameAlert(d *storeDriver, got, want *alertStoreModel) bool {
	if canon(got) == canon(want) {
		return true
	}
	if !pt.KnownFindingOpen("C20-alert-label-values-shared") {
		return false
	}
	g, w := *got, *want
	g.Labels, w.Labels = map[string]string{}, map[string]string{}
	tolerated := false
	for k, v := range got.Labels {
		if len(s.labelVals[k]) >= 2 {
			v, tolerated = "*", true
		}
		g.Labels[k] = v
	}
	for k, v := range want.Labels {
		if len(s.labelVals[k]) >= 2 {
			v = "*"
		}
		w.Labels[k] = v
	}
	if canon(&g) == canon(&w) {
		if tolerated && !s.knownNoted {
			s.knownNoted = true
			d.o.Known("C20-alert-label-values-shared")
		}
		return true
	}
	return false
}

func (s *alertStore) verify(d *storeDriver) error {
	for _, t := range tenants {
		cl, err := s.listContacts(d, t)
		if err != nil {
			return err
		}
		for id, c := range s.contacts {
			if c.Org != t {
				continue
			}
			got := cl[id]
			if got == nil {
				return d.violation("tenant %d: contact point %s (%s) is missing from the list", t, id, short(c.Name))
			}
			if canon(got.model()) != canon(c) {
				return d.violation("tenant %d: contact point %s reads %.600s, last written %.600s", t, id, brief(got.model()), brief(c))
			}
		}
		for id, got := range cl {
			if c := s.contacts[id]; c == nil || c.Org != t {
				return d.violation("tenant %d: the contact list contains %s (%s) which is not stored for this tenant", t, id, short(got.Name))
			}
		}
		al, err := s.listAlerts(d, t)
		if err != nil {
			return err
		}
		for id, a := range s.alerts {
			if a.Org != t {
				continue
			}
			got := al[id]
			if got == nil {
				return d.violation("tenant %d: alert %s (%s) is missing from the list", t, id, short(a.Name))
			}
			if !s.sameAlert(d, got.model(), a) {
				return d.violation("tenant %d: alert %s reads %.700s, last written %.700s", t, id, brief(got.model()), brief(a))
			}
			r, err := d.call("alert.get", t, nil, map[string]string{"uv.alertID": id})
			if err != nil {
				return err
			}
			var one struct {
				Alert *alertViewFull `json:"alert"`
			}
			if !r.OK() || r.JSON(&one) != nil || one.Alert == nil {
				return d.violation("tenant %d: reading alert %s failed: %s", t, id, r)
			}
			if !s.sameAlert(d, one.Alert.model(), a) {
				return d.violation("tenant %d: alert %s reads (by id) %.700s, last written %.700s", t, id, brief(one.Alert.model()), brief(a))
			}
		}
		for id, got := range al {
			if a := s.alerts[id]; a == nil || a.Org != t {
				return d.violation("tenant %d: the alert list contains %s (%s) which is not stored for this tenant", t, id, short(got.Name))
			}
		}
	}
	return nil
}
