package c20

// index aliases (pkg/es/writer alias handlers + pkg/virtualtable): a relation (index, alias) per tenant.

import (
	"fmt"
	"sort"

	"pgregory.net/rapid"
)

var aliasIndexPool = []string{"ia", "ib", "ic-2024.01"}

func genAliasOp(t *rapid.T, names []string, early bool) storeOp {
	k := pct(t, "aliasOp")
	if early {
		k = rapid.SampledFrom([]int{0, 20, 50}).Draw(t, "earlyOp") // index.create | alias.put | alias.add
	}
	idx := rapid.SampledFrom(aliasIndexPool).Draw(t, "index")
	switch {
	case k < 15:
		return storeOp{Op: "index.create", Name: idx}
	case k < 45:
		return storeOp{Op: "alias.put", Name: idx, Name2: pick(t, names, "alias")}
	case k < 70:
		return storeOp{Op: "alias.add", Name: idx, Name2: pick(t, names, "alias")}
	default:
		return storeOp{Op: "alias.remove", Name: idx, Name2: pick(t, names, "alias")}
	}
}

type aliasStore struct {
	rel     map[int64]map[string]map[string]bool // tenant → index → aliases
	indices map[int64]map[string]bool            // existing indices
	aliases map[string]bool                      // every alias name ever used (read universe)
	seq     int
}

func newAliasStore() *aliasStore {
	s := &aliasStore{rel: map[int64]map[string]map[string]bool{}, indices: map[int64]map[string]bool{}, aliases: map[string]bool{}}
	for _, t := range tenants {
		s.rel[t] = map[string]map[string]bool{}
		s.indices[t] = map[string]bool{}
	}
	return s
}

func (s *aliasStore) restarted(d *storeDriver) {}

func (s *aliasStore) add(t int64, idx, al string) {
	if s.rel[t][idx] == nil {
		s.rel[t][idx] = map[string]bool{}
	}
	s.rel[t][idx][al] = true
}

func (s *aliasStore) apply(d *storeDriver, op *storeOp) error {
	t := op.T
	if op.Name2 != "" {
		s.aliases[op.Name2] = true
	}
	switch op.Op {
	case "index.create":
		s.seq++
		br, err := d.c.Bulk(t, []byte(bulkLine(op.Name, logBaseMs+uint64(s.seq), `"v":1`)))
		if err != nil {
			return d.wrap(err)
		}
		if br.Err == "" && br.Processed == 1 {
			s.indices[t][op.Name] = true
		}
	case "alias.put":
		r, err := d.call("alias.put", t, nil, map[string]string{"uv.indexName": op.Name, "uv.aliasName": op.Name2})
		if err != nil {
			return err
		}
		if r.OK() {
			s.add(t, op.Name, op.Name2)
			d.o.Class("alias_put")
		} else {
			d.o.Class("alias_put_rejected")
		}
	case "alias.add":
		r, err := d.callJSON("alias.post", t, map[string]interface{}{"actions": []interface{}{
			map[string]interface{}{"add": map[string]string{"index": op.Name, "alias": op.Name2}}}}, nil)
		if err != nil {
			return err
		}
		if r.OK() {
			s.add(t, op.Name, op.Name2)
			d.o.Class("alias_added")
		}
	case "alias.remove":
		r, err := d.callJSON("alias.post", t, map[string]interface{}{"actions": []interface{}{
			map[string]interface{}{"remove": map[string]string{"index": op.Name, "alias": op.Name2}}}}, nil)
		if err != nil {
			return err
		}
		if r.OK() {
			if s.rel[t][op.Name][op.Name2] {
				d.noteRenameOrDelete()
				d.o.Class("alias_removed")
			}
			delete(s.rel[t][op.Name], op.Name2)
		}
	}
	return nil
}

func setOf(m map[string]bool) []string {
	out := []string{}
	for k, v := range m {
		if v {
			out = append(out, k)
		}
	}
	sort.Strings(out)
	return out
}

func (s *aliasStore) verify(d *storeDriver) error {
	for _, t := range tenants {
		// aliases of every index
		for _, idx := range aliasIndexPool {
			r, err := d.call("alias.ofIndex", t, nil, map[string]string{"uv.indexName": idx})
			if err != nil {
				return err
			}
			if !r.OK() {
				return d.violation("tenant %d: reading the aliases of index %s failed: %s", t, idx, r)
			}
			var out map[string]struct {
				Aliases map[string]bool `json:"aliases"`
			}
			if err := r.JSON(&out); err != nil {
				return d.violation("tenant %d: aliases of index %s unreadable: %v", t, idx, err)
			}
			got := setOf(out[idx].Aliases)
			want := setOf(s.rel[t][idx])
			if canon(got) != canon(want) {
				return d.violation("tenant %d: index %s has aliases %.400s, last written %.400s", t, idx, brief(got), brief(want))
			}
		}
		// reverse lookup of every alias name
		for al := range s.aliases {
			var holders []string
			for idx, as := range s.rel[t] {
				if as[al] {
					holders = append(holders, idx)
				}
			}
			sort.Strings(holders)
			r, err := d.call("alias.get", t, nil, map[string]string{"uv.aliasName": al})
			if err != nil {
				return err
			}
			if len(holders) == 0 {
				if r.Status == 200 {
					return d.violation("tenant %d: alias %s resolves (%s) although no index of this tenant carries it", t, short(al), r)
				}
				continue
			}
			if r.Status != 200 {
				return d.violation("tenant %d: alias %s does not resolve (%s); it was written for index(es) %v", t, short(al), r, holders)
			}
			var out map[string]struct {
				Aliases map[string]interface{} `json:"aliases"`
			}
			if err := r.JSON(&out); err != nil || len(out) != 1 {
				return d.violation("tenant %d: alias %s: unreadable answer %s (%v)", t, short(al), r, err)
			}
			for idx, body := range out {
				if !s.rel[t][idx][al] {
					return d.violation("tenant %d: alias %s resolves to index %s, it was written for %v", t, short(al), idx, holders)
				}
				got := []string{}
				for a := range body.Aliases {
					got = append(got, a)
				}
				sort.Strings(got)
				if canon(got) != canon(setOf(s.rel[t][idx])) {
					return d.violation("tenant %d: alias %s → index %s with aliases %.300s, last written %.300s", t, short(al), idx, brief(got), brief(setOf(s.rel[t][idx])))
				}
			}
		}
		// all aliases of all existing indices
		r, err := d.call("alias.all", t, nil, nil)
		if err != nil {
			return err
		}
		if !r.OK() {
			return d.violation("tenant %d: listing all aliases failed: %s", t, r)
		}
		var all map[string]struct {
			Aliases map[string]interface{} `json:"aliases"`
		}
		if err := r.JSON(&all); err != nil {
			return d.violation("tenant %d: alias list unreadable: %v", t, err)
		}
		for idx := range s.indices[t] {
			body, ok := all[idx]
			if !ok {
				return d.violation("tenant %d: existing index %s is missing from the alias list %s", t, idx, fmt.Sprintf("%.300s", r.Body))
			}
			got := []string{}
			for a := range body.Aliases {
				got = append(got, a)
			}
			sort.Strings(got)
			if canon(got) != canon(setOf(s.rel[t][idx])) {
				return d.violation("tenant %d: alias list shows index %s with %.300s, last written %.300s", t, idx, brief(got), brief(setOf(s.rel[t][idx])))
			}
		}
		for idx, body := range all {
			if s.indices[t][idx] {
				continue
			}
			// an index this case did not create for this tenant (e.g. another store's) may be listed, but never with aliases
			// that were not written for it
			for a := range body.Aliases {
				if !s.rel[t][idx][a] {
					return d.violation("tenant %d: alias list shows index %s with alias %s that was never written for it", t, idx, short(a))
				}
			}
		}
	}
	return nil
}
