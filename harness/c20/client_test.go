package c20

// Parent-side helpers: calling worker operations, the loopback webhook sink.

import (
	"encoding/json"
	"fmt"
	"io"
	"net"
	"net/http"
	"sync"

	"verifharness/sut"
)

type httpRes struct {
	Status int
	Body   []byte
}

func (r *httpRes) OK() bool { return r.Status == 200 }
func (r *httpRes) JSON(v interface{}) error {
	if err := json.Unmarshal(r.Body, v); err != nil {
		return fmt.Errorf("%v (body %.300q)", err, r.Body)
	}
	return nil
}
func (r *httpRes) String() string { return fmt.Sprintf("status=%d body=%.400q", r.Status, r.Body) }

// call invokes an exported request handler in the worker.
func call(c *sut.Client, handler string, org int64, body []byte, args map[string]string) (*httpRes, error) {
	var hr sut.HTTPResult
	err := c.Call(&sut.Req{Op: "c20.http", Name: handler, Org: org, Body: body, Args: args}, &hr)
	if err != nil {
		return nil, err
	}
	return &httpRes{Status: hr.Status, Body: hr.Body}, nil
}

func callJSON(c *sut.Client, handler string, org int64, body interface{}, args map[string]string) (*httpRes, error) {
	var b []byte
	if body != nil {
		var err error
		b, err = json.Marshal(body)
		if err != nil {
			return nil, err
		}
	}
	return call(c, handler, org, b, args)
}

// ---- webhook sink ------------------------------------------------------------------------------

type sinkPost struct {
	Status   string `json:"Status"`
	Title    string `json:"Title"`
	NumEvals uint64 `json:"NumEvaluationsCount"`
}

// sink is a loopback HTTP server run by the test (parent) process; the worker's webhook contact point
// posts to it. Posts are recorded per URL path so concurrent cases never mix.
type sink struct {
	ln    net.Listener
	mu    sync.Mutex
	posts map[string][]sinkPost
}

var (
	theSink  *sink
	sinkOnce sync.Once
	sinkErr  error
)

func getSink() (*sink, error) {
	sinkOnce.Do(func() {
		ln, err := net.Listen("tcp", "127.0.0.1:0")
		if err != nil {
			sinkErr = err
			return
		}
		s := &sink{ln: ln, posts: map[string][]sinkPost{}}
		srv := &http.Server{Handler: http.HandlerFunc(func(w http.ResponseWriter, r *http.Request) {
			b, _ := io.ReadAll(r.Body)
			var p sinkPost
			_ = json.Unmarshal(b, &p)
			if r.Method == "POST" {
				s.mu.Lock()
				s.posts[r.URL.Path] = append(s.posts[r.URL.Path], p)
				s.mu.Unlock()
			}
			w.WriteHeader(200)
		})}
		go func() { _ = srv.Serve(ln) }()
		theSink = s
	})
	return theSink, sinkErr
}

func (s *sink) URL(path string) string { return "http://" + s.ln.Addr().String() + path }

func (s *sink) Posts(path string) []sinkPost {
	s.mu.Lock()
	defer s.mu.Unlock()
	return append([]sinkPost(nil), s.posts[path]...)
}

func (s *sink) Forget(path string) {
	s.mu.Lock()
	defer s.mu.Unlock()
	delete(s.posts, path)
}
