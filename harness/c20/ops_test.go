package c20

// Worker-side operations of C20 (the worker is this same test binary re-executed, see sut.RunWorker).
// Everything here runs inside the system-under-test process and only uses exported siglens API.

import (
	"bytes"
	"encoding/json"
	"fmt"
	"mime/multipart"
	"net/textproto"
	"os"
	"sort"
	"strconv"
	"strings"
	"sync"
	"time"
	_ "unsafe" // go:linkname (alertScheduler)

	"github.com/go-co-op/gocron"
	"github.com/valyala/fasthttp"
	"gorm.io/driver/sqlite"
	"gorm.io/gorm"

	"github.com/siglens/siglens/pkg/alerts/alertsHandler"
	"github.com/siglens/siglens/pkg/alerts/alertsqlite"
	"github.com/siglens/siglens/pkg/alerts/alertutils"
	"github.com/siglens/siglens/pkg/config"
	"github.com/siglens/siglens/pkg/dashboards"
	eswriter "github.com/siglens/siglens/pkg/es/writer"
	otsdbwriter "github.com/siglens/siglens/pkg/integrations/otsdb/writer"
	"github.com/siglens/siglens/pkg/integrations/prometheus/promql"
	"github.com/siglens/siglens/pkg/lookups"
	"github.com/siglens/siglens/pkg/segment/writer/metrics"
	server_utils "github.com/siglens/siglens/pkg/server/utils"
	usq "github.com/siglens/siglens/pkg/usersavedqueries"

	"verifharness/sut"
)

func workerOrgs() []int64 {
	s := os.Getenv("VERIF_ORGS")
	if s == "" {
		return []int64{0}
	}
	var out []int64
	for _, p := range strings.Split(s, ",") {
		if v, err := strconv.ParseInt(p, 10, 64); err == nil {
			out = append(out, v)
		}
	}
	return out
}

func init() {
	// mirrors cmd/startup: alertsHandler.ConnectSiglensDB() before everything else
	sut.RegisterFeature("alertsdb", func() error { return alertsHandler.ConnectSiglensDB() })
	// mirrors cmd/startup: usq.InitUsq(), dashboards.InitDashboards(0); the other tenants get the same
	// initialisation the tenant-creation hook of a multi-tenant build performs (InitDashboards(id)).
	sut.RegisterFeature("stores", func() error {
		if err := usq.InitUsq(); err != nil {
			return err
		}
		for _, o := range workerOrgs() {
			if err := dashboards.InitDashboards(o); err != nil {
				return err
			}
			if o != 0 {
				// per-tenant alias directory (vtable only creates the directory of tenant 0)
				dir := config.GetDataPath() + "ingestnodes/" + config.GetHostID() + "/vtabledata/aliases/" + strconv.FormatInt(o, 10)
				if err := os.MkdirAll(dir, 0o764); err != nil {
					return err
				}
			}
		}
		return nil
	})
	sut.RegisterOp("c20.http", opHTTP)
	sut.RegisterOp("c20.run", opRun)
	sut.RegisterOp("c20.job", opJob)
	sut.RegisterOp("c20.waitHistory", opWaitHistory)
	sut.RegisterOp("c20.initAlerting", opInitAlerting)
	sut.RegisterOp("c20.quiesce", opQuiesce)
	sut.RegisterOp("c20.historyCount", opHistoryCount)
	sut.RegisterOp("c20.notif", opNotif)
	sut.RegisterOp("c20.setNotif", opSetNotif)
	sut.RegisterOp("c20.metricsPut", opMetricsPut)
	sut.RegisterOp("c20.metricsQuery", opMetricsQuery)
	sut.RegisterOp("c20.removeCron", func(r *sut.Req) (interface{}, error) {
		return nil, alertsHandler.RemoveCronJob(r.Name)
	})
}

// ---- generic handler dispatch ------------------------------------------------------------------

type h1 = func(*fasthttp.RequestCtx)
type h2 = func(*fasthttp.RequestCtx, int64)

// The exported request handlers the query server routes to (pkg/server/query/entryHandlers.go).
var handlers = map[string]interface{}{
	// alerts + contact points
	"alert.create":    h2(alertsHandler.ProcessCreateAlertRequest),
	"alert.get":       h1(alertsHandler.ProcessGetAlertRequest),
	"alert.all":       h2(alertsHandler.ProcessGetAllAlertsRequest),
	"alert.update":    h1(alertsHandler.ProcessUpdateAlertRequest),
	"alert.delete":    h1(alertsHandler.ProcessDeleteAlertRequest),
	"alert.history":   h1(alertsHandler.ProcessAlertHistoryRequest),
	"alert.silence":   h1(alertsHandler.ProcessSilenceAlertRequest),
	"alert.unsilence": h1(alertsHandler.ProcessUnsilenceAlertRequest),
	"contact.create":  h2(alertsHandler.ProcessCreateContactRequest),
	"contact.all":     h2(alertsHandler.ProcessGetAllContactsRequest),
	"contact.update":  h1(alertsHandler.ProcessUpdateContactRequest),
	"contact.delete":  h1(alertsHandler.ProcessDeleteContactRequest),
	"dash.create":     h2(dashboards.ProcessCreateDashboardRequest),
	"dash.get":        h2(dashboards.ProcessGetDashboardRequest),
	"dash.update":     h2(dashboards.ProcessUpdateDashboardRequest),
	"dash.delete":     h2(dashboards.ProcessDeleteDashboardRequest),
	"dash.favorite":   h2(dashboards.ProcessFavoriteRequest),
	"dash.list":       h2(dashboards.ProcessListAllItemsRequest),
	"folder.create":   h2(dashboards.ProcessCreateFolderRequest),
	"folder.get":      h2(dashboards.ProcessGetFolderContentsRequest),
	"folder.update":   h2(dashboards.ProcessUpdateFolderRequest),
	"folder.delete":   h2(dashboards.ProcessDeleteFolderRequest),
	"folder.count":    h2(dashboards.ProcessGetFolderNestedCountRequest),
	"usq.save":        h2(usq.SaveUserQueries),
	"usq.all":         h2(usq.GetUserSavedQueriesAll),
	"usq.delete":      h2(usq.DeleteUserSavedQuery),
	"usq.search":      h2(usq.SearchUserSavedQuery),
	"alias.put":       h2(eswriter.ProcessPutAliasesRequest),
	"alias.post":      h2(eswriter.ProcessPostAliasesRequest),
	"alias.get":       h2(eswriter.ProcessGetAlias),
	"alias.all":       h2(eswriter.ProcessGetAllAliases),
	"alias.ofIndex":   h2(eswriter.ProcessGetIndexAlias),
	"alias.exists":    h2(eswriter.ProcessIndexAliasExist),
	"lookup.upload":   h1(lookups.UploadLookupFile),
	"lookup.all":      h1(lookups.GetAllLookupFiles),
	"lookup.get":      h1(lookups.GetLookupFile),
	"lookup.delete":   h1(lookups.DeleteLookupFile),
}

// opHTTP invokes a handler on an in-memory request context.
// Req.Name handler; Req.Body request body; Req.Org tenant; Req.Args:
//
//	"uv.<k>" route parameter (ctx.UserValue), "q.<k>" query argument,
//	"mp.<k>" multipart form field (the body then becomes the multipart file part "file" named Args["mpfile"]).
func opHTTP(r *sut.Req) (interface{}, error) {
	h, ok := handlers[r.Name]
	if !ok {
		return nil, fmt.Errorf("unknown handler %q", r.Name)
	}
	ctx := &fasthttp.RequestCtx{}
	ctx.Request.Header.SetMethod("POST")
	mp := false
	for k := range r.Args {
		if strings.HasPrefix(k, "mp.") || k == "mpfile" {
			mp = true
		}
	}
	if mp {
		var buf bytes.Buffer
		w := multipart.NewWriter(&buf)
		keys := make([]string, 0, len(r.Args))
		for k := range r.Args {
			keys = append(keys, k)
		}
		sort.Strings(keys)
		for _, k := range keys {
			if strings.HasPrefix(k, "mp.") {
				_ = w.WriteField(k[3:], r.Args[k])
			}
		}
		if fn, ok := r.Args["mpfile"]; ok {
			hdr := make(textproto.MIMEHeader)
			hdr.Set("Content-Disposition", fmt.Sprintf(`form-data; name="file"; filename=%q`, fn))
			hdr.Set("Content-Type", "application/octet-stream")
			pw, err := w.CreatePart(hdr)
			if err != nil {
				return nil, err
			}
			_, _ = pw.Write(r.Body)
		}
		_ = w.Close()
		ctx.Request.Header.SetContentType(w.FormDataContentType())
		ctx.Request.SetBody(buf.Bytes())
	} else if r.Body != nil {
		ctx.Request.Header.SetContentType("application/json")
		ctx.Request.SetBody(r.Body)
	}
	for k, v := range r.Args {
		switch {
		case strings.HasPrefix(k, "uv."):
			ctx.SetUserValue(k[3:], v)
		case strings.HasPrefix(k, "q."):
			ctx.QueryArgs().Set(k[2:], v)
		}
	}
	switch f := h.(type) {
	case h1:
		f(ctx)
	case h2:
		f(ctx, r.Org)
	}
	return &sut.HTTPResult{Status: ctx.Response.StatusCode(), Body: append([]byte(nil), ctx.Response.Body()...)}, nil
}

// ---- alert evaluation through the exported scheduler entry points ----------------------------------

var (
	dbOnce sync.Once
	dbAPI  *alertsqlite.Sqlite // the exported DB API on a second connection to <data>/siglens.db
	dbErr  error
	rawDB  *gorm.DB
)

func alertDB() (*alertsqlite.Sqlite, *gorm.DB, error) {
	dbOnce.Do(func() {
		d := &alertsqlite.Sqlite{}
		if dbErr = d.Connect(); dbErr != nil {
			return
		}
		dbAPI = d
		rawDB, dbErr = gorm.Open(sqlite.Open(config.GetDataPath()+"siglens.db"), &gorm.Config{})
		if dbErr == nil {
			dbErr = rawDB.Exec("PRAGMA busy_timeout=5000;").Error
		}
	})
	return dbAPI, rawDB, dbErr
}

func historyCount(d *alertsqlite.Sqlite, id string) (int, error) {
	rows, err := d.GetAlertHistoryByAlertID(&alertutils.AlertHistoryQueryParams{AlertId: id, Limit: 1 << 20, SortOrder: alertutils.ASC})
	if err != nil {
		return 0, err
	}
	return len(rows), nil
}

type evalResult struct {
	Runs     int  `json:"runs"`
	Finished int  `json:"finished"`
	Rows     int  `json:"rows"` // history rows after the evaluation
	TimedOut bool `json:"timedOut"`
}

// alertScheduler is the gocron scheduler of the alert service (package variable `s` of alertsHandler). The harness
// uses it as a clock only: Scheduler.RunByTag makes the job that the create handler / update handler /
// InitAlertingService registered run now instead of EvalInterval minutes later. It takes the same path as the
// job's timer (Scheduler.run(job) → executor) and therefore calls evaluateLogAlert / evaluateMetricsAlert with the
// alert object captured at registration, exactly like the second and later scheduled runs in production.
//
//go:linkname alertScheduler github.com/siglens/siglens/pkg/alerts/alertsHandler.s
var alertScheduler *gocron.Scheduler

// minLeadOfTimer: a harness-triggered run is only started when the job's own timer is at least this far away,
// so that a scheduled run cannot fall into the evaluation under observation.
const minLeadOfTimer = 15 * time.Second

type jobInfo struct {
	Jobs     int   `json:"jobs"` // cron jobs registered for the alert
	Runs     int   `json:"runs"`
	Finished int   `json:"finished"`
	NextMs   int64 `json:"nextMs"` // time until the job's own next scheduled run
}

func liveJob(id string) (*gocron.Job, int) {
	if alertScheduler == nil {
		return nil, 0
	}
	jobs, err := alertScheduler.FindJobsByTag(id)
	if err != nil || len(jobs) == 0 {
		return nil, 0
	}
	return jobs[0], len(jobs)
}

func opJob(r *sut.Req) (interface{}, error) {
	job, n := liveJob(r.Name)
	res := &jobInfo{Jobs: n}
	if job != nil {
		res.Runs, res.Finished, res.NextMs = job.RunCount(), job.FinishedRunCount(), time.Until(job.NextRun()).Milliseconds()
	}
	return res, nil
}

type runResult struct {
	jobInfo
	Rows     int  `json:"rows"`
	Started  bool `json:"started"`  // the harness triggered a run
	TimedOut bool `json:"timedOut"` // the run did not finish within 40 s
	TooLate  bool `json:"tooLate"`  // the job's own timer is too close
}

// opRun makes the alert's live cron job run once more, now (see alertScheduler). Ints["runs"] is the number of
// runs the job must have made so far; any other count (the job's timer fired on its own) starts nothing.
func opRun(r *sut.Req) (interface{}, error) {
	d, _, err := alertDB()
	if err != nil {
		return nil, err
	}
	job, n := liveJob(r.Name)
	res := &runResult{}
	res.Jobs = n
	if job == nil || n != 1 {
		return res, nil
	}
	want := int(r.Ints["runs"])
	res.Runs, res.Finished, res.NextMs = job.RunCount(), job.FinishedRunCount(), time.Until(job.NextRun()).Milliseconds()
	if res.Runs != want || res.Finished != want {
		return res, nil
	}
	if time.Until(job.NextRun()) < minLeadOfTimer {
		res.TooLate = true
		return res, nil
	}
	if err := alertScheduler.RunByTag(r.Name); err != nil {
		return nil, fmt.Errorf("RunByTag: %v", err)
	}
	res.Started = true
	dl := time.Now().Add(40 * time.Second)
	for job.FinishedRunCount() < want+1 {
		if time.Now().After(dl) {
			res.TimedOut = true
			break
		}
		time.Sleep(500 * time.Microsecond)
	}
	res.Runs, res.Finished = job.RunCount(), job.FinishedRunCount()
	res.Rows, _ = historyCount(d, r.Name)
	return res, nil
}

// opWaitHistory waits until the alert has at least Ints["rows"] history rows (an evaluation started by a
// create/update handler writes its history row as its last action). Ints["keep"]=1: the job stays registered (the
// following evaluations are further runs of this job) and its first run is awaited too; otherwise the alert's cron
// job is removed.
func opWaitHistory(r *sut.Req) (interface{}, error) {
	d, _, err := alertDB()
	if err != nil {
		return nil, err
	}
	want := int(r.Ints["rows"])
	keep := r.Ints["keep"] == 1
	res := &evalResult{}
	dl := time.Now().Add(40 * time.Second)
	for {
		n, err := historyCount(d, r.Name)
		if err != nil {
			return nil, err
		}
		res.Rows = n
		if n >= want {
			if !keep {
				break
			}
			if job, _ := liveJob(r.Name); job != nil {
				res.Runs, res.Finished = job.RunCount(), job.FinishedRunCount()
				if res.Finished >= 1 {
					break
				}
			}
		}
		if time.Now().After(dl) {
			res.TimedOut = true
			break
		}
		time.Sleep(time.Millisecond)
	}
	if !keep {
		if err := alertsHandler.RemoveCronJob(r.Name); err != nil {
			return nil, err
		}
	}
	return res, nil
}

// opInitAlerting is the start-up step of the query server (pkg/server/query/server.go): every stored alert is
// loaded from the store and gets its cron job, which evaluates immediately. Ints["remove"]=1 first removes the
// alert's current job (initialisation of the alerting service repeated in the running process). Waits like
// opWaitHistory.
func opInitAlerting(r *sut.Req) (interface{}, error) {
	if r.Ints["remove"] == 1 {
		if err := alertsHandler.RemoveCronJob(r.Name); err != nil {
			return nil, err
		}
	}
	alertsHandler.InitAlertingService(server_utils.GetMyIds)
	return opWaitHistory(r)
}

// opQuiesce: after a create/update handler has (re-)scheduled an alert, wait (bounded, 3 s) until the history has
// Ints["min"] rows — the immediate evaluation writes its row as its last action — and remove the job, so that
// no background evaluation runs while the stores are exercised. Never fails on timeout.
func opQuiesce(r *sut.Req) (interface{}, error) {
	d, _, err := alertDB()
	if err != nil {
		return nil, err
	}
	res := &evalResult{}
	min := int(r.Ints["min"])
	dl := time.Now().Add(3 * time.Second)
	for {
		n, _ := historyCount(d, r.Name)
		res.Rows = n
		if n >= min {
			break
		}
		if time.Now().After(dl) {
			res.TimedOut = true
			break
		}
		time.Sleep(time.Millisecond)
	}
	if err := alertsHandler.RemoveCronJob(r.Name); err != nil {
		return nil, err
	}
	return res, nil
}

func opHistoryCount(r *sut.Req) (interface{}, error) {
	d, _, err := alertDB()
	if err != nil {
		return nil, err
	}
	n, err := historyCount(d, r.Name)
	if err != nil {
		return nil, err
	}
	return &evalResult{Rows: n}, nil
}

type notifSnap struct {
	Cooldown      uint64 `json:"cooldown"`
	LastState     int    `json:"lastState"`
	LastSentZero  bool   `json:"lastSentZero"`
	LastSentNanos int64  `json:"lastSentNanos"`
}

func opNotif(r *sut.Req) (interface{}, error) {
	d, _, err := alertDB()
	if err != nil {
		return nil, err
	}
	n, err := d.GetAlertNotification(r.Name)
	if err != nil {
		return nil, err
	}
	s := &notifSnap{Cooldown: n.CooldownPeriod, LastState: int(n.LastAlertState), LastSentZero: n.LastSentTime.IsZero()}
	if !s.LastSentZero {
		s.LastSentNanos = n.LastSentTime.UnixNano()
	}
	return s, nil
}

// opSetNotif edits the notification row of an alert: Ints["cooldown"] (minutes) and/or Ints["ageSentSec"]
// (move last_sent_time to now-ageSentSec; only when a notification has been sent). There is no API for the
// cool-down period in this tree (CreateAlert stores 0), so the harness writes the column directly.
func opSetNotif(r *sut.Req) (interface{}, error) {
	_, raw, err := alertDB()
	if err != nil {
		return nil, err
	}
	if v, ok := r.Ints["cooldown"]; ok {
		res := raw.Model(&alertutils.Notification{}).Where("alert_id = ?", r.Name).Update("cooldown_period", uint64(v))
		if res.Error != nil || res.RowsAffected != 1 {
			return nil, fmt.Errorf("set cooldown: err=%v rows=%d", res.Error, res.RowsAffected)
		}
	}
	if v, ok := r.Ints["ageSentSec"]; ok {
		t := time.Now().UTC().Add(-time.Duration(v) * time.Second)
		res := raw.Model(&alertutils.Notification{}).Where("alert_id = ?", r.Name).Update("last_sent_time", t)
		if res.Error != nil || res.RowsAffected != 1 {
			return nil, fmt.Errorf("set last_sent_time: err=%v rows=%d", res.Error, res.RowsAffected)
		}
	}
	return nil, nil
}

var _ = json.Marshal

// ---- metrics (for metric-series alerts) ----------------------------------------------------------

type metricsPutResult struct {
	Processed uint64 `json:"processed"`
	Failed    uint64 `json:"failed"`
	Err       string `json:"err,omitempty"`
}

// opMetricsPut ingests an OpenTSDB JSON payload (the /api/put body); Ints["flush"]=1 flushes the block.
func opMetricsPut(r *sut.Req) (interface{}, error) {
	p, f, err := otsdbwriter.HandlePutMetrics(r.Body, r.Org)
	res := &metricsPutResult{Processed: p, Failed: f}
	if err != nil {
		res.Err = err.Error()
	}
	if r.Ints["flush"] == 1 {
		metrics.ForceFlushMetricsBlock()
	}
	return res, nil
}

type metricsQueryResult struct {
	Err     string                        `json:"err,omitempty"`
	Results map[string]map[string]float64 `json:"results"`
	Scalar  bool                          `json:"scalar"`
	Value   float64                       `json:"value"`
	Errs    []string                      `json:"errs,omitempty"`
}

// opMetricsQuery runs the metrics-alert query path (ParseMetricTimeSeriesRequest + ProcessMetricsQueryRequest)
// on Body and returns the series; used by the harness only to check its own dataset assumptions.
func opMetricsQuery(r *sut.Req) (interface{}, error) {
	out := &metricsQueryResult{Results: map[string]map[string]float64{}}
	start, end, queries, formulas, _, _, err := promql.ParseMetricTimeSeriesRequest(r.Body)
	if err != nil {
		out.Err = err.Error()
		return out, nil
	}
	res, _, _, _, err := promql.ProcessMetricsQueryRequest(queries, formulas, start, end, r.Org, 0)
	if err != nil {
		out.Err = err.Error()
		return out, nil
	}
	for _, e := range res.ErrList {
		out.Errs = append(out.Errs, e.Error())
	}
	out.Scalar = res.IsScalar
	out.Value = res.ScalarValue
	for sid, m := range res.Results {
		mm := map[string]float64{}
		for ts, v := range m {
			mm[strconv.FormatUint(uint64(ts), 10)] = v
		}
		out.Results[sid] = mm
	}
	return out, nil
}
