package c20

import (
	"encoding/json"
	"fmt"
	"os"
	"testing"

	"verifharness/pt"
	"verifharness/sut"
)

func TestScratchMetrics(t *testing.T) {
	if os.Getenv("C20_SCRATCH") == "" {
		t.Skip()
	}
	err := pt.WithWorker(sut.Options{Features: []string{"alertsdb", "stores"}, Env: map[string]string{"VERIF_LOGLEVEL": "error"}}, func(c *sut.Client) error {
		base := int64(1700000000)
		put := func(metric, tag string, ts int64, v float64, flush int64) {
			b, _ := json.Marshal([]map[string]interface{}{{"metric": metric, "tags": map[string]string{"k": tag}, "timestamp": ts, "value": v}})
			var r metricsPutResult
			err := c.Call(&sut.Req{Op: "c20.metricsPut", Body: b, Ints: map[string]int64{"flush": flush}}, &r)
			fmt.Println("put", metric, tag, ts, v, r, err)
		}
		q := func(query string, start, end int64) {
			b, _ := json.Marshal(map[string]interface{}{"start": start, "end": end,
				"queries":  []map[string]interface{}{{"name": "a", "query": query, "qlType": "promql"}},
				"formulas": []map[string]interface{}{{"formula": "a"}}})
			var r metricsQueryResult
			err := c.Call(&sut.Req{Op: "c20.metricsQuery", Body: b}, &r)
			fmt.Printf("Q %s [%d,%d] -> %+v err=%v\n", query, start, end, r, err)
		}
		put("m1", "a", base+100, 5, 0)
		q("m1", base, base+3600)
		q("sum(m1)", base, base+3600)
		put("m1", "b", base+100, -2, 0)
		q("m1", base, base+3600)
		q("sum(m1)", base, base+3600)
		put("m1", "c", base+100, 0.5, 1)
		q("m1", base, base+3600)
		q("sum(m1)", base, base+3600)
		q("sum(m1)", base, base+600)
		put("m1", "a", base+1900, 7, 0)
		q("m1", base, base+3600)
		q("sum(m1)", base, base+3600)
		q("nosuch", base, base+3600)
		return nil
	})
	fmt.Println(err)
}
