package c18

// Worker-side operations for the metrics part (same entry points as harness/c08 uses).

import (
	"fmt"
	"math"
	"reflect"
	"sort"
	"sync"
	"unsafe"

	dtu "github.com/siglens/siglens/pkg/common/dtypeutils"
	otsdbwriter "github.com/siglens/siglens/pkg/integrations/otsdb/writer"
	"github.com/siglens/siglens/pkg/integrations/prometheus/promql"
	rutils "github.com/siglens/siglens/pkg/readerUtils"
	"github.com/siglens/siglens/pkg/segment"
	"github.com/siglens/siglens/pkg/segment/query"
	"github.com/siglens/siglens/pkg/segment/structs"
	sutils "github.com/siglens/siglens/pkg/segment/utils"
	"github.com/siglens/siglens/pkg/segment/writer/metrics"
	"github.com/siglens/siglens/pkg/segment/writer/metrics/meta"

	"verifharness/sut"
)

type MPut struct {
	Success uint64 `json:"success"`
	Failed  uint64 `json:"failed"`
	Err     string `json:"err,omitempty"`
}

type MPoint struct {
	T    uint32 `json:"t"`
	Bits uint64 `json:"b"`
}

type MSeries struct {
	ID  string   `json:"id"`
	Pts []MPoint `json:"pts"`
}

type MResult struct {
	ConvErr string    `json:"convErr,omitempty"`
	ErrList []string  `json:"errList,omitempty"`
	Series  []MSeries `json:"series,omitempty"`
}

func refreshMetricsMeta() error {
	return query.PopulateMetricsMetadataForTheFile_TestOnly(meta.GetLocalMetricsMetaFName())
}

func segLock(ms *metrics.MetricsSegment) (*sync.RWMutex, error) {
	f := reflect.ValueOf(ms).Elem().FieldByName("rwLock")
	if !f.IsValid() || f.Kind() != reflect.Ptr || f.IsNil() || f.Type() != reflect.TypeOf((*sync.RWMutex)(nil)) {
		return nil, fmt.Errorf("MetricsSegment.rwLock not found (renamed?)")
	}
	return (*sync.RWMutex)(unsafe.Pointer(f.Pointer())), nil
}

func init() {
	sut.RegisterOp("c18.mput", func(req *sut.Req) (interface{}, error) {
		var res MPut
		var err error
		res.Success, res.Failed, err = otsdbwriter.HandlePutMetrics(req.Body, req.Org)
		if err != nil {
			res.Err = err.Error()
		}
		return &res, nil
	})
	// size-triggered rotation of a block (Name=block) or a whole segment (Name=segment), as
	// timeBasedRotate does it, with the threshold lowered for the duration of the call
	sut.RegisterOp("c18.mrotate", func(req *sut.Req) (interface{}, error) {
		for _, ms := range metrics.GetAllMetricsSegments() {
			l, err := segLock(ms)
			if err != nil {
				return nil, err
			}
			l.Lock()
			oldB, oldS := sutils.MAX_BYTES_METRICS_BLOCK, sutils.MAX_BYTES_METRICS_SEGMENT
			if req.Name == "block" {
				sutils.MAX_BYTES_METRICS_BLOCK = 0
			} else {
				sutils.MAX_BYTES_METRICS_SEGMENT = 0
			}
			err = ms.CheckAndRotate(false)
			sutils.MAX_BYTES_METRICS_BLOCK, sutils.MAX_BYTES_METRICS_SEGMENT = oldB, oldS
			l.Unlock()
			if err != nil {
				return nil, fmt.Errorf("CheckAndRotate: %v", err)
			}
		}
		return nil, refreshMetricsMeta()
	})
	sut.RegisterOp("c18.mflush", func(req *sut.Req) (interface{}, error) {
		for _, tth := range metrics.GetAllTagsTreeHolders() {
			if err := tth.EncodeTagsTreeHolder(); err != nil {
				return nil, fmt.Errorf("EncodeTagsTreeHolder: %v", err)
			}
		}
		metrics.ForceFlushMetricsBlock()
		return nil, refreshMetricsMeta()
	})
	// PromQL text evaluated as ProcessPromqlMetricsRangeSearchRequest does with step=1s
	sut.RegisterOp("c18.mquery", func(req *sut.Req) (interface{}, error) {
		out := &MResult{}
		reqs, _, arith, err := promql.ConvertPromQLToMetricsQuery(req.Text, uint32(req.Start), uint32(req.End), req.Org)
		if err != nil {
			out.ConvErr = err.Error()
			return out, nil
		}
		if len(reqs) == 0 {
			out.ConvErr = "no metrics query produced"
			return out, nil
		}
		qid := rutils.GetNextQid()
		list := make([]*structs.MetricsQuery, 0, len(reqs))
		hashes := make([]uint64, 0, len(reqs))
		var tr *dtu.MetricsTimeRange
		for i := range reqs {
			reqs[i].MetricsQuery.Downsampler.Interval = 1
			reqs[i].MetricsQuery.Downsampler.Unit = "s"
			hashes = append(hashes, reqs[i].MetricsQuery.QueryHash)
			list = append(list, &reqs[i].MetricsQuery)
			tr = &reqs[i].TimeRange
		}
		res := segment.ExecuteMultipleMetricsQuery(hashes, list, arith, tr, qid, false)
		if res == nil {
			out.ErrList = []string{"nil result"}
			return out, nil
		}
		for _, e := range res.ErrList {
			out.ErrList = append(out.ErrList, e.Error())
		}
		ids := make([]string, 0, len(res.Results))
		for id := range res.Results {
			ids = append(ids, id)
		}
		sort.Strings(ids)
		for _, id := range ids {
			s := MSeries{ID: id}
			for t, v := range res.Results[id] {
				s.Pts = append(s.Pts, MPoint{T: t, Bits: math.Float64bits(v)})
			}
			sort.Slice(s.Pts, func(i, j int) bool { return s.Pts[i].T < s.Pts[j].T })
			out.Series = append(out.Series, s)
		}
		return out, nil
	})
}
