package c18

// The pristine data directory of one generated dataset: a CONTROL segment and a segment that is
// going to be damaged, both in one index, with every accelerating side file the writer produces
// (micro indexes, block summaries, segment stats, persistent-query results, star tree, sort
// index, roll-ups), plus the answers of the query set on the undamaged files.
//
// The bytes of segment files are not a function of the ingested events (dictionary and column
// order follow Go map iteration), so a fault position only means something relative to ONE built
// tree. Every case therefore carries the tree it was enumerated on (gzip+base64); a replay
// re-creates exactly these files instead of ingesting again.

import (
	"bytes"
	"compress/gzip"
	"encoding/base64"
	"encoding/binary"
	"fmt"
	"hash/crc32"
	"io"
	"os"
	"path/filepath"
	"runtime"
	"sort"
	"strconv"
	"strings"
	"sync"
	"time"

	"github.com/cespare/xxhash"
	"pgregory.net/rapid"

	"verifharness/gen"
	"verifharness/model"
	"verifharness/pt"
	"verifharness/sut"
)

const (
	chartSpanMs = 60000
	idxName     = "c18idx"
	hostDir     = "verifnode.verifnode"
	segmetaFn   = "ingestnodes/" + hostDir + "/segmeta.json"
)

// segFile is one file (or, for the shared segmeta.json, the line) that belongs to the damaged segment.
type segFile struct {
	Rel  string // path relative to the data directory
	Kind string // csg cmi bsu sst sfm pqmr srt strl strm crup segmeta
	Col  string // column name for csg / cmi / srt files ("" = unknown)
	Off  int    // offset of the region inside the file (segmeta.json: start of the segment's line)
	Data []byte // pristine bytes of the region
	CRC  uint32
	// NoTrunc: the region is a line in the middle of a shared file; cutting the file there would
	// also remove other segments' lines, so only byte modifications are enumerated
	NoTrunc bool
}

type querySpec struct {
	Name string // matchall filter_eq filter_range filter_cmi_* filter_raw_* stats_by stats_tree stats_all sort
	Text string
}

// answer is what a query returned, in comparable form.
type answer struct {
	Err     string
	Errors  []string
	Recs    map[int64]sut.Record // by _vid (records without a usable _vid are in Odd)
	Dups    int
	Odd     []sut.Record
	Buckets map[string]map[string]sut.TV // group key → measure → value
	N       int
}

type envT struct {
	seed     int
	root     string
	dataDir  string
	tree     map[string][]byte // pristine data directory: relative path → bytes
	blob     string            // the tree as built, gzip+base64 (travels inside every case)
	blobRoot string            // data directory the tree was built in
	isCtrl   map[int64]bool
	isDmg    map[int64]bool
	dmgNum   map[int64]int64 // _vid → num
	lo, hi   uint64
	segRelD  string
	files    []*segFile
	byRel    map[string]*segFile
	queries  []querySpec
	base     []*answer
	// unstable[query][column]: the value differs between two fresh servers on the SAME undamaged
	// files (or is known to: the sort-index path sometimes returns timestamp 0) - not compared
	unstable map[string]map[string]bool
	err      error
	startDur time.Duration
}

var (
	envMu sync.Mutex
	envs  = map[string]*envT{}
)

// fixedRoot is a scratch location whose path length does not depend on pid or shard: segmeta.json
// and the .sfm files contain absolute paths, and a replay must be able to re-create the tree at a
// path of the same length.
func fixedRoot() string {
	base := os.Getenv("C18_ROOT")
	if base == "" {
		base = "/verif/.work/c18d"
	}
	return base
}

func procRoot() string { return filepath.Join(fixedRoot(), fmt.Sprintf("%010d", os.Getpid())) }

// sweepStale removes scratch directories of processes that no longer exist.
func sweepStale() {
	ents, err := os.ReadDir(fixedRoot())
	if err != nil {
		return
	}
	for _, e := range ents {
		pid, err := strconv.Atoi(e.Name())
		if err != nil || pid == os.Getpid() {
			continue
		}
		if _, err := os.Stat(fmt.Sprintf("/proc/%d", pid)); os.IsNotExist(err) {
			_ = os.RemoveAll(filepath.Join(fixedRoot(), e.Name()))
		}
	}
}

func cleanupProcRoot() {
	if os.Getenv("C18_KEEP") == "" {
		_ = os.RemoveAll(procRoot())
	}
}

// ---- dataset --------------------------------------------------------------------------------

var grpWords = []string{"g1", "g2", "g3"}

// genEvents draws the events of both segments. Besides 1-3 generated columns (any profile, flat
// names) every event carries fixed columns the queries use: seg (c|d), num (0..99), grp (g1..g3),
// word (unique text naming the event a second time).
func genEvents(seed int) (ctrl, dmg []*model.Event, blocks int) {
	type out struct {
		ds     *gen.Dataset
		nCtrl  int
		blocks int
		nums   []int
		grps   []int
	}
	o := rapid.Custom(func(t *rapid.T) out {
		ds := gen.GenDataset(t, gen.DatasetOpts{MinEvents: 36, MaxEvents: 60, MaxCols: 3, NoNested: true, NullPct: 3})
		n := len(ds.Events)
		r := out{ds: ds}
		r.nCtrl = rapid.IntRange(10, 16).Draw(t, "nCtrl")
		r.blocks = rapid.IntRange(2, 3).Draw(t, "blocks")
		for i := 0; i < n; i++ {
			r.nums = append(r.nums, rapid.IntRange(0, 99).Draw(t, "num"))
			r.grps = append(r.grps, rapid.IntRange(0, 2).Draw(t, "grp"))
		}
		return r
	}).Example(seed)
	for i, e := range o.ds.Events {
		seg := "d"
		if i < o.nCtrl {
			seg = "c"
		}
		add := func(name string, v model.Val) {
			e.Doc.Obj = append(e.Doc.Obj, model.Field{Name: name, Node: model.LeafNode(v)})
		}
		add("seg", model.Str(seg))
		add("num", model.Int(int64(o.nums[i])))
		add("grp", model.Str(grpWords[o.grps[i]]))
		add("word", model.Str(fmt.Sprintf("w%dx", e.Vid)))
		if seg == "c" {
			ctrl = append(ctrl, e)
		} else {
			dmg = append(dmg, e)
		}
	}
	return ctrl, dmg, o.blocks
}

// querySet derives the fixed query set from the damaged segment's events (num and grp by _vid),
// so that a replay (which only has the files) arrives at the same texts as the run that ingested.
func querySet(dmgNum map[int64]int64, dmgGrp map[int64]string) []querySpec {
	vids := make([]int64, 0, len(dmgNum))
	nums := make([]int64, 0, len(dmgNum))
	for v, n := range dmgNum {
		vids = append(vids, v)
		nums = append(nums, n)
	}
	sort.Slice(vids, func(i, j int) bool { return vids[i] < vids[j] })
	sort.Slice(nums, func(i, j int) bool { return nums[i] < nums[j] })
	thr := nums[len(nums)/2]
	if thr == nums[len(nums)-1] {
		thr = nums[0]
	}
	// a second grp value and a second threshold for filters that were NOT run before the ingest:
	// no persistent-query results exist for them, so they go through the micro indexes (.cmi:
	// bloom for grp, range index for num) and the raw column search
	g2 := ""
	for _, v := range vids {
		if dmgGrp[v] != dmgGrp[vids[0]] {
			g2 = dmgGrp[v]
			break
		}
	}
	if g2 == "" {
		g2 = dmgGrp[vids[0]]
	}
	thr2 := nums[len(nums)/3]
	return []querySpec{
		{"matchall", "*"},
		{"filter_eq", "grp=" + dmgGrp[vids[0]]},
		{"filter_range", fmt.Sprintf("num>%d", thr)},
		{"filter_cmi_eq", "grp=" + g2},
		{"filter_cmi_range", fmt.Sprintf("num<=%d", thr2)},
		// run with GOMAXPROCS=1: the searcher reads the sort index only when the command chain
		// is not parallelised (one chain per CPU otherwise)
		{"sort", "* | sort num"},
		{"timechart", "* | timechart span=1m count"},
		{"stats_all", "* | stats count, sum(num), min(num), max(num)"},
		{"stats_by", "* | stats count, sum(num), min(num), max(num) by seg, grp"},
		// answered from the star tree (.strl/.strm) when the segment has one; the reader clears a
		// 300 MB buffer per query, so this one is run for a part of the faults only (runsTree)
		{"stats_tree", "* | stats count, sum(num), min(num), max(num) by seg"},
		// (appended: positions 0 and 5 of this list are used by index) never pre-run; != and wildcard filters cannot use the dictionary fast path of a block and fall
		// back to the record-by-record search, which touches the same column block a second time
		{"filter_raw_ne", "grp!=" + dmgGrp[vids[0]]},
		{"filter_raw_wild", "grp=*" + g2[len(g2)-1:]},
	}
}

// ---- tree -----------------------------------------------------------------------------------

func readTree(dir string) (map[string][]byte, error) {
	tree := map[string][]byte{}
	err := filepath.Walk(dir, func(p string, fi os.FileInfo, err error) error {
		if err != nil || fi.IsDir() {
			return err
		}
		rel, _ := filepath.Rel(dir, p)
		b, err := os.ReadFile(p)
		if err != nil {
			return err
		}
		tree[rel] = b
		return nil
	})
	return tree, err
}

func packTree(tree map[string][]byte) string {
	var raw bytes.Buffer
	var tmp [binary.MaxVarintLen64]byte
	put := func(b []byte) {
		n := binary.PutUvarint(tmp[:], uint64(len(b)))
		raw.Write(tmp[:n])
		raw.Write(b)
	}
	for _, rel := range pt.SortedKeys(tree) {
		put([]byte(rel))
		put(tree[rel])
	}
	var z bytes.Buffer
	w, _ := gzip.NewWriterLevel(&z, gzip.BestCompression)
	_, _ = w.Write(raw.Bytes())
	_ = w.Close()
	return base64.StdEncoding.EncodeToString(z.Bytes())
}

func unpackTree(blob string) (map[string][]byte, error) {
	z, err := base64.StdEncoding.DecodeString(blob)
	if err != nil {
		return nil, err
	}
	r, err := gzip.NewReader(bytes.NewReader(z))
	if err != nil {
		return nil, err
	}
	raw, err := io.ReadAll(r)
	if err != nil {
		return nil, err
	}
	tree := map[string][]byte{}
	get := func() ([]byte, error) {
		l, n := binary.Uvarint(raw)
		if n <= 0 || uint64(len(raw)-n) < l {
			return nil, fmt.Errorf("corrupt tree blob")
		}
		b := raw[n : n+int(l)]
		raw = raw[n+int(l):]
		return b, nil
	}
	for len(raw) > 0 {
		rel, err := get()
		if err != nil {
			return nil, err
		}
		data, err := get()
		if err != nil {
			return nil, err
		}
		tree[string(rel)] = data
	}
	return tree, nil
}

// restore makes dataDir a byte-exact copy of the pristine tree again.
func (e *envT) restore() error {
	if err := os.RemoveAll(e.dataDir); err != nil {
		return err
	}
	_ = os.RemoveAll(sut.AuxDir(e.dataDir))
	for rel, b := range e.tree {
		p := filepath.Join(e.dataDir, rel)
		if err := os.MkdirAll(filepath.Dir(p), 0o755); err != nil {
			return err
		}
		if err := os.WriteFile(p, b, 0o644); err != nil {
			return err
		}
	}
	return nil
}

func kindOf(rel string) string {
	ext := strings.TrimPrefix(filepath.Ext(rel), ".")
	switch ext {
	case "csg", "cmi", "bsu", "sst", "sfm", "pqmr", "srt", "strl", "strm", "crup":
		return ext
	}
	return "other_" + ext
}

func (e *envT) listFiles(colNames []string) error {
	byHash := map[string]string{}
	for _, c := range colNames {
		byHash[strconv.FormatUint(xxhash.Sum64String(c), 10)] = c
	}
	e.files = nil
	for _, rel := range pt.SortedKeys(e.tree) {
		b := e.tree[rel]
		if !strings.HasPrefix(rel, e.segRelD+"/") || len(b) == 0 {
			continue
		}
		f := &segFile{Rel: rel, Kind: kindOf(rel), Data: b, CRC: crc32.ChecksumIEEE(b)}
		base := strings.TrimSuffix(filepath.Base(rel), filepath.Ext(rel))
		switch f.Kind {
		case "csg", "cmi":
			if i := strings.IndexByte(base, '_'); i >= 0 {
				f.Col = byHash[base[i+1:]]
			}
		case "srt":
			if i := strings.LastIndexByte(base, '_'); i >= 0 {
				f.Col = base[:i]
			}
		}
		e.files = append(e.files, f)
	}
	// the damaged segment's line in the shared segmeta.json
	sm := e.tree[segmetaFn]
	key := []byte(`"segmentKey":"` + filepath.Join(e.dataDir, e.segRelD) + `/`)
	start := 0
	found := false
	for start < len(sm) {
		end := bytes.IndexByte(sm[start:], '\n')
		if end < 0 {
			end = len(sm)
		} else {
			end = start + end + 1
		}
		if bytes.Contains(sm[start:end], key) {
			if end != len(sm) {
				return fmt.Errorf("the damaged segment's line is not the last line of segmeta.json")
			}
			line := sm[start:end]
			e.files = append(e.files, &segFile{Rel: segmetaFn, Kind: "segmeta", Off: start, Data: line, CRC: crc32.ChecksumIEEE(line)})
			found = true
		}
		start = end
	}
	if !found {
		return fmt.Errorf("no line for the damaged segment in segmeta.json")
	}
	sort.Slice(e.files, func(i, j int) bool { return e.files[i].Rel < e.files[j].Rel })
	e.byRel = map[string]*segFile{}
	for _, f := range e.files {
		e.byRel[f.Rel] = f
	}
	return nil
}

// ---- build ----------------------------------------------------------------------------------

// memLimitKiB caps the address space of every server this check starts (ulimit -v). A damaged
// length field can make a reader ask for tens of gigabytes; without the cap such a fault takes the
// whole machine (and the other checks running on it) down before the allocation fails. With it the
// server dies at once with "out of memory", which is the observation the property asks about
// ("no unbounded allocation"): 4 GiB for segments of a few kilobytes.
const memLimitKiB = 4 << 20

var wrapMu sync.Mutex

// limitedBinary returns a small shell wrapper that lowers the address-space limit and then
// becomes this test binary (the worker). "" (= no wrapper) if it cannot be written.
func limitedBinary() string {
	wrapMu.Lock()
	defer wrapMu.Unlock()
	p := filepath.Join(procRoot(), "worker.sh")
	if _, err := os.Stat(p); err == nil {
		return p
	}
	self, err := os.Executable()
	if err != nil {
		return ""
	}
	if err := os.MkdirAll(procRoot(), 0o755); err != nil {
		return ""
	}
	script := fmt.Sprintf("#!/bin/sh\nulimit -v %d\nexec %q \"$@\"\n", memLimitKiB, self)
	if err := os.WriteFile(p, []byte(script), 0o755); err != nil {
		return ""
	}
	return p
}

func workerOpts(dataDir string, timeout time.Duration) sut.Options {
	return sut.Options{DataDir: dataDir, Timeout: timeout, Binary: limitedBinary(), Env: map[string]string{"VERIF_LOGLEVEL": "info"}}
}

func envKey(seed int, blob string) string {
	return fmt.Sprintf("%d-%08x", seed, crc32.ChecksumIEEE([]byte(blob)))
}

// freshEnv ingests dataset seed in this process and returns its environment.
func freshEnv(seed int) *envT {
	envMu.Lock()
	defer envMu.Unlock()
	k := fmt.Sprintf("fresh-%d", seed)
	if e, ok := envs[k]; ok {
		return e
	}
	e := &envT{seed: seed}
	e.err = e.ingest()
	if e.err == nil {
		e.err = e.adopt()
	}
	envs[k] = e
	if e.err == nil {
		envs[envKey(seed, e.blob)] = e
	}
	return e
}

// envOf returns the environment a case was enumerated on: the one this process built itself, or
// (replay) one re-created from the tree inside the case.
func envOf(fc *faultCase) *envT {
	envMu.Lock()
	defer envMu.Unlock()
	k := envKey(fc.DS, fc.Tree)
	if e, ok := envs[k]; ok {
		return e
	}
	e := &envT{seed: fc.DS, blob: fc.Tree, blobRoot: fc.Root}
	e.err = e.adopt()
	envs[k] = e
	return e
}

func bulkOK(c *sut.Client, evs []*model.Event) error {
	br, err := c.Bulk(0, gen.BulkBody(idxName, evs))
	if err != nil {
		return err
	}
	if br.Err != "" || strings.Contains(string(br.Response), `"errors":true`) {
		return fmt.Errorf("bulk not accepted: %s %s", br.Err, br.Response)
	}
	return c.Flush()
}

func (e *envT) dirs() {
	e.root = filepath.Join(procRoot(), fmt.Sprintf("%06d", e.seed%1000000))
	e.dataDir = filepath.Join(e.root, "data")
}

// ingest builds the two segments with a first server and captures the data directory.
func (e *envT) ingest() error {
	sweepStale()
	e.dirs()
	_ = os.RemoveAll(e.root)
	if err := os.MkdirAll(e.root, 0o755); err != nil {
		return err
	}
	ctrl, dmg, blocks := genEvents(e.seed)
	all := append(append([]*model.Event{}, ctrl...), dmg...)
	lo, hi := all[0].Ts, all[0].Ts
	for _, ev := range all {
		if ev.Ts < lo {
			lo = ev.Ts
		}
		if ev.Ts > hi {
			hi = ev.Ts
		}
	}
	dn, dg := map[int64]int64{}, map[int64]string{}
	for _, ev := range dmg {
		f, _ := ev.Flat()
		dn[ev.Vid], dg[ev.Vid] = f["num"].I, f["grp"].S
	}
	c, err := sut.Start(workerOpts(e.dataDir, 60*time.Second))
	if err != nil {
		return fmt.Errorf("worker start: %v", err)
	}
	closed := false
	defer func() {
		if !closed {
			c.Close()
		}
	}()
	if err := c.Call(&sut.Req{Op: "c18.sortcols", Index: idxName, Strs: []string{"num"}}, nil); err != nil {
		return fmt.Errorf("sort columns: %v", err)
	}
	// run the filters and the group-by before anything is ingested: the query tracker then keeps
	// persistent-query results (.pqmr) and a star tree (.strl/.strm) for them in every new segment
	for i := 0; i < 2; i++ {
		for _, q := range querySet(dn, dg) {
			if q.Name == "stats_by" || strings.HasPrefix(q.Name, "filter_cmi") || strings.HasPrefix(q.Name, "filter_raw") {
				continue // stay queries that have to read the micro indexes / column files
			}
			if _, err := c.Search(sut.Query{Index: idxName, Text: q.Text, Start: lo - 1, End: hi + 1, Size: 500}); err != nil {
				return fmt.Errorf("pre-query %q: %v", q.Text, err)
			}
		}
	}
	// control segment: two blocks
	h := len(ctrl) / 2
	if err := bulkOK(c, ctrl[:h]); err != nil {
		return err
	}
	if err := bulkOK(c, ctrl[h:]); err != nil {
		return err
	}
	if err := c.Rotate(); err != nil {
		return err
	}
	// the segment that will be damaged: 2-3 blocks; it is rotated last, so its line ends segmeta.json
	per := (len(dmg) + blocks - 1) / blocks
	for i := 0; i < len(dmg); i += per {
		j := i + per
		if j > len(dmg) {
			j = len(dmg)
		}
		if err := bulkOK(c, dmg[i:j]); err != nil {
			return err
		}
	}
	if err := c.Rotate(); err != nil {
		return err
	}
	c.Close()
	closed = true
	tree, err := readTree(e.dataDir)
	if err != nil {
		return err
	}
	e.blob = packTree(tree)
	e.blobRoot = e.dataDir
	return nil
}

// adopt re-creates the tree of e.blob under this process's scratch root, finds the damaged
// segment's files and records the answers of a fresh server on the undamaged files.
func (e *envT) adopt() error {
	e.dirs()
	if len(e.dataDir) != len(e.blobRoot) {
		return fmt.Errorf("scratch path %q has another length than %q, where the tree was built (set C18_ROOT)", e.dataDir, e.blobRoot)
	}
	tree, err := unpackTree(e.blob)
	if err != nil {
		return err
	}
	if e.dataDir != e.blobRoot {
		for rel, b := range tree {
			if rel == segmetaFn || strings.HasSuffix(rel, ".sfm") {
				tree[rel] = bytes.ReplaceAll(b, []byte(e.blobRoot), []byte(e.dataDir))
			}
		}
	}
	e.tree = tree
	// the damaged segment is segment 1 of the only stream of the index
	e.segRelD = ""
	for rel := range tree {
		parts := strings.Split(rel, "/")
		if len(parts) >= 6 && parts[0] == hostDir && parts[1] == "final" && parts[2] == idxName && parts[4] == "1" {
			e.segRelD = strings.Join(parts[:5], "/")
		}
	}
	if e.segRelD == "" {
		return fmt.Errorf("segment directory of the second segment not found in the tree")
	}
	if err := e.restore(); err != nil {
		return err
	}
	// originals: match-all on the undamaged files
	e.lo, e.hi = 1, 1<<62
	e.queries = []querySpec{{"matchall", "*"}}
	res, _, err := e.runQueries(60*time.Second, false)
	if err != nil {
		return fmt.Errorf("baseline match-all: %v", err)
	}
	ma := res[0]
	if ma.Err != "" || len(ma.Errors) > 0 || len(ma.Odd) > 0 || ma.Dups > 0 || len(ma.Recs) < 20 {
		return fmt.Errorf("baseline match-all is not usable: %d records, err=%q errors=%v", len(ma.Recs), ma.Err, ma.Errors)
	}
	e.isCtrl, e.isDmg, e.dmgNum = map[int64]bool{}, map[int64]bool{}, map[int64]int64{}
	dg := map[int64]string{}
	colSet := map[string]bool{}
	for vid, r := range ma.Recs {
		for k := range r {
			colSet[k] = true
		}
		seg, _ := r["seg"].Str()
		n, okN := r["num"].Int()
		g, okG := r["grp"].Str()
		if wv, ok := vidFromWord(r); !ok || wv != vid || !okN || !okG {
			return fmt.Errorf("baseline record _vid=%d lacks its fixed columns: %v", vid, r)
		}
		switch seg {
		case "c":
			e.isCtrl[vid] = true
		case "d":
			e.isDmg[vid] = true
			e.dmgNum[vid] = n
			dg[vid] = g
		default:
			return fmt.Errorf("baseline record _vid=%d has seg=%q", vid, seg)
		}
	}
	if len(e.isCtrl) < 5 || len(e.isDmg) < 10 {
		return fmt.Errorf("baseline has %d control and %d other events", len(e.isCtrl), len(e.isDmg))
	}
	cols := make([]string, 0, len(colSet))
	for n := range colSet {
		cols = append(cols, n)
	}
	if err := e.listFiles(cols); err != nil {
		return err
	}
	e.queries = querySet(e.dmgNum, dg)
	if err := e.restore(); err != nil {
		return err
	}
	t0 := time.Now()
	res, _, err = e.runQueries(60*time.Second, true)
	e.startDur = time.Since(t0)
	if err != nil {
		return fmt.Errorf("baseline run: %v", err)
	}
	for i, a := range res {
		if a.Err != "" || len(a.Errors) > 0 {
			return fmt.Errorf("baseline query %q answered with an error: %q %v", e.queries[i].Text, a.Err, a.Errors)
		}
	}
	if len(res[0].Recs) != len(ma.Recs) || len(res[5].Recs) != len(ma.Recs) {
		return fmt.Errorf("baseline match-all / sort return %d / %d of %d events", len(res[0].Recs), len(res[5].Recs), len(ma.Recs))
	}
	e.base = res
	// the originals must not depend on the run: ask two more fresh servers and stop comparing
	// whatever differs on undamaged files
	e.unstable = map[string]map[string]bool{"sort": {"timestamp": true}}
	for i := 0; i < 2; i++ {
		if err := e.restore(); err != nil {
			return err
		}
		again, _, err := e.runQueries(60*time.Second, true)
		if err != nil {
			return fmt.Errorf("baseline re-run: %v", err)
		}
		for qi, q := range e.queries {
			a, b := again[qi], e.base[qi]
			if len(a.Recs) != len(b.Recs) || len(a.Buckets) != len(b.Buckets) {
				return fmt.Errorf("query %q answers differently on the same undamaged files (%d/%d events, %d/%d groups)", q.Text, len(a.Recs), len(b.Recs), len(a.Buckets), len(b.Buckets))
			}
			for vid, r := range b.Recs {
				ar, ok := a.Recs[vid]
				if !ok {
					return fmt.Errorf("query %q answers differently on the same undamaged files (_vid=%d)", q.Text, vid)
				}
				for col, v := range r {
					if ar[col] != v {
						if e.unstable[q.Name] == nil {
							e.unstable[q.Name] = map[string]bool{}
						}
						e.unstable[q.Name][col] = true
					}
				}
			}
			for key, m := range b.Buckets {
				if !sameBucket(a.Buckets[key], m) {
					return fmt.Errorf("query %q answers differently on the same undamaged files (group %q)", q.Text, key)
				}
			}
		}
	}
	return e.restore()
}

// ---- running the query set ------------------------------------------------------------------

type runInfo struct {
	Synced bool
	SMI    int64
	Step   string // where a transport error happened
}

func toAnswer(sr *sut.SearchResult) *answer {
	a := &answer{Err: sr.Err, Errors: sr.Errors, Recs: map[int64]sut.Record{}, N: len(sr.Records)}
	for _, r := range sr.Records {
		v, ok := r["_vid"].Int()
		if !ok {
			a.Odd = append(a.Odd, r)
			continue
		}
		if _, dup := a.Recs[v]; dup {
			a.Dups++
			a.Odd = append(a.Odd, r)
			continue
		}
		a.Recs[v] = r
	}
	if len(sr.Measure) > 0 {
		a.Buckets = map[string]map[string]sut.TV{}
		for _, b := range sr.Measure {
			// by-columns come in the engine's own order: put seg first
			gb := append([]string{}, b.GroupBy...)
			if len(sr.GroupByCols) == len(gb) {
				for i, c := range sr.GroupByCols {
					if c == "seg" && i > 0 {
						gb[0], gb[i] = gb[i], gb[0]
					}
				}
			}
			a.Buckets[strings.Join(gb, "\x1f")] = b.Vals
		}
	}
	return a
}

// runQueries starts a fresh server on dataDir (as it is now), waits for the start-up metadata
// sync, and runs the query set (the star-tree query only if withTree). A transport error (death,
// time-out) is returned with the answers obtained so far. Answers are indexed like e.queries;
// a query that was not run has a nil answer.
func (e *envT) runQueries(timeout time.Duration, withTree bool) ([]*answer, *runInfo, error) {
	info := &runInfo{Step: "start"}
	c, err := sut.Start(workerOpts(e.dataDir, timeout))
	if err != nil {
		return nil, info, &startErr{err: err}
	}
	defer c.Close()
	var st SyncState
	info.Step = "waitsync"
	if err := c.Call(&sut.Req{Op: "c18.waitsync", Ints: map[string]int64{"ms": 4000}}, &st); err != nil {
		return nil, info, &transportErr{err: err, detail: detailOf(c, err)}
	}
	info.Synced, info.SMI = st.Synced, st.SMI
	out := make([]*answer, len(e.queries))
	for i, q := range e.queries {
		if q.Name == "stats_tree" && !withTree {
			continue
		}
		info.Step = q.Name
		if q.Name == "sort" {
			if err := c.Set("gomaxprocs", 1); err != nil {
				return out, info, &transportErr{err: err, detail: detailOf(c, err)}
			}
		}
		sr, err := c.Search(sut.Query{Index: idxName, Text: q.Text, Start: e.lo, End: e.hi, Size: 500})
		if err != nil {
			return out, info, &transportErr{err: err, detail: detailOf(c, err)}
		}
		if q.Name == "sort" {
			if err := c.Set("gomaxprocs", int64(runtime.NumCPU())); err != nil {
				return out, info, &transportErr{err: err, detail: detailOf(c, err)}
			}
		}
		out[i] = toAnswer(sr)
	}
	return out, info, nil
}

type startErr struct{ err error }

func (s *startErr) Error() string { return "worker start: " + s.err.Error() }

type transportErr struct {
	err    error
	detail string
}

func (t *transportErr) Error() string { return t.err.Error() }

func detailOf(c *sut.Client, err error) string {
	d := pt.CrashDetail(c)
	// keep the panic head: it names the decoder that failed
	if i := strings.Index(d, "panic:"); i >= 0 {
		d = d[i:]
	} else if i := strings.Index(d, "fatal error:"); i >= 0 {
		d = d[i:]
	}
	if len(d) > 2500 {
		d = d[:2500]
	}
	return d
}

func xxhashSum(s string) uint64 { return xxhash.Sum64String(s) }
