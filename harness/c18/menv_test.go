package c18

// Metrics part: two rotated metrics segments (the first is the control, the second gets
// damaged), the shared tags tree, the metrics meta file; PromQL selectors as queries.

import (
	"bytes"
	"errors"
	"fmt"
	"hash/crc32"
	"os"
	"path/filepath"
	"sort"
	"strings"
	"testing"
	"time"

	"pgregory.net/rapid"

	"verifharness/pt"
	"verifharness/sut"
)

const (
	mMetaFn = "ingestnodes/" + hostDir + "/metricmeta.json"
	mBase   = uint32(1700000000)
	mSplit  = mBase + 5000 // datapoints before it are in the control segment
)

type mPoint struct {
	Host  string
	T     uint32
	Value float64
}

type mAnswer struct {
	ConvErr string
	ErrList []string
	Pts     map[string]map[uint32]uint64 // series id → time → value bits
}

type mEnv struct {
	seed     int
	root     string
	dataDir  string
	tree     map[string][]byte
	blob     string
	blobRoot string
	files    []*segFile
	byRel    map[string]*segFile
	queries  []string
	base     []*mAnswer
	err      error
}

var mEnvs = map[string]*mEnv{}

// genMetricPoints draws the datapoints: 3-4 series of one metric (tags host, dc), two blocks per
// segment, values unique per point.
func genMetricPoints(seed int) (ctrl [][]mPoint, dmg [][]mPoint, hosts []string) {
	type out struct {
		hosts  []string
		nPts   [4]int
		steps  [4]int
		values []int
	}
	o := rapid.Custom(func(t *rapid.T) out {
		var r out
		n := rapid.IntRange(3, 4).Draw(t, "series")
		for i := 0; i < n; i++ {
			r.hosts = append(r.hosts, fmt.Sprintf("h%d", i+1))
		}
		for b := 0; b < 4; b++ {
			r.nPts[b] = rapid.IntRange(4, 9).Draw(t, "pts")
			r.steps[b] = rapid.SampledFrom([]int{1, 10, 15, 60}).Draw(t, "step")
		}
		for i := 0; i < 4*9*4; i++ {
			r.values = append(r.values, rapid.IntRange(-5000, 5000).Draw(t, "v"))
		}
		return r
	}).Example(seed)
	vi := 0
	block := func(b int, t0 uint32) []mPoint {
		var pts []mPoint
		for i := 0; i < o.nPts[b]; i++ {
			for _, h := range o.hosts {
				v := float64(o.values[vi%len(o.values)]) + float64(vi)/1024
				vi++
				pts = append(pts, mPoint{Host: h, T: t0 + uint32(i*o.steps[b]), Value: v})
			}
		}
		return pts
	}
	ctrl = [][]mPoint{block(0, mBase), block(1, mBase+1000)}
	dmg = [][]mPoint{block(2, mSplit+100), block(3, mSplit+1500)}
	return ctrl, dmg, o.hosts
}

func mBody(pts []mPoint) []byte {
	var sb strings.Builder
	sb.WriteString("[")
	for i, p := range pts {
		if i > 0 {
			sb.WriteString(",")
		}
		dc := "d0"
		if p.Host == "h2" || p.Host == "h4" {
			dc = "d1"
		}
		fmt.Fprintf(&sb, `{"metric":"cpu","tags":{"host":%q,"dc":%q},"timestamp":%d,"value":%v}`, p.Host, dc, p.T, p.Value)
	}
	sb.WriteString("]")
	return []byte(sb.String())
}

func (e *mEnv) dirs() {
	e.root = filepath.Join(procRoot(), fmt.Sprintf("m%05d", e.seed%100000))
	e.dataDir = filepath.Join(e.root, "data")
}

func (e *mEnv) ingest() error {
	sweepStale()
	e.dirs()
	_ = os.RemoveAll(e.root)
	if err := os.MkdirAll(e.root, 0o755); err != nil {
		return err
	}
	ctrl, dmg, _ := genMetricPoints(e.seed)
	c, err := sut.Start(workerOpts(e.dataDir, 60*time.Second))
	if err != nil {
		return fmt.Errorf("worker start: %v", err)
	}
	closed := false
	defer func() {
		if !closed {
			c.Close()
		}
	}()
	put := func(pts []mPoint) error {
		var pr MPut
		if err := c.Call(&sut.Req{Op: "c18.mput", Body: mBody(pts)}, &pr); err != nil {
			return err
		}
		if pr.Err != "" || pr.Failed != 0 || pr.Success != uint64(len(pts)) {
			return fmt.Errorf("put answered success=%d failed=%d err=%q for %d points", pr.Success, pr.Failed, pr.Err, len(pts))
		}
		return nil
	}
	for _, seg := range [][][]mPoint{ctrl, dmg} {
		if err := put(seg[0]); err != nil {
			return err
		}
		if err := c.Call(&sut.Req{Op: "c18.mrotate", Name: "block"}, nil); err != nil {
			return err
		}
		if err := put(seg[1]); err != nil {
			return err
		}
		if err := c.Call(&sut.Req{Op: "c18.mrotate", Name: "segment"}, nil); err != nil {
			return err
		}
	}
	if err := c.Call(&sut.Req{Op: "c18.mflush"}, nil); err != nil {
		return err
	}
	c.Close()
	closed = true
	tree, err := readTree(e.dataDir)
	if err != nil {
		return err
	}
	// write-ahead logs and suffix files are not segment files and do not matter after a clean stop
	e.blob = packTree(tree)
	e.blobRoot = e.dataDir
	return nil
}

func mKind(rel string) string {
	ext := strings.TrimPrefix(filepath.Ext(rel), ".")
	switch ext {
	case "tsg", "tso", "mbsu", "mnm":
		return ext
	}
	if strings.Contains(rel, "/final/tth/") {
		return "tth"
	}
	return "other_" + ext
}

func (e *mEnv) restore() error {
	if err := os.RemoveAll(e.dataDir); err != nil {
		return err
	}
	_ = os.RemoveAll(sut.AuxDir(e.dataDir))
	for rel, b := range e.tree {
		p := filepath.Join(e.dataDir, rel)
		if err := os.MkdirAll(filepath.Dir(p), 0o755); err != nil {
			return err
		}
		if err := os.WriteFile(p, b, 0o644); err != nil {
			return err
		}
	}
	return nil
}

func (e *mEnv) adopt() error {
	e.dirs()
	if len(e.dataDir) != len(e.blobRoot) {
		return fmt.Errorf("scratch path %q has another length than %q, where the tree was built (set C18_ROOT)", e.dataDir, e.blobRoot)
	}
	tree, err := unpackTree(e.blob)
	if err != nil {
		return err
	}
	if e.dataDir != e.blobRoot {
		for rel, b := range tree {
			if rel == mMetaFn {
				tree[rel] = bytes.ReplaceAll(b, []byte(e.blobRoot), []byte(e.dataDir))
			}
		}
	}
	e.tree = tree
	// damaged = metrics segment 1 of the shard that holds data; shared: its tags-tree files
	var segDir string
	for _, rel := range pt.SortedKeys(tree) {
		parts := strings.Split(rel, "/")
		if len(parts) == 6 && parts[0] == hostDir && parts[1] == "final" && parts[2] == "ts" && parts[4] == "1" && strings.HasSuffix(rel, ".mbsu") {
			segDir = strings.Join(parts[:5], "/")
		}
	}
	if segDir == "" {
		return fmt.Errorf("second metrics segment not found in the tree")
	}
	e.files = nil
	for _, rel := range pt.SortedKeys(tree) {
		b := tree[rel]
		if len(b) == 0 {
			continue
		}
		if strings.HasPrefix(rel, segDir+"/") || strings.HasPrefix(rel, hostDir+"/final/tth/") {
			e.files = append(e.files, &segFile{Rel: rel, Kind: mKind(rel), Data: b, CRC: crc32.ChecksumIEEE(b)})
		}
	}
	mm := tree[mMetaFn]
	key := []byte(filepath.Join(e.dataDir, segDir) + "/")
	for start := 0; start < len(mm); {
		end := bytes.IndexByte(mm[start:], '\n')
		if end < 0 {
			end = len(mm)
		} else {
			end = start + end + 1
		}
		if bytes.Contains(mm[start:end], key) {
			line := mm[start:end]
			e.files = append(e.files, &segFile{Rel: mMetaFn, Kind: "mmeta", Off: start, Data: line, CRC: crc32.ChecksumIEEE(line), NoTrunc: end != len(mm)})
		}
		start = end
	}
	sort.Slice(e.files, func(i, j int) bool { return e.files[i].Rel < e.files[j].Rel })
	e.byRel = map[string]*segFile{}
	for _, f := range e.files {
		e.byRel[f.Rel] = f
	}
	if e.byRel[mMetaFn] == nil {
		return fmt.Errorf("no line for the second metrics segment in %s", mMetaFn)
	}
	e.queries = []string{`cpu`, `cpu{host="h1"}`, `cpu{dc="d1"}`, `cpu{host=~"h2|h3"}`}
	if err := e.restore(); err != nil {
		return err
	}
	res, _, err := e.run(60 * time.Second)
	if err != nil {
		return fmt.Errorf("baseline run: %v", err)
	}
	nCtrl, nDmg := 0, 0
	for i, a := range res {
		if a.ConvErr != "" || len(a.ErrList) > 0 || len(a.Pts) == 0 {
			return fmt.Errorf("baseline %q: convErr=%q errors=%v series=%d", e.queries[i], a.ConvErr, a.ErrList, len(a.Pts))
		}
	}
	for _, pts := range res[0].Pts {
		for t := range pts {
			if t < mSplit {
				nCtrl++
			} else {
				nDmg++
			}
		}
	}
	if nCtrl < 20 || nDmg < 20 {
		return fmt.Errorf("baseline has %d control and %d other datapoints", nCtrl, nDmg)
	}
	e.base = res
	return e.restore()
}

func (e *mEnv) run(timeout time.Duration) ([]*mAnswer, string, error) {
	step := "start"
	c, err := sut.Start(workerOpts(e.dataDir, timeout))
	if err != nil {
		return nil, step, &startErr{err: err}
	}
	defer c.Close()
	var out []*mAnswer
	for _, q := range e.queries {
		step = q
		var mr MResult
		if err := c.Call(&sut.Req{Op: "c18.mquery", Text: q, Start: uint64(mBase - 10), End: uint64(mSplit + 5000)}, &mr); err != nil {
			return out, step, &transportErr{err: err, detail: detailOf(c, err)}
		}
		a := &mAnswer{ConvErr: mr.ConvErr, ErrList: mr.ErrList, Pts: map[string]map[uint32]uint64{}}
		for _, s := range mr.Series {
			m := map[uint32]uint64{}
			for _, p := range s.Pts {
				m[p.T] = p.Bits
			}
			a.Pts[s.ID] = m
		}
		out = append(out, a)
	}
	return out, step, nil
}

func freshMEnv(seed int) *mEnv {
	envMu.Lock()
	defer envMu.Unlock()
	k := fmt.Sprintf("mfresh-%d", seed)
	if e, ok := mEnvs[k]; ok {
		return e
	}
	e := &mEnv{seed: seed}
	e.err = e.ingest()
	if e.err == nil {
		e.err = e.adopt()
	}
	mEnvs[k] = e
	if e.err == nil {
		mEnvs[envKey(seed, e.blob)] = e
	}
	return e
}

func mEnvOf(fc *faultCase) *mEnv {
	envMu.Lock()
	defer envMu.Unlock()
	k := envKey(fc.DS, fc.Tree)
	if e, ok := mEnvs[k]; ok {
		return e
	}
	e := &mEnv{seed: fc.DS, blob: fc.Tree, blobRoot: fc.Root}
	e.err = e.adopt()
	mEnvs[k] = e
	return e
}

// judgeM: every datapoint of the control time range is returned unchanged; a returned datapoint
// of the damaged range equals the original datapoint of that series and time; nothing else is
// returned. For faults in the tags tree (shared by both segments: it maps tag values to series)
// only the second half is asserted.
func (e *mEnv) judgeM(fc *faultCase, res []*mAnswer, o *pt.Obs) *viol {
	shared := fc.Kind == "tth"
	noticed := false
	for i, q := range e.queries {
		a, b := res[i], e.base[i]
		info := fmt.Sprintf("(response: convErr=%q errors=%v series=%d)", a.ConvErr, a.ErrList, len(a.Pts))
		missing := 0
		for _, id := range pt.SortedKeys(b.Pts) {
			for t, bits := range b.Pts[id] {
				got, ok := a.Pts[id][t]
				if ok && got == bits {
					continue
				}
				if !ok {
					missing++
				}
				if t < mSplit && !shared {
					sym := "cross"
					if len(a.ErrList) > 0 || a.ConvErr != "" {
						sym = "abort"
					}
					if !ok {
						return violf(sym, "selector %s: datapoint t=%d of series %s in the UNDAMAGED segment is no longer returned %s", q, t, id, info)
					}
					return violf("cross", "selector %s: datapoint t=%d of series %s in the UNDAMAGED segment changed: bits %#x, original %#x", q, t, id, got, bits)
				}
			}
		}
		for _, id := range pt.SortedKeys(a.Pts) {
			orig, ok := b.Pts[id]
			if !ok {
				return violf("invented", "selector %s returned series %s, which is not in the answer on undamaged files %s", q, id, info)
			}
			for t, bits := range a.Pts[id] {
				w, ok := orig[t]
				if !ok {
					return violf("invented", "selector %s: series %s has a datapoint at t=%d that was never stored (value bits %#x) %s", q, id, t, bits, info)
				}
				if w != bits {
					return violf("altered", "selector %s: series %s t=%d: value bits %#x, original %#x %s", q, id, t, bits, w, info)
				}
			}
		}
		switch {
		case missing > 0 && (len(a.ErrList) > 0 || a.ConvErr != ""):
			o.Class("selector_missing_with_error")
			noticed = true
		case missing > 0:
			o.Class("selector_missing_silently")
			noticed = true
		case len(a.ErrList) > 0:
			o.Class("selector_complete_with_error")
			noticed = true
		default:
			o.Class("selector_as_original")
		}
	}
	if noticed {
		o.NonTrivial()
		o.Class("noticed_" + fc.Kind)
	}
	return nil
}

func checkMetricsFault(fc *faultCase, o *pt.Obs) error {
	e := mEnvOf(fc)
	if e.err != nil {
		return pt.Inconclusivef("metrics dataset %d could not be prepared: %v", fc.DS, e.err)
	}
	f := e.byRel[fc.Rel]
	if f == nil || len(f.Data) != fc.Size || f.CRC != fc.CRC {
		return pt.Inconclusivef("the pristine file %s differs from the one this case was generated on", fc.Rel)
	}
	if fc.Pos < 0 || fc.Pos >= len(f.Data) {
		return pt.Inconclusivef("position outside the file")
	}
	o.Class("file_" + f.Kind)
	o.Class("op_" + fc.Op)
	o.Class("file_" + f.Kind + "_" + fc.Region)
	run := func() ([]*mAnswer, string, error) {
		if err := e.restore(); err != nil {
			return nil, "", pt.Inconclusivef("restore: %v", err)
		}
		if err := applyFault(e.dataDir, fc, f); err != nil {
			return nil, "", pt.Inconclusivef("apply fault: %v", err)
		}
		return e.run(cmdTimeout)
	}
	res, step, err := run()
	if err != nil {
		var inc *pt.Inconclusive
		if errors.As(err, &inc) {
			return inc
		}
		var se *startErr
		if errors.As(err, &se) {
			if strings.Contains(se.Error(), sut.ErrWorkerDied.Error()) && (strings.Contains(se.Error(), "panic:") || strings.Contains(se.Error(), "fatal error:")) {
				return v18crash(fc, o, "start", se.Error())
			}
			return pt.Inconclusivef("%v", se)
		}
		var te *transportErr
		if !errors.As(err, &te) {
			return pt.Inconclusivef("unexpected error: %v", err)
		}
		if errors.Is(te.err, sut.ErrWorkerDied) {
			return v18crash(fc, o, step, te.detail)
		}
		if msg := requestPanic(te.err); msg != "" {
			return v18crash(fc, o, step, msg)
		}
		if errors.Is(te.err, sut.ErrTimeout) {
			_, step2, err2 := run()
			var te2 *transportErr
			if err2 == nil || !errors.As(err2, &te2) || !errors.Is(te2.err, sut.ErrTimeout) {
				return pt.Inconclusivef("%s timed out once (%s), not on the second attempt", fc, step)
			}
			if rerr := e.restore(); rerr != nil {
				return pt.Inconclusivef("restore: %v", rerr)
			}
			t0 := time.Now()
			if _, _, perr := e.run(cmdTimeout); perr != nil || time.Since(t0) > cmdTimeout/4 {
				return pt.Inconclusivef("%s timed out twice, but the undamaged server is slow as well (%v, %v)", fc, time.Since(t0), perr)
			}
			return v18hang(fc, o, step+" / "+step2, te2.detail)
		}
		return pt.Inconclusivef("transport: %v", te.err)
	}
	if vl := e.judgeM(fc, res, o); vl != nil {
		o.NonTrivial()
		o.Class("noticed_" + fc.Kind)
		if (vl.sym == "altered" || vl.sym == "invented") && valueSource(fc.Kind) != "" {
			o.Class("value_from_damaged_" + fc.Kind)
			o.Class("outcome_answered")
			return nil
		}
		if id := knownFinding(fc, vl.sym, vl.msg); id != "" {
			o.Known(id)
			o.Class("known_" + id + "_" + vl.sym)
			return nil
		}
		return fmt.Errorf("fault {%s}: [%s] %v", fc, vl.sym, vl)
	}
	o.Class("outcome_answered")
	return nil
}

func mCasesForShard() []*faultCase {
	shard, shards := pt.Shard()
	perShard := pt.Cases(20)
	ds := 21
	e := freshMEnv(ds)
	if e.err != nil {
		return []*faultCase{{DS: ds, M: true, Rel: "dataset could not be prepared: " + e.err.Error()}}
	}
	all := faultsOf(e.files, ds, e.blobRoot, e.blob, true)
	picked := sample(all, perShard*shards, pt.SeedFromEnv()*104729+int64(ds))
	var out []*faultCase
	for i, f := range picked {
		if i%shards == shard {
			out = append(out, f)
		}
	}
	return out
}

func TestC18Metrics(t *testing.T) {
	defer cleanupProcRoot()
	var cases []*faultCase
	if os.Getenv("VERIF_REPLAY") == "" {
		cases = mCasesForShard()
	}
	pt.RunCases(t, "C18", func(i int) (*faultCase, bool) {
		if i >= len(cases) {
			return nil, false
		}
		return cases[i], true
	}, checkMetricsFault)
}
