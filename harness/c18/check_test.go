package c18

// C18 — damaged segment files are detected, never served as data (segment level).

import (
	"errors"
	"fmt"
	"os"
	"sort"
	"strings"
	"testing"
	"time"

	"verifharness/pt"
	"verifharness/sut"
)

// cmdTimeout is the per-command budget of a server running on damaged files. The undamaged
// query set takes a few milliseconds; see hang handling in checkFault.
const cmdTimeout = 20 * time.Second

// servedFromSideFile: values of these (query, column) pairs do not come from a checksummed column
// block when the named side file exists, so a difference there after damaging that side file is
// outside the statement ("altered values from a checksummed column block").
func valueSource(kind string) string {
	switch kind {
	case "srt":
		return "sort index"
	case "strl", "strm":
		return "star tree"
	case "sst":
		return "segment stats"
	}
	return ""
}

func recEqual(a, b sut.Record) (bool, string) {
	for k, v := range a {
		if v.IsNil() {
			continue
		}
		w, ok := b[k]
		if !ok || w.IsNil() {
			return false, fmt.Sprintf("column %q: got %q, original has no value", k, v)
		}
		if v != w {
			return false, fmt.Sprintf("column %q: got %q, original %q", k, v, w)
		}
	}
	for k, w := range b {
		if w.IsNil() {
			continue
		}
		if v, ok := a[k]; !ok || v.IsNil() {
			return false, fmt.Sprintf("column %q (original %q) is missing", k, w)
		}
	}
	return true, ""
}

// subRecord: every value present in r equals the original's; missing lists original columns absent from r.
func subRecord(r, orig sut.Record) (diff string, missing []string) {
	for k, v := range r {
		if v.IsNil() {
			continue
		}
		w, ok := orig[k]
		if !ok || w.IsNil() {
			return fmt.Sprintf("column %q: got %q, the original event has no such value", k, v), nil
		}
		if v != w {
			return fmt.Sprintf("column %q: got %q, original %q", k, v, w), nil
		}
	}
	for k, w := range orig {
		if w.IsNil() {
			continue
		}
		if v, ok := r[k]; !ok || v.IsNil() {
			missing = append(missing, k)
		}
	}
	sort.Strings(missing)
	return "", missing
}

func vidFromWord(r sut.Record) (int64, bool) {
	s, ok := r["word"].Str()
	if !ok || len(s) < 3 || s[0] != 'w' || s[len(s)-1] != 'x' {
		return 0, false
	}
	var v int64
	for _, ch := range s[1 : len(s)-1] {
		if ch < '0' || ch > '9' {
			return 0, false
		}
		v = v*10 + int64(ch-'0')
	}
	return v, true
}

type verdict struct {
	o  *pt.Obs
	fc *faultCase
	e  *envT
}

func errInfo(a *answer) string {
	return fmt.Sprintf("(response: err=%q errors=%v records=%d)", a.Err, a.Errors, a.N)
}

// judgeRecords applies the oracle to a query that returns events.
func (v *verdict) judgeRecords(q querySpec, a, b *answer) error {
	e, o := v.e, v.o
	full := e.base[0] // match-all on the undamaged files: the original of every event
	reported := a.Err != "" || len(a.Errors) > 0
	// control segment: every event the undamaged server returned for this query, unchanged
	for vid, want := range b.Recs {
		if !e.isCtrl[vid] {
			continue
		}
		got, ok := a.Recs[vid]
		if !ok {
			return fmt.Errorf("query %q: event _vid=%d of the UNDAMAGED segment is no longer returned %s", q.Text, vid, errInfo(a))
		}
		if eq, d := recEqual(got, want); !eq {
			return fmt.Errorf("query %q: event _vid=%d of the UNDAMAGED segment changed: %s\n  got  %v\n  want %v", q.Text, vid, d, got, want)
		}
	}
	missing, partial := 0, 0
	for vid := range b.Recs {
		if e.isDmg[vid] {
			if _, ok := a.Recs[vid]; !ok {
				missing++
			}
		}
	}
	check := func(r sut.Record) error {
		vid, hasVid := r["_vid"].Int()
		if !hasVid && !r["_vid"].IsNil() && r["_vid"] != "" {
			return fmt.Errorf("query %q returned a record whose _vid is not an integer (%q): %v", q.Text, r["_vid"], r)
		}
		if wv, ok := vidFromWord(r); ok {
			if hasVid && wv != vid {
				return fmt.Errorf("query %q returned a record mixing two events (_vid=%d, word of %d): %v", q.Text, vid, wv, r)
			}
			vid, hasVid = wv, true
		}
		if hasVid {
			if e.isCtrl[vid] {
				if _, inBase := b.Recs[vid]; !inBase {
					return fmt.Errorf("query %q: event _vid=%d of the UNDAMAGED segment is returned although it is not part of the answer on undamaged files: %v", q.Text, vid, r)
				}
				if eq, d := recEqual(r, full.Recs[vid]); !eq {
					return fmt.Errorf("query %q: event _vid=%d of the UNDAMAGED segment changed: %s", q.Text, vid, d)
				}
				return nil
			}
			orig, ok := full.Recs[vid]
			if !ok {
				return fmt.Errorf("query %q returned an event that was never stored (_vid=%d): %v", q.Text, vid, r)
			}
			if _, inBase := b.Recs[vid]; !inBase {
				o.Class("dmg_event_outside_answer")
			}
			diff, miss := subRecord(r, orig)
			if diff != "" {
				return fmt.Errorf("query %q: event _vid=%d of the damaged segment is returned with an altered value: %s %s\n  got      %v\n  original %v",
					q.Text, vid, diff, errInfo(a), r, orig)
			}
			if len(miss) > 0 {
				partial++
			}
			return nil
		}
		// no identity: must be a sub-record of some original event of the damaged segment
		for dv := range e.isDmg {
			if diff, _ := subRecord(r, full.Recs[dv]); diff == "" {
				partial++
				return nil
			}
		}
		return fmt.Errorf("query %q returned a record that is not part of any stored event %s: %v", q.Text, errInfo(a), r)
	}
	for _, r := range a.Recs {
		if err := v.tolerate(q, check(r)); err != nil {
			return err
		}
	}
	for _, r := range a.Odd {
		if err := v.tolerate(q, check(r)); err != nil {
			return err
		}
	}
	if a.Dups > 0 {
		o.Class("dmg_duplicate_events")
	}
	switch {
	case missing > 0 && reported:
		o.Class(q.Name + "_missing_with_error")
	case missing > 0:
		o.Class(q.Name + "_missing_silently")
	case partial > 0 && reported:
		o.Class(q.Name + "_partial_with_error")
	case partial > 0:
		o.Class(q.Name + "_partial_silently")
	case reported:
		o.Class(q.Name + "_complete_with_error")
	default:
		o.Class(q.Name + "_as_original")
	}
	return nil
}

// tolerate drops a value difference that the statement does not cover: the damaged file is a side
// file that itself stores the values the query displays (no checksummed column block involved).
// Differences in events of the undamaged segment are never dropped.
func (v *verdict) tolerate(q querySpec, err error) error {
	if err == nil {
		return nil
	}
	if strings.Contains(err.Error(), "UNDAMAGED") {
		return err
	}
	if src := valueSource(v.fc.Kind); src != "" {
		v.o.Class("value_from_damaged_" + v.fc.Kind)
		return nil
	}
	return err
}

func measure(m map[string]sut.TV, name string) (float64, bool) {
	for k, t := range m {
		if strings.HasPrefix(k, name) {
			return t.Float()
		}
	}
	return 0, false
}

func sameBucket(got, want map[string]sut.TV) bool {
	for k, w := range want {
		if got[k] != w {
			return false
		}
	}
	return true
}

// judgeStats applies the oracle to the statistics queries.
//
// Grouped by seg (stats_by: seg, grp; stats_tree: seg): every group of the undamaged segment
// (seg=c) must be returned exactly as on undamaged files; a group of the damaged segment must be
// one that exists on undamaged files, and its measures must be obtainable from a subset of the
// stored events of that group (count and sum not above the original, min/max stored values).
// Without grouping (stats_all) the result must be the undamaged segment's events plus a subset of
// the damaged segment's.
func (v *verdict) judgeStats(q querySpec, a, b *answer) error {
	e := v.e
	reported := a.Err != "" || len(a.Errors) > 0
	nums := map[float64]bool{}
	var sumD, cntD float64
	for _, n := range e.dmgNum {
		nums[float64(n)] = true
		sumD += float64(n)
		cntD++
	}
	if q.Name != "stats_all" {
		same := true
		for key, want := range b.Buckets {
			if !strings.HasPrefix(key, "c") {
				if _, ok := a.Buckets[key]; !ok {
					same = false
				}
				continue
			}
			got, ok := a.Buckets[key]
			if !ok {
				return fmt.Errorf("query %q: group %q of the UNDAMAGED segment is no longer returned %s", q.Text, key, errInfo(a))
			}
			if !sameBucket(got, want) {
				return fmt.Errorf("query %q: group %q of the UNDAMAGED segment changed: %v, on undamaged files %v %s", q.Text, key, got, want, errInfo(a))
			}
		}
		for key, m := range a.Buckets {
			bd, known := b.Buckets[key]
			if strings.HasPrefix(key, "c") && known {
				continue
			}
			if !known {
				tag := "a group that no stored event belongs to"
				if strings.HasPrefix(key, "c") {
					tag = "a group for the UNDAMAGED segment that does not exist on undamaged files"
				}
				if err := v.tolerate(q, fmt.Errorf("query %q returned %s: %q %v %s", q.Text, tag, key, m, errInfo(a))); err != nil {
					return err
				}
				same = false
				continue
			}
			if !sameBucket(m, bd) {
				same = false
			}
			var derr error
			bc, _ := measure(bd, "count")
			bs, _ := measure(bd, "sum")
			if c, ok := measure(m, "count"); !ok || c < 0 || c > bc {
				derr = fmt.Errorf("count not in [0,%v]", bc)
			} else if s, ok := measure(m, "sum"); ok && (s < 0 || s > bs) {
				derr = fmt.Errorf("sum(num)=%v not in [0,%v]", s, bs)
			} else if mn, ok := measure(m, "min"); ok && !nums[mn] {
				derr = fmt.Errorf("min(num)=%v is not a stored value", mn)
			} else if mx, ok := measure(m, "max"); ok && !nums[mx] {
				derr = fmt.Errorf("max(num)=%v is not a stored value", mx)
			}
			if derr != nil {
				if err := v.tolerate(q, fmt.Errorf("query %q: group %q cannot come from stored events of the damaged segment: %v; got %v, on undamaged files %v %s",
					q.Text, key, derr, m, bd, errInfo(a))); err != nil {
					return err
				}
			}
		}
		v.classStats(q, same, reported)
		return nil
	}
	// stats over both segments: the undamaged segment's share must be in the result
	var sumC, cntC float64
	minC, maxC := 1e18, -1e18
	for vid := range e.isCtrl {
		n, _ := e.base[0].Recs[vid]["num"].Float()
		nums[n] = true
		sumC += n
		cntC++
		if n < minC {
			minC = n
		}
		if n > maxC {
			maxC = n
		}
	}
	var m, bm map[string]sut.TV
	for _, mm := range a.Buckets {
		m = mm
	}
	for _, mm := range b.Buckets {
		bm = mm
	}
	if m == nil || len(a.Buckets) != 1 {
		return fmt.Errorf("query %q returns %d results although the UNDAMAGED segment holds %v events %s", q.Text, len(a.Buckets), cntC, errInfo(a))
	}
	same := sameBucket(m, bm)
	var derr error
	if c, ok := measure(m, "count"); !ok || c < cntC || c > cntC+cntD {
		derr = fmt.Errorf("count=%v not in [%v,%v]", c, cntC, cntC+cntD)
	} else if s, ok := measure(m, "sum"); !ok || s < sumC || s > sumC+sumD {
		derr = fmt.Errorf("sum(num)=%v not in [%v,%v]", s, sumC, sumC+sumD)
	} else if mn, ok := measure(m, "min"); !ok || mn > minC || !nums[mn] {
		derr = fmt.Errorf("min(num)=%v, the UNDAMAGED segment alone has %v", mn, minC)
	} else if mx, ok := measure(m, "max"); !ok || mx < maxC || !nums[mx] {
		derr = fmt.Errorf("max(num)=%v, the UNDAMAGED segment alone has %v", mx, maxC)
	}
	if derr != nil {
		// no tolerance needed for the control share: a damaged side file of the other segment
		// can only change that segment's share, and the bounds above allow any share
		if err := v.tolerate(q, fmt.Errorf("query %q: result cannot come from the stored events: %v; got %v, on undamaged files %v %s",
			q.Text, derr, m, bm, errInfo(a))); err != nil {
			return err
		}
	}
	v.classStats(q, same, reported)
	return nil
}

func (v *verdict) classStats(q querySpec, same, reported bool) {
	switch {
	case same && reported:
		v.o.Class(q.Name + "_complete_with_error")
	case same:
		v.o.Class(q.Name + "_as_original")
	case reported:
		v.o.Class(q.Name + "_missing_with_error")
	default:
		v.o.Class(q.Name + "_missing_silently")
	}
}

func (v *verdict) judge(res []*answer) error {
	for i, q := range v.e.queries {
		if res[i] == nil {
			continue
		}
		var err error
		switch q.Name {
		case "stats_by", "stats_all", "stats_tree":
			err = v.judgeStats(q, res[i], v.e.base[i])
		default:
			err = v.judgeRecords(q, res[i], v.e.base[i])
		}
		if err != nil {
			return err
		}
	}
	return nil
}

// panicSite extracts "file.go:line" of the first siglens frame of a panic trace.
func panicSite(detail string) string {
	lines := strings.Split(detail, "\n")
	for i, l := range lines {
		if strings.Contains(l, "github.com/siglens/siglens/pkg/") && i+1 < len(lines) {
			loc := strings.TrimSpace(lines[i+1])
			if j := strings.Index(loc, "/pkg/"); j >= 0 {
				loc = loc[j+1:]
			}
			if j := strings.IndexByte(loc, ' '); j >= 0 {
				loc = loc[:j]
			}
			fn := strings.TrimSpace(l)
			if j := strings.LastIndexByte(fn, '('); j >= 0 {
				fn = fn[:j]
			}
			if j := strings.LastIndexByte(fn, '/'); j >= 0 {
				fn = fn[j+1:]
			}
			return fn + " " + loc
		}
	}
	return ""
}

func checkFault(fc *faultCase, o *pt.Obs) error {
	e := envOf(fc)
	if e.err != nil {
		return pt.Inconclusivef("dataset %d could not be prepared: %v", fc.DS, e.err)
	}
	f := e.byRel[fc.Rel]
	if f == nil || len(f.Data) != fc.Size || f.CRC != fc.CRC {
		return pt.Inconclusivef("the pristine file %s differs from the one this case was generated on", fc.Rel)
	}
	if fc.Pos < 0 || fc.Pos >= len(f.Data) {
		return pt.Inconclusivef("position outside the file")
	}
	o.Class("file_" + f.Kind)
	o.Class("op_" + fc.Op)
	o.Class("file_" + f.Kind + "_" + fc.Region)
	o.Count("faults_"+f.Kind, 1)
	// every fault changes at least one byte of a file that the query set reads (all files of the
	// damaged segment are opened by at least one of the six queries or by the start-up load)
	o.NonTrivial()

	run := func() ([]*answer, *runInfo, error) {
		if err := e.restore(); err != nil {
			return nil, nil, pt.Inconclusivef("restore: %v", err)
		}
		if err := e.apply(fc, f); err != nil {
			return nil, nil, pt.Inconclusivef("apply fault: %v", err)
		}
		return e.runQueries(cmdTimeout, runsTree(fc))
	}
	res, info, err := run()
	if err != nil {
		var inc *pt.Inconclusive
		if errors.As(err, &inc) {
			return inc
		}
		var se *startErr
		if errors.As(err, &se) {
			if strings.Contains(se.Error(), sut.ErrWorkerDied.Error()) && (strings.Contains(se.Error(), "panic:") || strings.Contains(se.Error(), "fatal error:")) {
				return v18crash(fc, o, "start", se.Error())
			}
			return pt.Inconclusivef("%v", se)
		}
		var te *transportErr
		if !errors.As(err, &te) {
			return pt.Inconclusivef("unexpected error: %v", err)
		}
		if errors.Is(te.err, sut.ErrWorkerDied) {
			return v18crash(fc, o, info.Step, te.detail)
		}
		if errors.Is(te.err, sut.ErrTimeout) {
			// a time-out under machine load is not a verdict: try the same fault once more, then
			// make sure an undamaged server answers promptly right now
			step := info.Step
			_, info2, err2 := run()
			var te2 *transportErr
			if err2 == nil || !errors.As(err2, &te2) || !errors.Is(te2.err, sut.ErrTimeout) {
				return pt.Inconclusivef("%s timed out once (%s), not on the second attempt", fc, step)
			}
			if rerr := e.restore(); rerr != nil {
				return pt.Inconclusivef("restore: %v", rerr)
			}
			t0 := time.Now()
			if _, _, perr := e.runQueries(cmdTimeout, runsTree(fc)); perr != nil || time.Since(t0) > cmdTimeout/4 {
				return pt.Inconclusivef("%s timed out twice, but the undamaged server is slow as well (%v, %v)", fc, time.Since(t0), perr)
			}
			return v18hang(fc, o, fmt.Sprintf("%s / %s", step, info2.Step), te2.detail)
		}
		return pt.Inconclusivef("transport: %v", te.err)
	}
	if !info.Synced {
		o.Class("startup_sync_not_seen")
	}
	v := &verdict{o: o, fc: fc, e: e}
	if err := v.judge(res); err != nil {
		return fmt.Errorf("fault {%s}: %v", fc, err)
	}
	o.Class("outcome_answered")
	return nil
}

// runsTree: the star-tree query costs about a second per server (it clears a 300 MB buffer), so
// it is run for every fault in the files it can read and for one in eight of the others.
func runsTree(fc *faultCase) bool {
	switch fc.Kind {
	case "strl", "strm", "sfm", "segmeta", "bsu":
		return true
	}
	return fc.Pos%8 == 3
}

func v18crash(fc *faultCase, o *pt.Obs, step, detail string) error {
	o.Class("outcome_crash")
	return fmt.Errorf("fault {%s}: the server process died during %q: site=[%s]\n%s", fc, step, panicSite(detail), detail)
}

func v18hang(fc *faultCase, o *pt.Obs, step, detail string) error {
	o.Class("outcome_hang")
	return fmt.Errorf("fault {%s}: the server does not answer %q within %v (twice; an undamaged server answers at once)\n%s", fc, step, cmdTimeout, detail)
}

// ---- test -----------------------------------------------------------------------------------

func datasetSeeds() []int {
	if pt.Thorough() {
		return []int{11, 12, 13, 14}
	}
	return []int{11, 12}
}

// casesForShard deals the (sampled or complete) fault list of the datasets to this shard.
func casesForShard() []*faultCase {
	shard, shards := pt.Shard()
	perShard := pt.Cases(30)
	seeds := datasetSeeds()
	nD := len(seeds)
	if shards < nD {
		nD = 1
	}
	ds := seeds[shard%nD]
	sub, subs := shard/nD, (shards+nD-1-shard%nD)/nD
	e := freshEnv(ds)
	if e.err != nil {
		return []*faultCase{{DS: ds, Rel: "dataset could not be prepared: " + e.err.Error()}}
	}
	all := e.allFaults()
	picked := sample(all, perShard*subs, pt.SeedFromEnv()*7919+int64(ds))
	var out []*faultCase
	for i, f := range picked {
		if i%subs == sub {
			out = append(out, f)
		}
	}
	return out
}

func TestC18Faults(t *testing.T) {
	defer cleanupProcRoot()
	var cases []*faultCase
	if os.Getenv("VERIF_REPLAY") == "" {
		cases = casesForShard()
	}
	pt.RunCases(t, "C18", func(i int) (*faultCase, bool) {
		if i >= len(cases) {
			return nil, false
		}
		return cases[i], true
	}, checkFault)
}
