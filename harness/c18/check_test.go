package c18

// C18 — damaged segment files are detected, never served as data (segment level).

import (
	"errors"
	"fmt"
	"os"
	"sort"
	"strings"
	"testing"
	"time"

	"verifharness/pt"
	"verifharness/sut"
)

// cmdTimeout is the per-command budget of a server running on damaged files. The undamaged
// query set takes a few milliseconds; see hang handling in checkFault.
const cmdTimeout = 20 * time.Second

// valueSource: these side files themselves store values that a query displays (sort index: the
// sorted column's values and record numbers; star tree: group keys and aggregates; segment stats:
// aggregates; roll-ups: per-bucket counts). A difference in the damaged segment's share after
// damaging such a file does not come "from a checksummed column block" and is outside the
// statement; the undamaged segment's share stays asserted.
func valueSource(kind string) string {
	switch kind {
	case "srt":
		return "sort index"
	case "strl", "strm":
		return "star tree"
	case "sst":
		return "segment stats"
	case "crup":
		return "roll-up"
	case "sfm", "segmeta":
		// record count, time range, column names: count-type queries are answered from them (a
		// damaged segmeta.json line can register a phantom segment whose recordCount is added)
		return "segment meta"
	case "tsg", "tso", "mbsu", "mnm", "tth", "mmeta":
		// no file of a metrics segment carries a checksum: which series and which values come back
		// after damage to them is outside the statement's "checksummed column block"
		return "metrics segment file"
	}
	return ""
}

// viol is a violation found by the oracle. sym classifies it:
//
//	cross     events / groups of the UNDAMAGED segment missing or changed in an answered query
//	abort     the whole query was rejected with an error, so the undamaged segment's events are not returned
//	altered   an event of the damaged segment is returned with a value that differs from the original
//	invented  a returned event / group / aggregate cannot come from stored events of the damaged segment
//	crash     the server process died
//	hang      the server does not answer
type viol struct {
	sym string
	msg string
}

func (v *viol) Error() string { return v.msg }

func violf(sym, f string, a ...interface{}) *viol { return &viol{sym: sym, msg: fmt.Sprintf(f, a...)} }

func recEqual(a, b sut.Record, ign map[string]bool) (bool, string) {
	for k, v := range a {
		if v.IsNil() || ign[k] {
			continue
		}
		w, ok := b[k]
		if !ok || w.IsNil() {
			return false, fmt.Sprintf("column %q: got %q, original has no value", k, v)
		}
		if v != w {
			return false, fmt.Sprintf("column %q: got %q, original %q", k, v, w)
		}
	}
	for k, w := range b {
		if w.IsNil() || ign[k] {
			continue
		}
		if v, ok := a[k]; !ok || v.IsNil() {
			return false, fmt.Sprintf("column %q (original %q) is missing", k, w)
		}
	}
	return true, ""
}

// subRecord: every value present in r equals the original's; missing lists original columns absent from r.
func subRecord(r, orig sut.Record, ign map[string]bool) (diff string, missing []string) {
	for k, v := range r {
		if v.IsNil() || ign[k] {
			continue
		}
		w, ok := orig[k]
		if !ok || w.IsNil() {
			return fmt.Sprintf("column %q: got %q, the original event has no such value", k, v), nil
		}
		if v != w {
			return fmt.Sprintf("column %q: got %q, original %q", k, v, w), nil
		}
	}
	for k, w := range orig {
		if w.IsNil() {
			continue
		}
		if v, ok := r[k]; !ok || v.IsNil() {
			missing = append(missing, k)
		}
	}
	sort.Strings(missing)
	return "", missing
}

func vidFromWord(r sut.Record) (int64, bool) {
	s, ok := r["word"].Str()
	if !ok || len(s) < 3 || s[0] != 'w' || s[len(s)-1] != 'x' {
		return 0, false
	}
	var v int64
	for _, ch := range s[1 : len(s)-1] {
		if ch < '0' || ch > '9' {
			return 0, false
		}
		v = v*10 + int64(ch-'0')
	}
	return v, true
}

type verdict struct {
	o       *pt.Obs
	fc      *faultCase
	e       *envT
	noticed bool // some answer differs from the one on undamaged files
}

func errInfo(a *answer) string {
	return fmt.Sprintf("(response: err=%q errors=%v records=%d)", a.Err, a.Errors, a.N)
}

// ctrlSym: the undamaged segment's part of an answer is wrong. If the query as a whole was
// rejected with an error this is an "abort", otherwise a silent cross-segment effect.
func ctrlSym(a *answer) string {
	if a.Err != "" {
		return "abort"
	}
	return "cross"
}

// judgeRecords applies the oracle to a query that returns events.
func (v *verdict) judgeRecords(q querySpec, a, b *answer) *viol {
	e, o := v.e, v.o
	full := e.base[0] // match-all on the undamaged files: the original of every event
	ign := e.unstable[q.Name]
	reported := a.Err != "" || len(a.Errors) > 0
	// control segment: every event the undamaged server returned for this query, unchanged
	for _, vid := range sortedVids(b.Recs) {
		if !e.isCtrl[vid] {
			continue
		}
		want := b.Recs[vid]
		got, ok := a.Recs[vid]
		if !ok {
			return violf(ctrlSym(a), "query %q: event _vid=%d of the UNDAMAGED segment is no longer returned %s", q.Text, vid, errInfo(a))
		}
		if eq, d := recEqual(got, want, ign); !eq {
			return violf("cross", "query %q: event _vid=%d of the UNDAMAGED segment changed: %s\n  got  %v\n  want %v", q.Text, vid, d, got, want)
		}
	}
	missing, partial := 0, 0
	for vid := range b.Recs {
		if e.isDmg[vid] {
			if _, ok := a.Recs[vid]; !ok {
				missing++
			}
		}
	}
	check := func(r sut.Record) *viol {
		vid, hasVid := r["_vid"].Int()
		if _, present := r["_vid"]; present && !hasVid && !r["_vid"].IsNil() {
			return violf("altered", "query %q returned a record whose _vid is not an integer (%q): %v", q.Text, r["_vid"], r)
		}
		if wv, ok := vidFromWord(r); ok {
			if hasVid && wv != vid {
				return violf("altered", "query %q returned a record mixing two events (_vid=%d, word of %d): %v", q.Text, vid, wv, r)
			}
			vid, hasVid = wv, true
		}
		if hasVid {
			if e.isCtrl[vid] {
				if _, inBase := b.Recs[vid]; !inBase {
					return violf("cross", "query %q: event _vid=%d of the UNDAMAGED segment is returned although it is not part of the answer on undamaged files: %v", q.Text, vid, r)
				}
				if eq, d := recEqual(r, full.Recs[vid], ign); !eq {
					return violf("cross", "query %q: event _vid=%d of the UNDAMAGED segment changed: %s", q.Text, vid, d)
				}
				return nil
			}
			orig, ok := full.Recs[vid]
			if !ok {
				return violf("invented", "query %q returned an event that was never stored (_vid=%d): %v", q.Text, vid, r)
			}
			if _, inBase := b.Recs[vid]; !inBase {
				o.Class("dmg_event_outside_answer")
				// The event does not satisfy the filter (it is not part of the answer on undamaged files). When the
				// damaged file is a checksummed column file, membership was decided on bytes of a block that fails
				// its checksum: the damaged block was served as data. (Damage to the un-checksummed side files that
				// decide membership by themselves, .pqmr / .cmi / .bsu, stays outside the statement.)
				if v.fc.Kind == "csg" && strings.HasPrefix(q.Name, "filter_") {
					return violf("altered", "query %q: event _vid=%d of the damaged segment is returned although it does not satisfy the filter (it is not in the answer on undamaged files): the filter was evaluated on a checksummed column block that fails its checksum %s\n  got      %v\n  original %v",
						q.Text, vid, errInfo(a), r, orig)
				}
			}
			diff, miss := subRecord(r, orig, ign)
			if diff != "" {
				return violf("altered", "query %q: event _vid=%d of the damaged segment is returned with an altered value: %s %s\n  got      %v\n  original %v",
					q.Text, vid, diff, errInfo(a), r, orig)
			}
			if len(miss) > 0 {
				partial++
			}
			return nil
		}
		// no identity: must be a sub-record of some original event of the damaged segment
		for dv := range e.isDmg {
			if diff, _ := subRecord(r, full.Recs[dv], ign); diff == "" {
				partial++
				return nil
			}
		}
		return violf("invented", "query %q returned a record that is not part of any stored event %s: %v", q.Text, errInfo(a), r)
	}
	for _, vid := range sortedVids(a.Recs) {
		if vl := check(a.Recs[vid]); vl != nil {
			return vl
		}
	}
	for _, r := range a.Odd {
		if vl := check(r); vl != nil {
			return vl
		}
	}
	if a.Dups > 0 {
		o.Class("dmg_duplicate_events")
	}
	switch {
	case missing > 0 && reported:
		v.outcome(q, "missing_with_error")
	case missing > 0:
		v.outcome(q, "missing_silently")
	case partial > 0 && reported:
		v.outcome(q, "partial_with_error")
	case partial > 0:
		v.outcome(q, "partial_silently")
	case reported:
		v.outcome(q, "complete_with_error")
	default:
		v.outcome(q, "as_original")
	}
	return nil
}

// outcome records how a query's answer relates to the answer on undamaged files. Any outcome
// other than as_original shows that the query read the damaged bytes (the non-trivial rule).
func (v *verdict) outcome(q querySpec, what string) {
	v.o.Class(q.Name + "_" + what)
	if what != "as_original" {
		v.noticed = true
		v.o.Count("noticed/"+v.fc.Kind+"/"+q.Name, 1)
	}
}

func sortedVids(m map[int64]sut.Record) []int64 {
	out := make([]int64, 0, len(m))
	for v := range m {
		out = append(out, v)
	}
	sort.Slice(out, func(i, j int) bool { return out[i] < out[j] })
	return out
}

func measure(m map[string]sut.TV, name string) (float64, bool) {
	for k, t := range m {
		if strings.HasPrefix(k, name) {
			return t.Float()
		}
	}
	return 0, false
}

func sameBucket(got, want map[string]sut.TV) bool {
	for k, w := range want {
		if got[k] != w {
			return false
		}
	}
	return true
}

// share is an aggregate over a set of stored events.
type share struct{ count, sum, min, max float64 }

// includesShare: the aggregate got contains at least the share (count and sum not below, min not
// above, max not below). Measures the query does not compute are not compared.
func includesShare(got map[string]sut.TV, sh *share) bool {
	if g, ok := measure(got, "count"); !ok || g < sh.count {
		return false
	}
	if g, ok := measure(got, "sum"); ok && g < sh.sum {
		return false
	}
	if g, ok := measure(got, "max"); ok && g < sh.max {
		return false
	}
	if g, ok := measure(got, "min"); ok && g > sh.min {
		return false
	}
	return true
}

// ctrlShare computes what the undamaged segment alone contributes to group key of query q
// (nil: nothing), from the original events.
func (e *envT) ctrlShare(q querySpec, key string) *share {
	var sh *share
	for vid := range e.isCtrl {
		r := e.base[0].Recs[vid]
		var k string
		switch q.Name {
		case "stats_by":
			seg, _ := r["seg"].Str()
			grp, _ := r["grp"].Str()
			k = seg + "\x1f" + grp
		case "stats_tree":
			k, _ = r["seg"].Str()
		case "timechart":
			ts, _ := r["timestamp"].Float()
			// buckets are aligned to the query's start time
			k = fmt.Sprintf("%d", e.lo+(uint64(ts)-e.lo)/chartSpanMs*chartSpanMs)
		case "stats_all":
			k = key
		}
		if k != key {
			continue
		}
		n, _ := r["num"].Float()
		if sh == nil {
			sh = &share{min: n, max: n}
		}
		sh.count++
		sh.sum += n
		if n < sh.min {
			sh.min = n
		}
		if n > sh.max {
			sh.max = n
		}
	}
	return sh
}

func (e *envT) isCtrlNum(n float64) bool {
	for vid := range e.isCtrl {
		if f, ok := e.base[0].Recs[vid]["num"].Float(); ok && f == n {
			return true
		}
	}
	return false
}

// judgeStats applies the oracle to the statistics queries.
//
// Grouped by seg (stats_by: seg, grp; stats_tree: seg) or by time bucket (timechart): every group
// that the undamaged segment contributes to must be returned; if only the undamaged segment
// contributes to it on undamaged files, exactly as there. A group of the damaged segment must be
// one that exists on undamaged files, and its measures must be obtainable from a subset of the
// stored events of that group (count and sum not above the original, min/max stored values).
// Without grouping (stats_all) the result must be the undamaged segment's events plus a subset of
// the damaged segment's.
func (v *verdict) judgeStats(q querySpec, a, b *answer) *viol {
	e := v.e
	reported := a.Err != "" || len(a.Errors) > 0
	nums := map[float64]bool{}
	var sumD, cntD float64
	for _, n := range e.dmgNum {
		nums[float64(n)] = true
		sumD += float64(n)
		cntD++
	}
	sideFile := valueSource(v.fc.Kind) != ""
	if q.Name != "stats_all" {
		same := true
		keys := pt.SortedKeys(b.Buckets)
		for _, key := range keys {
			want := b.Buckets[key]
			ctrlShare := e.ctrlShare(q, key)
			if ctrlShare == nil {
				if _, ok := a.Buckets[key]; !ok {
					same = false
				}
				continue
			}
			got, ok := a.Buckets[key]
			if !ok {
				return violf(ctrlSym(a), "query %q: group %q, to which the UNDAMAGED segment contributes, is no longer returned %s", q.Text, key, errInfo(a))
			}
			wc, _ := measure(want, "count")
			pure := wc == ctrlShare.count // only the undamaged segment contributes on undamaged files
			switch {
			case sideFile:
				// a side file that stores group keys and aggregates of the damaged segment may add
				// anything (also negative sums) to this group: only its presence is required
			case !pure:
				// the damaged segment may add to this group
				if !includesShare(got, ctrlShare) {
					return violf("cross", "query %q: group %q lost the share of the UNDAMAGED segment: %v, undamaged segment alone %v %s", q.Text, key, got, ctrlShare, errInfo(a))
				}
			default:
				if !sameBucket(got, want) {
					return violf("cross", "query %q: group %q of the UNDAMAGED segment changed: %v, on undamaged files %v %s", q.Text, key, got, want, errInfo(a))
				}
			}
		}
		for _, key := range pt.SortedKeys(a.Buckets) {
			m := a.Buckets[key]
			bd, known := b.Buckets[key]
			if !known {
				return violf("invented", "query %q returned a group that no stored event belongs to: %q %v %s", q.Text, key, m, errInfo(a))
			}
			if !sameBucket(m, bd) {
				same = false
			}
			if e.ctrlShare(q, key) != nil && sameBucket(m, bd) {
				continue
			}
			var derr error
			bc, _ := measure(bd, "count")
			bs, hasSum := measure(bd, "sum")
			if c, ok := measure(m, "count"); !ok || c < 0 || c > bc {
				derr = fmt.Errorf("count not in [0,%v]", bc)
			} else if s, ok := measure(m, "sum"); hasSum && ok && (s < 0 || s > bs) {
				derr = fmt.Errorf("sum(num)=%v not in [0,%v]", s, bs)
			} else if mn, ok := measure(m, "min"); ok && !nums[mn] && !e.isCtrlNum(mn) {
				derr = fmt.Errorf("min(num)=%v is not a stored value", mn)
			} else if mx, ok := measure(m, "max"); ok && !nums[mx] && !e.isCtrlNum(mx) {
				derr = fmt.Errorf("max(num)=%v is not a stored value", mx)
			}
			if derr != nil {
				return violf("invented", "query %q: group %q cannot come from stored events: %v; got %v, on undamaged files %v %s",
					q.Text, key, derr, m, bd, errInfo(a))
			}
		}
		v.classStats(q, same, reported)
		return nil
	}
	// stats over both segments: the undamaged segment's share must be in the result
	var bm, m map[string]sut.TV
	for _, mm := range a.Buckets {
		m = mm
	}
	for _, mm := range b.Buckets {
		bm = mm
	}
	share := e.ctrlShare(q, "")
	if m == nil || len(a.Buckets) != 1 {
		return violf(ctrlSym(a), "query %q returns %d results although the UNDAMAGED segment holds events %s", q.Text, len(a.Buckets), errInfo(a))
	}
	if !sideFile && !includesShare(m, share) {
		return violf("cross", "query %q: the result lost the share of the UNDAMAGED segment: %v, undamaged segment alone %v %s", q.Text, m, share, errInfo(a))
	}
	same := sameBucket(m, bm)
	cntC, sumC := share.count, share.sum
	var derr error
	if c, ok := measure(m, "count"); !ok || c > cntC+cntD {
		derr = fmt.Errorf("count=%v not in [%v,%v]", c, cntC, cntC+cntD)
	} else if s, ok := measure(m, "sum"); !ok || s > sumC+sumD {
		derr = fmt.Errorf("sum(num)=%v not in [%v,%v]", s, sumC, sumC+sumD)
	} else if mn, ok := measure(m, "min"); !ok || (!nums[mn] && !e.isCtrlNum(mn)) {
		derr = fmt.Errorf("min(num)=%v is not a stored value", mn)
	} else if mx, ok := measure(m, "max"); !ok || (!nums[mx] && !e.isCtrlNum(mx)) {
		derr = fmt.Errorf("max(num)=%v is not a stored value", mx)
	}
	if derr != nil {
		return violf("invented", "query %q: result cannot come from the stored events: %v; got %v, on undamaged files %v %s", q.Text, derr, m, bm, errInfo(a))
	}
	v.classStats(q, same, reported)
	return nil
}

func (v *verdict) classStats(q querySpec, same, reported bool) {
	switch {
	case same && reported:
		v.outcome(q, "complete_with_error")
	case same:
		v.outcome(q, "as_original")
	case reported:
		v.outcome(q, "missing_with_error")
	default:
		v.outcome(q, "changed_silently")
	}
}

// judge applies the oracle to every answer. A violation is dropped when the statement does not
// cover it (value served by the damaged side file itself) or when it belongs to a listed open
// finding; the first remaining one is returned.
func (v *verdict) judge(res []*answer) error {
	for i, q := range v.e.queries {
		if res[i] == nil {
			continue
		}
		var vl *viol
		switch q.Name {
		case "stats_by", "stats_all", "stats_tree", "timechart":
			vl = v.judgeStats(q, res[i], v.e.base[i])
		default:
			vl = v.judgeRecords(q, res[i], v.e.base[i])
		}
		if vl == nil {
			continue
		}
		v.noticed = true
		v.o.Count("noticed/"+v.fc.Kind+"/"+q.Name, 1)
		if (vl.sym == "altered" || vl.sym == "invented") && valueSource(v.fc.Kind) != "" {
			v.o.Class("value_from_damaged_" + v.fc.Kind)
			continue
		}
		if id := knownFinding(v.fc, vl.sym, vl.msg); id != "" {
			v.o.Known(id)
			v.o.Class("known_" + id + "_" + vl.sym)
			continue
		}
		return vl
	}
	return nil
}

// knownFinding returns the id of the listed open finding that covers symptom sym of fault fc.
// The predicates are over the input (which file was damaged); the symptom narrows what is
// tolerated for that input.
func knownFinding(fc *faultCase, sym, detail string) string {
	if strings.Contains(detail, "cannot allocate memory") {
		detail += " (out of memory)" // the runtime's other wording for the same failure
	}
	switch fc.Kind {
	case "bsu":
		// block summaries (.bsu) hold record counts, time ranges and the offset/length of every
		// column block, without a checksum
		switch sym {
		case "abort", "altered", "invented":
			if pt.KnownFindingOpen("C18-bsu-unchecksummed") {
				return "C18-bsu-unchecksummed"
			}
		}
	case "cmi":
		// "out of memory" anywhere: readCmis has taken up to 4 GiB for the damaged length, the next
		// large allocation (e.g. the star-tree buffer) is the one that fails
		if sym == "crash" && (strings.Contains(detail, "readCmis") || strings.Contains(detail, "metareader.go") ||
			strings.Contains(detail, "doBloomCheckForCol") || strings.Contains(detail, "bloom") || strings.Contains(detail, "out of memory")) &&
			pt.KnownFindingOpen("C18-cmi-reader-unchecked") {
			return "C18-cmi-reader-unchecked"
		}
	case "crup":
		if sym == "crash" && (strings.Contains(detail, "rollupreader.go") || strings.Contains(detail, "readRollupFile") || strings.Contains(detail, "out of memory")) &&
			pt.KnownFindingOpen("C18-rollup-reader-unchecked") {
			return "C18-rollup-reader-unchecked"
		}
	case "srt":
		crash := sym == "crash" && (strings.Contains(detail, "sortindex.go") || strings.Contains(detail, "deToResults") ||
			strings.Contains(detail, "out of memory"))
		if (crash || sym == "abort") && pt.KnownFindingOpen("C18-sortindex-unchecked") {
			return "C18-sortindex-unchecked"
		}
	case "mbsu", "mnm", "tth", "mmeta":
		crash := sym == "crash" && (strings.Contains(detail, "ReadMetricsBlockSummaries") || strings.Contains(detail, "ReadMetricNames") ||
			strings.Contains(detail, "tagstreereader.go"))
		if (crash || sym == "abort") && pt.KnownFindingOpen("C18-metrics-meta-readers-unchecked") {
			return "C18-metrics-meta-readers-unchecked"
		}
	case "strm", "strl":
		// the star-tree reader panics or runs out of memory on damaged input: the server dies, or
		// (with the query-goroutine recover of fix 4540117) the whole query is rejected
		crash := sym == "crash" && (strings.Contains(detail, "agiletreereader.go") || strings.Contains(detail, "ConvertGroupByKeyFromBytes") ||
			strings.Contains(detail, "out of memory"))
		abort := sym == "abort" && strings.Contains(detail, "panic")
		if (crash || abort) && pt.KnownFindingOpen("C18-startree-reader-unchecked") {
			return "C18-startree-reader-unchecked"
		}
	}
	return ""
}

// panicSite extracts "file.go:line" of the first siglens frame of a panic trace.
func panicSite(detail string) string {
	lines := strings.Split(detail, "\n")
	for i, l := range lines {
		if strings.Contains(l, "github.com/siglens/siglens/pkg/") && i+1 < len(lines) {
			loc := strings.TrimSpace(lines[i+1])
			if j := strings.Index(loc, "/pkg/"); j >= 0 {
				loc = loc[j+1:]
			}
			if j := strings.IndexByte(loc, ' '); j >= 0 {
				loc = loc[:j]
			}
			fn := strings.TrimSpace(l)
			if j := strings.LastIndexByte(fn, '('); j >= 0 {
				fn = fn[:j]
			}
			if j := strings.LastIndexByte(fn, '/'); j >= 0 {
				fn = fn[j+1:]
			}
			return fn + " " + loc
		}
	}
	return ""
}

func checkFault(fc *faultCase, o *pt.Obs) error {
	if strings.HasPrefix(fc.Rel, "dataset could not be prepared: ") {
		return pt.Inconclusivef("%s", fc.Rel) // placeholder case of casesForShard: the ingesting server failed
	}
	e := envOf(fc)
	if e.err != nil {
		return pt.Inconclusivef("dataset %d could not be prepared: %v", fc.DS, e.err)
	}
	f := e.byRel[fc.Rel]
	if f == nil || len(f.Data) != fc.Size || f.CRC != fc.CRC {
		return pt.Inconclusivef("the pristine file %s differs from the one this case was generated on", fc.Rel)
	}
	if fc.Pos < 0 || fc.Pos >= len(f.Data) {
		return pt.Inconclusivef("position outside the file")
	}
	o.Class("file_" + f.Kind)
	o.Class("op_" + fc.Op)
	o.Class("file_" + f.Kind + "_" + fc.Region)
	o.Count("faults_"+f.Kind, 1)

	run := func() ([]*answer, *runInfo, error) {
		if err := e.restore(); err != nil {
			return nil, nil, pt.Inconclusivef("restore: %v", err)
		}
		if err := e.apply(fc, f); err != nil {
			return nil, nil, pt.Inconclusivef("apply fault: %v", err)
		}
		return e.runQueries(cmdTimeout, runsTree(fc))
	}
	res, info, err := run()
	if err != nil {
		var inc *pt.Inconclusive
		if errors.As(err, &inc) {
			return inc
		}
		var se *startErr
		if errors.As(err, &se) {
			if strings.Contains(se.Error(), sut.ErrWorkerDied.Error()) && (strings.Contains(se.Error(), "panic:") || strings.Contains(se.Error(), "fatal error:")) {
				return v18crash(fc, o, "start", se.Error())
			}
			return pt.Inconclusivef("%v", se)
		}
		var te *transportErr
		if !errors.As(err, &te) {
			return pt.Inconclusivef("unexpected error: %v", err)
		}
		if errors.Is(te.err, sut.ErrWorkerDied) {
			return v18crash(fc, o, info.Step, te.detail)
		}
		if msg := requestPanic(te.err); msg != "" {
			return v18crash(fc, o, info.Step, msg)
		}
		if errors.Is(te.err, sut.ErrTimeout) {
			// a time-out under machine load is not a verdict: try the same fault once more, then
			// make sure an undamaged server answers promptly right now
			step := info.Step
			_, info2, err2 := run()
			var te2 *transportErr
			if err2 == nil || !errors.As(err2, &te2) || !errors.Is(te2.err, sut.ErrTimeout) {
				return pt.Inconclusivef("%s timed out once (%s), not on the second attempt", fc, step)
			}
			if rerr := e.restore(); rerr != nil {
				return pt.Inconclusivef("restore: %v", rerr)
			}
			t0 := time.Now()
			if _, _, perr := e.runQueries(cmdTimeout, runsTree(fc)); perr != nil || time.Since(t0) > cmdTimeout/4 {
				return pt.Inconclusivef("%s timed out twice, but the undamaged server is slow as well (%v, %v)", fc, time.Since(t0), perr)
			}
			return v18hang(fc, o, fmt.Sprintf("%s / %s", step, info2.Step), te2.detail)
		}
		return pt.Inconclusivef("transport: %v", te.err)
	}
	if !info.Synced {
		o.Class("startup_sync_not_seen")
	}
	v := &verdict{o: o, fc: fc, e: e}
	if err := v.judge(res); err != nil {
		return fmt.Errorf("fault {%s}: [%s] %v", fc, err.(*viol).sym, err)
	}
	o.Class("outcome_answered")
	if v.noticed {
		// non-trivial: the damaged bytes were read - at least one answer differs from the
		// answer on undamaged files (events missing, values absent, aggregate changed, query
		// rejected) or the server died
		o.NonTrivial()
		o.Class("noticed_" + f.Kind)
	}
	return nil
}

// requestPanic: the query entry point panicked on the goroutine that serves the request (the
// worker's command loop recovers it and answers "PANIC: ..."). In the server this is the HTTP
// handler goroutine; the outcome is counted like a crash.
func requestPanic(err error) string {
	var oe *sut.OpError
	if errors.As(err, &oe) && strings.HasPrefix(oe.Msg, "PANIC:") {
		m := "panic: (on the request goroutine) " + strings.TrimPrefix(oe.Msg, "PANIC:")
		if len(m) > 2500 {
			m = m[:2500]
		}
		return m
	}
	return ""
}

// runsTree: the star-tree query costs about a second per server (it clears a 300 MB buffer), so
// it is run for every fault in the files it can read and for one in eight of the others.
func runsTree(fc *faultCase) bool {
	switch fc.Kind {
	case "strl", "strm", "sfm", "segmeta", "bsu":
		return true
	}
	return fc.Pos%8 == 3
}

func v18crash(fc *faultCase, o *pt.Obs, step, detail string) error {
	if strings.Contains(detail, "pthread_create failed") || strings.Contains(detail, "failed to create new OS thread") {
		// the process could not get a thread from the operating system (machine-wide limits
		// under load): environment trouble, not an observation about the fault
		return pt.Inconclusivef("fault {%s}: the server could not create a thread during %q", fc, step)
	}
	o.Class("outcome_crash")
	o.NonTrivial()
	o.Class("noticed_" + fc.Kind)
	o.Count("noticed/"+fc.Kind+"/"+step, 1)
	if id := knownFinding(fc, "crash", detail); id != "" {
		o.Known(id)
		o.Class("known_" + id + "_crash")
		return nil
	}
	return fmt.Errorf("fault {%s}: the server process died during %q: site=[%s]\n%s", fc, step, panicSite(detail), detail)
}

func v18hang(fc *faultCase, o *pt.Obs, step, detail string) error {
	o.Class("outcome_hang")
	o.NonTrivial()
	o.Class("noticed_" + fc.Kind)
	if id := knownFinding(fc, "hang", detail); id != "" {
		o.Known(id)
		o.Class("known_" + id + "_hang")
		return nil
	}
	return fmt.Errorf("fault {%s}: the server does not answer %q within %v (twice; an undamaged server answers at once)\n%s", fc, step, cmdTimeout, detail)
}

// ---- test -----------------------------------------------------------------------------------

func datasetSeeds() []int {
	if pt.Thorough() {
		return []int{11} // enumerated completely
	}
	return []int{11, 12}
}

// casesForShard deals the (sampled or complete) fault list of the datasets to this shard.
func casesForShard() []*faultCase {
	shard, shards := pt.Shard()
	perShard := pt.Cases(30)
	seeds := datasetSeeds()
	nD := len(seeds)
	if shards < nD {
		nD = 1
	}
	ds := seeds[shard%nD]
	sub, subs := shard/nD, (shards+nD-1-shard%nD)/nD
	e := freshEnv(ds)
	if e.err != nil {
		return []*faultCase{{DS: ds, Rel: "dataset could not be prepared: " + e.err.Error()}}
	}
	all := e.allFaults()
	picked := sample(all, perShard*subs, pt.SeedFromEnv()*7919+int64(ds))
	var out []*faultCase
	for i, f := range picked {
		if i%subs == sub {
			out = append(out, f)
		}
	}
	return out
}

func TestC18Faults(t *testing.T) {
	defer cleanupProcRoot()
	var cases []*faultCase
	if os.Getenv("VERIF_REPLAY") == "" {
		cases = casesForShard()
	}
	pt.RunCases(t, "C18", func(i int) (*faultCase, bool) {
		if i >= len(cases) {
			return nil, false
		}
		return cases[i], true
	}, checkFault)
}
