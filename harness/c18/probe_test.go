package c18

// Triage tool (not part of the check): C18_SURVEY=<budget> runs a sample of faults and prints a
// histogram of outcomes instead of stopping at the first violation.

import (
	"fmt"
	"os"
	"path/filepath"
	"sort"
	"strconv"
	"strings"
	"sync"
	"testing"

	"verifharness/pt"
)

func TestSurvey(t *testing.T) {
	budget, _ := strconv.Atoi(os.Getenv("C18_SURVEY"))
	if budget <= 0 {
		t.Skip()
	}
	defer cleanupProcRoot()
	ds := 11
	if v, err := strconv.Atoi(os.Getenv("C18_DS")); err == nil {
		ds = v
	}
	if os.Getenv("C18_M") != "" {
		me := freshMEnv(21)
		if me.err != nil {
			t.Fatal(me.err)
		}
		all := faultsOf(me.files, 21, me.blobRoot, me.blob, true)
		fmt.Println("total metrics faults", len(all))
		for _, f := range me.files {
			fmt.Println(f.Rel, f.Kind, len(f.Data), f.NoTrunc)
		}
		surveyRun(sample(all, budget, 1), checkMetricsFault)
		return
	}
	e := freshEnv(ds)
	if e.err != nil {
		t.Fatal(e.err)
	}
	if os.Getenv("C18_SHOWBASE") != "" {
		for i, q := range e.queries {
			a := e.base[i]
			fmt.Printf("Q %s %q: n=%d buckets=%v\n", q.Name, q.Text, len(a.Recs), a.Buckets)
			_ = i
		}
		fmt.Println("blob bytes", len(e.blob))
		for _, f := range e.files {
			fmt.Println(f.Rel, f.Kind, f.Col, len(f.Data))
		}
		fmt.Println("pristine run took", e.startDur)
	}
	all := e.allFaults()
	fmt.Println("total faults", len(all))
	picked := sample(all, budget, 1)
	if k := os.Getenv("C18_KIND"); k != "" {
		var sel []*faultCase
		for _, f := range all {
			if f.Kind == k {
				sel = append(sel, f)
			}
		}
		picked = sample(sel, budget, 1)
	}
	surveyRun(picked, checkFault)
}

func surveyRun(picked []*faultCase, check func(*faultCase, *pt.Obs) error) {
	hist := map[string]int{}
	ex := map[string]string{}
	var mu sync.Mutex
	for _, fc := range picked {
		o := &pt.Obs{}
		err := check(fc, o)
		key := "ok"
		if err != nil {
			msg := err.Error()
			if i := strings.Index(msg, "}: "); i >= 0 {
				msg = msg[i+3:]
			}
			if i := strings.Index(msg, "site=["); i >= 0 {
				j := strings.Index(msg[i:], "]")
				msg = "CRASH " + msg[i:i+j+1]
			}
			if len(msg) > 110 {
				msg = msg[:110]
			}
			key = msg
		}
		key = fc.Kind + "/" + fc.Region + "/" + fc.Op + " :: " + key
		if os.Getenv("C18_BYFILE") != "" {
			key = filepath.Base(fc.Rel) + " " + fmt.Sprint(o) + " :: " + key
		}
		mu.Lock()
		hist[key]++
		if _, ok := ex[key]; !ok && err != nil {
			ex[key] = err.Error()
		}
		mu.Unlock()
	}
	keys := make([]string, 0, len(hist))
	for k := range hist {
		keys = append(keys, k)
	}
	sort.Strings(keys)
	for _, k := range keys {
		fmt.Printf("%5d %s\n", hist[k], k)
	}
	if os.Getenv("C18_EX") != "" {
		for _, k := range keys {
			if m, ok := ex[k]; ok {
				if len(m) > 1800 {
					m = m[:1800]
				}
				fmt.Printf("=== %s\n%s\n", k, m)
			}
		}
	}
}
