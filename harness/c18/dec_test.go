package c18

// Decoder level (thorough tier): generated and mutated byte strings are fed to the exported
// entry points of the on-disk decoders. The decoding runs in a worker process with the 4 GiB
// address-space limit, so a runaway allocation ends that process instead of the machine.
// Oracle: the decoder returns (with or without error); no panic, no death of the process, no
// allocation out of proportion to the input (> 512 MiB for inputs of at most 64 KiB).

import (
	"bytes"
	"encoding/binary"
	"errors"
	"fmt"
	"os"
	"path/filepath"
	"runtime"
	"strings"
	"sync"
	"testing"
	"time"

	"pgregory.net/rapid"

	"github.com/siglens/siglens/pkg/config"
	"github.com/siglens/siglens/pkg/segment/metadata"
	"github.com/siglens/siglens/pkg/segment/pqmr"
	"github.com/siglens/siglens/pkg/segment/reader/metrics/tagstree"
	"github.com/siglens/siglens/pkg/segment/reader/microreader"
	"github.com/siglens/siglens/pkg/segment/reader/segread"
	"github.com/siglens/siglens/pkg/segment/reader/segread/segreader"
	"github.com/siglens/siglens/pkg/segment/sortindex"
	"github.com/siglens/siglens/pkg/segment/structs"
	"github.com/siglens/siglens/pkg/segment/writer/metrics/compress"

	"verifharness/pt"
	"verifharness/sut"
)

type DecodeResult struct {
	Err    string `json:"err,omitempty"`
	Items  int    `json:"items"`
	AllocB uint64 `json:"allocB"`
}

var decSeq int

func init() {
	sut.RegisterOp("c18.decode", func(req *sut.Req) (interface{}, error) {
		decSeq++
		dir := filepath.Join(os.Getenv("VERIF_DATA"), "c18dec", fmt.Sprint(decSeq))
		if err := os.MkdirAll(dir, 0o755); err != nil {
			return nil, err
		}
		defer os.RemoveAll(dir)
		var m0, m1 runtime.MemStats
		runtime.ReadMemStats(&m0)
		items, err := decodeOne(req.Name, req.Body, dir)
		runtime.ReadMemStats(&m1)
		res := &DecodeResult{Items: items, AllocB: m1.TotalAlloc - m0.TotalAlloc}
		if err != nil {
			res.Err = err.Error()
			if len(res.Err) > 300 {
				res.Err = res.Err[:300]
			}
		}
		return res, nil
	})
}

// decodeOne hands data to one decoder the way its callers do (through a file where the entry
// point takes a name). It returns how many items were decoded.
func decodeOne(kind string, data []byte, dir string) (int, error) {
	write := func(name string) (string, error) {
		p := filepath.Join(dir, name)
		if err := os.MkdirAll(filepath.Dir(p), 0o755); err != nil {
			return "", err
		}
		return p, os.WriteFile(p, data, 0o644)
	}
	switch kind {
	case "bsu":
		p, err := write("0.bsu")
		if err != nil {
			return 0, err
		}
		sums, _, err := microreader.ReadBlockSummaries(p, false)
		return len(sums), err
	case "sst":
		if _, err := write("0.sst"); err != nil {
			return 0, err
		}
		m, err := segread.ReadSegStats(filepath.Join(dir, "0"), 1)
		return len(m), err
	case "pqmr":
		p, err := write("q.pqmr")
		if err != nil {
			return 0, err
		}
		r, err := pqmr.ReadPqmr(&p)
		if err != nil || r == nil {
			return 0, err
		}
		return int(r.GetNumBlocks()), nil
	case "mbsu":
		p, err := write("0.mbsu")
		if err != nil {
			return 0, err
		}
		s, err := microreader.ReadMetricsBlockSummaries(p)
		return len(s), err
	case "mnm":
		p, err := write("0.mnm")
		if err != nil {
			return 0, err
		}
		m, err := metadata.ReadMetricNames(p)
		return len(m), err
	case "gorilla":
		it, err := compress.NewDecompressIterator(bytes.NewReader(data))
		if err != nil {
			return 0, err
		}
		n := 0
		for n < 1<<20 && it.Next() {
			n++
		}
		return n, it.Err()
	case "srt":
		if _, err := write("0/num_auto.srt"); err != nil {
			return 0, err
		}
		lines, _, err := sortindex.ReadSortIndex(filepath.Join(dir, "0"), "num", sortindex.SortAsAuto, false, 100000, false, nil)
		return len(lines), err
	case "crup":
		// the three roll-up files of a segment (minute, hour, day) get the same bytes
		for _, unit := range []string{"m", "h", "d"} {
			if _, err := write(fmt.Sprintf("rups/%v.crup", xxhashOf(config.GetTimeStampKey()+unit))); err != nil {
				return 0, err
			}
		}
		r, err := segread.InitNewRollupReader(filepath.Join(dir, "0"), config.GetTimeStampKey(), 1)
		if err != nil {
			return 0, err
		}
		defer r.Close()
		m, err := r.GetMinRollups()
		return len(m), err
	case "strm":
		if _, err := write("0.strm"); err != nil {
			return 0, err
		}
		if err := os.WriteFile(filepath.Join(dir, "0.strl"), nil, 0o644); err != nil {
			return 0, err
		}
		str, err := segread.InitNewAgileTreeReader(filepath.Join(dir, "0"), 1)
		if err != nil {
			return 0, err
		}
		defer str.Close()
		return 0, str.ReadTreeMeta()
	case "tth":
		if _, err := write("tt/host"); err != nil {
			return 0, err
		}
		attr, err := tagstree.InitAllTagsTreeReader(filepath.Join(dir, "tt") + "/")
		if err != nil {
			return 0, err
		}
		defer attr.CloseAllTagTreeReaders()
		pairs, err := attr.GetAllTagPairs()
		if err != nil {
			return 0, err
		}
		names, err := attr.GetHashedMetricNames()
		return len(pairs) + len(names), err
	case "csgblock":
		// data = one column block as stored (encoding byte + payload), read through the
		// checksum file's legacy path (no magic number in front)
		if len(data) >= 4 && binary.LittleEndian.Uint32(data) == csgMagic {
			return 0, nil // would be read as a checksummed chunk; not this decoder's input
		}
		p, err := write("0_1.csg")
		if err != nil {
			return 0, err
		}
		fd, err := os.Open(p)
		if err != nil {
			return 0, err
		}
		defer fd.Close()
		const recs = 16
		allBmi := &structs.AllBlksMetaInfo{CnameDict: map[string]int{"c": 0}, AllBmh: map[uint16]*structs.BlockMetadataHolder{
			0: {BlkNum: 0, ColBlockOffAndLen: []structs.ColOffAndLen{{Offset: 0, Length: uint32(len(data))}}}}}
		sums := []*structs.BlockSummary{{RecCount: recs}}
		sfr, err := segreader.InitNewSegFileReader(fd, "c", map[uint16]struct{}{0: {}}, 1, sums, 0, allBmi)
		if err != nil {
			return 0, err
		}
		defer sfr.ReturnBuffers()
		if err := sfr.ValidateAndReadBlock(0); err != nil {
			return 0, err
		}
		n := 0
		for i := uint16(0); i < recs; i++ {
			if _, err := sfr.ReadRecord(i); err != nil {
				return n, err
			}
			n++
		}
		return n, nil
	}
	return 0, fmt.Errorf("unknown decoder %q", kind)
}

// ---- parent side ------------------------------------------------------------------------------

type decCase struct {
	Kind string `json:"kind"`
	How  string `json:"how"` // valid | truncated | flipped | spliced | lengths | random
	Data []byte `json:"data"`
}

var decKinds = []string{"bsu", "sst", "pqmr", "mbsu", "mnm", "gorilla", "srt", "crup", "strm", "tth", "csgblock"}

var (
	seedOnce  sync.Once
	seedFiles map[string][][]byte
	seedErr   error
)

// decoderSeeds harvests valid inputs of every decoder from freshly written segments.
func decoderSeeds() (map[string][][]byte, error) {
	seedOnce.Do(func() {
		seedFiles = map[string][][]byte{}
		e := freshEnv(11)
		if e.err != nil {
			seedErr = e.err
			return
		}
		for rel, b := range e.tree {
			k := kindOf(rel)
			switch k {
			case "bsu", "sst", "pqmr", "srt", "crup", "strm":
				if len(b) > 0 {
					seedFiles[k] = append(seedFiles[k], b)
				}
			case "csg":
				// every chunk's data is one column block
				for off := 0; off+12 <= len(b) && binary.LittleEndian.Uint32(b[off:]) == csgMagic; {
					l := int(binary.LittleEndian.Uint32(b[off+8:]))
					if off+12+l > len(b) {
						break
					}
					seedFiles["csgblock"] = append(seedFiles["csgblock"], b[off+12:off+12+l])
					off += 12 + l
				}
			}
		}
		me := freshMEnv(21)
		if me.err != nil {
			seedErr = me.err
			return
		}
		for rel, b := range me.tree {
			switch mKind(rel) {
			case "mbsu", "mnm", "tth":
				if len(b) > 0 {
					seedFiles[mKind(rel)] = append(seedFiles[mKind(rel)], b)
				}
			case "tsg":
				// version, then per series: tsid(8) len(4) compressed datapoints
				for off := 1; off+12 <= len(b); {
					l := int(binary.LittleEndian.Uint32(b[off+8:]))
					if off+12+l > len(b) {
						break
					}
					seedFiles["gorilla"] = append(seedFiles["gorilla"], b[off+12:off+12+l])
					off += 12 + l
				}
			}
		}
		for _, k := range decKinds {
			if len(seedFiles[k]) == 0 {
				seedErr = fmt.Errorf("no valid sample for decoder %s in the generated segments", k)
			}
		}
	})
	return seedFiles, seedErr
}

func genDecCase(t *rapid.T) *decCase {
	seeds, err := decoderSeeds()
	kinds := decKinds
	if k := os.Getenv("C18_DEC_KIND"); k != "" {
		kinds = []string{k}
	}
	cs := &decCase{Kind: rapid.SampledFrom(kinds).Draw(t, "kind")}
	if err != nil {
		cs.How = "noseeds: " + err.Error()
		return cs
	}
	base := rapid.SampledFrom(seeds[cs.Kind]).Draw(t, "base")
	data := append([]byte{}, base...)
	cs.How = rapid.SampledFrom([]string{"valid", "truncated", "flipped", "flipped", "spliced", "lengths", "lengths", "random"}).Draw(t, "how")
	switch cs.How {
	case "truncated":
		data = data[:rapid.IntRange(0, len(data)).Draw(t, "cut")]
	case "flipped":
		for i, n := 0, rapid.IntRange(1, 4).Draw(t, "flips"); i < n && len(data) > 0; i++ {
			data[rapid.IntRange(0, len(data)-1).Draw(t, "pos")] ^= byte(rapid.IntRange(1, 255).Draw(t, "mask"))
		}
	case "spliced":
		if len(data) > 0 {
			p := rapid.IntRange(0, len(data)-1).Draw(t, "pos")
			ins := rapid.SliceOfN(rapid.Byte(), 1, 24).Draw(t, "ins")
			data = append(append(append([]byte{}, data[:p]...), ins...), data[p:]...)
		}
	case "lengths":
		// overwrite 1, 2, 4 or 8 bytes with an extreme little- or big-endian integer
		if len(data) > 0 {
			w := rapid.SampledFrom([]int{1, 2, 4, 8}).Draw(t, "width")
			p := rapid.IntRange(0, len(data)-1).Draw(t, "pos")
			v := rapid.SampledFrom([]uint64{0, 1, 0x7f, 0x80, 0xff, 0x7fff, 0xffff, 0x7fffffff, 0x80000000, 0xffffffff, 1 << 40, ^uint64(0)}).Draw(t, "value")
			big := rapid.Bool().Draw(t, "bigEndian")
			for i := 0; i < w && p+i < len(data); i++ {
				sh := uint(8 * i)
				if big {
					sh = uint(8 * (w - 1 - i))
				}
				data[p+i] = byte(v >> sh)
			}
		}
	case "random":
		data = rapid.SliceOfN(rapid.Byte(), 0, 200).Draw(t, "bytes")
	}
	cs.Data = data
	return cs
}

var (
	decMu     sync.Mutex
	decWorker *sut.Client
	decUses   int
)

func decClient(fresh bool) (*sut.Client, error) {
	if decWorker != nil && (fresh || decWorker.Dead() || decUses >= 300) {
		decWorker.Close()
		decWorker = nil
	}
	if decWorker == nil {
		dir := filepath.Join(procRoot(), "dec", "data")
		_ = os.RemoveAll(filepath.Dir(dir))
		c, err := sut.Start(workerOpts(dir, 30*time.Second))
		if err != nil {
			return nil, err
		}
		decWorker, decUses = c, 0
	}
	decUses++
	return decWorker, nil
}

// decodeIn runs the case in a worker; outcome "" = returned normally.
func decodeIn(cs *decCase, fresh bool) (outcome, detail string, res *DecodeResult, err error) {
	c, err := decClient(fresh)
	if err != nil {
		return "", "", nil, pt.Inconclusivef("worker start: %v", err)
	}
	var r DecodeResult
	cerr := c.Call(&sut.Req{Op: "c18.decode", Name: cs.Kind, Body: cs.Data}, &r)
	switch {
	case cerr == nil:
		return "", "", &r, nil
	case errors.Is(cerr, sut.ErrWorkerDied):
		d := detailOf(c, cerr)
		decWorker = nil
		return "crash", d, nil, nil
	case errors.Is(cerr, sut.ErrTimeout):
		decWorker = nil
		return "hang", "", nil, nil
	}
	if msg := requestPanic(cerr); msg != "" {
		return "crash", msg, nil, nil
	}
	return "", "", nil, pt.Inconclusivef("decode op: %v", cerr)
}

func decKnown(kind string) string {
	id := ""
	switch kind {
	case "mbsu", "mnm", "tth":
		id = "C18-metrics-meta-readers-unchecked"
	case "srt":
		id = "C18-sortindex-unchecked"
	case "crup":
		id = "C18-rollup-reader-unchecked"
	case "strm":
		id = "C18-startree-reader-unchecked"
	case "csgblock":
		id = "C18-column-block-decoder-unchecked"
	}
	if id != "" && pt.KnownFindingOpen(id) {
		return id
	}
	return ""
}

func checkDecoder(cs *decCase, o *pt.Obs) error {
	if strings.HasPrefix(cs.How, "noseeds") {
		return pt.Inconclusivef("%s", cs.How)
	}
	decMu.Lock()
	defer decMu.Unlock()
	o.Class("decoder_" + cs.Kind)
	o.Class("how_" + cs.How)
	if cs.How != "valid" {
		o.NonTrivial()
	}
	outcome, detail, res, err := decodeIn(cs, false)
	if err != nil {
		return err
	}
	if outcome == "" && res.AllocB <= 512<<20 {
		if res.Err != "" {
			o.Class("decoder_" + cs.Kind + "_rejected")
		} else {
			o.Class("decoder_" + cs.Kind + "_accepted")
		}
		return nil
	}
	// confirm in a fresh process before reporting
	outcome2, detail2, res2, err := decodeIn(cs, true)
	if err != nil {
		return err
	}
	if outcome2 == "hang" && outcome == "hang" {
		if _, _, _, perr := decodeIn(&decCase{Kind: "bsu", How: "valid"}, true); perr != nil {
			return pt.Inconclusivef("decoder %s timed out twice, and so does an empty input (%v)", cs.Kind, perr)
		}
	}
	if outcome2 == "" && res2.AllocB <= 512<<20 {
		return pt.Inconclusivef("decoder %s: %s in a used worker did not reproduce in a fresh one", cs.Kind, outcome)
	}
	_ = detail
	what := ""
	switch {
	case outcome2 == "crash":
		what = fmt.Sprintf("panics / kills the process: site=[%s]\n%s", panicSite(detail2), detail2)
	case outcome2 == "hang":
		what = "does not return within 30 s"
	default:
		what = fmt.Sprintf("allocated %d MiB for %d input bytes", res2.AllocB>>20, len(cs.Data))
	}
	o.Class("decoder_" + cs.Kind + "_" + "failed")
	if id := decKnown(cs.Kind); id != "" {
		o.Known(id)
		return nil
	}
	return fmt.Errorf("decoder %s on %d bytes (%s): %s", cs.Kind, len(cs.Data), cs.How, what)
}

func TestC18Decoders(t *testing.T) {
	defer cleanupProcRoot()
	defer func() {
		if decWorker != nil {
			decWorker.Close()
		}
	}()
	pt.RunProp(t, "C18", genDecCase, checkDecoder)
}

func xxhashOf(s string) uint64 { return xxhashSum(s) }
