package c18

// Worker-side operations of the C18 check (the worker is this same test binary).

import (
	"strings"
	"sync/atomic"
	"time"

	log "github.com/sirupsen/logrus"

	segmetadata "github.com/siglens/siglens/pkg/segment/metadata"
	"github.com/siglens/siglens/pkg/segment/sortindex"

	"verifharness/sut"
)

// syncSeen is set when the start-up goroutine query.initSyncSegMetaForAllIds has finished its
// pass over tenant 0 (it logs one Info line at the end of syncSegMetaWithSegFullMeta).
var syncSeen int32

type syncHook struct{}

func (syncHook) Levels() []log.Level { return []log.Level{log.InfoLevel} }
func (syncHook) Fire(e *log.Entry) error {
	if strings.HasPrefix(e.Message, "syncSegMetaWithSegFullMeta: myid=") {
		atomic.StoreInt32(&syncSeen, 1)
	}
	return nil
}

// SyncState is the answer of c18.waitsync.
type SyncState struct {
	Synced bool  `json:"synced"`
	SMI    int64 `json:"smi"`
}

func init() {
	log.AddHook(syncHook{})
	sut.RegisterOp("c18.waitsync", func(req *sut.Req) (interface{}, error) {
		deadline := time.Now().Add(time.Duration(req.Ints["ms"]) * time.Millisecond)
		for atomic.LoadInt32(&syncSeen) == 0 && time.Now().Before(deadline) {
			time.Sleep(2 * time.Millisecond)
		}
		return &SyncState{Synced: atomic.LoadInt32(&syncSeen) == 1, SMI: segmetadata.GetTotalSMICount()}, nil
	})
	sut.RegisterOp("c18.sortcols", func(req *sut.Req) (interface{}, error) {
		return nil, sortindex.SetSortColumns(req.Index, req.Strs)
	})
}
