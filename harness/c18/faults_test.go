package c18

// Fault enumeration over the files of the damaged segment.

import (
	"encoding/binary"
	"fmt"
	"math/rand"
	"os"
	"path/filepath"
)

type faultCase struct {
	DS     int    `json:"ds"`     // dataset seed
	Rel    string `json:"rel"`    // file, relative to the data directory
	Kind   string `json:"kind"`   // file kind (csg cmi bsu sst sfm pqmr srt strl strm crup segmeta)
	Col    string `json:"col"`    // column the file belongs to, if any
	Op     string `json:"op"`     // trunc | xor | set
	Pos    int    `json:"pos"`    // trunc: new length of the region; xor/set: byte offset in the region
	Val    int    `json:"val"`    // xor mask / byte value
	Region string `json:"region"` // head chunkhdr enc payload body tail (where Pos lies)
	// fingerprint of the pristine region the case was generated on (a replay on other bytes is inconclusive)
	Size int    `json:"size"`
	CRC  uint32 `json:"crc"`
	// the pristine data directory the case was enumerated on (gzip+base64, see env_test.go) and
	// the path it was built at
	Root string `json:"root"`
	Tree string `json:"tree"`
	// M: the case is about the metrics segment (TestC18Metrics)
	M bool `json:"m,omitempty"`
}

func (f *faultCase) String() string {
	return fmt.Sprintf("ds=%d %s %s pos=%d/%d val=0x%02x region=%s", f.DS, f.Rel, f.Op, f.Pos, f.Size, f.Val, f.Region)
}

const csgMagic = 0x87654321

// regionsOf labels every byte position of a file.
func regionsOf(f *segFile) []string {
	n := len(f.Data)
	out := make([]string, n+1)
	switch f.Kind {
	case "csg":
		for i := range out {
			out[i] = "payload"
		}
		off := 0
		for off+12 <= n && binary.LittleEndian.Uint32(f.Data[off:]) == csgMagic {
			l := int(binary.LittleEndian.Uint32(f.Data[off+8:]))
			for i := 0; i < 12; i++ {
				out[off+i] = "chunkhdr"
			}
			if off+12 < n {
				out[off+12] = "enc"
			}
			off += 12 + l
		}
	default:
		for i := range out {
			switch {
			case i < 16 && f.Kind != "sfm" && f.Kind != "segmeta":
				out[i] = "head"
			default:
				out[i] = "body"
			}
		}
	}
	for i := n - 4; i < n; i++ {
		if i >= 0 && out[i] != "chunkhdr" && out[i] != "head" {
			out[i] = "tail"
		}
	}
	out[n] = "tail"
	return out
}

var xorMasks = []int{0x01, 0x80, 0x5a}

// allFaults lists every truncation length and every single-byte modification
// (xor 0x01, xor 0x80, xor 0x5a, set 0x00, set 0xff) of every file of the damaged segment.
func (e *envT) allFaults() []*faultCase {
	return faultsOf(e.files, e.seed, e.blobRoot, e.blob, false)
}

func faultsOf(files []*segFile, ds int, root, blob string, metrics bool) []*faultCase {
	var out []*faultCase
	for _, f := range files {
		f := f
		reg := regionsOf(f)
		mk := func(op string, pos, val int) *faultCase {
			return &faultCase{DS: ds, Rel: f.Rel, Kind: f.Kind, Col: f.Col, Op: op, Pos: pos, Val: val, Region: reg[pos],
				Size: len(f.Data), CRC: f.CRC, Root: root, Tree: blob, M: metrics}
		}
		if !f.NoTrunc {
			for l := 0; l < len(f.Data); l++ {
				out = append(out, mk("trunc", l, 0))
			}
		}
		for p := 0; p < len(f.Data); p++ {
			if f.NoTrunc && p == len(f.Data)-1 {
				continue // the newline that separates this line from the next segment's
			}
			for _, m := range xorMasks {
				out = append(out, mk("xor", p, m))
			}
			for _, v := range []int{0x00, 0xff} {
				if int(f.Data[p]) != v && int(f.Data[p])^v != 0x01 && int(f.Data[p])^v != 0x80 && int(f.Data[p])^v != 0x5a {
					out = append(out, mk("set", p, v))
				}
			}
		}
	}
	return out
}

// sample picks budget faults, stratified by (file, region, truncation|modification): the groups
// are visited round-robin, each in a seeded pseudo-random order, until the budget is used.
func sample(all []*faultCase, budget int, seed int64) []*faultCase {
	if budget >= len(all) {
		return all
	}
	type grp struct{ items []*faultCase }
	var order []string
	groups := map[string]*grp{}
	for _, f := range all {
		cls := "mod"
		if f.Op == "trunc" {
			cls = "trunc"
		}
		k := f.Rel + "|" + f.Region + "|" + cls
		g := groups[k]
		if g == nil {
			g = &grp{}
			groups[k] = g
			order = append(order, k)
		}
		g.items = append(g.items, f)
	}
	rng := rand.New(rand.NewSource(seed))
	for _, k := range order {
		g := groups[k]
		rng.Shuffle(len(g.items), func(i, j int) { g.items[i], g.items[j] = g.items[j], g.items[i] })
	}
	var out []*faultCase
	for round := 0; len(out) < budget; round++ {
		took := false
		for _, k := range order {
			g := groups[k]
			if round < len(g.items) && len(out) < budget {
				out = append(out, g.items[round])
				took = true
			}
		}
		if !took {
			break
		}
	}
	return out
}

// apply writes the damaged version of the file into dataDir (which holds the pristine tree).
func (e *envT) apply(fc *faultCase, f *segFile) error { return applyFault(e.dataDir, fc, f) }

func applyFault(dataDir string, fc *faultCase, f *segFile) error {
	p := filepath.Join(dataDir, f.Rel)
	whole, err := os.ReadFile(p)
	if err != nil {
		return err
	}
	if len(whole) < f.Off+len(f.Data) {
		return fmt.Errorf("restored file %s is shorter than the pristine one", f.Rel)
	}
	switch fc.Op {
	case "trunc":
		whole = whole[:f.Off+fc.Pos]
	case "xor":
		whole[f.Off+fc.Pos] ^= byte(fc.Val)
	case "set":
		whole[f.Off+fc.Pos] = byte(fc.Val)
	default:
		return fmt.Errorf("unknown fault op %q", fc.Op)
	}
	return os.WriteFile(p, whole, 0o644)
}
