package probe

import (
	"fmt"
	"os"
	"testing"

	"verifharness/pt"
	"verifharness/sut"
)

func TestCrashProbe(t *testing.T) {
	dir := pt.NewDataDir()
	defer pt.CleanupDataDir(dir)
	a, err := sut.Start(sut.Options{DataDir: dir})
	if err != nil {
		t.Fatal(err)
	}
	body := "{\"index\":{\"_index\":\"p\"}}\n{\"timestamp\":1700000000001,\"a\":1,\"s\":\"x\",\"_vid\":1}\n{\"index\":{\"_index\":\"p\"}}\n{\"timestamp\":1700000000002,\"a\":2,\"s\":\"y\",\"_vid\":2}\n"
	a.Bulk(0, []byte(body))
	a.Flush()
	if os.Getenv("PROBE_SECOND") != "" {
		a.Bulk(0, []byte("{\"index\":{\"_index\":\"p\"}}\n{\"timestamp\":1700000000003,\"a\":3,\"s\":\"z\",\"_vid\":3}\n"))
		a.Flush()
	}
	a.Kill()
	b, err := sut.Start(sut.Options{DataDir: dir})
	if err != nil {
		t.Fatal(err)
	}
	defer b.Close()
	for i := 0; i < 3; i++ {
		for _, q := range []string{"*", "_vid=2", "a=2", "s=y", "a>1", "_vid=3"} {
			sr, err := b.Search(sut.Query{Index: "p", Text: q, Start: 1, End: 1800000000000, Size: 100})
			fmt.Println(i, q, err, sr)
		}
	}
}
