package probe

import (
	"fmt"
	"os"
	"strconv"
	"strings"
	"testing"

	"verifharness/pt"
	"verifharness/sut"
)

func TestProbe(t *testing.T) {
	body := os.Getenv("PROBE_BODY")
	queries := strings.Split(os.Getenv("PROBE_Q"), ";;")
	pt.WithWorker(sut.Options{}, func(c *sut.Client) error {
		var sb strings.Builder
		send := func() {
			if sb.Len() == 0 {
				return
			}
			br, err := c.Bulk(0, []byte(sb.String()))
			fmt.Println(string(br.Response), err)
			sb.Reset()
		}
		if v := os.Getenv("PROBE_CARD"); v != "" {
			n, _ := strconv.Atoi(v)
			c.Set("cardLimit", int64(n))
		}
		for _, l := range strings.Split(strings.TrimSpace(body), "\n") {
			if strings.HasPrefix(l, "QUERY ") {
				send()
				sr, err := c.Search(sut.Query{Index: "p", Text: strings.TrimPrefix(l, "QUERY "), Start: 1, End: 1800000000000, Size: 100})
				fmt.Println("prequery:", err, sr)
				continue
			}
			switch strings.TrimSpace(l) {
			case "FLUSH":
				send()
				c.Flush()
			case "ROTATE":
				send()
				c.Rotate()
			default:
				sb.WriteString("{\"index\":{\"_index\":\"p\"}}\n" + l + "\n")
			}
		}
		send()
		c.Flush()
		if os.Getenv("PROBE_ROTATE") != "" {
			c.Rotate()
		}
		for _, q := range queries {
			sr, err := c.Search(sut.Query{Index: "p", Text: q, Start: 1, End: 1800000000000, Size: 100, IncludeNulls: os.Getenv("PROBE_NULLS") != ""})
			fmt.Printf("Q: %s\n   err=%v %s\n", q, err, sr)
			for _, r := range sr.Records {
				fmt.Println("   ", r)
			}
			for _, m := range sr.Measure {
				fmt.Println("   M", m.GroupBy, m.Vals)
			}
		}
		return nil
	})
}
