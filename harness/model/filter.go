package model

import (
	"math"
	"strconv"
	"strings"
)

// Tri is a three-valued verdict: the property fixes the answer (True/False) or is silent (DontCare).
type Tri int

const (
	False Tri = iota
	True
	DontCare
)

func (t Tri) String() string { return [...]string{"false", "true", "dontcare"}[t] }

func TriNot(t Tri) Tri {
	switch t {
	case True:
		return False
	case False:
		return True
	}
	return DontCare
}

func TriAnd(a, b Tri) Tri {
	if a == False || b == False {
		return False
	}
	if a == DontCare || b == DontCare {
		return DontCare
	}
	return True
}

func TriOr(a, b Tri) Tri {
	if a == True || b == True {
		return True
	}
	if a == DontCare || b == DontCare {
		return DontCare
	}
	return False
}

// LitKind of a literal in a comparison.
type LitKind int

const (
	LInt LitKind = iota
	LFloat
	LStr  // quoted string without wildcard
	LWild // string containing * wildcards
	LBool
)

// Lit is a literal of a field comparison.
type Lit struct {
	K     LitKind `json:"k"`
	I     int64   `json:"i,omitempty"`
	F     float64 `json:"f,omitempty"`
	S     string  `json:"s,omitempty"`
	B     bool    `json:"b,omitempty"`
	Spell string  `json:"sp,omitempty"` // spelling of a numeric literal in the query text
}

func (l Lit) IsNum() bool { return l.K == LInt || l.K == LFloat }

// Text renders the literal for SPL.
func (l Lit) Text() string {
	switch l.K {
	case LInt:
		if l.Spell != "" {
			return l.Spell
		}
		return strconv.FormatInt(l.I, 10)
	case LFloat:
		if l.Spell != "" {
			return l.Spell
		}
		return strconv.FormatFloat(l.F, 'f', -1, 64)
	case LStr, LWild:
		return splQuote(l.S)
	case LBool:
		return strconv.FormatBool(l.B)
	}
	return ""
}

func splQuote(s string) string {
	return `"` + strings.ReplaceAll(strings.ReplaceAll(s, `\`, `\\`), `"`, `\"`) + `"`
}

// Filter is a search-expression AST.
type Filter struct {
	Kind  string    `json:"kind"` // cmp | and | or | not | term | phrase | all
	Field string    `json:"field,omitempty"`
	Op    string    `json:"op,omitempty"` // = != < <= > >=
	Lit   *Lit      `json:"lit,omitempty"`
	Text  string    `json:"text,omitempty"` // term / phrase
	Kids  []*Filter `json:"kids,omitempty"`
}

// SPL renders the filter as Splunk-QL search text (fully parenthesised below the root).
func (f *Filter) SPL() string { return f.spl(true) }

func (f *Filter) spl(root bool) string {
	switch f.Kind {
	case "all":
		return "*"
	case "cmp":
		return f.Field + f.Op + f.Lit.Text()
	case "term":
		return f.Text
	case "phrase":
		return splQuote(f.Text)
	case "not":
		// always parenthesised: how NOT binds relative to AND/OR in the search grammar is not relied on
		s := "NOT (" + f.Kids[0].spl(true) + ")"
		if !root {
			s = "(" + s + ")"
		}
		return s
	case "and", "or":
		parts := make([]string, len(f.Kids))
		for i, k := range f.Kids {
			parts[i] = k.spl(false)
		}
		sep := " AND "
		if f.Kind == "or" {
			sep = " OR "
		}
		s := strings.Join(parts, sep)
		if !root {
			s = "(" + s + ")"
		}
		return s
	}
	return "*"
}

// floatTol is the engine's documented absolute tolerance for float equality (AlmostEquals).
const floatTol = 1e-4

// cmpNum compares a stored number with a numeric literal: -1, 0, +1, and exact=false when
// the comparison cannot be decided exactly in float64 (|x| > 2^53 on an int side).
func cmpNum(v Val, l Lit) (c int, exact bool) {
	if v.K == KInt && l.K == LInt {
		switch {
		case v.I < l.I:
			return -1, true
		case v.I > l.I:
			return 1, true
		}
		return 0, true
	}
	a, b := v.Num(), l.F
	if l.K == LInt {
		b = float64(l.I)
	}
	exact = true
	if v.K == KInt && !ExactFloat(v.I) {
		exact = false
	}
	if l.K == LInt && !ExactFloat(l.I) {
		exact = false
	}
	switch {
	case a < b:
		return -1, exact
	case a > b:
		return 1, exact
	}
	return 0, exact
}

// EvalCmp evaluates `field op lit` against the event's value (absent = nil).
func EvalCmp(v *Val, op string, l Lit) Tri {
	if l.K == LInt && strings.ContainsAny(l.Spell, ".eE") {
		// an integer written as a decimal is a float literal for the engine
		orig := l.I
		l = Lit{K: LFloat, F: float64(orig), Spell: l.Spell}
		if !ExactFloat(orig) || orig >= 1<<53 || orig <= -(1<<53) {
			if v != nil && v.IsNum() {
				return DontCare
			}
		}
	}
	if v == nil || v.K == KNull {
		// An event without the field cannot satisfy a positive comparison; for != the
		// statement is silent.
		if op == "!=" {
			return DontCare
		}
		return False
	}
	switch {
	case l.IsNum():
		if !v.IsNum() {
			return DontCare // string/bool field against a numeric literal: engine rule not stated
		}
		c, exact := cmpNum(*v, l)
		diff := math.Abs(v.Num() - numOf(l))
		near := diff < 2*floatTol && !(c == 0 && exact)
		if !exact && diff < 4096 {
			return DontCare
		}
		switch op {
		case "=":
			if c == 0 && exact {
				return True
			}
			if near || math.IsNaN(diff) {
				return DontCare
			}
			return False
		case "!=":
			if c == 0 && exact {
				return False
			}
			if near || math.IsNaN(diff) {
				return DontCare
			}
			return True
		case "<":
			return tri(c < 0)
		case "<=":
			return tri(c <= 0)
		case ">":
			return tri(c > 0)
		case ">=":
			return tri(c >= 0)
		}
	case l.K == LStr:
		if op != "=" && op != "!=" {
			return DontCare
		}
		var eq Tri
		switch v.K {
		case KStr:
			_, vNumeric := strconv.ParseFloat(strings.TrimSpace(v.S), 64)
			switch {
			case v.S == "" || l.S == "":
				eq = DontCare // matching of empty strings is not stated
			case vNumeric == nil:
				eq = DontCare // numeric text: whether it is compared as text or as a number is not stated
			case v.S == l.S:
				eq = True
			case !isPlainASCII(v.S) || !isPlainASCII(l.S):
				eq = DontCare // case folding beyond ASCII is not stated
			case strings.TrimSpace(v.S) != v.S || strings.TrimSpace(l.S) != l.S:
				eq = DontCare // leading/trailing blanks
			default:
				eq = tri(strings.EqualFold(v.S, l.S))
			}
		default:
			// number/bool value against a text literal: equal only if the literal could denote it
			if _, err := strconv.ParseFloat(strings.TrimSpace(l.S), 64); err == nil {
				eq = DontCare
			} else if ls := strings.ToLower(strings.TrimSpace(l.S)); ls == "true" || ls == "false" {
				eq = DontCare
			} else {
				eq = False
			}
		}
		if op == "!=" {
			return TriNot(eq)
		}
		return eq
	case l.K == LWild:
		if op != "=" && op != "!=" {
			return DontCare
		}
		var eq Tri
		_, vNumeric := strconv.ParseFloat(strings.TrimSpace(v.S), 64)
		if v.K == KStr && vNumeric != nil && isPlainASCII(v.S) && isPlainASCII(l.S) && strings.TrimSpace(v.S) == v.S && v.S != "" {
			eq = tri(GlobMatchFold(l.S, v.S))
		} else {
			eq = DontCare
		}
		if op == "!=" {
			return TriNot(eq)
		}
		return eq
	case l.K == LBool:
		// The statement lists string, integer and decimal literals only; how the bare words
		// true/false are compared with stored booleans is not stated.
		return DontCare
	}
	return DontCare
}

func numOf(l Lit) float64 {
	if l.K == LInt {
		return float64(l.I)
	}
	return l.F
}

func tri(b bool) Tri {
	if b {
		return True
	}
	return False
}

func isPlainASCII(s string) bool {
	for i := 0; i < len(s); i++ {
		if s[i] < 0x20 || s[i] > 0x7e {
			return false
		}
	}
	return true
}

// GlobMatchFold matches pattern (with * = any sequence) against s, ASCII case-insensitively.
func GlobMatchFold(pattern, s string) bool {
	p, t := strings.ToLower(pattern), strings.ToLower(s)
	return globMatch(p, t)
}

func globMatch(p, s string) bool {
	// classic iterative wildcard match with backtracking on the last *
	pi, si, star, mark := 0, 0, -1, 0
	for si < len(s) {
		if pi < len(p) && p[pi] == '*' {
			star = pi
			mark = si
			pi++
		} else if pi < len(p) && p[pi] == s[si] {
			pi++
			si++
		} else if star >= 0 {
			pi = star + 1
			mark++
			si = mark
		} else {
			return false
		}
	}
	for pi < len(p) && p[pi] == '*' {
		pi++
	}
	return pi == len(p)
}

// valueTexts returns every textual rendering under which a stored value might be searched.
func valueText(v Val) string {
	switch v.K {
	case KStr:
		return v.S
	case KInt:
		return strconv.FormatInt(v.I, 10)
	case KFloat:
		return strconv.FormatFloat(v.F, 'f', -1, 64) + " " + strconv.FormatFloat(v.F, 'g', -1, 64)
	case KBool:
		return strconv.FormatBool(v.B)
	}
	return ""
}

// EvalTerm evaluates a free-text term or phrase: True when some string value contains it as a
// space-delimited word sequence (the documented sub-word rule), False when it is not a
// substring of any value's text, DontCare otherwise.
func EvalTerm(flat Flat, extraTexts []string, text string) Tri {
	lt := strings.ToLower(text)
	if !isPlainASCII(text) || text == "" {
		return DontCare
	}
	if _, err := strconv.ParseFloat(strings.TrimSpace(text), 64); err == nil || lt == "true" || lt == "false" {
		// a bare number / boolean word is searched as a value of that type across columns: whether
		// the text "12" matches it is not stated
		return DontCare
	}
	sub := false
	for _, v := range flat {
		if v.K == KStr && isPlainASCII(v.S) && strings.TrimSpace(v.S) == v.S && !strings.Contains(v.S, "  ") {
			if wordContains(strings.ToLower(v.S), lt) {
				return True
			}
		}
		if strings.Contains(strings.ToLower(valueText(v)), lt) {
			sub = true
		}
	}
	for name := range flat {
		if strings.Contains(strings.ToLower(name), lt) {
			sub = true
		}
	}
	for _, x := range extraTexts {
		if strings.Contains(strings.ToLower(x), lt) {
			sub = true
		}
	}
	if sub {
		return DontCare
	}
	return False
}

func wordContains(hay, needle string) bool {
	for i := 0; i+len(needle) <= len(hay); i++ {
		if hay[i:i+len(needle)] == needle {
			if (i == 0 || hay[i-1] == ' ') && (i+len(needle) == len(hay) || hay[i+len(needle)] == ' ') {
				return true
			}
		}
	}
	return false
}

// Eval evaluates the filter on one event.
//
// Negation: the engine negates comparisons operator-wise (NOT a>2 behaves like a<=2), so for an
// event that lacks a field referenced below a NOT the statement does not fix the answer; such
// verdicts are DontCare. For events that carry every referenced field NOT is the complement.
func (f *Filter) Eval(e *Event) Tri {
	t, _ := f.eval(e, nil)
	return t
}

// Ctx carries dataset-level facts the verdict depends on.
type Ctx struct {
	// MixedCols names columns that hold, somewhere in the dataset, a value that is not a number
	// (text or boolean). Numbers of such a column may be stored as their decimal text (the
	// documented block-level consolidation), and how a numeric literal compares with numeric
	// text is not stated: those verdicts are DontCare.
	MixedCols map[string]bool
	// Override gives, per event (_vid) and column, the value as it is stored after the block-level
	// consolidation "numbers + numeric text -> numbers" (see NumericConsolidation): such values are
	// compared as numbers and are exempt from the MixedCols don't-care.
	Override map[int64]map[string]Val
}

// NumericConsolidation computes Override for events grouped into blocks (one slice per flushed
// block): in a block where a column holds at least one JSON number, no boolean, and only strings
// that strconv parses as numbers, every value of the column is stored as a number.
func (c *Ctx) NumericConsolidation(blocks [][]*Event) {
	if c.Override == nil {
		c.Override = map[int64]map[string]Val{}
	}
	for _, blk := range blocks {
		type st struct{ num, str, other, bad bool }
		cols := map[string]*st{}
		for _, e := range blk {
			f, _ := e.Flat()
			for n, v := range f {
				x := cols[n]
				if x == nil {
					x = &st{}
					cols[n] = x
				}
				switch v.K {
				case KInt, KFloat:
					x.num = true
				case KStr:
					x.str = true
					if _, ok := parseNumText(v.S); !ok {
						x.bad = true
					}
				default:
					x.other = true
				}
			}
		}
		for n, x := range cols {
			if !(x.num && x.str && !x.bad && !x.other) {
				continue
			}
			for _, e := range blk {
				f, _ := e.Flat()
				v, ok := f[n]
				if !ok {
					continue
				}
				if c.Override[e.Vid] == nil {
					c.Override[e.Vid] = map[string]Val{}
				}
				if v.K == KStr {
					nv, _ := parseNumText(v.S)
					c.Override[e.Vid][n] = nv
				} else {
					c.Override[e.Vid][n] = v
				}
			}
		}
	}
}

// parseNumText mirrors the documented conversion: integer first, then float; NaN/Inf text is left
// out (comparisons with NaN are not stated).
func parseNumText(s string) (Val, bool) {
	if i, err := strconv.ParseInt(s, 10, 64); err == nil {
		return Int(i), true
	}
	if f, err := strconv.ParseFloat(s, 64); err == nil && !math.IsNaN(f) && !math.IsInf(f, 0) {
		return Float(f), true
	}
	return Val{}, false
}

// NewCtx derives the context from the events of a dataset.
func NewCtx(evs []*Event) *Ctx {
	c := &Ctx{MixedCols: map[string]bool{}}
	for _, e := range evs {
		f, _ := e.Flat()
		for n, v := range f {
			if !v.IsNum() {
				c.MixedCols[n] = true
			}
		}
	}
	return c
}

// EvalIn evaluates with dataset context.
func (f *Filter) EvalIn(e *Event, c *Ctx) Tri {
	t, _ := f.eval(e, c)
	return t
}

// Decided reports whether every comparison leaf of the filter has a stated verdict (not DontCare)
// on this event and every compared field is present.
func (f *Filter) Decided(e *Event, c *Ctx) bool {
	switch f.Kind {
	case "cmp", "term", "phrase", "all":
		t, absent := f.eval(e, c)
		return t != DontCare && !absent
	}
	for _, k := range f.Kids {
		if !k.Decided(e, c) {
			return false
		}
	}
	return true
}

// FieldsPresent reports whether the event carries every field the filter compares.
func (f *Filter) FieldsPresent(e *Event) bool {
	_, absent := f.eval(e, nil)
	return !absent
}

func (f *Filter) eval(e *Event, c *Ctx) (Tri, bool) {
	flat, _ := e.Flat()
	switch f.Kind {
	case "all":
		return True, false
	case "cmp":
		if v, ok := flat[f.Field]; ok {
			if c != nil && c.Override != nil {
				if ov, ok := c.Override[e.Vid][f.Field]; ok {
					if !f.Lit.IsNum() {
						return DontCare, false
					}
					return EvalCmp(&ov, f.Op, *f.Lit), false
				}
			}
			if c != nil && c.MixedCols[f.Field] && v.IsNum() {
				return DontCare, false
			}
			return EvalCmp(&v, f.Op, *f.Lit), false
		}
		return EvalCmp(nil, f.Op, *f.Lit), true
	case "term", "phrase":
		extra := []string{strconv.FormatUint(e.Ts, 10)}
		return EvalTerm(flat, extra, f.Text), false
	case "not":
		t, absent := f.Kids[0].eval(e, c)
		if absent {
			return DontCare, true
		}
		return TriNot(t), false
	case "and":
		r, absent := True, false
		for _, k := range f.Kids {
			t, a := k.eval(e, c)
			r = TriAnd(r, t)
			absent = absent || a
		}
		return r, absent
	case "or":
		r, absent := False, false
		for _, k := range f.Kids {
			t, a := k.eval(e, c)
			r = TriOr(r, t)
			absent = absent || a
		}
		return r, absent
	}
	return DontCare, false
}
