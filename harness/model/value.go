// Package model holds the reference models (oracles). It imports nothing from siglens.
package model

import (
	"fmt"
	"math"
	"sort"
	"strconv"
	"strings"
	"unicode/utf8"
)

// Kind of a leaf value.
type Kind int

const (
	KNull Kind = iota
	KInt
	KFloat
	KStr
	KBool
)

func (k Kind) String() string { return [...]string{"null", "int", "float", "str", "bool"}[k] }

// Val is a typed leaf value of an event.
type Val struct {
	K Kind    `json:"k"`
	I int64   `json:"i,omitempty"`
	F float64 `json:"f,omitempty"`
	S string  `json:"s,omitempty"`
	B bool    `json:"b,omitempty"`
	// Spell, if non-empty, is the literal number text to put into the JSON document instead of the
	// canonical formatting (e.g. "1e3", "2.50"). It must parse to the same value.
	Spell string `json:"sp,omitempty"`
}

func Null() Val           { return Val{K: KNull} }
func Int(i int64) Val     { return Val{K: KInt, I: i} }
func Float(f float64) Val { return Val{K: KFloat, F: f} }
func Str(s string) Val    { return Val{K: KStr, S: s} }
func Bool(b bool) Val     { return Val{K: KBool, B: b} }

func (v Val) IsNum() bool { return v.K == KInt || v.K == KFloat }

// Num returns the numeric value as float64 (lossy for |int| > 2^53).
func (v Val) Num() float64 {
	if v.K == KInt {
		return float64(v.I)
	}
	return v.F
}

func (v Val) String() string {
	switch v.K {
	case KNull:
		return "null"
	case KInt:
		return strconv.FormatInt(v.I, 10)
	case KFloat:
		return "f" + strconv.FormatFloat(v.F, 'g', -1, 64)
	case KStr:
		return strconv.Quote(v.S)
	case KBool:
		return strconv.FormatBool(v.B)
	}
	return "?"
}

// JSONText renders the leaf as JSON.
func (v Val) JSONText() string {
	switch v.K {
	case KNull:
		return "null"
	case KInt:
		if v.Spell != "" {
			return v.Spell
		}
		return strconv.FormatInt(v.I, 10)
	case KFloat:
		if v.Spell != "" {
			return v.Spell
		}
		return FormatJSONFloat(v.F)
	case KStr:
		return QuoteJSON(v.S)
	case KBool:
		return strconv.FormatBool(v.B)
	}
	return "null"
}

// FormatJSONFloat renders a float so that a JSON parser can never read it as an integer.
func FormatJSONFloat(f float64) string {
	s := strconv.FormatFloat(f, 'g', -1, 64)
	if !strings.ContainsAny(s, ".eE") {
		s += ".0"
	}
	// JSON does not allow "1e+06" ? it does: exponent sign is allowed.
	return s
}

// QuoteJSON renders a Go string as a JSON string with the minimal mandatory escapes;
// non-ASCII is emitted raw (valid UTF-8 only).
func QuoteJSON(s string) string {
	var sb strings.Builder
	sb.WriteByte('"')
	for _, r := range s {
		switch r {
		case '"':
			sb.WriteString(`\"`)
		case '\\':
			sb.WriteString(`\\`)
		case '\n':
			sb.WriteString(`\n`)
		case '\r':
			sb.WriteString(`\r`)
		case '\t':
			sb.WriteString(`\t`)
		case '\b':
			sb.WriteString(`\b`)
		case '\f':
			sb.WriteString(`\f`)
		default:
			if r < 0x20 {
				fmt.Fprintf(&sb, `\u%04x`, r)
			} else if r == utf8.RuneError {
				sb.WriteString(`�`)
			} else {
				sb.WriteRune(r)
			}
		}
	}
	sb.WriteByte('"')
	return sb.String()
}

// Node is a JSON document node: leaf, object (ordered) or array.
type Node struct {
	Leaf *Val    `json:"leaf,omitempty"`
	Obj  []Field `json:"obj,omitempty"`
	Arr  []Node  `json:"arr,omitempty"`
	// IsObj / IsArr disambiguate empty containers.
	IsObj bool `json:"isObj,omitempty"`
	IsArr bool `json:"isArr,omitempty"`
}

type Field struct {
	Name string `json:"n"`
	Node Node   `json:"v"`
}

func LeafNode(v Val) Node { return Node{Leaf: &v} }

// JSONText renders the node compactly.
func (n Node) JSONText() string {
	var sb strings.Builder
	n.write(&sb)
	return sb.String()
}

func (n Node) write(sb *strings.Builder) {
	switch {
	case n.Leaf != nil:
		sb.WriteString(n.Leaf.JSONText())
	case n.IsArr || n.Arr != nil:
		sb.WriteByte('[')
		for i, e := range n.Arr {
			if i > 0 {
				sb.WriteByte(',')
			}
			e.write(sb)
		}
		sb.WriteByte(']')
	default:
		sb.WriteByte('{')
		for i, f := range n.Obj {
			if i > 0 {
				sb.WriteByte(',')
			}
			sb.WriteString(QuoteJSON(f.Name))
			sb.WriteByte(':')
			f.Node.write(sb)
		}
		sb.WriteByte('}')
	}
}

// Flat is a flattened event: column name → leaf. Nulls are not stored (null ≡ absent).
type Flat map[string]Val

// Flatten applies the documented flattening: nested object members are joined with ".",
// array elements are named by their index. dup reports whether two leaves produced the
// same flattened name (the statement does not define that case).
func Flatten(n Node) (flat Flat, dup bool) {
	flat = Flat{}
	seen := map[string]bool{}
	var rec func(prefix string, n Node)
	rec = func(prefix string, n Node) {
		switch {
		case n.Leaf != nil:
			if seen[prefix] {
				dup = true
			}
			seen[prefix] = true
			if n.Leaf.K != KNull {
				flat[prefix] = *n.Leaf
			}
		case n.IsArr || n.Arr != nil:
			for i, e := range n.Arr {
				name := strconv.Itoa(i)
				if prefix != "" {
					name = prefix + "." + name
				}
				rec(name, e)
			}
		default:
			for _, f := range n.Obj {
				name := f.Name
				if prefix != "" {
					name = prefix + "." + name
				}
				rec(name, f.Node)
			}
		}
	}
	rec("", n)
	return flat, dup
}

// Names returns the sorted column names.
func (f Flat) Names() []string {
	out := make([]string, 0, len(f))
	for k := range f {
		out = append(out, k)
	}
	sort.Strings(out)
	return out
}

// Event is one logical log event as sent.
type Event struct {
	Vid  int64  `json:"vid"`
	Ts   uint64 `json:"ts"` // epoch ms
	Doc  Node   `json:"doc"`
	flat Flat
	dup  bool
	done bool
}

// Flat returns the expected flattened columns (without timestamp), cached.
func (e *Event) Flat() (Flat, bool) {
	if !e.done {
		e.flat, e.dup = Flatten(e.Doc)
		e.done = true
	}
	return e.flat, e.dup
}

// ExactFloat reports whether an int64 is exactly representable as float64.
func ExactFloat(i int64) bool {
	f := float64(i)
	if f >= math.MaxInt64 || f <= math.MinInt64 {
		return i == math.MinInt64
	}
	return int64(f) == i
}
