package model

import (
	"fmt"
	"math"
	"math/big"
	"sort"
	"strconv"
	"strings"
)

// Measure is one aggregation function applied to a field ("" for count).
type Measure struct {
	Fn    string `json:"fn"`    // count sum min max avg range dc values list earliest latest perc median
	Field string `json:"field"` // empty for plain count
	Perc  int    `json:"perc,omitempty"`
}

// Key is the name under which the engine reports the measure.
func (m Measure) Key() string {
	switch m.Fn {
	case "count":
		if m.Field == "" {
			return "count(*)"
		}
		return "count(" + m.Field + ")"
	case "dc":
		return "cardinality(" + m.Field + ")"
	case "perc":
		return fmt.Sprintf("perc%d(%s)", m.Perc, m.Field)
	}
	return m.Fn + "(" + m.Field + ")"
}

// SPL renders the measure.
func (m Measure) SPL() string {
	switch m.Fn {
	case "count":
		if m.Field == "" {
			return "count"
		}
		return "count(" + m.Field + ")"
	case "perc":
		return fmt.Sprintf("perc%d(%s)", m.Perc, m.Field)
	}
	return m.Fn + "(" + m.Field + ")"
}

// StatsQuery is `filter | stats measures by fields` or `filter | timechart span=… measures [by field]`.
type StatsQuery struct {
	Filter    *Filter   `json:"filter"`
	Measures  []Measure `json:"measures"`
	By        []string  `json:"by,omitempty"`
	Timechart bool      `json:"timechart,omitempty"`
	SpanMs    uint64    `json:"spanMs,omitempty"`
	SpanText  string    `json:"spanText,omitempty"`
}

func (q *StatsQuery) SPL() string {
	var sb strings.Builder
	if q.Filter != nil {
		sb.WriteString(q.Filter.SPL())
	} else {
		sb.WriteString("*")
	}
	parts := make([]string, len(q.Measures))
	for i, m := range q.Measures {
		parts[i] = m.SPL()
	}
	if q.Timechart {
		sb.WriteString(" | timechart span=" + q.SpanText + " " + strings.Join(parts, ", "))
		if len(q.By) == 1 {
			sb.WriteString(" by " + q.By[0]) // split-by field: one series per value and measure
		}
		return sb.String()
	}
	sb.WriteString(" | stats " + strings.Join(parts, ", "))
	if len(q.By) > 0 {
		sb.WriteString(" by " + strings.Join(q.By, ", "))
	}
	return sb.String()
}

// Expect is the expectation for one measure in one group.
type Expect struct {
	DontCare bool     // the statement is silent (no numeric input, mixed types, precision)
	Kind     string   // "uint" exact count | "num" numeric with tolerance | "set" | "multiset" | "oneof" | "between" | "approxcount"
	Count    uint64   // uint / approxcount
	Num      float64  // num
	Tol      float64  // absolute tolerance for num
	Strs     []string // set / multiset: canonical texts ; oneof: allowed canonical texts
	Lo, Hi   float64  // between
	Note     string
	// AltCount/AltID: a second value accepted only while the known finding AltID is open.
	AltCount uint64
	AltNum   float64
	AltID    string
}

// CanonText renders a leaf value the way a user would read it back; numbers in shortest form.
func CanonText(v Val) string {
	switch v.K {
	case KInt:
		return strconv.FormatInt(v.I, 10)
	case KFloat:
		return strconv.FormatFloat(v.F, 'f', -1, 64)
	case KStr:
		return v.S
	case KBool:
		return strconv.FormatBool(v.B)
	}
	return ""
}

// GroupKey is the tuple of by-field values.
type GroupKey struct {
	Vals []Val
}

func (g GroupKey) String() string {
	parts := make([]string, len(g.Vals))
	for i, v := range g.Vals {
		parts[i] = v.K.String()[:1] + ":" + CanonText(v)
	}
	return strings.Join(parts, "\x1f")
}

// Group is the reference result for one group.
type Group struct {
	Key    GroupKey
	Events []*Event
	Expect map[string]Expect // by measure key
}

// AggregateGroups partitions the matched events by the by-fields (events lacking one are left out: the
// null-key group is a don't-care) and computes the expectation for each measure.
// mixed names columns holding more than one JSON type anywhere in the dataset.
func AggregateGroups(matched []*Event, q *StatsQuery, ctx *Ctx, colKinds map[string]map[Kind]bool) []*Group {
	byKey := map[string]*Group{}
	var order []string
	for _, e := range matched {
		flat, _ := e.Flat()
		var key GroupKey
		ok := true
		for _, b := range q.By {
			v, has := flat[b]
			if !has {
				ok = false
				break
			}
			key.Vals = append(key.Vals, v)
		}
		if !ok {
			continue
		}
		ks := key.String()
		g := byKey[ks]
		if g == nil {
			g = &Group{Key: key, Expect: map[string]Expect{}}
			byKey[ks] = g
			order = append(order, ks)
		}
		g.Events = append(g.Events, e)
	}
	out := make([]*Group, 0, len(order))
	for _, ks := range order {
		g := byKey[ks]
		for _, m := range q.Measures {
			g.Expect[m.Key()] = ExpectMeasure(g.Events, m, colKinds)
		}
		out = append(out, g)
	}
	return out
}

// ColKinds returns, per column, the set of value kinds present in the events.
func ColKinds(evs []*Event) map[string]map[Kind]bool {
	out := map[string]map[Kind]bool{}
	for _, e := range evs {
		f, _ := e.Flat()
		for n, v := range f {
			if out[n] == nil {
				out[n] = map[Kind]bool{}
			}
			out[n][v.K] = true
		}
	}
	return out
}

func onlyNumeric(kinds map[Kind]bool) bool {
	for k := range kinds {
		if k != KInt && k != KFloat {
			return false
		}
	}
	return len(kinds) > 0
}

// ExpectMeasure computes the expectation of one measure over the events of a group.
func ExpectMeasure(evs []*Event, m Measure, colKinds map[string]map[Kind]bool) Expect {
	if m.Fn == "count" && m.Field == "" {
		return Expect{Kind: "uint", Count: uint64(len(evs))}
	}
	var vals []Val
	var tss []uint64
	for _, e := range evs {
		f, _ := e.Flat()
		if v, ok := f[m.Field]; ok {
			vals = append(vals, v)
			tss = append(tss, e.Ts)
		}
	}
	kinds := colKinds[m.Field]
	numericCol := onlyNumeric(kinds)
	numericText := false
	for _, v := range vals {
		if v.K == KStr {
			if _, err := strconv.ParseFloat(strings.TrimSpace(v.S), 64); err == nil {
				numericText = true
			}
		}
	}
	if numericText && m.Fn != "count" {
		return Expect{DontCare: true, Note: "numeric text: counted as a number by some paths (anchor note), not stated for this function"}
	}
	switch m.Fn {
	case "count":
		ex := Expect{Kind: "uint", Count: uint64(len(vals))}
		if len(vals) != len(evs) {
			// known finding C04-count-field-groupby: with a by-clause count(f) reports the group size
			ex.AltCount, ex.AltID = uint64(len(evs)), "C04-count-field-groupby"
		}
		return ex
	case "sum", "avg", "min", "max", "range":
		if len(vals) == 0 {
			return Expect{DontCare: true, Note: "no input"}
		}
		if !numericCol {
			return Expect{DontCare: true, Note: "column not purely numeric"}
		}
		allInt := true
		sum := new(big.Rat)
		absSum := 0.0
		lo, hi := math.Inf(1), math.Inf(-1)
		for _, v := range vals {
			if v.K == KInt {
				if v.I >= 1<<53 || v.I <= -(1<<53) {
					return Expect{DontCare: true, Note: "beyond 2^53"}
				}
				sum.Add(sum, new(big.Rat).SetInt64(v.I))
			} else {
				allInt = false
				if math.Abs(v.F) > 1e15 || (v.F != 0 && math.Abs(v.F) < 1e-9) {
					return Expect{DontCare: true, Note: "extreme float"}
				}
				r := new(big.Rat)
				r.SetFloat64(v.F)
				sum.Add(sum, r)
			}
			n := v.Num()
			absSum += math.Abs(n)
			lo = math.Min(lo, n)
			hi = math.Max(hi, n)
		}
		_ = allInt
		sf, _ := sum.Float64()
		tol := 1e-9*absSum + 1e-12
		switch m.Fn {
		case "sum":
			return Expect{Kind: "num", Num: sf, Tol: tol}
		case "avg":
			ex := Expect{Kind: "num", Num: sf / float64(len(vals)), Tol: tol/float64(len(vals)) + 1e-12}
			if len(vals) != len(evs) {
				// known finding C04-count-field-groupby: on the group-by path avg(f) divides by the group size
				ex.AltNum, ex.AltID = sf/float64(len(evs)), "C04-count-field-groupby"
			}
			return ex
		case "min":
			return Expect{Kind: "num", Num: lo, Tol: 0}
		case "max":
			return Expect{Kind: "num", Num: hi, Tol: 0}
		default:
			return Expect{Kind: "num", Num: hi - lo, Tol: 1e-9 * (math.Abs(hi) + math.Abs(lo))}
		}
	case "dc":
		seen := map[string]bool{}
		for _, v := range vals {
			seen[CanonText(v)] = true
		}
		if len(kinds) > 1 {
			return Expect{DontCare: true, Note: "mixed column"}
		}
		return Expect{Kind: "approxcount", Count: uint64(len(seen))}
	case "values":
		if len(kinds) > 1 {
			return Expect{DontCare: true, Note: "mixed column"}
		}
		seen := map[string]bool{}
		var out []string
		for _, v := range vals {
			t := CanonText(v)
			if !seen[t] {
				seen[t] = true
				out = append(out, t)
			}
		}
		sort.Strings(out)
		return Expect{Kind: "set", Strs: out}
	case "list":
		if len(kinds) > 1 {
			return Expect{DontCare: true, Note: "mixed column"}
		}
		if len(vals) > 100 {
			return Expect{DontCare: true, Note: "list limit"}
		}
		var out []string
		for _, v := range vals {
			out = append(out, CanonText(v))
		}
		sort.Strings(out)
		return Expect{Kind: "multiset", Strs: out}
	case "earliest", "latest":
		if len(vals) == 0 {
			return Expect{DontCare: true, Note: "no input"}
		}
		if len(kinds) > 1 {
			return Expect{DontCare: true, Note: "mixed column"}
		}
		best := tss[0]
		for _, t := range tss {
			if (m.Fn == "earliest" && t < best) || (m.Fn == "latest" && t > best) {
				best = t
			}
		}
		var allowed []string
		for i, t := range tss {
			if t == best {
				allowed = append(allowed, CanonText(vals[i]))
			}
		}
		ex := Expect{Kind: "oneof", Strs: allowed}
		if len(vals) != len(evs) || kinds[KBool] {
			// known finding: a missing value (or a boolean on the no-by path) is reported as 0
			ex.AltID = "C04-earliest-latest-null-bool"
		}
		return ex
	case "perc", "median":
		if len(vals) == 0 {
			return Expect{DontCare: true, Note: "no input"}
		}
		if !numericCol {
			return Expect{DontCare: true, Note: "column not purely numeric"}
		}
		nums := make([]float64, len(vals))
		for i, v := range vals {
			nums[i] = v.Num()
			if math.Abs(nums[i]) > 1e15 {
				return Expect{DontCare: true, Note: "extreme"}
			}
		}
		sort.Float64s(nums)
		p := float64(m.Perc)
		if m.Fn == "median" {
			p = 50
		}
		// rank position in [0, n-1]; any interpolation rule lands between the neighbouring order
		// statistics of ranks floor/ceil of p*(n-1)/100 and p*n/100: take the widest bracket.
		n := float64(len(nums))
		r1 := p / 100 * (n - 1)
		r2 := p/100*n - 1
		lo := int(math.Floor(math.Min(r1, r2)))
		hi := int(math.Ceil(math.Max(r1, r2+1)))
		if lo < 0 {
			lo = 0
		}
		if hi > len(nums)-1 {
			hi = len(nums) - 1
		}
		if lo > hi {
			lo = hi
		}
		span := nums[len(nums)-1] - nums[0]
		return Expect{Kind: "between", Lo: nums[lo] - 0.02*span - 1e-9, Hi: nums[hi] + 0.02*span + 1e-9}
	}
	return Expect{DontCare: true, Note: "unknown fn"}
}

// MeasureFieldInBy reports whether a measure aggregates a field that is also a by-column.
func (q *StatsQuery) MeasureFieldInBy() bool {
	for _, m := range q.Measures {
		for _, b := range q.By {
			if m.Field == b {
				return true
			}
		}
	}
	return false
}
