// Command overlay generates a `go build -overlay` description that instruments the CURRENT /repo
// working tree with crash points: verifcrash.Point("<func>:<n>") before every statement of the
// listed functions. Nothing in /repo is modified; the instrumented copies and the small verifcrash
// package live under the output directory.
package main

import (
	"bytes"
	"encoding/json"
	"flag"
	"fmt"
	"go/ast"
	"go/format"
	"go/parser"
	"go/token"
	"os"
	"path/filepath"
	"strconv"
	"strings"
)

type target struct {
	File  string   // relative to the repo root
	Funcs []string // function or method names; "*" = every function of the file
}

// pkgOf: the injected package each kind of instrumentation calls into.
var pkgOf = map[string]string{"overlay-crash": "verifcrash", "overlay-yield": "verifyield"}

var crashTargets = map[string][]target{
	// C11: yield points on both sides of the unrotated -> rotated hand-over (query listing, block and
	// column readers, rotation, segstore creation). Per-event hot paths are left out.
	"overlay-yield": {
		{"pkg/segment/query/segquery.go", []string{"getAllSegmentsInQuery", "getAllUnrotatedSegments", "getAllRotatedSegmentsInQuery", "GetSSRsFromQSR",
			"applyFilterOperatorUnrotatedRawSearchRequest", "applyFilterOperatorUnrotatedPQSRequest", "ApplySinglePQSRawSearch"}},
		{"pkg/segment/query/processor/searcher.go", []string{"getBlocks", "getQSRSToProcess", "initializeQSRs", "fetchRRCs", "readSortedRRCs",
			"addRRCsFromRawSearch", "addRRCsFromPQMR", "getPQMRsFromQSRs"}},
		{"pkg/segment/reader/segread/multicolreader.go", []string{"initNewMultiColumnReader", "InitSharedMultiColumnReaders"}},
		{"pkg/segment/reader/record/recordreader.go", []string{"readUserDefinedColForRRCs"}},
		{"pkg/segment/query/metadata/unrotatedmeta.go", []string{"CheckMicroIndicesForUnrotated", "createSearchRequestForUnrotated"}},
		{"pkg/segment/writer/segstore.go", []string{"checkAndRotateColFiles", "CleanupUnrotatedSegment", "AppendWipToSegfile", "resetSegStore"}},
		{"pkg/segment/writer/segwriter.go", []string{"createSegStore", "getOrCreateSegStore", "ForceRotateSegmentsForTest", "FlushWipBufferToFile"}},
		{"pkg/segment/writer/unrotatedquery.go", []string{"removeSegKeyFromUnrotatedInfo", "updateUnrotatedBlockInfo", "updateRecentlyRotatedSegmentFiles"}},
		{"pkg/segment/writer/segmetarw.go", []string{"addSegmeta"}},
	},
	// C07: log flush / rotate / metadata rewrite
	"overlay-crash": {
		{"pkg/segment/writer/segstore.go", []string{"AppendWipToSegfile", "resetWipBlock", "resetSegStore", "checkAndRotateColFiles",
			"CleanupUnrotatedSegment", "flushBloomIndex", "flushBlockSummary", "flushBlockRangeIndex", "writeWipTsRollups", "writeSingleRup",
			"FlushSegStats", "flushStarTree", "removePqmrFilesAndDirectory", "writeSortIndexes", "computeStarTree"}},
		{"pkg/segment/writer/segwriter.go", []string{"writeWip", "WriteRunningSegMeta", "createSegStore", "ForceRotateSegmentsForTest", "FlushWipBufferToFile"}},
		{"pkg/segment/writer/segmetarw.go", []string{"WriteSfm", "addSegmeta", "AddOrReplaceRotatedSegmeta", "BulkAddRotatedSegmetas", "removeSegmetas", "writeOverSegMeta"}},
		{"pkg/segment/writer/unrotatedquery.go", []string{"removeSegKeyFromUnrotatedInfo", "updateRecentlyRotatedSegmentFiles", "updateUnrotatedBlockInfo"}},
		{"pkg/segment/writer/suffix/suffix.go", []string{"*"}},
		{"pkg/utils/checksumfile.go", []string{"AppendChunk", "AppendPartialChunk", "Flush"}},
		{"pkg/segment/pqmr/pqmatchresults.go", []string{"FlushPqmr", "WriteTo", "WritePqmrToDisk"}},
		{"pkg/virtualtable/virtualtable.go", []string{"addVirtualTableHelper", "AddVirtualTable", "AddVirtualTableAndMapping"}},
	},
}

const crashPkgSrc = `// Package verifcrash is injected by the /verif overlay (it does not exist in the repository).
package verifcrash

import (
	"os"
	"strconv"
	"sync/atomic"
	"syscall"
)

var hits int64
var target int64
var names []string
var record int32

// named target: die at the occ-th hit of the point called tname (counted from ArmNamed). Counting per point
// name keeps the target stable when background goroutines pass other points in between.
var tname atomic.Value
var tocc, thits int64

func init() {
	if v, err := strconv.ParseInt(os.Getenv("VERIF_CRASH_AT"), 10, 64); err == nil {
		target = v
	}
}

// Point is a crash point: at the hit numbered target (1-based, counted from Arm) the process
// kills itself with SIGKILL: user-space buffers are lost, completed system calls persist.
func Point(name string) {
	n := atomic.AddInt64(&hits, 1)
	if atomic.LoadInt32(&record) == 1 {
		names = append(names, name)
	}
	if t := atomic.LoadInt64(&target); t > 0 && n == t {
		_ = syscall.Kill(os.Getpid(), syscall.SIGKILL)
		select {}
	}
	if tn, _ := tname.Load().(string); tn != "" && tn == name {
		if atomic.AddInt64(&thits, 1) == atomic.LoadInt64(&tocc) {
			_ = syscall.Kill(os.Getpid(), syscall.SIGKILL)
			select {}
		}
	}
}

// ArmNamed resets the counters and sets a named crash target: the occ-th hit of point name.
func ArmNamed(name string, occ int64) {
	atomic.StoreInt64(&hits, 0)
	atomic.StoreInt64(&target, 0)
	atomic.StoreInt64(&thits, 0)
	atomic.StoreInt64(&tocc, occ)
	tname.Store(name)
}

// WriteFile stands in for os.WriteFile inside instrumented functions: the same truncate-then-write, with a
// crash point between the truncating open and the write and one after the write (a process can die there).
func WriteFile(name string, data []byte, perm os.FileMode) error {
	f, err := os.OpenFile(name, os.O_WRONLY|os.O_CREATE|os.O_TRUNC, perm)
	if err != nil {
		return err
	}
	Point("os.WriteFile:truncated")
	_, err = f.Write(data)
	Point("os.WriteFile:written")
	if err1 := f.Close(); err1 != nil && err == nil {
		err = err1
	}
	return err
}

// Arm resets the hit counter and sets the crash target (0 = never crash).
func Arm(at int64) {
	tname.Store("")
	atomic.StoreInt64(&hits, 0)
	atomic.StoreInt64(&target, at)
}

// Count returns the hits since the last Arm.
func Count() int64 { return atomic.LoadInt64(&hits) }

// Record switches the recording of point names on or off (single-threaded histories only).
func Record(on bool) {
	if on {
		names = nil
		atomic.StoreInt32(&record, 1)
	} else {
		atomic.StoreInt32(&record, 0)
	}
}

// Names returns the recorded point names.
func Names() []string { return names }
`

const yieldPkgSrc = `// Package verifyield is injected by the /verif overlay (it does not exist in the repository).
package verifyield

import (
	"runtime"
	"sync/atomic"
	"time"
)

var permille, maxMicros int64
var seed, ctr uint64

// Arm switches the yield points on: at about permille/1000 of the hits the calling goroutine yields or
// sleeps for up to maxMicros microseconds (0 = off). The decisions are a function of seed and hit number.
func Arm(s uint64, p, m int64) {
	atomic.StoreUint64(&seed, s)
	atomic.StoreUint64(&ctr, 0)
	atomic.StoreInt64(&maxMicros, m)
	atomic.StoreInt64(&permille, p)
}

func mix(x uint64) uint64 {
	x += 0x9E3779B97F4A7C15
	x = (x ^ (x >> 30)) * 0xBF58476D1CE4E5B9
	x = (x ^ (x >> 27)) * 0x94D049BB133111EB
	return x ^ (x >> 31)
}

// Point is a yield point.
func Point(name string) {
	p := atomic.LoadInt64(&permille)
	if p <= 0 {
		return
	}
	n := atomic.AddUint64(&ctr, 1)
	h := mix(atomic.LoadUint64(&seed) ^ mix(n))
	if int64(h%1000) >= p {
		return
	}
	m := atomic.LoadInt64(&maxMicros)
	if m <= 0 {
		runtime.Gosched()
		return
	}
	d := int64((h >> 12) % uint64(m+1))
	if d < 20 {
		runtime.Gosched()
		return
	}
	time.Sleep(time.Duration(d) * time.Microsecond)
}
`

func main() {
	repo := flag.String("repo", "/repo", "repository root")
	out := flag.String("out", "", "output directory")
	kind := flag.String("kind", "overlay-crash", "instrumentation kind")
	flag.Parse()
	if *out == "" {
		fmt.Fprintln(os.Stderr, "-out required")
		os.Exit(2)
	}
	targets, ok := crashTargets[*kind]
	if !ok {
		fmt.Fprintf(os.Stderr, "unknown kind %q\n", *kind)
		os.Exit(2)
	}
	_ = os.RemoveAll(*out)
	if err := os.MkdirAll(*out, 0o755); err != nil {
		fatal(err)
	}
	replace := map[string]string{}
	// the injected package
	pointPkg = pkgOf[*kind]
	pkgSrc := crashPkgSrc
	if pointPkg == "verifyield" {
		pkgSrc = yieldPkgSrc
	}
	crashFile := filepath.Join(*out, pointPkg+".go")
	if err := os.WriteFile(crashFile, []byte(pkgSrc), 0o644); err != nil {
		fatal(err)
	}
	replace[filepath.Join(*repo, "pkg/"+pointPkg+"/"+pointPkg+".go")] = crashFile
	total := 0
	for i, tg := range targets {
		src := filepath.Join(*repo, tg.File)
		dst := filepath.Join(*out, fmt.Sprintf("f%d_%s", i, filepath.Base(tg.File)))
		n, missing, err := instrument(src, dst, tg.Funcs)
		if err != nil {
			fatal(fmt.Errorf("%s: %v", tg.File, err))
		}
		if len(missing) > 0 {
			fmt.Fprintf(os.Stderr, "overlay: %s: functions not found (renamed?): %v\n", tg.File, missing)
		}
		total += n
		replace[src] = dst
	}
	b, _ := json.MarshalIndent(map[string]interface{}{"Replace": replace}, "", " ")
	if err := os.WriteFile(filepath.Join(*out, "overlay.json"), b, 0o644); err != nil {
		fatal(err)
	}
	fmt.Printf("overlay: %d %s points in %d files\n", total, pointPkg, len(targets))
}

// pointPkg is the package the inserted calls go to (set from the kind).
var pointPkg = "verifcrash"

func fatal(err error) {
	fmt.Fprintln(os.Stderr, "overlay:", err)
	os.Exit(1)
}

func instrument(src, dst string, funcs []string) (int, []string, error) {
	fset := token.NewFileSet()
	f, err := parser.ParseFile(fset, src, nil, parser.ParseComments)
	if err != nil {
		return 0, nil, err
	}
	want := map[string]bool{}
	all := false
	for _, fn := range funcs {
		if fn == "*" {
			all = true
		}
		want[fn] = true
	}
	found := map[string]bool{}
	count := 0
	rewrote := false
	for _, d := range f.Decls {
		fd, ok := d.(*ast.FuncDecl)
		if !ok || fd.Body == nil {
			continue
		}
		if !all && !want[fd.Name.Name] {
			continue
		}
		found[fd.Name.Name] = true
		n := 0
		instrumentBlock(fd.Body, fd.Name.Name, &n)
		count += n
		if pointPkg == "verifcrash" {
			// a whole-file rewrite is not atomic: model the window between truncation and write
			ast.Inspect(fd.Body, func(nd ast.Node) bool {
				if ce, ok := nd.(*ast.CallExpr); ok {
					if se, ok := ce.Fun.(*ast.SelectorExpr); ok && se.Sel.Name == "WriteFile" {
						if id, ok := se.X.(*ast.Ident); ok && id.Name == "os" {
							id.Name = pointPkg
							rewrote = true
						}
					}
				}
				return true
			})
		}
	}
	var missing []string
	for fn := range want {
		if fn != "*" && !found[fn] {
			missing = append(missing, fn)
		}
	}
	if count > 0 {
		addImport(f, "github.com/siglens/siglens/pkg/"+pointPkg)
	}
	if rewrote {
		// keep the os import used even if the rewritten call was its only use
		for _, im := range f.Imports {
			if strings.Trim(im.Path.Value, `"`) == "os" && im.Name == nil {
				f.Decls = append(f.Decls, &ast.GenDecl{Tok: token.VAR, Specs: []ast.Spec{&ast.ValueSpec{
					Names: []*ast.Ident{ast.NewIdent("_")}, Values: []ast.Expr{&ast.SelectorExpr{X: ast.NewIdent("os"), Sel: ast.NewIdent("Getpid")}}}}})
			}
		}
	}
	var buf bytes.Buffer
	// comments are dropped on purpose: positions of inserted nodes would confuse the printer
	f.Comments = nil
	if err := format.Node(&buf, fset, f); err != nil {
		return 0, nil, err
	}
	return count, missing, os.WriteFile(dst, buf.Bytes(), 0o644)
}

func pointCall(name string, n int) ast.Stmt {
	return &ast.ExprStmt{X: &ast.CallExpr{
		Fun:  &ast.SelectorExpr{X: ast.NewIdent(pointPkg), Sel: ast.NewIdent("Point")},
		Args: []ast.Expr{&ast.BasicLit{Kind: token.STRING, Value: strconv.Quote(name + ":" + strconv.Itoa(n))}},
	}}
}

func instrumentBlock(b *ast.BlockStmt, fn string, n *int) {
	if b == nil {
		return
	}
	var out []ast.Stmt
	for _, s := range b.List {
		*n++
		out = append(out, pointCall(fn, *n))
		instrumentStmt(s, fn, n)
		out = append(out, s)
	}
	b.List = out
}

func instrumentStmt(s ast.Stmt, fn string, n *int) {
	switch x := s.(type) {
	case *ast.BlockStmt:
		instrumentBlock(x, fn, n)
	case *ast.IfStmt:
		instrumentBlock(x.Body, fn, n)
		if x.Else != nil {
			instrumentStmt(x.Else, fn, n)
		}
	case *ast.ForStmt:
		instrumentBlock(x.Body, fn, n)
	case *ast.RangeStmt:
		instrumentBlock(x.Body, fn, n)
	case *ast.SwitchStmt:
		instrumentCases(x.Body, fn, n)
	case *ast.TypeSwitchStmt:
		instrumentCases(x.Body, fn, n)
	case *ast.SelectStmt:
		for _, c := range x.Body.List {
			if cc, ok := c.(*ast.CommClause); ok {
				cc.Body = instrumentList(cc.Body, fn, n)
			}
		}
	case *ast.LabeledStmt:
		instrumentStmt(x.Stmt, fn, n)
	}
}

func instrumentCases(b *ast.BlockStmt, fn string, n *int) {
	for _, c := range b.List {
		if cc, ok := c.(*ast.CaseClause); ok {
			cc.Body = instrumentList(cc.Body, fn, n)
		}
	}
}

func instrumentList(list []ast.Stmt, fn string, n *int) []ast.Stmt {
	var out []ast.Stmt
	for _, s := range list {
		*n++
		out = append(out, pointCall(fn, *n))
		instrumentStmt(s, fn, n)
		out = append(out, s)
	}
	return out
}

func addImport(f *ast.File, path string) {
	for _, im := range f.Imports {
		if strings.Trim(im.Path.Value, `"`) == path {
			return
		}
	}
	spec := &ast.ImportSpec{Path: &ast.BasicLit{Kind: token.STRING, Value: strconv.Quote(path)}}
	for _, d := range f.Decls {
		if gd, ok := d.(*ast.GenDecl); ok && gd.Tok == token.IMPORT {
			gd.Specs = append(gd.Specs, spec)
			if !gd.Lparen.IsValid() {
				gd.Lparen = gd.Pos()
				gd.Rparen = gd.End()
			}
			f.Imports = append(f.Imports, spec)
			return
		}
	}
	gd := &ast.GenDecl{Tok: token.IMPORT, Specs: []ast.Spec{spec}}
	f.Decls = append([]ast.Decl{gd}, f.Decls...)
	f.Imports = append(f.Imports, spec)
}
