package c03

import (
	"strconv"
	"testing"

	"verifharness/model"
	"verifharness/sut"
)

// Unit tests of the comparison helpers (no server involved): they pin the exact classes in which the
// differential oracle is silent.

func ev(vid int64, ts uint64, fields ...interface{}) *model.Event {
	var obj []model.Field
	for i := 0; i+1 < len(fields); i += 2 {
		var v model.Val
		switch x := fields[i+1].(type) {
		case int:
			v = model.Int(int64(x))
		case float64:
			v = model.Float(x)
		case string:
			v = model.Str(x)
		case bool:
			v = model.Bool(x)
		default:
			v = model.Null()
		}
		obj = append(obj, model.Field{Name: fields[i].(string), Node: model.LeafNode(v)})
	}
	return &model.Event{Vid: vid, Ts: ts, Doc: model.Node{Obj: obj, IsObj: true}}
}

func TestCanonNumExactValue(t *testing.T) {
	same := [][2]sut.TV{
		{"i:-9223372036854775808", "s:-9223372036854775808"},
		{"i:-9223372036854775808", "f:-9.223372036854775808e+18"},
		{"u:9223372036854775808", "f:9.223372036854775808e+18"},
		{"i:7", "s:007"},
		{"f:1e+300", sut.TV("s:1" + zeros(300))},
		{"f:0.5", "s:0.50"},
		{"i:1000", "s:1e3"},
	}
	for _, p := range same {
		if a, b := canonVal(p[0], true), canonVal(p[1], true); a != b {
			t.Errorf("%q vs %q: %q != %q", p[0], p[1], a, b)
		}
	}
	differ := [][2]sut.TV{
		{"i:9223372036854775807", "f:9.223372036854775807e+18"}, // int64 max is not 2^63
		{"i:9007199254740993", "f:9.007199254740992e+15"},
		{"i:1", "s:one"},
		{"s:true", "s:1"},
	}
	for _, p := range differ {
		if a, b := canonVal(p[0], true), canonVal(p[1], true); a == b {
			t.Errorf("%q vs %q: both %q", p[0], p[1], a)
		}
	}
	// outside mixed columns the text of a string is never read as a number
	if canonVal("s:7", false) == canonVal("i:7", false) {
		t.Errorf("string 7 equals integer 7 in a pure column")
	}
}

func zeros(n int) string {
	b := make([]byte, n)
	for i := range b {
		b[i] = '0'
	}
	return string(b)
}

func TestGroupEventsKeys(t *testing.T) {
	evs := []*model.Event{
		ev(1, 1700000000000, "g", "a", "h", 1, "x", 5),
		ev(2, 1700000000500, "g", "a", "h", 2),
		ev(3, 1700000002000, "g", "b", "h", 1, "x", 7),
		ev(4, 1700000002001, "h", 1, "x", 9),
	}
	ctx := model.NewCtx(evs)
	by1 := groupEvents(evs, &model.StatsQuery{By: []string{"g"}}, ctx)
	if len(by1["$a"]) != 2 || len(by1["$b"]) != 1 || len(by1) != 2 {
		t.Errorf("by g: %v", by1)
	}
	by2 := groupEvents(evs, &model.StatsQuery{By: []string{"h", "g"}}, ctx)
	if len(by2["g=$a\x1fh=#1"]) != 1 || len(by2["g=$b\x1fh=#1"]) != 1 || len(by2) != 3 {
		t.Errorf("by h, g: %v", by2)
	}
	tc := groupEvents(evs, &model.StatsQuery{Timechart: true, SpanMs: 1000}, ctx)
	if len(tc["#1699999999999"]) != 2 || len(tc["#1700000001999"]) != 2 {
		t.Errorf("timechart: %v", tc)
	}
	all := groupEvents(evs, &model.StatsQuery{}, ctx)
	if len(all["*"]) != 4 {
		t.Errorf("no by: %v", all)
	}
	if !lacksField(by1["$a"], "x") || lacksField(by1["$b"], "x") {
		t.Errorf("lacksField wrong")
	}
}

func TestListSameTruncated(t *testing.T) {
	var grp []*model.Event
	var first, last, all []string
	for i := 0; i < 150; i++ {
		grp = append(grp, ev(int64(i+1), 1700000000000+uint64(i), "a", i%120))
		s := strconv.Itoa(i % 120)
		all = append(all, s)
		if i < 100 {
			first = append(first, s)
		}
		if i >= 50 {
			last = append(last, s)
		}
	}
	if !listSameTruncated(sut.EncodeTV(first), sut.EncodeTV(last), grp, "a") {
		t.Errorf("two different 100-element selections of a 150-value group must be accepted")
	}
	bad := append([]string{}, last...)
	bad[0] = "777" // not a value of the group
	if listSameTruncated(sut.EncodeTV(first), sut.EncodeTV(bad), grp, "a") {
		t.Errorf("a foreign value was accepted")
	}
	dup := append([]string{}, last...)
	dup[0], dup[1], dup[2] = "31", "31", "31" // 31 occurs once in the group
	if listSameTruncated(sut.EncodeTV(first), sut.EncodeTV(dup), grp, "a") {
		t.Errorf("a value was accepted more often than it occurs in the group")
	}
	if listSameTruncated(sut.EncodeTV(first), sut.EncodeTV(last[:99]), grp, "a") {
		t.Errorf("different lengths were accepted")
	}
	// a group of at most 100 values is never relaxed
	if listSameTruncated(sut.EncodeTV(first), sut.EncodeTV(first), grp[:100], "a") {
		t.Errorf("relaxed although the group is not truncated")
	}
	// floats are compared after rounding to six decimals (rendering of list elements)
	var fg []*model.Event
	var fa, fb []string
	for i := 0; i < 130; i++ {
		f := float64(i) + 0.30000000000000004
		fg = append(fg, ev(int64(i+1), 1700000000000+uint64(i), "c", f))
		if i < 100 {
			fa = append(fa, strconv.FormatFloat(f, 'f', 6, 64))
		}
		if i >= 30 {
			fb = append(fb, strconv.FormatFloat(f, 'g', -1, 64))
		}
	}
	if !listSameTruncated(sut.EncodeTV(fa), sut.EncodeTV(fb), fg, "c") {
		t.Errorf("float lists: six-decimal and exact renderings of group values must both be accepted")
	}
}

func TestRecordsSameByValue(t *testing.T) {
	// column m holds a float in this event and a string elsewhere: mixed
	e := ev(1, 1700000000000, "m", 1.2345678901234567e19, "n", 9223372036854775807)
	other := ev(2, 1700000000001, "m", "abc", "n", "abc")
	kinds := model.ColKinds([]*model.Event{e, other})
	ra := sut.Record{"_vid": "i:1", "m": "s:12345678901234567000", "n": "i:9223372036854775807"}
	rb := sut.Record{"_vid": "i:1", "m": "f:1.2345678901234567e+19", "n": "s:9223372036854775807"}
	if !recordsSameByValue(ra, rb, kinds, e) {
		t.Errorf("a float and its shortest decimal text must be the same value; an integer and its text too")
	}
	// an integer of the dataset must keep its exact value: 2^63-1 is not 2^63
	rc := sut.Record{"_vid": "i:1", "m": "s:12345678901234567000", "n": "f:9.223372036854775807e+18"}
	if recordsSameByValue(ra, rc, kinds, e) {
		t.Errorf("int64 max was accepted as the float 2^63")
	}
	// a pure column gets no relaxation
	p := ev(3, 1700000000002, "q", 1.5)
	kp := model.ColKinds([]*model.Event{p})
	if recordsSameByValue(sut.Record{"q": "f:1.5"}, sut.Record{"q": "s:1.5"}, kp, p) {
		t.Errorf("number and text were equated in a pure column")
	}
	// a field shown under one layout only
	if recordsSameByValue(sut.Record{"q": "f:1.5"}, sut.Record{}, kp, p) {
		t.Errorf("missing field accepted")
	}
}

func TestSumSameByMagnitude(t *testing.T) {
	grp := []*model.Event{
		ev(1, 1, "c", 1.7976931348623157e+308), ev(2, 2, "c", -5.5e99), ev(3, 3, "c", -1.7976931348623157e+308), ev(4, 4, "c", 2.5),
	}
	if !sumSameByMagnitude("sum", "f:-5.5e+99", "f:2.5", grp, "c") {
		t.Errorf("cancellation of huge terms: both association orders must be accepted")
	}
	small := []*model.Event{ev(1, 1, "c", 1.5), ev(2, 2, "c", 2.25), ev(3, 3, "c", -0.75)}
	if sumSameByMagnitude("sum", "f:3", "f:3.001", small, "c") {
		t.Errorf("a real difference was accepted")
	}
	if !sumSameByMagnitude("sum", "f:3", "f:3.0000000000000004", small, "c") {
		t.Errorf("a one-ulp difference was refused")
	}
	ints := []*model.Event{ev(1, 1, "c", 1), ev(2, 2, "c", 2)}
	if sumSameByMagnitude("sum", "i:3", "i:4", ints, "c") {
		t.Errorf("integer sums are exact")
	}
}
