package c03

import (
	"encoding/json"
	"errors"
	"fmt"
	"os"
	"strconv"
	"strings"
	"testing"
	"verifharness/pt"
	"verifharness/sut"
)

func TestZDbgTexts(t *testing.T) {
	f := os.Getenv("DBG_REPLAY")
	if f == "" {
		t.Skip()
	}
	b, _ := os.ReadFile(f)
	var env struct {
		Case c03Case `json:"case"`
	}
	if err := json.Unmarshal(b, &env); err != nil {
		t.Fatal(err)
	}
	for i, q := range env.Case.Queries {
		fmt.Printf("Q%d: %s\n", i, q.text())
	}
}

func TestZProbe(t *testing.T) {
	body := os.Getenv("PROBE_BODY")
	if body == "" {
		t.Skip()
	}
	queries := strings.Split(os.Getenv("PROBE_Q"), ";;")
	dir := fmt.Sprintf("/tmp/agent-C03/d-%d", os.Getpid())
	os.RemoveAll(dir)
	os.RemoveAll(dir + "-aux")
	os.MkdirAll(dir, 0o755)
	defer func() {
		b, _ := os.ReadFile(dir + "-aux/worker.log")
		for _, l := range strings.Split(string(b), "\n") {
			if strings.Contains(l, "level=error") || strings.Contains(l, "level=warn") || (os.Getenv("PROBE_LOGGREP") != "" && strings.Contains(l, os.Getenv("PROBE_LOGGREP"))) {
				fmt.Println("LOG:", l)
			}
		}
		os.RemoveAll(dir)
		os.RemoveAll(dir + "-aux")
	}()
	err := pt.WithWorker(sut.Options{DataDir: dir}, func(c *sut.Client) error {
		var sb strings.Builder
		send := func() {
			if sb.Len() == 0 {
				return
			}
			_, err := c.Bulk(0, []byte(sb.String()))
			if err != nil {
				fmt.Println("bulk:", err)
			}
			sb.Reset()
		}
		show := func(q string) {
			sr, err := c.Search(sut.Query{Index: "p", Text: q, Start: 1, End: 1800000000000, Size: 1000})
			fmt.Printf("Q: %s\n   err=%v", q, err)
			if err != nil {
				if errors.Is(err, sut.ErrWorkerDied) {
					fmt.Println(c.Stderr())
				}
				fmt.Println()
				return
			}
			fmt.Printf(" %s\n", sr)
			for _, r := range sr.Records {
				fmt.Println("   ", r)
			}
			for _, m := range sr.Measure {
				fmt.Println("   M", m.GroupBy, m.Vals)
			}
		}
		for _, l := range strings.Split(strings.TrimSpace(body), "\n") {
			l = strings.TrimSpace(l)
			if strings.HasPrefix(l, "QUERY ") {
				send()
				show(strings.TrimPrefix(l, "QUERY "))
				continue
			}
			if strings.HasPrefix(l, "SET ") {
				send()
				f := strings.Fields(l)
				n, _ := strconv.Atoi(f[2])
				fmt.Println("set", f[1], n, c.Set(f[1], int64(n)))
				continue
			}
			switch l {
			case "FLUSH":
				send()
				c.Flush()
			case "ROTATE":
				send()
				c.Flush()
				c.Rotate()
			default:
				sb.WriteString("{\"index\":{\"_index\":\"p\"}}\n" + l + "\n")
			}
		}
		send()
		c.Flush()
		for _, q := range queries {
			if q != "" {
				show(q)
			}
		}
		return nil
	})
	if err != nil {
		fmt.Println("ERR", err)
	}
}
