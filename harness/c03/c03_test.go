package c03

import (
	"fmt"
	"math"
	"sort"
	"strconv"
	"strings"
	"testing"

	"pgregory.net/rapid"

	"verifharness/gen"
	"verifharness/lq"
	"verifharness/model"
	"verifharness/pt"
	"verifharness/sut"
)

// C03 — query answers do not depend on physical layout or acceleration path (differential).

type knobs struct {
	Layout   gen.Layout `json:"layout"`
	PreQuery bool       `json:"preQuery"` // run every query once before ingesting (registers persistent queries / aggregations)
	PreHalf  bool       `json:"preHalf"`  // ... or after the first half of the batches
	PQSOff   bool       `json:"pqsOff"`
	AggsOff  bool       `json:"aggsOff"`
	Repeat   bool       `json:"repeat"` // run each query twice and use the second answer (cached/persistent path)
}

type c03Query struct {
	Kind   string            `json:"kind"` // filter | stats | sort
	Filter *model.Filter     `json:"filter,omitempty"`
	Stats  *model.StatsQuery `json:"stats,omitempty"`
	Sort   string            `json:"sort,omitempty"` // SPL text of a total-order sort
}

type c03Case struct {
	DS      *gen.Dataset `json:"ds"`
	Layouts []knobs      `json:"layouts"` // [0] is the reference layout
	Queries []c03Query   `json:"queries"`
}

var c03Profiles = []gen.Profile{gen.PInt, gen.PInt, gen.PFloat, gen.PBool, gen.PLowStr, gen.PLowStr, gen.PHighStr, gen.PNumText,
	gen.PMixNumStr, gen.PMixIntFloat, gen.PWidth6Str, gen.PIntBig, gen.PNullOnly, gen.PMixNumNumText, gen.PMixNumNumText, gen.PIntThenFloat, gen.PFloatThenInt, gen.PUInt, gen.PUInt}

func genC03(t *rapid.T) *c03Case {
	ds := gen.GenDataset(t, gen.DatasetOpts{MinEvents: 2, MaxEvents: pt.Scale(50, 300), MaxCols: 5, Profiles: c03Profiles, NullPct: 3})
	n := len(ds.Events)
	cs := &c03Case{DS: ds}
	cs.Layouts = append(cs.Layouts, knobs{Layout: gen.ReferenceLayout(n)})
	nl := rapid.IntRange(1, pt.Scale(2, 4)).Draw(t, "nLayouts")
	for i := 0; i < nl; i++ {
		k := knobs{Layout: gen.GenLayout(t, n)}
		switch rapid.IntRange(0, 3).Draw(t, "pre") {
		case 0:
			k.PreQuery = true
		case 1:
			k.PreHalf = true
		}
		k.PQSOff = rapid.IntRange(0, 4).Draw(t, "pqsOff") == 0
		k.AggsOff = rapid.IntRange(0, 4).Draw(t, "aggsOff") == 0
		k.Repeat = rapid.Bool().Draw(t, "repeat")
		cs.Layouts = append(cs.Layouts, k)
	}
	names, vals := gen.FilterColumns(ds)
	nq := rapid.IntRange(1, pt.Scale(5, 10)).Draw(t, "nQueries")
	for i := 0; i < nq; i++ {
		switch rapid.IntRange(0, 5).Draw(t, "qKind") {
		case 0, 1, 2:
			cs.Queries = append(cs.Queries, c03Query{Kind: "filter", Filter: gen.GenFilter(t, names, vals, 2)})
		case 3, 4:
			cs.Queries = append(cs.Queries, c03Query{Kind: "stats", Stats: gen.GenStatsQuery(t, ds, names, vals)})
		default:
			// total order: sort by _vid (unique) after an optional first key
			s := "* | sort "
			if len(names) > 0 && rapid.Bool().Draw(t, "sortKey") {
				s += names[rapid.IntRange(0, len(names)-1).Draw(t, "sortField")] + ", "
			}
			if rapid.Bool().Draw(t, "sortDesc") {
				s += "-"
			}
			s += "_vid"
			cs.Queries = append(cs.Queries, c03Query{Kind: "sort", Sort: s})
		}
	}
	return cs
}

func (q c03Query) text() string {
	switch q.Kind {
	case "filter":
		return q.Filter.SPL()
	case "stats":
		return q.Stats.SPL()
	}
	return q.Sort
}

// answer is the canonical form of one query result under one layout.
type answer struct {
	vids   []int64          // filter: sorted; sort: in returned order
	recs   map[int64]string // canonical record text by _vid
	raw    map[int64]sut.Record
	groups map[string]map[string]sut.TV
	rej    string
}

// canonNum is the canonical text of a number by its exact numeric value, whatever the tag it came back
// with: an integer that int64/uint64 can hold is written as that integer, everything else as the shortest
// text of the float64. Used for columns that hold several kinds in the dataset, where per-block
// consolidation decides whether a value is stored as integer, float or decimal text.
func canonNum(v sut.TV) (string, bool) {
	raw := strings.TrimSpace(v.Raw())
	switch v.Kind() {
	case 'i', 'u', 's':
		if i, err := strconv.ParseInt(raw, 10, 64); err == nil {
			return "#" + strconv.FormatInt(i, 10), true
		}
		if u, err := strconv.ParseUint(raw, 10, 64); err == nil {
			return "#" + strconv.FormatUint(u, 10), true
		}
		if v.Kind() != 's' {
			return "#" + raw, true
		}
	}
	var f float64
	switch v.Kind() {
	case 'f':
		f, _ = v.Float()
	case 's':
		pf, err := strconv.ParseFloat(raw, 64)
		if err != nil {
			return "", false
		}
		f = pf
	default:
		return "", false
	}
	if math.IsNaN(f) || math.IsInf(f, 0) {
		return "", false
	}
	if f == math.Trunc(f) {
		if f >= -9223372036854775808.0 && f < 9223372036854775808.0 {
			return "#" + strconv.FormatInt(int64(f), 10), true
		}
		if f >= 0 && f < 18446744073709551616.0 {
			return "#" + strconv.FormatUint(uint64(f), 10), true
		}
	}
	return "#" + strconv.FormatFloat(f, 'g', -1, 64), true
}

func canonVal(v sut.TV, mixedCol bool) string {
	if mixedCol {
		// a number of a mixed column may be stored as integer, float or as its decimal text depending on
		// which values share its block (documented consolidation; C01 grants it) — and the open finding
		// C01-numtext-to-number turns numeric text into numbers the same way: compare by numeric value
		switch v.Kind() {
		case 'i', 'u', 'f', 's':
			if c, ok := canonNum(v); ok {
				return c
			}
		}
		if v.Kind() == 's' && (v.Raw() == "true" || v.Raw() == "false") {
			return "b" + v.Raw()
		}
	}
	switch v.Kind() {
	case 'i', 'u':
		return "#" + v.Raw()
	case 'f':
		f, _ := v.Float()
		if f == math.Trunc(f) && math.Abs(f) < 1e15 {
			return "#" + strconv.FormatFloat(f, 'f', -1, 64)
		}
		return "#" + strconv.FormatFloat(f, 'g', -1, 64)
	case 's':
		return "$" + v.Raw()
	case 'b':
		return "b" + v.Raw()
	}
	return string(v)
}

func canonRecord(r sut.Record, mixed map[string]bool) string {
	keys := make([]string, 0, len(r))
	for k, v := range r {
		if v.IsNil() || k == "_index" {
			continue
		}
		if s, ok := v.Str(); ok && s == "" {
			continue
		}
		keys = append(keys, k)
	}
	sort.Strings(keys)
	var sb strings.Builder
	for _, k := range keys {
		sb.WriteString(k)
		sb.WriteByte('=')
		sb.WriteString(canonVal(r[k], mixed[k]))
		sb.WriteByte(';')
	}
	return sb.String()
}

// recordsSameByValue decides two renderings of one event whose canonical texts differ. In a column that
// holds several kinds in the dataset a float (or a numeric text) may come back as a float under one layout
// and as its decimal text under another; the text of a float is its shortest round-trip form, not its exact
// expansion ("12345678901234567000" for 1.2345678901234567e19), so such a pair is compared as float64.
// An integer of the dataset never takes this route: it must come back with its exact value (canonNum).
func recordsSameByValue(ra, rb sut.Record, kinds map[string]map[model.Kind]bool, e *model.Event) bool {
	if ra == nil || rb == nil {
		return false
	}
	flat, _ := e.Flat()
	shown := func(v sut.TV, ok bool) bool {
		if !ok || v.IsNil() {
			return false
		}
		if s, isStr := v.Str(); isStr && s == "" {
			return false
		}
		return true
	}
	names := map[string]bool{}
	for k := range ra {
		names[k] = true
	}
	for k := range rb {
		names[k] = true
	}
	for k := range names {
		if k == "_index" {
			continue
		}
		va, oka := ra[k]
		vb, okb := rb[k]
		sa, sb := shown(va, oka), shown(vb, okb)
		if !sa && !sb {
			continue
		}
		if sa != sb {
			return false
		}
		mixedCol := len(kinds[k]) > 1
		if canonVal(va, mixedCol) == canonVal(vb, mixedCol) {
			continue
		}
		want, has := flat[k]
		if !mixedCol || !has || want.K == model.KInt {
			return false
		}
		fa, okfa := looseFloat(va)
		fb, okfb := looseFloat(vb)
		if !okfa || !okfb || fa != fb {
			return false
		}
	}
	return true
}

func looseFloat(v sut.TV) (float64, bool) {
	switch v.Kind() {
	case 'i', 'u', 'f':
		return v.Float()
	case 's':
		f, err := strconv.ParseFloat(strings.TrimSpace(v.Raw()), 64)
		return f, err == nil && !math.IsNaN(f)
	}
	return 0, false
}

func runLayout(cs *c03Case, k knobs, o *pt.Obs) ([]*answer, error) {
	evs := cs.DS.Events
	lo, hi := lq.TsBounds(evs)
	mixed := map[string]bool{}
	for name, kinds := range model.ColKinds(evs) {
		if len(kinds) > 1 {
			mixed[name] = true
		}
		if kinds[model.KStr] && !mixed[name] {
			// pure string column holding numeric text next to... nothing numeric: raw compare
			_ = name
		}
	}
	var out []*answer
	err := pt.WithWorker(sut.Options{}, func(c *sut.Client) error {
		if k.PQSOff {
			if err := c.Set("pqs", 0); err != nil {
				return err
			}
		}
		if k.AggsOff {
			if err := c.Set("aggs", 0); err != nil {
				return err
			}
		}
		runAll := func(record bool) error {
			for qi, q := range cs.Queries {
				text := q.text()
				if q.Kind == "stats" && q.Stats.MeasureFieldInBy() && pt.KnownFindingOpen("C04-measure-field-in-by") {
					if record {
						o.Known("C04-measure-field-in-by")
						out = append(out, &answer{rej: "excluded"})
					}
					continue
				}
				sr, err := lq.Search(c, sut.Query{Index: "c03idx", Text: text, Start: lo - 1, End: hi + 1, Size: len(evs) + 10})
				a := &answer{}
				if err != nil {
					if rej, ok := err.(*lq.Rejected); ok {
						a.rej = rej.Msg
					} else {
						return fmt.Errorf("query %d: %v", qi, err)
					}
				} else {
					_, order, verr := lq.Vids(text, sr.Records)
					if verr != nil && q.Kind != "stats" {
						return fmt.Errorf("query %d: %v", qi, verr)
					}
					a.vids = order
					a.recs = map[int64]string{}
					a.raw = map[int64]sut.Record{}
					for i, r := range sr.Records {
						if i < len(order) {
							a.recs[order[i]] = canonRecord(r, mixed)
							a.raw[order[i]] = r
						}
					}
					if q.Kind == "filter" {
						sort.Slice(a.vids, func(i, j int) bool { return a.vids[i] < a.vids[j] })
					}
					if q.Kind == "stats" {
						a.groups = map[string]map[string]sut.TV{}
						for _, b := range sr.Measure {
							// exact typed by-values when the engine provides them (the string form is %f-rounded)
							gb := make([]string, len(b.GroupBy))
							copy(gb, b.GroupBy)
							if len(b.IGroupBy) == len(b.GroupBy) {
								for i, v := range b.IGroupBy {
									if v.IsNil() {
										gb[i] = ""
									} else {
										gb[i] = canonVal(v, false)
									}
								}
							}
							key := strings.Join(gb, "\x1f")
							// by-columns are reported in the engine's own order: key by sorted (col=value)
							if len(sr.GroupByCols) == len(gb) && len(gb) > 1 {
								parts := make([]string, len(gb))
								for i := range gb {
									parts[i] = sr.GroupByCols[i] + "=" + gb[i]
								}
								sort.Strings(parts)
								key = strings.Join(parts, "\x1f")
							}
							a.groups[key] = b.Vals
						}
					}
				}
				if record {
					out = append(out, a)
				}
			}
			return nil
		}
		if k.PreQuery {
			o.Class("prequery")
			if err := runAll(false); err != nil {
				return fmt.Errorf("(queries before ingest) %v", err)
			}
		}
		if k.PreHalf && len(k.Layout.Batches) >= 2 {
			o.Class("prequery_half")
			// ingest the first half, query, ingest the rest
			half := len(k.Layout.Batches) / 2
			first := gen.Layout{Batches: k.Layout.Batches[:half], Flush: k.Layout.Flush[:half], Rotate: k.Layout.Rotate[:half], CardLimit: k.Layout.CardLimit, GoMaxProcs: k.Layout.GoMaxProcs}
			nFirst := 0
			for _, b := range first.Batches {
				nFirst += b
			}
			if err := lq.Ingest(c, "c03idx", 0, evs[:nFirst], first); err != nil {
				return err
			}
			if err := runAll(false); err != nil {
				return fmt.Errorf("(queries after first half) %v", err)
			}
			rest := gen.Layout{Batches: k.Layout.Batches[half:], Flush: k.Layout.Flush[half:], Rotate: k.Layout.Rotate[half:], FinalRot: k.Layout.FinalRot}
			if err := lq.Ingest(c, "c03idx", 0, evs[nFirst:], rest); err != nil {
				return err
			}
		} else {
			if err := lq.Ingest(c, "c03idx", 0, evs, k.Layout); err != nil {
				return err
			}
		}
		if k.Repeat {
			o.Class("repeat")
			if err := runAll(false); err != nil {
				return err
			}
		}
		return runAll(true)
	})
	return out, err
}

func measureSame(fn string, a, b sut.TV) bool {
	if a == b {
		return true
	}
	fa, oka := numOf(a)
	fb, okb := numOf(b)
	if oka && okb {
		if fa == fb {
			return true
		}
		tol := 1e-9 * (math.Abs(fa) + math.Abs(fb))
		if strings.HasPrefix(fn, "cardinality(") {
			tol = 0.02*math.Max(fa, fb) + 1
		}
		if strings.HasPrefix(fn, "perc") || strings.HasPrefix(fn, "median(") {
			tol = 0.05*(math.Abs(fa)+math.Abs(fb)) + 1e-9 // sketches built from different partitions
		}
		return math.Abs(fa-fb) <= tol
	}
	la, okla := a.List()
	lb, oklb := b.List()
	if okla && oklb {
		sort.Strings(la)
		sort.Strings(lb)
		return strings.Join(la, "\x1f") == strings.Join(lb, "\x1f")
	}
	return false
}

func numOf(v sut.TV) (float64, bool) {
	switch v.Kind() {
	case 'i', 'u', 'f':
		return v.Float()
	}
	return 0, false
}

func checkC03(cs *c03Case, o *pt.Obs) error {
	evs := cs.DS.Events
	ctx := model.NewCtx(evs)
	kinds := model.ColKinds(evs)
	tsTies := false
	seenTs := map[uint64]bool{}
	for _, e := range evs {
		if seenTs[e.Ts] {
			tsTies = true
		}
		seenTs[e.Ts] = true
	}
	ref, err := runLayout(cs, cs.Layouts[0], o)
	if err != nil {
		if knownWorkerCrash(err, o) {
			return nil
		}
		return fmt.Errorf("reference layout: %v", err)
	}
	for li := 1; li < len(cs.Layouts); li++ {
		k := cs.Layouts[li]
		got, err := runLayout(cs, k, o)
		if err != nil {
			if knownWorkerCrash(err, o) {
				return nil
			}
			return fmt.Errorf("layout %d: %v", li, err)
		}
		fl, rot := k.Layout.Blocks()
		knobCount := 0
		for _, b := range []bool{fl >= 2, rot >= 1, k.Layout.CardLimit > 0, k.Layout.GoMaxProcs > 0, k.PreQuery || k.PreHalf, k.PQSOff, k.AggsOff} {
			if b {
				knobCount++
			}
		}
		for qi, q := range cs.Queries {
			a, b := ref[qi], got[qi]
			text := q.text()
			where := fmt.Sprintf("query %d %q: layout %d %+v vs reference layout (one block, unrotated)", qi, text, li, k)
			if (a.rej != "") != (b.rej != "") {
				return fmt.Errorf("%s: rejected under one layout only: ref=%q other=%q", where, a.rej, b.rej)
			}
			if a.rej != "" {
				continue
			}
			switch q.Kind {
			case "filter":
				if hasNotOverText(q.Filter, false) && pt.KnownFindingOpen("C02-not-freetext") {
					o.Known("C02-not-freetext")
					continue
				}
				// compare on the events whose verdict the statement fixes; elsewhere (absent field under
				// !=, values of mixed columns, ...) block composition legitimately changes the answer
				sa, sb := map[int64]bool{}, map[int64]bool{}
				for _, v := range a.vids {
					sa[v] = true
				}
				for _, v := range b.vids {
					sb[v] = true
				}
				nIn, nOut := 0, 0
				for _, e := range evs {
					if !q.Filter.Decided(e, ctx) {
						continue
					}
					if sa[e.Vid] != sb[e.Vid] {
						return fmt.Errorf("%s: event _vid=%d is returned under one layout only (ref=%v other=%v)\n  event: %s", where, e.Vid, sa[e.Vid], sb[e.Vid], gen.EventJSON(e, true))
					}
					if sa[e.Vid] {
						nIn++
						if a.recs[e.Vid] != b.recs[e.Vid] && !recordsSameByValue(a.raw[e.Vid], b.raw[e.Vid], kinds, e) {
							return fmt.Errorf("%s: record _vid=%d differs between layouts:\n  ref:   %s\n  other: %s", where, e.Vid, a.recs[e.Vid], b.recs[e.Vid])
						}
					} else {
						nOut++
					}
				}
				if nIn > 0 && nOut > 0 && knobCount >= 2 {
					o.NonTrivial()
					o.Class("filter_pruning_possible")
				}
			case "sort":
				if len(a.vids) != len(b.vids) {
					return fmt.Errorf("%s: %d vs %d records", where, len(a.vids), len(b.vids))
				}
				firstKeyMixed := false
				for name := range ctx.MixedCols {
					if strings.Contains(q.Sort, "sort "+name+",") {
						firstKeyMixed = true
					}
				}
				for name, ks := range kinds {
					if ks[model.KStr] && strings.Contains(q.Sort, "sort "+name+",") {
						firstKeyMixed = true // numeric text ranks as number or string depending on consolidation
					}
				}
				if !firstKeyMixed {
					for i := range a.vids {
						if a.vids[i] != b.vids[i] {
							return fmt.Errorf("%s: order differs at position %d: ref _vid=%d other _vid=%d", where, i, a.vids[i], b.vids[i])
						}
					}
				}
				if knobCount >= 2 && len(a.vids) >= 2 {
					o.NonTrivial()
					o.Class("sort_total_order")
				}
			case "stats":
				st := q.Stats
				mixedQuery := false
				for _, by := range st.By {
					if len(kinds[by]) > 1 || kinds[by][model.KStr] && numericTextIn(evs, by) {
						mixedQuery = true
					}
				}
				if st.Filter != nil {
					for _, e := range evs {
						if !st.Filter.Decided(e, ctx) {
							mixedQuery = true
						}
					}
				}
				if mixedQuery {
					o.Class("stats_mixed_skipped")
					continue
				}
				// known finding C03-agiletree: a group-by answered from the pre-aggregated tree (columns
				// registered by earlier stats queries, aggregations and PQS on, segment rotated; only
				// count/sum/min/max/avg/range are served from it) is wrong for float measures
				// (sum/min/max/avg = 0; repaired by fixes/C03-agiletree-float-measure.diff), non-string
				// by-keys and a measure column that is also a by-column (no groups at all). Numeric measures
				// over string by-keys are still compared, and so is every query with a function the tree
				// does not keep (computed from the records since fixes/C03-agiletree-unsupported-measure-function.diff).
				if (k.PreQuery || k.PreHalf) && !k.AggsOff && !k.PQSOff && rot >= 1 && len(st.By) > 0 && pt.KnownFindingOpen("C03-agiletree") {
					if !treeSafe(st, kinds) {
						o.Known("C03-agiletree")
						continue
					}
					o.Class("agiletree_compared")
				}
				var grpEvs map[string][]*model.Event // events of the dataset per answer group (computed on demand)
				// groups with a null by-value are reported by some paths only (not stated): drop them
				na, nb := 0, 0
				for key := range a.groups {
					if !isNullKey(key) {
						na++
					}
				}
				for key := range b.groups {
					if !isNullKey(key) {
						nb++
						if _, ok := a.groups[key]; !ok {
							return fmt.Errorf("%s: group %q exists only under the other layout (ref has %v)", where, key, keysOf(a.groups))
						}
					}
				}
				_ = nb
				for key, ma := range a.groups {
					if isNullKey(key) {
						continue
					}
					mb, ok := b.groups[key]
					if !ok {
						return fmt.Errorf("%s: group %q missing under the other layout (has %v)", where, key, keysOf(b.groups))
					}
					for _, m := range st.Measures {
						if unstableMeasure(m, kinds, tsTies, st) {
							continue
						}
						va, oka := ma[m.Key()]
						vb, okb := mb[m.Key()]
						if oka == okb && (!oka || measureSame(m.Key(), va, vb)) {
							continue
						}
						if grpEvs == nil {
							grpEvs = groupEvents(evs, st, ctx)
						}
						if m.Field != "" && m.Fn != "count" && m.Fn != "dc" && noValue(grpEvs[key], m.Field) {
							// no event of the group carries the measure field: the aggregate has no input, and
							// whether it is reported as 0, as empty or not at all is not stated
							o.Class("measure_without_input")
							continue
						}
						if oka && okb && (m.Fn == "earliest" || m.Fn == "latest") && (isIntZero(va) || isIntZero(vb)) &&
							(kinds[m.Field][model.KBool] || lacksField(grpEvs[key], m.Field)) &&
							pt.KnownFindingOpen("C04-earliest-latest-null-bool") {
							// known finding: integer 0 is reported when the first/last event of the group lacks the
							// field (or the field is boolean) — but only if the column exists in that event's block,
							// so the wrong 0 appears under one layout and the right value under another
							o.Known("C04-earliest-latest-null-bool")
							continue
						}
						if oka && okb && (m.Fn == "sum" || m.Fn == "avg") && sumSameByMagnitude(m.Fn, va, vb, grpEvs[key], m.Field) {
							o.Class("float_association")
							continue
						}
						if oka && okb && m.Fn == "list" && listSameTruncated(va, vb, grpEvs[key], m.Field) {
							o.Class("list_truncated")
							continue
						}
						return fmt.Errorf("%s: group %q measure %s: ref=%q other=%q", where, key, m.Key(), va, vb)
					}
				}
				if len(a.groups) >= 2 && knobCount >= 2 {
					o.NonTrivial()
					o.Class("stats_multi_group")
				}
			}
		}
	}
	return nil
}

// groupEvents partitions the events a stats query matches by the key under which runLayout files the
// group they belong to: "#<bucket start>" for timechart, the canonical by-value (one by-column), the sorted
// col=value list (several), "*" without a by-clause. Events lacking a by-field belong to no (non-null) group.
func groupEvents(evs []*model.Event, st *model.StatsQuery, ctx *model.Ctx) map[string][]*model.Event {
	out := map[string][]*model.Event{}
	lo, _ := lq.TsBounds(evs)
	start := lo - 1 // the query's start time: time buckets are aligned on it
	for _, e := range evs {
		if st.Filter != nil && st.Filter.EvalIn(e, ctx) != model.True {
			continue
		}
		var key string
		switch {
		case st.Timechart:
			if st.SpanMs == 0 || e.Ts < start {
				continue
			}
			key = "#" + strconv.FormatUint(start+(e.Ts-start)/st.SpanMs*st.SpanMs, 10)
		case len(st.By) == 0:
			key = "*"
		default:
			flat, _ := e.Flat()
			parts := make([]string, 0, len(st.By))
			for _, b := range st.By {
				v, ok := flat[b]
				if !ok || v.K == model.KNull {
					parts = nil
					break
				}
				parts = append(parts, canonModelVal(v))
			}
			if parts == nil {
				continue
			}
			key = parts[0]
			if len(parts) > 1 {
				for i := range parts {
					parts[i] = st.By[i] + "=" + parts[i]
				}
				sort.Strings(parts)
				key = strings.Join(parts, "\x1f")
			}
		}
		out[key] = append(out[key], e)
	}
	return out
}

// canonModelVal is canonVal(v, false) for a value of the dataset.
func canonModelVal(v model.Val) string {
	switch v.K {
	case model.KInt:
		return "#" + strconv.FormatInt(v.I, 10)
	case model.KFloat:
		if v.F == math.Trunc(v.F) && math.Abs(v.F) < 1e15 {
			return "#" + strconv.FormatFloat(v.F, 'f', -1, 64)
		}
		return "#" + strconv.FormatFloat(v.F, 'g', -1, 64)
	case model.KStr:
		return "$" + v.S
	case model.KBool:
		return "b" + strconv.FormatBool(v.B)
	}
	return ""
}

// noValue: no event of the list has a non-null value for field.
func noValue(evs []*model.Event, field string) bool {
	for _, e := range evs {
		flat, _ := e.Flat()
		if v, ok := flat[field]; ok && v.K != model.KNull {
			return false
		}
	}
	return true
}

func lacksField(evs []*model.Event, field string) bool {
	for _, e := range evs {
		flat, _ := e.Flat()
		if v, ok := flat[field]; !ok || v.K == model.KNull {
			return true
		}
	}
	return false
}

func isIntZero(v sut.TV) bool {
	if v.Kind() != 'i' && v.Kind() != 'u' {
		return false
	}
	i, ok := v.Int()
	return ok && i == 0
}

// sumSameByMagnitude: a float sum depends on the order of the additions (blocks and segments are added up
// in layout order). The difference between two orders is bounded by about n*2^-53 times the sum of the
// absolute values, not by the size of the result: 1.8e308 + x - 1.8e308 is x or 0. Accept a difference within
// 1e-12 * sum|x| (avg: divided by the number of values); if sum|x| itself overflows float64, partial sums may
// overflow too and nothing is fixed. Only for columns holding a float (integer sums are exact).
func sumSameByMagnitude(fn string, a, b sut.TV, grp []*model.Event, field string) bool {
	fa, oka := numOf(a)
	fb, okb := numOf(b)
	if !oka || !okb {
		return false
	}
	mag, n, hasFloat := 0.0, 0, false
	for _, e := range grp {
		flat, _ := e.Flat()
		if v, ok := flat[field]; ok && v.IsNum() {
			mag += math.Abs(v.Num())
			n++
			if v.K == model.KFloat {
				hasFloat = true
			}
		}
	}
	if !hasFloat || n == 0 {
		return false
	}
	if math.IsInf(mag, 0) {
		return true
	}
	if math.IsNaN(fa) || math.IsNaN(fb) || math.IsInf(fa, 0) || math.IsInf(fb, 0) {
		return false
	}
	tol := 1e-12 * mag
	if fn == "avg" {
		tol /= float64(n)
	}
	return math.Abs(fa-fb) <= tol
}

// listLimit is the number of values list() keeps (sutils.MAX_SPL_LIST_SIZE).
const listLimit = 100

// listSameTruncated: list(f) keeps the first 100 values in processing order; neither the statement nor the
// documentation fixes which 100 of a larger group these are (the repository's own functional tests use
// list() only where all values are equal). When the group holds more than 100 values of f and the reference
// answer is at the limit, the other answer must have the same length and be a sub-multiset of the group's
// values. In every other case the ordinary multiset comparison (measureSame) decides.
func listSameTruncated(ref, other sut.TV, grp []*model.Event, field string) bool {
	la, oka := listElems(ref)
	lb, okb := listElems(other)
	if !oka || !okb || len(la) < listLimit || len(la) != len(lb) {
		return false
	}
	full := map[string]int{}
	n := 0
	var kind model.Kind
	for _, e := range grp {
		flat, _ := e.Flat()
		if v, ok := flat[field]; ok && v.K != model.KNull {
			if n > 0 && v.K != kind {
				return false // mixed column: not compared at all (unstableMeasure)
			}
			kind = v.K
			full[canonListElem(model.CanonText(v), kind)]++
			n++
		}
	}
	if n <= listLimit {
		return false
	}
	for _, x := range lb {
		c := canonListElem(x, kind)
		if full[c] == 0 {
			return false
		}
		full[c]--
	}
	return true
}

func listElems(v sut.TV) ([]string, bool) {
	xs, ok := v.List()
	if !ok {
		return nil, false
	}
	if v.Kind() == 'L' {
		out := make([]string, len(xs))
		for i, x := range xs {
			out[i] = sut.TV(x).Raw()
		}
		return out, true
	}
	return xs, true
}

// canonListElem: elements of list() are texts; floats are rendered with six decimals (open finding
// C04-float-text-6dp) and booleans as 1/0 (representation): compare integers by their text, floats after
// rounding to six decimals, booleans as true/false.
func canonListElem(s string, k model.Kind) string {
	switch k {
	case model.KInt:
		if i, err := strconv.ParseInt(s, 10, 64); err == nil {
			return "i" + strconv.FormatInt(i, 10)
		}
	case model.KFloat:
		if f, err := strconv.ParseFloat(s, 64); err == nil {
			return "f" + strconv.FormatFloat(f, 'f', 6, 64)
		}
	case model.KBool:
		switch s {
		case "1", "true":
			return "btrue"
		case "0", "false":
			return "bfalse"
		}
	}
	return "?" + s
}

// unstableMeasure: measures whose value legitimately depends on layout for this dataset.
func unstableMeasure(m model.Measure, kinds map[string]map[model.Kind]bool, tsTies bool, st *model.StatsQuery) bool {
	if m.Field == "" {
		return false
	}
	ks := kinds[m.Field]
	switch m.Fn {
	case "sum", "avg", "min", "max", "range", "perc", "median":
		if ks[model.KBool] || ks[model.KStr] {
			return true // numeric aggregate of a non-numeric column: not stated
		}
	}
	if len(ks) > 1 || ks[model.KStr] {
		// mixed / text measure column: consolidation per block decides what counts as a number
		return m.Fn != "count"
	}
	if (m.Fn == "earliest" || m.Fn == "latest") && tsTies {
		return true
	}
	if len(st.By) == 0 && !st.Timechart && pt.KnownFindingOpen("C04-segstats-null-segment") {
		// known finding: segment-statistics path is order/segment dependent for columns that are
		// entirely null in one segment — and the reference layout has one segment
		return true
	}
	if (m.Fn == "count" || m.Fn == "avg") && (len(st.By) > 0 || st.Timechart) && pt.KnownFindingOpen("C04-count-field-groupby") {
		return false // deterministic (group size): same under every layout
	}
	return false
}

// treeFn: the functions the pre-aggregated tree keeps per measure column (avg and range are derived).
func treeFn(fn string) bool {
	switch fn {
	case "count", "sum", "min", "max", "avg", "range":
		return true
	}
	return false
}

// treeSafe: the answer does not fall into the class of the open finding C03-agiletree. Either some measure
// uses a function the tree does not keep (then the whole query is computed from the records), or the
// by-keys are pure strings and every measure aggregates a pure-integer or pure-float column that is not
// itself a by-column.
func treeSafe(st *model.StatsQuery, kinds map[string]map[model.Kind]bool) bool {
	for _, m := range st.Measures {
		if !treeFn(m.Fn) {
			return true
		}
	}
	by := map[string]bool{}
	for _, b := range st.By {
		by[b] = true
		if len(kinds[b]) != 1 || !kinds[b][model.KStr] {
			return false
		}
	}
	for _, m := range st.Measures {
		if m.Field == "" {
			continue
		}
		if by[m.Field] || len(kinds[m.Field]) != 1 || !(kinds[m.Field][model.KInt] || kinds[m.Field][model.KFloat]) {
			return false
		}
	}
	return true
}

func numericTextIn(evs []*model.Event, col string) bool {
	for _, e := range evs {
		f, _ := e.Flat()
		if v, ok := f[col]; ok && v.K == model.KStr {
			if _, err := strconv.ParseFloat(strings.TrimSpace(v.S), 64); err == nil {
				return true
			}
		}
	}
	return false
}

func hasNotOverText(f *model.Filter, underNot bool) bool {
	switch f.Kind {
	case "term", "phrase":
		return underNot
	case "not":
		return hasNotOverText(f.Kids[0], true)
	}
	for _, k := range f.Kids {
		if hasNotOverText(k, underNot) {
			return true
		}
	}
	return false
}

func isNullKey(k string) bool {
	if k == "" {
		return true
	}
	for _, p := range strings.Split(k, "\x1f") {
		if p == "" || strings.HasSuffix(p, "=") {
			return true
		}
	}
	return false
}
func hasNullKey(g map[string]map[string]sut.TV) bool {
	for k := range g {
		if isNullKey(k) {
			return true
		}
	}
	return false
}
func keysOf(g map[string]map[string]sut.TV) []string {
	out := make([]string, 0, len(g))
	for k := range g {
		out = append(out, strings.ReplaceAll(k, "\x1f", "|"))
	}
	sort.Strings(out)
	return out
}
func absDiff(a, b int) int {
	if a > b {
		return a - b
	}
	return b - a
}

func TestC03(t *testing.T) { pt.RunProp(t, "C03", genC03, checkC03) }

// knownWorkerCrash recognises the open finding C03-aggs-worker-short-record by its call site: the server died
// with an index-out-of-range panic in writer.GetCvalFromRec called from search.addRecordToAggregations (a
// block worker goroutine, which nothing recovers). Seen once in about 30 000 thorough cases and not again
// from the same case; any other crash stays a violation.
func knownWorkerCrash(err error, o *pt.Obs) bool {
	msg := err.Error()
	if strings.Contains(msg, "server process died") && strings.Contains(msg, "index out of range") &&
		strings.Contains(msg, "writer.GetCvalFromRec") && strings.Contains(msg, "search.addRecordToAggregations") &&
		pt.KnownFindingOpen("C03-aggs-worker-short-record") {
		o.Known("C03-aggs-worker-short-record")
		return true
	}
	return false
}
