package c16

import (
	"encoding/hex"
	"math"
	"sort"
	"strconv"

	"pgregory.net/rapid"

	"verifharness/model"
)

// ---- name pools -------------------------------------------------------------------------------------
// Plain names, nesting parents and dotted names are disjoint by construction so that two leaves can
// never flatten to the same column name (the statement does not define that case). Names used by the
// encoders themselves (vid, message, timestamp, trace_id, span_id, resource, scope, line, ...) and the
// span base columns are not in the pools; base-column collisions are a separate, labelled class.
var plainNames = []string{"a", "b", "code", "id", "usr", "lat", "k_1", "x1", "app", "env", "msg2", "val", "Level", "a-b", "ü", "n"}
var parentNames = []string{"http", "db", "ctx"}
var childNames = []string{"method", "code", "x", "y", "rows"}
var dottedNames = []string{"net.peer.ip", "k8s.pod.name", "user.id", "rpc.system"}
var arrayNames = []string{"arr", "tags", "list"}
var resNames = []string{"host.name", "service.namespace", "pid", "region", "k8s.node", "zone"}
var scopeAttrNames = []string{"sk", "lib.lang", "build"}

// span base columns written by spanToJson; an attribute with such a key collides with them.
var spanBaseNames = []string{"name", "service", "status", "trace_id", "kind", "duration", "span_id", "start_time"}

var strPool = []string{"x", "alpha", "x y", "", "Alpha BETA", "007", "1e3", "true", "null", "q\"uote", "back\\slash", "new\nline", "tab\there",
	"unié", "emoji😀x", "sl/ash", "{\"k\":1}", "[1,2]", "comma, sep", "eq=sign", "a=b, c=\"d\"", "漢字", "a.b", " lead", "trail ", "%d %s", "<tag>&amp;"}
var intPool = []int64{0, 1, -1, 2, 7, 42, 100, 255, 256, 65535, 65536, -128, 1 << 31, -(1 << 31) - 1, 1 << 53, (1 << 53) + 1, -(1 << 53) - 1,
	math.MaxInt64, math.MinInt64, math.MaxInt64 - 1, 1 << 62, 9007199254740993}
var floatPool = []float64{0.5, -0.5, 1.5, 2.5, 3.25, 1e-3, 0.1, 0.2, 0.30000000000000004, 1e10, -1e10, 1e300, 1e-300, 5e-324, math.MaxFloat64,
	-math.MaxFloat64, 2.0, 100.0, 1.0000000000000002, 123456789.125, 0.0, 1e21, 1e22, 123456789012345680000.0,
	-2.2212344287336554e+19, 2.5051154033765392e+19, 9.223372036854775808e18, 1.8446744073709552e19}

func genStr(t *rapid.T) model.Val {
	switch rapid.IntRange(0, 9).Draw(t, "strKind") {
	case 0:
		return model.Str(rapid.StringN(0, 40, 120).Draw(t, "anyStr"))
	case 1:
		return model.Str(rapid.StringMatching(`[a-z]{1,4}[0-9]{1,4}`).Draw(t, "idStr"))
	default:
		return model.Str(rapid.SampledFrom(strPool).Draw(t, "poolStr"))
	}
}

func genInt(t *rapid.T) model.Val {
	switch rapid.IntRange(0, 9).Draw(t, "intKind") {
	case 0, 1, 2, 3:
		return model.Int(int64(rapid.IntRange(-5, 1000).Draw(t, "smallInt")))
	case 4, 5, 6:
		return model.Int(rapid.SampledFrom(intPool).Draw(t, "poolInt"))
	default:
		return model.Int(rapid.Int64().Draw(t, "anyInt"))
	}
}

// integer spellings beyond int64 (a JSON number; the documented storage is float64). Handlers that
// re-marshal a float64 in [2^63, 1e21) produce such spellings themselves.
var beyondInt64 = []string{"22212344287336554000", "-25051154033765392000", "123456789012345678901", "18446744073709551617",
	"9223372036854775808", "-9223372036854775809", "100000000000000000000", "36893488147419103232"}

func genFloat(t *rapid.T) model.Val {
	switch rapid.IntRange(0, 10).Draw(t, "floatKind") {
	case 10:
		s := rapid.SampledFrom(beyondInt64).Draw(t, "beyondInt64")
		f, _ := strconv.ParseFloat(s, 64)
		return model.Val{K: model.KFloat, F: f, Spell: s}
	case 0, 1, 2, 3:
		return model.Float(rapid.SampledFrom(floatPool).Draw(t, "poolFloat"))
	case 4, 5:
		return model.Float(float64(rapid.IntRange(-40, 40).Draw(t, "q")) / 4)
	default:
		f := rapid.Float64().Draw(t, "anyFloat")
		if math.IsNaN(f) || math.IsInf(f, 0) {
			f = 1.25
		}
		return model.Float(f)
	}
}

func genScalar(t *rapid.T) model.Val {
	switch rapid.IntRange(0, 9).Draw(t, "kind") {
	case 0, 1, 2, 3:
		return genStr(t)
	case 4, 5, 6:
		return genInt(t)
	case 7, 8:
		return genFloat(t)
	default:
		return model.Bool(rapid.Bool().Draw(t, "bool"))
	}
}

func pickDistinct(t *rapid.T, pool []string, n int, label string) []string {
	if n > len(pool) {
		n = len(pool)
	}
	perm := rapid.Permutation(pool).Draw(t, label)
	return perm[:n]
}

func genObject(t *rapid.T, depth int) model.Node {
	n := rapid.IntRange(1, 3).Draw(t, "nChildren")
	names := pickDistinct(t, childNames, n, "childNames")
	fs := make([]model.Field, 0, n)
	for i, name := range names {
		if depth < 2 && i == 0 && rapid.IntRange(0, 3).Draw(t, "deeper") == 0 {
			fs = append(fs, model.Field{Name: "in", Node: genObject(t, depth+1)})
			continue
		}
		fs = append(fs, model.Field{Name: name, Node: model.LeafNode(genScalar(t))})
	}
	return objNode(fs)
}

func genArray(t *rapid.T) model.Node {
	n := rapid.IntRange(1, 3).Draw(t, "arrLen")
	arr := make([]model.Node, 0, n)
	for i := 0; i < n; i++ {
		if rapid.IntRange(0, 5).Draw(t, "arrObj") == 0 {
			arr = append(arr, genObject(t, 2))
		} else {
			arr = append(arr, model.LeafNode(genScalar(t)))
		}
	}
	return model.Node{Arr: arr, IsArr: true}
}

// genFields draws the leaf map.
func genFields(t *rapid.T) model.Node {
	var fs []model.Field
	nPlain := rapid.IntRange(1, 4).Draw(t, "nPlain")
	for _, name := range pickDistinct(t, plainNames, nPlain, "plainNames") {
		fs = append(fs, model.Field{Name: name, Node: model.LeafNode(genScalar(t))})
	}
	nObj := rapid.IntRange(0, 2).Draw(t, "nObj")
	for _, name := range pickDistinct(t, parentNames, nObj, "parentNames") {
		fs = append(fs, model.Field{Name: name, Node: genObject(t, 1)})
	}
	if rapid.IntRange(0, 2).Draw(t, "hasArr") == 0 {
		name := rapid.SampledFrom(arrayNames).Draw(t, "arrName")
		fs = append(fs, model.Field{Name: name, Node: genArray(t)})
	}
	nDot := rapid.IntRange(0, 3).Draw(t, "nDotted")
	if nDot > 1 {
		nDot = 1 + nDot%2
	}
	if rapid.Bool().Draw(t, "dotted") {
		for _, name := range pickDistinct(t, dottedNames, nDot, "dottedNames") {
			fs = append(fs, model.Field{Name: name, Node: model.LeafNode(genScalar(t))})
		}
	}
	// order of members must not matter
	perm := rapid.Permutation(fs).Draw(t, "order")
	return objNode(perm)
}

func genFlat(t *rapid.T, pool []string, max int, label string) []model.Field {
	n := rapid.IntRange(0, max).Draw(t, label+"N")
	var fs []model.Field
	for _, name := range pickDistinct(t, pool, n, label+"Names") {
		fs = append(fs, model.Field{Name: name, Node: model.LeafNode(genScalar(t))})
	}
	return fs
}

func genHex(t *rapid.T, nbytes int, label string) string {
	b := rapid.SliceOfN(rapid.Byte(), nbytes, nbytes).Draw(t, label)
	allZero := true
	for _, x := range b {
		if x != 0 {
			allZero = false
		}
	}
	if allZero {
		b[nbytes-1] = 1 // all-zero ids are "invalid" in OTLP
	}
	return hex.EncodeToString(b)
}

// Time domain: [2002-01-01, 2090-01-01). Every unit heuristic of the handlers (seconds < 1e11 <=
// milliseconds, nanoseconds >= 1e18) is unambiguous inside it.
const (
	minTimeMs = 1_009_843_200_000
	maxTimeMs = 3_786_825_600_000
)

var edgeTimesNs = []uint64{
	1_000_000_000_000_000_000, // exactly 1e18 ns
	1_600_000_000_000_000_000,
	1_699_999_999_999_999_999,
	2_000_000_000_999_000_000,
	1_234_567_890_000_000_000,
}

func genTimeNs(t *rapid.T) uint64 {
	switch rapid.IntRange(0, 9).Draw(t, "timeKind") {
	case 0:
		return 0 // no time
	case 1:
		return rapid.SampledFrom(edgeTimesNs).Draw(t, "edgeTime")
	case 2: // whole second
		ms := uint64(rapid.Int64Range(minTimeMs/1000, maxTimeMs/1000-1).Draw(t, "sec")) * 1000
		return ms * 1_000_000
	default:
		ms := uint64(rapid.Int64Range(minTimeMs, maxTimeMs-1).Draw(t, "ms"))
		sub := uint64(rapid.IntRange(0, 999_999).Draw(t, "subMs"))
		return ms*1_000_000 + sub
	}
}

var esUnits = []string{"ms", "s", "ms_str", "s_str", "ns_str", "rfc3339", "rfc3339_off", "rfc3339_s"}
var hecUnits = []string{"sec_frac", "s", "sec_frac_str", "s_str"}

// LogCase is one generated case of TestC16Logs.
type LogCase struct {
	Ev        LogEvent      `json:"ev"`
	LogHasIDs bool          `json:"logHasIds"` // log protocols carry trace/span ids
	SpanExtra []model.Field `json:"spanExtra"` // span attributes whose key equals a span base column
	SpanLink  bool          `json:"spanLink"`  // the span carries one link
	LinkTrace string        `json:"linkTrace"`
	LinkSpan  string        `json:"linkSpan"`
	Status    int32         `json:"status"` // span status code 0..2
	BulkUnit  string        `json:"bulkUnit"`
	DocUnit   string        `json:"docUnit"`
	HecUnit   string        `json:"hecUnit"`
	HecIndex  string        `json:"hecIndex"`  // "" = omitted (documented default index)
	OtlpIndex string        `json:"otlpIndex"` // "" = default otel-logs
	NoBody    bool          `json:"noBody"`    // OTLP log record without a body
}

func genLogCase(t *rapid.T) *LogCase {
	c := &LogCase{}
	e := &c.Ev
	e.Vid = int64(rapid.IntRange(1, 1_000_000).Draw(t, "vid"))
	e.Fields = genFields(t)
	e.Msg = genStr(t).S
	e.TimeNs = genTimeNs(t)
	e.Res = genFlat(t, resNames, 3, "res")
	if rapid.Bool().Draw(t, "hasScope") {
		e.ScopeName = rapid.SampledFrom([]string{"lib", "io.otel/x", "my scope"}).Draw(t, "scopeName")
		e.ScopeVersion = rapid.SampledFrom([]string{"", "1.2.3", "v0"}).Draw(t, "scopeVersion")
		e.ScopeAttrs = genFlat(t, scopeAttrNames, 2, "scopeAttr")
	}
	e.TraceID = genHex(t, 16, "traceId")
	e.SpanID = genHex(t, 8, "spanId")
	if rapid.Bool().Draw(t, "hasParent") {
		e.ParentID = genHex(t, 8, "parentId")
	}
	e.SpanName = rapid.SampledFrom([]string{"GET /x", "op", "db.query", "é span"}).Draw(t, "spanName")
	e.Service = rapid.SampledFrom([]string{"svc", "cart-service", "a b"}).Draw(t, "service")
	e.DurNs = uint64(rapid.Int64Range(0, 5_000_000_000).Draw(t, "durNs"))
	e.SevText = rapid.SampledFrom([]string{"", "INFO", "error", "Warn"}).Draw(t, "sevText")
	e.SevNum = int32(rapid.IntRange(0, 24).Draw(t, "sevNum"))
	if rapid.Bool().Draw(t, "hasObserved") {
		e.ObservedNs = uint64(rapid.Int64Range(minTimeMs, maxTimeMs-1).Draw(t, "observedMs")) * 1_000_000
	}
	c.LogHasIDs = rapid.IntRange(0, 3).Draw(t, "logHasIds") != 0
	if rapid.IntRange(0, 7).Draw(t, "spanBaseCollision") == 0 {
		name := rapid.SampledFrom(spanBaseNames).Draw(t, "spanBaseName")
		c.SpanExtra = []model.Field{{Name: name, Node: strLeaf("attr-" + name)}}
	}
	if rapid.IntRange(0, 3).Draw(t, "spanLink") == 0 {
		c.SpanLink = true
		c.LinkTrace = genHex(t, 16, "linkTrace")
		c.LinkSpan = genHex(t, 8, "linkSpan")
	}
	c.Status = int32(rapid.IntRange(0, 2).Draw(t, "status"))
	c.BulkUnit = rapid.SampledFrom(esUnits).Draw(t, "bulkUnit")
	c.DocUnit = rapid.SampledFrom(esUnits).Draw(t, "docUnit")
	c.HecUnit = rapid.SampledFrom(hecUnits).Draw(t, "hecUnit")
	if rapid.IntRange(0, 4).Draw(t, "hecDefaultIndex") != 0 {
		c.HecIndex = "c16-hec"
	}
	if rapid.Bool().Draw(t, "otlpCustomIndex") {
		c.OtlpIndex = "c16-otlp"
	}
	c.NoBody = rapid.IntRange(0, 9).Draw(t, "noBody") == 0
	return c
}

// ---- metrics ------------------------------------------------------------------------------------------

var metricNames = []string{"cpu_usage", "http_requests_total", "m1", "Mem_Free", "q_len", "x"}
var dottedMetricNames = []string{"sys.cpu.user", "jvm.memory.used", "a.b-c"}
var labelKeys = []string{"host", "region", "job", "instance", "code", "le", "k_1"}
var dottedLabelKeys = []string{"host.name", "http.method"}

// label values: anything but ',', '{', '}' — the query interface renders a series as "name{k:v,k:v" and
// takes it apart again at those characters (getPromQLSeriesFormat / ExtractMetricNameFromGroupID), so
// they cannot be observed through it (query-side presentation, not an ingest matter).
var labelVals = []string{"a", "web-01", "us east", "200", "0.5", "é", "v:1", "eq=sign", "sl/ash", "q\"uote", "back\\slash", "UPPER", "true"}

var metricValues = []float64{0, 1, -1, 1.5, -7, 0.1, 42, 1e-3, 123456789.125, 1e10, -1e10, 1e300, -2.5, 3, 255, 65536, 1e-300, 0.30000000000000004}

type MetricCase struct {
	Points    []DataPoint   `json:"points"`
	OtsdbUnit string        `json:"otsdbUnit"`
	OtlpKind  string        `json:"otlpKind"`
	Res       []model.Field `json:"res"`
}

func genMetricCase(t *rapid.T) *MetricCase {
	c := &MetricCase{}
	n := rapid.IntRange(1, 3).Draw(t, "nPoints")
	pool := append([]string{}, metricNames...)
	if rapid.IntRange(0, 3).Draw(t, "dottedNames") == 0 {
		pool = append(pool, dottedMetricNames...)
	}
	names := pickDistinct(t, pool, n, "names")
	for _, name := range names {
		d := DataPoint{Name: name}
		nl := rapid.IntRange(0, 3).Draw(t, "nLabels")
		kpool := append([]string{}, labelKeys...)
		if rapid.IntRange(0, 4).Draw(t, "dottedKeys") == 0 {
			kpool = append(kpool, dottedLabelKeys...)
		}
		keys := pickDistinct(t, kpool, nl, "labelKeys")
		sort.Strings(keys)
		for _, k := range keys {
			var v string
			if rapid.IntRange(0, 4).Draw(t, "valKind") == 0 {
				v = rapid.StringMatching(`[a-zA-Z0-9_. :/=-]{1,12}`).Draw(t, "anyVal")
			} else {
				v = rapid.SampledFrom(labelVals).Draw(t, "poolVal")
			}
			d.Labels = append(d.Labels, [2]string{k, v})
		}
		switch rapid.IntRange(0, 3).Draw(t, "mTimeKind") {
		case 0:
			d.TimeMs = uint64(rapid.Int64Range(minTimeMs/1000, maxTimeMs/1000-1).Draw(t, "mSec")) * 1000
		case 1:
			d.TimeMs = uint64(rapid.Int64Range(minTimeMs/1000, maxTimeMs/1000-1).Draw(t, "mSec"))*1000 + 999
		default:
			d.TimeMs = uint64(rapid.Int64Range(minTimeMs, maxTimeMs-1).Draw(t, "mMs"))
		}
		switch rapid.IntRange(0, 5).Draw(t, "valueKind") {
		case 0:
			d.Value = float64(rapid.IntRange(-1000, 100000).Draw(t, "intValue"))
			d.IsInt = true
		case 1:
			f := rapid.Float64().Draw(t, "anyValue")
			if math.IsNaN(f) || math.IsInf(f, 0) {
				f = 2.75
			}
			d.Value = f
		case 2:
			d.Value = float64(rapid.IntRange(-4000, 4000).Draw(t, "q")) / 8
		default:
			d.Value = rapid.SampledFrom(metricValues).Draw(t, "poolValue")
			if d.Value == math.Trunc(d.Value) && math.Abs(d.Value) < 1e15 && rapid.Bool().Draw(t, "asInt") {
				d.IsInt = true
			}
		}
		c.Points = append(c.Points, d)
	}
	c.OtsdbUnit = rapid.SampledFrom([]string{"s", "ms", "s_str"}).Draw(t, "otsdbUnit")
	c.OtlpKind = rapid.SampledFrom([]string{"gauge", "sum"}).Draw(t, "otlpKind")
	c.Res = genFlat(t, resNames, 2, "mres")
	return c
}
