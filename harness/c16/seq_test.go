package c16

// TestC16Sequence — the time rule of C16 over a SEQUENCE of requests served by one server process.
// A case is 2–6 requests (mixed protocols, 1–4 events each, some events with an explicit old/future
// time, some without any time). Whatever was ingested before, an event that carries a time must be
// stored with exactly that time, and an event without a time must be stored with ITS OWN arrival
// time (the wall-clock window of its own request) — not with a time left over from an unrelated
// earlier event (the ingest path recycles parsed-event objects between requests).

import (
	"encoding/json"
	"fmt"
	"strconv"
	"strings"
	"testing"

	collogpb "go.opentelemetry.io/proto/otlp/collector/logs/v1"
	coltracepb "go.opentelemetry.io/proto/otlp/collector/trace/v1"
	commonpb "go.opentelemetry.io/proto/otlp/common/v1"
	logpb "go.opentelemetry.io/proto/otlp/logs/v1"
	resourcepb "go.opentelemetry.io/proto/otlp/resource/v1"
	tracepb "go.opentelemetry.io/proto/otlp/trace/v1"
	"google.golang.org/protobuf/proto"
	"pgregory.net/rapid"

	"verifharness/model"
	"verifharness/pt"
	"verifharness/sut"
)

// SeqEvent is a small, type-stable event (every event of an index has the same column types, so the
// documented block-level type consolidation never comes into play).
type SeqEvent struct {
	Vid    int64  `json:"vid"`
	K      string `json:"k"`
	N      int64  `json:"n"`
	X      string `json:"x"`
	TimeNs uint64 `json:"timeNs"` // 0 = the event carries no time
}

type SeqRequest struct {
	Proto      string     `json:"proto"` // es_bulk es_doc hec otlp_logs otlp_traces loki_json
	Unit       string     `json:"unit"`  // time unit for es_* / hec
	Events     []SeqEvent `json:"events"`
	FlushAfter bool       `json:"flushAfter"`
}

type SeqCase struct {
	Requests []SeqRequest `json:"requests"`
}

var seqProtos = []string{"es_bulk", "es_doc", "hec", "otlp_logs", "otlp_traces", "loki_json"}

func genSeqEvent(t *rapid.T, vid int64, timed bool) SeqEvent {
	e := SeqEvent{Vid: vid,
		K: rapid.SampledFrom([]string{"alpha", "x y", "", "q\"uote", "unié", "007"}).Draw(t, "k"),
		N: int64(rapid.IntRange(-5, 100000).Draw(t, "n")),
		X: rapid.SampledFrom([]string{"GET", "a=b, c", "новый", "z"}).Draw(t, "x")}
	if timed {
		for e.TimeNs == 0 {
			e.TimeNs = genTimeNs(t)
		}
	}
	return e
}

func genSeqCase(t *rapid.T) *SeqCase {
	c := &SeqCase{}
	vid := int64(0)
	nReq := rapid.IntRange(2, 6).Draw(t, "nRequests")
	backfill := rapid.IntRange(0, 9).Draw(t, "backfillFirst") < 6
	for i := 0; i < nReq; i++ {
		r := SeqRequest{}
		if i == 0 && backfill {
			// historical backfill through the ES API: every document carries an explicit time
			r.Proto = rapid.SampledFrom([]string{"es_bulk", "es_bulk", "es_doc"}).Draw(t, "backfillProto")
		} else {
			r.Proto = rapid.SampledFrom(seqProtos).Draw(t, "proto")
		}
		switch r.Proto {
		case "es_bulk", "es_doc":
			r.Unit = rapid.SampledFrom(esUnits).Draw(t, "unit")
		case "hec":
			r.Unit = rapid.SampledFrom(hecUnits).Draw(t, "unit")
		}
		n := rapid.IntRange(1, 4).Draw(t, "nEvents")
		if r.Proto == "es_doc" {
			n = 1
		}
		// 0: all timed, 1: none timed, 2: mixed
		mode := rapid.IntRange(0, 2).Draw(t, "timeMode")
		if i == 0 && backfill {
			mode = 0
		}
		for j := 0; j < n; j++ {
			vid++
			timed := mode == 0 || (mode == 2 && rapid.Bool().Draw(t, "timed"))
			if r.Proto == "loki_json" {
				timed = true // a Loki entry always carries a time
			}
			r.Events = append(r.Events, genSeqEvent(t, vid, timed))
		}
		r.FlushAfter = rapid.IntRange(0, 3).Draw(t, "flushAfter") == 0
		c.Requests = append(c.Requests, r)
	}
	return c
}

// ---- encoders for several events per request ---------------------------------------------------------

func seqDoc(e *SeqEvent, unit string) (string, uint64) {
	body := objNode([]model.Field{
		{Name: "vid", Node: intLeaf(e.Vid)}, {Name: "k", Node: strLeaf(e.K)}, {Name: "n", Node: intLeaf(e.N)},
		{Name: "o", Node: objNode([]model.Field{{Name: "x", Node: strLeaf(e.X)}})},
	}).JSONText()
	if e.TimeNs == 0 {
		return body, 0
	}
	tt, ms := carriedTime(e.TimeNs, unit)
	return body[:len(body)-1] + `,"timestamp":` + tt + "}", ms
}

func seqAttrs(e *SeqEvent) []*commonpb.KeyValue {
	return keyValues([]model.Field{
		{Name: "vid", Node: intLeaf(e.Vid)}, {Name: "k", Node: strLeaf(e.K)}, {Name: "n", Node: intLeaf(e.N)},
		{Name: "o", Node: objNode([]model.Field{{Name: "x", Node: strLeaf(e.X)}})},
	})
}

type seqSent struct {
	handler string
	args    map[string]string
	body    []byte
	index   string
	vidCol  string
	prefix  string   // column prefix of k / n / o.x
	carried []uint64 // per event: carried ms (0 = none)
	text    bool
}

func encodeSeqRequest(r *SeqRequest) (*seqSent, error) {
	s := &seqSent{}
	switch r.Proto {
	case "es_bulk":
		s.handler, s.index, s.vidCol = "es_bulk", "c16s-bulk", "vid"
		var sb strings.Builder
		for i := range r.Events {
			doc, ms := seqDoc(&r.Events[i], r.Unit)
			sb.Write(esBulkBody(s.index, doc))
			s.carried = append(s.carried, ms)
		}
		s.body = []byte(sb.String())
	case "es_doc":
		s.handler, s.index, s.vidCol = "es_doc", "c16s-doc", "vid"
		doc, ms := seqDoc(&r.Events[0], r.Unit)
		s.body, s.carried = []byte(doc), []uint64{ms}
		s.args = map[string]string{"uv:indexName": s.index}
	case "hec":
		s.handler, s.index, s.vidCol, s.prefix = "hec", "c16s-hec", "event.vid", "event."
		var sb strings.Builder
		for i := range r.Events {
			e := &r.Events[i]
			doc, _ := seqDoc(&SeqEvent{Vid: e.Vid, K: e.K, N: e.N, X: e.X}, "")
			sb.WriteString("{")
			var ms uint64
			if e.TimeNs != 0 {
				var tt string
				tt, ms = carriedTime(e.TimeNs, r.Unit)
				sb.WriteString(`"time":` + tt + ",")
			}
			sb.WriteString(`"index":"` + s.index + `","event":` + doc + "}\n")
			s.carried = append(s.carried, ms)
		}
		s.body = []byte(sb.String())
	case "otlp_logs":
		s.handler, s.index, s.vidCol, s.prefix, s.args = "otlp_logs", "otel-logs", "attributes.vid", "attributes.", pbHdr
		var recs []*logpb.LogRecord
		for i := range r.Events {
			e := &r.Events[i]
			recs = append(recs, &logpb.LogRecord{TimeUnixNano: e.TimeNs, Body: anyValue(strLeaf("m")), Attributes: seqAttrs(e)})
			s.carried = append(s.carried, e.TimeNs/1_000_000)
		}
		b, err := proto.Marshal(&collogpb.ExportLogsServiceRequest{ResourceLogs: []*logpb.ResourceLogs{{
			Resource:  &resourcepb.Resource{},
			ScopeLogs: []*logpb.ScopeLogs{{LogRecords: recs}}}}})
		if err != nil {
			return nil, err
		}
		s.body = b
	case "otlp_traces":
		s.handler, s.index, s.vidCol, s.args = "otlp_traces", "traces", "vid", pbHdr
		var spans []*tracepb.Span
		for i := range r.Events {
			e := &r.Events[i]
			id := fmt.Sprintf("%016x", uint64(e.Vid))
			spans = append(spans, &tracepb.Span{TraceId: mustHex(id + id), SpanId: mustHex(id), Name: "op",
				StartTimeUnixNano: e.TimeNs, EndTimeUnixNano: e.TimeNs + 1000, Attributes: seqAttrs(e)})
			s.carried = append(s.carried, e.TimeNs/1_000_000)
		}
		b, err := proto.Marshal(&coltracepb.ExportTraceServiceRequest{ResourceSpans: []*tracepb.ResourceSpans{{
			Resource:   &resourcepb.Resource{Attributes: []*commonpb.KeyValue{{Key: "service.name", Value: anyValue(strLeaf("svc"))}}},
			ScopeSpans: []*tracepb.ScopeSpans{{Spans: spans}}}}})
		if err != nil {
			return nil, err
		}
		s.body = b
	case "loki_json":
		s.handler, s.index, s.vidCol, s.args, s.text = "loki", "loki-index", "vid", jsonHdr, true
		var streams []string
		for i := range r.Events {
			e := &r.Events[i]
			streams = append(streams, `{"stream":`+kvObj([][2]string{{"vid", strconv.FormatInt(e.Vid, 10)}})+`,"values":[["`+
				strconv.FormatUint(e.TimeNs, 10)+`","m",`+kvObj([][2]string{{"k", e.K}, {"n", strconv.FormatInt(e.N, 10)}})+`]]}`)
			s.carried = append(s.carried, e.TimeNs/1_000_000)
		}
		s.body = []byte(`{"streams":[` + strings.Join(streams, ",") + `]}`)
	default:
		return nil, fmt.Errorf("unknown proto %q", r.Proto)
	}
	return s, nil
}

type seqPosted struct {
	reqIdx int
	proto  string
	sent   *seqSent
	t0, t1 uint64
}

func classifySeq(c *SeqCase, o *pt.Obs) {
	esTimedSeen, timedSeen, timelessSeen := false, false, false
	recycle, reverse, both := false, false, false
	for _, r := range c.Requests {
		o.Class("proto_" + r.Proto)
		if len(r.Events) > 1 {
			o.Class("multi_event_request")
		}
		hasTimed, hasTimeless := false, false
		for _, e := range r.Events {
			if e.TimeNs != 0 {
				hasTimed = true
			} else {
				hasTimeless = true
			}
		}
		if hasTimed && hasTimeless {
			o.Class("mixed_request")
		}
		if hasTimeless {
			o.Class("timeless_via_" + r.Proto)
			if esTimedSeen {
				recycle = true
			}
			if timedSeen {
				both = true
			}
		}
		if hasTimed && timelessSeen {
			reverse = true
		}
		if hasTimed {
			timedSeen = true
			if r.Proto == "es_bulk" || r.Proto == "es_doc" {
				esTimedSeen = true
			}
		}
		if hasTimeless {
			timelessSeen = true
		}
		if r.FlushAfter {
			o.Class("flush_between")
		}
	}
	if recycle {
		o.Class("timeless_after_es_timed")
	}
	if reverse {
		o.Class("timed_after_timeless")
	}
	// non-trivial: an event without a time is posted after a request that carried explicit times
	if both {
		o.NonTrivial()
	}
}

func checkSeqCase(c *SeqCase, o *pt.Obs) error {
	classifySeq(c, o)
	caseJSON, _ := json.Marshal(c)
	return pt.WithWorker(sut.Options{}, func(cl *sut.Client) error {
		var posted []seqPosted
		for i := range c.Requests {
			r := &c.Requests[i]
			s, err := encodeSeqRequest(r)
			if err != nil {
				return pt.Inconclusivef("encode %s: %v", r.Proto, err)
			}
			p := seqPosted{reqIdx: i, proto: r.Proto, sent: s}
			p.t0 = nowMs()
			hr, err := post(cl, s.handler, s.body, s.args)
			p.t1 = nowMs()
			if err != nil {
				return workerErr(cl, fmt.Sprintf("request %d (%s) post", i, r.Proto), err)
			}
			if hr.Status != 200 {
				return fmt.Errorf("request %d (%s): valid request rejected with status %d body %q\n  sent: %s", i, r.Proto, hr.Status, short(hr.Body), short(s.body))
			}
			posted = append(posted, p)
			if r.FlushAfter {
				if err := cl.Flush(); err != nil {
					return workerErr(cl, "flush", err)
				}
			}
		}
		if err := cl.Flush(); err != nil {
			return workerErr(cl, "flush", err)
		}
		// read every index once
		records := map[string]map[string]sut.Record{} // index → vid text → record
		for _, p := range posted {
			if records[p.sent.index] != nil {
				continue
			}
			sr, err := cl.Search(sut.Query{Index: p.sent.index, Text: "*", Start: 1, End: 4_102_444_800_000, Size: 200, IncludeNulls: true})
			if err != nil {
				return workerErr(cl, p.proto+" search", err)
			}
			if sr.Err != "" {
				return fmt.Errorf("match-all on index %q failed: %s", p.sent.index, sr.Err)
			}
			m := map[string]sut.Record{}
			for _, rec := range sr.Records {
				if tv, ok := rec[p.sent.vidCol]; ok && !tv.IsNil() {
					if s, ok := tvText(tv); ok {
						if _, dup := m[s]; dup {
							return fmt.Errorf("%s: event vid=%s stored more than once in %q", p.proto, s, p.sent.index)
						}
						m[s] = rec
					}
				}
			}
			records[p.sent.index] = m
		}
		for _, p := range posted {
			r := &c.Requests[p.reqIdx]
			for j := range r.Events {
				e := &r.Events[j]
				where := fmt.Sprintf("request %d of %d (%s), event %d (vid=%d)", p.reqIdx+1, len(c.Requests), p.proto, j+1, e.Vid)
				rec := records[p.sent.index][strconv.FormatInt(e.Vid, 10)]
				if rec == nil {
					return fmt.Errorf("%s: accepted event is not in index %q\n  case: %s", where, p.sent.index, short(caseJSON))
				}
				// content (light: the protocols' content rules are TestC16Logs' job)
				for _, kv := range [][2]string{{"k", e.K}, {"n", strconv.FormatInt(e.N, 10)}} {
					got, ok := rec[p.sent.prefix+kv[0]]
					if s, isText := tvText(got); !ok || !isText || s != kv[1] {
						return fmt.Errorf("%s: field %q sent %q stored %q\n  got: %s", where, kv[0], kv[1], got, recText(rec))
					}
				}
				ts, ok := rec["timestamp"].Float()
				if !ok {
					return fmt.Errorf("%s: no numeric timestamp: %s", where, recText(rec))
				}
				stored := uint64(ts)
				if carried := p.sent.carried[j]; carried != 0 {
					if stored != carried {
						return fmt.Errorf("%s: event carried time %d ms but is stored with timestamp %d (its request was posted at about %d)\n  case: %s",
							where, carried, stored, p.t0, short(caseJSON))
					}
					o.Count("explicit_times_checked", 1)
				} else {
					const slack = 5000
					if stored+slack < p.t0 || stored > p.t1+slack {
						return fmt.Errorf("%s: event carries no time, so its stored time must be its own arrival time (request posted between %d and %d), but it is stored with timestamp %d — %s\n  case: %s",
							where, p.t0, p.t1, stored, staleHint(c, stored), short(caseJSON))
					}
					o.Count("arrival_times_checked", 1)
				}
			}
		}
		return nil
	})
}

// staleHint names an earlier event of the case whose time equals the wrongly stored one.
func staleHint(c *SeqCase, stored uint64) string {
	for i, r := range c.Requests {
		for _, e := range r.Events {
			if e.TimeNs != 0 && (e.TimeNs/1_000_000 == stored || e.TimeNs/1_000_000_000*1000 == stored) {
				return fmt.Sprintf("that is the time carried by the unrelated event vid=%d of request %d (%s)", e.Vid, i+1, r.Proto)
			}
		}
	}
	return "not the time of any request of this case"
}

func TestC16Sequence(t *testing.T) {
	pt.RunProp(t, "C16", genSeqCase, checkSeqCase)
}
