package c16

// Worker-side operations of C16 (registered in the worker process and, harmlessly, in the parent).

import (
	"encoding/json"
	"fmt"
	"sort"
	"strconv"
	"strings"
	"sync/atomic"

	dtu "github.com/siglens/siglens/pkg/common/dtypeutils"
	eswriter "github.com/siglens/siglens/pkg/es/writer"
	"github.com/siglens/siglens/pkg/integrations/loki"
	otsdbwriter "github.com/siglens/siglens/pkg/integrations/otsdb/writer"
	promwriter "github.com/siglens/siglens/pkg/integrations/prometheus/ingest"
	"github.com/siglens/siglens/pkg/integrations/prometheus/promql"
	"github.com/siglens/siglens/pkg/integrations/splunk"
	"github.com/siglens/siglens/pkg/otlp"
	"github.com/siglens/siglens/pkg/segment"
	"github.com/siglens/siglens/pkg/segment/structs"
	"github.com/siglens/siglens/pkg/segment/writer/metrics"
	"github.com/valyala/fasthttp"

	"verifharness/sut"
)

var c16Qid uint64 = 16_000_000

// httpHandlers maps the handler names used by the check to the functions the ingest router
// (pkg/server/ingest/entryHandlers.go) calls, with org id 0 (CallWithMyId without an org hook).
var httpHandlers = map[string]func(ctx *fasthttp.RequestCtx){
	"es_bulk":      func(ctx *fasthttp.RequestCtx) { eswriter.ProcessBulkRequest(ctx, 0, false) },
	"es_doc":       func(ctx *fasthttp.RequestCtx) { eswriter.ProcessPutPostSingleDocRequest(ctx, false, 0) },
	"hec":          func(ctx *fasthttp.RequestCtx) { splunk.ProcessSplunkHecIngestRequest(ctx, 0) },
	"loki":         func(ctx *fasthttp.RequestCtx) { loki.ProcessLokiLogsIngestRequest(ctx, 0) },
	"otlp_logs":    func(ctx *fasthttp.RequestCtx) { otlp.ProcessLogIngest(ctx, 0) },
	"otlp_traces":  func(ctx *fasthttp.RequestCtx) { otlp.ProcessTraceIngest(ctx, 0) },
	"otlp_metrics": func(ctx *fasthttp.RequestCtx) { otlp.ProcessMetricsIngest(ctx, 0) },
	"otsdb_put":    func(ctx *fasthttp.RequestCtx) { otsdbwriter.PutMetrics(ctx, 0) },
	"prom_write":   func(ctx *fasthttp.RequestCtx) { promwriter.PutMetrics(ctx, 0) },
}

// MSeries is one series returned by the metrics selector query.
type MSeries struct {
	Labels map[string]string `json:"labels"`
	Points [][2]string       `json:"points"` // [epoch seconds, value text (%v of float64)]
}

type MQueryResult struct {
	Err    string    `json:"err,omitempty"`
	Series []MSeries `json:"series,omitempty"`
}

func init() {
	// c16_http: Name = handler, Body = request body, Args: "hdr:<Header>" request headers,
	// "uv:<name>" router user values, "method".
	sut.RegisterOp("c16_http", func(req *sut.Req) (interface{}, error) {
		h, ok := httpHandlers[req.Name]
		if !ok {
			return nil, fmt.Errorf("unknown handler %q", req.Name)
		}
		ctx := &fasthttp.RequestCtx{}
		ctx.Request.Header.SetMethod("POST")
		for k, v := range req.Args {
			switch {
			case strings.HasPrefix(k, "hdr:"):
				ctx.Request.Header.Set(strings.TrimPrefix(k, "hdr:"), v)
			case strings.HasPrefix(k, "uv:"):
				ctx.SetUserValue(strings.TrimPrefix(k, "uv:"), v)
			case k == "method":
				ctx.Request.Header.SetMethod(v)
			}
		}
		ctx.Request.SetBody(req.Body)
		h(ctx)
		return &sut.HTTPResult{Status: ctx.Response.StatusCode(), Body: append([]byte(nil), ctx.Response.Body()...)}, nil
	})

	sut.RegisterOp("c16_mflush", func(req *sut.Req) (interface{}, error) {
		metrics.ForceFlushMetricsBlock()
		return nil, nil
	})

	// c16_mquery: Text = PromQL selector, Start/End = epoch seconds. Executes the query the way
	// ProcessPromqlMetricsRangeSearchRequest does with step 1s and returns every series.
	sut.RegisterOp("c16_mquery", func(req *sut.Req) (interface{}, error) {
		out := &MQueryResult{}
		start, end := uint32(req.Start), uint32(req.End)
		reqs, qtype, arith, err := promql.ConvertPromQLToMetricsQuery(req.Text, start, end, 0)
		if err != nil {
			out.Err = "parse: " + err.Error()
			return out, nil
		}
		if len(reqs) == 0 {
			out.Err = "no metric query"
			return out, nil
		}
		qid := atomic.AddUint64(&c16Qid, 1)
		list := make([]*structs.MetricsQuery, 0)
		hashes := make([]uint64, 0)
		var tr *dtu.MetricsTimeRange
		for i := range reqs {
			reqs[i].MetricsQuery.Downsampler.Interval = 1
			reqs[i].MetricsQuery.Downsampler.Unit = "s"
			hashes = append(hashes, reqs[i].MetricsQuery.QueryHash)
			list = append(list, &reqs[i].MetricsQuery)
			tr = &reqs[i].TimeRange
		}
		res := segment.ExecuteMultipleMetricsQuery(hashes, list, arith, tr, qid, false)
		if res == nil {
			out.Err = "nil result"
			return out, nil
		}
		if len(res.ErrList) > 0 {
			out.Err = fmt.Sprintf("errors: %v", res.ErrList)
			return out, nil
		}
		resp, err := res.GetResultsPromQl(&reqs[0].MetricsQuery, qtype)
		if err != nil {
			out.Err = "results: " + err.Error()
			return out, nil
		}
		// go through JSON to stay independent of the exact struct shapes
		b, err := json.Marshal(resp)
		if err != nil {
			return nil, err
		}
		var dec struct {
			Data struct {
				Result []struct {
					Metric map[string]string `json:"metric"`
					Values [][]interface{}   `json:"values"`
				} `json:"result"`
			} `json:"data"`
		}
		if err := json.Unmarshal(b, &dec); err != nil {
			return nil, fmt.Errorf("decode promql response %s: %v", b, err)
		}
		for _, r := range dec.Data.Result {
			s := MSeries{Labels: r.Metric}
			for _, v := range r.Values {
				if len(v) != 2 {
					continue
				}
				var ts string
				switch x := v[0].(type) {
				case float64:
					ts = strconv.FormatInt(int64(x), 10)
				default:
					ts = fmt.Sprint(x)
				}
				s.Points = append(s.Points, [2]string{ts, fmt.Sprint(v[1])})
			}
			out.Series = append(out.Series, s)
		}
		sort.Slice(out.Series, func(i, j int) bool {
			return fmt.Sprint(out.Series[i].Labels) < fmt.Sprint(out.Series[j].Labels)
		})
		return out, nil
	})
}
