package c16

// Protocol encoders: one logical event / datapoint → the request body of each ingest protocol.
// They are written from the protocol documentation referenced by the handlers (ES bulk/doc API,
// Splunk HEC event format, Loki push API JSON + promtail protobuf, OTLP/HTTP protobuf, OpenTSDB
// /api/put, Prometheus remote write 0.1.0) and use only the wire types present in the module graph.

import (
	"encoding/hex"
	"fmt"
	"sort"
	"strconv"
	"strings"
	"time"

	gogoproto "github.com/gogo/protobuf/proto"
	"github.com/golang/snappy"
	"github.com/prometheus/prometheus/prompb"
	lokilog "github.com/siglens/siglens/pkg/integrations/loki/log"
	collogpb "go.opentelemetry.io/proto/otlp/collector/logs/v1"
	collmetricspb "go.opentelemetry.io/proto/otlp/collector/metrics/v1"
	coltracepb "go.opentelemetry.io/proto/otlp/collector/trace/v1"
	commonpb "go.opentelemetry.io/proto/otlp/common/v1"
	logpb "go.opentelemetry.io/proto/otlp/logs/v1"
	metricspb "go.opentelemetry.io/proto/otlp/metrics/v1"
	resourcepb "go.opentelemetry.io/proto/otlp/resource/v1"
	tracepb "go.opentelemetry.io/proto/otlp/trace/v1"
	"google.golang.org/protobuf/proto"
	"google.golang.org/protobuf/types/known/timestamppb"

	"verifharness/model"
)

// ---- logical log event ------------------------------------------------------------------------

// LogEvent is the protocol-independent event.
type LogEvent struct {
	Vid          int64         `json:"vid"`
	Fields       model.Node    `json:"fields"` // object: the attribute / leaf map
	Msg          string        `json:"msg"`    // body / line / message
	TimeNs       uint64        `json:"timeNs"` // 0 = the event carries no time
	Res          []model.Field `json:"res"`    // resource attributes (flat leaves)
	ScopeName    string        `json:"scopeName"`
	ScopeVersion string        `json:"scopeVersion"`
	ScopeAttrs   []model.Field `json:"scopeAttrs"`
	TraceID      string        `json:"traceId"` // hex, 32 chars or ""
	SpanID       string        `json:"spanId"`  // hex, 16 chars or ""
	ParentID     string        `json:"parentId"`
	SpanName     string        `json:"spanName"`
	Service      string        `json:"service"`
	DurNs        uint64        `json:"durNs"`
	SevText      string        `json:"sevText"`
	SevNum       int32         `json:"sevNum"`
	// ObservedNs is OTLP's observed_time_unix_nano (collector-side time, not the event time).
	ObservedNs uint64 `json:"observedNs"`
}

func (e *LogEvent) TimeMs() uint64 { return e.TimeNs / 1_000_000 }

func objNode(fields []model.Field) model.Node { return model.Node{Obj: fields, IsObj: true} }
func strLeaf(s string) model.Node             { return model.LeafNode(model.Str(s)) }
func intLeaf(i int64) model.Node              { return model.LeafNode(model.Int(i)) }

// ---- time units ---------------------------------------------------------------------------------

// carriedTime renders the event time in a unit and returns the JSON text to embed plus the number of
// milliseconds that this rendering carries (the oracle's expected stored time).
func carriedTime(ns uint64, unit string) (jsonText string, carriedMs uint64) {
	ms := ns / 1_000_000
	sec := ms / 1000
	switch unit {
	case "ms":
		return strconv.FormatUint(ms, 10), ms
	case "s":
		return strconv.FormatUint(sec, 10), sec * 1000
	case "ms_str":
		return `"` + strconv.FormatUint(ms, 10) + `"`, ms
	case "s_str":
		return `"` + strconv.FormatUint(sec, 10) + `"`, sec * 1000
	case "ns_str":
		return `"` + strconv.FormatUint(ns, 10) + `"`, ms
	case "rfc3339":
		return `"` + time.UnixMilli(int64(ms)).UTC().Format("2006-01-02T15:04:05.000Z") + `"`, ms
	case "rfc3339_off":
		loc := time.FixedZone("x", 5*3600+30*60)
		return `"` + time.UnixMilli(int64(ms)).In(loc).Format("2006-01-02T15:04:05.000-07:00") + `"`, ms
	case "rfc3339_s":
		return `"` + time.Unix(int64(sec), 0).UTC().Format(time.RFC3339) + `"`, sec * 1000
	case "sec_frac": // Splunk HEC: epoch seconds with millisecond fraction
		return fmt.Sprintf("%d.%03d", sec, ms%1000), ms
	case "sec_frac_str":
		return fmt.Sprintf(`"%d.%03d"`, sec, ms%1000), ms
	}
	panic("unknown unit " + unit)
}

// ---- ES bulk / single doc ---------------------------------------------------------------------------

// esDoc builds the JSON document used for the Elasticsearch protocols: the leaf map at the top
// level plus message, ids, resource and scope objects and the time under the configured key.
func esDocNode(e *LogEvent, hasIDs bool) model.Node {
	fields := append([]model.Field{}, e.Fields.Obj...)
	fields = append(fields, model.Field{Name: "vid", Node: intLeaf(e.Vid)})
	fields = append(fields, model.Field{Name: "message", Node: strLeaf(e.Msg)})
	if hasIDs {
		fields = append(fields, model.Field{Name: "trace_id", Node: strLeaf(e.TraceID)})
		fields = append(fields, model.Field{Name: "span_id", Node: strLeaf(e.SpanID)})
	}
	if len(e.Res) > 0 {
		fields = append(fields, model.Field{Name: "resource", Node: objNode(e.Res)})
	}
	sc := []model.Field{}
	if e.ScopeName != "" {
		sc = append(sc, model.Field{Name: "name", Node: strLeaf(e.ScopeName)})
	}
	if e.ScopeVersion != "" {
		sc = append(sc, model.Field{Name: "version", Node: strLeaf(e.ScopeVersion)})
	}
	if len(e.ScopeAttrs) > 0 {
		sc = append(sc, model.Field{Name: "attributes", Node: objNode(e.ScopeAttrs)})
	}
	if len(sc) > 0 {
		fields = append(fields, model.Field{Name: "scope", Node: objNode(sc)})
	}
	return objNode(fields)
}

func esDoc(e *LogEvent, unit string, hasIDs bool) (doc string, carriedMs uint64, hasTime bool) {
	body := esDocNode(e, hasIDs).JSONText()
	if e.TimeNs == 0 {
		return body, 0, false
	}
	tt, ms := carriedTime(e.TimeNs, unit)
	// time key last or first: position must not matter
	if e.Vid%2 == 0 {
		return `{"timestamp":` + tt + "," + body[1:], ms, true
	}
	return body[:len(body)-1] + `,"timestamp":` + tt + "}", ms, true
}

func esBulkBody(index string, doc string) []byte {
	return []byte(`{"index":{"_index":` + model.QuoteJSON(index) + `}}` + "\n" + doc + "\n")
}

// ---- Splunk HEC ------------------------------------------------------------------------------------

// hecBody: {"time":..,"host":..,"source":..,"sourcetype":..,"index":..,"event":{leaf map + message},
// "fields":{flat resource attributes}}.
func hecEventNode(e *LogEvent, hasIDs bool) model.Node {
	ev := append([]model.Field{}, e.Fields.Obj...)
	ev = append(ev, model.Field{Name: "vid", Node: intLeaf(e.Vid)})
	ev = append(ev, model.Field{Name: "message", Node: strLeaf(e.Msg)})
	if hasIDs {
		ev = append(ev, model.Field{Name: "trace_id", Node: strLeaf(e.TraceID)})
		ev = append(ev, model.Field{Name: "span_id", Node: strLeaf(e.SpanID)})
	}
	return objNode(ev)
}

func hecBody(e *LogEvent, index, unit string, hasIDs bool) (body []byte, carriedMs uint64, hasTime bool) {
	ev := hecEventNode(e, hasIDs).Obj
	top := []model.Field{}
	var sb strings.Builder
	sb.WriteByte('{')
	if e.TimeNs != 0 {
		tt, ms := carriedTime(e.TimeNs, unit)
		carriedMs, hasTime = ms, true
		sb.WriteString(`"time":` + tt + ",")
	}
	top = append(top, model.Field{Name: "host", Node: strLeaf("h-" + e.Service)})
	top = append(top, model.Field{Name: "sourcetype", Node: strLeaf("_json")})
	if index != "" {
		top = append(top, model.Field{Name: "index", Node: strLeaf(index)})
	}
	top = append(top, model.Field{Name: "event", Node: objNode(ev)})
	if len(e.Res) > 0 {
		top = append(top, model.Field{Name: "fields", Node: objNode(e.Res)})
	}
	t := objNode(top).JSONText()
	sb.WriteString(t[1:])
	return []byte(sb.String()), carriedMs, hasTime
}

// ---- Loki ------------------------------------------------------------------------------------------

// textOf renders a scalar leaf as the text a string-only protocol (Loki labels, metric tags) carries.
func textOf(v model.Val) string {
	switch v.K {
	case model.KStr:
		return v.S
	case model.KInt:
		return strconv.FormatInt(v.I, 10)
	case model.KFloat:
		return strconv.FormatFloat(v.F, 'g', -1, 64)
	case model.KBool:
		return strconv.FormatBool(v.B)
	}
	return ""
}

// lokiParts selects what Loki can express: labels = vid + flat resource attributes (as text),
// structured metadata = ids + top-level scalar leaves of the leaf map (as text), line = message.
func lokiParts(e *LogEvent, hasIDs bool) (labels [][2]string, meta [][2]string) {
	labels = append(labels, [2]string{"vid", strconv.FormatInt(e.Vid, 10)})
	for _, f := range e.Res {
		if f.Node.Leaf != nil {
			labels = append(labels, [2]string{f.Name, textOf(*f.Node.Leaf)})
		}
	}
	if hasIDs {
		meta = append(meta, [2]string{"trace_id", e.TraceID})
		meta = append(meta, [2]string{"span_id", e.SpanID})
	}
	for _, f := range e.Fields.Obj {
		if f.Node.Leaf != nil && f.Node.Leaf.K != model.KNull {
			meta = append(meta, [2]string{f.Name, textOf(*f.Node.Leaf)})
		}
	}
	return
}

func kvObj(kvs [][2]string) string {
	fs := make([]model.Field, 0, len(kvs))
	for _, kv := range kvs {
		fs = append(fs, model.Field{Name: kv[0], Node: strLeaf(kv[1])})
	}
	return objNode(fs).JSONText()
}

// lokiJSONBody: {"streams":[{"stream":{labels},"values":[["<ns>","<line>",{metadata}]]}]}
func lokiJSONBody(e *LogEvent, labels, meta [][2]string) []byte {
	var sb strings.Builder
	sb.WriteString(`{"streams":[{"stream":` + kvObj(labels) + `,"values":[[`)
	sb.WriteString(`"` + strconv.FormatUint(e.TimeNs, 10) + `",` + model.QuoteJSON(e.Msg))
	if len(meta) > 0 {
		sb.WriteString("," + kvObj(meta))
	}
	sb.WriteString(`]]}]}`)
	return []byte(sb.String())
}

// lokiLabelString renders labels the way promtail (Prometheus labels.Labels.String) does:
// {a="b", c="d"} with Go-quoted values.
func lokiLabelString(labels [][2]string) string {
	parts := make([]string, 0, len(labels))
	for _, kv := range labels {
		parts = append(parts, kv[0]+"="+strconv.Quote(kv[1]))
	}
	return "{" + strings.Join(parts, ", ") + "}"
}

func lokiProtoBody(e *LogEvent, labels [][2]string) ([]byte, error) {
	req := &lokilog.PushRequest{Streams: []*lokilog.StreamAdapter{{
		Labels: lokiLabelString(labels),
		Entries: []*lokilog.EntryAdapter{{
			Timestamp: &timestamppb.Timestamp{Seconds: int64(e.TimeNs / 1_000_000_000), Nanos: int32(e.TimeNs % 1_000_000_000)},
			Line:      e.Msg,
		}},
	}}}
	b, err := proto.Marshal(req)
	if err != nil {
		return nil, err
	}
	return snappy.Encode(nil, b), nil
}

// ---- OTLP --------------------------------------------------------------------------------------------

func anyValue(n model.Node) *commonpb.AnyValue {
	switch {
	case n.Leaf != nil:
		switch n.Leaf.K {
		case model.KStr:
			return &commonpb.AnyValue{Value: &commonpb.AnyValue_StringValue{StringValue: n.Leaf.S}}
		case model.KInt:
			return &commonpb.AnyValue{Value: &commonpb.AnyValue_IntValue{IntValue: n.Leaf.I}}
		case model.KFloat:
			return &commonpb.AnyValue{Value: &commonpb.AnyValue_DoubleValue{DoubleValue: n.Leaf.F}}
		case model.KBool:
			return &commonpb.AnyValue{Value: &commonpb.AnyValue_BoolValue{BoolValue: n.Leaf.B}}
		}
		return &commonpb.AnyValue{}
	case n.IsArr || n.Arr != nil:
		vals := make([]*commonpb.AnyValue, 0, len(n.Arr))
		for _, e := range n.Arr {
			vals = append(vals, anyValue(e))
		}
		return &commonpb.AnyValue{Value: &commonpb.AnyValue_ArrayValue{ArrayValue: &commonpb.ArrayValue{Values: vals}}}
	default:
		return &commonpb.AnyValue{Value: &commonpb.AnyValue_KvlistValue{KvlistValue: &commonpb.KeyValueList{Values: keyValues(n.Obj)}}}
	}
}

func keyValues(fs []model.Field) []*commonpb.KeyValue {
	out := make([]*commonpb.KeyValue, 0, len(fs))
	for _, f := range fs {
		out = append(out, &commonpb.KeyValue{Key: f.Name, Value: anyValue(f.Node)})
	}
	return out
}

func mustHex(s string) []byte {
	b, err := hex.DecodeString(s)
	if err != nil {
		panic(err)
	}
	return b
}

func otlpLogsBody(e *LogEvent, index string, hasIDs, noBody bool) ([]byte, error) {
	resAttrs := keyValues(e.Res)
	if index != "" {
		resAttrs = append(resAttrs, &commonpb.KeyValue{Key: "siglensIndexName", Value: anyValue(strLeaf(index))})
	}
	attrs := keyValues(e.Fields.Obj)
	attrs = append(attrs, &commonpb.KeyValue{Key: "vid", Value: anyValue(intLeaf(e.Vid))})
	rec := &logpb.LogRecord{
		TimeUnixNano:         e.TimeNs,
		ObservedTimeUnixNano: e.ObservedNs,
		SeverityNumber:       logpb.SeverityNumber(e.SevNum),
		SeverityText:         e.SevText,
		Body:                 anyValue(strLeaf(e.Msg)),
		Attributes:           attrs,
	}
	if noBody {
		rec.Body = nil
	}
	if hasIDs {
		rec.TraceId = mustHex(e.TraceID)
		rec.SpanId = mustHex(e.SpanID)
	}
	req := &collogpb.ExportLogsServiceRequest{ResourceLogs: []*logpb.ResourceLogs{{
		Resource: &resourcepb.Resource{Attributes: resAttrs},
		ScopeLogs: []*logpb.ScopeLogs{{
			Scope:      &commonpb.InstrumentationScope{Name: e.ScopeName, Version: e.ScopeVersion, Attributes: keyValues(e.ScopeAttrs)},
			LogRecords: []*logpb.LogRecord{rec},
		}},
	}}}
	return proto.Marshal(req)
}

func otlpTracesBody(e *LogEvent, statusCode int32, extra []model.Field, linkTrace, linkSpan string) ([]byte, error) {
	resAttrs := []*commonpb.KeyValue{{Key: "service.name", Value: anyValue(strLeaf(e.Service))}}
	resAttrs = append(resAttrs, keyValues(e.Res)...)
	attrs := keyValues(e.Fields.Obj)
	attrs = append(attrs, &commonpb.KeyValue{Key: "vid", Value: anyValue(intLeaf(e.Vid))})
	attrs = append(attrs, &commonpb.KeyValue{Key: "message", Value: anyValue(strLeaf(e.Msg))})
	span := &tracepb.Span{
		TraceId:           mustHex(e.TraceID),
		SpanId:            mustHex(e.SpanID),
		Name:              e.SpanName,
		Kind:              tracepb.Span_SPAN_KIND_SERVER,
		StartTimeUnixNano: e.TimeNs,
		EndTimeUnixNano:   e.TimeNs + e.DurNs,
		Attributes:        attrs,
		Status:            &tracepb.Status{Code: tracepb.Status_StatusCode(statusCode)},
	}
	if e.ParentID != "" {
		span.ParentSpanId = mustHex(e.ParentID)
	}
	span.Attributes = append(span.Attributes, keyValues(extra)...)
	if linkTrace != "" {
		span.Links = []*tracepb.Span_Link{{TraceId: mustHex(linkTrace), SpanId: mustHex(linkSpan),
			Attributes: []*commonpb.KeyValue{{Key: "lk", Value: anyValue(strLeaf("lv"))}}}}
	}
	req := &coltracepb.ExportTraceServiceRequest{ResourceSpans: []*tracepb.ResourceSpans{{
		Resource: &resourcepb.Resource{Attributes: resAttrs},
		ScopeSpans: []*tracepb.ScopeSpans{{
			Scope: &commonpb.InstrumentationScope{Name: e.ScopeName, Version: e.ScopeVersion, Attributes: keyValues(e.ScopeAttrs)},
			Spans: []*tracepb.Span{span},
		}},
	}}}
	return proto.Marshal(req)
}

// ---- metrics -----------------------------------------------------------------------------------------

// DataPoint is the protocol-independent metric sample.
type DataPoint struct {
	Name   string      `json:"name"`
	Labels [][2]string `json:"labels"` // sorted by key, unique keys
	TimeMs uint64      `json:"timeMs"`
	Value  float64     `json:"value"`
	// IsInt: the sample is an integer (OTLP as_int; OpenTSDB integer literal).
	IsInt bool `json:"isInt"`
}

func otsdbBody(dps []DataPoint, unit string) []byte {
	var sb strings.Builder
	sb.WriteByte('[')
	for i, d := range dps {
		if i > 0 {
			sb.WriteByte(',')
		}
		var tt string
		switch unit {
		case "s":
			tt = strconv.FormatUint(d.TimeMs/1000, 10)
		case "ms":
			tt = strconv.FormatUint(d.TimeMs, 10)
		case "s_str":
			tt = `"` + strconv.FormatUint(d.TimeMs/1000, 10) + `"`
		default:
			panic("unit " + unit)
		}
		var vt string
		if d.IsInt {
			vt = strconv.FormatInt(int64(d.Value), 10)
		} else {
			vt = model.FormatJSONFloat(d.Value)
		}
		sb.WriteString(`{"metric":` + model.QuoteJSON(d.Name) + `,"timestamp":` + tt + `,"value":` + vt + `,"tags":` + kvObj(d.Labels) + `}`)
	}
	sb.WriteByte(']')
	return []byte(sb.String())
}

func promWriteBody(dps []DataPoint) ([]byte, error) {
	req := &prompb.WriteRequest{}
	for _, d := range dps {
		ls := []prompb.Label{{Name: "__name__", Value: d.Name}}
		for _, kv := range d.Labels {
			ls = append(ls, prompb.Label{Name: kv[0], Value: kv[1]})
		}
		sort.Slice(ls, func(i, j int) bool { return ls[i].Name < ls[j].Name })
		req.Timeseries = append(req.Timeseries, prompb.TimeSeries{
			Labels:  ls,
			Samples: []prompb.Sample{{Value: d.Value, Timestamp: int64(d.TimeMs)}},
		})
	}
	b, err := gogoproto.Marshal(req)
	if err != nil {
		return nil, err
	}
	return snappy.Encode(nil, b), nil
}

// otlpMetricsBody: kind = "gauge" | "sum"; label values travel as string attributes.
func otlpMetricsBody(dps []DataPoint, kind string, res []model.Field) ([]byte, error) {
	var ms []*metricspb.Metric
	for _, d := range dps {
		attrs := make([]*commonpb.KeyValue, 0, len(d.Labels))
		for _, kv := range d.Labels {
			attrs = append(attrs, &commonpb.KeyValue{Key: kv[0], Value: anyValue(strLeaf(kv[1]))})
		}
		ndp := &metricspb.NumberDataPoint{Attributes: attrs, TimeUnixNano: d.TimeMs * 1_000_000}
		if d.IsInt {
			ndp.Value = &metricspb.NumberDataPoint_AsInt{AsInt: int64(d.Value)}
		} else {
			ndp.Value = &metricspb.NumberDataPoint_AsDouble{AsDouble: d.Value}
		}
		m := &metricspb.Metric{Name: d.Name}
		if kind == "sum" {
			m.Data = &metricspb.Metric_Sum{Sum: &metricspb.Sum{DataPoints: []*metricspb.NumberDataPoint{ndp},
				AggregationTemporality: metricspb.AggregationTemporality_AGGREGATION_TEMPORALITY_CUMULATIVE, IsMonotonic: true}}
		} else {
			m.Data = &metricspb.Metric_Gauge{Gauge: &metricspb.Gauge{DataPoints: []*metricspb.NumberDataPoint{ndp}}}
		}
		ms = append(ms, m)
	}
	req := &collmetricspb.ExportMetricsServiceRequest{ResourceMetrics: []*metricspb.ResourceMetrics{{
		Resource:     &resourcepb.Resource{Attributes: keyValues(res)},
		ScopeMetrics: []*metricspb.ScopeMetrics{{Metrics: ms}},
	}}}
	return proto.Marshal(req)
}
