package c16

// C16 — all ingest protocols preserve event content and time.

import (
	"encoding/json"
	"errors"
	"fmt"
	"math"
	"regexp"
	"sort"
	"strconv"
	"strings"
	"testing"
	"time"

	"verifharness/model"
	"verifharness/pt"
	"verifharness/sut"
)

// known-finding ids (entries in /verif/known_findings.jsonl)
const (
	kSpanAttrBase  = "C16-span-attr-overwrites-base"
	kSpanResScope  = "C16-span-resource-scope-dropped"
	kMetricNoLabel = "C16-metric-without-labels-lost"
	kMetricEscape  = "C16-metric-label-escape-chars"
)

func post(c *sut.Client, name string, body []byte, args map[string]string) (*sut.HTTPResult, error) {
	var hr sut.HTTPResult
	err := c.Call(&sut.Req{Op: "c16_http", Name: name, Body: body, Args: args}, &hr)
	return &hr, err
}

func workerErr(c *sut.Client, what string, err error) error {
	if errors.Is(err, sut.ErrWorkerDied) {
		return fmt.Errorf("%s: server process died: %s", what, pt.CrashDetail(c))
	}
	if errors.Is(err, sut.ErrTimeout) {
		return pt.Inconclusivef("%s: timeout", what)
	}
	var oe *sut.OpError
	if errors.As(err, &oe) && strings.HasPrefix(oe.Msg, "PANIC") {
		msg := oe.Msg
		if len(msg) > 1500 {
			msg = msg[:1500]
		}
		return fmt.Errorf("%s: handler panicked (the request and every event in it is lost): %s", what, msg)
	}
	return pt.Inconclusivef("%s: %v", what, err)
}

// ---- expectations ---------------------------------------------------------------------------------

type expLeaf struct {
	Name string    // column name the handler's documented layout gives
	Path string    // flattened path inside the logical event (the "ends with" rule)
	V    model.Val // sent value
	Text bool      // the protocol carries text only: compare the text
	// Enum: the value is an enumerator; its spelling is the handler's choice, so the stored text only
	// has to contain the enumerator's short name (case-insensitive).
	Enum bool
	Part string // fields | msg | id | resource | scope | base
	// FieldPath is set for leaves of the logical leaf map (used for the cross-protocol comparison).
	FieldPath string
}

type protoExp struct {
	Proto     string
	Index     string
	VidCol    string
	VidText   bool
	Vid       int64
	Leaves    []expLeaf
	HasTime   bool
	CarriedMs uint64
	T0, T1    uint64 // wall-clock window of the POST (epoch ms), for events without a time
	Sent      string // short rendering of what was sent, for messages
}

func flatLeaves(n model.Node, prefix, part string, text bool, fieldPaths bool) []expLeaf {
	flat, _ := model.Flatten(n)
	out := make([]expLeaf, 0, len(flat))
	for _, name := range flat.Names() {
		l := expLeaf{Name: prefix + name, Path: name, V: flat[name], Text: text, Part: part}
		if fieldPaths {
			l.FieldPath = name
		}
		out = append(out, l)
	}
	return out
}

func strExp(name, path, part, v string) expLeaf {
	return expLeaf{Name: name, Path: path, V: model.Str(v), Part: part}
}

// ---- value comparison --------------------------------------------------------------------------------

// isBigInt: an integer beyond ±2^53. A protocol handler that decodes JSON numbers into float64 and
// re-marshals them (HEC) cannot carry it: even when the float64 is exact its shortest decimal
// spelling ("4611686018427388000" for 2^62) is another integer.
func isBigInt(v model.Val) bool {
	return v.K == model.KInt && (v.I > 1<<53 || v.I < -(1<<53))
}

// numText is the canonical text of a number.
func numText(f float64) string { return strconv.FormatFloat(f, 'g', -1, 64) }

// tvText renders a returned value as the text a string-only protocol would have carried.
func tvText(t sut.TV) (string, bool) {
	switch t.Kind() {
	case 's':
		return t.Raw(), true
	case 'i', 'u':
		return t.Raw(), true
	case 'f':
		f, ok := t.Float()
		return numText(f), ok
	case 'b':
		return t.Raw(), true
	}
	return "", false
}

// valueEq: strings and booleans exactly; numbers by value (a JSON re-marshalling protocol may turn 2.0
// into 2 — the statement speaks of values, not of number spellings).
func valueEq(want model.Val, got sut.TV, text bool) bool {
	if text {
		s, ok := tvText(got)
		return ok && s == textOf(want)
	}
	switch want.K {
	case model.KStr:
		s, ok := got.Str()
		return ok && s == want.S
	case model.KBool:
		b, ok := got.Bool()
		return ok && b == want.B
	case model.KInt:
		switch got.Kind() {
		case 'i', 'u':
			gi, ok := got.Int()
			return ok && gi == want.I
		case 'f':
			gf, _ := got.Float()
			return model.ExactFloat(want.I) && gf == float64(want.I)
		}
	case model.KFloat:
		switch got.Kind() {
		case 'f':
			gf, ok := got.Float()
			return ok && gf == want.F
		case 'i', 'u':
			// A JSON protocol carries a float as a decimal text; "-7.421872911498884e+17" and
			// "-742187291149888400" are the same decimal, so an integer column value whose nearest
			// float64 is the sent one holds the sent value.
			gf, ok := got.Float()
			return ok && gf == want.F
		}
	}
	return false
}

// lookup applies the naming rule: the documented column name if present, otherwise any column that
// ends with the leaf's flattened path and is not the documented column of another leaf.
func lookup(r sut.Record, l expLeaf, claimed map[string]bool) (cols []string) {
	if tv, ok := r[l.Name]; ok && !tv.IsNil() {
		return []string{l.Name}
	}
	for name, tv := range r {
		if tv.IsNil() || claimed[name] {
			continue
		}
		if name == l.Path || strings.HasSuffix(name, "."+l.Path) {
			cols = append(cols, name)
		}
	}
	sort.Strings(cols)
	return cols
}

func recText(r sut.Record) string {
	keys := make([]string, 0, len(r))
	for k, v := range r {
		if !v.IsNil() {
			keys = append(keys, k)
		}
	}
	sort.Strings(keys)
	var sb strings.Builder
	for _, k := range keys {
		v := string(r[k])
		if len(v) > 200 {
			v = v[:200] + "…"
		}
		fmt.Fprintf(&sb, "%s=%q ", k, v)
	}
	return sb.String()
}

func findRecord(c *sut.Client, pe *protoExp) (sut.Record, error) {
	sr, err := c.Search(sut.Query{Index: pe.Index, Text: "*", Start: 1, End: 4_102_444_800_000, Size: 100, IncludeNulls: true})
	if err != nil {
		return nil, workerErr(c, pe.Proto+" search", err)
	}
	if sr.Err != "" {
		return nil, fmt.Errorf("%s: match-all on index %q failed: %s", pe.Proto, pe.Index, sr.Err)
	}
	want := strconv.FormatInt(pe.Vid, 10)
	var hit sut.Record
	for _, r := range sr.Records {
		tv, ok := r[pe.VidCol]
		if !ok {
			continue
		}
		if s, ok := tvText(tv); ok && s == want {
			if hit != nil {
				return nil, fmt.Errorf("%s: event vid=%d stored more than once in index %q", pe.Proto, pe.Vid, pe.Index)
			}
			hit = r
		}
	}
	if hit == nil {
		var all []string
		for _, r := range sr.Records {
			all = append(all, recText(r))
		}
		return nil, fmt.Errorf("%s: accepted event vid=%d is not in index %q (column %s); %d records there: %v\n  sent: %s",
			pe.Proto, pe.Vid, pe.Index, pe.VidCol, len(sr.Records), all, pe.Sent)
	}
	return hit, nil
}

// checkRecord is oracle (1) for one protocol. skip says which leaves are excluded (known findings),
// lossy which are exempt from exact comparison (int64 beyond 2^53 through a float64 JSON decoder).
func checkRecord(pe *protoExp, r sut.Record, o *pt.Obs, skip func(l expLeaf) bool, lossy func(l expLeaf) bool) error {
	claimed := map[string]bool{}
	for _, l := range pe.Leaves {
		claimed[l.Name] = true
	}
	for _, l := range pe.Leaves {
		if skip != nil && skip(l) {
			continue
		}
		cols := lookup(r, l, claimed)
		if len(cols) == 0 {
			return fmt.Errorf("%s: %s leaf %q (sent %s) has no column ending with its path (documented column %q)\n  sent: %s\n  got:  %s",
				pe.Proto, l.Part, l.Path, l.V, l.Name, pe.Sent, recText(r))
		}
		okAny := false
		for _, col := range cols {
			got := r[col]
			if lossy != nil && lossy(l) {
				// value must still be the nearest float64
				gf, ok := got.Float()
				if ok && gf == float64(l.V.I) {
					okAny = true
				}
				continue
			}
			if l.Enum {
				if gs, ok := got.Str(); ok && strings.Contains(strings.ToUpper(gs), strings.ToUpper(l.V.S)) {
					okAny = true
				}
				continue
			}
			if valueEq(l.V, got, l.Text) {
				okAny = true
			}
		}
		if !okAny {
			return fmt.Errorf("%s: %s leaf %q sent %s but column %v holds %v\n  sent: %s\n  got:  %s",
				pe.Proto, l.Part, l.Path, l.V, cols, r[cols[0]], pe.Sent, recText(r))
		}
		o.Count("leaves_compared", 1)
	}
	// time
	ts, ok := r["timestamp"]
	if !ok || ts.IsNil() {
		return fmt.Errorf("%s: stored record has no timestamp column: %s", pe.Proto, recText(r))
	}
	tf, ok := ts.Float()
	if !ok {
		return fmt.Errorf("%s: non-numeric timestamp %q", pe.Proto, ts)
	}
	stored := uint64(tf)
	if pe.HasTime {
		if stored != pe.CarriedMs {
			return fmt.Errorf("%s: event carried time %d ms but is stored with timestamp %d (difference %d ms; the request was posted at about %d)\n  sent: %s\n  got:  %s",
				pe.Proto, pe.CarriedMs, stored, int64(stored)-int64(pe.CarriedMs), pe.T0, pe.Sent, recText(r))
		}
	} else {
		const slack = 5000
		if stored+slack < pe.T0 || stored > pe.T1+slack {
			return fmt.Errorf("%s: event carried no time; stored timestamp %d is not the arrival time (posted between %d and %d)\n  sent: %s",
				pe.Proto, stored, pe.T0, pe.T1, pe.Sent)
		}
	}
	return nil
}

func nowMs() uint64 { return uint64(time.Now().UnixMilli()) }

func short(b []byte) string {
	if len(b) > 1200 {
		return string(b[:1200]) + "…"
	}
	return string(b)
}

var pbHdr = map[string]string{"hdr:Content-Type": "application/x-protobuf"}
var jsonHdr = map[string]string{"hdr:Content-Type": "application/json"}

// sendOK posts and requires the 200 the handlers document for an accepted request.
func sendOK(c *sut.Client, pe *protoExp, handler string, body []byte, args map[string]string) error {
	pe.T0 = nowMs()
	hr, err := post(c, handler, body, args)
	pe.T1 = nowMs()
	if err != nil {
		return workerErr(c, pe.Proto+" post", err)
	}
	if hr.Status != 200 {
		return fmt.Errorf("%s: valid request rejected with status %d body %q\n  sent: %s", pe.Proto, hr.Status, short(hr.Body), pe.Sent)
	}
	return nil
}

func hasNested(n model.Node) bool {
	for _, f := range n.Obj {
		if f.Node.Leaf == nil {
			return true
		}
	}
	return false
}

func hasNonString(n model.Node) bool {
	flat, _ := model.Flatten(n)
	for _, v := range flat {
		if v.K != model.KStr {
			return true
		}
	}
	return false
}

func classifyLog(c *LogCase, o *pt.Obs) {
	e := &c.Ev
	flat, _ := model.Flatten(e.Fields)
	nested, arr := false, false
	for _, f := range e.Fields.Obj {
		if f.Node.Leaf == nil {
			nested = true
			if f.Node.IsArr || f.Node.Arr != nil {
				arr = true
			}
		}
	}
	if nested {
		o.Class("nested_attr")
	}
	if arr {
		o.Class("array_attr")
	}
	for name, v := range flat {
		switch v.K {
		case model.KInt:
			o.Class("leaf_int")
			if isBigInt(v) {
				o.Class("leaf_int_beyond_2^53")
			}
		case model.KFloat:
			o.Class("leaf_float")
			if v.F == math.Trunc(v.F) {
				o.Class("leaf_float_integral")
				if math.Abs(v.F) >= 1<<63 && math.Abs(v.F) < 1e21 {
					o.Class("leaf_float_integral_beyond_int64")
				}
			}
		case model.KBool:
			o.Class("leaf_bool")
		case model.KStr:
			if v.S == "" {
				o.Class("leaf_empty_string")
			}
			if strings.ContainsAny(v.S, "\"\\\n\t") {
				o.Class("leaf_string_escapes")
			}
		}
		if strings.Count(name, ".") >= 2 {
			o.Class("depth>=3")
		}
	}
	for _, f := range e.Fields.Obj {
		if strings.Contains(f.Name, ".") {
			o.Class("dotted_attr_key")
		}
	}
	if e.TimeNs == 0 {
		o.Class("no_time")
	} else {
		o.Class("explicit_time")
		if e.TimeNs%1_000_000 != 0 {
			o.Class("time_sub_ms")
		}
		o.Class("bulk_unit_" + c.BulkUnit)
		o.Class("doc_unit_" + c.DocUnit)
		o.Class("hec_unit_" + c.HecUnit)
	}
	if len(e.Res) > 0 {
		o.Class("resource_attrs")
	}
	if e.ScopeName != "" {
		o.Class("scope")
	}
	if c.LogHasIDs {
		o.Class("log_ids")
	}
	if len(c.SpanExtra) > 0 {
		o.Class("span_attr_equals_base_column")
	}
	if c.SpanLink {
		o.Class("span_link")
	}
	if c.HecIndex == "" {
		o.Class("hec_default_index")
	}
	if c.OtlpIndex != "" {
		o.Class("otlp_custom_index")
	}
	if c.NoBody {
		o.Class("otlp_log_without_body")
	}
	for _, f := range e.Res {
		if f.Node.Leaf != nil && f.Node.Leaf.K == model.KStr && strings.ContainsAny(f.Node.Leaf.S, "=,\"\\") {
			o.Class("loki_label_value_special")
		}
	}
	// non-trivial: nested attribute, a non-string leaf, explicit time >= 1 h away from now
	if nested && hasNonString(e.Fields) && e.TimeNs != 0 {
		d := int64(e.TimeMs()) - int64(nowMs())
		if d < 0 {
			d = -d
		}
		if d >= 3_600_000 {
			o.NonTrivial()
		}
	}
}

var spanStatusNames = []string{"UNSET", "OK", "ERROR"}

func checkLogCase(c *LogCase, o *pt.Obs) error {
	e := &c.Ev
	if _, dup := model.Flatten(e.Fields); dup {
		return pt.Inconclusivef("generator produced colliding flattened names")
	}
	classifyLog(c, o)
	sentEv, _ := json.Marshal(c)
	sent := short(sentEv)

	knownOnce := map[string]bool{}
	known := func(id string) {
		if !knownOnce[id] {
			knownOnce[id] = true
			o.Known(id)
		}
	}
	return pt.WithWorker(sut.Options{}, func(cl *sut.Client) error {
		var exps []*protoExp
		bigLossyHEC := func(l expLeaf) bool { return isBigInt(l.V) }

		// ---- ES bulk ----
		{
			doc, ms, has := esDoc(e, c.BulkUnit, c.LogHasIDs)
			pe := &protoExp{Proto: "es_bulk", Index: "c16-bulk", VidCol: "vid", Vid: e.Vid, HasTime: has, CarriedMs: ms, Sent: doc}
			pe.Leaves = esLeaves(e, c.LogHasIDs)
			if err := sendOK(cl, pe, "es_bulk", esBulkBody(pe.Index, doc), nil); err != nil {
				return err
			}
			exps = append(exps, pe)
		}
		// ---- ES single document ----
		{
			doc, ms, has := esDoc(e, c.DocUnit, c.LogHasIDs)
			pe := &protoExp{Proto: "es_doc", Index: "c16-doc", VidCol: "vid", Vid: e.Vid, HasTime: has, CarriedMs: ms, Sent: doc}
			pe.Leaves = esLeaves(e, c.LogHasIDs)
			if err := sendOK(cl, pe, "es_doc", []byte(doc), map[string]string{"uv:indexName": pe.Index}); err != nil {
				return err
			}
			exps = append(exps, pe)
		}
		// ---- Splunk HEC ----
		{
			body, ms, has := hecBody(e, c.HecIndex, c.HecUnit, c.LogHasIDs)
			idx := c.HecIndex
			if idx == "" {
				idx = "default"
			}
			pe := &protoExp{Proto: "splunk_hec", Index: idx, VidCol: "event.vid", Vid: e.Vid, HasTime: has, CarriedMs: ms, Sent: string(body)}
			for _, l := range flatLeaves(hecEventNode(e, c.LogHasIDs), "event.", "fields", false, false) {
				if _, isField := fieldFlat(e)[l.Path]; isField {
					l.FieldPath = l.Path
				} else {
					l.Part = "base"
				}
				pe.Leaves = append(pe.Leaves, l)
			}
			pe.Leaves = append(pe.Leaves, flatLeaves(objNode(e.Res), "fields.", "resource", false, false)...)
			pe.Leaves = append(pe.Leaves, strExp("host", "host", "base", "h-"+e.Service), strExp("sourcetype", "sourcetype", "base", "_json"))
			if err := sendOK(cl, pe, "hec", body, nil); err != nil {
				return err
			}
			exps = append(exps, pe)
		}
		// ---- Loki (a Loki entry always carries a time) ----
		if e.TimeNs != 0 {
			labels, meta := lokiParts(e, c.LogHasIDs)
			body := lokiJSONBody(e, labels, meta)
			pe := &protoExp{Proto: "loki_json", Index: "loki-index", VidCol: "vid", VidText: true, Vid: e.Vid, HasTime: true, CarriedMs: e.TimeMs(), Sent: string(body)}
			pe.Leaves = lokiLeaves(e, labels, meta)
			if err := sendOK(cl, pe, "loki", body, jsonHdr); err != nil {
				return err
			}
			exps = append(exps, pe)

			e2 := *e
			e2.Vid = e.Vid + 1_000_000
			labels2, _ := lokiParts(&e2, false)
			pb, err := lokiProtoBody(&e2, labels2)
			if err != nil {
				return pt.Inconclusivef("loki proto encode: %v", err)
			}
			pe2 := &protoExp{Proto: "loki_protobuf", Index: "loki-index", VidCol: "vid", VidText: true, Vid: e2.Vid, HasTime: true, CarriedMs: e.TimeMs(),
				Sent: fmt.Sprintf("labels=%s line=%q ts=%d", lokiLabelString(labels2), e.Msg, e.TimeNs)}
			pe2.Leaves = lokiLeaves(&e2, labels2, nil)
			if err := sendOK(cl, pe2, "loki", pb, pbHdr); err != nil {
				return err
			}
			exps = append(exps, pe2)
		}
		// ---- OTLP logs ----
		{
			body, err := otlpLogsBody(e, c.OtlpIndex, c.LogHasIDs, c.NoBody)
			if err != nil {
				return pt.Inconclusivef("otlp logs encode: %v", err)
			}
			idx := c.OtlpIndex
			if idx == "" {
				idx = "otel-logs"
			}
			pe := &protoExp{Proto: "otlp_logs", Index: idx, VidCol: "attributes.vid", Vid: e.Vid, HasTime: e.TimeNs != 0, CarriedMs: e.TimeMs(), Sent: sent}
			pe.Leaves = flatLeaves(e.Fields, "attributes.", "fields", false, true)
			pe.Leaves = append(pe.Leaves, flatLeaves(objNode(e.Res), "resource.attributes.", "resource", false, false)...)
			pe.Leaves = append(pe.Leaves, flatLeaves(objNode(e.ScopeAttrs), "scope.attributes.", "scope", false, false)...)
			pe.Leaves = append(pe.Leaves, strExp("scope.name", "scope.name", "scope", e.ScopeName), strExp("scope.version", "scope.version", "scope", e.ScopeVersion),
				strExp("severity_text", "severity_text", "base", e.SevText),
				expLeaf{Name: "severity_number", Path: "severity_number", V: model.Int(int64(e.SevNum)), Part: "base"})
			if !c.NoBody {
				pe.Leaves = append(pe.Leaves, strExp("body", "body", "msg", e.Msg))
			}
			if c.LogHasIDs {
				pe.Leaves = append(pe.Leaves, strExp("trace_id", "trace_id", "id", e.TraceID), strExp("span_id", "span_id", "id", e.SpanID))
			}
			if err := sendOK(cl, pe, "otlp_logs", body, pbHdr); err != nil {
				return err
			}
			exps = append(exps, pe)
		}
		// ---- OTLP traces ----
		var spanExp *protoExp
		{
			body, err := otlpTracesBody(e, c.Status, c.SpanExtra, linkOr(c.SpanLink, c.LinkTrace), c.LinkSpan)
			if err != nil {
				return pt.Inconclusivef("otlp traces encode: %v", err)
			}
			pe := &protoExp{Proto: "otlp_traces", Index: "traces", VidCol: "vid", Vid: e.Vid, HasTime: e.TimeNs != 0, CarriedMs: e.TimeMs(), Sent: sent}
			pe.Leaves = flatLeaves(e.Fields, "", "fields", false, true)
			pe.Leaves = append(pe.Leaves, strExp("message", "message", "msg", e.Msg),
				strExp("trace_id", "trace_id", "id", e.TraceID), strExp("span_id", "span_id", "id", e.SpanID),
				strExp("parent_span_id", "parent_span_id", "id", e.ParentID),
				strExp("name", "name", "base", e.SpanName), strExp("service", "service", "base", e.Service),
				expLeaf{Name: "kind", Path: "kind", V: model.Str("SERVER"), Part: "base", Enum: true},
				expLeaf{Name: "status", Path: "status", V: model.Str(spanStatusNames[c.Status]), Part: "base", Enum: true},
				expLeaf{Name: "start_time", Path: "start_time", V: model.Int(int64(e.TimeNs)), Part: "base"},
				expLeaf{Name: "end_time", Path: "end_time", V: model.Int(int64(e.TimeNs + e.DurNs)), Part: "base"},
				expLeaf{Name: "duration", Path: "duration", V: model.Int(int64(e.DurNs)), Part: "base"})
			for _, f := range c.SpanExtra {
				pe.Leaves = append(pe.Leaves, expLeaf{Name: "attributes." + f.Name, Path: f.Name, V: *f.Node.Leaf, Part: "extra"})
			}
			pe.Leaves = append(pe.Leaves, flatLeaves(objNode(e.Res), "resource.", "resource", false, false)...)
			pe.Leaves = append(pe.Leaves, flatLeaves(objNode(e.ScopeAttrs), "scope.attributes.", "scope", false, false)...)
			if e.ScopeName != "" {
				pe.Leaves = append(pe.Leaves, strExp("scope.name", "scope.name", "scope", e.ScopeName))
				if e.ScopeVersion != "" {
					pe.Leaves = append(pe.Leaves, strExp("scope.version", "scope.version", "scope", e.ScopeVersion))
				}
			}
			if err := sendOK(cl, pe, "otlp_traces", body, pbHdr); err != nil {
				return err
			}
			exps = append(exps, pe)
			spanExp = pe
		}

		if err := cl.Flush(); err != nil {
			return workerErr(cl, "flush", err)
		}

		// ---- oracle (1): per protocol ----
		got := map[string]sut.Record{}
		for _, pe := range exps {
			r, err := findRecord(cl, pe)
			if err != nil {
				return err
			}
			got[pe.Proto] = r
			var skip, lossy func(l expLeaf) bool
			switch pe.Proto {
			case "splunk_hec":
				lossy = bigLossyHEC
			case "otlp_traces":
				extraKeys := map[string]bool{}
				for _, f := range c.SpanExtra {
					extraKeys[f.Name] = true
				}
				knownBase := pt.KnownFindingOpen(kSpanAttrBase)
				knownRes := pt.KnownFindingOpen(kSpanResScope)
				skip = func(l expLeaf) bool {
					// known finding: an attribute named like a span base column and that column share one cell
					if knownBase && len(extraKeys) > 0 && (l.Part == "extra" || ((l.Part == "base" || l.Part == "id") && extraKeys[l.Name])) {
						known(kSpanAttrBase)
						return true
					}
					// known finding: resource attributes other than service.name and the scope are not stored with a span
					if knownRes && (l.Part == "resource" || l.Part == "scope") {
						known(kSpanResScope)
						return true
					}
					return false
				}
			}
			if err := checkRecord(pe, r, o, skip, lossy); err != nil {
				return err
			}
			o.Count("protocol_records_checked", 1)
		}
		// span link ids must be stored as the hex ids that were sent
		if c.SpanLink {
			if err := checkLinks(got["otlp_traces"], c, spanExp); err != nil {
				return err
			}
		}

		// ---- oracle (2): cross-protocol ----
		return crossCheck(c, exps, got, o)
	})
}

func linkOr(on bool, s string) string {
	if on {
		return s
	}
	return ""
}

func fieldFlat(e *LogEvent) model.Flat {
	f, _ := model.Flatten(e.Fields)
	return f
}

func esLeaves(e *LogEvent, hasIDs bool) []expLeaf {
	ff := fieldFlat(e)
	var out []expLeaf
	for _, l := range flatLeaves(esDocNode(e, hasIDs), "", "fields", false, false) {
		switch {
		case l.Path == "vid":
			l.Part = "base"
		case l.Path == "message":
			l.Part = "msg"
		case l.Path == "trace_id" || l.Path == "span_id":
			l.Part = "id"
		case strings.HasPrefix(l.Path, "resource."):
			l.Part = "resource"
		case strings.HasPrefix(l.Path, "scope."):
			l.Part = "scope"
		default:
			if _, ok := ff[l.Path]; ok {
				l.FieldPath = l.Path
			}
		}
		out = append(out, l)
	}
	return out
}

func lokiLeaves(e *LogEvent, labels, meta [][2]string) []expLeaf {
	ff := fieldFlat(e)
	var out []expLeaf
	for _, kv := range labels {
		out = append(out, expLeaf{Name: kv[0], Path: kv[0], V: model.Str(kv[1]), Text: true, Part: "resource"})
	}
	for _, kv := range meta {
		l := expLeaf{Name: kv[0], Path: kv[0], V: model.Str(kv[1]), Text: true, Part: "fields"}
		if _, ok := ff[kv[0]]; ok {
			l.FieldPath = kv[0]
		} else {
			l.Part = "id"
		}
		out = append(out, l)
	}
	out = append(out, expLeaf{Name: "line", Path: "line", V: model.Str(e.Msg), Text: true, Part: "msg"})
	return out
}

func checkLinks(r sut.Record, c *LogCase, pe *protoExp) error {
	tv, ok := r["links"]
	s, isStr := tv.Str()
	if !ok || !isStr {
		return fmt.Errorf("otlp_traces: span carried a link but column links is %q\n  got: %s", tv, recText(r))
	}
	var links []map[string]interface{}
	if err := json.Unmarshal([]byte(s), &links); err != nil || len(links) != 1 {
		return fmt.Errorf("otlp_traces: span carried one link, stored links column is %q (err %v)", s, err)
	}
	if fmt.Sprint(links[0]["trace_id"]) != c.LinkTrace || fmt.Sprint(links[0]["span_id"]) != c.LinkSpan {
		return fmt.Errorf("otlp_traces: span link ids sent trace_id=%s span_id=%s (hex), stored links=%q", c.LinkTrace, c.LinkSpan, s)
	}
	return nil
}

// canon is the protocol-independent rendering of a stored value used by the cross-protocol oracle.
func canon(t sut.TV) string {
	switch t.Kind() {
	case 'i', 'u':
		if i, ok := t.Int(); ok && i <= 1<<53 && i >= -(1<<53) {
			return "n:" + t.Raw()
		}
		// beyond 2^53 a float-typed and an integer-typed column can only be compared as float64
		// (exact integers are compared exactly by the per-protocol oracle)
		f, _ := t.Float()
		return "n:" + numText(f)
	case 'f':
		f, _ := t.Float()
		if math.Abs(f) > 1<<53 {
			return "n:" + numText(f)
		}
		if f == math.Trunc(f) && math.Abs(f) < 1<<63 {
			if i := int64(f); model.ExactFloat(i) && float64(i) == f {
				return "n:" + strconv.FormatInt(i, 10)
			}
		}
		return "n:" + numText(f)
	}
	return string(t)
}

func crossCheck(c *LogCase, exps []*protoExp, got map[string]sut.Record, o *pt.Obs) error {
	type seen struct {
		proto string
		col   string
		tv    sut.TV
		text  bool
	}
	byPath := map[string][]seen{}
	for _, pe := range exps {
		r := got[pe.Proto]
		claimed := map[string]bool{}
		for _, l := range pe.Leaves {
			claimed[l.Name] = true
		}
		for _, l := range pe.Leaves {
			if l.FieldPath == "" {
				continue
			}
			if pe.Proto == "splunk_hec" && isBigInt(l.V) {
				continue // float64 JSON decoder: labelled class, exempt
			}
			cols := lookup(r, l, claimed)
			if len(cols) == 0 {
				continue
			}
			byPath[l.FieldPath] = append(byPath[l.FieldPath], seen{pe.Proto, cols[0], r[cols[0]], l.Text})
		}
	}
	for _, path := range pt.SortedKeys(byPath) {
		ss := byPath[path]
		for i := 1; i < len(ss); i++ {
			a, b := ss[0], ss[i]
			var same bool
			if a.text || b.text {
				ta, _ := tvText(a.tv)
				tb, _ := tvText(b.tv)
				same = ta == tb
			} else {
				same = canon(a.tv) == canon(b.tv)
			}
			if !same {
				return fmt.Errorf("cross-protocol: leaf %q is stored as %v by %s (column %s) but as %v by %s (column %s)", path, a.tv, a.proto, a.col, b.tv, b.proto, b.col)
			}
			o.Count("cross_pairs_compared", 1)
		}
	}
	// equal carried time ⇒ equal stored time
	for i := 0; i < len(exps); i++ {
		for j := i + 1; j < len(exps); j++ {
			a, b := exps[i], exps[j]
			if !a.HasTime || !b.HasTime || a.CarriedMs != b.CarriedMs {
				continue
			}
			ta, _ := got[a.Proto]["timestamp"].Float()
			tb, _ := got[b.Proto]["timestamp"].Float()
			if ta != tb {
				return fmt.Errorf("cross-protocol: the same event time %d ms is stored as %v by %s and %v by %s", a.CarriedMs, ta, a.Proto, tb, b.Proto)
			}
			o.Count("cross_time_pairs_compared", 1)
		}
	}
	return nil
}

func TestC16Logs(t *testing.T) {
	pt.RunProp(t, "C16", genLogCase, checkLogCase)
}

// ---- metrics -----------------------------------------------------------------------------------------

var nonPromChar = regexp.MustCompile(`[^a-zA-Z0-9_]`)

func promName(s string) string { return nonPromChar.ReplaceAllString(s, "_") }

type metricExp struct {
	Proto  string
	Name   string // stored (query) name
	Labels map[string]string
	Sec    uint64
	Value  float64
	Sent   string
}

func checkMetricCase(c *MetricCase, o *pt.Obs) error {
	sentCase, _ := json.Marshal(c)
	nontrivial := false
	for _, d := range c.Points {
		if len(d.Labels) == 0 {
			o.Class("no_labels")
		} else {
			o.Class(fmt.Sprintf("labels_%d", len(d.Labels)))
		}
		if d.IsInt {
			o.Class("value_int")
		} else if d.Value != math.Trunc(d.Value) {
			o.Class("value_fraction")
		}
		if d.Value < 0 {
			o.Class("value_negative")
		}
		if d.TimeMs%1000 != 0 {
			o.Class("time_sub_second")
		}
		if strings.ContainsAny(d.Name, ".-") {
			o.Class("name_with_dot_or_dash")
		}
		for _, kv := range d.Labels {
			if strings.ContainsAny(kv[1], "\"\\") {
				o.Class("label_value_json_escape")
			}
			if strings.Contains(kv[0], ".") {
				o.Class("label_key_dotted")
			}
		}
		dist := int64(d.TimeMs) - int64(nowMs())
		if dist < 0 {
			dist = -dist
		}
		if len(d.Labels) > 0 && d.Value != 0 && dist >= 3_600_000 {
			nontrivial = true
		}
	}
	o.Class("otsdb_unit_" + c.OtsdbUnit)
	o.Class("otlp_" + c.OtlpKind)
	if nontrivial {
		o.NonTrivial()
	}

	knownOnce := map[string]bool{}
	known := func(id string) {
		if !knownOnce[id] {
			knownOnce[id] = true
			o.Known(id)
		}
	}
	return pt.WithWorker(sut.Options{}, func(cl *sut.Client) error {
		var exps []metricExp
		ren := func(sfx string, keep func(DataPoint) bool) []DataPoint {
			var out []DataPoint
			for _, d := range c.Points {
				if keep != nil && !keep(d) {
					continue
				}
				d.Name += sfx
				out = append(out, d)
			}
			return out
		}
		labelMap := func(d DataPoint, norm bool) map[string]string {
			m := map[string]string{}
			for _, kv := range d.Labels {
				k := kv[0]
				if norm {
					k = promName(k)
				}
				m[k] = kv[1]
			}
			return m
		}
		// OpenTSDB put (a datapoint needs at least one tag there); Prometheus names cannot hold '.'/'-'
		ots := ren("_o", func(d DataPoint) bool { return len(d.Labels) > 0 })
		if len(ots) > 0 {
			body := otsdbBody(ots, c.OtsdbUnit)
			hr, err := post(cl, "otsdb_put", body, jsonHdr)
			if err != nil {
				return workerErr(cl, "otsdb post", err)
			}
			var resp struct{ Failed, Success uint64 }
			_ = json.Unmarshal(hr.Body, &resp)
			if hr.Status != 200 || resp.Failed != 0 || int(resp.Success) != len(ots) {
				return fmt.Errorf("otsdb_put: valid request answered status %d body %q\n  sent: %s", hr.Status, short(hr.Body), body)
			}
			for _, d := range ots {
				exps = append(exps, metricExp{"otsdb_put", d.Name, labelMap(d, false), d.TimeMs / 1000, d.Value, string(body)})
			}
		}
		prs := ren("_p", func(d DataPoint) bool { return !strings.ContainsAny(d.Name, ".-") && noDotKeys(d) })
		if len(prs) > 0 {
			body, err := promWriteBody(prs)
			if err != nil {
				return pt.Inconclusivef("prom encode: %v", err)
			}
			hr, err := post(cl, "prom_write", body, map[string]string{"hdr:Content-Type": "application/x-protobuf", "hdr:Content-Encoding": "snappy",
				"hdr:X-Prometheus-Remote-Write-Version": "0.1.0"})
			if err != nil {
				return workerErr(cl, "prom post", err)
			}
			var resp struct{ Failed, Success uint64 }
			_ = json.Unmarshal(hr.Body, &resp)
			nEsc := 0
			for _, d := range prs {
				if escapeClass("prom_remote_write", labelMap(d, false)) && pt.KnownFindingOpen(kMetricEscape) {
					nEsc++ // known finding: such a sample is refused (counted as failed)
				}
			}
			if hr.Status != 200 || int(resp.Failed) > nEsc || int(resp.Success) < len(prs)-nEsc {
				return fmt.Errorf("prom_remote_write: valid request answered status %d body %q\n  sent: %s", hr.Status, short(hr.Body), sentCase)
			}
			for _, d := range prs {
				exps = append(exps, metricExp{"prom_remote_write", d.Name, labelMap(d, false), d.TimeMs / 1000, d.Value, string(sentCase)})
			}
		}
		ols := ren("_l", nil)
		{
			body, err := otlpMetricsBody(ols, c.OtlpKind, c.Res)
			if err != nil {
				return pt.Inconclusivef("otlp metrics encode: %v", err)
			}
			hr, err := post(cl, "otlp_metrics", body, pbHdr)
			if err != nil {
				return workerErr(cl, "otlp metrics post", err)
			}
			if hr.Status != 200 {
				return fmt.Errorf("otlp_metrics: valid request answered status %d body %q\n  sent: %s", hr.Status, short(hr.Body), sentCase)
			}
			for _, d := range ols {
				// OTLP→Prometheus naming convention (documented by the handler): other characters become '_'
				exps = append(exps, metricExp{"otlp_metrics", promName(d.Name), labelMap(d, true), d.TimeMs / 1000, d.Value, string(sentCase)})
			}
		}
		if err := cl.Call(&sut.Req{Op: "c16_mflush"}, nil); err != nil {
			return workerErr(cl, "metrics flush", err)
		}
		perPoint := map[string]map[string]string{} // logical point → proto → "sec value"
		for _, x := range exps {
			if len(x.Labels) == 0 && pt.KnownFindingOpen(kMetricNoLabel) {
				known(kMetricNoLabel)
				continue
			}
			if escapeClass(x.Proto, x.Labels) && pt.KnownFindingOpen(kMetricEscape) {
				known(kMetricEscape)
				continue
			}
			var mr MQueryResult
			q := `{__name__=` + strconv.Quote(x.Name) + `}`
			if err := cl.Call(&sut.Req{Op: "c16_mquery", Text: q, Start: x.Sec - 5, End: x.Sec + 5}, &mr); err != nil {
				return workerErr(cl, "metrics query", err)
			}
			if mr.Err != "" {
				return fmt.Errorf("%s: query %s failed: %s", x.Proto, q, mr.Err)
			}
			if len(mr.Series) != 1 {
				return fmt.Errorf("%s: accepted datapoint %s%v t=%ds v=%v: query %s over [t-5,t+5] returned %d series %+v\n  sent: %s",
					x.Proto, x.Name, x.Labels, x.Sec, x.Value, q, len(mr.Series), mr.Series, short([]byte(x.Sent)))
			}
			s := mr.Series[0]
			wantLabels := map[string]string{"__name__": x.Name}
			for k, v := range x.Labels {
				wantLabels[k] = v
			}
			if fmt.Sprint(s.Labels) != fmt.Sprint(wantLabels) {
				return fmt.Errorf("%s: labels sent %q stored %q\n  sent: %s", x.Proto, wantLabels, s.Labels, short([]byte(x.Sent)))
			}
			if len(s.Points) != 1 {
				return fmt.Errorf("%s: one sample sent for %s, %d stored: %v", x.Proto, x.Name, len(s.Points), s.Points)
			}
			if s.Points[0][0] != strconv.FormatUint(x.Sec, 10) {
				return fmt.Errorf("%s: sample of %s carried time %d s, stored at %s s\n  sent: %s", x.Proto, x.Name, x.Sec, s.Points[0][0], short([]byte(x.Sent)))
			}
			gv, err := strconv.ParseFloat(s.Points[0][1], 64)
			if err != nil || gv != x.Value {
				return fmt.Errorf("%s: sample of %s%v sent value %v stored %s\n  sent: %s", x.Proto, x.Name, x.Labels, x.Value, s.Points[0][1], short([]byte(x.Sent)))
			}
			o.Count("datapoints_checked", 1)
			base := x.Name[:len(x.Name)-2]
			if perPoint[promName(base)] == nil {
				perPoint[promName(base)] = map[string]string{}
			}
			vtxt := s.Points[0][1]
			if x.Value == 0 {
				// The Prometheus remote-write message (prompb, proto3) omits a sample value that
				// equals zero, so the sign of -0 is not carried by that protocol at all: a zero is
				// compared across protocols without its sign.
				vtxt = "0"
			}
			perPoint[promName(base)][x.Proto] = s.Points[0][0] + " " + vtxt
		}
		// cross-protocol: same sample ⇒ same stored (second, value)
		for _, name := range pt.SortedKeys(perPoint) {
			var first, firstProto string
			for _, p := range pt.SortedKeys(perPoint[name]) {
				if first == "" {
					first, firstProto = perPoint[name][p], p
				} else if perPoint[name][p] != first {
					return fmt.Errorf("cross-protocol: sample %s stored as (%s) by %s and (%s) by %s", name, first, firstProto, perPoint[name][p], p)
				}
			}
		}
		return nil
	})
}

// escapeClass is the input class of known finding C16-metric-label-escape-chars: a label value holding a
// character that JSON escapes (OpenTSDB put / OTLP metrics, which travel as JSON internally) or a
// backslash (Prometheus remote write, whose values are handed on as if they were raw JSON strings).
func escapeClass(proto string, labels map[string]string) bool {
	for _, v := range labels {
		for _, r := range v {
			if r == '\\' {
				return true
			}
			if proto != "prom_remote_write" && (r == '"' || r < 0x20) {
				return true
			}
		}
	}
	return false
}

func noDotKeys(d DataPoint) bool {
	for _, kv := range d.Labels {
		if strings.Contains(kv[0], ".") {
			return false
		}
	}
	return true
}

func TestC16Metrics(t *testing.T) {
	pt.RunProp(t, "C16", genMetricCase, checkMetricCase)
}
