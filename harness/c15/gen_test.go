package c15

import (
	"errors"
	"strings"

	"pgregory.net/rapid"

	"verifharness/pt"
)

// index names the valid actions address; every case uses a window of 1-3 of them.
var plainIndexes = []string{"c15a", "c15b", "c15a2", "logs-2024.01.02", "app_x", "Idx.Upper", "ünï-idx"}

// longIndex is longer than a file name may be (255 bytes): the segment directory cannot be created, i.e.
// the store refuses the batch after the items were parsed (cheap member of the store-level failure class).
var longIndex = "c15long-" + strings.Repeat("x", 292)

// special element kinds; repeated entries weigh more. The draw is rotated per case because rapid favours
// small values.
var specialKinds = []string{
	"doc_invalid", "doc_oversize", "act_delete", "blank", "doc_nearlimit", "act_update", "doc_nonobj", "idx_none",
	"act_unknown", "doc_invalid", "act_malformed", "doc_empty", "idx_long", "doc_oversize", "act_nonobject",
	"idx_escaped", "doc_missing", "idx_kibana", "doc_big", "idx_nonstring", "blank", "idx_dotdot", "act_delete", "doc_missing",
}

// bare = a document without any stored field, nullonly = every value null: both carry no _vid.
var validDocs = []string{"valid", "nested", "valid", "actionkey", "spaced", "bare", "nullonly", "bare"}

func genSize(t *rapid.T, kind string) int {
	switch kind {
	case "doc_big":
		return rapid.IntRange(40_000, maxRecordSize-201).Draw(t, "bigSize")
	case "doc_nearlimit":
		if rapid.Bool().Draw(t, "veryNear") {
			return rapid.IntRange(maxRecordSize-3, maxRecordSize+3).Draw(t, "nearSize")
		}
		return rapid.IntRange(maxRecordSize-200, maxRecordSize+199).Draw(t, "nearSize")
	default: // oversize
		switch rapid.IntRange(0, 5).Draw(t, "overKind") {
		case 0, 1:
			return maxRecordSize + 200
		case 2:
			return 65_536
		case 3:
			return rapid.IntRange(maxRecordSize+200, 80_000).Draw(t, "overSize")
		case 4:
			return 131_072
		default:
			return rapid.IntRange(80_000, pt.Scale(200_000, 1_500_000)).Draw(t, "hugeSize")
		}
	}
}

func genValidPair(t *rapid.T, vid int64, pool []string) elem {
	e := elem{Vid: vid, IdxKind: "plain"}
	e.Act = rapid.SampledFrom([]string{"index", "create"}).Draw(t, "act")
	e.ActVar = rapid.IntRange(0, 4).Draw(t, "actVar")
	e.Idx = pool[rapid.IntRange(0, len(pool)-1).Draw(t, "idx")]
	e.Doc = rapid.SampledFrom(validDocs).Draw(t, "doc")
	e.DocVar = rapid.IntRange(0, 7).Draw(t, "docVar")
	e.NoTs = rapid.IntRange(0, 3).Draw(t, "noTs") == 3
	return e
}

func genElem(t *rapid.T, vid int64, last bool, rot int, pool []string) elem {
	if last && rapid.IntRange(0, 5).Draw(t, "lastLineAction") == 5 {
		// the body ends with an action line
		e := genValidPair(t, vid, pool)
		e.Doc = ""
		switch rapid.IntRange(0, 5).Draw(t, "lastAct") {
		case 0, 1:
		case 2:
			e.Act = "delete"
		case 3:
			e.Act = "update"
		case 4:
			e.Act, e.ActVar = "unknown", rapid.IntRange(0, 5).Draw(t, "unknownVar")
		default:
			e.Act, e.ActVar = "nonobject", rapid.IntRange(0, 6).Draw(t, "nonobjectVar")
		}
		return e
	}
	if rapid.IntRange(0, 9).Draw(t, "elemKind") < 4 {
		return genValidPair(t, vid, pool)
	}
	kind := specialKinds[(rapid.IntRange(0, len(specialKinds)-1).Draw(t, "special")+rot)%len(specialKinds)]
	e := genValidPair(t, vid, pool)
	withDoc := func(always bool) {
		// a document line after an action that takes none / is not understood
		if last && rapid.Bool().Draw(t, "lastNoDoc") {
			e.Doc = ""
			return
		}
		if !always && rapid.Bool().Draw(t, "noDoc") {
			e.Doc = ""
			return
		}
		// never a document that reads like an action: it stands in action position for some readings
		if e.Doc == "actionkey" {
			e.Doc = "valid"
		}
	}
	switch kind {
	case "doc_invalid":
		e.Doc, e.DocVar = "invalid", rapid.IntRange(0, 13).Draw(t, "invalidVar")
	case "doc_oversize":
		e.Doc, e.Size = "oversize", genSize(t, kind)
	case "doc_nearlimit":
		e.Doc, e.Size = "nearlimit", genSize(t, kind)
	case "doc_big":
		e.Doc, e.Size = "big", genSize(t, kind)
	case "doc_nonobj":
		e.Doc, e.DocVar = "nonobj", rapid.IntRange(0, 6).Draw(t, "nonobjVar")
	case "doc_empty":
		e.Doc = "empty"
	case "doc_missing":
		if last {
			e.Doc = ""
		} else {
			e.Doc = "empty"
		}
	case "act_update":
		e.Act = "update"
		withDoc(true)
	case "act_delete":
		e.Act, e.Doc = "delete", ""
	case "act_unknown":
		e.Act, e.ActVar = "unknown", rapid.IntRange(0, 5).Draw(t, "unknownVar")
		withDoc(false)
	case "act_malformed":
		e.Act, e.ActVar = "malformed", rapid.IntRange(0, 11).Draw(t, "malformedVar")
		withDoc(true)
	case "act_nonobject":
		e.Act, e.ActVar = "nonobject", rapid.IntRange(0, 6).Draw(t, "nonobjectVar")
		withDoc(false)
	case "idx_none":
		e.IdxKind, e.Idx = "none", ""
	case "idx_nonstring":
		e.IdxKind, e.Idx = "nonstring", ""
	case "idx_kibana":
		e.IdxKind = "kibana"
		e.Idx = rapid.SampledFrom([]string{".kibana", ".kibana_1", ".kibana_task_manager", "my.kibana-logs"}).Draw(t, "kibanaIdx")
	case "idx_dotdot":
		e.IdxKind = "dotdot"
		e.Idx = rapid.SampledFrom([]string{"..", "../c15x", "c15a/../../c15y"}).Draw(t, "dotdotIdx")
	case "idx_long":
		e.IdxKind, e.Idx = "long", longIndex
	case "idx_escaped":
		e.IdxKind = "escaped"
	case "blank":
		e = elem{Act: "blank"}
	}
	return e
}

func genC15(t *rapid.T) *c15Case {
	cs := &c15Case{}
	cs.Via = rapid.SampledFrom([]string{"bulk", "http"}).Draw(t, "via")
	cs.CRLF = rapid.IntRange(0, 3).Draw(t, "crlf") == 3
	cs.TrailingNL = rapid.IntRange(0, 3).Draw(t, "trailingNL") != 3
	n := rapid.IntRange(1, 8).Draw(t, "nElems")
	rot := rapid.IntRange(0, len(specialKinds)-1).Draw(t, "rot")
	first := rapid.IntRange(0, len(plainIndexes)-1).Draw(t, "firstIdx")
	nIdx := rapid.IntRange(1, 3).Draw(t, "nIdx")
	var pool []string
	for k := 0; k < nIdx; k++ {
		pool = append(pool, plainIndexes[(first+k)%len(plainIndexes)])
	}
	optional := 0
	for i := 0; i < n; i++ {
		e := genElem(t, int64(i+1), i == n-1, rot, pool)
		if lo, hi := e.itemRange(); hi > lo {
			optional++
			if optional > 5 {
				e = elem{Act: "delete", Idx: pool[0], IdxKind: "plain", Vid: int64(i + 1)}
			}
		}
		cs.Elems = append(cs.Elems, e)
	}
	if rapid.IntRange(0, 39).Draw(t, "many") == 39 {
		cs.Filler = rapid.IntRange(respItemsInitialLen-10, respItemsInitialLen+300).Draw(t, "filler")
	}
	// scenario: an oversize document followed (not necessarily directly) by an item that fails for another
	// reason; the twin leaves out exactly the oversize document
	scenario := -1
	if n >= 2 && rapid.IntRange(0, 9).Draw(t, "stickyScenario") == 9 {
		j := rapid.IntRange(0, n-2).Draw(t, "oversizeAt")
		k := rapid.IntRange(j+1, n-1).Draw(t, "failingAt")
		ov := genValidPair(t, int64(j+1), pool)
		ov.Doc, ov.Size = "oversize", genSize(t, "doc_oversize")
		cs.Elems[j] = ov
		f := genValidPair(t, int64(k+1), pool)
		switch rapid.IntRange(0, 4).Draw(t, "failingKind") {
		case 0:
			f.Doc, f.DocVar = "invalid", rapid.SampledFrom([]int{0, 2, 3, 4, 7, 8}).Draw(t, "invalidVar")
		case 1:
			f.Act, f.Doc = "delete", ""
		case 2:
			f.Act, f.ActVar, f.Doc = "unknown", rapid.IntRange(0, 5).Draw(t, "unknownVar"), ""
		case 3:
			f.Doc = "empty"
		default:
			f.Doc, f.DocVar = "nonobj", rapid.IntRange(0, 6).Draw(t, "nonobjVar")
		}
		cs.Elems[k] = f
		scenario = j
	}
	// scenario: one index of the request receives nothing but documents without any stored field ({}, empty
	// containers, only the timestamp key); the other indexes of the pool keep their ordinary documents.
	// Only well-formed pairs are rewritten, so the bad elements (and the twin) stay what they are.
	if rapid.IntRange(0, 3).Draw(t, "bareIndexScenario") == 3 {
		var ok []int
		for i := range cs.Elems {
			if cs.Elems[i].expectation() == expMustOK {
				ok = append(ok, i)
			}
		}
		if len(ok) == 0 {
			// no well-formed pair in the request: put one in front
			e := genValidPair(t, int64(n+1), pool)
			e.Doc = "bare"
			cs.Elems = append([]elem{e}, cs.Elems...)
			if scenario >= 0 {
				scenario++
			}
			ok = []int{0}
		}
		bareIdx := cs.Elems[ok[rapid.IntRange(0, len(ok)-1).Draw(t, "bareIndexOf")]].Idx
		for _, i := range ok {
			if e := &cs.Elems[i]; e.Idx == bareIdx {
				e.Doc = "bare"
				e.DocVar = rapid.IntRange(0, 7).Draw(t, "bareVar")
				e.NoTs = rapid.Bool().Draw(t, "bareNoTs")
				e.Size = 0
			}
		}
	}
	var bad []int
	for i := range cs.Elems {
		if cs.Elems[i].expectation() != expMustOK {
			bad = append(bad, i)
		}
	}
	if scenario >= 0 {
		cs.Remove = []int{scenario}
	} else if len(bad) > 0 {
		switch rapid.IntRange(0, 5).Draw(t, "twin") {
		case 0:
			cs.Remove = bad
		case 1, 2:
			cs.Remove = []int{bad[rapid.IntRange(0, len(bad)-1).Draw(t, "removeOne")]}
		case 3, 4:
			for _, b := range bad {
				if rapid.Bool().Draw(t, "removeThis") {
					cs.Remove = append(cs.Remove, b)
				}
			}
		}
	}
	return cs
}

// genC15StoreCap: an ordinary case preceded by 1001-1040 valid index actions, one index each.
func genC15StoreCap(t *rapid.T) *c15Case {
	cs := genC15(t)
	cs.Filler = rapid.IntRange(1001, 1040).Draw(t, "nIndexes")
	cs.ManyIdx = 1
	cs.Remove = nil // one request per case: a request of this class takes about a minute
	return cs
}

// wellFormedCase guards the check against hand-written replay files that break the grammar.
func wellFormedCase(cs *c15Case) bool {
	for i := range cs.Elems {
		e := &cs.Elems[i]
		lastEl := i == len(cs.Elems)-1
		switch e.Act {
		case "blank":
		case "index", "create", "update":
			if e.Doc == "" && !lastEl {
				return false // the next action line would be the document
			}
		case "malformed":
			if e.Doc == "" && !lastEl {
				return false // a lenient parser may read an action that takes the next line
			}
		case "delete", "unknown", "nonobject":
		default:
			return false
		}
		if e.Doc != "" && e.Act != "blank" && e.Vid <= 0 {
			return false
		}
	}
	return cs.Via == "bulk" || cs.Via == "http"
}

func isInconclusive(err error) bool {
	var inc *pt.Inconclusive
	return errors.As(err, &inc)
}
