package c15

import (
	"encoding/json"
	"fmt"
	"os"
	"sort"
	"strconv"
	"strings"
	"testing"

	"verifharness/gen"
	"verifharness/lq"
	"verifharness/pt"
	"verifharness/sut"
)

// C15 — bulk ingest acknowledges exactly what it stored.
//
// A case is a bulk body described line by line (compact descriptors, rendered deterministically), the
// route (HandleBulkBody or ProcessBulkRequest) and the set of "bad" elements that the metamorphic twin
// request leaves out. Each request runs in its own fresh worker.

// maxRecordSize mirrors sutils.MAX_RECORD_SIZE (pkg/segment/utils/segconsts.go): a document line of
// at least this many bytes is "oversize". The check does not depend on the exact value: documents of
// [maxRecordSize-200, maxRecordSize+200) bytes form the "nearlimit" class, larger ones "oversize"; for
// both the oracle only demands that the acknowledgement and the store agree.
const maxRecordSize = 63_000

// respItemsInitialLen mirrors RESP_ITEMS_INITIAL_LEN (esBulkHandler.go); bodies with more actions make the
// handler grow its pooled item slice.
const respItemsInitialLen = 4000

const (
	expEither   = 0 // only agreement between acknowledgement and store is demanded
	expMustOK   = 1 // a well-formed action with a well-formed document: must be acknowledged 201 and stored
	expMustFail = 2 // no document can come of it: must be a failed item, nothing stored
)

// elem is one element of the line grammar: a blank line, or an action line with or without a document line.
type elem struct {
	Act     string `json:"act"`            // index create update delete unknown malformed nonobject blank
	ActVar  int    `json:"av,omitempty"`   // spelling variant of the action line
	Idx     string `json:"idx,omitempty"`  // decoded index name the action addresses ("" = none)
	IdxKind string `json:"ik,omitempty"`   // plain none nonstring kibana dotdot long escaped
	Doc     string `json:"doc,omitempty"`  // "" (no document line) valid nested actionkey spaced bare nullonly big nearlimit oversize invalid nonobj empty
	DocVar  int    `json:"dv,omitempty"`   // spelling variant of the document line
	Size    int    `json:"size,omitempty"` // exact length in bytes of a big/nearlimit/oversize document line
	Vid     int64  `json:"vid,omitempty"`  // unique id carried by the document (first key), 0 = none; bare/nullonly documents do not carry it (only their timestamp BaseTs+Vid, if any)
	NoTs    bool   `json:"nots,omitempty"` // the document carries no timestamp (arrival time)
}

type c15Case struct {
	Elems      []elem `json:"elems"`
	Filler     int    `json:"filler,omitempty"`  // number of generated filler actions put before Elems (see fillerElems)
	ManyIdx    int    `json:"manyIdx,omitempty"` // with Filler: every filler action is a valid index action for an index of its own (store cap)
	CRLF       bool   `json:"crlf,omitempty"`
	TrailingNL bool   `json:"trailingNL"`
	Via        string `json:"via"`              // bulk (HandleBulkBody) | http (ProcessBulkRequest)
	Remove     []int  `json:"remove,omitempty"` // indexes into Elems left out of the metamorphic twin request
}

// ---- rendering -------------------------------------------------------------------------------------

func jsonStr(s string) string {
	b, _ := json.Marshal(s)
	return string(b)
}

// escapedName spells a JSON string with its first character written as a \uXXXX escape (and, when the
// name holds a non-ASCII character, that one escaped as well, the way ASCII-only encoders do).
func escapedName(s string) string {
	var sb strings.Builder
	sb.WriteByte('"')
	for i, r := range s {
		if i == 0 || r > 127 {
			if r > 0xffff {
				sb.WriteString(string(r))
				continue
			}
			fmt.Fprintf(&sb, `\u%04x`, r)
			continue
		}
		if r == '"' || r == '\\' {
			sb.WriteByte('\\')
		}
		sb.WriteRune(r)
	}
	sb.WriteByte('"')
	return sb.String()
}

func (e *elem) indexJSON() string {
	switch e.IdxKind {
	case "nonstring":
		return []string{"5", "null", "true", `["x"]`, `{"a":"b"}`}[e.ActVar%5]
	case "escaped":
		return escapedName(e.Idx)
	}
	return jsonStr(e.Idx)
}

func (e *elem) actionLine() string {
	switch e.Act {
	case "blank":
		return ""
	case "index", "create", "update", "delete":
		id := strconv.FormatInt(e.Vid%1000+1, 10)
		if e.IdxKind == "none" {
			switch e.ActVar % 3 {
			case 0:
				return `{"` + e.Act + `":{}}`
			case 1:
				return `{"` + e.Act + `":{"_id":"` + id + `"}}`
			default:
				return `{ "` + e.Act + `" : { "_type" : "_doc" } }`
			}
		}
		ix := e.indexJSON()
		switch e.ActVar % 5 {
		case 0:
			return `{"` + e.Act + `":{"_index":` + ix + `}}`
		case 1:
			return `{ "` + e.Act + `" : { "_index" : ` + ix + `, "_id" : "` + id + `" } }`
		case 2:
			return "\t" + `{"` + e.Act + `":{"_id":"` + id + `","_index":` + ix + `,"_type":"_doc"}}`
		case 3:
			return `{"` + e.Act + `":{"_index":` + ix + `,"routing":"r1"}}  `
		default:
			return `{"` + e.Act + `":{"_index":` + ix + `,"_id":` + id + `}}`
		}
	case "unknown":
		ix := jsonStr(e.Idx)
		return []string{
			`{"foo":{"_index":` + ix + `}}`,
			`{"Index":{"_index":` + ix + `}}`,
			`{"indexes":{"_index":` + ix + `}}`,
			`{}`,
			`{"upsert":{"_index":` + ix + `,"_id":"1"}}`,
			`{"_index":` + ix + `}`,
		}[e.ActVar%6]
	case "malformed":
		ix := jsonStr(e.Idx)
		return []string{
			`{"index":{"_index":` + ix,
			`{"index":`,
			`{"index" {"_index":` + ix + `}}`,
			`{"create":{"_index":` + ix + `}`,
			`{index:{_index:` + ix + `}}`,
			`"index":{"_index":` + ix + `}}`,
			`{"index":{"_index":` + ix + `}}}`,
			`{"index":{"_index":` + ix + `,}}`,
			`{"index":5}`,
			`{"index":null}`,
			`{"create":[{"_index":` + ix + `}]}`,
			`{"index":"` + e.Idx + `"}`,
		}[e.ActVar%12]
	case "nonobject":
		return []string{`[1,2]`, `5`, `"index"`, `null`, `true`, `index`, `[{"index":{"_index":` + jsonStr(e.Idx) + `}}]`}[e.ActVar%7]
	}
	return ""
}

var docWords = []string{"alpha", "beta gamma", "x y", "err", "ünï", "q\"uote", "back\\slash", ""}

func (e *elem) tsPart() string {
	if e.NoTs {
		return ""
	}
	return `,"timestamp":` + strconv.FormatUint(gen.BaseTs+uint64(e.Vid), 10)
}

// ghostVid is an id that appears in the text of some malformed documents but must never become searchable.
func ghostVid(vid int64) int64 { return vid + 5_000_000 }

func (e *elem) docLine() string {
	v := strconv.FormatInt(e.Vid, 10)
	head := `{"_vid":` + v
	switch e.Doc {
	case "valid":
		w := jsonStr(docWords[e.DocVar%len(docWords)])
		switch e.DocVar % 4 {
		case 0:
			return head + e.tsPart() + `,"a":` + strconv.Itoa(e.DocVar) + `,"msg":` + w + `}`
		case 1:
			return head + `,"msg":` + w + e.tsPart() + `}`
		case 2:
			return head + e.tsPart() + `,"f":2.5,"b":true,"n":null,"msg":` + w + `}`
		default:
			return head + e.tsPart() + `}`
		}
	case "nested":
		switch e.DocVar % 3 {
		case 0:
			return head + e.tsPart() + `,"n":{"x":1,"m":{"y":"s"}},"arr":[1,{"z":2}]}`
		case 1:
			return head + `,"http":{"code":200,"path":"/a/b"}` + e.tsPart() + `,"tags":["a","b"]}`
		default:
			return head + e.tsPart() + `,"o":{},"l":[],"d":{"e":{"f":{"g":1}}}}`
		}
	case "actionkey":
		// a document whose own keys look like bulk actions: harmless unless the line pairing slips
		switch e.DocVar % 3 {
		case 0:
			return head + e.tsPart() + `,"index":{"_index":"c15stolen"},"create":{"a":1}}`
		case 1:
			return head + e.tsPart() + `,"delete":{"_index":"c15stolen","_id":"1"}}`
		default:
			return head + e.tsPart() + `,"update":{"_index":"c15stolen"},"doc":{"x":1}}`
		}
	case "spaced":
		switch e.DocVar % 3 {
		case 0:
			return "  " + `{ "_vid" : ` + v + ` , "a" : 1 }` + "  "
		case 1:
			return "\t" + `{"_vid": ` + v + `, "msg": "tab"}`
		default:
			return `{ "_vid":` + v + e.tsPart() + ` }` + "\t"
		}
	case "bare":
		// a document without any stored field: nothing but empty containers and / or the timestamp key.
		// It carries no _vid; with a timestamp it is identified by that (unique in the request).
		ts := strings.TrimPrefix(e.tsPart(), ",")
		switch e.DocVar % 8 {
		case 0, 6:
			return joinObject(ts)
		case 1:
			return joinObject(ts, `"tags":[]`)
		case 2:
			return joinObject(`"meta":{}`, ts)
		case 3:
			return joinObject(ts, `"o":{},"l":[]`)
		case 4:
			return joinObject(`"e":{"f":{}},"g":[[],{}]`, ts)
		case 5:
			if ts == "" {
				return `{ }`
			}
			return `{ ` + ts + ` }`
		default:
			return joinObject(`"a":[{}]`, ts)
		}
	case "nullonly":
		// every value is null: the columns exist but hold no value; no _vid either
		ts := strings.TrimPrefix(e.tsPart(), ",")
		switch e.DocVar % 3 {
		case 0:
			return joinObject(`"a":null`, ts)
		case 1:
			return joinObject(ts, `"n":null,"m":{"k":null}`)
		default:
			return joinObject(`"l":[null]`, ts)
		}
	case "big", "nearlimit", "oversize":
		pre := head + e.tsPart() + `,"pad":"`
		post := `"}`
		n := e.Size - len(pre) - len(post)
		if n < 0 {
			n = 0
		}
		return pre + strings.Repeat("x", n) + post
	case "invalid":
		g := strconv.FormatInt(ghostVid(e.Vid), 10)
		return []string{
			head + `,"a":tru}`,
			head + `,"a":1,}`,
			head + `,"a":}`,
			head + `,"a":"unterminated}`,
			head + `,"a":1`,
			head + `} trailing`,
			head + `,"a":1}{"_vid":` + g + `}`,
			head + `,"a":[1,2}`,
			head + ` "a":1}`,
			head + `,"a":{"b":1}`,
			head + `,a:1}`,
			head + `,"a":01}`,
			head + `,"a":'x'}`,
			head + `,"a":1}}`,
		}[e.DocVar%14]
	case "nonobj":
		return []string{`[{"_vid":` + v + `}]`, `123`, `"_vid ` + v + `"`, `null`, `true`, `[]`, `-1.5e3`}[e.DocVar%7]
	}
	return ""
}

// joinObject writes a JSON object from the non-empty member texts.
func joinObject(members ...string) string {
	var parts []string
	for _, m := range members {
		if m != "" {
			parts = append(parts, m)
		}
	}
	return "{" + strings.Join(parts, ",") + "}"
}

// anonDoc: the document line is a well-formed object that carries no _vid (bare, nullonly).
func (e *elem) anonDoc() bool { return e.Doc == "bare" || e.Doc == "nullonly" }

// anonTs is the timestamp an anonDoc is recognised by, 0 if it carries none (arrival time is stored).
func (e *elem) anonTs() uint64 {
	if !e.anonDoc() || e.NoTs {
		return 0
	}
	return gen.BaseTs + uint64(e.Vid)
}

// idTs: the timestamp lies in the range the generated documents use (arrival times are years later).
func idTs(ts uint64) bool { return ts >= gen.BaseTs && ts < gen.BaseTs+100_000_000 }

// fillerElems expands Filler into generated elements: mostly `delete` actions (one failed item each, no
// document line), every 40th a valid index action with a small document for index c15fill.
func fillerElems(n int, manyIdx bool) []elem {
	out := make([]elem, 0, n)
	for i := 0; i < n; i++ {
		if manyIdx {
			// one index per document: more than maxAllowedSegStores (1000) open indexes make the store refuse batches
			out = append(out, elem{Act: "index", Idx: fmt.Sprintf("c15m-%04d", i), IdxKind: "many", Doc: "valid", DocVar: 3, Vid: 1_000_000 + int64(i)})
			continue
		}
		if i%40 == 7 {
			out = append(out, elem{Act: "index", Idx: "c15fill", IdxKind: "plain", Doc: "valid", DocVar: 3, Vid: 1_000_000 + int64(i), NoTs: i%80 == 7})
		} else {
			out = append(out, elem{Act: "delete", Idx: "c15fill", IdxKind: "plain", Vid: int64(i)})
		}
	}
	return out
}

func (cs *c15Case) expand(skip map[int]bool) []elem {
	out := fillerElems(cs.Filler, cs.ManyIdx > 0)
	for i, e := range cs.Elems {
		if skip[i] {
			continue
		}
		out = append(out, e)
	}
	return out
}

func renderBody(els []elem, crlf, trailingNL bool) []byte {
	var lines []string
	for i := range els {
		e := &els[i]
		lines = append(lines, e.actionLine())
		if e.Doc != "" {
			lines = append(lines, e.docLine())
		}
	}
	nl := "\n"
	if crlf {
		nl = "\r\n"
	}
	s := strings.Join(lines, nl)
	if trailingNL {
		s += nl
	}
	return []byte(s)
}

// ---- model ------------------------------------------------------------------------------------------

func (e *elem) takesDoc() bool { return e.Act == "index" || e.Act == "create" || e.Act == "update" }

// expectation derives what the statement fixes for the element (position-dependent: an action that takes a
// document but is the last line of the body has none).
func (e *elem) expectation() int {
	switch e.Act {
	case "blank":
		return expMustFail
	case "update", "delete", "unknown", "nonobject":
		// update is documented as unsupported, delete carries no document, the others name no action
		return expMustFail
	case "malformed":
		// a lenient parser may still read an action out of it: only agreement is demanded
		return expEither
	}
	// index / create
	switch e.Doc {
	case "", "empty":
		return expMustFail // no document line, or an empty one
	case "valid", "nested", "actionkey", "spaced", "big", "bare", "nullonly":
		if e.IdxKind == "plain" || e.IdxKind == "escaped" {
			return expMustOK
		}
	}
	return expEither
}

// itemRange is the number of response items the element may produce. A line in action position that is
// not a usable action (blank line, or the document line following an action that was not understood) may
// or may not be counted as an action of its own — both readings are accepted.
func (e *elem) itemRange() (int, int) {
	switch e.Act {
	case "blank":
		return 0, 1
	case "update", "unknown", "malformed", "nonobject":
		if e.Doc != "" {
			return 1, 2
		}
	}
	return 1, 1
}

// placementKnown: the index the document must be found in is determined by the request.
func (e *elem) placementKnown() bool {
	switch e.IdxKind {
	case "plain", "escaped", "long":
		return true
	}
	return false
}

// ---- observation ------------------------------------------------------------------------------------

type routeResult struct {
	Via          string
	HTTPStatus   int    // http route only
	RequestLevel bool   // the whole request was answered with an error object instead of items
	Raw          string // response text (shortened)
	HasErrors    bool
	Errors       bool
	Statuses     []int
	Processed    int
	HandlerErr   string
}

type observation struct {
	Route    routeResult
	Global   map[int64]int            // _vid → number of records found by `*` over index `*`
	Anon     int                      // records without an integer _vid
	PerIndex map[string]map[int64]int // index → _vid → count
	// records without an integer _vid, by timestamp: `*` over index `*`, and per addressed index
	GlobalAnon   map[uint64]int
	PerIndexAnon map[string]map[uint64]int
}

// arrivalAnon counts the _vid-less records whose timestamp is not one a generated document carries.
func arrivalAnon(m map[uint64]int) int {
	n := 0
	for ts, c := range m {
		if !idTs(ts) {
			n += c
		}
	}
	return n
}

func shorten(s string, n int) string {
	if len(s) > n {
		return s[:n] + fmt.Sprintf("…(%d bytes)", len(s))
	}
	return s
}

func itemStatus(raw json.RawMessage) (int, error) {
	var m map[string]json.RawMessage
	if err := json.Unmarshal(raw, &m); err != nil {
		return 0, fmt.Errorf("item is not an object: %s", raw)
	}
	if st, ok := m["status"]; ok {
		var v int
		if err := json.Unmarshal(st, &v); err != nil {
			return 0, fmt.Errorf("item status is not an integer: %s", raw)
		}
		return v, nil
	}
	found, val := 0, 0
	for _, k := range pt.SortedKeys(m) {
		var inner map[string]json.RawMessage
		if json.Unmarshal(m[k], &inner) != nil {
			continue
		}
		if st, ok := inner["status"]; ok {
			var v int
			if err := json.Unmarshal(st, &v); err != nil {
				return 0, fmt.Errorf("item status is not an integer: %s", raw)
			}
			found++
			val = v
		}
	}
	if found != 1 {
		return 0, fmt.Errorf("item without a (single) status: %s", raw)
	}
	return val, nil
}

func parseBulkResponse(raw []byte, rr *routeResult) error {
	var resp struct {
		Errors *bool             `json:"errors"`
		Items  []json.RawMessage `json:"items"`
	}
	if err := json.Unmarshal(raw, &resp); err != nil {
		return fmt.Errorf("response is not JSON (%v): %s", err, shorten(string(raw), 400))
	}
	if resp.Errors != nil {
		rr.HasErrors, rr.Errors = true, *resp.Errors
	}
	for i, it := range resp.Items {
		st, err := itemStatus(it)
		if err != nil {
			return fmt.Errorf("item %d: %v", i, err)
		}
		rr.Statuses = append(rr.Statuses, st)
	}
	return nil
}

const searchEnd = 4102444800000 // 2100-01-01, ms

func vidCounts(c *sut.Client, index string, size int) (map[int64]int, map[uint64]int, error) {
	sr, err := lq.Search(c, sut.Query{Index: index, Text: "*", Start: 1, End: searchEnd, Size: size})
	if err != nil {
		return nil, nil, fmt.Errorf("index %q: %w", shorten(index, 40), err)
	}
	out := map[int64]int{}
	anon := map[uint64]int{}
	for _, r := range sr.Records {
		if v, ok := r["_vid"].Int(); ok {
			out[v]++
		} else {
			// a record without _vid is told apart by its timestamp (0 = none reported)
			ts, _ := r["timestamp"].Int()
			anon[uint64(ts)]++
		}
	}
	return out, anon, nil
}

// runRequest posts the body in a fresh worker, flushes and reads back what is searchable.
func runRequest(via string, body []byte, indexes []string, nDocs int) (*observation, error) {
	obs := &observation{PerIndex: map[string]map[int64]int{}, PerIndexAnon: map[string]map[uint64]int{}}
	err := pt.WithWorker(sut.Options{}, func(c *sut.Client) error {
		obs.Route.Via = via
		switch via {
		case "http":
			var hr sut.HTTPResult
			if err := c.Call(&sut.Req{Op: "c15_http", Body: body}, &hr); err != nil {
				return lq.Classify(c, "bulk request (ProcessBulkRequest)", err)
			}
			obs.Route.HTTPStatus = hr.Status
			obs.Route.Raw = shorten(string(hr.Body), 1500)
			var probe map[string]json.RawMessage
			_ = json.Unmarshal(hr.Body, &probe)
			if _, hasItems := probe["items"]; !hasItems && hr.Status >= 400 {
				obs.Route.RequestLevel = true
			} else if err := parseBulkResponse(hr.Body, &obs.Route); err != nil {
				return fmt.Errorf("HTTP %d: %v", hr.Status, err)
			}
		default:
			br, err := c.Bulk(0, body)
			if err != nil {
				return lq.Classify(c, "bulk request (HandleBulkBody)", err)
			}
			obs.Route.Raw = shorten(string(br.Response), 1500)
			obs.Route.Processed, obs.Route.HandlerErr = br.Processed, br.Err
			if err := parseBulkResponse(br.Response, &obs.Route); err != nil {
				return err
			}
		}
		if err := c.Flush(); err != nil {
			return lq.Classify(c, "flush", err)
		}
		size := nDocs + 50
		var err error
		if obs.Global, obs.GlobalAnon, err = vidCounts(c, "*", size); err != nil {
			return err
		}
		for _, n := range obs.GlobalAnon {
			obs.Anon += n
		}
		for _, ix := range indexes {
			m, a, err := vidCounts(c, ix, size)
			if err != nil {
				return err
			}
			obs.PerIndex[ix], obs.PerIndexAnon[ix] = m, a
		}
		return nil
	})
	return obs, err
}

// ---- oracle -----------------------------------------------------------------------------------------

const stRequestLevel = -1 // failed through a request-level error: any non-201 status matches

func touchedIndexes(els []elem) []string {
	seen := map[string]bool{}
	for i := range els {
		e := &els[i]
		if e.Doc != "" && e.Idx != "" && e.placementKnown() {
			seen[e.Idx] = true
		}
	}
	out := pt.SortedKeys(seen)
	sort.Strings(out)
	return out
}

// reading assigns response items to elements: status[i] is the status of element i's own item
// (0 for a blank line that produced no item).
type reading struct {
	status []int
	extra  []int // status of the optional second item of element i, 0 if none
}

// enumerateReadings lists every assignment of the items to the elements that respects the item ranges.
func enumerateReadings(els []elem, statuses []int) ([]reading, error) {
	mandatory := 0
	var optional []int
	for i := range els {
		lo, hi := els[i].itemRange()
		mandatory += lo
		if hi > lo {
			optional = append(optional, i)
		}
	}
	k := len(statuses) - mandatory
	if k < 0 || k > len(optional) {
		return nil, fmt.Errorf("the body holds %d actions (plus %d lines that may or may not count as actions) but the response has %d items",
			mandatory, len(optional), len(statuses))
	}
	if len(optional) > 16 {
		return nil, pt.Inconclusivef("too many optional lines (%d) to enumerate", len(optional))
	}
	var out []reading
	for mask := 0; mask < 1<<len(optional); mask++ {
		if popcount(mask) != k {
			continue
		}
		chosen := map[int]bool{}
		for b, ei := range optional {
			if mask&(1<<b) != 0 {
				chosen[ei] = true
			}
		}
		r := reading{status: make([]int, len(els)), extra: make([]int, len(els))}
		pos := 0
		for i := range els {
			lo, _ := els[i].itemRange()
			if lo == 1 {
				r.status[i] = statuses[pos]
				pos++
				if chosen[i] {
					r.extra[i] = statuses[pos]
					pos++
				}
			} else if chosen[i] {
				r.status[i] = statuses[pos]
				pos++
			}
		}
		out = append(out, r)
	}
	return out, nil
}

func popcount(x int) int {
	n := 0
	for ; x != 0; x &= x - 1 {
		n++
	}
	return n
}

// judge evaluates one reading against the statement. known collects tolerated known findings.
func judge(els []elem, r reading, obs *observation, known map[string]bool) error {
	// _vid-less records that carry no generated timestamp (they were stored with the arrival time):
	// anonFlex   acknowledged elements that may or may not have left such a record (a lenient parser read
	//            something out of a line that holds no object with a _vid; tolerated known finding)
	// anonNeed   acknowledged field-less / null-only documents without timestamp: each must have left one,
	//            anonNeedIdx in the index it addressed, anonAnywhere in an index the request does not fix
	anonFlex, anonNeed, anonAnywhere := 0, 0, 0
	anonNeedIdx := map[string]int{}
	expectedVids := map[int64]bool{}
	expectedAnonTs := map[uint64]bool{}
	for i := range els {
		e := &els[i]
		st := r.status[i]
		if e.Act == "blank" {
			if st == 201 {
				return fmt.Errorf("element %d (blank line) has an item with status 201", i)
			}
			continue
		}
		if r.extra[i] == 201 {
			return fmt.Errorf("element %d (%s): the document line of an action that failed was itself acknowledged with 201", i, e.describe())
		}
		if r.extra[i] != 0 && st == 201 {
			return fmt.Errorf("element %d (%s): acknowledged 201 although its document line was read as a further action", i, e.describe())
		}
		created := st == 201
		switch e.expectation() {
		case expMustOK:
			if !created {
				return fmt.Errorf("element %d (%s) is a well-formed action with a well-formed document but its item has status %s", i, e.describe(), stText(st))
			}
		case expMustFail:
			if created {
				return fmt.Errorf("element %d (%s) cannot create a document but its item has status 201", i, e.describe())
			}
		}
		kibanaTolerated := strings.Contains(e.Idx, ".kibana") && pt.KnownFindingOpen("C15-kibana-ack-not-stored")
		if e.anonDoc() && e.anonTs() == 0 {
			// no _vid, no timestamp: such documents can only be counted
			if !created {
				continue
			}
			switch {
			case kibanaTolerated:
				known["C15-kibana-ack-not-stored"] = true
				anonFlex++
			case e.placementKnown():
				anonNeed++
				anonNeedIdx[e.Idx]++
			default:
				anonNeed++
				anonAnywhere++
			}
			continue
		}
		hasVid := e.Doc != "" && e.Doc != "empty" && e.Doc != "nonobj" && e.Vid > 0
		if !hasVid {
			if created {
				anonFlex++
			}
			continue
		}
		// the document is recognised by its _vid or, if it is field-less, by its timestamp
		what := fmt.Sprintf("_vid=%d", e.Vid)
		n := obs.Global[e.Vid]
		perIndex := func(ix string) int { return obs.PerIndex[ix][e.Vid] }
		if ts := e.anonTs(); ts != 0 {
			what = fmt.Sprintf("the record without _vid with timestamp=%d", ts)
			n = obs.GlobalAnon[ts]
			perIndex = func(ix string) int { return obs.PerIndexAnon[ix][ts] }
			expectedAnonTs[ts] = true
		} else {
			expectedVids[e.Vid] = true
		}
		if created {
			if n == 0 && kibanaTolerated {
				known["C15-kibana-ack-not-stored"] = true
				continue
			}
			if n != 1 {
				return fmt.Errorf("element %d (%s) was acknowledged with 201 but %s is searchable %d times after the flush (want exactly once)",
					i, e.describe(), what, n)
			}
			if e.placementKnown() {
				for _, ix := range pt.SortedKeys(obs.PerIndex) {
					got := perIndex(ix)
					want := 0
					if ix == e.Idx {
						want = 1
					}
					if got != want {
						return fmt.Errorf("element %d (%s) was acknowledged with 201 for index %q, but a search of index %q finds %s %d times (want %d)",
							i, e.describe(), shorten(e.Idx, 40), shorten(ix, 40), what, got, want)
					}
				}
			}
		} else if n != 0 {
			return fmt.Errorf("element %d (%s) was reported as failed (status %s) but %s is searchable %d times after the flush",
				i, e.describe(), stText(st), what, n)
		}
	}
	for _, v := range sortedVids(obs.Global) {
		if !expectedVids[v] {
			return fmt.Errorf("a record with _vid=%d is searchable although no acknowledged document carries it (ghost / partial document)", v)
		}
	}
	for _, ts := range sortedTs(obs.GlobalAnon) {
		if idTs(ts) && !expectedAnonTs[ts] {
			return fmt.Errorf("a record without _vid with timestamp=%d is searchable although no field-less document of the request carries that timestamp (partial document)", ts)
		}
	}
	// records stored with the arrival time: as many as acknowledged documents that carry neither _vid nor timestamp
	if got := arrivalAnon(obs.GlobalAnon); got < anonNeed || got > anonNeed+anonFlex {
		return fmt.Errorf("%d documents without _vid and without timestamp were acknowledged with 201 (plus %d acknowledged lines that may or may not store a record without _vid), but %d such records are searchable after the flush",
			anonNeed, anonFlex, got)
	}
	for _, ix := range pt.SortedKeys(obs.PerIndexAnon) {
		got, need := arrivalAnon(obs.PerIndexAnon[ix]), anonNeedIdx[ix]
		if got < need || got > need+anonAnywhere+anonFlex {
			return fmt.Errorf("index %q: %d documents without _vid and without timestamp were acknowledged with 201 for it (plus %d acknowledged lines whose record, if any, may lie in any index), but a search of the index finds %d such records after the flush",
				shorten(ix, 40), need, anonAnywhere+anonFlex, got)
		}
	}
	return nil
}

func sortedTs(m map[uint64]int) []uint64 {
	out := make([]uint64, 0, len(m))
	for v := range m {
		out = append(out, v)
	}
	sort.Slice(out, func(i, j int) bool { return out[i] < out[j] })
	return out
}

func sortedVids(m map[int64]int) []int64 {
	out := make([]int64, 0, len(m))
	for v := range m {
		out = append(out, v)
	}
	sort.Slice(out, func(i, j int) bool { return out[i] < out[j] })
	return out
}

func stText(st int) string {
	if st == stRequestLevel {
		return "request-level error"
	}
	if st == 0 {
		return "none"
	}
	return strconv.Itoa(st)
}

func (e *elem) describe() string {
	s := e.Act
	if e.IdxKind != "" && e.IdxKind != "plain" {
		s += " idx=" + e.IdxKind
	}
	if e.Doc == "" {
		if e.takesDoc() {
			s += " without document line"
		}
	} else {
		s += " doc=" + e.Doc
		if e.Size > 0 {
			s += fmt.Sprintf("(%d bytes)", e.Size)
		}
		if e.anonDoc() {
			if ts := e.anonTs(); ts != 0 {
				s += fmt.Sprintf(" no _vid, timestamp=%d", ts)
			} else {
				s += " no _vid, no timestamp"
			}
		} else if e.Vid > 0 {
			s += fmt.Sprintf(" _vid=%d", e.Vid)
		}
	}
	return s
}

// evaluate applies the oracle to one request. It returns the readings under which the statement holds.
func evaluate(els []elem, obs *observation, known map[string]bool) ([]reading, error) {
	rr := &obs.Route
	if rr.RequestLevel {
		// ProcessBulkRequest answers a request in which every action failed with one error object
		// (pinned by the repository's TestDelete/TestUpdate_esBulkPostHandler): read it as "every item failed".
		r := reading{status: make([]int, len(els)), extra: make([]int, len(els))}
		for i := range els {
			if els[i].Act != "blank" {
				r.status[i] = stRequestLevel
			}
		}
		if err := judge(els, r, obs, known); err != nil {
			return nil, fmt.Errorf("request-level error (HTTP %d %s): %v", rr.HTTPStatus, rr.Raw, err)
		}
		return []reading{r}, nil
	}
	if rr.Via == "http" && rr.HTTPStatus != 200 {
		return nil, fmt.Errorf("HTTP status %d with an items response: %s", rr.HTTPStatus, rr.Raw)
	}
	if !rr.HasErrors {
		return nil, fmt.Errorf("response has no boolean `errors` member: %s", rr.Raw)
	}
	anyFailed := false
	n201 := 0
	for _, st := range rr.Statuses {
		if st != 201 {
			anyFailed = true
		} else {
			n201++
		}
	}
	if rr.Errors != anyFailed {
		return nil, fmt.Errorf("errors=%v but the item statuses are %v", rr.Errors, shortInts(rr.Statuses))
	}
	if rr.Via == "bulk" && n201 > 0 && (rr.Processed == 0 || rr.HandlerErr != "") {
		// ProcessBulkRequest turns processedCount==0 or an error into a request-level failure: the 201 items would be lost
		return nil, fmt.Errorf("HandleBulkBody returned processedCount=%d err=%q with %d items of status 201", rr.Processed, rr.HandlerErr, n201)
	}
	readings, err := enumerateReadings(els, rr.Statuses)
	if err != nil {
		return nil, err
	}
	var pass []reading
	var firstErr error
	for _, r := range readings {
		k := map[string]bool{}
		if err := judge(els, r, obs, k); err != nil {
			if firstErr == nil {
				firstErr = err
			}
			continue
		}
		for id := range k {
			known[id] = true
		}
		pass = append(pass, r)
	}
	if len(pass) == 0 {
		return nil, fmt.Errorf("%v (item statuses %v; %d readings of the optional lines tried)", firstErr, shortInts(rr.Statuses), len(readings))
	}
	return pass, nil
}

func shortInts(v []int) string {
	if len(v) <= 40 {
		return fmt.Sprint(v)
	}
	return fmt.Sprintf("%v … %v (%d items)", v[:20], v[len(v)-10:], len(v))
}

func statusMatches(a, b int) bool {
	if a == b {
		return true
	}
	if a == stRequestLevel {
		return b != 201 && b != 0
	}
	if b == stRequestLevel {
		return a != 201 && a != 0
	}
	return false
}

// ---- the check --------------------------------------------------------------------------------------

func describeBody(els []elem, cs *c15Case) string {
	var sb strings.Builder
	for i := range els {
		if i >= 12 && i < len(els)-12 {
			if i == 12 {
				fmt.Fprintf(&sb, "  … %d more elements …\n", len(els)-24)
			}
			continue
		}
		fmt.Fprintf(&sb, "  [%d] %s\n      %s\n", i, els[i].describe(), shorten(els[i].actionLine(), 120))
		if els[i].Doc != "" {
			fmt.Fprintf(&sb, "      %s\n", shorten(els[i].docLine(), 120))
		}
	}
	fmt.Fprintf(&sb, "  via=%s crlf=%v trailingNewline=%v", cs.Via, cs.CRLF, cs.TrailingNL)
	return sb.String()
}

func countDocs(els []elem) int {
	n := 0
	for i := range els {
		if els[i].Doc != "" {
			n++
		}
	}
	return n
}

func classify(cs *c15Case, els []elem, obs *observation, pass []reading, o *pt.Obs) {
	o.Class("via_" + cs.Via)
	if cs.CRLF {
		o.Class("crlf")
	}
	if !cs.TrailingNL {
		o.Class("no_trailing_newline")
	}
	if cs.ManyIdx > 0 {
		o.Class("over_1000_indexes")
	} else if cs.Filler > 0 {
		o.Class("many_items_over_4000")
	}
	idx := map[string]bool{}
	sawOversize := false
	for i := range els {
		e := &els[i]
		if cs.Filler > 0 && i < cs.Filler {
			continue
		}
		o.Class("act_" + e.Act)
		if e.Doc != "" {
			o.Class("doc_" + e.Doc)
			if e.Idx != "" {
				idx[e.Idx] = true
			}
		} else if e.takesDoc() {
			o.Class("doc_missing_action_is_last_line")
		}
		if e.IdxKind != "" && e.Act != "blank" {
			o.Class("idx_" + e.IdxKind)
		}
		if sawOversize && e.expectation() != expMustOK && e.Act != "blank" {
			o.Class("failing_item_after_oversize")
		}
		if e.Doc == "oversize" {
			sawOversize = true
		}
	}
	if len(idx) >= 2 {
		o.Class("multi_index")
	}
	bareIndex := classifyFieldless(els, pass, o)
	last := &els[len(els)-1]
	lastLineIsAction := last.Act != "blank" && last.Doc == ""
	if lastLineIsAction {
		o.Class("action_is_last_line")
	}
	if obs.Route.RequestLevel {
		o.Class("http_request_level_error")
	}
	if len(pass) > 1 {
		o.Class("ambiguous_reading")
	}
	acc, rej := 0, 0
	for _, st := range obs.Route.Statuses {
		if st == 201 {
			acc++
		} else {
			rej++
		}
	}
	switch {
	case acc > 0 && rej > 0:
		o.Class("accepted_and_rejected")
	case acc > 0:
		o.Class("all_accepted")
	default:
		o.Class("all_rejected")
	}
	for _, st := range obs.Route.Statuses {
		o.Class("status_" + strconv.Itoa(st))
	}
	if (acc > 0 && rej > 0) || lastLineIsAction || bareIndex {
		o.NonTrivial()
	}
	o.Count("items", int64(len(obs.Route.Statuses)))
	o.Count("items_201", int64(acc))
	o.Max("max_items", int64(len(obs.Route.Statuses)))
}

// classifyFieldless records how the request uses documents without any stored field; it reports whether some
// index of known placement received nothing but acknowledged field-less documents (under the first passing reading).
func classifyFieldless(els []elem, pass []reading, o *pt.Obs) bool {
	if len(pass) == 0 {
		return false
	}
	st := pass[0].status
	bare, other := map[string]int{}, map[string]int{}
	for i := range els {
		e := &els[i]
		if e.Doc == "bare" && (e.Act == "index" || e.Act == "create") {
			switch {
			case e.NoTs:
				o.Class("fieldless_doc_without_timestamp")
			case e.DocVar%8 == 0 || e.DocVar%8 == 5 || e.DocVar%8 == 6:
				o.Class("fieldless_doc_only_timestamp_key")
			default:
				o.Class("fieldless_doc_empty_containers_and_timestamp")
			}
			if e.NoTs && (e.DocVar%8 == 0 || e.DocVar%8 == 5 || e.DocVar%8 == 6) {
				o.Class("fieldless_doc_empty_object")
			}
		}
		if st[i] != 201 || !e.placementKnown() || e.IdxKind == "long" {
			continue
		}
		if e.Doc == "bare" {
			bare[e.Idx]++
		} else {
			other[e.Idx]++
		}
	}
	bareOnly, ordinaryOnly, mixed := 0, 0, 0
	for _, ix := range pt.SortedKeys(bare) {
		if other[ix] == 0 {
			bareOnly++
			if bare[ix] >= 2 {
				o.Class("index_receives_2plus_fieldless_docs_only")
			}
		} else {
			mixed++
		}
	}
	for _, ix := range pt.SortedKeys(other) {
		if bare[ix] == 0 {
			ordinaryOnly++
		}
	}
	if bareOnly > 0 {
		o.Class("index_receives_only_fieldless_docs")
		if ordinaryOnly+mixed > 0 {
			o.Class("index_receives_only_fieldless_docs_next_to_ordinary_index")
		} else {
			o.Class("index_receives_only_fieldless_docs_no_other_index_stored")
		}
	}
	if mixed > 0 {
		o.Class("index_receives_fieldless_and_ordinary_docs")
	}
	return bareOnly > 0
}

func checkC15(cs *c15Case, o *pt.Obs) error {
	if len(cs.Elems) == 0 || !wellFormedCase(cs) {
		o.Class("not_in_grammar_skipped")
		return nil
	}
	els := cs.expand(nil)
	body := renderBody(els, cs.CRLF, cs.TrailingNL)
	o.Max("max_body_bytes", int64(len(body)))
	obs, err := runRequest(cs.Via, body, touchedIndexes(els), countDocs(els))
	if err != nil {
		if isInconclusive(err) {
			return pt.Inconclusivef("%v", err)
		}
		return fmt.Errorf("%v\nrequest:\n%s", err, describeBody(els, cs))
	}
	known := map[string]bool{}
	pass, err := evaluate(els, obs, known)
	if err != nil {
		if isInconclusive(err) {
			return pt.Inconclusivef("%v", err)
		}
		return fmt.Errorf("%v\nrequest:\n%s\nresponse: %s", err, describeBody(els, cs), obs.Route.Raw)
	}
	classify(cs, els, obs, pass, o)

	// metamorphic twin: the same request without the chosen bad elements, in another fresh worker
	skip := map[int]bool{}
	for _, i := range cs.Remove {
		if i >= 0 && i < len(cs.Elems) && cs.Elems[i].expectation() != expMustOK {
			skip[i] = true
		}
	}
	twinEls := cs.expand(skip)
	real := 0
	for i := range twinEls {
		if twinEls[i].Act != "blank" {
			real++
		}
	}
	if len(skip) > 0 && real > 0 {
		o.Class("metamorphic_twin")
		twinBody := renderBody(twinEls, cs.CRLF, cs.TrailingNL)
		tobs, err := runRequest(cs.Via, twinBody, touchedIndexes(els), countDocs(twinEls))
		if err != nil {
			if _, ok := err.(*pt.Inconclusive); ok {
				return err
			}
			return fmt.Errorf("twin request (bad elements %v removed): %v\nrequest:\n%s", cs.Remove, err, describeBody(twinEls, cs))
		}
		tpass, err := evaluate(twinEls, tobs, known)
		if err != nil {
			if _, ok := err.(*pt.Inconclusive); ok {
				return err
			}
			return fmt.Errorf("twin request (bad elements %v removed): %v\nrequest:\n%s\nresponse: %s", cs.Remove, err, describeBody(twinEls, cs), tobs.Route.Raw)
		}
		// map twin positions back to positions in els
		var back []int
		for i := range cs.Elems {
			if !skip[i] {
				back = append(back, cs.Filler+i)
			}
		}
		agree := false
		var diff string
		for _, a := range pass {
			for _, b := range tpass {
				ok := true
				for ti := range twinEls {
					oi := ti
					if ti >= cs.Filler {
						oi = back[ti-cs.Filler]
					}
					if twinEls[ti].Act == "blank" {
						// whether a blank line is answered with an item may depend on its position
						// (last line or not), which leaving out elements changes: don't care
						continue
					}
					if !statusMatches(a.status[oi], b.status[ti]) {
						ok = false
						if diff == "" {
							diff = fmt.Sprintf("element %d (%s): status %s in the full request, %s when the bad elements %v are left out",
								oi, els[oi].describe(), stText(a.status[oi]), stText(b.status[ti]), cs.Remove)
						}
						break
					}
				}
				if ok {
					agree = true
				}
			}
		}
		if !agree {
			return fmt.Errorf("a bad element changed the outcome of a neighbour: %s\nrequest:\n%s\nresponse: %s\ntwin response: %s",
				diff, describeBody(els, cs), obs.Route.Raw, tobs.Route.Raw)
		}
		// what is searchable of the remaining documents must be the same in both worlds
		for ti := range twinEls {
			e := &twinEls[ti]
			if e.Vid > 0 && e.Doc != "" && obs.Global[e.Vid] != tobs.Global[e.Vid] && !strings.Contains(e.Idx, ".kibana") {
				return fmt.Errorf("a bad element changed what is stored of a neighbour: _vid=%d (%s) is searchable %d times in the full request and %d times when the bad elements %v are left out\nrequest:\n%s",
					e.Vid, e.describe(), obs.Global[e.Vid], tobs.Global[e.Vid], cs.Remove, describeBody(els, cs))
			}
			if ts := e.anonTs(); ts != 0 && obs.GlobalAnon[ts] != tobs.GlobalAnon[ts] && !strings.Contains(e.Idx, ".kibana") {
				return fmt.Errorf("a bad element changed what is stored of a neighbour: the record without _vid with timestamp=%d (%s) is searchable %d times in the full request and %d times when the bad elements %v are left out\nrequest:\n%s",
					ts, e.describe(), obs.GlobalAnon[ts], tobs.GlobalAnon[ts], cs.Remove, describeBody(els, cs))
			}
		}
	}
	for _, id := range pt.SortedKeys(known) {
		o.Known(id)
	}
	return nil
}

func TestC15(t *testing.T) { pt.RunProp(t, "C15", genC15, checkC15) }

// TestC15StoreCap is NOT part of the registered check (manual, C15_STORECAP=1 or a replay file): bodies that
// address more than maxAllowedSegStores (1000) distinct indexes, so that the store refuses some batches after
// the items were parsed. Each open index costs about 2 MB in the worker and a `*` search over 1000 indexes
// takes 20-200 s depending on machine load, so a verdict within a fixed time budget cannot be promised
// (see NOTES.md, Limits).
func TestC15StoreCap(t *testing.T) {
	if os.Getenv("C15_STORECAP") == "" && os.Getenv("VERIF_REPLAY") == "" {
		t.Skip("manual test: set C15_STORECAP=1")
	}
	pt.RunProp(t, "C15", genC15StoreCap, checkC15)
}
