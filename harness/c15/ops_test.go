package c15

import (
	eswriter "github.com/siglens/siglens/pkg/es/writer"
	"github.com/valyala/fasthttp"

	"verifharness/sut"
)

// Worker-side operation: c15_http posts the body to eswriter.ProcessBulkRequest the way
// pkg/server/ingest/entryHandlers.go (esPostBulkHandler) does, with an in-memory request context,
// and returns the HTTP status and body.
func init() {
	sut.RegisterOp("c15_http", func(req *sut.Req) (interface{}, error) {
		ctx := &fasthttp.RequestCtx{}
		ctx.Request.Header.SetMethod("POST")
		ctx.Request.Header.SetContentType("application/x-ndjson")
		ctx.Request.SetBody(req.Body)
		eswriter.ProcessBulkRequest(ctx, req.Org, false)
		return &sut.HTTPResult{Status: ctx.Response.StatusCode(), Body: append([]byte(nil), ctx.Response.Body()...)}, nil
	})
}
