package c06

import (
	"fmt"
	"sort"
	"strconv"
	"strings"
	"testing"

	"pgregory.net/rapid"

	"verifharness/pt"
)

// C06 layer 1 — processor level. One case = one table, one command chain, several partitions of the
// table into batches / upstream streams. Oracles: (1) every partition gives the output of the
// reference partition (one stream, one batch); (2) where the reference evaluator speaks, that
// output equals the evaluator's.

type l1Case struct {
	Table   *Table      `json:"table"`
	Chain   []*Cmd      `json:"chain"`
	Text    string      `json:"text"` // rendered SPL (informational; re-rendered from Chain when run)
	Ordered bool        `json:"ordered"`
	Parts   []Partition `json:"parts"`
}

func genCuts(t *rapid.T, n int, style int) []int {
	var cuts []int
	switch style {
	case 0: // one batch
		if n > 0 {
			cuts = []int{n}
		}
	case 1: // one row per batch
		for i := 0; i < n; i++ {
			cuts = append(cuts, 1)
		}
	default: // random cuts, empty batches interleaved
		rem := n
		emptyPct := rapid.SampledFrom([]int{0, 15, 40}).Draw(t, "emptyPct")
		maxB := rapid.SampledFrom([]int{2, 3, 5, 12}).Draw(t, "maxBatch")
		for rem > 0 {
			if emptyPct > 0 && rapid.IntRange(0, 99).Draw(t, "empty") < emptyPct {
				cuts = append(cuts, 0)
				continue
			}
			hi := maxB
			if hi > rem {
				hi = rem
			}
			b := rapid.IntRange(1, hi).Draw(t, "batch")
			cuts = append(cuts, b)
			rem -= b
		}
		if emptyPct > 0 && rapid.IntRange(0, 99).Draw(t, "empty") < emptyPct {
			cuts = append(cuts, 0)
		}
	}
	return cuts
}

func genAssign(t *rapid.T, n, k int) ([]int, []int) {
	assign := make([]int, n)
	sizes := make([]int, k)
	run := rapid.Bool().Draw(t, "assignRuns")
	cur := 0
	for i := range assign {
		if !run || rapid.IntRange(0, 2).Draw(t, "switch") == 0 {
			cur = rapid.IntRange(0, k-1).Draw(t, "stream")
		}
		assign[i] = cur
		sizes[cur]++
	}
	return assign, sizes
}

func genPartitions(t *rapid.T, n int, chain []*Cmd) []Partition {
	parts := []Partition{{Topo: "single", Cuts: [][]int{genCuts(t, n, 0)}}}
	if n >= 2 {
		parts = append(parts, Partition{Topo: "single", Cuts: [][]int{genCuts(t, n, 1)}, EOFNil: rapid.Bool().Draw(t, "eofNil")})
	}
	nr := rapid.IntRange(1, 3).Draw(t, "nRandomParts")
	for i := 0; i < nr; i++ {
		parts = append(parts, Partition{Topo: "single", Cuts: [][]int{genCuts(t, n, 2)}, EOFNil: rapid.Bool().Draw(t, "eofNil")})
	}
	nm := rapid.IntRange(1, 2).Draw(t, "nMergeParts")
	for i := 0; i < nm; i++ {
		k := rapid.IntRange(2, 4).Draw(t, "streams")
		assign, sizes := genAssign(t, n, k)
		p := Partition{Topo: "mergets", Assign: assign, EOFNil: rapid.Bool().Draw(t, "eofNil")}
		for s := 0; s < k; s++ {
			p.Cuts = append(p.Cuts, genCuts(t, sizes[s], rapid.IntRange(0, 4).Draw(t, "cutStyle")))
		}
		parts = append(parts, p)
	}
	mayPar := false
	for _, c := range chain {
		switch c.Op {
		case "sort", "stats", "top", "rare":
			mayPar = true
		}
	}
	if mayPar {
		k := rapid.IntRange(2, 4).Draw(t, "chains")
		parts = append(parts, Partition{Topo: "parallel", Chains: k, Shared: true,
			Cuts: [][]int{genCuts(t, n, rapid.IntRange(1, 3).Draw(t, "cutStyle"))}, EOFNil: rapid.Bool().Draw(t, "eofNil")})
		assign, sizes := genAssign(t, n, k)
		p := Partition{Topo: "parallel", Chains: k, Assign: assign, EOFNil: rapid.Bool().Draw(t, "eofNil")}
		for s := 0; s < k; s++ {
			p.Cuts = append(p.Cuts, genCuts(t, sizes[s], rapid.IntRange(0, 4).Draw(t, "cutStyle")))
		}
		parts = append(parts, p)
	}
	return parts
}

func genL1(t *rapid.T) *l1Case {
	tb := genTable(t, 1, pt.Scale(24, 60), true)
	chain, ordered := genChainOrdered(t, tb, true)
	return &l1Case{Table: tb, Chain: chain, Text: chainText(chain), Ordered: ordered,
		Parts: genPartitions(t, len(tb.Rows), chain)}
}

func genChainOrdered(t *rapid.T, tb *Table, l1 bool) ([]*Cmd, bool) {
	g := &gstate{ordered: true, uniq: []string{"id"}, l1: l1, nrows: len(tb.Rows)}
	for _, c := range tb.Cols {
		g.fields = append(g.fields, gfield{c.Name, c.Kind})
	}
	// one chain in four (one in two end to end, where cases are few) has the directed shape
	// [stateless] limiter [stateless] two-pass command [0-2 further commands], see twopass_test.go
	rate := 3
	if !l1 {
		rate = 1
	}
	if rapid.IntRange(0, rate).Draw(t, "twoPassScenario") == 0 {
		return genTwoPassScenario(t, g, len(tb.Rows)), g.ordered
	}
	n := rapid.IntRange(1, 5).Draw(t, "chainLen")
	var chain []*Cmd
	for tries := 0; len(chain) < n && tries < 40; tries++ {
		last := len(chain) >= n-1
		c := genCmd(t, g, len(chain) == 0, last, len(tb.Rows))
		if c == nil {
			continue
		}
		chain = append(chain, c...)
		// a limited top/rare must stay last
		if lc := chain[len(chain)-1]; (lc.Op == "top" || lc.Op == "rare") && lc.HasN {
			break
		}
	}
	if len(chain) == 0 {
		chain = []*Cmd{{Op: "head", N: 3, HasN: true}}
	}
	return chain, g.ordered
}

// ---- comparison ---------------------------------------------------------------------------------

func canonRows(rows []Row) []string {
	out := make([]string, len(rows))
	for i, r := range rows {
		out[i] = r.Canon()
	}
	return out
}

func diffOrdered(a, b []string) string {
	if len(a) != len(b) {
		return fmt.Sprintf("%d rows vs %d rows", len(a), len(b))
	}
	for i := range a {
		if a[i] != b[i] {
			return fmt.Sprintf("row %d differs:\n      %s\n      %s", i, a[i], b[i])
		}
	}
	return ""
}

func diffMultiset(a, b []string) string {
	if len(a) != len(b) {
		return fmt.Sprintf("%d rows vs %d rows", len(a), len(b))
	}
	as := append([]string(nil), a...)
	bs := append([]string(nil), b...)
	sort.Strings(as)
	sort.Strings(bs)
	for i := range as {
		if as[i] != bs[i] {
			return fmt.Sprintf("as multisets they differ, e.g.:\n      %s\n      %s", as[i], bs[i])
		}
	}
	return ""
}

// limitedTop returns the trailing top/rare command if it has a limit that can cut the list.
func limitedTop(chain []*Cmd) *Cmd {
	lc := chain[len(chain)-1]
	if (lc.Op == "top" || lc.Op == "rare") && lc.HasN {
		return lc
	}
	return nil
}

// diffTop compares two outputs of a limited top/rare: which values are listed at a tied cutoff is
// not defined, so rows strictly better than the cutoff count must agree and the counts must agree.
func diffTop(c *Cmd, got, want []Row) string {
	if len(got) != len(want) {
		return fmt.Sprintf("%d rows vs %d rows", len(got), len(want))
	}
	if len(got) == 0 {
		return ""
	}
	cnt := func(r Row) float64 { return r["count"].F }
	counts := func(rows []Row) []float64 {
		out := make([]float64, len(rows))
		for i, r := range rows {
			out[i] = cnt(r)
		}
		sort.Float64s(out)
		return out
	}
	ga, wa := counts(got), counts(want)
	for i := range ga {
		if ga[i] != wa[i] {
			return fmt.Sprintf("count lists differ: %v vs %v", ga, wa)
		}
	}
	cut := ga[len(ga)-1] // top: the smallest listed count is the cutoff
	if c.Op == "top" {
		cut = ga[0]
	}
	strict := func(rows []Row) []string {
		var out []string
		for _, r := range rows {
			if cnt(r) != cut {
				out = append(out, r.Canon())
			}
		}
		return out
	}
	return diffMultiset(strict(got), strict(want))
}

// modelNorm maps an engine row to the form the reference evaluator is compared in: SPL has no
// distinction between a number and its plain decimal text, nor between empty text and null, so
// those are identified; "percent" of top/rare is dropped (its rounding is not specified).
func modelNorm(rows []Row, dropPercent bool) []Row {
	out := make([]Row, len(rows))
	for i, r := range rows {
		nr := Row{}
		for k, v := range r {
			if dropPercent && k == "percent" {
				continue
			}
			if v.K == "m" {
				// a multivalue and its bracketed text rendering are not distinguished
				v = vStr(fmt.Sprint(v.MV))
			}
			if v.IsStr() {
				if v.S == "" {
					continue
				}
				if f, err := strconv.ParseFloat(v.S, 64); err == nil && fmtNum(f) == v.S {
					v = vNum(f)
				}
			}
			nr[k] = v
		}
		out[i] = nr
	}
	return dropEmpty(out)
}

// ---- non-trivial rule ---------------------------------------------------------------------------

// batchOf returns, for every table row, the index of the batch (numbered across all streams of the
// partition) that carries it.
func batchOf(p Partition, n int) []int {
	out := make([]int, n)
	if len(p.Cuts) == 1 || p.Shared {
		row, b := 0, 0
		for _, c := range p.Cuts[0] {
			for i := 0; i < c && row < n; i++ {
				out[row] = b
				row++
			}
			b++
		}
		return out
	}
	base := 0
	pos := make([]int, len(p.Cuts))
	starts := make([][]int, len(p.Cuts))
	for s, cuts := range p.Cuts {
		for bi, c := range cuts {
			for i := 0; i < c; i++ {
				starts[s] = append(starts[s], base+bi)
			}
		}
		base += len(cuts)
	}
	for i, s := range p.Assign {
		out[i] = starts[s][pos[s]]
		pos[s]++
	}
	return out
}

// cutsInsideState reports whether partition p separates rows that share state of command c
// (measured on the input table; key columns that are not table columns count as "any boundary").
func cutsInsideState(c *Cmd, tb *Table, p Partition) bool {
	n := len(tb.Rows)
	if n < 2 {
		return false
	}
	b := batchOf(p, n)
	multi := false
	for i := 1; i < n; i++ {
		if b[i] != b[0] {
			multi = true
		}
	}
	if !multi {
		return false
	}
	sharedKey := func(fields []string) bool {
		if len(fields) == 0 {
			return true
		}
		idx := make([]int, len(fields))
		for i, f := range fields {
			idx[i] = tb.colIndex(f)
			if idx[i] < 0 {
				return true
			}
		}
		first := map[string]int{}
		for r := 0; r < n; r++ {
			parts := make([]string, len(idx))
			for i, j := range idx {
				parts[i] = strconv.Quote(tb.Rows[r][j].Canon())
			}
			k := strings.Join(parts, ",")
			if fb, ok := first[k]; ok && fb != b[r] {
				return true
			}
			if _, ok := first[k]; !ok {
				first[k] = b[r]
			}
		}
		return false
	}
	switch c.Op {
	case "dedup":
		return sharedKey(c.Fields)
	case "top", "rare":
		return sharedKey(append(append([]string(nil), c.Fields...), c.By...))
	case "stats":
		return sharedKey(c.By)
	case "streamstats":
		return sharedKey(c.By)
	case "head":
		if c.Expr != nil {
			// the run of rows up to the stop (condition false/null, or the limit) shares the stop flag
			// and the counter: measured with the condition evaluated on the table rows; a condition over
			// computed columns or one the evaluator is silent on counts as "any boundary"
			out, err := modelHeadExpr(c, tb.modelRows())
			if err != nil {
				return true
			}
			stop := len(out)
			if stop >= n {
				stop = n - 1
			}
			return b[stop] != b[0]
		}
		return c.N > 0 && c.N < n && b[c.N-1] != b[0] || (c.N > 0 && c.N < n && b[c.N] != b[0])
	case "tail":
		return c.N > 0 && c.N < n && b[n-c.N] != b[n-1] || (c.N > 0 && c.N < n && b[n-c.N-1] != b[n-1])
	case "sort", "fillnull", "bin":
		return true
	}
	return false
}

// ---- the check ----------------------------------------------------------------------------------

func errClass(e string) string {
	e = firstLine(e)
	if i := strings.Index(e, ":"); i > 0 && i < 40 {
		rest := e[i+1:]
		if j := strings.LastIndex(rest, ":"); j > 0 {
			rest = rest[j+1:]
		}
		e = e[:i] + ":" + rest
	}
	if len(e) > 70 {
		e = e[:70]
	}
	return strings.TrimSpace(e)
}

func checkL1(c *l1Case, o *pt.Obs) error {
	if err := l1Init(); err != nil {
		return pt.Inconclusivef("config: %v", err)
	}
	if len(c.Chain) == 0 || len(c.Parts) == 0 {
		return pt.Inconclusivef("empty case")
	}
	tb := c.Table
	text := chainText(c.Chain)
	o.Count("rows", int64(len(tb.Rows)))
	o.Class(fmt.Sprintf("len_%d", len(c.Chain)))
	var firstStateful *Cmd
	for _, cmd := range c.Chain {
		o.Class("cmd_" + cmd.Op)
		if cmd.stateful() && firstStateful == nil {
			firstStateful = cmd
		}
		if cmd.Op == "head" && cmd.Expr != nil {
			classifyHeadExpr(cmd, o)
		}
		if cmd.Op == "streamstats" && limiterName(cmd) == "streamstats_reset" {
			o.Class("streamstats_reset")
		}
	}
	if c.Ordered {
		o.Class("order_total")
	} else {
		o.Class("order_set")
	}

	if knownSkip(c.Chain, o, false) {
		// The listed findings concern what comes behind the two-pass command or a bottleneck in front of
		// it. If the chain cut behind its first two-pass command is touched by none of them (and has no
		// bottleneck, so its row order is the input's), that part is still checked in full.
		if tp, _ := limiterBeforeTwoPass(c.Chain); tp >= 0 && tp+1 < len(c.Chain) && !knownSkip(c.Chain[:tp+1], &pt.Obs{}, false) {
			for _, cmd := range c.Chain[:tp+1] {
				if cmd.bottleneck() {
					return nil
				}
			}
			o.Class("known_finding_case/prefix_still_checked")
			cut := *c
			cut.Chain, cut.Ordered = c.Chain[:tp+1], true
			return checkL1(&cut, &pt.Obs{})
		}
		return nil
	}
	ref := runChain(text, tb, c.Parts[0])
	if strings.HasPrefix(ref.Err, "parse:") {
		return pt.Inconclusivef("generated chain does not parse: %s: %s", text, ref.Err)
	}
	if strings.HasPrefix(ref.Err, "PANIC") {
		return fmt.Errorf("chain %s\npanics on the table served as one batch:\n%s\ntable:\n%s", text, ref.Err, rowsText(tb.modelRows()))
	}
	if ref.TwoPas {
		o.Class("two_pass")
	}
	if ref.Err != "" {
		o.Class("engine_error")
		o.Class("engine_error/" + errClass(ref.Err))
	}
	if ref.Odd != "" {
		o.Class("odd_cell")
	}
	refCanon := canonRows(ref.Rows)
	lt := limitedTop(c.Chain)

	cutInside := false
	for i, p := range c.Parts[1:] {
		r := runChain(text, tb, p)
		if r.Err == "notparallel" {
			o.Class("parallel_not_applicable")
			continue
		}
		o.Class("topo_" + p.Topo)
		if p.Topo == "parallel" {
			if p.Shared {
				o.Class("topo_parallel_shared")
			} else {
				o.Class("topo_parallel_split")
			}
		}
		o.Count("partition_runs", 1)
		if firstStateful != nil && cutsInsideState(firstStateful, tb, p) {
			cutInside = true
		}
		head := fmt.Sprintf("chain: %s\npartition %d %v\nvs the same table served as one batch of one stream", text, i+1, p)
		if (r.Err != "") != (ref.Err != "") && hasHead(c.Chain) && !strings.HasPrefix(r.Err, "PANIC") {
			// A row-level evaluation error (e.g. len of a null) upstream of a head: whether the failing
			// row is ever evaluated depends on how early head stops the stream. Not asserted.
			o.Class("error_depends_on_early_exit")
			continue
		}
		if (r.Err != "") != (ref.Err != "") {
			return fmt.Errorf("%s\none run fails and the other does not:\n  partitioned: err=%q\n  one batch:   err=%q\ntable:\n%s",
				head, r.Err, ref.Err, rowsText(tb.modelRows()))
		}
		if r.Err != "" {
			continue
		}
		got := canonRows(r.Rows)
		var d string
		switch {
		case lt != nil:
			d = diffTop(lt, r.Rows, ref.Rows)
		case c.Ordered:
			d = diffOrdered(got, refCanon)
		default:
			d = diffMultiset(got, refCanon)
		}
		if d != "" {
			return fmt.Errorf("%s\noutput depends on the partition: %s\ntable:\n%s  partitioned output:\n%s  one-batch output:\n%s",
				head, d, rowsText(tb.modelRows()), rowsText(r.Rows), rowsText(ref.Rows))
		}
	}
	if len(c.Chain) >= 2 && firstStateful != nil && cutInside {
		o.NonTrivial()
		o.Class("nontrivial_" + firstStateful.Op)
	}

	// one pass / two passes: one-pass formulation and composition (twopass_test.go)
	if err := checkTwoPassL1(c, ref, o); err != nil {
		return err
	}

	// reference evaluator
	if ref.Err != "" {
		o.Class("model_skipped_engine_error")
		return nil
	}
	want, err := runModel(tb, c.Chain)
	if err != nil {
		o.Class("model_abstains")
		if a, ok := unwrapAbstain(err); ok {
			why := a.why
			if i := strings.IndexByte(why, '"'); i >= 0 {
				why = strings.TrimSpace(why[:i])
			}
			o.Class("model_abstains/" + why)
		}
		return nil
	}
	o.Class("model_checked")
	for _, cmd := range c.Chain {
		o.Class("model_checked_" + cmd.Op)
		if cmd.Op == "head" && cmd.Expr != nil {
			o.Class("model_checked_head_expr")
		}
	}
	if tp, _ := limiterBeforeTwoPass(c.Chain); tp >= 0 {
		o.Class("model_checked_two_pass_chain")
	}
	hasTop := false
	for _, cmd := range c.Chain {
		if cmd.Op == "top" || cmd.Op == "rare" {
			hasTop = true
		}
	}
	gotN := modelNorm(ref.Rows, hasTop)
	wantN := modelNorm(want, hasTop)
	var d string
	switch {
	case c.Ordered:
		d = diffOrdered(canonRows(gotN), canonRows(wantN))
	default:
		d = diffMultiset(canonRows(gotN), canonRows(wantN))
	}
	if d != "" {
		return fmt.Errorf("chain: %s\nthe output (table served as one batch) is not what the documented semantics give: %s\ntable:\n%s  engine output:\n%s  reference output:\n%s",
			text, d, rowsText(tb.modelRows()), rowsText(gotN), rowsText(wantN))
	}
	return nil
}

// knownSkip is the single place where listed open findings (known_findings.jsonl) are excluded:
// exactly the class named by the entry's predicate, and only while the entry is open.
func knownSkip(chain []*Cmd, o *pt.Obs, endToEnd bool) bool {
	for _, cmd := range chain {
		if (cmd.Op == "top" || cmd.Op == "rare") && cmd.HasN && len(cmd.By) > 0 {
			if pt.KnownFindingOpen("C06-toprare-limit-by") {
				o.Known("C06-toprare-limit-by")
				return true
			}
		}
	}
	if endToEnd {
		twoPass := false
		for _, cmd := range chain {
			if cmd.Op == "fillnull" && len(cmd.Fields) == 0 {
				twoPass = true
			}
			if cmd.Op == "sort" && twoPass {
				if pt.KnownFindingOpen("C06-twopass-then-sort-empty") {
					o.Known("C06-twopass-then-sort-empty")
					return true
				}
			}
		}
	}
	statsBy := false
	for _, cmd := range chain {
		if cmd.Op == "stats" && len(cmd.By) > 0 {
			statsBy = true
		}
		if (cmd.Op == "top" || cmd.Op == "rare") && statsBy {
			if pt.KnownFindingOpen("C06-toprare-after-stats") {
				o.Known("C06-toprare-after-stats")
				return true
			}
		}
	}
	bottleneck := false
	for _, cmd := range chain {
		switch cmd.Op {
		case "sort", "stats", "top", "rare", "tail":
			bottleneck = true
		case "fillnull":
			if bottleneck && len(cmd.Fields) == 0 {
				if pt.KnownFindingOpen("C06-twopass-after-bottleneck") {
					o.Known("C06-twopass-after-bottleneck")
					return true
				}
			}
		}
	}
	return false
}

func hasHead(chain []*Cmd) bool {
	for _, c := range chain {
		if c.Op == "head" {
			return true
		}
	}
	return false
}

func unwrapAbstain(err error) (*abstain, bool) {
	for err != nil {
		if a, ok := err.(*abstain); ok {
			return a, true
		}
		u, ok := err.(interface{ Unwrap() error })
		if !ok {
			return nil, false
		}
		err = u.Unwrap()
	}
	return nil, false
}

func TestC06L1(t *testing.T) { pt.RunProp(t, "C06", genL1, checkL1) }
