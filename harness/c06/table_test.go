package c06

import (
	"encoding/json"
	"fmt"
	"math"
	"sort"
	"strconv"
	"strings"

	"pgregory.net/rapid"

	sutils "github.com/siglens/siglens/pkg/segment/utils"
)

// ---- values -------------------------------------------------------------------------------------

// V is one cell of a table / of the reference evaluator: null, number, string or multivalue.
type V struct {
	K  string   `json:"k"` // "" null, "n" number, "s" string, "m" multivalue
	F  float64  `json:"f,omitempty"`
	S  string   `json:"s,omitempty"`
	MV []string `json:"mv,omitempty"`
}

func vNull() V           { return V{} }
func vNum(f float64) V   { return V{K: "n", F: f} }
func vStr(s string) V    { return V{K: "s", S: s} }
func vMV(xs []string) V  { return V{K: "m", MV: append([]string(nil), xs...)} }
func (v V) IsNull() bool { return v.K == "" }
func (v V) IsNum() bool  { return v.K == "n" }
func (v V) IsStr() bool  { return v.K == "s" }

// fmtNum renders a number canonically: integers exactly, everything else with 12 significant digits
// (all generated numbers are multiples of 1/4 of small magnitude, so sums are exact in float64 in
// any order; 12 digits only absorbs the last-bit noise of divisions).
func fmtNum(f float64) string {
	if f == 0 {
		return "0"
	}
	if f == math.Trunc(f) && math.Abs(f) < 1e15 {
		return strconv.FormatInt(int64(f), 10)
	}
	return strconv.FormatFloat(f, 'g', 12, 64)
}

// Canon is the canonical text of a value, used for equality between runs and against the model.
func (v V) Canon() string {
	switch v.K {
	case "n":
		return "n:" + fmtNum(v.F)
	case "s":
		return "s:" + strconv.Quote(v.S)
	case "m":
		b, _ := json.Marshal(v.MV)
		return "m:" + string(b)
	}
	return "null"
}

// Row is one record: column → value; null values are not stored (null ≡ absent).
type Row map[string]V

func (r Row) Canon() string {
	ks := make([]string, 0, len(r))
	for k, v := range r {
		if !v.IsNull() {
			ks = append(ks, k)
		}
	}
	sort.Strings(ks)
	var sb strings.Builder
	for i, k := range ks {
		if i > 0 {
			sb.WriteByte(' ')
		}
		sb.WriteString(k)
		sb.WriteByte('=')
		sb.WriteString(r[k].Canon())
	}
	return sb.String()
}

func (r Row) clone() Row {
	o := make(Row, len(r))
	for k, v := range r {
		o[k] = v
	}
	return o
}

func rowsText(rows []Row) string {
	var sb strings.Builder
	for i, r := range rows {
		fmt.Fprintf(&sb, "    %2d: %s\n", i, r.Canon())
	}
	if len(rows) == 0 {
		sb.WriteString("    (no rows)\n")
	}
	return sb.String()
}

// ---- table --------------------------------------------------------------------------------------

// Column kinds the chain generator knows about.
const (
	kNum      = "num"     // number, never null
	kNumNull  = "numnull" // number or null
	kStr      = "str"     // lower-case word, never null
	kStrNull  = "strnull" // lower-case word or null
	kText     = "text"    // structured text (k=v;k=v or comma lists) or null
	kWild     = "wild"    // numbers, numeric text, words, nulls: only ever compared metamorphically
	kMV       = "mv"      // multivalue (after makemv)
	kUniq     = "uniq"    // unique integer per row (id)
	kTime     = "time"    // the timestamp column
	tsColName = "timestamp"
	baseTs    = uint64(1_700_000_000_000)
)

type Col struct {
	Name string `json:"name"`
	Kind string `json:"kind"`
}

// Table is the full ordered input stream: Rows[i][j] is the value of column Cols[j] in row i.
// Row 0 is the first row of the stream; timestamps strictly decrease (newest first, the default order).
type Table struct {
	Cols []Col `json:"cols"`
	Rows [][]V `json:"rows"`
}

func (t *Table) colIndex(name string) int {
	for i, c := range t.Cols {
		if c.Name == name {
			return i
		}
	}
	return -1
}

func (t *Table) modelRows() []Row {
	out := make([]Row, len(t.Rows))
	for i, r := range t.Rows {
		row := Row{}
		for j, c := range t.Cols {
			if !r[j].IsNull() {
				row[c.Name] = r[j]
			}
		}
		out[i] = row
	}
	return out
}

// key pools. keyPool holds the adversarial dedup / group-by values: permuted pairs (x,y)/(y,x),
// equal pairs (x,x)/(y,y) and tuples whose concatenations collide with and without the usual
// separators: ("ab","c")/("a","bc"), ("a_b","c")/("a","b_c"), ("a","")... .
var keyPool = []string{"x", "y", "ab", "c", "a", "bc", "a_b", "b_c", "b"}
var grpPool = []string{"a", "b", "c"}
var wordPool = []string{"alice", "bob", "carol", "dave"}

func genText(t *rapid.T) V {
	switch rapid.IntRange(0, 9).Draw(t, "textKind") {
	case 0:
		return vNull()
	case 1, 2, 3, 4:
		u := rapid.SampledFrom(wordPool).Draw(t, "u")
		c := rapid.IntRange(0, 30).Draw(t, "c")
		return vStr(fmt.Sprintf("u=%s;c=%d", u, c))
	case 5, 6, 7:
		n := rapid.IntRange(1, 4).Draw(t, "nparts")
		parts := make([]string, n)
		for i := range parts {
			parts[i] = rapid.SampledFrom(keyPool).Draw(t, "part")
		}
		return vStr(strings.Join(parts, ","))
	default:
		return vStr(rapid.SampledFrom(wordPool).Draw(t, "w"))
	}
}

func genQuarter(t *rapid.T, lo, hi int) float64 {
	if rapid.IntRange(0, 3).Draw(t, "isFrac") == 0 {
		return float64(rapid.IntRange(lo*4, hi*4).Draw(t, "q")) / 4
	}
	return float64(rapid.IntRange(lo, hi).Draw(t, "i"))
}

func genWild(t *rapid.T) V {
	switch rapid.IntRange(0, 5).Draw(t, "wildKind") {
	case 0:
		return vNull()
	case 1:
		return vNum(float64(rapid.IntRange(-5, 20).Draw(t, "wi")))
	case 2:
		return vNum(genQuarter(t, -5, 20))
	case 3:
		return vStr(strconv.Itoa(rapid.IntRange(-5, 20).Draw(t, "wnt")))
	case 4:
		return vStr(rapid.SampledFrom(keyPool).Draw(t, "wk"))
	default:
		return vStr(rapid.SampledFrom([]string{"10", "9", "1e1", "abc", "2.50", ""}).Draw(t, "ws"))
	}
}

// genTable draws a table with the fixed schema
//
//	timestamp (strictly decreasing), id (unique), n (0..9), m (number|null), g (a|b|c),
//	h,k (adversarial keys|null), s (text|null), w (wild)
//
// Few distinct values per column, so duplicates straddle any batch boundary.
func genTable(t *rapid.T, minRows, maxRows int, wild bool) *Table {
	tb := &Table{Cols: []Col{
		{tsColName, kTime}, {"id", kUniq}, {"n", kNum}, {"m", kNumNull}, {"g", kStr},
		{"h", kStrNull}, {"k", kStrNull}, {"s", kText},
	}}
	if wild {
		tb.Cols = append(tb.Cols, Col{"w", kWild})
	}
	nrows := rapid.IntRange(minRows, maxRows).Draw(t, "nrows")
	nullPct := rapid.SampledFrom([]int{0, 0, 10, 30}).Draw(t, "nullPct")
	if nullPct == 0 {
		// m, h, k are never null in this table: let the chain generator know (group keys with nulls
		// are a don't-care of stats/top/rare and are only generated over null-free columns)
		tb.Cols[3].Kind, tb.Cols[5].Kind, tb.Cols[6].Kind = kNum, kStr, kStr
	}
	nRange := rapid.SampledFrom([]int{2, 4, 9}).Draw(t, "nRange")
	keyN := rapid.IntRange(2, len(keyPool)).Draw(t, "keyN")
	ts := baseTs + uint64(nrows)*1000
	for i := 0; i < nrows; i++ {
		ts -= uint64(rapid.IntRange(1, 1500).Draw(t, "dts"))
		isNull := func() bool { return nullPct > 0 && rapid.IntRange(0, 99).Draw(t, "null") < nullPct }
		row := make([]V, len(tb.Cols))
		row[0] = vNum(float64(ts))
		row[1] = vNum(float64(i + 1))
		row[2] = vNum(float64(rapid.IntRange(0, nRange).Draw(t, "n")))
		if isNull() {
			row[3] = vNull()
		} else {
			row[3] = vNum(genQuarter(t, -20, 40))
		}
		row[4] = vStr(rapid.SampledFrom(grpPool).Draw(t, "g"))
		for _, j := range []int{5, 6} {
			if isNull() {
				row[j] = vNull()
			} else {
				row[j] = vStr(keyPool[rapid.IntRange(0, keyN-1).Draw(t, "key")])
			}
		}
		row[7] = genText(t)
		if wild {
			row[8] = genWild(t)
		}
		tb.Rows = append(tb.Rows, row)
	}
	return tb
}

// ---- conversion to / from the engine's cell type --------------------------------------------------

func toCVal(v V, kind string) sutils.CValueEnclosure {
	switch v.K {
	case "n":
		if kind == kTime {
			return sutils.CValueEnclosure{Dtype: sutils.SS_DT_UNSIGNED_NUM, CVal: uint64(v.F)}
		}
		if v.F == math.Trunc(v.F) {
			return sutils.CValueEnclosure{Dtype: sutils.SS_DT_SIGNED_NUM, CVal: int64(v.F)}
		}
		return sutils.CValueEnclosure{Dtype: sutils.SS_DT_FLOAT, CVal: v.F}
	case "s":
		return sutils.CValueEnclosure{Dtype: sutils.SS_DT_STRING, CVal: v.S}
	case "m":
		return sutils.CValueEnclosure{Dtype: sutils.SS_DT_STRING_SLICE, CVal: append([]string(nil), v.MV...)}
	}
	return sutils.CValueEnclosure{Dtype: sutils.SS_DT_BACKFILL, CVal: nil}
}

// fromCVal converts an engine cell into a V. ok=false for cell types the check has no reading of.
func fromCVal(c *sutils.CValueEnclosure) (V, bool) {
	if c.Dtype == sutils.SS_DT_BACKFILL || c.Dtype == sutils.SS_INVALID || c.CVal == nil {
		return vNull(), true
	}
	switch x := c.CVal.(type) {
	case string:
		return vStr(x), true
	case int64:
		return vNum(float64(x)), true
	case uint64:
		return vNum(float64(x)), true
	case float64:
		return vNum(x), true
	case int:
		return vNum(float64(x)), true
	case int32:
		return vNum(float64(x)), true
	case uint32:
		return vNum(float64(x)), true
	case uint16:
		return vNum(float64(x)), true
	case uint8:
		return vNum(float64(x)), true
	case int16:
		return vNum(float64(x)), true
	case int8:
		return vNum(float64(x)), true
	case bool:
		return vStr(strconv.FormatBool(x)), true
	case []string:
		return vMV(x), true
	case []interface{}:
		out := make([]string, len(x))
		for i, e := range x {
			out[i] = fmt.Sprint(e)
		}
		return vMV(out), true
	}
	return vStr(fmt.Sprintf("%T:%v", c.CVal, c.CVal)), false
}
