package c06

import (
	"fmt"
	"math"
	"regexp"
	"sort"
	"strconv"
	"strings"
)

// Reference evaluator for the conservative command subset. It applies the documented SPL meaning of
// each command to the full ordered input. Wherever the documentation (or the statement) does not fix
// the answer it ABSTAINS: the case is then compared only metamorphically. An abstention carries the
// reason so that the evidence shows how often and why the model was silent.

type abstain struct{ why string }

func (a *abstain) Error() string { return "model abstains: " + a.why }

func abstainf(f string, a ...interface{}) error { return &abstain{fmt.Sprintf(f, a...)} }

// stream is the evaluator's state: the ordered rows plus the set of columns known to exist.
type stream struct {
	rows   []Row
	schema map[string]bool
	// softCols are columns that exist only if some row produced a value (rex groups): whether an
	// all-null one "exists" is not defined, which matters to fillnull without a field list.
	softCols map[string]bool
}

func looksNumeric(s string) bool {
	_, err := strconv.ParseFloat(strings.TrimSpace(s), 64)
	return err == nil
}

// ---- expressions --------------------------------------------------------------------------------

func evalExpr(e *Expr, r Row) (V, error) {
	switch e.K {
	case "num":
		return vNum(e.Num), nil
	case "str":
		return vStr(e.Str), nil
	case "field":
		v := r[e.Field]
		if v.K == "m" {
			return V{}, abstainf("multivalue field in expression")
		}
		if v.IsStr() && (looksNumeric(v.S) || v.S == "") {
			return V{}, abstainf("numeric-looking or empty text in expression")
		}
		return v, nil
	case "arith":
		a, err := evalExpr(e.Args[0], r)
		if err != nil {
			return V{}, err
		}
		b, err := evalExpr(e.Args[1], r)
		if err != nil {
			return V{}, err
		}
		if a.IsNull() || b.IsNull() {
			return vNull(), nil // arithmetic on a missing value gives no value
		}
		if !a.IsNum() || !b.IsNum() {
			return V{}, abstainf("arithmetic on text")
		}
		switch e.Op {
		case "+":
			return vNum(a.F + b.F), nil
		case "-":
			return vNum(a.F - b.F), nil
		case "*":
			return vNum(a.F * b.F), nil
		case "/":
			if b.F == 0 {
				return V{}, abstainf("division by zero")
			}
			return vNum(a.F / b.F), nil
		}
	case "len":
		a, err := evalExpr(e.Args[0], r)
		if err != nil {
			return V{}, err
		}
		if a.IsNull() {
			return V{}, abstainf("function of null")
		}
		if !a.IsStr() {
			return V{}, abstainf("len of non-text")
		}
		return vNum(float64(len(a.S))), nil
	case "lower", "upper":
		a, err := evalExpr(e.Args[0], r)
		if err != nil {
			return V{}, err
		}
		if a.IsNull() {
			return V{}, abstainf("function of null")
		}
		if !a.IsStr() {
			return V{}, abstainf("case function on non-text")
		}
		if e.K == "lower" {
			return vStr(strings.ToLower(a.S)), nil
		}
		return vStr(strings.ToUpper(a.S)), nil
	case "tostring":
		a, err := evalExpr(e.Args[0], r)
		if err != nil {
			return V{}, err
		}
		if a.IsNull() {
			return V{}, abstainf("function of null")
		}
		if !a.IsNum() {
			return V{}, abstainf("tostring of text")
		}
		if a.F != math.Trunc(a.F) {
			return V{}, abstainf("tostring of a non-integer")
		}
		return vStr(fmtNum(a.F)), nil
	case "tonumber":
		// only generated as tonumber(tostring(x))
		inner := e.Args[0]
		if inner.K != "tostring" {
			return V{}, abstainf("tonumber of arbitrary text")
		}
		a, err := evalExpr(inner.Args[0], r)
		if err != nil {
			return V{}, err
		}
		if a.IsNull() {
			return V{}, abstainf("function of null")
		}
		if !a.IsNum() {
			return V{}, abstainf("tonumber(tostring(text))")
		}
		if a.F != math.Trunc(a.F) {
			return V{}, abstainf("tostring of a non-integer")
		}
		return a, nil
	case "if":
		c, err := evalBool(e.Args[0], r)
		if err != nil {
			return V{}, err
		}
		if c {
			return evalExpr(e.Args[1], r)
		}
		return evalExpr(e.Args[2], r)
	}
	return V{}, abstainf("expression kind %q as value", e.K)
}

func evalBool(e *Expr, r Row) (bool, error) {
	switch e.K {
	case "and", "or":
		a, err := evalBool(e.Args[0], r)
		if err != nil {
			return false, err
		}
		b, err := evalBool(e.Args[1], r)
		if err != nil {
			return false, err
		}
		if e.K == "and" {
			return a && b, nil
		}
		return a || b, nil
	case "not":
		a, err := evalBool(e.Args[0], r)
		return !a, err
	case "isnull", "isnotnull":
		v := r[e.Args[0].Field]
		if v.IsStr() && v.S == "" {
			return false, abstainf("null test on empty text")
		}
		return v.IsNull() == (e.K == "isnull"), nil
	case "cmp":
		a, err := evalExpr(e.Args[0], r)
		if err != nil {
			return false, err
		}
		b, err := evalExpr(e.Args[1], r)
		if err != nil {
			return false, err
		}
		if a.IsNull() || b.IsNull() {
			// a comparison with a missing value: the property is silent (three-valued logic under NOT/OR)
			return false, abstainf("comparison with null")
		}
		if a.K != b.K {
			return false, abstainf("comparison across types")
		}
		var c int
		if a.IsNum() {
			if math.Abs(a.F-b.F) < 1e-3 && a.F != b.F {
				return false, abstainf("numbers inside the equality tolerance band")
			}
			switch {
			case a.F < b.F:
				c = -1
			case a.F > b.F:
				c = 1
			}
		} else {
			if a.S != b.S && strings.EqualFold(a.S, b.S) {
				return false, abstainf("text differing only in case")
			}
			c = strings.Compare(a.S, b.S)
		}
		switch e.Op {
		case "=":
			return c == 0, nil
		case "!=":
			return c != 0, nil
		case "<":
			return c < 0, nil
		case "<=":
			return c <= 0, nil
		case ">":
			return c > 0, nil
		case ">=":
			return c >= 0, nil
		}
	}
	return false, abstainf("expression kind %q as condition", e.K)
}

// ---- commands -----------------------------------------------------------------------------------

func keyOf(r Row, fields []string) (key string, hasNull bool, err error) {
	parts := make([]string, len(fields))
	for i, f := range fields {
		v := r[f]
		if v.IsNull() {
			hasNull = true
		}
		if v.IsStr() && (looksNumeric(v.S) || v.S == "") {
			return "", false, abstainf("key column %q holds numeric-looking or empty text", f)
		}
		if v.K == "m" {
			return "", false, abstainf("multivalue key column %q", f)
		}
		parts[i] = strconv.Quote(v.Canon())
	}
	return strings.Join(parts, ","), hasNull, nil
}

// numericInputs returns the non-null numeric values of field f over rows; abstains on anything that
// is neither a number nor null.
func numVal(r Row, f string) (float64, bool, error) {
	v := r[f]
	switch {
	case v.IsNull():
		return 0, false, nil
	case v.IsNum():
		return v.F, true, nil
	}
	return 0, false, abstainf("aggregate over non-numeric value in %q", f)
}

func aggregate(fn string, vals []float64, nrows int, hasField bool) (V, error) {
	switch fn {
	case "count":
		if hasField {
			return vNum(float64(len(vals))), nil
		}
		return vNum(float64(nrows)), nil
	}
	if len(vals) == 0 {
		return V{}, abstainf("%s over zero numeric values", fn)
	}
	switch fn {
	case "sum", "avg":
		s := 0.0
		for _, v := range vals {
			s += v
		}
		if fn == "avg" {
			return vNum(s / float64(len(vals))), nil
		}
		return vNum(s), nil
	case "min", "max":
		m := vals[0]
		for _, v := range vals[1:] {
			if (fn == "min" && v < m) || (fn == "max" && v > m) {
				m = v
			}
		}
		return vNum(m), nil
	}
	return V{}, abstainf("aggregate %s", fn)
}

func (s *stream) apply(c *Cmd) error {
	switch c.Op {
	case "where":
		var out []Row
		for _, r := range s.rows {
			ok, err := evalBool(c.Expr, r)
			if err != nil {
				return err
			}
			if ok {
				out = append(out, r)
			}
		}
		s.rows = out
	case "eval":
		for i, r := range s.rows {
			v, err := evalExpr(c.Expr, r)
			if err != nil {
				return err
			}
			nr := r.clone()
			if v.IsNull() {
				delete(nr, c.Field)
			} else {
				nr[c.Field] = v
			}
			s.rows[i] = nr
		}
		s.schema[c.Field] = true
		delete(s.softCols, c.Field)
	case "fields":
		keep := map[string]bool{}
		if c.Minus {
			for f := range s.schema {
				keep[f] = true
			}
			for _, f := range c.Fields {
				delete(keep, f)
			}
		} else {
			for _, f := range c.Fields {
				if s.schema[f] {
					keep[f] = true
				}
			}
			if s.schema[tsColName] {
				keep[tsColName] = true // the time column is always kept by "fields"
			}
		}
		for i, r := range s.rows {
			nr := Row{}
			for k, v := range r {
				if keep[k] {
					nr[k] = v
				}
			}
			s.rows[i] = nr
		}
		s.schema = keep
	case "rename":
		if s.schema[c.To] {
			return abstainf("rename onto an existing column")
		}
		for i, r := range s.rows {
			nr := r.clone()
			if v, ok := nr[c.Field]; ok {
				delete(nr, c.Field)
				nr[c.To] = v
			}
			s.rows[i] = nr
		}
		if s.schema[c.Field] {
			delete(s.schema, c.Field)
			s.schema[c.To] = true
		}
		if s.softCols[c.Field] {
			delete(s.softCols, c.Field)
			s.softCols[c.To] = true
		}
	case "fillnull":
		val := c.Str
		if val == "" {
			val = "0"
		}
		fields := c.Fields
		if len(fields) == 0 {
			for f := range s.schema {
				if s.softCols[f] {
					seen := false
					for _, r := range s.rows {
						if _, ok := r[f]; ok {
							seen = true
							break
						}
					}
					if !seen {
						return abstainf("fillnull over all columns with a column that may not exist")
					}
				}
				fields = append(fields, f)
			}
		}
		for _, f := range fields {
			if !s.schema[f] {
				return abstainf("fillnull of a column that does not exist")
			}
		}
		for i, r := range s.rows {
			nr := r.clone()
			for _, f := range fields {
				if v, ok := nr[f]; !ok || v.IsNull() {
					nr[f] = vStr(val)
				} else if v.IsStr() && v.S == "" {
					return abstainf("fillnull over empty text")
				}
			}
			s.rows[i] = nr
		}
	case "head":
		if c.Expr != nil {
			out, err := modelHeadExpr(c, s.rows)
			if err != nil {
				return err
			}
			s.rows = out
			break
		}
		if c.N < len(s.rows) {
			s.rows = s.rows[:c.N]
		}
	case "tail":
		// the last N rows, in reverse order
		start := len(s.rows) - c.N
		if start < 0 {
			start = 0
		}
		var out []Row
		for i := len(s.rows) - 1; i >= start; i-- {
			out = append(out, s.rows[i])
		}
		s.rows = out
	case "sort":
		for _, k := range c.Sort {
			kind := ""
			for _, r := range s.rows {
				v := r[k.Field]
				if v.IsNull() {
					return abstainf("sort key with nulls")
				}
				if v.K == "m" || (v.IsStr() && (looksNumeric(v.S) || v.S == "")) {
					return abstainf("sort key with numeric-looking text")
				}
				if kind == "" {
					kind = v.K
				} else if kind != v.K {
					return abstainf("sort key of mixed type")
				}
			}
		}
		var cmpErr error
		rows := append([]Row(nil), s.rows...)
		sort.SliceStable(rows, func(i, j int) bool {
			for _, k := range c.Sort {
				a, b := rows[i][k.Field], rows[j][k.Field]
				var cv int
				if a.IsNum() {
					if a.F != b.F && math.Abs(a.F-b.F) < 1e-3 {
						cmpErr = abstainf("sort keys inside the tolerance band")
					}
					switch {
					case a.F < b.F:
						cv = -1
					case a.F > b.F:
						cv = 1
					}
				} else {
					cv = strings.Compare(a.S, b.S)
				}
				if cv != 0 {
					if k.Desc {
						return cv > 0
					}
					return cv < 0
				}
			}
			return false
		})
		if cmpErr != nil {
			return cmpErr
		}
		if c.HasN && c.N < len(rows) {
			rows = rows[:c.N]
		}
		s.rows = rows
	case "dedup":
		if c.KeepEvents {
			return abstainf("dedup keepevents")
		}
		limit := 1
		if c.HasN {
			limit = c.N
		}
		if c.Consecutive && limit > 1 {
			return abstainf("dedup N>1 consecutive")
		}
		seen := map[string]int{}
		var out []Row
		prevKey, havePrev := "", false
		for _, r := range s.rows {
			key, hasNull, err := keyOf(r, c.Fields)
			if err != nil {
				return err
			}
			if hasNull {
				if c.Consecutive {
					return abstainf("dedup consecutive with null keys")
				}
				if c.KeepEmpty {
					out = append(out, r)
				}
				continue
			}
			if c.Consecutive {
				if havePrev && prevKey == key {
					continue
				}
				prevKey, havePrev = key, true
				out = append(out, r)
				continue
			}
			if seen[key] < limit {
				out = append(out, r)
			}
			seen[key]++
		}
		s.rows = out
	case "regex":
		re, err := regexp.Compile(c.Str)
		if err != nil {
			return abstainf("pattern does not compile")
		}
		var out []Row
		for _, r := range s.rows {
			v := r[c.Field]
			if !v.IsStr() || v.S == "" {
				return abstainf("regex over null, empty or non-text")
			}
			if re.MatchString(v.S) != c.Neg {
				out = append(out, r)
			}
		}
		s.rows = out
	case "rex":
		pat := strings.ReplaceAll(c.Str, "(?<", "(?P<")
		re, err := regexp.Compile(pat)
		if err != nil {
			return abstainf("pattern does not compile")
		}
		for _, gname := range c.Groups {
			if s.schema[gname] {
				return abstainf("rex onto an existing column")
			}
		}
		for i, r := range s.rows {
			v := r[c.Field]
			if v.IsNull() {
				continue
			}
			if !v.IsStr() {
				return abstainf("rex over non-text")
			}
			m := re.FindStringSubmatch(v.S)
			if m == nil {
				continue
			}
			nr := r.clone()
			for gi, gname := range re.SubexpNames() {
				if gname != "" {
					nr[gname] = vStr(m[gi])
				}
			}
			s.rows[i] = nr
		}
		for _, gname := range c.Groups {
			s.schema[gname] = true
			s.softCols[gname] = true
		}
	case "bin":
		if c.Span == 0 {
			// the span is derived from the extremes of the input by a rule of the engine (powers of ten
			// that give at most `bins` bins); only compared across partitions / formulations
			return abstainf("bin without a span")
		}
		target := c.Field
		if c.To != "" {
			if s.schema[c.To] {
				return abstainf("bin onto an existing column")
			}
			target = c.To
		}
		for i, r := range s.rows {
			v := r[c.Field]
			if v.IsNull() {
				continue
			}
			if !v.IsNum() || v.F < 0 || v.F != math.Trunc(v.F) {
				return abstainf("bin of a negative, fractional or non-numeric value")
			}
			lo := math.Floor(v.F/c.Span) * c.Span
			nr := r.clone()
			nr[target] = vStr(fmtNum(lo) + "-" + fmtNum(lo+c.Span))
			s.rows[i] = nr
		}
		s.schema[target] = true
	case "top", "rare":
		if c.HasN {
			return abstainf("top/rare with the limit option")
		}
		f := c.Fields[0]
		counts := map[string]int{}
		vals := map[string]Row{}
		var order []string
		for _, r := range s.rows {
			key, hasNull, err := keyOf(r, append(append([]string(nil), c.By...), c.Fields...))
			if err != nil {
				return err
			}
			if hasNull {
				return abstainf("top/rare over a column with nulls")
			}
			if _, ok := counts[key]; !ok {
				order = append(order, key)
				nr := Row{f: r[f]}
				for _, b := range c.By {
					nr[b] = r[b]
				}
				vals[key] = nr
			}
			counts[key]++
		}
		sort.SliceStable(order, func(i, j int) bool {
			if c.Op == "top" {
				return counts[order[i]] > counts[order[j]]
			}
			return counts[order[i]] < counts[order[j]]
		})
		var out []Row
		for _, k := range order {
			nr := vals[k]
			nr["count"] = vNum(float64(counts[k]))
			out = append(out, nr)
		}
		s.rows = out
		s.schema = map[string]bool{f: true, "count": true, "percent": true}
		for _, b := range c.By {
			s.schema[b] = true
		}
		s.softCols = map[string]bool{}
	case "streamstats":
		if c.ResetOnChange || c.ResetBefore != nil || c.ResetAfter != nil {
			return abstainf("streamstats reset options")
		}
		if c.HasN && len(c.By) > 0 && c.Global != "false" {
			return abstainf("streamstats window with by and a global window")
		}
		type ev struct {
			vals []float64 // per aggregate: value
			has  []bool
		}
		hist := map[string][]ev{} // per group: events so far (all, or the last N)
		for i, r := range s.rows {
			key := ""
			if len(c.By) > 0 {
				k, hasNull, err := keyOf(r, c.By)
				if err != nil {
					return err
				}
				if hasNull {
					return abstainf("streamstats by a column with nulls")
				}
				key = k
			}
			cur := ev{vals: make([]float64, len(c.Aggs)), has: make([]bool, len(c.Aggs))}
			for ai, a := range c.Aggs {
				if a.Field == "" {
					cur.has[ai] = true
					continue
				}
				f, ok, err := numVal(r, a.Field)
				if err != nil {
					return err
				}
				if !ok {
					return abstainf("streamstats over a null value")
				}
				cur.vals[ai], cur.has[ai] = f, true
			}
			window := hist[key]
			if !c.NoCurrent {
				window = append(append([]ev(nil), window...), cur)
			}
			if c.HasN && c.N > 0 && len(window) > c.N {
				window = window[len(window)-c.N:]
			}
			nr := r.clone()
			for ai, a := range c.Aggs {
				var vals []float64
				for _, e := range window {
					if e.has[ai] {
						vals = append(vals, e.vals[ai])
					}
				}
				if len(vals) == 0 && a.Fn != "count" {
					// No value yet (current=false on the first event of a group). Whether that is null or
					// empty text is not defined: kept as empty text, which equals null in the final
					// comparison and makes the evaluator abstain if a later command looks at it.
					nr[a.As] = vStr("")
					continue
				}
				v, err := aggregate(a.Fn, vals, len(window), a.Field != "")
				if err != nil {
					return err
				}
				nr[a.As] = v
			}
			s.rows[i] = nr
			hist[key] = append(hist[key], cur)
			if c.HasN && c.N > 0 && len(hist[key]) > c.N {
				hist[key] = hist[key][len(hist[key])-c.N:]
			}
		}
		for _, a := range c.Aggs {
			if s.schema[a.As] {
				return abstainf("streamstats onto an existing column")
			}
			s.schema[a.As] = true
		}
	case "makemv":
		for i, r := range s.rows {
			v := r[c.Field]
			if v.IsNull() {
				continue
			}
			if !v.IsStr() || v.S == "" {
				return abstainf("makemv of non-text or empty text")
			}
			parts := strings.Split(v.S, c.Str)
			for _, p := range parts {
				if p == "" {
					return abstainf("makemv producing empty values")
				}
			}
			nr := r.clone()
			nr[c.Field] = vMV(parts)
			s.rows[i] = nr
		}
	case "mvexpand":
		var out []Row
		for _, r := range s.rows {
			v := r[c.Field]
			if v.K != "m" {
				return abstainf("mvexpand of a non-multivalue")
			}
			for _, p := range v.MV {
				nr := r.clone()
				nr[c.Field] = vStr(p)
				out = append(out, nr)
			}
		}
		s.rows = out
	case "stats":
		if len(s.rows) == 0 {
			return abstainf("stats over an empty stream")
		}
		type grp struct {
			key  Row
			rows []Row
		}
		groups := map[string]*grp{}
		var order []string
		for _, r := range s.rows {
			key, hasNull, err := keyOf(r, c.By)
			if err != nil {
				return err
			}
			if hasNull {
				return abstainf("stats by a column with nulls")
			}
			g := groups[key]
			if g == nil {
				g = &grp{key: Row{}}
				for _, f := range c.By {
					g.key[f] = r[f]
				}
				groups[key] = g
				order = append(order, key)
			}
			g.rows = append(g.rows, r)
		}
		var out []Row
		for _, k := range order {
			g := groups[k]
			nr := g.key.clone()
			for _, a := range c.Aggs {
				if a.Fn == "dc" || a.Fn == "values" {
					set := map[string]bool{}
					for _, r := range g.rows {
						v := r[a.Field]
						if v.IsNull() {
							continue
						}
						if !v.IsStr() || looksNumeric(v.S) || v.S == "" {
							return abstainf("dc/values over non-text")
						}
						set[v.S] = true
					}
					if len(set) == 0 {
						return abstainf("dc/values over zero values")
					}
					if a.Fn == "dc" {
						nr[a.As] = vNum(float64(len(set)))
					} else {
						xs := make([]string, 0, len(set))
						for x := range set {
							xs = append(xs, x)
						}
						sort.Strings(xs) // values(): the distinct values in lexicographical order
						nr[a.As] = vMV(xs)
					}
					continue
				}
				var vals []float64
				for _, r := range g.rows {
					if a.Field == "" {
						continue
					}
					f, ok, err := numVal(r, a.Field)
					if err != nil {
						return err
					}
					if ok {
						vals = append(vals, f)
					} else if len(c.By) > 0 {
						// Aggregates over a group with nulls belong to the aggregation property (C04). Observed:
						// with a by clause count(field) counts the events and avg(field) divides by the number
						// of events, not of non-null values.
						return abstainf("aggregate over nulls with a by clause")
					}
				}
				v, err := aggregate(a.Fn, vals, len(g.rows), a.Field != "")
				if err != nil {
					return err
				}
				nr[a.As] = v
			}
			out = append(out, nr)
		}
		s.rows = out
		s.schema = map[string]bool{}
		for _, f := range c.By {
			s.schema[f] = true
		}
		for _, a := range c.Aggs {
			s.schema[a.As] = true
		}
		s.softCols = map[string]bool{}
	default:
		return abstainf("command %q", c.Op)
	}
	return nil
}

// runModel evaluates the chain over the table. A non-nil error is always an abstention.
func runModel(tb *Table, chain []*Cmd) ([]Row, error) {
	s := &stream{rows: tb.modelRows(), schema: map[string]bool{}, softCols: map[string]bool{}}
	for _, c := range tb.Cols {
		s.schema[c.Name] = true
	}
	for _, c := range chain {
		if err := s.apply(c); err != nil {
			return nil, fmt.Errorf("%s: %w", c.Op, err)
		}
		if len(dropEmpty(s.rows)) != len(s.rows) {
			return nil, abstainf("a row left without any field")
		}
	}
	return dropEmpty(s.rows), nil
}
