package c06

import (
	"fmt"
	"io"
	"os"
	"runtime"
	"runtime/debug"
	"sync"

	"github.com/siglens/siglens/pkg/ast/pipesearch"
	"github.com/siglens/siglens/pkg/config"
	"github.com/siglens/siglens/pkg/segment/query/iqr"
	"github.com/siglens/siglens/pkg/segment/query/processor"
	"github.com/siglens/siglens/pkg/segment/structs"
	sutils "github.com/siglens/siglens/pkg/segment/utils"
	log "github.com/sirupsen/logrus"
)

// ---- in-process configuration (production config path) -----------------------------------------

var l1Once sync.Once
var l1InitErr error

// l1Init loads the configuration through the production path (ExtractConfigData), exactly like
// the worker does; the testing configuration leaves the converted pipeline off and is not used.
func l1Init() error {
	l1Once.Do(func() {
		dir, err := os.MkdirTemp("", "c06-l1-")
		if err != nil {
			l1InitErr = err
			return
		}
		yaml := fmt.Sprintf("dataPath: %s/\nssInstanceName: verifnode\ntimestampKey: timestamp\nlog:\n  logPrefix: %s/logs/\n", dir, dir)
		cfg, err := config.ExtractConfigData([]byte(yaml))
		if err != nil {
			l1InitErr = err
			return
		}
		config.SetConfig(cfg)
		if !config.IsNewQueryPipelineEnabled() {
			l1InitErr = fmt.Errorf("production configuration does not enable the converted pipeline")
			return
		}
		log.SetOutput(io.Discard)
		log.SetLevel(log.PanicLevel)
	})
	return l1InitErr
}

// ---- partitions ---------------------------------------------------------------------------------

// Partition says how the table reaches the first command.
//
//	Topo "single":   one upstream stream.
//	Topo "mergets":  len(Cuts) upstream streams attached to the first command, which merges them with
//	                 the default merge settings (timestamp, newest first); row i goes to stream Assign[i].
//	Topo "parallel": the production wiring for GOMAXPROCS=Chains (SetupQueryParallelism: cloned chains
//	                 up to the first order-insensitive bottleneck, merged there). Shared=true: all chains
//	                 pull batches from one shared upstream (as in production); Shared=false: each chain
//	                 has its own upstream holding the rows assigned to it.
//
// Cuts[s] are the successive batch sizes of stream s (0 = an empty batch).
type Partition struct {
	Topo   string  `json:"topo"`
	Assign []int   `json:"assign,omitempty"`
	Cuts   [][]int `json:"cuts"`
	Chains int     `json:"chains,omitempty"`
	Shared bool    `json:"shared,omitempty"`
	EOFNil bool    `json:"eofNil,omitempty"` // deliver EOF with a nil batch after the last one (instead of together with it)
}

func (p Partition) String() string {
	return fmt.Sprintf("{%s chains=%d shared=%v cuts=%v assign=%v eofNil=%v}", p.Topo, p.Chains, p.Shared, p.Cuts, p.Assign, p.EOFNil)
}

// ---- synthetic upstream -------------------------------------------------------------------------

// synthStream serves rows of a table as IQR batches. Every Fetch builds a fresh IQR from fresh
// slices (processors sort and discard in place), also after Rewind.
type synthStream struct {
	mu     sync.Mutex
	tb     *Table
	rows   []int // indexes into tb.Rows, in stream order
	cuts   []int
	pos    int // next batch
	off    int // next row
	eofNil bool
	qid    uint64
}

func (s *synthStream) Fetch() (*iqr.IQR, error) {
	s.mu.Lock()
	defer s.mu.Unlock()
	if s.pos >= len(s.cuts) {
		return nil, io.EOF
	}
	n := s.cuts[s.pos]
	s.pos++
	kv := make(map[string][]sutils.CValueEnclosure, len(s.tb.Cols))
	for j, c := range s.tb.Cols {
		vals := make([]sutils.CValueEnclosure, n)
		for i := 0; i < n; i++ {
			vals[i] = toCVal(s.tb.Rows[s.rows[s.off+i]][j], c.Kind)
		}
		kv[c.Name] = vals
	}
	s.off += n
	q := iqr.NewIQR(s.qid)
	if err := q.AppendKnownValues(kv); err != nil {
		return nil, err
	}
	if s.pos >= len(s.cuts) && !s.eofNil {
		return q, io.EOF
	}
	return q, nil
}

func (s *synthStream) Rewind() {
	s.mu.Lock()
	s.pos, s.off = 0, 0
	s.mu.Unlock()
}
func (s *synthStream) Cleanup()       {}
func (s *synthStream) String() string { return "synthetic upstream" }

// ---- running one chain under one partition -------------------------------------------------------

type runResult struct {
	Rows   []Row
	Err    string // engine error / panic text; "" if none
	Odd    string // a cell type the check cannot read
	NDP    int
	Names  []string
	TwoPas bool
}

func parseChain(text string) (*structs.QueryAggregators, error) {
	_, aggs, _, err := pipesearch.ParseQuery(text, 0, "Splunk QL")
	if err != nil {
		return nil, err
	}
	if aggs == nil {
		return nil, fmt.Errorf("no pipe commands parsed")
	}
	return aggs, nil
}

func cached(s processor.Streamer) *processor.CachedStream { return processor.NewCachedStream(s) }

func connect(dps []*processor.DataProcessor) {
	for i := 1; i < len(dps); i++ {
		dps[i].SetStreams([]*processor.CachedStream{cached(dps[i-1])})
	}
}

var gmpMu sync.Mutex

// runChain parses text afresh (processors keep state inside the parsed options), wires it to the
// synthetic upstream(s) described by p and drains the last processor.
func runChain(text string, tb *Table, p Partition) (res runResult) {
	return runChainOpts(text, tb, p, runOpts{})
}

// runOpts: raw != nil serves that materialised table (one batch, topology "single") instead of tb;
// collect != nil receives the output cells exactly as the last processor hands them out.
type runOpts struct {
	raw     *rawTable
	collect *rawTable
}

func runChainOpts(text string, tb *Table, p Partition, opts runOpts) (res runResult) {
	defer func() {
		if r := recover(); r != nil {
			res.Err = fmt.Sprintf("PANIC: %v\n%s", r, debug.Stack())
		}
	}()
	newStream := func(rows []int, cuts []int) *synthStream {
		return &synthStream{tb: tb, rows: rows, cuts: cuts, eofNil: p.EOFNil}
	}
	streamRows := make([][]int, len(p.Cuts))
	if len(p.Cuts) == 1 || p.Shared {
		all := make([]int, len(tb.Rows))
		for i := range all {
			all[i] = i
		}
		streamRows[0] = all
	} else {
		for i, s := range p.Assign {
			streamRows[s] = append(streamRows[s], i)
		}
	}

	var last *processor.DataProcessor
	switch p.Topo {
	case "single", "mergets":
		aggs, err := parseChain(text)
		if err != nil {
			res.Err = "parse: " + err.Error()
			return
		}
		dps := processor.AggsToDataProcessors(aggs, nil)
		if len(dps) == 0 {
			res.Err = "no data processors"
			return
		}
		res.NDP = len(dps)
		for _, dp := range dps {
			res.Names = append(res.Names, dp.String())
			if dp.IsTwoPassCmd() {
				res.TwoPas = true
			}
		}
		connect(dps)
		var ups []*processor.CachedStream
		for s := range p.Cuts {
			ups = append(ups, cached(newStream(streamRows[s], p.Cuts[s])))
		}
		if opts.raw != nil {
			ups = []*processor.CachedStream{cached(&rawStream{rt: opts.raw})}
		}
		if len(ups) > 1 {
			dps[0].SetMergeSettingsBasedOnStream(nil) // default: merge by timestamp, newest first
		}
		dps[0].SetStreams(ups)
		last = dps[len(dps)-1]
	case "parallel":
		// Same steps as NewQueryProcessor: chainFactory → SetupQueryParallelism → connect each chain.
		var perr error
		factory := func() []*processor.DataProcessor {
			aggs, err := parseChain(text)
			if err != nil {
				perr = err
				return nil
			}
			dps := processor.AggsToDataProcessors(aggs, nil)
			for _, dp := range dps {
				// what setMergeSettings (unexported) records for a sort: its own less and limit
				if dp.IsPermutingCmd() && dp.IsMergeableBottleneckCmd() {
					dp.SetMergeSettingsBasedOnStream(dp)
				}
			}
			return dps
		}
		gmpMu.Lock()
		old := runtime.GOMAXPROCS(p.Chains)
		chains, err := processor.SetupQueryParallelism(false, factory)
		runtime.GOMAXPROCS(old)
		gmpMu.Unlock()
		if perr != nil {
			res.Err = "parse: " + perr.Error()
			return
		}
		if err != nil {
			res.Err = "SetupQueryParallelism: " + err.Error()
			return
		}
		res.NDP = len(chains[0])
		if len(chains) < 2 {
			res.Err = "notparallel"
			return
		}
		var shared *processor.CachedStream
		if p.Shared {
			shared = cached(newStream(streamRows[0], p.Cuts[0]))
		}
		mergeIdx := len(chains[1])
		// the merging processor's inputs: the last processor of every chain prefix
		var inputs []*processor.CachedStream
		for ci, ch := range chains {
			var up *processor.CachedStream
			if p.Shared {
				up = shared
			} else {
				up = cached(newStream(streamRows[ci], p.Cuts[ci]))
			}
			if mergeIdx == 0 {
				inputs = append(inputs, up)
				continue
			}
			ch[0].SetStreams([]*processor.CachedStream{up})
			for m := 1; m < mergeIdx; m++ {
				ch[m].SetStreams([]*processor.CachedStream{cached(ch[m-1])})
			}
			inputs = append(inputs, cached(processor.NewSingleThreadedStream(ch[mergeIdx-1])))
		}
		main := chains[0]
		main[mergeIdx].SetStreams(inputs)
		for m := mergeIdx + 1; m < len(main); m++ {
			var st processor.Streamer = main[m-1]
			if m == len(main)-1 {
				st = processor.NewSingleThreadedStream(st)
			}
			main[m].SetStreams([]*processor.CachedStream{cached(st)})
		}
		last = main[len(main)-1]
	default:
		res.Err = "bad topo " + p.Topo
		return
	}

	for guard := 0; ; guard++ {
		if guard > 100000 {
			res.Err = "no EOF after 100000 fetches"
			return
		}
		out, err := last.Fetch()
		if err != nil && err != io.EOF {
			res.Err = "fetch: " + err.Error()
			return
		}
		if out != nil {
			if opts.collect != nil {
				if cerr := opts.collect.appendIQR(out); cerr != nil {
					res.Err = "reading output: " + cerr.Error()
					return
				}
			}
			rows, odd, rerr := readIQR(out)
			if rerr != nil {
				res.Err = "reading output: " + rerr.Error()
				return
			}
			if odd != "" {
				res.Odd = odd
			}
			res.Rows = append(res.Rows, dropEmpty(rows)...)
		}
		if err == io.EOF {
			return
		}
	}
}

// readIQR reads the live (not deleted) columns of an output batch into rows.
func readIQR(q *iqr.IQR) ([]Row, string, error) {
	n := q.NumberOfRecords()
	if n == 0 {
		return nil, "", nil
	}
	cols, err := q.GetColumns()
	if err != nil {
		return nil, "", err
	}
	rows := make([]Row, n)
	for i := range rows {
		rows[i] = Row{}
	}
	odd := ""
	for c := range cols {
		vals, err := q.ReadColumn(c)
		if err != nil {
			return nil, "", fmt.Errorf("column %q: %v", c, err)
		}
		if vals == nil {
			continue
		}
		if len(vals) != n {
			return nil, "", fmt.Errorf("column %q has %d values in a batch of %d records", c, len(vals), n)
		}
		for i := range vals {
			v, ok := fromCVal(&vals[i])
			if !ok {
				odd = fmt.Sprintf("column %q: %s", c, v.S)
			}
			if !v.IsNull() {
				rows[i][c] = v
			}
		}
	}
	return rows, odd, nil
}

// dropEmpty removes rows without any non-null column: whether such a row exists is not observable
// in a response (the response builder drops them too).
func dropEmpty(rows []Row) []Row {
	out := rows[:0:0]
	for _, r := range rows {
		for _, v := range r {
			if !v.IsNull() {
				out = append(out, r)
				break
			}
		}
	}
	return out
}
