package c06

import (
	"encoding/json"
	"fmt"
	"os"
	"path/filepath"
	"testing"

	"verifharness/gen"
	"verifharness/pt"
)

// TestC06WriteCorpus (manual: C06_WRITE_CORPUS=<dir>) writes the hand-made regression cases of
// corpus/C06 and reports what the check says about each on the tree it was built against.
func TestC06WriteCorpus(t *testing.T) {
	dir := os.Getenv("C06_WRITE_CORPUS")
	if dir == "" {
		t.Skip("manual")
	}
	mk := func(rows ...[]V) *Table {
		tb := &Table{Cols: []Col{{tsColName, kTime}, {"id", kUniq}, {"n", kNum}, {"h", kStr}, {"k", kStr}, {"s", kText}}}
		for i, r := range rows {
			row := []V{vNum(float64(baseTs + 10000 - uint64(i)*7)), vNum(float64(i + 1))}
			tb.Rows = append(tb.Rows, append(row, r...))
		}
		return tb
	}
	r := func(n float64, h, k, s string) []V {
		vs := vNull()
		if s != "" {
			vs = vStr(s)
		}
		return []V{vNum(n), vStr(h), vStr(k), vs}
	}
	ones := func(n int) []int {
		out := make([]int, n)
		for i := range out {
			out[i] = 1
		}
		return out
	}
	single := func(n int) []Partition {
		return []Partition{{Topo: "single", Cuts: [][]int{{n}}}, {Topo: "single", Cuts: [][]int{ones(n)}}}
	}
	cases := map[string]*l1Case{}

	tb := mk(r(6, "x", "y", ""), r(3, "x", "y", ""), r(7, "x", "y", ""), r(6, "x", "y", ""), r(4, "x", "y", ""))
	cases["streamstats-window-per-batch"] = &l1Case{Table: tb, Ordered: true, Parts: single(5),
		Chain: []*Cmd{{Op: "streamstats", HasN: true, N: 2, Aggs: []Agg{{Fn: "sum", Field: "n", As: "ss1"}}}}}

	tb = mk(r(1, "a", "b_c", ""), r(1, "a_b", "c", ""), r(1, "ab", "c", ""), r(1, "a", "bc", ""))
	cases["streamstats-by-key-collision"] = &l1Case{Table: tb, Ordered: true, Parts: single(4),
		Chain: []*Cmd{{Op: "streamstats", Aggs: []Agg{{Fn: "count", As: "ss1"}}, By: []string{"h", "k"}}}}

	tb = mk(r(1, "x", "y", ""), r(1, "y", "x", ""), r(1, "x", "x", ""), r(1, "y", "y", ""), r(1, "x", "y", ""))
	cases["dedup-permuted-and-equal-tuples"] = &l1Case{Table: tb, Ordered: true, Parts: single(5),
		Chain: []*Cmd{{Op: "dedup", Fields: []string{"h", "k"}}}}

	tb = mk(r(1, "x", "y", "u=bob;c=2"), r(1, "x", "y", ""), r(1, "x", "y", "bob"))
	cases["rex-unnamed-group-column"] = &l1Case{Table: tb, Ordered: true, Parts: single(3),
		Chain: []*Cmd{{Op: "rex", Field: "s", Str: `u=(?<user1>[a-z]+);c=(?<cnt2>\d+)`, Groups: []string{"user1", "cnt2"}},
			{Op: "fillnull", Str: "0"}}}
	cases["rex-then-sort-one-row-batches"] = &l1Case{Table: tb, Ordered: true, Parts: single(3),
		Chain: []*Cmd{{Op: "rex", Field: "s", Str: `u=(?<user1>[a-z]+);c=(?<cnt2>\d+)`, Groups: []string{"user1", "cnt2"}},
			{Op: "sort", Sort: []SortKey{{Field: "id", Desc: true}}}}}

	_ = os.MkdirAll(dir, 0o755)
	for name, c := range cases {
		c.Text = chainText(c.Chain)
		cj, _ := json.Marshal(c)
		verdict := "held"
		fails := 0
		for i := 0; i < 10; i++ {
			if err := checkL1(c, &pt.Obs{}); err != nil {
				fails++
			}
		}
		if fails > 0 {
			verdict = fmt.Sprintf("VIOLATED in %d of 10 runs", fails)
		}
		env := map[string]interface{}{"property": "C06", "test": "TestC06L1", "msg": "regression case: " + name, "case": json.RawMessage(cj)}
		b, _ := json.MarshalIndent(env, "", " ")
		if err := os.WriteFile(filepath.Join(dir, name+".json"), b, 0o644); err != nil {
			t.Fatal(err)
		}
		fmt.Printf("%-40s %s   %s\n", name, verdict, c.Text)
	}
}

// TestC06WriteCorpusTwoPass (manual: C06_WRITE_CORPUS2=<dir>) writes the regression cases for a stateful
// limiter in front of a two-pass command (the stop flag of `head <bool-expr>` must be reset by Rewind).
func TestC06WriteCorpusTwoPass(t *testing.T) {
	dir := os.Getenv("C06_WRITE_CORPUS2")
	if dir == "" {
		t.Skip("manual")
	}
	// 20 rows, id = x = 1..20 along the stream, s present on every second row only (the demonstration's shape)
	tb := &Table{Cols: []Col{{tsColName, kTime}, {"id", kUniq}, {"n", kNum}, {"g", kStr}, {"s", kText}}}
	for i := 0; i < 20; i++ {
		s := vNull()
		if i%2 == 0 {
			s = vStr(fmt.Sprintf("u=alice;c=%d", i))
		}
		tb.Rows = append(tb.Rows, []V{vNum(float64(baseTs + 100000 - uint64(i)*1000)), vNum(float64(i + 1)), vNum(float64(i % 4)),
			vStr(grpPool[i%3]), s})
	}
	ones := make([]int, 20)
	for i := range ones {
		ones[i] = 1
	}
	parts := []Partition{{Topo: "single", Cuts: [][]int{{20}}}, {Topo: "single", Cuts: [][]int{ones}}, {Topo: "single", Cuts: [][]int{{4, 4, 0, 4, 4, 4}}, EOFNil: true}}
	lt := func(f string, v float64) *Expr { return eOp("cmp", "<", eField(f), eNum(v)) }
	all := []string{tsColName, "id", "n", "g", "s"}
	l1 := map[string][]*Cmd{
		"head-expr-then-fillnull-all":           {{Op: "head", Expr: lt("id", 6), HasN: true, N: 50}, {Op: "fillnull", Str: "NA", All: all}},
		"head-expr-keeplast-then-bin-no-span":   {{Op: "head", Expr: lt("id", 6), KeepLast: "true"}, {Op: "bin", Field: "id", To: "b1", HasN: true, N: 3}},
		"head-expr-limit-reached-then-fillnull": {{Op: "head", Expr: lt("id", 15), HasN: true, N: 4, Null: "true"}, {Op: "eval", Field: "e1", Expr: eOp("arith", "+", eField("n"), eNum(1))}, {Op: "fillnull", Str: "zz", All: append(append([]string(nil), all...), "e1")}},
		"dedup-then-head-expr-then-fillnull":    {{Op: "dedup", Fields: []string{"g", "n"}}, {Op: "head", Expr: eOp("cmp", "!=", eField("n"), eNum(3))}, {Op: "fillnull", Str: "none", All: all}},
	}
	_ = os.MkdirAll(dir, 0o755)
	write := func(name, test string, c interface{}, verdict string, text string) {
		cj, _ := json.Marshal(c)
		env := map[string]interface{}{"property": "C06", "test": test, "msg": "regression case: " + name, "case": json.RawMessage(cj)}
		b, _ := json.MarshalIndent(env, "", " ")
		if err := os.WriteFile(filepath.Join(dir, name+".json"), b, 0o644); err != nil {
			t.Fatal(err)
		}
		fmt.Printf("%-45s %s   %s\n", name, verdict, text)
	}
	for name, chain := range l1 {
		c := &l1Case{Table: tb, Chain: chain, Text: chainText(chain), Ordered: true, Parts: parts}
		verdict := "held"
		if err := checkL1(c, &pt.Obs{}); err != nil {
			verdict = "VIOLATED: " + firstLine(err.Error())
		}
		write(name, "TestC06L1", c, verdict, c.Text)
	}
	chain := l1["head-expr-then-fillnull-all"]
	c2 := &l2Case{Table: tb, Chain: chain, Text: chainText(chain), Ordered: true,
		Layouts: []gen.Layout{gen.ReferenceLayout(20),
			{Batches: []int{4, 4, 4, 4, 4}, Flush: []bool{true, true, true, true, true}, Rotate: []bool{false, false, false, false, false}, GoMaxProcs: 2}},
		Reverse: []bool{false, false}}
	verdict := "held"
	if err := checkL2(c2, &pt.Obs{}); err != nil {
		verdict = "VIOLATED: " + firstLine(err.Error())
	}
	write("head-expr-then-fillnull-all-end-to-end", "TestC06L2", c2, verdict, c2.Text)
}
