package c06

import (
	"errors"
	"fmt"
	"math"
	"sort"
	"strconv"
	"strings"
	"testing"

	"pgregory.net/rapid"

	"verifharness/gen"
	"verifharness/model"
	"verifharness/pt"
	"verifharness/sut"
)

// C06 layer 2 — end to end. The same chain runs as a real query over the same events stored under
// different physical layouts (batches, flushes, rotations, GOMAXPROCS → number of parallel chains);
// every layout runs in its own fresh worker. Oracles: all layouts give the same answer; where the
// reference evaluator speaks, the answer equals the evaluator's.

type l2Case struct {
	Table   *Table       `json:"table"`
	Chain   []*Cmd       `json:"chain"`
	Text    string       `json:"text"`
	Ordered bool         `json:"ordered"`
	Layouts []gen.Layout `json:"layouts"`
	Reverse []bool       `json:"reverse"` // ingest oldest first
}

const l2Index = "c06idx"

func genL2(t *rapid.T) *l2Case {
	tb := genTable(t, 1, pt.Scale(30, 80), false)
	chain, ordered := genChainOrdered(t, tb, false)
	c := &l2Case{Table: tb, Chain: chain, Text: chainText(chain), Ordered: ordered}
	n := len(tb.Rows)
	c.Layouts = append(c.Layouts, gen.ReferenceLayout(n))
	c.Reverse = append(c.Reverse, false)
	nl := rapid.IntRange(1, 2).Draw(t, "nLayouts")
	for i := 0; i < nl; i++ {
		l := gen.GenLayout(t, n)
		if i == 0 && l.GoMaxProcs == 0 {
			// make sure at least one layout runs the parallel chains
			l.GoMaxProcs = rapid.SampledFrom([]int{2, 4, 16}).Draw(t, "gomaxprocs")
		}
		c.Layouts = append(c.Layouts, l)
		c.Reverse = append(c.Reverse, rapid.Bool().Draw(t, "reverse"))
	}
	return c
}

func tableEvents(tb *Table) []*model.Event {
	evs := make([]*model.Event, len(tb.Rows))
	for i, r := range tb.Rows {
		var doc model.Node
		doc.IsObj = true
		var ts uint64
		for j, c := range tb.Cols {
			v := r[j]
			if c.Kind == kTime {
				ts = uint64(v.F)
				continue
			}
			var mv model.Val
			switch v.K {
			case "n":
				if v.F == math.Trunc(v.F) {
					mv = model.Int(int64(v.F))
				} else {
					mv = model.Float(v.F)
				}
			case "s":
				mv = model.Str(v.S)
			default:
				continue // null ≡ absent
			}
			doc.Obj = append(doc.Obj, model.Field{Name: c.Name, Node: model.LeafNode(mv)})
		}
		evs[i] = &model.Event{Vid: int64(i + 1), Ts: ts, Doc: doc}
	}
	return evs
}

func ingestLayout(c *sut.Client, evs []*model.Event, l gen.Layout) error {
	if l.CardLimit > 0 {
		if err := c.Set("cardLimit", int64(l.CardLimit)); err != nil {
			return err
		}
	}
	if l.GoMaxProcs > 0 {
		if err := c.Set("gomaxprocs", int64(l.GoMaxProcs)); err != nil {
			return err
		}
	}
	pos := 0
	for i, b := range l.Batches {
		batch := evs[pos : pos+b]
		pos += b
		br, err := c.Bulk(0, gen.BulkBody(l2Index, batch))
		if err != nil {
			return fmt.Errorf("bulk batch %d: %w", i, err)
		}
		if br.Err != "" || strings.Contains(string(br.Response), `"errors":true`) {
			return pt.Inconclusivef("bulk batch %d was not fully accepted: err=%q response=%s", i, br.Err, br.Response)
		}
		if l.Flush[i] || l.Rotate[i] || i == len(l.Batches)-1 {
			if err := c.Flush(); err != nil {
				return fmt.Errorf("flush: %w", err)
			}
		}
		if l.Rotate[i] {
			if err := c.Rotate(); err != nil {
				return fmt.Errorf("rotate: %w", err)
			}
		}
	}
	if l.FinalRot {
		if err := c.Rotate(); err != nil {
			return fmt.Errorf("rotate: %w", err)
		}
	}
	return nil
}

func tvToV(t sut.TV) V {
	switch t.Kind() {
	case 'n':
		return vNull()
	case 'i', 'u', 'f':
		f, _ := t.Float()
		return vNum(f)
	case 's':
		return vStr(t.Raw())
	case 'b':
		return vStr(t.Raw())
	case 'l':
		if xs, ok := t.List(); ok {
			return vMV(xs)
		}
		return vStr(string(t))
	case 'L':
		if xs, ok := t.List(); ok {
			out := make([]string, len(xs))
			for i, x := range xs {
				out[i] = sut.TV(x).Raw()
			}
			return vMV(out)
		}
		return vStr(string(t))
	case 'x':
		// multivalues arrive as "x:[]string:[a b c]" / "x:[]interface {}:[a b c]"
		raw := t.Raw()
		if i := strings.Index(raw, ":["); i >= 0 {
			return vStr(raw[i+1:])
		}
		return vStr(raw)
	}
	return vStr(string(t))
}

// resultRows converts a search answer into rows. _index is dropped (added by the engine).
func resultRows(sr *sut.SearchResult) []Row {
	var rows []Row
	if len(sr.Measure) > 0 || (sr.Qtype != "" && sr.Qtype != "logs-query") {
		for _, b := range sr.Measure {
			r := Row{}
			for i, name := range sr.GroupByCols {
				if i < len(b.IGroupBy) {
					if v := tvToV(b.IGroupBy[i]); !v.IsNull() {
						r[name] = v
					}
				} else if i < len(b.GroupBy) {
					r[name] = vStr(b.GroupBy[i])
				}
			}
			for k, tv := range b.Vals {
				if v := tvToV(tv); !v.IsNull() {
					r[k] = v
				}
			}
			rows = append(rows, r)
		}
		return rows
	}
	for _, rec := range sr.Records {
		r := Row{}
		for k, tv := range rec {
			if k == "_index" {
				continue
			}
			if v := tvToV(tv); !v.IsNull() {
				r[k] = v
			}
		}
		rows = append(rows, r)
	}
	return rows
}

type l2Out struct {
	rows []Row
	err  string
}

func runLayout(cs *l2Case, li int, text string) (l2Out, error) {
	outs, err := runLayoutTexts(cs, li, []string{text})
	if len(outs) == 0 {
		return l2Out{}, err
	}
	return outs[0], err
}

// runLayoutTexts stores the events under layout li in a fresh worker and asks the queries one after
// the other (one element of the result per query answered).
func runLayoutTexts(cs *l2Case, li int, texts []string) ([]l2Out, error) {
	evs := tableEvents(cs.Table)
	if cs.Reverse[li] {
		rev := make([]*model.Event, len(evs))
		for i, e := range evs {
			rev[len(evs)-1-i] = e
		}
		evs = rev
	}
	var outs []l2Out
	err := pt.WithWorker(sut.Options{}, func(c *sut.Client) error {
		if err := ingestLayout(c, evs, cs.Layouts[li]); err != nil {
			// ingest is not what this property is about: any trouble there is environment trouble
			if errors.Is(err, sut.ErrWorkerDied) {
				return pt.Inconclusivef("worker died during ingest: %s", pt.CrashDetail(c))
			}
			if _, ok := err.(*pt.Inconclusive); ok {
				return err
			}
			return pt.Inconclusivef("ingest: %v", err)
		}
		for _, text := range texts {
			var out l2Out
			sr, err := c.Search(sut.Query{Index: l2Index, Text: text, Start: baseTs - 10_000_000, End: baseTs + 10_000_000,
				Size: len(evs)*6 + 100, IncludeNulls: true})
			if err != nil {
				if errors.Is(err, sut.ErrWorkerDied) {
					return fmt.Errorf("the server process died while answering the query %s: %s", text, pt.CrashDetail(c))
				}
				if errors.Is(err, sut.ErrTimeout) {
					return pt.Inconclusivef("query timed out")
				}
				var oe *sut.OpError
				if errors.As(err, &oe) && strings.HasPrefix(oe.Msg, "PANIC") {
					return fmt.Errorf("the query %s panicked: %s", text, firstLines(oe.Msg, 30))
				}
				return pt.Inconclusivef("search call failed: %v", err)
			}
			switch {
			case sr.Err != "":
				out.err = sr.Err
			case len(sr.Errors) > 0:
				out.err = strings.Join(sr.Errors, "; ")
			default:
				out.rows = resultRows(sr)
			}
			outs = append(outs, out)
		}
		return nil
	})
	return outs, err
}

// referencedColumns returns the table columns the chain reads (all of them if a command works on
// every column).
func referencedColumns(cs *l2Case) map[string]bool {
	ref := map[string]bool{}
	all := false
	for _, c := range cs.Chain {
		if c.Expr != nil {
			c.Expr.fields(ref)
		}
		for _, f := range c.Fields {
			ref[f] = true
		}
		for _, f := range c.By {
			ref[f] = true
		}
		for _, k := range c.Sort {
			ref[k.Field] = true
		}
		for _, a := range c.Aggs {
			ref[a.Field] = true
		}
		switch c.Op {
		case "regex", "rex", "bin", "makemv", "mvexpand", "rename":
			ref[c.Field] = true
		case "fillnull":
			if len(c.Fields) == 0 {
				all = true
			}
		}
	}
	if all {
		for _, c := range cs.Table.Cols {
			ref[c.Name] = true
		}
	}
	return ref
}

// columnAbsentFromSegment names a column the chain reads that has values somewhere in the table but
// in no event of one block (flush or rotation unit) of layout li; "" if there is none.
func columnAbsentFromSegment(cs *l2Case, li int) string {
	tb, l := cs.Table, cs.Layouts[li]
	n := len(tb.Rows)
	order := make([]int, n)
	for i := range order {
		order[i] = i
		if cs.Reverse[li] {
			order[i] = n - 1 - i
		}
	}
	var segs [][]int
	var cur []int
	pos := 0
	for i, b := range l.Batches {
		cur = append(cur, order[pos:pos+b]...)
		pos += b
		if l.Rotate[i] || l.Flush[i] {
			segs = append(segs, cur)
			cur = nil
		}
	}
	if len(cur) > 0 {
		segs = append(segs, cur)
	}
	ref := referencedColumns(cs)
	for j, c := range tb.Cols {
		if c.Kind == kTime || !ref[c.Name] {
			continue
		}
		anywhere := false
		for _, r := range tb.Rows {
			if !r[j].IsNull() {
				anywhere = true
				break
			}
		}
		if !anywhere {
			continue
		}
		for _, seg := range segs {
			if len(seg) == 0 {
				continue
			}
			has := false
			for _, ri := range seg {
				if !tb.Rows[ri][j].IsNull() {
					has = true
					break
				}
			}
			if !has {
				return c.Name
			}
		}
	}
	return ""
}

func firstLines(s string, n int) string {
	lines := strings.Split(s, "\n")
	if len(lines) > n {
		lines = lines[:n]
	}
	return strings.Join(lines, "\n")
}

func layoutText(l gen.Layout, rev bool) string {
	f, r := l.Blocks()
	return fmt.Sprintf("{batches=%v flush=%v rotate=%v finalRotate=%v cardLimit=%d gomaxprocs=%d oldestFirst=%v → %d blocks, %d rotations}",
		l.Batches, l.Flush, l.Rotate, l.FinalRot, l.CardLimit, l.GoMaxProcs, rev, f, r)
}

func checkL2(cs *l2Case, o *pt.Obs) error {
	if len(cs.Chain) == 0 || len(cs.Layouts) < 2 {
		return pt.Inconclusivef("empty case")
	}
	text := chainText(cs.Chain)
	tb := cs.Table
	o.Count("rows", int64(len(tb.Rows)))
	o.Class(fmt.Sprintf("len_%d", len(cs.Chain)))
	stateful := false
	for _, cmd := range cs.Chain {
		o.Class("cmd_" + cmd.Op)
		if cmd.stateful() {
			stateful = true
		}
		if cmd.Op == "head" && cmd.Expr != nil {
			classifyHeadExpr(cmd, o)
		}
		if cmd.Op == "streamstats" && limiterName(cmd) == "streamstats_reset" {
			o.Class("streamstats_reset")
		}
	}
	// Domain: the chain only reads columns that exist in the index. A column that no event has does
	// not exist at all; what commands make of a field that exists nowhere (null, "no such field", or —
	// observed for sort/dedup after mvexpand — a server panic) is outside this property (C17/C02).
	refCols := referencedColumns(cs)
	for j, c := range tb.Cols {
		if !refCols[c.Name] || c.Kind == kTime {
			continue
		}
		exists := false
		for _, r := range tb.Rows {
			if !r[j].IsNull() {
				exists = true
				break
			}
		}
		if !exists {
			o.Class("out_of_domain/column_exists_nowhere")
			return nil
		}
	}
	if knownSkip(cs.Chain, o, true) {
		// The listed findings concern what comes behind the two-pass command (a sort) or in front of it
		// (a bottleneck). If the chain cut behind its first two-pass command is touched by none of them,
		// that part is still asked in its one-pass and its two-pass formulation.
		if tp, _ := limiterBeforeTwoPass(cs.Chain); tp >= 0 && !knownSkip(cs.Chain[:tp+1], &pt.Obs{}, true) {
			o.Class("known_finding_case/prefix_still_checked")
			cut := *cs
			cut.Chain = cs.Chain[:tp+1]
			classifyTwoPassL2(&cut, o)
			return checkOnePassL2(cs, tp, o)
		}
		return nil
	}
	lt := limitedTop(cs.Chain)
	tp := classifyTwoPassL2(cs, o)
	var ref l2Out
	multiBlock := false
	for li := range cs.Layouts {
		if col := columnAbsentFromSegment(cs, li); col != "" && pt.KnownFindingOpen("C06-column-absent-from-segment") {
			// the single place where this listed finding is excluded: exactly the layouts of its predicate
			o.Known("C06-column-absent-from-segment")
			continue
		}
		out, err := runLayout(cs, li, text)
		if err != nil {
			if _, ok := err.(*pt.Inconclusive); ok {
				return err
			}
			return fmt.Errorf("chain: %s\nlayout %d %s\n%v\ntable:\n%s", text, li, layoutText(cs.Layouts[li], cs.Reverse[li]), err, rowsText(tb.modelRows()))
		}
		if li == 0 {
			ref = out
			if out.err != "" {
				o.Class("engine_error")
				o.Class("engine_error/" + errClass(out.err))
			}
			continue
		}
		f, r := cs.Layouts[li].Blocks()
		if f >= 2 || r >= 1 {
			multiBlock = true
			o.Class("layout_multiblock")
		}
		if cs.Layouts[li].GoMaxProcs > 1 {
			o.Class("layout_parallel")
		}
		head := fmt.Sprintf("chain: %s\nlayout %d %s\nvs layout 0 %s", text, li, layoutText(cs.Layouts[li], cs.Reverse[li]),
			layoutText(cs.Layouts[0], cs.Reverse[0]))
		if (out.err != "") != (ref.err != "") && hasHead(cs.Chain) {
			o.Class("error_depends_on_early_exit")
			continue
		}
		if (out.err != "") != (ref.err != "") {
			return fmt.Errorf("%s\none layout fails and the other does not:\n  layout %d: err=%q\n  layout 0: err=%q\ntable:\n%s",
				head, li, out.err, ref.err, rowsText(tb.modelRows()))
		}
		if out.err != "" {
			continue
		}
		var d string
		switch {
		case lt != nil:
			d = diffTop(lt, out.rows, ref.rows)
		case cs.Ordered:
			d = diffOrdered(canonRows(out.rows), canonRows(ref.rows))
		default:
			d = diffMultiset(canonRows(out.rows), canonRows(ref.rows))
		}
		if d != "" {
			return fmt.Errorf("%s\nthe answer depends on the layout: %s\ntable:\n%s  layout %d answer:\n%s  layout 0 answer:\n%s",
				head, d, rowsText(tb.modelRows()), li, rowsText(out.rows), rowsText(ref.rows))
		}
	}
	if len(cs.Chain) >= 2 && stateful && multiBlock {
		o.NonTrivial()
	}
	if ref.err != "" {
		return nil
	}
	if err := checkOnePassL2(cs, tp, o); err != nil {
		return err
	}
	want, err := runModel(tb, cs.Chain)
	if err != nil {
		o.Class("model_abstains")
		return nil
	}
	o.Class("model_checked")
	hasTop := false
	for _, cmd := range cs.Chain {
		if cmd.Op == "top" || cmd.Op == "rare" {
			hasTop = true
		}
	}
	gotN := modelNorm(ref.rows, hasTop)
	wantN := modelNorm(want, hasTop)
	var d string
	switch {
	case cs.Ordered:
		d = diffOrdered(canonRows(gotN), canonRows(wantN))
	default:
		d = diffMultiset(canonRows(gotN), canonRows(wantN))
	}
	if d != "" {
		return fmt.Errorf("chain: %s\nthe answer (layout 0: one block) is not what the documented semantics give: %s\ntable:\n%s  engine answer:\n%s  reference answer:\n%s",
			text, d, rowsText(tb.modelRows()), rowsText(gotN), rowsText(wantN))
	}
	return nil
}

// one pass / two passes: `… | fillnull value=V` ≡ `… | fillnull value=V <every column>`, both asked (cut
// behind the fillnull, so that no later command hides a difference) of the reference layout (one
// block: every column of the table exists in it) in one fresh worker
func checkOnePassL2(cs *l2Case, tp int, o *pt.Obs) error {
	tb := cs.Table
	if variant := onePassVariantL2(cs.Chain, tp); variant != nil {
		ttext, vtext := chainText(cs.Chain[:tp+1]), chainText(variant[:tp+1])
		outs, err := runLayoutTexts(cs, 0, []string{ttext, vtext})
		if err != nil {
			if _, ok := err.(*pt.Inconclusive); ok {
				return err
			}
			return fmt.Errorf("chains: %s\n        %s\nlayout 0 %s\n%v\ntable:\n%s", ttext, vtext, layoutText(cs.Layouts[0], cs.Reverse[0]), err, rowsText(tb.modelRows()))
		}
		two, one := outs[0], outs[1]
		switch {
		case (two.err != "") != (one.err != "") && hasHead(cs.Chain):
			o.Class("error_depends_on_early_exit")
		case (two.err != "") != (one.err != ""):
			return fmt.Errorf("chain: %s\nand its one-pass formulation %s: one fails and the other does not (layout 0 %s):\n  two-pass: err=%q\n  one-pass: err=%q\ntable:\n%s",
				ttext, vtext, layoutText(cs.Layouts[0], cs.Reverse[0]), two.err, one.err, rowsText(tb.modelRows()))
		case two.err != "":
			o.Class("onepass_variant/engine_error")
		default:
			o.Class("onepass_variant_checked")
			// no sort/stats/top/rare/tail in front of the two-pass command (known finding, excluded above):
			// the rows are still in the order of the index
			if d := diffOrdered(canonRows(two.rows), canonRows(one.rows)); d != "" {
				return fmt.Errorf("chain: %s\nand its one-pass formulation (fillnull over the explicit list of all columns)\n       %s\nanswer differently over the same events in the same layout %s: %s\ntable:\n%s  two-pass answer:\n%s  one-pass answer:\n%s",
					ttext, vtext, layoutText(cs.Layouts[0], cs.Reverse[0]), d, rowsText(tb.modelRows()), rowsText(two.rows), rowsText(one.rows))
			}
		}
	}
	return nil
}

func TestC06L2(t *testing.T) { pt.RunProp(t, "C06", genL2, checkL2) }

var _ = sort.Strings
var _ = strconv.Itoa
