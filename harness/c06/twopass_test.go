package c06

import (
	"fmt"
	"io"
	"sort"
	"strings"
	"sync"

	"pgregory.net/rapid"

	"github.com/siglens/siglens/pkg/segment/query/iqr"
	sutils "github.com/siglens/siglens/pkg/segment/utils"

	"verifharness/pt"
)

// "…, or in one or two passes": commands with a persistent stop / limit / accumulation state in front of
// the commands that read their input twice.
//
// The pipeline knows two two-pass commands (DataProcessor.isTwoPassCmd): `fillnull` without a field
// list and `bin` without a span. When such a command finishes its first pass, DataProcessor.Fetch
// rewinds the whole chain upstream of it; every processor with cross-batch state must then start
// over: head (numRecordsSent, and for `head <bool-expr>` the stop flag options.Done), dedup
// (combinationHashes), streamstats (running window / buckets / reset state), the merge bookkeeping of
// DataProcessor (numReturned) and the cached upstreams. This file holds
//
//   - the generators of `head <bool-expr> [limit=] [null=] [keeplast=]`, `bin` without a span and the
//     streamstats reset options;
//   - the directed chain shape  [stateless] limiter [stateless] two-pass [anything], with the stop
//     condition of the limiter placed at the first row, early, in the middle, at the end, or never;
//   - two oracles that involve no semantics of the commands:
//     (1) one-pass formulation: `fillnull value=V` ≡ `fillnull value=V <every column>` (by definition),
//     (2) composition (processor level): P | Q over T ≡ Q over (the engine's own one-pass output of P
//     over T), Q starting at the first two-pass command.

// ---- generators -----------------------------------------------------------------------------------

// stopPoints: row positions (1-based ids) at the first row, early, in the middle, late, at the end and beyond.
func genStopPoint(t *rapid.T, nrows int) int {
	pts := []int{0, 1, 2, 3, 4, nrows / 4, nrows / 3, nrows / 2, nrows / 2, 2 * nrows / 3, nrows - 1, nrows, nrows + 1, nrows + 3}
	p := rapid.SampledFrom(pts).Draw(t, "stopAt")
	if p < 0 {
		p = 0
	}
	return p
}

// genHeadCond draws the condition of `head <bool-expr>`. Shapes: a position-controlled condition over
// the unique column (stops exactly where drawn), conditions over the low-cardinality columns (stop
// where the data says), conditions that turn null (nullable columns), compounds, and the general
// boolean generator.
func genHeadCond(t *rapid.T, g *gstate, nrows int) *Expr {
	var uniq string
	for _, f := range g.fields {
		if f.kind == kUniq {
			uniq = f.name
		}
	}
	byPos := func() *Expr {
		p := genStopPoint(t, nrows)
		switch rapid.IntRange(0, 2).Draw(t, "posOp") {
		case 0:
			return eOp("cmp", "<", eField(uniq), eNum(float64(p+1))) // passes p rows
		case 1:
			return eOp("cmp", "<=", eField(uniq), eNum(float64(p)))
		default:
			return eOp("cmp", "!=", eField(uniq), eNum(float64(p+1)))
		}
	}
	byData := func() *Expr {
		nums := g.ofKinds(kNum)
		strs := g.ofKinds(kStr)
		switch {
		case len(nums) > 0 && (len(strs) == 0 || rapid.Bool().Draw(t, "dataNum")):
			f := pick(t, nums, "condField")
			op := rapid.SampledFrom([]string{"!=", "!=", "!=", "<", "<=", ">", ">=", "="}).Draw(t, "condOp")
			lit := rapid.IntRange(0, 9).Draw(t, "condLit")
			// mostly conditions that hold for a while: the stop is then somewhere inside the stream
			switch {
			case (op == "<" || op == "<=") && lit < 3:
				lit += 3
			case (op == ">" || op == ">=") && lit > 3:
				lit -= 4
			}
			return eOp("cmp", op, eField(f), eNum(float64(lit)))
		case len(strs) > 0:
			f := pick(t, strs, "condField")
			op := rapid.SampledFrom([]string{"!=", "=", "!=", "<", ">"}).Draw(t, "condOp")
			pool := keyPool
			if f == "g" {
				pool = grpPool
			}
			return eOp("cmp", op, eField(f), eStr(pick(t, pool, "condLit")))
		}
		return nil
	}
	byNull := func() *Expr {
		nn := g.ofKinds(kNumNull)
		sn := g.ofKinds(kStrNull, kText)
		switch {
		case len(nn) > 0 && (len(sn) == 0 || rapid.Bool().Draw(t, "nullNum")):
			f := pick(t, nn, "condField")
			if rapid.IntRange(0, 2).Draw(t, "nullFn") == 0 {
				return eFn("isnotnull", eField(f))
			}
			return eOp("cmp", rapid.SampledFrom([]string{">", "<", "!="}).Draw(t, "condOp"), eField(f),
				eNum(float64(rapid.IntRange(-20, 40).Draw(t, "condLit"))))
		case len(sn) > 0:
			f := pick(t, sn, "condField")
			if g.kindOf(f) == kText || rapid.IntRange(0, 2).Draw(t, "nullFn") == 0 {
				return eFn(rapid.SampledFrom([]string{"isnotnull", "isnotnull", "isnull"}).Draw(t, "nullfn"), eField(f))
			}
			return eOp("cmp", "!=", eField(f), eStr(pick(t, keyPool, "condLit")))
		}
		return nil
	}
	var e *Expr
	switch k := rapid.IntRange(0, 9).Draw(t, "headCond"); {
	case k <= 3 && uniq != "":
		e = byPos()
	case k <= 5:
		e = byData()
	case k == 6:
		e = byNull()
	case k == 7 && uniq != "":
		// compound: position AND data
		if d := byData(); d != nil {
			e = eOp("and", "", byPos(), d)
			if rapid.Bool().Draw(t, "swapAnd") {
				e.Args[0], e.Args[1] = e.Args[1], e.Args[0]
			}
		}
	case k == 8:
		if d := byData(); d != nil {
			e = eFn("not", d)
		}
	}
	if e == nil {
		e = genBoolExpr(t, g, 1)
	}
	return e
}

func genHeadExpr(t *rapid.T, g *gstate, nrows int) *Cmd {
	c := &Cmd{Op: "head", Expr: genHeadCond(t, g, nrows)}
	if rapid.IntRange(0, 2).Draw(t, "headLimit") == 0 {
		c.HasN, c.N = true, genStopPoint(t, nrows)
	}
	c.Null = rapid.SampledFrom([]string{"", "", "true", "true", "false"}).Draw(t, "headNull")
	c.KeepLast = rapid.SampledFrom([]string{"", "", "true", "true", "false"}).Draw(t, "headKeeplast")
	c.OptFirst = rapid.IntRange(0, 3).Draw(t, "optFirst") == 0
	return c
}

// genBinNoSpan turns c into the two-pass form of bin: the span is derived from the minimum and the
// maximum of the whole input (first pass) and the bins option.
func genBinNoSpan(t *rapid.T, c *Cmd) {
	c.Span = 0
	switch rapid.IntRange(0, 3).Draw(t, "binOpts") {
	case 0: // plain `bin f`: 100 bins
	case 1, 2:
		c.HasN, c.N = true, rapid.SampledFrom([]int{2, 3, 5, 20}).Draw(t, "bins")
	default:
		c.HasN, c.N = true, rapid.SampledFrom([]int{2, 3, 5}).Draw(t, "bins")
		c.MinSpan = float64(rapid.SampledFrom([]int{1, 10, 100}).Draw(t, "minspan"))
	}
}

// genStreamstatsReset adds one of the reset options (state that is dropped at data-dependent rows).
func genStreamstatsReset(t *rapid.T, g *gstate, c *Cmd) {
	cond := func() *Expr {
		nums := g.ofKinds(kNum, kUniq)
		if len(nums) == 0 {
			return nil
		}
		f := pick(t, nums, "resetField")
		hi := 9
		if g.kindOf(f) == kUniq {
			hi = g.nrows + 1
		}
		op := rapid.SampledFrom([]string{"<", ">", "=", "!=", ">="}).Draw(t, "resetOp")
		return eOp("cmp", op, eField(f), eNum(float64(rapid.IntRange(0, hi).Draw(t, "resetLit"))))
	}
	switch rapid.IntRange(0, 2).Draw(t, "resetKind") {
	case 0:
		if len(c.By) > 0 {
			c.ResetOnChange = true
			return
		}
		c.ResetAfter = cond()
	case 1:
		c.ResetBefore = cond()
	default:
		c.ResetAfter = cond()
	}
}

func (g *gstate) snapshot() gstate {
	save := *g
	save.fields = append([]gfield(nil), g.fields...)
	save.uniq = append([]string(nil), g.uniq...)
	return save
}

func statelessOp(op string) bool {
	switch op {
	case "where", "eval", "fields", "rename", "regex", "rex", "makemv", "mvexpand":
		return true
	}
	return false
}

// genStateless draws one stateless one-pass command (nil if the draw gave none).
func genStateless(t *rapid.T, g *gstate, first bool, nrows int) []*Cmd {
	for tries := 0; tries < 6; tries++ {
		save := g.snapshot()
		cs := genCmd(t, g, first, false, nrows)
		ok := len(cs) > 0
		for _, c := range cs {
			if !statelessOp(c.Op) && !(c.Op == "fillnull" && len(c.Fields) > 0) && !(c.Op == "bin" && c.Span != 0) {
				ok = false
			}
		}
		if ok {
			return cs
		}
		*g = save
	}
	return nil
}

// genLimiter draws a command with persistent cross-batch state that is not a bottleneck.
func genLimiter(t *rapid.T, g *gstate, nrows int) []*Cmd {
	switch rapid.IntRange(0, 9).Draw(t, "limiter") {
	case 0, 1, 2, 3:
		return []*Cmd{genHeadExpr(t, g, nrows)}
	case 4:
		if !g.l1 && rapid.Bool().Draw(t, "l2HeadExpr") {
			// end to end there are few cases: more of them go to the shape with the most state
			return []*Cmd{genHeadExpr(t, g, nrows)}
		}
		c := &Cmd{Op: "head", N: genStopPoint(t, nrows), HasN: true, OptFirst: rapid.IntRange(0, 3).Draw(t, "limitKw") == 0}
		return []*Cmd{c}
	case 5, 6:
		for tries := 0; tries < 4; tries++ {
			if cs := genCmdOp(t, g, "dedup", false, false, nrows); cs != nil {
				return cs
			}
		}
	case 7, 8:
		for tries := 0; tries < 4; tries++ {
			if cs := genCmdOp(t, g, "streamstats", false, false, nrows); cs != nil {
				return cs
			}
		}
	default:
		// two limiters in a row: the rewind has to reach both
		a := genLimiter(t, g, nrows)
		return append(a, genHeadExpr(t, g, nrows))
	}
	return []*Cmd{genHeadExpr(t, g, nrows)}
}

// genTwoPassCmd draws one of the two two-pass commands.
func genTwoPassCmd(t *rapid.T, g *gstate, nrows int) []*Cmd {
	if rapid.IntRange(0, 2).Draw(t, "twoPassKind") == 0 {
		nums := g.ofKinds(kNum, kNumNull, kUniq)
		if len(nums) > 0 && !g.afterBottleneck {
			f := pick(t, nums, "binField")
			c := &Cmd{Op: "bin", Field: f}
			genBinNoSpan(t, c)
			if g.kindOf(f) == kUniq || rapid.Bool().Draw(t, "binAs") {
				c.To = g.fresh("b")
				g.set(c.To, kStrNull)
			} else {
				g.set(f, kStrNull)
			}
			return []*Cmd{c}
		}
	}
	val := rapid.SampledFrom([]string{"zz", "none", "0", "NA"}).Draw(t, "fillVal")
	all := g.names()
	for _, f := range g.ofKinds(kNumNull, kStrNull, kText, kWild) {
		g.set(f, fillKind(g.kindOf(f)))
	}
	return []*Cmd{{Op: "fillnull", Str: val, All: all}}
}

// genTwoPassScenario: [stateless] limiter [stateless] two-pass [0-2 further commands].
func genTwoPassScenario(t *rapid.T, g *gstate, nrows int) []*Cmd {
	var chain []*Cmd
	if rapid.IntRange(0, 2).Draw(t, "pre") == 0 {
		chain = append(chain, genStateless(t, g, true, nrows)...)
	}
	chain = append(chain, genLimiter(t, g, nrows)...)
	if rapid.IntRange(0, 2).Draw(t, "mid") == 0 {
		chain = append(chain, genStateless(t, g, false, nrows)...)
	}
	chain = append(chain, genTwoPassCmd(t, g, nrows)...)
	post := rapid.SampledFrom([]int{0, 0, 0, 1, 1, 2}).Draw(t, "post")
	for i, tries := 0, 0; i < post && tries < 8; tries++ {
		save := g.snapshot()
		cs := genCmd(t, g, false, i == post-1, nrows)
		if cs == nil {
			continue
		}
		if !g.l1 && cs[0].Op == "sort" {
			// end to end a sort behind a two-pass command is the known finding C06-twopass-then-sort-empty
			*g = save
			continue
		}
		chain = append(chain, cs...)
		i++
		if lc := chain[len(chain)-1]; (lc.Op == "top" || lc.Op == "rare") && lc.HasN {
			break
		}
	}
	return chain
}

// ---- what the chain looks like (classification) ---------------------------------------------------

// limiterBeforeTwoPass returns the index of the first two-pass command and the indexes of the
// commands with persistent state in front of it (-1, nil if there is no two-pass command).
func limiterBeforeTwoPass(chain []*Cmd) (int, []int) {
	tp := -1
	for i, c := range chain {
		if c.twoPass() {
			tp = i
			break
		}
	}
	if tp < 0 {
		return -1, nil
	}
	var lim []int
	for i := 0; i < tp; i++ {
		switch chain[i].Op {
		case "head", "dedup", "streamstats", "tail", "sort", "stats", "top", "rare":
			lim = append(lim, i)
		}
	}
	return tp, lim
}

func limiterName(c *Cmd) string {
	switch {
	case c.Op == "head" && c.Expr != nil:
		return "head_expr"
	case c.Op == "head":
		return "head_n"
	case c.Op == "streamstats" && (c.ResetOnChange || c.ResetBefore != nil || c.ResetAfter != nil):
		return "streamstats_reset"
	case c.Op == "streamstats" && c.HasN:
		return "streamstats_window"
	}
	return c.Op
}

func twoPassName(c *Cmd) string {
	if c.Op == "bin" {
		return "bin_nospan"
	}
	return "fillnull_all"
}

// stopClass names where a limiter that saw `in` rows stopped after `out` rows.
func stopClass(in, out int) string {
	switch {
	case in == 0:
		return "no_input"
	case out == 0:
		return "at_first_row"
	case out >= in:
		return "never"
	case out*3 <= in:
		return "early"
	case out*3 >= in*2:
		return "late"
	}
	return "middle"
}

// classifyStopHit: the limiter reached its stop state during the first pass (its condition turned
// false/null or its limit was reached before the input ended) AND let rows through — the situation in
// which a state that survives the rewind changes the answer of the second pass.
func classifyStopHit(c *Cmd, lname string, in, out int, o *pt.Obs) {
	if c.Op != "head" || out == 0 {
		return
	}
	if c.HasN && out == c.N && c.N < in {
		o.Class("twopass_after/" + lname + "/stopped_by_limit")
	}
	if out < in {
		o.Class("twopass_after/" + lname + "/stop_hit_with_rows")
	}
}

func classifyHeadExpr(c *Cmd, o *pt.Obs) {
	o.Class("head_expr")
	if c.HasN {
		o.Class("head_expr/limit")
	}
	if c.Null != "" {
		o.Class("head_expr/null=" + c.Null)
	}
	if c.KeepLast != "" {
		o.Class("head_expr/keeplast=" + c.KeepLast)
	}
	if c.HasN && c.Null != "" && c.KeepLast != "" {
		o.Class("head_expr/all_options")
	}
	if !c.HasN && c.Null == "" && c.KeepLast == "" {
		o.Class("head_expr/no_options")
	}
}

// ---- three-valued condition of head (reference evaluator) ------------------------------------------

// evalBool3 evaluates the condition of `head <expr>`: 1 true, 0 false, -1 null. A comparison with a
// missing value is null, NOT null is null; null inside AND/OR is left to the engine (abstains).
func evalBool3(e *Expr, r Row) (int, error) {
	switch e.K {
	case "cmp":
		for _, a := range e.Args {
			fs := map[string]bool{}
			a.fields(fs)
			for f := range fs {
				if r[f].IsNull() {
					if a.K != "field" {
						return 0, abstainf("function or arithmetic of null in a head condition")
					}
					return -1, nil
				}
			}
		}
	case "not":
		v, err := evalBool3(e.Args[0], r)
		if err != nil || v < 0 {
			return v, err
		}
		return 1 - v, nil
	case "and", "or":
		a, err := evalBool3(e.Args[0], r)
		if err != nil {
			return 0, err
		}
		b, err := evalBool3(e.Args[1], r)
		if err != nil {
			return 0, err
		}
		if a < 0 || b < 0 {
			return 0, abstainf("null inside AND/OR of a head condition")
		}
		if e.K == "and" {
			return a & b, nil
		}
		return a | b, nil
	}
	ok, err := evalBool(e, r)
	if err != nil {
		return 0, err
	}
	if ok {
		return 1, nil
	}
	return 0, nil
}

// modelHeadExpr: `head <expr> [limit=N] [null=B] [keeplast=B]` — events are returned until the
// expression is false; a null expression counts as false unless null=true; keeplast=true also returns
// the event that ended the run; at most N events in all.
func modelHeadExpr(c *Cmd, rows []Row) ([]Row, error) {
	var out []Row
	for _, r := range rows {
		if c.HasN && len(out) >= c.N {
			break
		}
		v, err := evalBool3(c.Expr, r)
		if err != nil {
			return nil, err
		}
		if v < 0 && c.Null == "true" {
			v = 1
		}
		if v != 1 {
			if c.KeepLast == "true" {
				out = append(out, r)
			}
			break
		}
		out = append(out, r)
	}
	return out, nil
}

// ---- raw materialisation of a prefix (processor level) ---------------------------------------------

// rawTable is the engine's own output of a chain: the cells exactly as the processors left them.
type rawTable struct {
	cols map[string][]sutils.CValueEnclosure
	n    int
}

func copyCell(c sutils.CValueEnclosure) sutils.CValueEnclosure {
	switch x := c.CVal.(type) {
	case []string:
		c.CVal = append([]string(nil), x...)
	case []interface{}:
		c.CVal = append([]interface{}(nil), x...)
	}
	return c
}

func (rt *rawTable) appendIQR(q *iqr.IQR) error {
	n := q.NumberOfRecords()
	cols, err := q.GetColumns()
	if err != nil {
		return err
	}
	null := sutils.CValueEnclosure{Dtype: sutils.SS_DT_BACKFILL}
	for c := range cols {
		if _, ok := rt.cols[c]; !ok {
			vals := make([]sutils.CValueEnclosure, rt.n)
			for i := range vals {
				vals[i] = null
			}
			rt.cols[c] = vals
		}
		vals, err := q.ReadColumn(c)
		if err != nil {
			return fmt.Errorf("column %q: %v", c, err)
		}
		if vals != nil && len(vals) != n {
			return fmt.Errorf("column %q has %d values in a batch of %d records", c, len(vals), n)
		}
		for i := 0; i < n; i++ {
			if vals == nil {
				rt.cols[c] = append(rt.cols[c], null)
			} else {
				rt.cols[c] = append(rt.cols[c], copyCell(vals[i]))
			}
		}
	}
	for c := range rt.cols {
		if _, ok := cols[c]; !ok {
			for i := 0; i < n; i++ {
				rt.cols[c] = append(rt.cols[c], null)
			}
		}
	}
	rt.n += n
	return nil
}

func (rt *rawTable) names() []string {
	out := make([]string, 0, len(rt.cols))
	for c := range rt.cols {
		out = append(out, c)
	}
	sort.Strings(out)
	return out
}

// rawStream serves a rawTable as one batch; fresh slices on every Fetch, also after Rewind.
type rawStream struct {
	mu   sync.Mutex
	rt   *rawTable
	done bool
}

func (s *rawStream) Fetch() (*iqr.IQR, error) {
	s.mu.Lock()
	defer s.mu.Unlock()
	if s.done {
		return nil, io.EOF
	}
	s.done = true
	kv := make(map[string][]sutils.CValueEnclosure, len(s.rt.cols))
	for c, vals := range s.rt.cols {
		cp := make([]sutils.CValueEnclosure, len(vals))
		for i := range vals {
			cp[i] = copyCell(vals[i])
		}
		kv[c] = cp
	}
	q := iqr.NewIQR(0)
	if err := q.AppendKnownValues(kv); err != nil {
		return nil, err
	}
	return q, io.EOF
}

func (s *rawStream) Rewind() {
	s.mu.Lock()
	s.done = false
	s.mu.Unlock()
}
func (s *rawStream) Cleanup()       {}
func (s *rawStream) String() string { return "materialised upstream" }

// ---- the two oracles --------------------------------------------------------------------------------

func tableRaw(tb *Table) *rawTable {
	rt := &rawTable{cols: map[string][]sutils.CValueEnclosure{}, n: len(tb.Rows)}
	for j, c := range tb.Cols {
		vals := make([]sutils.CValueEnclosure, len(tb.Rows))
		for i := range tb.Rows {
			vals[i] = toCVal(tb.Rows[i][j], c.Kind)
		}
		rt.cols[c.Name] = vals
	}
	return rt
}

func compareRuns(c []*Cmd, ordered bool, got, want []Row) string {
	if lt := limitedTop(c); lt != nil {
		return diffTop(lt, got, want)
	}
	if ordered {
		return diffOrdered(canonRows(got), canonRows(want))
	}
	return diffMultiset(canonRows(got), canonRows(want))
}

// onePassVariant returns the chain with its first two-pass fillnull replaced by the one-pass
// formulation over the given columns.
func onePassVariant(chain []*Cmd, tp int, cols []string) []*Cmd {
	out := append([]*Cmd(nil), chain...)
	v := *chain[tp]
	v.Fields = append([]string(nil), cols...)
	v.All = nil
	out[tp] = &v
	return out
}

func plainFieldName(s string) bool {
	if s == "" {
		return false
	}
	for i, r := range s {
		switch {
		case r >= 'a' && r <= 'z', r >= 'A' && r <= 'Z', r == '_':
		case r >= '0' && r <= '9' && i > 0:
		default:
			return false
		}
	}
	return true
}

// checkTwoPassL1 runs after the partitions agreed with the reference run `ref` (one stream, one batch).
func checkTwoPassL1(c *l1Case, ref runResult, o *pt.Obs) error {
	chain, tb := c.Chain, c.Table
	tp, lims := limiterBeforeTwoPass(chain)
	if tp < 0 {
		return nil
	}
	one := c.Parts[0]
	tpName := twoPassName(chain[tp])
	o.Class("twopass_cmd/" + tpName)
	if len(lims) == 0 {
		o.Class("twopass_after/no_limiter/" + tpName)
	}
	for _, li := range lims {
		lname := limiterName(chain[li])
		o.Class("twopass_after/" + lname + "/" + tpName)
		if chain[li].Op != "head" && chain[li].Op != "dedup" {
			continue
		}
		in := len(tb.Rows)
		if li > 0 {
			r := runChain(chainText(chain[:li]), tb, one)
			if r.Err != "" {
				continue
			}
			in = len(r.Rows)
		}
		r := runChain(chainText(chain[:li+1]), tb, one)
		if r.Err != "" {
			continue
		}
		o.Class("twopass_after/" + lname + "/stop_" + stopClass(in, len(r.Rows)))
		classifyStopHit(chain[li], lname, in, len(r.Rows), o)
	}
	if ref.Err != "" {
		o.Class("twopass_oracles_skipped/engine_error")
		return nil
	}

	// the engine's own one-pass output of the prefix
	rt := tableRaw(tb)
	if tp > 0 {
		rt = &rawTable{cols: map[string][]sutils.CValueEnclosure{}}
		pr := runChainOpts(chainText(chain[:tp]), tb, one, runOpts{collect: rt})
		if strings.HasPrefix(pr.Err, "PANIC") {
			return fmt.Errorf("chain %s\npanics on the table served as one batch:\n%s\ntable:\n%s", chainText(chain[:tp]), pr.Err, rowsText(tb.modelRows()))
		}
		if pr.Err != "" {
			o.Class("twopass_oracles_skipped/prefix_error")
			return nil
		}
	}

	// (2) composition: P | Q over T  ≡  Q over P(T)
	if tp > 0 {
		suffix := chainText(chain[tp:])
		sr := runChainOpts(suffix, tb, Partition{Topo: "single", Cuts: [][]int{{rt.n}}}, runOpts{raw: rt})
		switch {
		case strings.HasPrefix(sr.Err, "parse:"):
			o.Class("composition/suffix_does_not_parse")
		case sr.Err != "" && hasHead(chain) && !strings.HasPrefix(sr.Err, "PANIC"):
			o.Class("error_depends_on_early_exit")
		case sr.Err != "":
			return fmt.Errorf("chain: %s\nruns over the table, but its tail %s fails over the output of its head %s:\n  err=%q\ntable:\n%s",
				chainText(chain), suffix, chainText(chain[:tp]), sr.Err, rowsText(tb.modelRows()))
		default:
			o.Class("composition_checked")
			o.Class("composition_checked/" + tpName)
			if d := compareRuns(chain, c.Ordered, ref.Rows, sr.Rows); d != "" {
				return fmt.Errorf("chain: %s\n(table served as one batch) does not answer what its two-pass tail answers over the one-pass output of its head: %s\n"+
					"  head: %s\n  tail: %s (starts with the two-pass command, which rewinds everything upstream)\ntable:\n%s  output of the whole chain:\n%s  output of the head alone:\n%d rows, columns %v\n  output of the tail over that:\n%s",
					chainText(chain), d, chainText(chain[:tp]), suffix, rowsText(tb.modelRows()), rowsText(ref.Rows), rt.n, rt.names(), rowsText(sr.Rows))
			}
		}
	}

	// (1) one-pass formulation of fillnull over all columns
	if chain[tp].Op == "fillnull" {
		cols := rt.names()
		for _, f := range cols {
			if !plainFieldName(f) {
				o.Class("onepass_variant/column_name_not_expressible")
				return nil
			}
		}
		if len(cols) == 0 {
			o.Class("onepass_variant/no_columns")
			return nil
		}
		variant := onePassVariant(chain, tp, cols)
		vr := runChain(chainText(variant), tb, one)
		switch {
		case strings.HasPrefix(vr.Err, "parse:"):
			o.Class("onepass_variant/does_not_parse")
		case vr.Err != "" && hasHead(chain) && !strings.HasPrefix(vr.Err, "PANIC"):
			o.Class("error_depends_on_early_exit")
		case vr.Err != "":
			return fmt.Errorf("chain: %s\nruns, its one-pass formulation %s fails:\n  err=%q\ntable:\n%s", chainText(chain), chainText(variant), vr.Err, rowsText(tb.modelRows()))
		default:
			o.Class("onepass_variant_checked")
			if d := compareRuns(chain, c.Ordered, ref.Rows, vr.Rows); d != "" {
				return fmt.Errorf("chain: %s\nand its one-pass formulation (fillnull over the explicit list of all columns)\n       %s\nanswer differently over the same table (one batch): %s\ntable:\n%s  two-pass output:\n%s  one-pass output:\n%s",
					chainText(chain), chainText(variant), d, rowsText(tb.modelRows()), rowsText(ref.Rows), rowsText(vr.Rows))
			}
		}
	}
	return nil
}

// classifyTwoPassL2 records the shape classes end to end; where the limiter stops is taken from the
// reference evaluator (unknown if it abstains).
func classifyTwoPassL2(cs *l2Case, o *pt.Obs) (tp int) {
	chain := cs.Chain
	tp, lims := limiterBeforeTwoPass(chain)
	if tp < 0 {
		return tp
	}
	tpName := twoPassName(chain[tp])
	o.Class("twopass_cmd/" + tpName)
	if len(lims) == 0 {
		o.Class("twopass_after/no_limiter/" + tpName)
	}
	for _, li := range lims {
		lname := limiterName(chain[li])
		o.Class("twopass_after/" + lname + "/" + tpName)
		if chain[li].Op != "head" && chain[li].Op != "dedup" {
			continue
		}
		in, err1 := runModel(cs.Table, chain[:li])
		out, err2 := runModel(cs.Table, chain[:li+1])
		if err1 != nil || err2 != nil {
			o.Class("twopass_after/" + lname + "/stop_unknown")
			continue
		}
		o.Class("twopass_after/" + lname + "/stop_" + stopClass(len(in), len(out)))
		classifyStopHit(chain[li], lname, len(in), len(out), o)
	}
	return tp
}

// onePassVariantL2 returns the one-pass formulation of the chain for the end-to-end layer, or nil:
// the first two-pass command must be a fillnull whose live columns the generator knows exactly (no
// rex in front: a group that never matched is a column that may not exist).
func onePassVariantL2(chain []*Cmd, tp int) []*Cmd {
	if tp < 0 || chain[tp].Op != "fillnull" || len(chain[tp].All) == 0 {
		return nil
	}
	for _, c := range chain[:tp] {
		if c.Op == "rex" {
			return nil
		}
	}
	return onePassVariant(chain, tp, chain[tp].All)
}
