package c06

import (
	"fmt"
	"strconv"
	"strings"

	"pgregory.net/rapid"
)

// ---- expression AST -----------------------------------------------------------------------------

// Expr is a small typed expression tree; the oracle evaluates the tree, never the text.
//
//	K: "num" (Num) | "str" (Str) | "field" (Field) | "arith" (Op + - * /) | "cmp" (Op = != < <= > >=)
//	   | "and" | "or" | "not" | "if" | "len" | "lower" | "upper" | "tostring" | "tonumber"
//	   | "isnull" | "isnotnull"
type Expr struct {
	K     string  `json:"k"`
	Op    string  `json:"op,omitempty"`
	Num   float64 `json:"num,omitempty"`
	Str   string  `json:"str,omitempty"`
	Field string  `json:"field,omitempty"`
	Args  []*Expr `json:"args,omitempty"`
}

func eNum(f float64) *Expr           { return &Expr{K: "num", Num: f} }
func eStr(s string) *Expr            { return &Expr{K: "str", Str: s} }
func eField(f string) *Expr          { return &Expr{K: "field", Field: f} }
func eFn(k string, a ...*Expr) *Expr { return &Expr{K: k, Args: a} }
func eOp(k, op string, a, b *Expr) *Expr {
	return &Expr{K: k, Op: op, Args: []*Expr{a, b}}
}

func (e *Expr) Text() string {
	switch e.K {
	case "num":
		if e.Num < 0 {
			return "(" + fmtNum(e.Num) + ")"
		}
		return fmtNum(e.Num)
	case "str":
		return strconv.Quote(e.Str)
	case "field":
		return e.Field
	case "arith", "cmp":
		return "(" + e.Args[0].Text() + " " + e.Op + " " + e.Args[1].Text() + ")"
	case "and":
		return "(" + e.Args[0].Text() + " AND " + e.Args[1].Text() + ")"
	case "or":
		return "(" + e.Args[0].Text() + " OR " + e.Args[1].Text() + ")"
	case "not":
		return "NOT (" + e.Args[0].Text() + ")"
	case "if":
		return "if(" + e.Args[0].Text() + ", " + e.Args[1].Text() + ", " + e.Args[2].Text() + ")"
	default: // one-argument functions
		return e.K + "(" + e.Args[0].Text() + ")"
	}
}

func (e *Expr) fields(into map[string]bool) {
	if e.K == "field" {
		into[e.Field] = true
	}
	for _, a := range e.Args {
		a.fields(into)
	}
}

// ---- command AST --------------------------------------------------------------------------------

type SortKey struct {
	Field string `json:"f"`
	Desc  bool   `json:"desc,omitempty"`
}

type Agg struct {
	Fn    string `json:"fn"`              // count | sum | avg | min | max | dc | values
	Field string `json:"field,omitempty"` // "" for plain count
	As    string `json:"as"`
}

func (a Agg) Text() string {
	s := a.Fn
	if a.Field != "" {
		s += "(" + a.Field + ")"
	}
	return s + " as " + a.As
}

// Cmd is one pipeline command.
type Cmd struct {
	Op          string    `json:"op"`
	Expr        *Expr     `json:"expr,omitempty"`   // where, eval
	Field       string    `json:"field,omitempty"`  // eval target; regex/rex/bin/makemv/mvexpand field; rename source
	To          string    `json:"to,omitempty"`     // rename target; bin "as"
	Fields      []string  `json:"fields,omitempty"` // fields list; dedup keys; fillnull list; top/rare field
	By          []string  `json:"by,omitempty"`
	Minus       bool      `json:"minus,omitempty"`
	N           int       `json:"n,omitempty"`    // head/tail count; dedup N; top/rare/sort limit; window
	HasN        bool      `json:"hasN,omitempty"` // N was given
	Str         string    `json:"str,omitempty"`  // fillnull value; regex / rex pattern; makemv delim
	Neg         bool      `json:"neg,omitempty"`  // regex !=
	KeepEmpty   bool      `json:"keepempty,omitempty"`
	Consecutive bool      `json:"consecutive,omitempty"`
	KeepEvents  bool      `json:"keepevents,omitempty"`
	NoCurrent   bool      `json:"nocurrent,omitempty"` // streamstats current=false
	Global      string    `json:"global,omitempty"`    // "", "true", "false"
	Span        float64   `json:"span,omitempty"`
	Sort        []SortKey `json:"sort,omitempty"`
	Aggs        []Agg     `json:"aggs,omitempty"`
	Groups      []string  `json:"groups,omitempty"` // rex: named groups created
	// head with a boolean expression (Expr != nil): `head <expr> [limit=N] [null=…] [keeplast=…]`
	// (HasN: the limit option is given). Plain head: OptFirst renders `head limit=N`.
	Null     string `json:"null,omitempty"`     // "", "true", "false"
	KeepLast string `json:"keeplast,omitempty"` // "", "true", "false"
	OptFirst bool   `json:"optfirst,omitempty"` // options before the expression
	// bin without a span (Span == 0) is a two-pass command: `bin [bins=N] [minspan=M] f [as x]`
	MinSpan float64 `json:"minspan,omitempty"`
	// streamstats reset options
	ResetOnChange bool  `json:"resetOnChange,omitempty"`
	ResetBefore   *Expr `json:"resetBefore,omitempty"`
	ResetAfter    *Expr `json:"resetAfter,omitempty"`
	// fillnull without a field list: the columns the generator knows to be live at that point (used
	// end to end for the one-pass formulation `fillnull value=V <all columns>`)
	All []string `json:"all,omitempty"`
}

func (c *Cmd) Text() string {
	switch c.Op {
	case "where":
		return "where " + c.Expr.Text()
	case "eval":
		return "eval " + c.Field + "=" + c.Expr.Text()
	case "fields":
		if c.Minus {
			return "fields - " + strings.Join(c.Fields, ", ")
		}
		return "fields " + strings.Join(c.Fields, ", ")
	case "rename":
		return "rename " + c.Field + " as " + c.To
	case "fillnull":
		s := "fillnull"
		if c.Str != "" {
			s += " value=" + strconv.Quote(c.Str)
		}
		if len(c.Fields) > 0 {
			s += " " + strings.Join(c.Fields, " ")
		}
		return s
	case "head", "tail":
		if c.Op == "head" && c.Expr != nil {
			var opts []string
			if c.HasN {
				opts = append(opts, "limit="+strconv.Itoa(c.N))
			}
			if c.Null != "" {
				opts = append(opts, "null="+c.Null)
			}
			if c.KeepLast != "" {
				opts = append(opts, "keeplast="+c.KeepLast)
			}
			parts := append([]string{c.Expr.Text()}, opts...)
			if c.OptFirst {
				parts = append(opts, c.Expr.Text())
			}
			return "head " + strings.Join(parts, " ")
		}
		if c.Op == "head" && c.OptFirst {
			return "head limit=" + strconv.Itoa(c.N)
		}
		return c.Op + " " + strconv.Itoa(c.N)
	case "sort":
		s := "sort "
		if c.HasN {
			s += strconv.Itoa(c.N) + " "
		}
		ks := make([]string, len(c.Sort))
		for i, k := range c.Sort {
			if k.Desc {
				ks[i] = "-" + k.Field
			} else {
				ks[i] = "+" + k.Field
			}
		}
		return s + strings.Join(ks, ", ")
	case "dedup":
		s := "dedup "
		if c.HasN {
			s += strconv.Itoa(c.N) + " "
		}
		s += strings.Join(c.Fields, " ")
		if c.KeepEmpty {
			s += " keepempty=true"
		}
		if c.Consecutive {
			s += " consecutive=true"
		}
		if c.KeepEvents {
			s += " keepevents=true"
		}
		return s
	case "regex":
		op := "="
		if c.Neg {
			op = "!="
		}
		return "regex " + c.Field + op + `"` + c.Str + `"`
	case "rex":
		return "rex field=" + c.Field + ` "` + c.Str + `"`
	case "bin":
		s := "bin span=" + fmtNum(c.Span) + " " + c.Field
		if c.Span == 0 {
			s = "bin "
			if c.HasN {
				s += "bins=" + strconv.Itoa(c.N) + " "
			}
			if c.MinSpan > 0 {
				s += "minspan=" + fmtNum(c.MinSpan) + " "
			}
			s += c.Field
		}
		if c.To != "" {
			s += " as " + c.To
		}
		return s
	case "top", "rare":
		s := c.Op
		if c.HasN {
			s += " limit=" + strconv.Itoa(c.N)
		}
		s += " " + strings.Join(c.Fields, ", ")
		if len(c.By) > 0 {
			s += " by " + strings.Join(c.By, ", ")
		}
		return s
	case "streamstats":
		s := "streamstats"
		if c.NoCurrent {
			s += " current=false"
		}
		if c.HasN {
			s += " window=" + strconv.Itoa(c.N)
		}
		if c.Global != "" {
			s += " global=" + c.Global
		}
		if c.ResetOnChange {
			s += " reset_on_change=true"
		}
		if c.ResetBefore != nil {
			s += " reset_before=(" + c.ResetBefore.Text() + ")"
		}
		if c.ResetAfter != nil {
			s += " reset_after=(" + c.ResetAfter.Text() + ")"
		}
		as := make([]string, len(c.Aggs))
		for i, a := range c.Aggs {
			as[i] = a.Text()
		}
		s += " " + strings.Join(as, ", ")
		if len(c.By) > 0 {
			s += " by " + strings.Join(c.By, ", ")
		}
		return s
	case "stats":
		as := make([]string, len(c.Aggs))
		for i, a := range c.Aggs {
			as[i] = a.Text()
		}
		s := "stats " + strings.Join(as, ", ")
		if len(c.By) > 0 {
			s += " by " + strings.Join(c.By, ", ")
		}
		return s
	case "makemv":
		return "makemv delim=" + strconv.Quote(c.Str) + " " + c.Field
	case "mvexpand":
		return "mvexpand " + c.Field
	}
	return "??" + c.Op
}

func chainText(chain []*Cmd) string {
	parts := make([]string, len(chain))
	for i, c := range chain {
		parts[i] = c.Text()
	}
	return "* | " + strings.Join(parts, " | ")
}

// stateful reports whether the command keeps state across batches (its answer for a row depends
// on other rows).
func (c *Cmd) stateful() bool {
	switch c.Op {
	case "dedup", "head", "tail", "sort", "streamstats", "top", "rare", "stats":
		return true
	case "fillnull", "bin":
		return c.twoPass()
	}
	return false
}

// twoPass reports whether the command reads its input twice (DataProcessor.isTwoPassCmd): fillnull
// without a field list (first pass: learn the columns) and bin without a span (first pass: min/max).
func (c *Cmd) twoPass() bool {
	switch c.Op {
	case "fillnull":
		return len(c.Fields) == 0
	case "bin":
		return c.Span == 0
	}
	return false
}

// bottleneck: the commands named by the known finding C06-twopass-after-bottleneck.
func (c *Cmd) bottleneck() bool {
	switch c.Op {
	case "sort", "stats", "top", "rare", "tail":
		return true
	}
	return false
}

// ---- chain generator ----------------------------------------------------------------------------

type gfield struct {
	name string
	kind string
}

// gstate is what the generator knows about the stream after the commands generated so far.
type gstate struct {
	fields  []gfield
	ordered bool     // the row order is a deterministic function of the input stream
	uniq    []string // columns whose value tuple is unique per row (nil: none known)
	nextID  int
	hasMV   bool
	l1      bool // generating for the processor-level layer
	// afterBottleneck: a sort/stats/top/rare/tail has been generated. A two-pass command behind one is
	// the known finding C06-twopass-after-bottleneck (stated for fillnull; `sort … | bin f` without a
	// span loses rows under parallel chains in the same way), so bin without a span is not placed there.
	afterBottleneck bool
	nrows           int
}

func (g *gstate) names() []string {
	out := make([]string, len(g.fields))
	for i, f := range g.fields {
		out[i] = f.name
	}
	return out
}

func (g *gstate) has(name string) bool {
	for _, f := range g.fields {
		if f.name == name {
			return true
		}
	}
	return false
}

func (g *gstate) ofKinds(kinds ...string) []string {
	var out []string
	for _, f := range g.fields {
		for _, k := range kinds {
			if f.kind == k {
				out = append(out, f.name)
				break
			}
		}
	}
	return out
}

func (g *gstate) kindOf(name string) string {
	for _, f := range g.fields {
		if f.name == name {
			return f.kind
		}
	}
	return ""
}

// touch records that the values of a column were rewritten: it no longer contributes to uniqueness.
func (g *gstate) touch(name string) {
	for _, u := range g.uniq {
		if u == name {
			g.uniq = nil
		}
	}
}

func (g *gstate) set(name, kind string) {
	g.touch(name)
	for i, f := range g.fields {
		if f.name == name {
			g.fields[i].kind = kind
			return
		}
	}
	g.fields = append(g.fields, gfield{name, kind})
}

func (g *gstate) del(name string) {
	for i, f := range g.fields {
		if f.name == name {
			g.fields = append(g.fields[:i:i], g.fields[i+1:]...)
			break
		}
	}
	for _, u := range g.uniq {
		if u == name {
			g.uniq = nil
		}
	}
}

func (g *gstate) fresh(prefix string) string {
	g.nextID++
	return fmt.Sprintf("%s%d", prefix, g.nextID)
}

func pick(t *rapid.T, xs []string, label string) string {
	return xs[rapid.IntRange(0, len(xs)-1).Draw(t, label)]
}

func pickSome(t *rapid.T, xs []string, min, max int, label string) []string {
	if max > len(xs) {
		max = len(xs)
	}
	if min > max {
		min = max
	}
	n := rapid.IntRange(min, max).Draw(t, label+"N")
	perm := append([]string(nil), xs...)
	out := make([]string, 0, n)
	for i := 0; i < n; i++ {
		j := rapid.IntRange(i, len(perm)-1).Draw(t, label)
		perm[i], perm[j] = perm[j], perm[i]
		out = append(out, perm[i])
	}
	return out
}

// genNumExpr draws an arithmetic expression over numeric fields.
func genNumExpr(t *rapid.T, g *gstate, depth int) *Expr {
	nums := g.ofKinds(kNum, kNumNull, kUniq)
	k := rapid.IntRange(0, 5).Draw(t, "numExprKind")
	if depth <= 0 || len(nums) == 0 {
		if len(nums) == 0 || k == 0 {
			return eNum(float64(rapid.IntRange(-3, 12).Draw(t, "lit")))
		}
		return eField(pick(t, nums, "numField"))
	}
	switch k {
	case 0, 1, 2:
		op := rapid.SampledFrom([]string{"+", "-", "*", "+", "-", "*", "/"}).Draw(t, "arith")
		l := genNumExpr(t, g, depth-1)
		var r *Expr
		if op == "/" {
			r = eNum(float64(rapid.SampledFrom([]int{2, 4, 8}).Draw(t, "div")))
		} else {
			r = genNumExpr(t, g, depth-1)
		}
		return eOp("arith", op, l, r)
	case 3:
		if strs := g.ofKinds(kStr, kStrNull); len(strs) > 0 {
			return eFn("len", eField(pick(t, strs, "lenField")))
		}
		return eField(pick(t, nums, "numField"))
	case 4:
		return eFn("tonumber", eFn("tostring", eField(pick(t, nums, "numField"))))
	default:
		return eField(pick(t, nums, "numField"))
	}
}

func genBoolExpr(t *rapid.T, g *gstate, depth int) *Expr {
	nums := g.ofKinds(kNum, kNumNull, kUniq)
	strs := g.ofKinds(kStr, kStrNull)
	anyf := g.ofKinds(kNumNull, kStrNull, kText, kWild)
	k := rapid.IntRange(0, 9).Draw(t, "boolKind")
	if depth > 0 && k <= 2 {
		a, b := genBoolExpr(t, g, depth-1), genBoolExpr(t, g, depth-1)
		switch k {
		case 0:
			return eOp("and", "", a, b)
		case 1:
			return eOp("or", "", a, b)
		default:
			if a.K == "not" {
				return a // the grammar does not accept NOT (NOT (...))
			}
			return eFn("not", a)
		}
	}
	switch {
	case k <= 6 && len(nums) > 0:
		op := rapid.SampledFrom([]string{"=", "!=", "<", "<=", ">", ">="}).Draw(t, "cmp")
		return eOp("cmp", op, genNumExpr(t, g, 1), genNumExpr(t, g, 0))
	case k <= 8 && len(strs) > 0:
		f := pick(t, strs, "strField")
		op := rapid.SampledFrom([]string{"=", "!=", "=", "<", ">"}).Draw(t, "scmp")
		pool := keyPool
		if g.kindOf(f) == kStr {
			pool = append(append([]string(nil), grpPool...), "hi", "lo")
		}
		return eOp("cmp", op, eField(f), eStr(pick(t, pool, "strLit")))
	case len(anyf) > 0:
		return eFn(rapid.SampledFrom([]string{"isnull", "isnotnull"}).Draw(t, "nullfn"), eField(pick(t, anyf, "nullField")))
	case len(nums) > 0:
		return eOp("cmp", ">", eField(pick(t, nums, "numField")), eNum(2))
	}
	return eOp("cmp", "=", eNum(1), eNum(1))
}

var cmdMenu = []string{
	"where", "where", "eval", "eval", "fields", "rename", "fillnull", "head", "head", "tail", "sort", "sort",
	"dedup", "dedup", "dedup", "regex", "rex", "bin", "top", "rare", "streamstats", "streamstats", "streamstats",
	"makemv", "mvexpand", "stats", "stats",
}

func genCmd(t *rapid.T, g *gstate, first, last bool, nrows int) []*Cmd {
	return genCmdOp(t, g, rapid.SampledFrom(cmdMenu).Draw(t, "op"), first, last, nrows)
}

func genCmdOp(t *rapid.T, g *gstate, op string, first, last bool, nrows int) []*Cmd {
	nums := g.ofKinds(kNum, kNumNull, kUniq)
	strs := g.ofKinds(kStr, kStrNull)
	switch op {
	case "where":
		return []*Cmd{{Op: "where", Expr: genBoolExpr(t, g, 2)}}
	case "eval":
		var e *Expr
		var kind string
		switch rapid.IntRange(0, 5).Draw(t, "evalKind") {
		case 0, 1, 2:
			e = genNumExpr(t, g, 2)
			kind = kNumNull
		case 3:
			e = eFn("if", genBoolExpr(t, g, 1), eStr("hi"), eStr("lo"))
			kind = kStrNull
		case 4:
			if len(strs) == 0 {
				return nil
			}
			e = eFn(rapid.SampledFrom([]string{"lower", "upper"}).Draw(t, "casefn"), eField(pick(t, strs, "caseField")))
			kind = kStrNull
		default:
			if len(nums) == 0 {
				return nil
			}
			e = eFn("tostring", eField(pick(t, nums, "tsField")))
			kind = kStrNull
		}
		target := g.fresh("e")
		if over := g.ofKinds(kNumNull, kStrNull, kWild); len(over) > 0 && rapid.IntRange(0, 4).Draw(t, "overwrite") == 0 {
			target = pick(t, over, "evalTarget")
		}
		g.set(target, kind)
		return []*Cmd{{Op: "eval", Field: target, Expr: e}}
	case "fields":
		var cand []string
		for _, f := range g.fields {
			if f.kind != kTime {
				cand = append(cand, f.name)
			}
		}
		if len(cand) < 2 {
			return nil
		}
		minus := rapid.Bool().Draw(t, "minus")
		if minus {
			del := pickSome(t, cand, 1, 3, "delField")
			for _, d := range del {
				g.del(d)
			}
			return []*Cmd{{Op: "fields", Minus: true, Fields: del}}
		}
		keep := pickSome(t, cand, 1, 5, "keepField")
		// keep the unique column most of the time so that later sorts can be total
		if len(g.uniq) == 1 && rapid.IntRange(0, 3).Draw(t, "keepUniq") > 0 {
			found := false
			for _, k := range keep {
				if k == g.uniq[0] {
					found = true
				}
			}
			if !found {
				keep = append(keep, g.uniq[0])
			}
		}
		kept := map[string]bool{}
		for _, k := range keep {
			kept[k] = true
		}
		for _, f := range append([]gfield(nil), g.fields...) {
			if !kept[f.name] && f.kind != kTime {
				g.del(f.name)
			}
		}
		return []*Cmd{{Op: "fields", Fields: keep}}
	case "rename":
		var cand []string
		for _, f := range g.fields {
			if f.kind != kTime {
				cand = append(cand, f.name)
			}
		}
		if len(cand) == 0 {
			return nil
		}
		src := pick(t, cand, "renameSrc")
		dst := g.fresh("r")
		kind := g.kindOf(src)
		for i, f := range g.fields {
			if f.name == src {
				g.fields[i] = gfield{dst, kind}
			}
		}
		for i, u := range g.uniq {
			if u == src {
				g.uniq[i] = dst
			}
		}
		return []*Cmd{{Op: "rename", Field: src, To: dst}}
	case "fillnull":
		val := rapid.SampledFrom([]string{"zz", "none", "0", ""}).Draw(t, "fillVal")
		nullable := g.ofKinds(kNumNull, kStrNull, kText, kWild)
		if len(nullable) > 0 && rapid.IntRange(0, 2).Draw(t, "fillAll") > 0 {
			fs := pickSome(t, nullable, 1, 3, "fillField")
			for _, f := range fs {
				g.set(f, fillKind(g.kindOf(f)))
			}
			return []*Cmd{{Op: "fillnull", Str: val, Fields: fs}}
		}
		all := g.names()
		for _, f := range nullable {
			g.set(f, fillKind(g.kindOf(f)))
		}
		return []*Cmd{{Op: "fillnull", Str: val, All: all}}
	case "head", "tail":
		if !g.ordered {
			return nil
		}
		if op == "head" && rapid.IntRange(0, 2).Draw(t, "headExpr") == 0 {
			return []*Cmd{genHeadExpr(t, g, nrows)}
		}
		if op == "tail" {
			g.afterBottleneck = true
		}
		c := &Cmd{Op: op, N: rapid.IntRange(0, nrows+2).Draw(t, "n"), HasN: true}
		if op == "head" && rapid.IntRange(0, 5).Draw(t, "limitKw") == 0 {
			c.OptFirst = true // `head limit=N`
		}
		return []*Cmd{c}
	case "sort":
		cand := g.ofKinds(kNum, kNumNull, kStr, kStrNull, kWild, kUniq, kTime)
		if len(cand) == 0 {
			return nil
		}
		var keys []SortKey
		used := map[string]bool{}
		for _, f := range pickSome(t, cand, 1, 2, "sortField") {
			keys = append(keys, SortKey{Field: f, Desc: rapid.Bool().Draw(t, "desc")})
			used[f] = true
		}
		total := false
		for _, k := range keys {
			if kd := g.kindOf(k.Field); (kd == kUniq || kd == kTime) && len(g.uniq) > 0 {
				total = true
			}
		}
		if !total && len(g.uniq) > 0 && rapid.IntRange(0, 4).Draw(t, "tiebreak") > 0 {
			for _, u := range g.uniq {
				if !used[u] {
					keys = append(keys, SortKey{Field: u, Desc: rapid.Bool().Draw(t, "desc")})
				}
			}
			total = true
		}
		c := &Cmd{Op: "sort", Sort: keys}
		if total && rapid.IntRange(0, 2).Draw(t, "sortLimit") == 0 {
			c.HasN, c.N = true, rapid.IntRange(1, nrows+1).Draw(t, "n")
		}
		g.ordered = total
		g.afterBottleneck = true
		return []*Cmd{c}
	case "dedup":
		if !g.ordered {
			return nil
		}
		cand := g.ofKinds(kStr, kStrNull, kNum, kNumNull, kWild)
		if len(cand) == 0 {
			return nil
		}
		c := &Cmd{Op: "dedup"}
		// prefer the adversarial key pair (h,k)
		if g.has("h") && g.has("k") && rapid.IntRange(0, 2).Draw(t, "hk") > 0 {
			c.Fields = []string{"h", "k"}
			if rapid.Bool().Draw(t, "swap") {
				c.Fields = []string{"k", "h"}
			}
		} else {
			c.Fields = pickSome(t, cand, 1, 2, "dedupField")
		}
		if rapid.IntRange(0, 2).Draw(t, "dedupN") == 0 {
			c.HasN, c.N = true, rapid.IntRange(1, 3).Draw(t, "n")
		}
		c.KeepEmpty = rapid.IntRange(0, 3).Draw(t, "keepempty") == 0
		c.Consecutive = rapid.IntRange(0, 3).Draw(t, "consecutive") == 0
		c.KeepEvents = rapid.IntRange(0, 9).Draw(t, "keepevents") == 0
		if c.KeepEvents {
			for _, f := range c.Fields {
				g.set(f, nullableKind(g.kindOf(f)))
			}
		}
		return []*Cmd{c}
	case "regex":
		if first {
			return nil // a leading regex is folded into the search expression by the parser
		}
		cand := g.ofKinds(kStr, kStrNull, kText)
		if len(cand) == 0 {
			return nil
		}
		f := pick(t, cand, "regexField")
		pats := []string{"^a", "b", "^[xy]$", "_", "c$", "^(ab|bc)$"}
		if g.kindOf(f) == kText {
			pats = []string{"^u=", "alice|bob", "c=1[0-9]$", ",", "^[a-z]+$"}
		}
		return []*Cmd{{Op: "regex", Field: f, Str: pick(t, pats, "pattern"), Neg: rapid.IntRange(0, 3).Draw(t, "neg") == 0}}
	case "rex":
		cand := g.ofKinds(kText)
		if len(cand) == 0 {
			return nil
		}
		f := pick(t, cand, "rexField")
		u, c := g.fresh("user"), g.fresh("cnt")
		var pat string
		var groups []string
		if rapid.Bool().Draw(t, "rexTwo") {
			pat = `u=(?<` + u + `>[a-z]+);c=(?<` + c + `>\d+)`
			groups = []string{u, c}
			g.set(u, kStrNull)
			g.set(c, kWild)
		} else {
			pat = `^(?<` + u + `>[a-z_]+),`
			groups = []string{u}
			g.set(u, kStrNull)
		}
		return []*Cmd{{Op: "rex", Field: f, Str: pat, Groups: groups}}
	case "bin":
		if len(nums) == 0 {
			return nil
		}
		f := pick(t, nums, "binField")
		c := &Cmd{Op: "bin", Field: f, Span: float64(rapid.SampledFrom([]int{2, 5, 10}).Draw(t, "span"))}
		if !g.afterBottleneck && rapid.IntRange(0, 3).Draw(t, "binNoSpan") == 0 {
			genBinNoSpan(t, c)
		}
		if g.kindOf(f) == kUniq || rapid.Bool().Draw(t, "binAs") {
			c.To = g.fresh("b")
			g.set(c.To, kStrNull)
		} else {
			g.set(f, kStrNull)
		}
		return []*Cmd{c}
	case "top", "rare":
		cand := g.ofKinds(kStr, kNum)
		if len(cand) == 0 {
			return nil
		}
		c := &Cmd{Op: op, Fields: pickSome(t, cand, 1, 1, "topField")}
		if rapid.IntRange(0, 3).Draw(t, "topBy") == 0 {
			var by []string
			for _, f := range g.ofKinds(kStr, kNum) {
				if f != c.Fields[0] {
					by = append(by, f)
				}
			}
			if len(by) > 0 {
				c.By = pickSome(t, by, 1, 1, "byField")
			}
		}
		// No limit option: every value is listed (at most ~10 distinct values per by-value, the SPL
		// default limit). With the limit option the engine lists the lexicographically last values
		// (an engine rule stated in its code), so a limit is only placed on a trailing command and
		// compared across partitions only; limit together with by is the known finding C06-toprare-limit-by.
		if last && rapid.IntRange(0, 2).Draw(t, "topLimited") == 0 {
			c.HasN, c.N = true, rapid.IntRange(1, 4).Draw(t, "n")
		}
		var nf []gfield
		for _, f := range append(append([]string(nil), c.By...), c.Fields...) {
			nf = append(nf, gfield{f, g.kindOf(f)})
		}
		// "percent" exists too but is never referenced by later commands (its rounding is unspecified)
		g.fields = append(nf, gfield{"count", kNum})
		g.uniq = append(append([]string(nil), c.By...), c.Fields...)
		g.ordered = false
		g.afterBottleneck = true
		return []*Cmd{c}
	case "streamstats":
		if !g.ordered || len(nums) == 0 {
			return nil
		}
		c := &Cmd{Op: "streamstats"}
		na := rapid.IntRange(1, 3).Draw(t, "naggs")
		for i := 0; i < na; i++ {
			fn := rapid.SampledFrom([]string{"count", "sum", "avg", "min", "max", "sum", "count"}).Draw(t, "fn")
			a := Agg{Fn: fn, As: g.fresh("ss")}
			if fn != "count" || rapid.Bool().Draw(t, "countField") {
				a.Field = pick(t, nums, "aggField")
			}
			if !dupAgg(c.Aggs, a) {
				c.Aggs = append(c.Aggs, a)
			}
		}
		if rapid.IntRange(0, 2).Draw(t, "window") > 0 {
			c.HasN, c.N = true, rapid.IntRange(1, 4).Draw(t, "n")
		}
		c.NoCurrent = rapid.IntRange(0, 2).Draw(t, "nocurrent") == 0
		if by := g.ofKinds(kStr, kStrNull, kNum); len(by) > 0 && rapid.Bool().Draw(t, "ssBy") {
			if g.has("h") && g.has("k") && rapid.Bool().Draw(t, "hk") {
				c.By = []string{"h", "k"}
			} else {
				c.By = pickSome(t, by, 1, 2, "byField")
			}
			if c.HasN {
				c.Global = rapid.SampledFrom([]string{"", "false", "false", "true"}).Draw(t, "global")
			}
		}
		if rapid.IntRange(0, 3).Draw(t, "ssReset") == 0 {
			genStreamstatsReset(t, g, c)
		}
		for _, a := range c.Aggs {
			g.set(a.As, kWild)
		}
		return []*Cmd{c}
	case "makemv":
		cand := g.ofKinds(kText)
		if len(cand) == 0 {
			return nil
		}
		f := pick(t, cand, "mvField")
		g.set(f, kMV)
		return []*Cmd{{Op: "makemv", Field: f, Str: rapid.SampledFrom([]string{",", ";"}).Draw(t, "delim")}}
	case "mvexpand":
		cand := g.ofKinds(kText)
		if len(cand) == 0 {
			return nil
		}
		f := pick(t, cand, "mvField")
		g.set(f, kStr)
		g.uniq = nil
		return []*Cmd{
			{Op: "fillnull", Str: "q", Fields: []string{f}},
			{Op: "makemv", Field: f, Str: ","},
			{Op: "mvexpand", Field: f},
		}
	case "stats":
		c := &Cmd{Op: "stats"}
		na := rapid.IntRange(1, 3).Draw(t, "naggs")
		for i := 0; i < na; i++ {
			fns := []string{"count", "sum", "avg", "min", "max", "sum", "count", "dc", "values"}
			fn := rapid.SampledFrom(fns).Draw(t, "fn")
			a := Agg{Fn: fn, As: g.fresh("st")}
			switch fn {
			case "count":
				if len(nums) > 0 && rapid.Bool().Draw(t, "countField") {
					a.Field = pick(t, nums, "aggField")
				}
			case "dc", "values":
				if len(strs) == 0 {
					continue
				}
				a.Field = pick(t, strs, "aggField")
			default:
				if len(nums) == 0 {
					continue
				}
				a.Field = pick(t, nums, "aggField")
			}
			if !dupAgg(c.Aggs, a) {
				c.Aggs = append(c.Aggs, a)
			}
		}
		if len(c.Aggs) == 0 {
			c.Aggs = []Agg{{Fn: "count", As: g.fresh("st")}}
		}
		if by := g.ofKinds(kStr, kNum); len(by) > 0 && rapid.IntRange(0, 3).Draw(t, "statsBy") > 0 {
			if g.kindOf("h") == kStr && g.kindOf("k") == kStr && rapid.IntRange(0, 2).Draw(t, "hk") == 0 {
				c.By = []string{"h", "k"}
			} else {
				c.By = pickSome(t, by, 1, 2, "byField")
			}
		}
		var nf []gfield
		for _, f := range c.By {
			nf = append(nf, gfield{f, g.kindOf(f)})
		}
		for _, a := range c.Aggs {
			k := kNumNull
			if a.Fn == "values" {
				k = kMV
			}
			nf = append(nf, gfield{a.As, k})
		}
		g.fields = nf
		g.uniq = append([]string(nil), c.By...)
		g.ordered = len(c.By) == 0 // a single row
		g.afterBottleneck = true
		return []*Cmd{c}
	}
	return nil
}

func fillKind(k string) string {
	switch k {
	case kNumNull:
		return kWild // numbers and the fill text
	case kStrNull:
		return kStr
	case kText:
		return kText
	}
	return k
}

func nullableKind(k string) string {
	switch k {
	case kNum:
		return kNumNull
	case kStr:
		return kStrNull
	}
	return k
}

// dupAgg: the same function over the same field twice in one command is not generated (the two
// results would need two names for one computed column; outside the documented core).
func dupAgg(as []Agg, a Agg) bool {
	for _, x := range as {
		if x.Fn == a.Fn && x.Field == a.Field {
			return true
		}
	}
	return false
}
