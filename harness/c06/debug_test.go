package c06

import (
	"encoding/json"
	"fmt"
	"os"
	"sort"
	"strconv"
	"strings"
	"testing"
	"verifharness/gen"
	"verifharness/pt"

	"pgregory.net/rapid"
)

// TestC06Debug is a manual probe: C06_DEBUG="<spl after '* | '>" [C06_SEED=n] [C06_ROWS=n] go test -run TestC06Debug
func TestC06Debug(t *testing.T) {
	text := os.Getenv("C06_DEBUG")
	if text == "" {
		t.Skip("manual probe")
	}
	if err := l1Init(); err != nil {
		t.Fatal(err)
	}
	seed, _ := strconv.Atoi(os.Getenv("C06_SEED"))
	maxRows := 9
	if v, err := strconv.Atoi(os.Getenv("C06_ROWS")); err == nil {
		maxRows = v
	}
	tb := rapid.Custom(func(t *rapid.T) *Table { return genTable(t, maxRows, maxRows, true) }).Example(seed)
	fmt.Println("table:")
	fmt.Print(rowsText(tb.modelRows()))
	n := len(tb.Rows)
	ones := make([]int, n)
	for i := range ones {
		ones[i] = 1
	}
	half := []int{n / 2, 0, n - n/2}
	assign := make([]int, n)
	for i := range assign {
		assign[i] = i % 2
	}
	parts := []Partition{
		{Topo: "single", Cuts: [][]int{{n}}},
		{Topo: "single", Cuts: [][]int{ones}},
		{Topo: "single", Cuts: [][]int{half}, EOFNil: true},
		{Topo: "mergets", Assign: assign, Cuts: [][]int{{(n + 1) / 2}, {n / 2}}},
		{Topo: "parallel", Chains: 2, Shared: true, Cuts: [][]int{ones}},
		{Topo: "parallel", Chains: 2, Assign: assign, Cuts: [][]int{{(n + 1) / 2}, {n / 2}}},
	}
	if pj := os.Getenv("C06_PART"); pj != "" {
		var p Partition
		if err := json.Unmarshal([]byte(pj), &p); err != nil {
			t.Fatal(err)
		}
		rep, _ := strconv.Atoi(os.Getenv("C06_REP"))
		parts = parts[:1]
		for i := 0; i < rep; i++ {
			parts = append(parts, p)
		}
	}
	full := "* | " + text
	var ref string
	for i, p := range parts {
		r := runChain(full, tb, p)
		out := rowsText(r.Rows)
		fmt.Printf("--- %v ndp=%d names=%v err=%q odd=%q\n", p, r.NDP, r.Names, firstLine(r.Err), r.Odd)
		if i == 0 {
			ref = out
			fmt.Print(out)
			if strings.HasPrefix(r.Err, "PANIC") {
				fmt.Println(r.Err)
			}
		} else if out != ref {
			fmt.Print("DIFFERS:\n" + out)
		}
	}
}

func firstLine(s string) string {
	if i := strings.IndexByte(s, '\n'); i >= 0 {
		return s[:i]
	}
	return s
}

// TestC06DebugCase: C06_CASE=<replay file> [C06_PARTIDX=k] [C06_REP=n] [C06_TEXT=override chain]: repeat one partition of a saved case.
func TestC06DebugCase(t *testing.T) {
	path := os.Getenv("C06_CASE")
	if path == "" {
		t.Skip("manual probe")
	}
	if err := l1Init(); err != nil {
		t.Fatal(err)
	}
	b, err := os.ReadFile(path)
	if err != nil {
		t.Fatal(err)
	}
	var env struct {
		Case l1Case `json:"case"`
	}
	if err := json.Unmarshal(b, &env); err != nil {
		t.Fatal(err)
	}
	c := env.Case
	text := chainText(c.Chain)
	if o := os.Getenv("C06_TEXT"); o != "" {
		text = "* | " + o
	}
	k, _ := strconv.Atoi(os.Getenv("C06_PARTIDX"))
	rep, _ := strconv.Atoi(os.Getenv("C06_REP"))
	if rep == 0 {
		rep = 1
	}
	fmt.Println(text)
	fmt.Println(c.Parts[k])
	ref := runChain(text, c.Table, c.Parts[0])
	fmt.Printf("reference err=%q\n%s", firstLine(ref.Err), rowsText(ref.Rows))
	seen := map[string]int{}
	for i := 0; i < rep; i++ {
		r := runChain(text, c.Table, c.Parts[k])
		cr := canonRows(r.Rows)
		if os.Getenv("C06_SORTED") != "" {
			sort.Strings(cr)
		}
		seen[firstLine(r.Err)+"\n    "+strings.Join(cr, "\n    ")+"\n"]++
	}
	for out, n := range seen {
		fmt.Printf("%d times:\n%s", n, out)
	}
}

// TestC06DebugL2: C06_DEBUG2="<spl after '* | '>" [C06_SEED] [C06_ROWS] [C06_REP]: run end to end under two layouts.
func TestC06DebugL2(t *testing.T) {
	text := os.Getenv("C06_DEBUG2")
	if text == "" {
		t.Skip("manual probe")
	}
	seed, _ := strconv.Atoi(os.Getenv("C06_SEED"))
	maxRows := 12
	if v, err := strconv.Atoi(os.Getenv("C06_ROWS")); err == nil {
		maxRows = v
	}
	rep, _ := strconv.Atoi(os.Getenv("C06_REP"))
	if rep == 0 {
		rep = 1
	}
	tb := rapid.Custom(func(t *rapid.T) *Table { return genTable(t, maxRows, maxRows, true) }).Example(seed)
	fmt.Println("table:")
	fmt.Print(rowsText(tb.modelRows()))
	n := len(tb.Rows)
	a, b := n/3, n/3
	cs := &l2Case{Table: tb, Layouts: []gen.Layout{gen.ReferenceLayout(n),
		{Batches: []int{a, b, n - a - b}, Flush: []bool{true, true, true}, Rotate: []bool{false, true, false}, GoMaxProcs: 4}},
		Reverse: []bool{false, true}}
	for li := range cs.Layouts {
		seen := map[string]int{}
		for i := 0; i < rep; i++ {
			out, err := runLayout(cs, li, "* | "+text)
			seen[fmt.Sprintf("err=%v engineErr=%q\n%s", err, out.err, rowsText(out.rows))]++
			if li == 0 {
				break
			}
		}
		fmt.Printf("--- layout %d %s\n", li, layoutText(cs.Layouts[li], cs.Reverse[li]))
		for k, v := range seen {
			fmt.Printf("%d times: %s", v, k)
		}
	}
}

// TestC06DebugL2Case: C06_CASE=<replay file> [C06_TEXT=override chain]: run every layout of a saved L2 case and print the answers.
func TestC06DebugL2Case(t *testing.T) {
	path := os.Getenv("C06_CASE")
	if path == "" || os.Getenv("C06_L2") == "" {
		t.Skip("manual probe")
	}
	b, err := os.ReadFile(path)
	if err != nil {
		t.Fatal(err)
	}
	var env struct {
		Case l2Case `json:"case"`
	}
	if err := json.Unmarshal(b, &env); err != nil {
		t.Fatal(err)
	}
	cs := &env.Case
	text := chainText(cs.Chain)
	if o := os.Getenv("C06_TEXT"); o != "" {
		text = "* | " + o
	}
	fmt.Println(text)
	for li := range cs.Layouts {
		out, err := runLayout(cs, li, text)
		fmt.Printf("--- layout %d %s\nerr=%v engineErr=%q\n%s", li, layoutText(cs.Layouts[li], cs.Reverse[li]), err, out.err, rowsText(out.rows))
	}
}

// TestC06DebugScanL2: C06_SCAN=<n> [C06_SEED=<first>]: generate n end-to-end cases, run the check on each and
// print verdict + classes of the cases that have a two-pass command (development aid for the class histogram).
func TestC06DebugScanL2(t *testing.T) {
	n, _ := strconv.Atoi(os.Getenv("C06_SCAN"))
	if n == 0 {
		t.Skip("manual probe")
	}
	first, _ := strconv.Atoi(os.Getenv("C06_SEED"))
	g := rapid.Custom(genL2)
	for i := first; i < first+n; i++ {
		c := g.Example(i)
		if tp, _ := limiterBeforeTwoPass(c.Chain); tp < 0 {
			continue
		}
		o := &pt.Obs{}
		err := checkL2(c, o)
		verdict := "held"
		if err != nil {
			verdict = "VIOLATION/INCONCLUSIVE: " + firstLine(err.Error())
		}
		fmt.Printf("%d %s\n    %s\n    %s\n", i, chainText(c.Chain), verdict, fmt.Sprintf("%v", *o))
	}
}
