package c10

// C10, file level over a ROTATED datapoint log — the datapoint WAL of one metrics block is a
// sequence of files `shardID_<m>_segID_<s>_blockID_<b>_<i>.wal` (rotateWAL starts file i+1 as soon as
// the encoded size of file i exceeds MAX_WAL_FILE_SIZE_BYTES). The log of a block is generated with
// the exported writer (wal.NewWAL / Append / GetWALStats, the rotation rule of appendToWALBuffer /
// timeBasedWalDPSFlush), then EVERY cut of that log is enumerated: files 0..j-1 complete, file j cut to
// every length 0..len (0 = created without its version byte, 1 = new and empty, inside a block header,
// inside a payload, after a complete block), no later file. For every cut the exported recovery entry
// point metrics.RecoverWALData runs on the directory (in this process, no worker) and the rebuilt block
// is read back with the exported series reader: it must hold exactly the datapoints of the blocks that
// are complete before the cut.

import (
	"fmt"
	"math"
	"os"
	"path/filepath"
	"sort"
	"strings"
	"sync"
	"testing"

	"pgregory.net/rapid"

	"github.com/siglens/siglens/pkg/config"
	"github.com/siglens/siglens/pkg/segment/reader/metrics/series"
	"github.com/siglens/siglens/pkg/segment/structs"
	"github.com/siglens/siglens/pkg/segment/writer/metrics"
	"github.com/siglens/siglens/pkg/segment/writer/metrics/wal"

	"verifharness/pt"
)

type grpDP struct {
	S int     `json:"s"` // index into the tsid pool
	T uint32  `json:"t"`
	V float64 `json:"v"` // non-zero multiple of 0.5 (value encoding is C08's subject)
}

type grpCase struct {
	Shard   string    `json:"shard"`
	Seg     uint64    `json:"seg"`
	Block   uint64    `json:"block"`
	Tsids   []uint64  `json:"tsids"`
	Appends [][]grpDP `json:"appends"` // one Append call each
	// Max: a file whose encoded size exceeds Max after an append is followed by a new file
	Max uint64 `json:"max"`
	// Bystander: a second block group (other shard) with one complete file sits in the same directory
	Bystander bool `json:"bystander,omitempty"`
}

func genGrpCase(t *rapid.T) *grpCase {
	cs := &grpCase{}
	cs.Shard = fmt.Sprint(rapid.IntRange(0, 3).Draw(t, "shard"))
	cs.Seg = uint64(rapid.IntRange(0, 12).Draw(t, "seg"))
	cs.Block = uint64(rapid.IntRange(0, 3).Draw(t, "block"))
	nTs := rapid.IntRange(1, 3).Draw(t, "nTsids")
	seen := map[uint64]bool{}
	for len(cs.Tsids) < nTs {
		id := rapid.Uint64Range(1, math.MaxUint64-1).Draw(t, "tsid")
		if !seen[id] {
			seen[id] = true
			cs.Tsids = append(cs.Tsids, id)
		}
	}
	next := make([]uint32, nTs)
	base := uint32(1700000000) + uint32(rapid.IntRange(0, 1000000).Draw(t, "tsBase"))
	for i := range next {
		next[i] = base + uint32(rapid.IntRange(0, 30).Draw(t, "tsOff"))
	}
	// regime: how many appends fit into one file
	regime := rapid.IntRange(0, 3).Draw(t, "regime")
	nApp := rapid.IntRange(2, 6).Draw(t, "nAppends")
	switch regime {
	case 0: // every append is followed by a rotation
		cs.Max = 1
	case 1: // a few blocks per file
		cs.Max = uint64(rapid.IntRange(60, 260).Draw(t, "max"))
	case 2: // no rotation (the production default)
		cs.Max = 128 << 20
	default: // many files: indexes with two digits (file _10 sorts before _2)
		cs.Max = 1
		nApp = rapid.IntRange(10, 13).Draw(t, "nAppendsMany")
	}
	for a := 0; a < nApp; a++ {
		n := rapid.IntRange(1, 4).Draw(t, "n")
		if regime == 3 {
			n = rapid.IntRange(1, 2).Draw(t, "nSmall")
		}
		var blk []grpDP
		for i := 0; i < n; i++ {
			s := rapid.IntRange(0, nTs-1).Draw(t, "s")
			v := float64(rapid.IntRange(1, 4000).Draw(t, "v")) / 2
			if rapid.Bool().Draw(t, "neg") {
				v = -v
			}
			blk = append(blk, grpDP{S: s, T: next[s], V: v})
			next[s] += uint32(rapid.IntRange(1, 90).Draw(t, "dt"))
		}
		cs.Appends = append(cs.Appends, blk)
	}
	cs.Bystander = rapid.IntRange(0, 3).Draw(t, "bystander") == 3
	return cs
}

type grpFile struct {
	name   string
	img    []byte
	blocks []blockInfo // offsets inside img; items are indexes into the flat datapoint list
	first  int         // index of its first datapoint in the flat list
	nDps   []int       // datapoints per block
}

var grpCfgMu sync.Mutex

func walName(shard string, seg, block uint64, idx int) string {
	return fmt.Sprintf("shardID_%s_segID_%d_blockID_%d_%d.wal", shard, seg, block, idx)
}

// buildGroup writes the rotated log with the exported writer and returns the file images.
func buildGroup(dir string, cs *grpCase) ([]grpFile, []grpDP, error) {
	var files []grpFile
	var flat []grpDP
	idx := 0
	open := func() (*wal.Wal, error) {
		name := walName(cs.Shard, cs.Seg, cs.Block, idx)
		w, err := wal.NewWAL(filepath.Join(dir, name), wal.NewDataPointEncoder())
		if err != nil {
			return nil, pt.Inconclusivef("NewWAL: %v", err)
		}
		files = append(files, grpFile{name: name, first: len(flat)})
		return w, nil
	}
	w, err := open()
	if err != nil {
		return nil, nil, err
	}
	var ws []*wal.Wal
	ws = append(ws, w)
	prev := 1
	for ai, app := range cs.Appends {
		in := make([]wal.WalDatapoint, len(app))
		for i, d := range app {
			in[i] = wal.WalDatapoint{Timestamp: d.T, DpVal: d.V, Tsid: cs.Tsids[d.S]}
		}
		if err := w.Append(in); err != nil {
			return nil, nil, fmt.Errorf("append %d (%d datapoints) was refused: %v", ai, len(in), err)
		}
		f := &files[len(files)-1]
		st, err := os.Stat(filepath.Join(dir, f.name))
		if err != nil {
			return nil, nil, pt.Inconclusivef("stat: %v", err)
		}
		cur := int(st.Size())
		if cur < prev+8 {
			return nil, nil, fmt.Errorf("append %d grew the file from %d to %d bytes: less than a block header", ai, prev, cur)
		}
		f.blocks = append(f.blocks, blockInfo{start: prev, end: cur})
		f.nDps = append(f.nDps, len(app))
		flat = append(flat, app...)
		prev = cur
		if w.GetWALStats() > cs.Max {
			idx++
			if w, err = open(); err != nil {
				return nil, nil, err
			}
			ws = append(ws, w)
			prev = 1
		}
	}
	for _, x := range ws {
		_ = x.Close()
	}
	for i := range files {
		b, err := os.ReadFile(filepath.Join(dir, files[i].name))
		if err != nil {
			return nil, nil, pt.Inconclusivef("read back: %v", err)
		}
		files[i].img = b
	}
	return files, flat, nil
}

// readBlock returns, for every tsid of the pool, the datapoints that the block files hold for it
// (nil map: the block does not exist).
func readBlock(hostDir string, cs *grpCase, shard string, seg, block uint64, tsids []uint64) (map[uint64][][2]uint64, error) {
	mKey := fmt.Sprintf("%sfinal/ts/%s/%d/%d", hostDir, shard, seg, seg)
	if _, err := os.Stat(fmt.Sprintf("%s_%d.tso", mKey, block)); err != nil {
		return nil, nil
	}
	out := map[uint64][][2]uint64{}
	for _, id := range tsids {
		rd, err := series.InitTimeSeriesReader(mKey)
		if err != nil {
			return nil, err
		}
		qm := &structs.MetricsQueryProcessingMetrics{UpdateLock: &sync.Mutex{}}
		br, err := rd.InitReaderForBlock(uint16(block), qm)
		if err != nil {
			_ = rd.Close()
			return nil, fmt.Errorf("block files unreadable: %v", err)
		}
		it, ok, err := br.GetTimeSeriesIterator(id)
		if err != nil {
			_ = rd.Close()
			return nil, fmt.Errorf("series %d unreadable: %v", id, err)
		}
		if ok {
			for it.Next() {
				ts, v := it.At()
				out[id] = append(out[id], [2]uint64{uint64(ts), math.Float64bits(v)})
			}
		}
		_ = rd.Close()
	}
	return out, nil
}

func fmtGrp(m map[uint64][][2]uint64) string {
	ids := make([]uint64, 0, len(m))
	for id := range m {
		ids = append(ids, id)
	}
	sort.Slice(ids, func(i, j int) bool { return ids[i] < ids[j] })
	var sb strings.Builder
	for _, id := range ids {
		fmt.Fprintf(&sb, "tsid %d:", id)
		for _, p := range m[id] {
			fmt.Fprintf(&sb, " %d=%v", p[0], math.Float64frombits(p[1]))
		}
		sb.WriteString("; ")
	}
	return sb.String()
}

func checkGrp(cs *grpCase, o *pt.Obs) error {
	if len(cs.Tsids) == 0 || len(cs.Appends) == 0 {
		return pt.Inconclusivef("bad case")
	}
	for _, a := range cs.Appends {
		if len(a) == 0 {
			return pt.Inconclusivef("bad case: empty append")
		}
		for _, d := range a {
			if d.S < 0 || d.S >= len(cs.Tsids) || d.V == 0 || d.V*2 != math.Trunc(d.V*2) {
				return pt.Inconclusivef("bad case: datapoint %+v", d)
			}
		}
	}
	grpCfgMu.Lock()
	defer grpCfgMu.Unlock()
	root, err := os.MkdirTemp(scratchRoot(), "verif-c10-grp-")
	if err != nil {
		return pt.Inconclusivef("%v", err)
	}
	defer os.RemoveAll(root)
	config.InitializeTestingConfig(root + "/")
	hostDir := config.GetDataPath() + config.GetHostID() + "/"
	walDir := hostDir + "wal-ts/"
	stage := filepath.Join(root, "stage")
	if err := os.MkdirAll(stage, 0o755); err != nil {
		return pt.Inconclusivef("%v", err)
	}
	files, flat, err := buildGroup(stage, cs)
	if err != nil {
		return err
	}
	// the bystander: one complete file of another shard
	byShard := fmt.Sprint((int(cs.Shard[0]-'0') + 1) % 4)
	byTsid := cs.Tsids[0] ^ 0x5555
	var byImg []byte
	if cs.Bystander {
		p := filepath.Join(stage, "bystander.wal")
		w, err := wal.NewWAL(p, wal.NewDataPointEncoder())
		if err != nil {
			return pt.Inconclusivef("NewWAL: %v", err)
		}
		if err := w.Append([]wal.WalDatapoint{{Timestamp: 1700000001, DpVal: 1.5, Tsid: byTsid}, {Timestamp: 1700000009, DpVal: -2, Tsid: byTsid}}); err != nil {
			return fmt.Errorf("bystander append refused: %v", err)
		}
		_ = w.Close()
		if byImg, err = os.ReadFile(p); err != nil {
			return pt.Inconclusivef("%v", err)
		}
		o.Class("grp_bystander_group")
	}
	o.Class(fmt.Sprintf("grp_files_%s", bucketN(len(files))))
	if len(files) >= 2 {
		o.NonTrivial()
		o.Class("grp_wal_rotated")
	}
	if len(files) > 10 {
		o.Class("grp_two_digit_file_index")
	}
	if last := files[len(files)-1]; len(files) >= 2 && len(last.blocks) == 0 {
		o.Class("grp_last_file_empty_when_complete")
	}

	states := 0
	cutClasses := map[string]bool{}
	defer func() {
		for c := range cutClasses {
			o.Class(c)
		}
	}()
	for j := range files {
		for L := 0; L <= len(files[j].img); L++ {
			states++
			// expected: blocks of files < j, and blocks of file j that end at or before L
			nExp := files[j].first
			where := "file created, version byte missing"
			if L >= 1 {
				where = "new file, no block"
			}
			done := 0
			for bi, b := range files[j].blocks {
				if b.end <= L {
					nExp += files[j].nDps[bi]
					done++
					where = fmt.Sprintf("after %d complete block(s)", done)
				} else if L > b.start {
					where = fmt.Sprintf("inside block %d (offset %d of %d)", bi, L-b.start, b.end-b.start)
					break
				}
			}
			want := map[uint64][][2]uint64{}
			for _, d := range flat[:nExp] {
				id := cs.Tsids[d.S]
				want[id] = append(want[id], [2]uint64{uint64(d.T), math.Float64bits(d.V)})
			}
			// lay the directory out
			_ = os.RemoveAll(hostDir)
			if err := os.MkdirAll(walDir, 0o755); err != nil {
				return pt.Inconclusivef("%v", err)
			}
			for i := 0; i < j; i++ {
				if err := os.WriteFile(walDir+files[i].name, files[i].img, 0o644); err != nil {
					return pt.Inconclusivef("%v", err)
				}
			}
			if err := os.WriteFile(walDir+files[j].name, files[j].img[:L], 0o644); err != nil {
				return pt.Inconclusivef("%v", err)
			}
			if cs.Bystander {
				if err := os.WriteFile(walDir+walName(byShard, cs.Seg, 0, 0), byImg, 0o644); err != nil {
					return pt.Inconclusivef("%v", err)
				}
			}
			desc := fmt.Sprintf("log of block %d cut in file %d of %d (%s) at length %d of %d: %s", cs.Block, j, len(files), files[j].name, L, len(files[j].img), where)
			if perr := func() (perr error) {
				defer func() {
					if r := recover(); r != nil {
						perr = fmt.Errorf("%s: RecoverWALData panicked: %v", desc, r)
					}
				}()
				metrics.RecoverWALData()
				return nil
			}(); perr != nil {
				return perr
			}
			got, err := readBlock(hostDir, cs, cs.Shard, cs.Seg, cs.Block, cs.Tsids)
			if err != nil {
				if nExp == 0 {
					continue // nothing owed; an unreadable block yields nothing
				}
				return fmt.Errorf("%s: %v\n  appended completely before the cut: %s", desc, err, fmtGrp(want))
			}
			ordered := true
			for id, w := range want {
				g := append([][2]uint64(nil), got[id]...)
				if fmt.Sprint(g) != fmt.Sprint(w) {
					ordered = false
				}
				sort.Slice(g, func(a, b int) bool { return g[a][0] < g[b][0] })
				if fmt.Sprint(g) != fmt.Sprint(w) {
					return fmt.Errorf("%s: after RecoverWALData the rebuilt block does not hold what was appended completely before the cut\n  want: %s\n  got:  %s",
						desc, fmtGrp(want), fmtGrp(got))
				}
			}
			for id, g := range got {
				if len(g) > 0 && len(want[id]) == 0 {
					return fmt.Errorf("%s: the rebuilt block holds datapoints whose append was not complete before the cut\n  want: %s\n  got:  %s",
						desc, fmtGrp(want), fmtGrp(got))
				}
			}
			if !ordered {
				cutClasses["grp_replay_order_differs_from_append_order"] = true
			}
			if cs.Bystander {
				bg, err := readBlock(hostDir, cs, byShard, cs.Seg, 0, []uint64{byTsid})
				if err != nil || len(bg[byTsid]) != 2 {
					return fmt.Errorf("%s: the complete log of shard %s in the same directory was not recovered: %v %s", desc, byShard, err, fmtGrp(bg))
				}
			}
			switch {
			case j > 0 && L <= 1:
				cutClasses["grp_cut_rotated_new_file_empty"] = true
			case j > 0 && done == 0:
				cutClasses["grp_cut_rotated_partial_first_block"] = true
			case j > 0 && L == files[j].blocks[done-1].end:
				cutClasses["grp_cut_rotated_after_complete_block"] = true
			case j > 0:
				cutClasses["grp_cut_rotated_partial_later_block"] = true
			}
		}
	}
	o.Count("grp_cut_states", int64(states))
	return nil
}

func bucketN(n int) string {
	switch {
	case n <= 1:
		return "1"
	case n <= 3:
		return "2-3"
	case n <= 10:
		return "4-10"
	}
	return "11+"
}

func TestC10Group(t *testing.T) { pt.RunProp(t, "C10", genGrpCase, checkGrp) }
