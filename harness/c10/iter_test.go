package c10

// C10, iterator level — every truncation length and every single-byte modification of a metrics
// WAL file is read back through the exported iterators; what they yield until nil/error must be
// exactly the blocks that are intact before the first damaged byte. In-process, no worker.

import (
	"encoding/binary"
	"encoding/json"
	"fmt"
	"io"
	"math"
	"os"
	"path/filepath"
	"runtime"
	"runtime/debug"
	"strings"
	"testing"

	log "github.com/sirupsen/logrus"
	"pgregory.net/rapid"

	"github.com/siglens/siglens/pkg/segment/structs"
	"github.com/siglens/siglens/pkg/segment/writer/metrics/wal"

	"verifharness/pt"
	"verifharness/sut"
)

func init() {
	// The readers log one error line per rejected block; the enumeration rejects millions.
	if os.Getenv(sut.WorkerEnv) != "1" {
		log.SetOutput(io.Discard)
		log.SetLevel(log.PanicLevel)
	}
}

const (
	kindDP    = "dp"
	kindMName = "mname"
	kindMeta  = "meta"

	// a damaged length field asking for at most this many bytes is "cheap" and always enumerated
	cheapLenCap = 1 << 20
)

type dpRec struct {
	T uint32 `json:"t"`
	V uint64 `json:"v"` // float64 bits (NaN payloads, -0 survive JSON)
	S uint64 `json:"s"`
}

type metaRec struct {
	Dir  string   `json:"dir"`
	NB   uint16   `json:"nb"`
	BR   uint64   `json:"br"`
	OD   uint64   `json:"od"`
	Tags []string `json:"tags"` // nil → nil map
	E    uint32   `json:"e"`
	L    uint32   `json:"l"`
	TT   string   `json:"tt"`
	DC   uint64   `json:"dc"`
	Org  int64    `json:"org"`
}

func (m *metaRec) toMeta() *structs.MetricsMeta {
	mm := &structs.MetricsMeta{MSegmentDir: m.Dir, NumBlocks: m.NB, BytesReceivedCount: m.BR, OnDiskBytes: m.OD,
		EarliestEpochSec: m.E, LatestEpochSec: m.L, TTreeDir: m.TT, DatapointCount: m.DC, OrgId: m.Org}
	if m.Tags != nil {
		mm.TagKeys = map[string]bool{}
		for _, k := range m.Tags {
			mm.TagKeys[k] = true
		}
	}
	return mm
}

// walOp is one call on the log: Append (default) or Write (truncate, then one block).
type walOp struct {
	Write bool      `json:"write,omitempty"`
	DPs   []dpRec   `json:"dps,omitempty"`
	Names []string  `json:"names,omitempty"`
	Metas []metaRec `json:"metas,omitempty"`
}

type iterCase struct {
	Kind  string  `json:"kind"`
	Ops   []walOp `json:"ops"`
	Masks []int   `json:"masks"` // three non-zero xor masks
	// Full: every one of the 255 other values of every byte instead of 3 masks + 0x00 + 0xFF.
	Full bool `json:"full,omitempty"`
	// Damaged length fields that make the reader request more than cheapLenCap bytes: at most
	// LenBudget of them are executed (evenly spread), none above 1<<LenCapLog2 bytes.
	LenBudget  int `json:"lenBudget"`
	LenCapLog2 int `json:"lenCapLog2"`
}

// ---- generator ------------------------------------------------------------------------------

var specialFloats = []uint64{
	0, 0x8000000000000000, math.Float64bits(1), math.Float64bits(-1), math.Float64bits(math.Inf(1)),
	math.Float64bits(math.Inf(-1)), 0x7ff8000000000001, 0xfff8000000000000, 0x7ff0000000000001, 1,
	math.Float64bits(math.MaxFloat64), math.Float64bits(math.SmallestNonzeroFloat64), math.Float64bits(0.1),
}

var nameAlphabet = []rune("abcdefghijklmnopqrstuvwxyzABCXYZ0123456789_.:-/ éß€漢😀")

func genName(t *rapid.T, label string) string {
	n := rapid.IntRange(1, 24).Draw(t, label+"Len")
	if rapid.IntRange(0, 30).Draw(t, label+"Long") == 0 {
		n = rapid.IntRange(200, 700).Draw(t, label+"LongLen")
	}
	var sb strings.Builder
	for i := 0; i < n; i++ {
		sb.WriteRune(rapid.SampledFrom(nameAlphabet).Draw(t, label+"R"))
	}
	return sb.String()
}

func genDPs(t *rapid.T, n int) []dpRec {
	out := make([]dpRec, n)
	pool := make([]uint64, rapid.IntRange(1, 4).Draw(t, "tsidPool"))
	for i := range pool {
		pool[i] = rapid.Uint64().Draw(t, "tsid")
	}
	base := rapid.Uint32().Draw(t, "tsBase")
	step := rapid.SampledFrom([]uint32{0, 1, 10, 60, 3600}).Draw(t, "tsStep")
	randomTs := rapid.IntRange(0, 3).Draw(t, "randomTs") == 0
	valMode := rapid.IntRange(0, 2).Draw(t, "valMode")
	for i := range out {
		out[i].S = pool[rapid.IntRange(0, len(pool)-1).Draw(t, "tsidIdx")]
		if randomTs {
			out[i].T = rapid.Uint32().Draw(t, "ts")
		} else {
			out[i].T = base + uint32(i)*step
		}
		switch valMode {
		case 0:
			out[i].V = rapid.SampledFrom(specialFloats).Draw(t, "special")
		case 1:
			out[i].V = math.Float64bits(float64(rapid.IntRange(-1000, 1000).Draw(t, "smallVal")))
		default:
			out[i].V = rapid.Uint64().Draw(t, "valBits")
		}
	}
	return out
}

func genMeta(t *rapid.T) metaRec {
	m := metaRec{
		Dir: "/data/ingestnodes/h/final/ts/" + genName(t, "dir"),
		NB:  rapid.Uint16().Draw(t, "nb"), BR: rapid.Uint64().Draw(t, "br"), OD: rapid.Uint64().Draw(t, "od"),
		E: rapid.Uint32().Draw(t, "e"), L: rapid.Uint32().Draw(t, "l"),
		TT: genName(t, "tt"), DC: rapid.Uint64().Draw(t, "dc"), Org: rapid.Int64().Draw(t, "org"),
	}
	switch rapid.IntRange(0, 4).Draw(t, "tagsMode") {
	case 0: // nil map
	case 1:
		m.Tags = []string{}
	default:
		seen := map[string]bool{}
		for i, n := 0, rapid.IntRange(1, 4).Draw(t, "nTags"); i < n; i++ {
			k := genName(t, "tag")
			if !seen[k] {
				seen[k] = true
				m.Tags = append(m.Tags, k)
			}
		}
	}
	return m
}

func genIterCase(t *rapid.T) *iterCase {
	cs := &iterCase{}
	cs.Kind = rapid.SampledFrom([]string{kindDP, kindDP, kindMName, kindMeta}).Draw(t, "kind")
	// Full (all 255 values per byte) is drawn first: such a case keeps its log small
	cs.Full = rapid.IntRange(0, 11).Draw(t, "full") == 11
	nOps := rapid.IntRange(1, pt.Scale(5, 8)).Draw(t, "nOps")
	if cs.Full && nOps > 3 {
		nOps = 3
	}
	if nOps == 1 && rapid.IntRange(0, 3).Draw(t, "single") != 0 {
		nOps = 2
	}
	bigLeft := 1 // at most one large block per case keeps the enumeration bounded
	for i := 0; i < nOps; i++ {
		var op walOp
		switch cs.Kind {
		case kindMeta:
			op.Write = rapid.IntRange(0, 9).Draw(t, "write") < 3 // production only uses Write on this log
		default:
			op.Write = rapid.IntRange(0, 24).Draw(t, "write") == 0
		}
		n := rapid.IntRange(1, 5).Draw(t, "n")
		big := bigLeft > 0 && !cs.Full && rapid.IntRange(0, 9).Draw(t, "big") == 0
		if cs.Full && n > 2 {
			n = 2
		}
		if cs.Full && cs.Kind == kindMeta {
			n = 1
		}
		if big {
			bigLeft--
		}
		switch cs.Kind {
		case kindDP:
			if big {
				n = rapid.IntRange(30, pt.Scale(150, 400)).Draw(t, "nBig")
			}
			op.DPs = genDPs(t, n)
		case kindMName:
			if big {
				n = rapid.IntRange(10, 40).Draw(t, "nBig")
			}
			for j := 0; j < n; j++ {
				op.Names = append(op.Names, genName(t, "mname"))
			}
		case kindMeta:
			if n > 3 {
				n = 3
			}
			for j := 0; j < n; j++ {
				op.Metas = append(op.Metas, genMeta(t))
			}
		}
		cs.Ops = append(cs.Ops, op)
	}
	seen := map[int]bool{}
	for len(cs.Masks) < 3 {
		m := rapid.IntRange(1, 255).Draw(t, "mask")
		if len(cs.Masks) == 0 && rapid.Bool().Draw(t, "singleBit") {
			m = 1 << rapid.IntRange(0, 7).Draw(t, "bit")
		}
		if !seen[m] {
			seen[m] = true
			cs.Masks = append(cs.Masks, m)
		}
	}
	cs.LenBudget = pt.Scale(1, 3)
	cs.LenCapLog2 = pt.Scale(24, 26) // 16 MiB / 64 MiB
	return cs
}

// ---- building the log through the exported writer API ----------------------------------------

type blockInfo struct {
	start, end int // file offsets of [length field .. end of payload)
	items      []string
}

func dpItem(ts uint32, bits uint64, tsid uint64) string {
	return fmt.Sprintf("%d|%016x|%d", ts, bits, tsid)
}

func metaItem(m *structs.MetricsMeta) string {
	b, _ := json.Marshal(m)
	return string(b)
}

func newEncoderWAL(kind, path string) (*wal.Wal, error) {
	switch kind {
	case kindDP:
		return wal.NewWAL(path, wal.NewDataPointEncoder())
	case kindMName:
		return wal.NewWAL(path, wal.NewMetricNameEncoder())
	case kindMeta:
		return wal.NewWAL(path, &wal.MetricsMetaEncoder{})
	}
	return nil, fmt.Errorf("unknown kind %q", kind)
}

func opInput(kind string, op *walOp) (interface{}, []string) {
	switch kind {
	case kindDP:
		in := make([]wal.WalDatapoint, len(op.DPs))
		items := make([]string, len(op.DPs))
		for i, d := range op.DPs {
			in[i] = wal.WalDatapoint{Timestamp: d.T, DpVal: math.Float64frombits(d.V), Tsid: d.S}
			items[i] = dpItem(d.T, d.V, d.S)
		}
		return in, items
	case kindMName:
		return append([]string(nil), op.Names...), append([]string(nil), op.Names...)
	default:
		in := make([]*structs.MetricsMeta, len(op.Metas))
		items := make([]string, len(op.Metas))
		for i := range op.Metas {
			in[i] = op.Metas[i].toMeta()
			items[i] = metaItem(in[i])
		}
		return in, items
	}
}

// buildLog applies the ops and returns the file image and the block layout, the latter taken from
// the file size after each call (not from the writer's own statistics).
func buildLog(kind string, ops []walOp, path string) ([]byte, []blockInfo, error) {
	w, err := newEncoderWAL(kind, path)
	if err != nil {
		return nil, nil, pt.Inconclusivef("NewWAL: %v", err)
	}
	size := func() (int, error) {
		st, err := os.Stat(path)
		if err != nil {
			return 0, err
		}
		return int(st.Size()), nil
	}
	prev, err := size()
	if err != nil {
		return nil, nil, pt.Inconclusivef("stat: %v", err)
	}
	if prev != 1 {
		return nil, nil, fmt.Errorf("a new log is %d bytes long, expected the 1-byte version header", prev)
	}
	var blocks []blockInfo
	for i := range ops {
		in, items := opInput(kind, &ops[i])
		if ops[i].Write {
			err = w.Write(in)
			blocks = blocks[:0]
			prev = 1
		} else {
			err = w.Append(in)
		}
		if err != nil {
			_ = w.Close()
			return nil, nil, fmt.Errorf("op %d (write=%v, %d items) was refused: %v", i, ops[i].Write, len(items), err)
		}
		cur, err := size()
		if err != nil {
			return nil, nil, pt.Inconclusivef("stat: %v", err)
		}
		if cur < prev+8 {
			return nil, nil, fmt.Errorf("op %d grew the log from %d to %d bytes: less than a block header", i, prev, cur)
		}
		if ops[i].Write {
			// Write replaces the content: version byte + exactly one block
			img, rerr := os.ReadFile(path)
			if rerr != nil || len(img) < 9 {
				return nil, nil, pt.Inconclusivef("read back after Write: %v", rerr)
			}
			if got := int(binary.LittleEndian.Uint32(img[1:])); got != cur-1-4 {
				return nil, nil, fmt.Errorf("op %d: after Write the log must hold the version byte and one block; it is %d bytes long and the block at offset 1 claims %d bytes (earlier content was not replaced?)", i, cur, got)
			}
		}
		blocks = append(blocks, blockInfo{start: prev, end: cur, items: items})
		prev = cur
	}
	if err := w.Close(); err != nil {
		return nil, nil, pt.Inconclusivef("close: %v", err)
	}
	data, err := os.ReadFile(path)
	if err != nil {
		return nil, nil, pt.Inconclusivef("read back: %v", err)
	}
	if len(data) != prev {
		return nil, nil, fmt.Errorf("log is %d bytes after close, %d after the last call", len(data), prev)
	}
	// the documented framing: 4-byte little-endian length of (crc + payload) in front of each block
	for i, b := range blocks {
		if got := int(binary.LittleEndian.Uint32(data[b.start:])); got != b.end-b.start-4 {
			return nil, nil, fmt.Errorf("block %d at [%d,%d): length field says %d, documented framing says %d",
				i, b.start, b.end, got, b.end-b.start-4)
		}
	}
	return data, blocks, nil
}

// ---- reading a (damaged) image through the exported iterators ----------------------------------

type readResult struct {
	items    []string
	ctorErr  error
	termErr  error
	panicked string
	overflow bool
}

func readLog(kind, path string, limit int) (res readResult) {
	defer func() {
		if r := recover(); r != nil {
			res.panicked = fmt.Sprintf("%v\n%s", r, debug.Stack())
		}
	}()
	switch kind {
	case kindDP:
		it, err := wal.NewWALReader(path)
		if err != nil {
			res.ctorErr = err
			return
		}
		defer it.Close()
		for {
			dp, err := it.Next()
			if err != nil {
				res.termErr = err
				return
			}
			if dp == nil {
				return
			}
			res.items = append(res.items, dpItem(dp.Timestamp, math.Float64bits(dp.DpVal), dp.Tsid))
			if len(res.items) > limit {
				res.overflow = true
				return
			}
		}
	case kindMName:
		it, err := wal.NewMNameWalReader(path)
		if err != nil {
			res.ctorErr = err
			return
		}
		defer it.Close()
		for {
			s, err := it.Next()
			if err != nil {
				res.termErr = err
				return
			}
			if s == nil {
				return
			}
			res.items = append(res.items, *s)
			if len(res.items) > limit {
				res.overflow = true
				return
			}
		}
	default:
		it, err := wal.NewMetricsMetaEntryWalReader(path)
		if err != nil {
			res.ctorErr = err
			return
		}
		defer it.Close()
		for {
			m, err := it.Next()
			if err != nil {
				res.termErr = err
				return
			}
			if m == nil {
				return
			}
			res.items = append(res.items, metaItem(m))
			if len(res.items) > limit {
				res.overflow = true
				return
			}
		}
	}
}

func showItems(items []string) string {
	const max = 6
	var sb strings.Builder
	fmt.Fprintf(&sb, "%d items", len(items))
	for i, s := range items {
		if i >= max {
			sb.WriteString(" …")
			break
		}
		if len(s) > 80 {
			s = s[:80] + "…"
		}
		fmt.Fprintf(&sb, " [%d]%q", i, s)
	}
	return sb.String()
}

func firstDiff(got, want []string) int {
	for i := 0; i < len(got) && i < len(want); i++ {
		if got[i] != want[i] {
			return i
		}
	}
	if len(got) != len(want) {
		if len(got) < len(want) {
			return len(got)
		}
		return len(want)
	}
	return -1
}

func isPrefix(got, all []string) bool {
	if len(got) > len(all) {
		return false
	}
	for i := range got {
		if got[i] != all[i] {
			return false
		}
	}
	return true
}

// fullValueLimit: a case marked Full enumerates all 255 values only if its log is at most this long
// (255 x 5 KB x read cost would dominate a shard).
const fullValueLimit = 700

func modValues(orig byte, cs *iterCase, full bool) []byte {
	if full {
		out := make([]byte, 0, 255)
		for v := 0; v < 256; v++ {
			if byte(v) != orig {
				out = append(out, byte(v))
			}
		}
		return out
	}
	var out []byte
	add := func(v byte) {
		if v == orig {
			return
		}
		for _, x := range out {
			if x == v {
				return
			}
		}
		out = append(out, v)
	}
	for _, m := range cs.Masks {
		add(orig ^ byte(m))
	}
	add(0x00)
	add(0xFF)
	return out
}

type fieldKind int

const (
	fVersion fieldKind = iota
	fLen
	fCrc
	fPayload
)

func (f fieldKind) String() string { return [...]string{"version", "len", "crc", "payload"}[f] }

// locate returns the block holding file offset pos and the field it belongs to.
func locate(blocks []blockInfo, pos int) (int, fieldKind) {
	if pos == 0 {
		return -1, fVersion
	}
	for k, b := range blocks {
		if pos >= b.start && pos < b.end {
			switch off := pos - b.start; {
			case off < 4:
				return k, fLen
			case off < 8:
				return k, fCrc
			default:
				return k, fPayload
			}
		}
	}
	return -1, fVersion
}

// scratchDir returns a fresh directory for the fault images of one case. The enumeration rewrites
// one small file hundreds of thousands of times: a memory-backed file system when there is one
// (the verdict does not depend on where the file lives).
func scratchDir() (string, error) {
	if st, err := os.Stat("/dev/shm"); err == nil && st.IsDir() {
		if d, err := os.MkdirTemp("/dev/shm", "verif-c10-"); err == nil {
			return d, nil
		}
	}
	d := filepath.Dir(pt.NewDataDir())
	return d, os.MkdirAll(d, 0o755)
}

func checkIter(cs *iterCase, o *pt.Obs) error {
	if cs.Kind != kindDP && cs.Kind != kindMName && cs.Kind != kindMeta {
		return pt.Inconclusivef("bad case: kind %q", cs.Kind)
	}
	if len(cs.Masks) == 0 && !cs.Full {
		return pt.Inconclusivef("bad case: no masks")
	}
	dir, err := scratchDir()
	if err != nil {
		return pt.Inconclusivef("scratch dir: %v", err)
	}
	defer os.RemoveAll(dir)
	data, blocks, err := buildLog(cs.Kind, cs.Ops, filepath.Join(dir, "orig.wal"))
	if err != nil {
		return err
	}
	var all []string
	prefixAt := make([]int, len(blocks)+1) // number of items in blocks < k
	for k, b := range blocks {
		prefixAt[k] = len(all)
		all = append(all, b.items...)
	}
	prefixAt[len(blocks)] = len(all)
	limit := len(all) + 16

	replaced := false
	multiByteLen := false
	for i := range cs.Ops {
		if cs.Ops[i].Write && i > 0 {
			replaced = true
		}
	}
	for _, b := range blocks {
		if b.end-b.start-4 > 255 {
			multiByteLen = true
		}
	}
	o.Class("kind_" + cs.Kind)
	switch n := len(blocks); {
	case n == 1:
		o.Class("blocks_1")
	case n == 2:
		o.Class("blocks_2")
	case n <= 4:
		o.Class("blocks_3-4")
	default:
		o.Class("blocks_5+")
	}
	if replaced {
		o.Class("write_replaced_earlier_content")
	}
	if multiByteLen {
		o.Class("block_longer_than_255")
	}
	full := cs.Full && len(data) <= fullValueLimit
	if full {
		o.Class("all_255_values")
	}
	if len(blocks) >= 2 || replaced {
		o.NonTrivial()
	}
	o.Max("log_bytes", int64(len(data)))

	faultPath := filepath.Join(dir, "fault.wal")
	ff, err := os.OpenFile(faultPath, os.O_CREATE|os.O_RDWR|os.O_TRUNC, 0o644)
	if err != nil {
		return pt.Inconclusivef("fault image: %v", err)
	}
	defer ff.Close()
	curLen := 0
	run := func(img []byte) (readResult, error) {
		// one pwrite per fault; the file is only cut when the image gets shorter
		if len(img) < curLen {
			if err := ff.Truncate(int64(len(img))); err != nil {
				return readResult{}, pt.Inconclusivef("write fault image: %v", err)
			}
		}
		if len(img) > 0 {
			if _, err := ff.WriteAt(img, 0); err != nil {
				return readResult{}, pt.Inconclusivef("write fault image: %v", err)
			}
		}
		curLen = len(img)
		r := readLog(cs.Kind, faultPath, limit)
		switch {
		case r.ctorErr != nil:
			o.Count("end_reader_refused_file", 1)
		case r.termErr != nil:
			o.Count("end_error", 1)
		default:
			o.Count("end_nil", 1)
		}
		return r, nil
	}
	verdict := func(what string, r readResult, want []string, exact bool) error {
		if r.panicked != "" {
			return fmt.Errorf("%s: reader panicked: %s", what, r.panicked)
		}
		if r.overflow {
			return fmt.Errorf("%s: reader yields more items than were ever appended (%d): %s", what, len(all), showItems(r.items))
		}
		if exact {
			if d := firstDiff(r.items, want); d >= 0 {
				return fmt.Errorf("%s: expected exactly the %d items of the intact leading blocks, got %d (first difference at item %d; ctorErr=%v termErr=%v)\n  want: %s\n  got:  %s",
					what, len(want), len(r.items), d, r.ctorErr, r.termErr, showItems(want), showItems(r.items))
			}
			return nil
		}
		if !isPrefix(r.items, want) {
			return fmt.Errorf("%s: yielded sequence is not a prefix of what was appended (ctorErr=%v termErr=%v)\n  appended: %s\n  got:      %s",
				what, r.ctorErr, r.termErr, showItems(want), showItems(r.items))
		}
		return nil
	}

	// ---- every truncation length -----------------------------------------------------------
	for L := 0; L <= len(data); L++ {
		r, err := run(data[:L])
		if err != nil {
			return err
		}
		nb := 0
		for nb < len(blocks) && blocks[nb].end <= L {
			nb++
		}
		where := "block boundary"
		if L < len(data) {
			if k, f := locate(blocks, L); k >= 0 && L != blocks[k].start {
				where = "inside " + f.String()
			}
		}
		if L == 0 {
			where = "empty file"
		}
		o.Count("truncation_"+strings.ReplaceAll(where, " ", "_"), 1)
		if err := verdict(fmt.Sprintf("log of %d bytes / %d blocks cut to %d bytes (%s)", len(data), len(blocks), L, where),
			r, all[:prefixAt[nb]], true); err != nil {
			return err
		}
	}

	// ---- every single-byte modification -----------------------------------------------------
	type lenFault struct {
		pos int
		val byte
		req int64
	}
	var expensive []lenFault
	img := make([]byte, len(data))
	doMod := func(pos int, v byte, k int, f fieldKind) error {
		copy(img, data)
		img[pos] = v
		r, err := run(img)
		if err != nil {
			return err
		}
		o.Count("bytemod_"+f.String(), 1)
		what := fmt.Sprintf("log of %d bytes / %d blocks, byte %d (%s of block %d) changed %#02x→%#02x", len(data), len(blocks), pos, f, k, data[pos], v)
		if k < 0 {
			// version header: not a block. Whatever the reader decides, it may not invent or reorder.
			return verdict(what, r, all, false)
		}
		return verdict(what, r, all[:prefixAt[k]], true)
	}
	for pos := 0; pos < len(data); pos++ {
		k, f := locate(blocks, pos)
		for _, v := range modValues(data[pos], cs, full) {
			if f == fLen {
				var lf [4]byte
				copy(lf[:], data[blocks[k].start:blocks[k].start+4])
				lf[pos-blocks[k].start] = v
				if nl := int64(binary.LittleEndian.Uint32(lf[:])); nl-4 > cheapLenCap {
					expensive = append(expensive, lenFault{pos, v, nl - 4})
					continue
				}
			}
			if err := doMod(pos, v, k, f); err != nil {
				return err
			}
		}
	}
	// damaged length fields that make the reader ask for a large buffer: budgeted
	var eligible []lenFault
	for _, e := range expensive {
		if e.req <= int64(1)<<uint(cs.LenCapLog2) {
			eligible = append(eligible, e)
		}
	}
	ran := 0
	if cs.LenBudget > 0 && len(eligible) > 0 {
		stepN := len(eligible) / cs.LenBudget
		if stepN == 0 {
			stepN = 1
		}
		for i := stepN / 2; i < len(eligible) && ran < cs.LenBudget; i += stepN {
			e := eligible[i]
			k, f := locate(blocks, e.pos)
			var m0, m1 runtime.MemStats
			runtime.ReadMemStats(&m0)
			if err := doMod(e.pos, e.val, k, f); err != nil {
				return err
			}
			runtime.ReadMemStats(&m1)
			o.Max("damaged_len_max_requested_bytes", e.req)
			o.Max("damaged_len_max_allocated_bytes", int64(m1.TotalAlloc-m0.TotalAlloc))
			o.Count("bytemod_len_large_request_executed", 1)
			ran++
		}
		debug.FreeOSMemory()
	}
	o.Count("bytemod_len_large_request_skipped", int64(len(expensive)-ran))
	return nil
}

func TestC10Iter(t *testing.T) { pt.RunProp(t, "C10", genIterCase, checkIter) }
