// Command ovgen writes a `go build -overlay` description that instruments the metrics WAL code of
// the siglens tree at -repo for crash-point enumeration (C10). Nothing under -repo is modified.
//
// For every listed function it inserts `verifcrash.Hit("<Func>:<n>")` in front of every statement
// (all nesting levels) and replaces the `time.Sleep(..)` of the listed timer loops by
// `verifcrash.Sleep("<gate>", ..)`, which is time.Sleep unless the process runs in step mode.
// It also adds the package pkg/verifcrash (overlay-only) and an export shim.
//
// Output (-out DIR): DIR/overlay.json, DIR/points.json, DIR/src/...
package main

import (
	"bytes"
	"encoding/json"
	"flag"
	"fmt"
	"go/ast"
	"go/format"
	"go/parser"
	"go/printer"
	"go/token"
	"os"
	"path/filepath"
	"sort"
	"strconv"
	"strings"
)

type target struct {
	file  string            // path below the repo root
	funcs map[string]bool   // function / method names whose statements get crash points
	gates map[string]string // function name -> gate name for its time.Sleep
}

var targets = []target{
	{
		file:  "pkg/segment/writer/metrics/wal/wal.go",
		funcs: set("NewWAL", "Append", "Write", "writeBlockToFile", "truncate", "DeleteWAL"),
	},
	{
		file: "pkg/segment/writer/metrics/metricssegment.go",
		funcs: set("appendToWALBuffer", "timeBasedWalDPSFlush", "rotateWAL", "initNewDpWal", "cleanAndInitNewDpWal",
			"deleteDpWalFiles", "rotateBlock", "flushBlock", "FlushTSOAndTSGFiles", "FlushMetricNames",
			"RecoverWALData", "RecoverMNameWALData", "RecoverMEntryWALData", "timeBasedMNameWalFlush",
			"timeBasedMetaEntryWalFlush", "initNewMNameWAL", "initNewMEntryWAL", "deleteWalFile",
			"cleanAndInitNewMNameWal", "deleteMNameWALFile"),
		gates: map[string]string{
			"timeBasedWalDPSFlush": "dps", "timeBasedMNameWalFlush": "mname", "timeBasedMetaEntryWalFlush": "meta",
			"timeBasedTagsTreeFlush": "tags", "timeBasedRotate": "rotate",
		},
	},
	{
		file:  "pkg/segment/structs/metricsstructs.go",
		funcs: set("FlushSummary"),
	},
	{
		file:  "pkg/segment/writer/metrics/meta/metricsmeta.go",
		funcs: set("AddMetricsMetaEntry"),
	},
}

// optionalFuncs may be absent (helpers that a repair of the tree removes).
var optionalFuncs = set("truncate")

func set(names ...string) map[string]bool {
	m := map[string]bool{}
	for _, n := range names {
		m[n] = true
	}
	return m
}

const crashPkgPath = "github.com/siglens/siglens/pkg/verifcrash"

type point struct {
	Label string `json:"label"`
	File  string `json:"file"`
	Line  int    `json:"line"`
	Stmt  string `json:"stmt"`
}

func main() {
	repo := flag.String("repo", "/repo", "siglens tree")
	out := flag.String("out", "", "output directory")
	srcOverlay := flag.String("srcoverlay", "", "optional overlay.json whose replacements are used as the sources (e.g. a candidate fix)")
	flag.Parse()
	if *out == "" {
		fmt.Fprintln(os.Stderr, "-out required")
		os.Exit(2)
	}
	src := filepath.Join(*out, "src")
	if err := os.MkdirAll(src, 0o755); err != nil {
		fatal(err)
	}
	replace := map[string]string{}
	srcOf := map[string]string{}
	if *srcOverlay != "" {
		b, err := os.ReadFile(*srcOverlay)
		if err != nil {
			fatal(err)
		}
		var ov struct{ Replace map[string]string }
		if err := json.Unmarshal(b, &ov); err != nil {
			fatal(err)
		}
		for k, v := range ov.Replace {
			srcOf[k] = v
			replace[k] = v // files that are not instrumented pass through
		}
	}
	var points []point
	for _, tg := range targets {
		orig := filepath.Join(*repo, tg.file)
		from := orig
		if r, ok := srcOf[orig]; ok {
			from = r
		}
		code, pts, err := instrument(from, tg)
		if err != nil {
			fatal(fmt.Errorf("%s: %v", tg.file, err))
		}
		dst := filepath.Join(src, strings.ReplaceAll(tg.file, "/", "__"))
		if err := os.WriteFile(dst, code, 0o644); err != nil {
			fatal(err)
		}
		replace[orig] = dst
		points = append(points, pts...)
	}
	crashFile := filepath.Join(src, "verifcrash.go")
	if err := os.WriteFile(crashFile, []byte(crashSrc), 0o644); err != nil {
		fatal(err)
	}
	replace[filepath.Join(*repo, "pkg/verifcrash/verifcrash.go")] = crashFile
	ob, _ := json.MarshalIndent(map[string]interface{}{"Replace": replace}, "", " ")
	if err := os.WriteFile(filepath.Join(*out, "overlay.json"), ob, 0o644); err != nil {
		fatal(err)
	}
	pb, _ := json.MarshalIndent(points, "", " ")
	if err := os.WriteFile(filepath.Join(*out, "points.json"), pb, 0o644); err != nil {
		fatal(err)
	}
	fmt.Printf("%d crash points in %d files\n", len(points), len(targets))
}

func fatal(err error) {
	fmt.Fprintln(os.Stderr, "ovgen:", err)
	os.Exit(1)
}

func instrument(path string, tg target) ([]byte, []point, error) {
	fset := token.NewFileSet()
	f, err := parser.ParseFile(fset, path, nil, parser.ParseComments)
	if err != nil {
		return nil, nil, err
	}
	srcBytes, _ := os.ReadFile(path)
	lines := strings.Split(string(srcBytes), "\n")
	var points []point
	found := map[string]bool{}
	for _, d := range f.Decls {
		fd, ok := d.(*ast.FuncDecl)
		if !ok || fd.Body == nil {
			continue
		}
		name := fd.Name.Name
		if gate, ok := tg.gates[name]; ok {
			found["gate:"+name] = true
			replaceSleep(fd.Body, gate)
		}
		if !tg.funcs[name] {
			continue
		}
		found[name] = true
		n := 0
		var walk func(list []ast.Stmt) []ast.Stmt
		visitNested := func(s ast.Stmt) {
			ast.Inspect(s, func(nd ast.Node) bool {
				switch x := nd.(type) {
				case *ast.FuncLit:
					x.Body.List = walk(x.Body.List)
					return false
				case *ast.SwitchStmt:
					for _, cl := range x.Body.List {
						if cc, ok := cl.(*ast.CaseClause); ok {
							cc.Body = walk(cc.Body)
						}
					}
					return false
				case *ast.TypeSwitchStmt:
					for _, cl := range x.Body.List {
						if cc, ok := cl.(*ast.CaseClause); ok {
							cc.Body = walk(cc.Body)
						}
					}
					return false
				case *ast.SelectStmt:
					for _, cl := range x.Body.List {
						if cc, ok := cl.(*ast.CommClause); ok {
							cc.Body = walk(cc.Body)
						}
					}
					return false
				case *ast.BlockStmt:
					x.List = walk(x.List)
					return false
				case *ast.CaseClause:
					x.Body = walk(x.Body)
					return false
				case *ast.CommClause:
					x.Body = walk(x.Body)
					return false
				}
				return true
			})
		}
		walk = func(list []ast.Stmt) []ast.Stmt {
			out := make([]ast.Stmt, 0, 2*len(list))
			for _, s := range list {
				label := name + ":" + strconv.Itoa(n)
				n++
				pos := fset.Position(s.Pos())
				txt := ""
				if pos.Line >= 1 && pos.Line <= len(lines) {
					txt = strings.TrimSpace(lines[pos.Line-1])
				}
				points = append(points, point{Label: label, File: tg.file, Line: pos.Line, Stmt: txt})
				out = append(out, hitStmt(label))
				// instrument the nested statement lists of s (not s itself again)
				switch x := s.(type) {
				case *ast.BlockStmt:
					x.List = walk(x.List)
				case *ast.LabeledStmt:
					visitNested(x.Stmt)
				default:
					visitNested(s)
				}
				out = append(out, s)
			}
			return out
		}
		fd.Body.List = walk(fd.Body.List)
	}
	for fn := range tg.funcs {
		if !found[fn] && !optionalFuncs[fn] {
			return nil, nil, fmt.Errorf("function %s not found (tree changed?)", fn)
		}
	}
	for fn := range tg.gates {
		if !found["gate:"+fn] {
			return nil, nil, fmt.Errorf("timer loop %s not found (tree changed?)", fn)
		}
	}
	addImport(f, crashPkgPath)
	var buf bytes.Buffer
	// comments are dropped: their positions no longer fit the rewritten statement lists
	f.Comments = nil
	for _, d := range f.Decls {
		if fd, ok := d.(*ast.FuncDecl); ok {
			fd.Doc = nil
		}
	}
	if err := printer.Fprint(&buf, token.NewFileSet(), f); err != nil {
		return nil, nil, err
	}
	code, err := format.Source(buf.Bytes())
	if err != nil {
		return nil, nil, fmt.Errorf("instrumented source does not parse: %v", err)
	}
	sort.SliceStable(points, func(i, j int) bool { return points[i].Line < points[j].Line })
	return code, points, nil
}

func hitStmt(label string) ast.Stmt {
	return &ast.ExprStmt{X: &ast.CallExpr{
		Fun:  &ast.SelectorExpr{X: ast.NewIdent("verifcrash"), Sel: ast.NewIdent("Hit")},
		Args: []ast.Expr{&ast.BasicLit{Kind: token.STRING, Value: strconv.Quote(label)}},
	}}
}

func replaceSleep(body *ast.BlockStmt, gate string) {
	ast.Inspect(body, func(n ast.Node) bool {
		call, ok := n.(*ast.CallExpr)
		if !ok {
			return true
		}
		sel, ok := call.Fun.(*ast.SelectorExpr)
		if !ok {
			return true
		}
		if id, ok := sel.X.(*ast.Ident); ok && id.Name == "time" && sel.Sel.Name == "Sleep" && len(call.Args) == 1 {
			id.Name = "verifcrash"
			call.Args = []ast.Expr{&ast.BasicLit{Kind: token.STRING, Value: strconv.Quote(gate)}, call.Args[0]}
		}
		return true
	})
}

func addImport(f *ast.File, path string) {
	spec := &ast.ImportSpec{Path: &ast.BasicLit{Kind: token.STRING, Value: strconv.Quote(path)}}
	for _, d := range f.Decls {
		if gd, ok := d.(*ast.GenDecl); ok && gd.Tok == token.IMPORT {
			gd.Specs = append(gd.Specs, spec)
			if !gd.Lparen.IsValid() {
				gd.Lparen = gd.Pos()
				gd.Rparen = gd.End()
			}
			f.Imports = append(f.Imports, spec)
			return
		}
	}
	gd := &ast.GenDecl{Tok: token.IMPORT, Specs: []ast.Spec{spec}}
	f.Decls = append([]ast.Decl{gd}, f.Decls...)
	f.Imports = append(f.Imports, spec)
}

// crashSrc is the overlay-only package pkg/verifcrash.
const crashSrc = `// Package verifcrash exists only in the crash-point overlay build of the C10 check.
package verifcrash

import (
	"os"
	"strconv"
	"strings"
	"sync"
	"sync/atomic"
	"syscall"
	"time"
)

var (
	mu      sync.Mutex
	counts  = map[string]int64{}
	target  string
	targetN int64
	active  int32 // 1: count hits / look for the target
	step    bool
	gates   = map[string]*gate{}
)

type gate struct {
	release chan struct{}
	done    chan struct{}
	ran     bool
}

func init() {
	if v := os.Getenv("C10_CRASH_AT"); v != "" {
		if i := strings.LastIndexByte(v, '#'); i > 0 {
			target = v[:i]
			targetN, _ = strconv.ParseInt(v[i+1:], 10, 64)
		}
	}
	if target != "" || os.Getenv("C10_CRASH_RECORD") != "" {
		atomic.StoreInt32(&active, 1)
	}
	step = os.Getenv("C10_STEP") == "1"
}

// Hit marks a crash point. The process kills itself (SIGKILL, nothing is flushed or deferred) when
// the configured point is reached for the configured time.
func Hit(label string) {
	if atomic.LoadInt32(&active) == 0 {
		return
	}
	mu.Lock()
	counts[label]++
	n := counts[label]
	mu.Unlock()
	if label == target && n == targetN {
		_ = syscall.Kill(os.Getpid(), syscall.SIGKILL)
		for {
			time.Sleep(time.Hour) // never continue past the crash point
		}
	}
}

// Counts returns the number of hits per crash point so far.
func Counts() map[string]int64 {
	mu.Lock()
	defer mu.Unlock()
	out := make(map[string]int64, len(counts))
	for k, v := range counts {
		out[k] = v
	}
	return out
}

func getGate(name string) *gate {
	mu.Lock()
	defer mu.Unlock()
	g := gates[name]
	if g == nil {
		g = &gate{release: make(chan struct{}), done: make(chan struct{}, 1)}
		gates[name] = g
	}
	return g
}

// Sleep replaces time.Sleep in the timer loops. In step mode the loop waits for Tick instead of
// the clock, so that the harness decides when a periodic flush runs and knows when it has finished.
func Sleep(name string, d time.Duration) {
	if !step {
		time.Sleep(d)
		return
	}
	g := getGate(name)
	if g.ran {
		g.done <- struct{}{}
	}
	<-g.release
	g.ran = true
}

// Tick lets the loop behind the gate run its body once and returns when the loop is back at the gate.
// It returns false if the loop did not reach the gate within the timeout.
func Tick(name string, timeout time.Duration) bool {
	g := getGate(name)
	select {
	case g.release <- struct{}{}:
	case <-time.After(timeout):
		return false
	}
	select {
	case <-g.done:
		return true
	case <-time.After(timeout):
		return false
	}
}

// StepMode reports whether the timer loops are driven by Tick.
func StepMode() bool { return step }
`
