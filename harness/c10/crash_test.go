package c10

// C10, crash points — the worker is rebuilt with an overlay (see ovgen) that puts a crash point in
// front of every statement of the WAL append / rotate / recover functions and turns the WAL timer
// loops into step-driven loops. A history is a deterministic script (ingest / tick / rotate); a case
// is (script, crash point, hit number): the process SIGKILLs itself when it reaches the point for
// the k-th time, either in the first server ("run") or in the first restart ("recover"). After
// that the same oracle as in TestC10Recover applies.

import (
	"crypto/sha256"
	"encoding/json"
	"errors"
	"fmt"
	"os"
	"os/exec"
	"path/filepath"
	"sort"
	"strings"
	"sync"
	"syscall"
	"testing"

	"pgregory.net/rapid"

	"verifharness/pt"
	"verifharness/sut"
)

type stepOp struct {
	Op   string     `json:"op"` // "ingest" | "tick" | "rotate" | "wal"
	Pts  []recPoint `json:"pts,omitempty"`
	Gate string     `json:"gate,omitempty"` // tick: dps | mname | meta | tags
	// wal: lower the limits of the datapoint WAL (0 = unchanged): ingest calls append a block
	// themselves after Flush buffered datapoints, the log of a block continues in a new file
	// (rotateWAL) when the encoded size of the current file exceeds Max bytes
	Flush int `json:"flush,omitempty"`
	Max   int `json:"max,omitempty"`
}

type crashCase struct {
	Series []recSeries `json:"series"`
	Script []stepOp    `json:"script"`
	Side   string      `json:"side"` // "run" | "recover" | "none" (no crash point: plain kill at the end)
	Label  string      `json:"label,omitempty"`
	K      int         `json:"k,omitempty"`
}

// ---- script generator ---------------------------------------------------------------------------

func genScript(t *rapid.T) *crashCase { return genScriptOpt(t, false) }

// genScriptOpt: a rich script always has a second waited phase, a block rotation and datapoints in
// flight (the first history of every run, so that a small budget sees every instrumented function).
func genScriptOpt(t *rapid.T, rich bool) *crashCase {
	cs := &crashCase{Side: "none"}
	nSeries := rapid.IntRange(1, 3).Draw(t, "nSeries")
	nMetrics := rapid.IntRange(1, 2).Draw(t, "nMetrics")
	names := make([]string, nMetrics)
	for i := range names {
		names[i] = rapid.SampledFrom(recMetricPool).Draw(t, "metric")
	}
	for i := 0; i < nSeries; i++ {
		cs.Series = append(cs.Series, recSeries{Metric: names[rapid.IntRange(0, nMetrics-1).Draw(t, "mIdx")]})
	}
	nextTs := make([]uint32, nSeries)
	base := uint32(1700000000) + uint32(rapid.IntRange(0, 1000000).Draw(t, "tsBase"))
	for i := range nextTs {
		nextTs[i] = base + uint32(rapid.IntRange(0, 30).Draw(t, "tsOff"))
	}
	pts := func(n int, first bool) []recPoint {
		var out []recPoint
		add := func(s int) {
			v := float64(rapid.IntRange(1, 4000).Draw(t, "v")) / 2
			if rapid.Bool().Draw(t, "neg") {
				v = -v
			}
			out = append(out, recPoint{S: s, T: nextTs[s], V: v})
			nextTs[s] += uint32(rapid.IntRange(1, 90).Draw(t, "dt"))
		}
		if first {
			for s := 0; s < nSeries; s++ {
				add(s)
			}
		}
		for i := 0; i < n; i++ {
			add(rapid.IntRange(0, nSeries-1).Draw(t, "s"))
		}
		return out
	}
	tick := func(g string) { cs.Script = append(cs.Script, stepOp{Op: "tick", Gate: g}) }
	// the limits of the datapoint WAL: two scripts in three (and every rich one) run with lowered
	// limits, so that ingest calls and dps ticks rotate the WAL (rotateWAL) again and again and the
	// crash points fall on every side of a rotation; such scripts carry more datapoints per call
	// (rapid favours small values: the draws are rotated by a per-case offset)
	flat := func(label string, n int) int {
		return (rapid.IntRange(0, n-1).Draw(t, label) + int(base%uint32(n))) % n
	}
	walRegimes := [][2]int{{2, 70}, {1, 60}, {3, 100}, {2, 1}, {2, 150}, {10000, 90}, {4, 260}, {1, 1}} // flush, max
	walOp := stepOp{Op: "wal"}
	lowered := rich || flat("walLowered", 3) != 0
	extra := 0
	if lowered {
		nReg := len(walRegimes)
		if rich {
			nReg, extra = 4, 2 // the regimes with a rotation every one or two blocks
		}
		r := walRegimes[flat("walRegime", nReg)]
		walOp.Flush, walOp.Max = r[0], r[1]
		extra += 3
	}
	walLate := lowered && !rich && flat("walLate", 4) == 0
	if lowered && !walLate {
		cs.Script = append(cs.Script, walOp)
	}
	cs.Script = append(cs.Script, stepOp{Op: "ingest", Pts: pts(rapid.IntRange(0, 4).Draw(t, "n0")+extra, true)})
	tick("tags")
	tick("mname")
	tick("dps")
	tick("meta")
	if walLate {
		// the first block of the log was written under the production limits
		cs.Script = append(cs.Script, walOp)
	}
	more := rapid.IntRange(0, 2).Draw(t, "more")
	if (rich || walLate) && more == 0 {
		more = 1
	}
	for k, n := 0, more; k < n; k++ {
		cs.Script = append(cs.Script, stepOp{Op: "ingest", Pts: pts(rapid.IntRange(1, 5).Draw(t, "n")+extra, false)})
		tick("dps")
		if rapid.Bool().Draw(t, "metaTick") {
			tick("meta")
		}
	}
	if rapid.IntRange(0, 2).Draw(t, "rotate") != 0 || rich {
		// (a block rotation always follows a dps tick: every acknowledged datapoint is in the log)
		cs.Script = append(cs.Script, stepOp{Op: "rotate"})
		tick("meta")
		cs.Script = append(cs.Script, stepOp{Op: "ingest", Pts: pts(rapid.IntRange(1, 4).Draw(t, "n")+extra, false)})
		tick("dps")
		tick("meta")
	}
	if rapid.IntRange(0, 3).Draw(t, "tail") != 0 || rich {
		cs.Script = append(cs.Script, stepOp{Op: "ingest", Pts: pts(rapid.IntRange(1, 4).Draw(t, "n")+extra, false)})
	}
	return cs
}

// ---- instrumented worker binary -----------------------------------------------------------------

var (
	instrOnce sync.Once
	instrBin  string
	instrErr  error
)

func harnessDir() string {
	if d := os.Getenv("VERIF_HARNESS"); d != "" {
		return d
	}
	return "/verif/harness"
}

// instrumentedWorker builds (once per driver invocation, shared by the shards) the overlay worker.
func instrumentedWorker() (string, error) {
	instrOnce.Do(func() {
		if b := os.Getenv("C10_INSTR_BINARY"); b != "" {
			instrBin = b
			return
		}
		root := "/verif/.work/c10-ov-dev"
		if w := os.Getenv("VERIF_WORK"); w != "" {
			root = filepath.Join(filepath.Dir(w), "c10-ov")
		}
		if err := os.MkdirAll(root, 0o755); err != nil {
			instrErr = err
			return
		}
		lock, err := os.OpenFile(filepath.Join(root, "lock"), os.O_CREATE|os.O_RDWR, 0o644)
		if err != nil {
			instrErr = err
			return
		}
		defer lock.Close()
		if err := syscall.Flock(int(lock.Fd()), syscall.LOCK_EX); err != nil {
			instrErr = err
			return
		}
		defer syscall.Flock(int(lock.Fd()), syscall.LOCK_UN)
		bin := filepath.Join(root, "worker.test")
		if _, err := os.Stat(filepath.Join(root, "ok")); err == nil {
			instrBin = bin
			return
		}
		repo := os.Getenv("VERIF_REPO")
		if repo == "" {
			repo = "/repo"
		}
		goflags := "-mod=mod"
		if cur := os.Getenv("GOFLAGS"); strings.Contains(cur, "-modfile") {
			goflags = cur // the driver checks another checkout (VERIF_REPO) through an alternative go.mod
		}
		env := append(os.Environ(), "GOFLAGS="+goflags, "GOPROXY=off", "GOSUMDB=off", "GOTOOLCHAIN=local")
		run := func(name string, args ...string) error {
			cmd := exec.Command(name, args...)
			cmd.Dir = harnessDir()
			cmd.Env = env
			out, err := cmd.CombinedOutput()
			if err != nil {
				return fmt.Errorf("%s %s: %v\n%s", name, strings.Join(args, " "), err, tailStr(string(out), 3000))
			}
			return nil
		}
		ovgen := filepath.Join(root, "ovgen")
		if err := run("go", "build", "-o", ovgen, "./c10/ovgen"); err != nil {
			instrErr = err
			return
		}
		genArgs := []string{"-repo", repo, "-out", filepath.Join(root, "gen")}
		if so := os.Getenv("C10_SRC_OVERLAY"); so != "" {
			genArgs = append(genArgs, "-srcoverlay", so) // development: instrument a candidate fix
		}
		if err := run(ovgen, genArgs...); err != nil {
			instrErr = err
			return
		}
		if err := run("go", "test", "-c", "-vet=off", "-tags", "verif,verifoverlay", "-overlay", filepath.Join(root, "gen", "overlay.json"),
			"-o", bin, "./c10"); err != nil {
			instrErr = err
			return
		}
		_ = os.WriteFile(filepath.Join(root, "ok"), []byte("ok"), 0o644)
		instrBin = bin
	})
	return instrBin, instrErr
}

func tailStr(s string, n int) string {
	if len(s) > n {
		return s[len(s)-n:]
	}
	return s
}

// ---- running one case -----------------------------------------------------------------------------

type hitRecord struct {
	start    map[string]int64 // hits of the first server before it answered its first command
	run, rec map[string]int64 // hits of the first server at the end of the script / of the first restart
}

func (cs *crashCase) allPoints() []recPoint {
	var all []recPoint
	for _, op := range cs.Script {
		all = append(all, op.Pts...)
	}
	return all
}

func runCrashCase(cs *crashCase, o *pt.Obs, rec *hitRecord) error {
	bin, err := instrumentedWorker()
	if err != nil {
		return pt.Inconclusivef("building the instrumented worker: %v", err)
	}
	if len(cs.Series) == 0 || len(cs.Script) == 0 {
		return pt.Inconclusivef("bad case")
	}
	dataDir := pt.NewDataDir()
	defer pt.CleanupDataDir(dataDir)
	baseEnv := func() map[string]string {
		return map[string]string{"C10_STEP": "1", "VERIF_LOGLEVEL": "error", "C10_CRASH_RECORD": "1"}
	}
	plain := sut.Options{DataDir: dataDir, Binary: bin, Env: baseEnv()}
	armed := sut.Options{DataDir: dataDir, Binary: bin, Env: baseEnv()}
	if cs.Side == "run" || cs.Side == "recover" {
		armed.Env["C10_CRASH_AT"] = fmt.Sprintf("%s#%d", cs.Label, cs.K)
	}
	first := plain
	if cs.Side == "run" {
		first = armed
	}
	e := newRecEngine(cs.Series, cs.allPoints(), first, o)
	if err := e.start(); err != nil {
		return err
	}
	defer e.close()
	if rec != nil {
		if err := e.c.Call(&sut.Req{Op: "c10.hits"}, &rec.start); err != nil {
			return pt.Inconclusivef("reading hit counts: %v", err)
		}
	}

	crashedIn := ""
	call := func(req *sut.Req, out interface{}) (gone bool, err error) {
		err = e.c.Call(req, out)
		if errors.Is(err, sut.ErrWorkerDied) {
			return true, nil
		}
		if err != nil {
			return false, pt.Inconclusivef("%s %s: %v", req.Op, req.Name, err)
		}
		return false, nil
	}
	clearInflight := func() {
		for i := range e.series {
			for t := range e.seenLogged[i] {
				delete(e.inflight, dpKey{e.tsidOf[i], t})
			}
		}
	}
script:
	for oi, op := range cs.Script {
		stage := fmt.Sprintf("script op %d (%s %s)", oi, op.Op, op.Gate)
		switch op.Op {
		case "ingest":
			if err := e.ingest(stage, op.Pts, true); err != nil {
				if errors.Is(err, errServerGone) {
					e.maybeSent(op.Pts)
					crashedIn = "ingest"
					break script
				}
				return err
			}
			if oi == 0 {
				// nothing has been flushed yet: the baseline reads the in-memory state
				if err := e.baseline("after the first ingest"); err != nil {
					if errors.Is(err, errServerGone) {
						crashedIn = "baseline"
						break script
					}
					return err
				}
			}
		case "tick":
			gone, err := call(&sut.Req{Op: "c10.tick", Name: op.Gate}, nil)
			if err != nil {
				return err
			}
			if gone {
				crashedIn = "tick_" + op.Gate
				break script
			}
			if err := e.observe(); err != nil {
				return err
			}
			clearInflight()
		case "wal":
			if err := e.setWalLimits(op.Flush, op.Max); err != nil {
				var inc *pt.Inconclusive
				if errors.As(err, &inc) {
					return err
				}
				crashedIn = "wallimits"
				break script
			}
		case "rotate":
			want, err := e.rotationTargets()
			if err != nil {
				return err
			}
			for _, r := range []*sut.Req{
				{Op: "c10.blocklimit", Ints: map[string]int64{"bytes": 1}},
				{Op: "c10.tick", Name: "rotate"},
				{Op: "c10.blocklimit", Ints: map[string]int64{"bytes": 100000000}},
			} {
				gone, err := call(r, nil)
				if err != nil {
					return err
				}
				if gone {
					crashedIn = "rotate"
					break script
				}
			}
			if len(want) > 0 {
				done, err := e.rotated(want)
				if err != nil {
					return err
				}
				if done {
					e.markDurable(want)
				} else {
					// not fatal: what was seen logged stays owed however the block was (not) closed
					o.Class("block_rotation_not_observed")
				}
			}
			if err := e.observe(); err != nil {
				return err
			}
		default:
			return pt.Inconclusivef("bad script op %q", op.Op)
		}
	}
	if crashedIn == "" {
		if e.c.Dead() {
			crashedIn = "between_ops"
		} else {
			if rec != nil {
				if gone, err := call(&sut.Req{Op: "c10.hits"}, &rec.run); err != nil || gone {
					return pt.Inconclusivef("reading hit counts: gone=%v err=%v", gone, err)
				}
			}
			e.c.Kill()
		}
	}
	if cs.Side == "run" {
		if crashedIn != "" {
			o.Class("crashed_in_" + crashedIn)
		} else {
			o.Class("crash_point_not_reached")
		}
	} else if crashedIn != "" {
		return fmt.Errorf("server process died in %s without a crash point being armed: %s", crashedIn, pt.CrashDetail(e.c))
	}
	if !e.c.Dead() {
		e.c.Kill()
	}
	if err := e.postMortem(); err != nil {
		return err
	}
	firedInRecovery := false
	if cs.Side == "recover" || rec != nil {
		// first restart: armed (or recording); it dies inside a recovery function or comes up
		opts := armed
		c2, err := sut.Start(opts)
		if err != nil {
			if !strings.Contains(err.Error(), "did not become ready") {
				return pt.Inconclusivef("first restart: %v", err)
			}
			if cs.Side != "recover" {
				return fmt.Errorf("first restart: the server does not start on the data directory left by the crash: %v", err)
			}
			firedInRecovery = true
			o.Class("crashed_during_recovery")
		} else {
			if rec != nil {
				if err := c2.Call(&sut.Req{Op: "c10.hits"}, &rec.rec); err != nil {
					c2.Kill()
					return pt.Inconclusivef("reading hit counts after restart: %v", err)
				}
			}
			if cs.Side == "recover" {
				o.Class("crash_point_not_reached")
			}
			c2.Kill() // a completed recovery followed by another plain kill
		}
	}
	if (crashedIn != "" || firedInRecovery) && e.nMust > 0 {
		o.NonTrivial()
	}
	if cs.Side != "none" {
		o.Class("point_" + strings.SplitN(cs.Label, ":", 2)[0])
	}
	return e.verify("after the crash and restart", plain)
}

func checkCrash(cs *crashCase, o *pt.Obs) error { return runCrashCase(cs, o, nil) }

// ---- enumeration ----------------------------------------------------------------------------------

type crashPoint struct {
	side  string
	label string
	k     int
}

// recoverySide: crash points of these functions are exercised in the restart, the others in the first server.
func recoverySide(label string) bool {
	return strings.HasPrefix(label, "Recover")
}

func selectPoints(h *hitRecord) []crashPoint {
	var out []crashPoint
	add := func(side string, m map[string]int64) {
		labels := make([]string, 0, len(m))
		for l := range m {
			if side == "run" && recoverySide(l) {
				continue // on an empty data directory: a crash before the server is up
			}
			if side == "recover" && strings.HasPrefix(l, "timeBased") {
				// timer goroutines starting up next to the recovery: the instant of such a crash
				// relative to the recovery is up to the scheduler (not reproducible)
				continue
			}
			labels = append(labels, l)
		}
		sort.Strings(labels)
		for _, l := range labels {
			c := int(m[l])
			lo := 1
			if side == "run" {
				// hits during start-up of the first server (timer goroutines reaching their gates)
				// would kill it before anything was ingested
				lo = int(h.start[l]) + 1
			}
			if c < lo {
				continue
			}
			ks := map[int]bool{lo: true, c: true}
			if pt.Thorough() {
				for k := lo; k <= c && k < lo+8; k++ {
					ks[k] = true
				}
				ks[(lo+c)/2] = true
			} else if c > lo+1 {
				ks[(lo+c)/2] = true
			}
			var kl []int
			for k := range ks {
				if k >= lo && k <= c {
					kl = append(kl, k)
				}
			}
			sort.Ints(kl)
			for _, k := range kl {
				out = append(out, crashPoint{side, l, k})
			}
		}
	}
	add("run", h.run)
	// in the restart every instrumented function that runs before the server is ready counts
	add("recover", h.rec)
	return out
}

func TestC10Crash(t *testing.T) {
	shard, shards := pt.Shard()
	budget := pt.Cases(12)
	seed := pt.SeedFromEnv()
	var (
		hist    *crashCase
		points  []crashPoint
		pi      int
		histNo  int
		emitted int
	)
	next := func(i int) (*crashCase, bool) {
		for {
			if emitted >= budget {
				return nil, false
			}
			if hist != nil && pi < len(points) {
				p := points[pi]
				pi++
				cs := &crashCase{Series: hist.Series, Script: hist.Script, Side: p.side, Label: p.label, K: p.k}
				emitted++
				return cs, true
			}
			if histNo >= 200 {
				return nil, false
			}
			// next history: the same for every shard; its crash points are dealt round-robin
			rich := histNo == 0
			hist = rapid.Custom(func(t *rapid.T) *crashCase { return genScriptOpt(t, rich) }).Example(int(seed)*100003 + histNo + 1)
			histNo++
			rec := &hitRecord{}
			if err := runCrashCase(hist, &pt.Obs{}, rec); err != nil {
				t.Logf("history %d: record run: %v", histNo, err)
				failed := hist
				hist = nil
				var inc *pt.Inconclusive
				if !errors.As(err, &inc) {
					// the history fails without any crash point (plain kill at its end): hand it to
					// the runner as a case of its own, so that it is reported with a replay file
					emitted++
					return failed, true
				}
				continue
			}
			all := selectPoints(rec)
			// deal the points in a seeded pseudo-random order, so that a small budget is spread over all functions
			key := func(p crashPoint) string {
				h := sha256.Sum256([]byte(fmt.Sprintf("%d/%d/%s/%s/%d", seed, histNo, p.side, p.label, p.k)))
				return string(h[:8])
			}
			sort.SliceStable(all, func(a, b int) bool { return key(all[a]) < key(all[b]) })
			points = points[:0]
			for j, p := range all {
				if j%shards == shard {
					points = append(points, p)
				}
			}
			pi = 0
			if shard == 0 {
				b, _ := json.Marshal(map[string]int{"history": histNo, "points": len(all), "labels_run": len(rec.run), "labels_recover": len(rec.rec)})
				t.Logf("crash points: %s", b)
			}
		}
	}
	pt.RunCases(t, "C10", next, checkCrash)
}
