package c10

// Worker-side operations of C10 (the worker is this same test binary).

import (
	"fmt"
	"math"
	"os"
	"sort"
	"sync/atomic"

	"github.com/siglens/siglens/pkg/config"
	"github.com/siglens/siglens/pkg/integrations/prometheus/promql"
	"github.com/siglens/siglens/pkg/segment"
	"github.com/siglens/siglens/pkg/segment/query"
	"github.com/siglens/siglens/pkg/segment/structs"
	sutils "github.com/siglens/siglens/pkg/segment/utils"
	"github.com/siglens/siglens/pkg/segment/writer"
	"github.com/siglens/siglens/pkg/segment/writer/metrics"

	dtu "github.com/siglens/siglens/pkg/common/dtypeutils"

	"verifharness/sut"
)

var c10Qid uint64 = 500000

func init() {
	if os.Getenv(sut.WorkerEnv) == "1" && os.Getenv("C10_TAGS_FLUSH_SECS") != "" {
		// Tag trees are not write-ahead logged; they are flushed by a timer whose period is this
		// exported variable (60 s; siglens' own tests set 10). The recovery check needs the trees on
		// disk before the crash, so the worker shortens the period before the timer starts.
		var n int
		fmt.Sscanf(os.Getenv("C10_TAGS_FLUSH_SECS"), "%d", &n)
		if n > 0 {
			metrics.TAGS_TREE_FLUSH_SLEEP_DURATION = n
		}
	}
	sut.RegisterOp("c10.paths", func(r *sut.Req) (interface{}, error) {
		return map[string]string{
			"wal":  config.GetDataPath() + config.GetHostID() + "/wal-ts/",
			"host": config.GetHostID(),
			"data": config.GetDataPath(),
		}, nil
	})
	// c10.blocklimit: lowers the size at which the 10-second rotation timer closes a metrics block.
	sut.RegisterOp("c10.blocklimit", func(r *sut.Req) (interface{}, error) {
		sutils.MAX_BYTES_METRICS_BLOCK = uint64(r.Ints["bytes"])
		return nil, nil
	})
	// c10.wallimits: lowers the two exported limits of the datapoint WAL: the number of buffered
	// datapoints at which an ingest call appends a block itself (WAL_BLOCK_FLUSH_SIZE, 10000) and the
	// encoded size above which the WAL of a block continues in a new file (MAX_WAL_FILE_SIZE_BYTES,
	// 128 MB; rotateWAL). 0 = leave as it is. The flush size is only ever lowered: the buffers of the
	// segments that exist are as long as the value at their creation.
	sut.RegisterOp("c10.wallimits", func(r *sut.Req) (interface{}, error) {
		if n := int(r.Ints["flush"]); n > 0 {
			if n > sutils.WAL_BLOCK_FLUSH_SIZE {
				return nil, fmt.Errorf("the WAL flush size can only be lowered (%d > %d)", n, sutils.WAL_BLOCK_FLUSH_SIZE)
			}
			sutils.WAL_BLOCK_FLUSH_SIZE = n
		}
		if n := r.Ints["maxbytes"]; n > 0 {
			sutils.MAX_WAL_FILE_SIZE_BYTES = uint64(n)
		}
		return nil, nil
	})
	// c10.mnames: metric names known for the time range Start..End.
	sut.RegisterOp("c10.mnames", func(r *sut.Req) (interface{}, error) {
		names, err := query.GetAllMetricNamesOverTheTimeRange(&dtu.MetricsTimeRange{StartEpochSec: uint32(r.Start), EndEpochSec: uint32(r.End)}, r.Org)
		if err != nil {
			return nil, err
		}
		sort.Strings(names)
		return names, nil
	})
	// c10.ingest: Strs = OTSDB JSON datapoints, ingested one by one through the metrics write path.
	// Answers, per entry, the series id (TSID) siglens assigned, or the error.
	sut.RegisterOp("c10.ingest", func(r *sut.Req) (interface{}, error) {
		out := &IngestResult{}
		for _, raw := range r.Strs {
			th := metrics.GetTagsHolder()
			mName, _, _, err := metrics.ExtractOTSDBPayload([]byte(raw), th)
			var tsid uint64
			if err == nil {
				tsid, err = th.GetTSID(mName)
			}
			if err == nil {
				err = writer.AddTimeSeriesEntryToInMemBuf([]byte(raw), sutils.SIGNAL_METRICS_OTSDB, r.Org)
			}
			if err != nil {
				out.Errs = append(out.Errs, err.Error())
			} else {
				out.Errs = append(out.Errs, "")
			}
			out.Tsids = append(out.Tsids, tsid)
		}
		return out, nil
	})
	// c10.mquery: Text = PromQL selector, Start/End epoch seconds, Ints["step"] downsample seconds.
	sut.RegisterOp("c10.mquery", func(r *sut.Req) (interface{}, error) {
		out := &MQueryResult{}
		reqs, _, arith, err := promql.ConvertPromQLToMetricsQuery(r.Text, uint32(r.Start), uint32(r.End), r.Org)
		if err != nil {
			out.Err = "parse: " + err.Error()
			return out, nil
		}
		var list []*structs.MetricsQuery
		var hashes []uint64
		var tr *dtu.MetricsTimeRange
		for i := range reqs {
			reqs[i].MetricsQuery.Downsampler.Interval = int(r.Ints["step"])
			reqs[i].MetricsQuery.Downsampler.Unit = "s"
			if r.Ints["sum"] != 0 {
				// per-series, per-bucket sum instead of average: a datapoint present twice shows as 2v
				reqs[i].MetricsQuery.Downsampler.Aggregator.AggregatorFunction = sutils.Sum
				reqs[i].MetricsQuery.FirstAggregator.AggregatorFunction = sutils.Sum
				if sa := reqs[i].MetricsQuery.SubsequentAggs; sa != nil && sa.AggregatorBlock != nil {
					sa.AggregatorBlock.AggregatorFunction = sutils.Sum
				}
			}
			hashes = append(hashes, reqs[i].MetricsQuery.QueryHash)
			list = append(list, &reqs[i].MetricsQuery)
			tr = &reqs[i].TimeRange
		}
		if tr == nil {
			out.Err = "no metrics query"
			return out, nil
		}
		qid := atomic.AddUint64(&c10Qid, 1)
		res := segment.ExecuteMultipleMetricsQuery(hashes, list, arith, tr, qid, false)
		if res == nil {
			out.Err = "nil result"
			return out, nil
		}
		for _, e := range res.ErrList {
			out.Errors = append(out.Errors, e.Error())
		}
		for id, pts := range res.Results {
			s := MSeries{ID: id}
			for ts, v := range pts {
				s.Pts = append(s.Pts, MPoint{T: ts, V: math.Float64bits(v)})
			}
			sort.Slice(s.Pts, func(i, j int) bool { return s.Pts[i].T < s.Pts[j].T })
			out.Series = append(out.Series, s)
		}
		sort.Slice(out.Series, func(i, j int) bool { return out.Series[i].ID < out.Series[j].ID })
		return out, nil
	})
}

type IngestResult struct {
	Errs  []string `json:"errs"`
	Tsids []uint64 `json:"tsids"`
}

type MPoint struct {
	T uint32 `json:"t"`
	V uint64 `json:"v"`
}

type MSeries struct {
	ID  string   `json:"id"`
	Pts []MPoint `json:"pts"`
}

type MQueryResult struct {
	Err    string    `json:"err,omitempty"`
	Errors []string  `json:"errors,omitempty"`
	Series []MSeries `json:"series,omitempty"`
}
