//go:build verifoverlay

package c10

// Worker operations that exist only in the crash-point overlay build (see ovgen).

import (
	"fmt"
	"time"

	"github.com/siglens/siglens/pkg/verifcrash"

	"verifharness/sut"
)

func init() {
	// c10.hits: number of times each crash point was passed so far in this process.
	sut.RegisterOp("c10.hits", func(r *sut.Req) (interface{}, error) {
		return verifcrash.Counts(), nil
	})
	// c10.tick: let the named timer loop run its body once (step mode) and wait until it is done.
	sut.RegisterOp("c10.tick", func(r *sut.Req) (interface{}, error) {
		if !verifcrash.StepMode() {
			return nil, fmt.Errorf("not in step mode")
		}
		if !verifcrash.Tick(r.Name, 20*time.Second) {
			return nil, fmt.Errorf("timer loop %q did not come back to its gate", r.Name)
		}
		return nil, nil
	})
}
