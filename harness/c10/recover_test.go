package c10

// C10, recovery level — real metrics ingestion into a worker process, SIGKILL, restart on the same
// data directory (the worker start-up runs RecoverWALData / RecoverMNameWALData /
// RecoverMEntryWALData like cmd/startup), then selector queries. What must come back is computed
// after the kill from the files the dead process left behind.

import (
	"errors"
	"fmt"
	"math"
	"os"
	"path/filepath"
	"sort"
	"strconv"
	"strings"
	"testing"
	"time"

	"pgregory.net/rapid"

	"github.com/siglens/siglens/pkg/segment/reader/metrics/tagstree"
	"github.com/siglens/siglens/pkg/segment/structs"
	"github.com/siglens/siglens/pkg/segment/writer/metrics/wal"

	"verifharness/pt"
	"verifharness/sut"
)

type recSeries struct {
	Metric string `json:"metric"`
	// every series carries the same two tag keys with values unique to the series:
	// sid="s<i>", grp="g<i>"
}

type recPoint struct {
	S int     `json:"s"` // series index
	T uint32  `json:"t"`
	V float64 `json:"v"` // non-zero multiple of 0.5
}

type recPhase struct {
	Pts []recPoint `json:"pts"`
	// Wait: after the ingest call returns, wait until every datapoint sent so far is readable from
	// the datapoint WAL files and the names / segment metadata / tag trees are on disk.
	Wait bool `json:"wait"`
	// PauseMs: sleep after the ingest call of a phase that is not waited for.
	PauseMs int `json:"pauseMs,omitempty"`
}

type recCase struct {
	Series []recSeries `json:"series"`
	Phases []recPhase  `json:"phases"`
	// RotateAfter >= 0: after that (waited) phase the open metrics block is closed by the block
	// rotation timer (size limit lowered to 1 byte until the rotation has been observed).
	RotateAfter int `json:"rotateAfter"`
	KillDelayMs int `json:"killDelayMs"` // pause between the last ingest call and SIGKILL
	// SecondCrash: after the first verification the restarted server is killed and restarted again.
	SecondCrash bool `json:"secondCrash"`
}

var recMetricPool = []string{"c10_cpu", "c10_mem", "net_rx_bytes", "disk:io", "up", "a", "c10_q", "zz_latency"}

func genRecCase(t *rapid.T) *recCase {
	cs := &recCase{RotateAfter: -1}
	nSeries := rapid.IntRange(1, 4).Draw(t, "nSeries")
	nMetrics := rapid.IntRange(1, 3).Draw(t, "nMetrics")
	names := make([]string, nMetrics)
	for i := range names {
		names[i] = rapid.SampledFrom(recMetricPool).Draw(t, "metric")
	}
	for i := 0; i < nSeries; i++ {
		cs.Series = append(cs.Series, recSeries{Metric: names[rapid.IntRange(0, nMetrics-1).Draw(t, "mIdx")]})
	}
	nextTs := make([]uint32, nSeries)
	base := uint32(1700000000) + uint32(rapid.IntRange(0, 1000000).Draw(t, "tsBase"))
	for i := range nextTs {
		nextTs[i] = base + uint32(rapid.IntRange(0, 30).Draw(t, "tsOff"))
	}
	genPts := func(n int, onlySeries int) []recPoint {
		var pts []recPoint
		for i := 0; i < n; i++ {
			s := rapid.IntRange(0, onlySeries-1).Draw(t, "s")
			v := float64(rapid.IntRange(1, 4000).Draw(t, "v")) / 2
			if rapid.Bool().Draw(t, "neg") {
				v = -v
			}
			pts = append(pts, recPoint{S: s, T: nextTs[s], V: v})
			nextTs[s] += uint32(rapid.IntRange(1, 90).Draw(t, "dt"))
		}
		return pts
	}
	nWaited := rapid.IntRange(1, pt.Scale(2, 3)).Draw(t, "nWaited")
	for p := 0; p < nWaited; p++ {
		ph := recPhase{Wait: true}
		if p == 0 {
			// every series appears in the first phase, so that its tags can reach the disk
			for s := 0; s < nSeries; s++ {
				ph.Pts = append(ph.Pts, recPoint{S: s, T: nextTs[s], V: float64(2*s+1) / 2})
				nextTs[s] += uint32(rapid.IntRange(1, 90).Draw(t, "dt"))
			}
		}
		ph.Pts = append(ph.Pts, genPts(rapid.IntRange(1, 12).Draw(t, "nPts"), nSeries)...)
		cs.Phases = append(cs.Phases, ph)
	}
	// the phases in flight when the process is killed: nobody waits for their log appends; the
	// 1-second WAL timers fire somewhere in between (or not)
	for k, n := 0, rapid.IntRange(0, 3).Draw(t, "nInflight"); k < n; k++ {
		cs.Phases = append(cs.Phases, recPhase{Pts: genPts(rapid.IntRange(1, 8).Draw(t, "nLast"), nSeries),
			PauseMs: rapid.SampledFrom([]int{0, 100, 300, 500, 700, 900}).Draw(t, "pause")})
	}
	cs.KillDelayMs = rapid.SampledFrom([]int{0, 0, 5, 50, 300, 700}).Draw(t, "killDelay")
	if rapid.IntRange(0, pt.Scale(9, 5)).Draw(t, "rotate") == 0 {
		cs.RotateAfter = rapid.IntRange(0, nWaited-1).Draw(t, "rotateAfter")
	}
	cs.SecondCrash = rapid.IntRange(0, 2).Draw(t, "secondCrash") == 0
	return cs
}

func (cs *recCase) valid() error {
	if len(cs.Series) == 0 || len(cs.Phases) == 0 {
		return fmt.Errorf("empty case")
	}
	last := map[int]uint32{}
	for _, ph := range cs.Phases {
		for _, p := range ph.Pts {
			if p.S < 0 || p.S >= len(cs.Series) || p.V == 0 || p.V*2 != math.Trunc(p.V*2) || math.Abs(p.V) > 1e6 {
				return fmt.Errorf("bad point %+v", p)
			}
			if lt, ok := last[p.S]; ok && p.T <= lt {
				return fmt.Errorf("timestamps of series %d not increasing", p.S)
			}
			last[p.S] = p.T
		}
	}
	if cs.RotateAfter >= len(cs.Phases) || (cs.RotateAfter >= 0 && !cs.Phases[cs.RotateAfter].Wait) {
		return fmt.Errorf("rotateAfter must name a waited phase")
	}
	return nil
}

func sidOf(i int) string { return "s" + strconv.Itoa(i) }
func grpOf(i int) string { return "g" + strconv.Itoa(i) }

func otsdbLine(cs *recCase, p recPoint) string {
	return fmt.Sprintf(`{"metric":%q,"timestamp":%d,"value":%s,"tags":{"sid":%q,"grp":%q}}`,
		cs.Series[p.S].Metric, p.T, strconv.FormatFloat(p.V, 'f', -1, 64), sidOf(p.S), grpOf(p.S))
}

// ---- reading what a (dead or live) server left on disk -------------------------------------------

type walFile struct {
	name           string
	shard          string
	segID, blockID uint64
	dps            []wal.WalDatapoint
}

// readDPWals reads every datapoint WAL file of the directory through the exported iterator.
func readDPWals(walDir string) ([]walFile, error) {
	ents, err := os.ReadDir(walDir)
	if err != nil {
		return nil, err
	}
	var out []walFile
	for _, e := range ents {
		if e.IsDir() || !strings.HasSuffix(e.Name(), ".wal") {
			continue
		}
		// shardID_<shard>_segID_<seg>_blockID_<blk>_<idx>.wal
		parts := strings.Split(e.Name(), "_")
		if len(parts) < 7 {
			continue
		}
		seg, err1 := strconv.ParseUint(parts[3], 10, 64)
		blk, err2 := strconv.ParseUint(parts[5], 10, 64)
		if err1 != nil || err2 != nil {
			continue
		}
		wf := walFile{name: e.Name(), shard: parts[1], segID: seg, blockID: blk}
		it, err := wal.NewWALReader(filepath.Join(walDir, e.Name()))
		if err == nil {
			for {
				dp, err := it.Next()
				if err != nil || dp == nil {
					break
				}
				wf.dps = append(wf.dps, *dp)
			}
			_ = it.Close()
		}
		out = append(out, wf)
	}
	return out, nil
}

// countBlocks walks the documented framing (1-byte version, then length-prefixed blocks).
func countBlocks(path string) int {
	b, err := os.ReadFile(path)
	if err != nil {
		return 0
	}
	n := 0
	for pos := 1; pos+8 <= len(b); {
		l := int(uint32(b[pos]) | uint32(b[pos+1])<<8 | uint32(b[pos+2])<<16 | uint32(b[pos+3])<<24)
		if l < 4 || pos+4+l > len(b) {
			break
		}
		n++
		pos += 4 + l
	}
	return n
}

func readMNameWals(walDir string) map[string]bool {
	names := map[string]bool{}
	dir := filepath.Join(walDir, "mname")
	ents, _ := os.ReadDir(dir)
	for _, e := range ents {
		it, err := wal.NewMNameWalReader(filepath.Join(dir, e.Name()))
		if err != nil {
			continue
		}
		for {
			s, err := it.Next()
			if err != nil || s == nil {
				break
			}
			names[*s] = true
		}
		_ = it.Close()
	}
	return names
}

func readMetaWal(walDir string) []*structs.MetricsMeta {
	it, err := wal.NewMetricsMetaEntryWalReader(filepath.Join(walDir, "metaentry", "metricsMetaEntry.wal"))
	if err != nil {
		return nil
	}
	defer it.Close()
	var out []*structs.MetricsMeta
	for {
		m, err := it.Next()
		if err != nil || m == nil {
			return out
		}
		out = append(out, m)
	}
}

// tagPairsOf reads a tag-tree directory with siglens' reader and reports which of the wanted
// key=value pairs have at least one series. It works on a private copy of the files (the reader
// takes file locks and keeps them on its error paths; the live server must not be blocked).
// (AllTagTreeReaders.GetAllTagPairs is not usable here: it stops after the first metric of a tree.)
func tagPairsOf(dir string, wanted [][2]string) (pairs map[string]bool, err error) {
	defer func() {
		if r := recover(); r != nil {
			pairs, err = nil, fmt.Errorf("tag tree reader panicked: %v", r)
		}
	}()
	ents, err := os.ReadDir(dir)
	if err != nil {
		return nil, err
	}
	tmp, err := os.MkdirTemp(scratchRoot(), "verif-c10-tt-")
	if err != nil {
		return nil, err
	}
	defer os.RemoveAll(tmp)
	for _, e := range ents {
		if e.IsDir() {
			continue
		}
		b, err := os.ReadFile(filepath.Join(dir, e.Name()))
		if err != nil {
			return nil, err
		}
		if err := os.WriteFile(filepath.Join(tmp, e.Name()), b, 0o644); err != nil {
			return nil, err
		}
	}
	rd, err := tagstree.InitAllTagsTreeReader(tmp + "/")
	if err != nil {
		return nil, err
	}
	defer rd.CloseAllTagTreeReaders()
	keys := rd.GetAllTagKeys()
	pairs = map[string]bool{}
	for _, kv := range wanted {
		if _, ok := keys[kv[0]]; !ok {
			continue
		}
		h := structs.CreateNewHll()
		if err := rd.InsertTSIDsForTagPair(kv[0], kv[1], h); err != nil {
			return nil, err
		}
		if h.Cardinality() > 0 {
			pairs[kv[0]+"="+kv[1]] = true
		}
	}
	return pairs, nil
}

func scratchRoot() string {
	if st, err := os.Stat("/dev/shm"); err == nil && st.IsDir() {
		return "/dev/shm"
	}
	return os.TempDir()
}

// diskState is everything the harness reads from the data directory.
type diskState struct {
	wals  []walFile
	names map[string]bool
	metas []*structs.MetricsMeta
	pairs map[string]map[string]bool // TTreeDir -> "key=value" present
	ttErr map[string]error
}

func readDisk(walDir string, nSeries int) (*diskState, error) {
	ds := &diskState{pairs: map[string]map[string]bool{}, ttErr: map[string]error{}}
	var wanted [][2]string
	for i := 0; i < nSeries; i++ {
		wanted = append(wanted, [2]string{"sid", sidOf(i)}, [2]string{"grp", grpOf(i)})
	}
	var err error
	ds.wals, err = readDPWals(walDir)
	if err != nil {
		return nil, err
	}
	ds.names = readMNameWals(walDir)
	ds.metas = readMetaWal(walDir)
	for _, m := range ds.metas {
		if m == nil || m.EarliestEpochSec > m.LatestEpochSec {
			continue // segment without data
		}
		if _, done := ds.pairs[m.TTreeDir]; done {
			continue
		}
		p, err := tagPairsOf(m.TTreeDir, wanted)
		if err != nil {
			ds.ttErr[m.TTreeDir] = err
			continue
		}
		ds.pairs[m.TTreeDir] = p
	}
	return ds, nil
}

// findable reports whether the segment metadata and tag trees that a selector on series i needs
// are on disk: a logged meta entry of a non-empty segment whose tag-tree directory holds, for every
// tag key the entry lists, the value unique to this series.
func (ds *diskState) findable(i int, qs, qe uint32) bool {
	for _, m := range ds.metas {
		if m == nil || m.EarliestEpochSec > m.LatestEpochSec || m.LatestEpochSec < qs || m.EarliestEpochSec > qe {
			continue
		}
		if !m.TagKeys["sid"] || !m.TagKeys["grp"] || len(m.TagKeys) != 2 {
			continue
		}
		p := ds.pairs[m.TTreeDir]
		if p == nil {
			continue
		}
		if p["sid="+sidOf(i)] && p["grp="+grpOf(i)] {
			return true
		}
	}
	return false
}

func (ds *diskState) describe() string {
	var sb strings.Builder
	for _, m := range ds.metas {
		if m == nil || m.EarliestEpochSec > m.LatestEpochSec {
			continue
		}
		fmt.Fprintf(&sb, "meta{dir=%s range=%d..%d keys=%v tt=%s pairs=%v err=%v} ", m.MSegmentDir, m.EarliestEpochSec, m.LatestEpochSec,
			m.TagKeys, m.TTreeDir, ds.pairs[m.TTreeDir], ds.ttErr[m.TTreeDir])
	}
	return sb.String()
}

type dpKey struct {
	tsid uint64
	t    uint32
}

// ---- the check ------------------------------------------------------------------------------

func parseSid(id string) (string, bool) {
	i := strings.IndexByte(id, '{')
	if i < 0 {
		return "", false
	}
	for _, kv := range strings.Split(strings.TrimSuffix(id[i+1:], "}"), ",") {
		if strings.HasPrefix(kv, "sid:") {
			return kv[4:], true
		}
	}
	return "", false
}

func mquery(c *sut.Client, text string, qs, qe uint32) (*MQueryResult, error) {
	var mr MQueryResult
	err := c.Call(&sut.Req{Op: "c10.mquery", Text: text, Start: uint64(qs), End: uint64(qe),
		Ints: map[string]int64{"step": 1, "sum": 1}}, &mr)
	return &mr, err
}

func fmtPts(m map[uint32]float64) string {
	ts := make([]uint32, 0, len(m))
	for t := range m {
		ts = append(ts, t)
	}
	sort.Slice(ts, func(i, j int) bool { return ts[i] < ts[j] })
	var sb strings.Builder
	for i, t := range ts {
		if i > 0 {
			sb.WriteByte(' ')
		}
		fmt.Fprintf(&sb, "%d:%v", t, m[t])
	}
	return "[" + sb.String() + "]"
}

func checkRec(cs *recCase, o *pt.Obs) error {
	if err := cs.valid(); err != nil {
		return pt.Inconclusivef("bad case: %v", err)
	}
	dataDir := pt.NewDataDir()
	defer pt.CleanupDataDir(dataDir)
	opts := sut.Options{DataDir: dataDir, Env: map[string]string{"C10_TAGS_FLUSH_SECS": "1", "VERIF_LOGLEVEL": "error"}}
	c, err := sut.Start(opts)
	if err != nil {
		return pt.Inconclusivef("worker start: %v", err)
	}
	defer func() { c.Close() }()
	died := func(stage string, err error) error {
		if errors.Is(err, sut.ErrWorkerDied) {
			return fmt.Errorf("%s: server process died: %s", stage, pt.CrashDetail(c))
		}
		if errors.Is(err, sut.ErrTimeout) {
			return pt.Inconclusivef("%s: %v", stage, err)
		}
		return pt.Inconclusivef("%s: %v", stage, err)
	}
	var paths map[string]string
	if err := c.Call(&sut.Req{Op: "c10.paths"}, &paths); err != nil {
		return died("paths", err)
	}
	walDir := paths["wal"]

	// query window over everything the case ever sends
	qs, qe := uint32(math.MaxUint32), uint32(0)
	for _, ph := range cs.Phases {
		for _, p := range ph.Pts {
			if p.T < qs {
				qs = p.T
			}
			if p.T > qe {
				qe = p.T
			}
		}
	}
	qs, qe = qs-5, qe+5

	tsidOf := make([]uint64, len(cs.Series))
	haveTsid := make([]bool, len(cs.Series))
	sent := make([]map[uint32]float64, len(cs.Series))    // acknowledged by the ingest call
	durable := make([]map[uint32]float64, len(cs.Series)) // in a block closed (rotated) before the kill
	for i := range sent {
		sent[i] = map[uint32]float64{}
		durable[i] = map[uint32]float64{}
	}
	shardOfTsid := map[uint64]string{}
	allNames := map[string]bool{}
	for _, s := range cs.Series {
		allNames[s.Metric] = true
	}

	inWal := func(ds *diskState) map[dpKey][]float64 {
		m := map[dpKey][]float64{}
		for _, wf := range ds.wals {
			for _, dp := range wf.dps {
				k := dpKey{dp.Tsid, dp.Timestamp}
				m[k] = append(m[k], dp.DpVal)
				shardOfTsid[dp.Tsid] = wf.shard
			}
		}
		return m
	}

	waitLogged := func(stage string) error {
		deadline := time.Now().Add(8 * time.Second)
		for {
			ds, err := readDisk(walDir, len(cs.Series))
			if err != nil {
				return pt.Inconclusivef("%s: reading data dir: %v", stage, err)
			}
			w := inWal(ds)
			missing := ""
			for i := range cs.Series {
				for t := range sent[i] {
					if _, in := durable[i][t]; in {
						continue
					}
					if len(w[dpKey{tsidOf[i], t}]) == 0 {
						missing = fmt.Sprintf("datapoint t=%d of series %d", t, i)
					}
				}
				if len(sent[i]) > 0 && !ds.findable(i, qs, qe) {
					missing = fmt.Sprintf("segment metadata / tag trees of series %d (%s)", i, ds.describe())
				}
				if len(sent[i]) > 0 && !ds.names[cs.Series[i].Metric] {
					missing = fmt.Sprintf("metric name %q", cs.Series[i].Metric)
				}
			}
			if missing == "" {
				return nil
			}
			if c.Dead() {
				return fmt.Errorf("%s: server process died: %s", stage, pt.CrashDetail(c))
			}
			if time.Now().After(deadline) {
				return pt.Inconclusivef("%s: not on disk within 8 s: %s", stage, missing)
			}
			time.Sleep(100 * time.Millisecond)
		}
	}

	baseline := func(cl *sut.Client, stage string) error {
		for i := range cs.Series {
			if len(sent[i]) == 0 {
				continue
			}
			mr, err := mquery(cl, fmt.Sprintf(`%s{sid=%q}`, cs.Series[i].Metric, sidOf(i)), qs, qe)
			if err != nil {
				return died(stage, err)
			}
			got := map[uint32]float64{}
			for _, s := range mr.Series {
				for _, p := range s.Pts {
					got[p.T] = math.Float64frombits(p.V)
				}
			}
			if mr.Err != "" || len(mr.Errors) > 0 || len(mr.Series) != 1 || fmtPts(got) != fmtPts(sent[i]) {
				return pt.Inconclusivef("%s: before any crash the selector on series %d does not return what was sent (not a recovery matter): err=%q %v sent=%s got=%s",
					stage, i, mr.Err, mr.Errors, fmtPts(sent[i]), fmtPts(got))
			}
		}
		return nil
	}

	// ---- ingest phases -----------------------------------------------------------------------
	for pi, ph := range cs.Phases {
		if len(ph.Pts) > 0 {
			lines := make([]string, len(ph.Pts))
			for i, p := range ph.Pts {
				lines[i] = otsdbLine(cs, p)
			}
			var ir IngestResult
			if err := c.Call(&sut.Req{Op: "c10.ingest", Strs: lines}, &ir); err != nil {
				return died(fmt.Sprintf("ingest phase %d", pi), err)
			}
			for i, p := range ph.Pts {
				if ir.Errs[i] != "" {
					return pt.Inconclusivef("ingest phase %d: datapoint %s was refused: %s", pi, lines[i], ir.Errs[i])
				}
				if haveTsid[p.S] && tsidOf[p.S] != ir.Tsids[i] {
					return pt.Inconclusivef("series %d changed its id", p.S)
				}
				tsidOf[p.S], haveTsid[p.S] = ir.Tsids[i], true
				sent[p.S][p.T] = p.V
			}
			for i := range cs.Series {
				for j := 0; j < i; j++ {
					if haveTsid[i] && haveTsid[j] && tsidOf[i] == tsidOf[j] {
						return pt.Inconclusivef("series %d and %d share an id", i, j)
					}
				}
			}
		}
		if !ph.Wait {
			if ph.PauseMs > 0 {
				time.Sleep(time.Duration(ph.PauseMs) * time.Millisecond)
			}
			continue
		}
		stage := fmt.Sprintf("after phase %d", pi)
		if err := waitLogged(stage); err != nil {
			return err
		}
		if pi == 0 {
			if err := baseline(c, stage); err != nil {
				return err
			}
		}
		if cs.RotateAfter == pi {
			// close the open block of every shard that holds data; wait until its WAL moved on to the next block
			before, err := readDPWals(walDir)
			if err != nil {
				return pt.Inconclusivef("%v", err)
			}
			want := map[string]uint64{} // shard -> block id that must be exceeded
			for _, wf := range before {
				if len(wf.dps) > 0 {
					if b, ok := want[wf.shard]; !ok || wf.blockID > b {
						want[wf.shard] = wf.blockID
					}
				}
			}
			if err := c.Call(&sut.Req{Op: "c10.blocklimit", Ints: map[string]int64{"bytes": 1}}, nil); err != nil {
				return died("blocklimit", err)
			}
			deadline := time.Now().Add(25 * time.Second)
			for {
				now, err := readDPWals(walDir)
				if err != nil {
					return pt.Inconclusivef("%v", err)
				}
				cur := map[string]uint64{}
				hasOld := map[string]bool{}
				for _, wf := range now {
					if b, ok := cur[wf.shard]; !ok || wf.blockID > b {
						cur[wf.shard] = wf.blockID
					}
				}
				for _, wf := range now {
					if b, ok := want[wf.shard]; ok && wf.blockID <= b {
						hasOld[wf.shard] = true
					}
				}
				done := true
				for sh, b := range want {
					if cur[sh] <= b || hasOld[sh] {
						done = false
					}
				}
				if done {
					break
				}
				if c.Dead() {
					return fmt.Errorf("block rotation: server process died: %s", pt.CrashDetail(c))
				}
				if time.Now().After(deadline) {
					return pt.Inconclusivef("block rotation was not observed within 25 s")
				}
				time.Sleep(200 * time.Millisecond)
			}
			if err := c.Call(&sut.Req{Op: "c10.blocklimit", Ints: map[string]int64{"bytes": 100000000}}, nil); err != nil {
				return died("blocklimit", err)
			}
			for i := range cs.Series {
				if _, ok := want[shardOfTsid[tsidOf[i]]]; ok {
					for t, v := range sent[i] {
						durable[i][t] = v
					}
				}
			}
			o.Class("block_rotated_before_crash")
		}
	}
	if cs.KillDelayMs > 0 {
		time.Sleep(time.Duration(cs.KillDelayMs) * time.Millisecond)
	}
	if c.Dead() {
		return fmt.Errorf("server process died before the kill: %s", pt.CrashDetail(c))
	}
	c.Kill()

	// ---- what the dead process left behind ----------------------------------------------------
	ds, err := readDisk(walDir, len(cs.Series))
	if err != nil {
		return pt.Inconclusivef("reading data dir after the kill: %v", err)
	}
	w := inWal(ds)
	expect := make([]map[uint32]float64, len(cs.Series))
	must := make([]bool, len(cs.Series))
	nLogged, nLost, nMust := 0, 0, 0
	inLast := map[dpKey]bool{} // sent by a phase nobody waited for
	for _, ph := range cs.Phases {
		if !ph.Wait {
			for _, p := range ph.Pts {
				inLast[dpKey{tsidOf[p.S], p.T}] = true
			}
		}
	}
	lastLogged, lastLost := 0, 0
	multiBlockFile := false
	for i := range cs.Series {
		expect[i] = map[uint32]float64{}
		for t, v := range durable[i] {
			expect[i][t] = v
		}
		for t, v := range sent[i] {
			vals := w[dpKey{tsidOf[i], t}]
			if _, dur := durable[i][t]; dur {
				if len(vals) > 0 {
					return pt.Inconclusivef("series %d t=%d is in a closed block and still in a WAL file", i, t)
				}
				continue
			}
			switch {
			case len(vals) == 0:
				nLost++
				if inLast[dpKey{tsidOf[i], t}] {
					lastLost++
				}
			case len(vals) == 1 && vals[0] == v:
				expect[i][t] = v
				nLogged++
				if inLast[dpKey{tsidOf[i], t}] {
					lastLogged++
				}
			default:
				return fmt.Errorf("the datapoint WAL holds %v for series %d (tsid %d) t=%d; sent once with value %v", vals, i, tsidOf[i], t, v)
			}
		}
		must[i] = len(expect[i]) > 0 && ds.findable(i, qs, qe)
		if must[i] {
			nMust++
		}
	}
	// nothing in the WAL that was never sent
	for k, vals := range w {
		found := false
		for i := range cs.Series {
			if haveTsid[i] && tsidOf[i] == k.tsid {
				if _, ok := sent[i][k.t]; ok {
					found = true
				}
			}
		}
		if !found {
			return fmt.Errorf("the datapoint WAL holds tsid=%d t=%d values=%v which was never sent", k.tsid, k.t, vals)
		}
	}
	for _, wf := range ds.wals {
		if countBlocks(filepath.Join(walDir, wf.name)) > 1 {
			multiBlockFile = true
		}
	}
	o.Count("datapoints_logged_at_kill", int64(nLogged))
	o.Count("datapoints_not_logged_at_kill", int64(nLost))
	if lastLogged > 0 && lastLost > 0 {
		o.Class("inflight_phase_partly_logged")
	} else if lastLogged > 0 {
		o.Class("inflight_phase_fully_logged")
	} else if lastLost > 0 {
		o.Class("inflight_phase_not_logged")
	} else {
		o.Class("no_inflight_phase")
	}
	if multiBlockFile {
		o.Class("several_wal_blocks")
	}
	if len(ds.ttErr) > 0 {
		o.Class("tag_tree_unreadable_after_kill")
	}
	shards := map[string]bool{}
	for i := range cs.Series {
		if haveTsid[i] {
			shards[shardOfTsid[tsidOf[i]]] = true
		}
	}
	if len(shards) > 1 {
		o.Class("several_shards")
	}
	if nMust == len(cs.Series) {
		o.Class("all_series_must_return")
	} else if nMust > 0 {
		o.Class("some_series_must_return")
	} else {
		o.Class("no_series_must_return")
	}
	if nMust > 0 && nLogged > 0 {
		o.NonTrivial()
	}

	namesLogged := map[string]bool{}
	for n := range ds.names {
		if !allNames[n] {
			return fmt.Errorf("the metric-name WAL holds %q which was never sent", n)
		}
		namesLogged[n] = true
	}

	// ---- restart(s) and verification ------------------------------------------------------------
	verify := func(stage string) error {
		c2, err := sut.Start(opts)
		if err != nil {
			if strings.Contains(err.Error(), "did not become ready") {
				return fmt.Errorf("%s: the server does not start on the data directory left by the crash: %v", stage, err)
			}
			return pt.Inconclusivef("%s: worker start: %v", stage, err)
		}
		c = c2
		allMust := nMust == len(cs.Series)
		for i := range cs.Series {
			if !haveTsid[i] {
				continue
			}
			text := fmt.Sprintf(`%s{sid=%q}`, cs.Series[i].Metric, sidOf(i))
			mr, err := mquery(c, text, qs, qe)
			if err != nil {
				if errors.Is(err, sut.ErrWorkerDied) && (must[i] || len(ds.ttErr) == 0) {
					return fmt.Errorf("%s: query %s killed the server: %s", stage, text, pt.CrashDetail(c))
				}
				return died(stage+": query "+text, err)
			}
			if mr.Err != "" || len(mr.Errors) > 0 {
				if must[i] && allMust {
					return fmt.Errorf("%s: query %s answers with an error although the log, names, metadata and tags of the series were on disk: %q %v", stage, text, mr.Err, mr.Errors)
				}
				continue
			}
			got := map[uint32]float64{}
			for _, s := range mr.Series {
				sid, ok := parseSid(s.ID)
				if !ok || sid != sidOf(i) {
					return fmt.Errorf("%s: query %s returned series %q", stage, text, s.ID)
				}
				for _, p := range s.Pts {
					v := math.Float64frombits(p.V)
					if _, dup := got[p.T]; dup {
						return fmt.Errorf("%s: query %s returned t=%d twice", stage, text, p.T)
					}
					got[p.T] = v
				}
			}
			for t, v := range got {
				ev, ok := expect[i][t]
				if !ok {
					how := "was never sent"
					if _, s := sent[i][t]; s {
						how = "was sent but its WAL append had not completed at the kill and its block was not closed"
					}
					return fmt.Errorf("%s: query %s returned t=%d v=%v which %s\n  expected (closed blocks ∪ WAL at kill): %s\n  got: %s",
						stage, text, t, v, how, fmtPts(expect[i]), fmtPts(got))
				}
				if ev != v {
					hint := ""
					if v == 2*ev {
						hint = " (twice the value: the datapoint is stored twice)"
					}
					return fmt.Errorf("%s: query %s returned t=%d v=%v, logged value %v%s\n  expected: %s\n  got: %s",
						stage, text, t, v, ev, hint, fmtPts(expect[i]), fmtPts(got))
				}
			}
			if must[i] {
				for t, v := range expect[i] {
					if _, ok := got[t]; !ok {
						return fmt.Errorf("%s: query %s lost t=%d v=%v whose WAL append had completed (or whose block was closed) before the kill; segment metadata and tags were on disk\n  expected: %s\n  got: %s",
							stage, text, t, v, fmtPts(expect[i]), fmtPts(got))
					}
				}
			}
		}
		// bare selectors: no series that was never sent
		for name := range allNames {
			mr, err := mquery(c, name, qs, qe)
			if err != nil {
				return died(stage+": query "+name, err)
			}
			for _, s := range mr.Series {
				sid, ok := parseSid(s.ID)
				known := false
				for i := range cs.Series {
					if ok && sid == sidOf(i) && cs.Series[i].Metric == name && haveTsid[i] {
						known = true
					}
				}
				if !known {
					return fmt.Errorf("%s: query %s returned series %q which was never sent", stage, name, s.ID)
				}
			}
		}
		// metric names
		var names []string
		err = c.Call(&sut.Req{Op: "c10.mnames", Start: uint64(qs), End: uint64(qe)}, &names)
		if err != nil {
			var oe *sut.OpError
			if !errors.As(err, &oe) {
				return died(stage+": metric names", err)
			}
			o.Class("metric_name_listing_error")
		} else {
			got := map[string]bool{}
			for _, n := range names {
				if !allNames[n] {
					return fmt.Errorf("%s: metric name %q is listed and was never sent", stage, n)
				}
				got[n] = true
			}
			for i := range cs.Series {
				n := cs.Series[i].Metric
				if must[i] && allMust && namesLogged[n] && !got[n] {
					return fmt.Errorf("%s: metric name %q was in the name WAL at the kill and is not listed after the restart (listed: %v)", stage, n, names)
				}
			}
		}
		return nil
	}
	if err := verify("after restart"); err != nil {
		return err
	}
	if cs.SecondCrash {
		o.Class("second_crash")
		c.Kill()
		if err := verify("after second kill and restart"); err != nil {
			return err
		}
	}
	return nil
}

func TestC10Recover(t *testing.T) { pt.RunProp(t, "C10", genRecCase, checkRec) }
