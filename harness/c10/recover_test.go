package c10

// C10, recovery level — real metrics ingestion into a worker process, SIGKILL, restart on the same
// data directory (the worker start-up runs RecoverWALData / RecoverMNameWALData /
// RecoverMEntryWALData like cmd/startup), then selector queries. What must come back is computed
// after the kill from the files the dead process left behind.

import (
	"errors"
	"fmt"
	"math"
	"os"
	"path/filepath"
	"strconv"
	"strings"
	"testing"
	"time"

	"pgregory.net/rapid"

	"github.com/siglens/siglens/pkg/segment/reader/metrics/tagstree"
	"github.com/siglens/siglens/pkg/segment/structs"
	"github.com/siglens/siglens/pkg/segment/writer/metrics/wal"

	"verifharness/pt"
	"verifharness/sut"
)

type recSeries struct {
	Metric string `json:"metric"`
	// every series carries the same two tag keys with values unique to the series:
	// sid="s<i>", grp="g<i>"
}

type recPoint struct {
	S int     `json:"s"` // series index
	T uint32  `json:"t"`
	V float64 `json:"v"` // non-zero multiple of 0.5
}

type recPhase struct {
	Pts []recPoint `json:"pts"`
	// Wait: after the ingest call returns, wait until every datapoint sent so far is readable from
	// the datapoint WAL files and the names / segment metadata / tag trees are on disk.
	Wait bool `json:"wait"`
	// PauseMs: sleep after the ingest call of a phase that is not waited for.
	PauseMs int `json:"pauseMs,omitempty"`
}

type recCase struct {
	Series []recSeries `json:"series"`
	Phases []recPhase  `json:"phases"`
	// RotateAfter >= 0: after that (waited) phase the open metrics block is closed by the block
	// rotation timer (size limit lowered to 1 byte until the rotation has been observed).
	RotateAfter int `json:"rotateAfter"`
	KillDelayMs int `json:"killDelayMs"` // pause between the last ingest call and SIGKILL
	// SecondCrash: after the first verification the restarted server is killed and restarted again.
	SecondCrash bool `json:"secondCrash"`
	// WalFlush / WalMax (0 = production default): the two exported limits of the datapoint WAL are
	// lowered before the first datapoint, so that ingest calls append blocks themselves after WalFlush
	// buffered datapoints and the WAL of a block continues in a new file (rotateWAL) as soon as the
	// encoded size of the current file exceeds WalMax bytes.
	WalFlush int `json:"walFlush,omitempty"`
	WalMax   int `json:"walMax,omitempty"`
	// Cut: after the kill the LAST file of the rotated log of one block (group number CutGroup modulo
	// the number of logs that hold data) is cut as a crash during its creation / its last append
	// would have left it: "zero" (created, version byte not written), "empty" (version byte only),
	// "len" / "hdr" / "mid" / "last" (inside the length field / after length and checksum / in the
	// middle of the payload / one byte short) of its last block. "" = the file stays as the kill left it.
	Cut      string `json:"cut,omitempty"`
	CutGroup int    `json:"cutGroup,omitempty"`
}

var cutKinds = []string{"empty", "mid", "hdr", "len", "last", "zero"}

var recMetricPool = []string{"c10_cpu", "c10_mem", "net_rx_bytes", "disk:io", "up", "a", "c10_q", "zz_latency"}

func genRecCase(t *rapid.T) *recCase {
	cs := &recCase{RotateAfter: -1}
	nSeries := rapid.IntRange(1, 4).Draw(t, "nSeries")
	nMetrics := rapid.IntRange(1, 3).Draw(t, "nMetrics")
	names := make([]string, nMetrics)
	for i := range names {
		names[i] = rapid.SampledFrom(recMetricPool).Draw(t, "metric")
	}
	for i := 0; i < nSeries; i++ {
		cs.Series = append(cs.Series, recSeries{Metric: names[rapid.IntRange(0, nMetrics-1).Draw(t, "mIdx")]})
	}
	nextTs := make([]uint32, nSeries)
	base := uint32(1700000000) + uint32(rapid.IntRange(0, 1000000).Draw(t, "tsBase"))
	for i := range nextTs {
		nextTs[i] = base + uint32(rapid.IntRange(0, 30).Draw(t, "tsOff"))
	}
	genPts := func(n int, onlySeries int) []recPoint {
		var pts []recPoint
		for i := 0; i < n; i++ {
			s := rapid.IntRange(0, onlySeries-1).Draw(t, "s")
			v := float64(rapid.IntRange(1, 4000).Draw(t, "v")) / 2
			if rapid.Bool().Draw(t, "neg") {
				v = -v
			}
			pts = append(pts, recPoint{S: s, T: nextTs[s], V: v})
			nextTs[s] += uint32(rapid.IntRange(1, 90).Draw(t, "dt"))
		}
		return pts
	}
	nWaited := rapid.IntRange(1, pt.Scale(2, 3)).Draw(t, "nWaited")
	// a block rotation is always followed by a further waited phase: the datapoints of the next block
	// are then in its WAL when the process is killed, and the recovery has a block to rebuild next to
	// the closed one
	rotate := rapid.IntRange(0, pt.Scale(7, 5)).Draw(t, "rotate") == 0
	if rotate && nWaited < 2 {
		nWaited = 2
	}
	for p := 0; p < nWaited; p++ {
		ph := recPhase{Wait: true}
		if p == 0 {
			// every series appears in the first phase, so that its tags can reach the disk
			for s := 0; s < nSeries; s++ {
				ph.Pts = append(ph.Pts, recPoint{S: s, T: nextTs[s], V: float64(2*s+1) / 2})
				nextTs[s] += uint32(rapid.IntRange(1, 90).Draw(t, "dt"))
			}
		}
		ph.Pts = append(ph.Pts, genPts(rapid.IntRange(1, 12).Draw(t, "nPts"), nSeries)...)
		cs.Phases = append(cs.Phases, ph)
	}
	// the phases in flight when the process is killed: nobody waits for their log appends; the
	// 1-second WAL timers fire somewhere in between (or not)
	for k, n := 0, rapid.IntRange(0, 3).Draw(t, "nInflight"); k < n; k++ {
		cs.Phases = append(cs.Phases, recPhase{Pts: genPts(rapid.IntRange(1, 8).Draw(t, "nLast"), nSeries),
			PauseMs: rapid.SampledFrom([]int{0, 100, 300, 500, 700, 900}).Draw(t, "pause")})
	}
	cs.KillDelayMs = rapid.SampledFrom([]int{0, 0, 5, 50, 300, 700}).Draw(t, "killDelay")
	if rotate {
		cs.RotateAfter = rapid.IntRange(0, nWaited-2).Draw(t, "rotateAfter")
	}
	cs.SecondCrash = rapid.IntRange(0, 2).Draw(t, "secondCrash") == 0
	// the datapoint WAL limits: about half of the cases run with lowered limits, so that the log of a
	// block is spread over several files at the kill
	// (rapid favours small values: the draws are rotated by a per-case offset to flatten the histogram)
	flat := func(label string, n int) int {
		return (rapid.IntRange(0, n-1).Draw(t, label) + int(base%uint32(n))) % n
	}
	walMaxes := []int{60, 90, 130, 180, 250, 400}
	switch flat("walMode", 8) {
	case 0, 1: // production limits: one file per block, blocks written by the 1-s timer only
	case 3: // every append is followed by a rotation: the newest file is empty most of the time
		cs.WalMax = 1
		if rapid.Bool().Draw(t, "walFlushToo") {
			cs.WalFlush = 1 + flat("walFlush", 4)
		}
	case 2, 4, 5, 6: // a few blocks per file, ingest calls append blocks themselves
		cs.WalMax = walMaxes[flat("walMax", len(walMaxes))]
		cs.WalFlush = 1 + flat("walFlush", 5)
	default: // a few blocks per file, blocks written by the timer only
		cs.WalMax = walMaxes[flat("walMax", len(walMaxes))]
	}
	if flat("cut", 3) == 0 {
		cs.Cut = cutKinds[flat("cutKind", len(cutKinds))]
		cs.CutGroup = rapid.IntRange(0, 3).Draw(t, "cutGroup")
	}
	return cs
}

func (cs *recCase) valid() error {
	if len(cs.Series) == 0 || len(cs.Phases) == 0 {
		return fmt.Errorf("empty case")
	}
	last := map[int]uint32{}
	for _, ph := range cs.Phases {
		for _, p := range ph.Pts {
			if p.S < 0 || p.S >= len(cs.Series) || p.V == 0 || p.V*2 != math.Trunc(p.V*2) || math.Abs(p.V) > 1e6 {
				return fmt.Errorf("bad point %+v", p)
			}
			if lt, ok := last[p.S]; ok && p.T <= lt {
				return fmt.Errorf("timestamps of series %d not increasing", p.S)
			}
			last[p.S] = p.T
		}
	}
	if cs.RotateAfter >= len(cs.Phases) || (cs.RotateAfter >= 0 && !cs.Phases[cs.RotateAfter].Wait) {
		return fmt.Errorf("rotateAfter must name a waited phase")
	}
	if cs.WalFlush < 0 || cs.WalFlush > 10000 || cs.WalMax < 0 || cs.CutGroup < 0 {
		return fmt.Errorf("bad WAL limits")
	}
	if cs.Cut != "" {
		ok := false
		for _, k := range cutKinds {
			ok = ok || k == cs.Cut
		}
		if !ok {
			return fmt.Errorf("bad cut %q", cs.Cut)
		}
	}
	return nil
}

func sidOf(i int) string { return "s" + strconv.Itoa(i) }
func grpOf(i int) string { return "g" + strconv.Itoa(i) }

func otsdbLine(series []recSeries, p recPoint) string {
	return fmt.Sprintf(`{"metric":%q,"timestamp":%d,"value":%s,"tags":{"sid":%q,"grp":%q}}`,
		series[p.S].Metric, p.T, strconv.FormatFloat(p.V, 'f', -1, 64), sidOf(p.S), grpOf(p.S))
}

// ---- reading what a (dead or live) server left on disk -------------------------------------------

type walFile struct {
	name           string
	shard          string
	segID, blockID uint64
	idx            int // position of the file in the rotated log of its block (…_<idx>.wal)
	dps            []wal.WalDatapoint
}

// group names the rotated log (all WAL files) of one metrics block.
func (wf *walFile) group() string {
	return fmt.Sprintf("%s/%d/%d", wf.shard, wf.segID, wf.blockID)
}

// readDPWals reads every datapoint WAL file of the directory through the exported iterator.
func readDPWals(walDir string) ([]walFile, error) {
	ents, err := os.ReadDir(walDir)
	if err != nil {
		if os.IsNotExist(err) {
			return nil, nil // the server died before it created its first WAL
		}
		return nil, err
	}
	var out []walFile
	for _, e := range ents {
		if e.IsDir() || !strings.HasSuffix(e.Name(), ".wal") {
			continue
		}
		// shardID_<shard>_segID_<seg>_blockID_<blk>_<idx>.wal
		parts := strings.Split(e.Name(), "_")
		if len(parts) < 7 {
			continue
		}
		seg, err1 := strconv.ParseUint(parts[3], 10, 64)
		blk, err2 := strconv.ParseUint(parts[5], 10, 64)
		if err1 != nil || err2 != nil {
			continue
		}
		idx, err3 := strconv.Atoi(strings.TrimSuffix(parts[6], ".wal"))
		if err3 != nil {
			continue
		}
		wf := walFile{name: e.Name(), shard: parts[1], segID: seg, blockID: blk, idx: idx}
		it, err := wal.NewWALReader(filepath.Join(walDir, e.Name()))
		if err == nil {
			for {
				dp, err := it.Next()
				if err != nil || dp == nil {
					break
				}
				wf.dps = append(wf.dps, *dp)
			}
			_ = it.Close()
		}
		out = append(out, wf)
	}
	return out, nil
}

// countBlocks walks the documented framing (1-byte version, then length-prefixed blocks).
func countBlocks(path string) int {
	ends, _ := blockEnds(path)
	return len(ends)
}

// blockEnds walks the documented framing and returns the file offsets at which the complete blocks
// end, and the file size (a size beyond the last end, or beyond the version byte, is a torn block).
func blockEnds(path string) ([]int, int) {
	b, err := os.ReadFile(path)
	if err != nil {
		return nil, 0
	}
	var ends []int
	for pos := 1; pos+8 <= len(b); {
		l := int(uint32(b[pos]) | uint32(b[pos+1])<<8 | uint32(b[pos+2])<<16 | uint32(b[pos+3])<<24)
		if l < 4 || pos+4+l > len(b) {
			break
		}
		pos += 4 + l
		ends = append(ends, pos)
	}
	return ends, len(b)
}

func readMNameWals(walDir string) map[string]bool {
	names := map[string]bool{}
	dir := filepath.Join(walDir, "mname")
	ents, _ := os.ReadDir(dir)
	for _, e := range ents {
		it, err := wal.NewMNameWalReader(filepath.Join(dir, e.Name()))
		if err != nil {
			continue
		}
		for {
			s, err := it.Next()
			if err != nil || s == nil {
				break
			}
			names[*s] = true
		}
		_ = it.Close()
	}
	return names
}

func readMetaWal(walDir string) []*structs.MetricsMeta {
	it, err := wal.NewMetricsMetaEntryWalReader(filepath.Join(walDir, "metaentry", "metricsMetaEntry.wal"))
	if err != nil {
		return nil
	}
	defer it.Close()
	var out []*structs.MetricsMeta
	for {
		m, err := it.Next()
		if err != nil || m == nil {
			return out
		}
		out = append(out, m)
	}
}

// tagPairsOf reads a tag-tree directory with siglens' reader and reports which of the wanted
// key=value pairs have at least one series. It works on a private copy of the files (the reader
// takes file locks and keeps them on its error paths; the live server must not be blocked).
// (AllTagTreeReaders.GetAllTagPairs is not usable here: it stops after the first metric of a tree.)
func tagPairsOf(dir string, wanted [][2]string) (pairs map[string]bool, err error) {
	defer func() {
		if r := recover(); r != nil {
			pairs, err = nil, fmt.Errorf("tag tree reader panicked: %v", r)
		}
	}()
	ents, err := os.ReadDir(dir)
	if err != nil {
		return nil, err
	}
	tmp, err := os.MkdirTemp(scratchRoot(), "verif-c10-tt-")
	if err != nil {
		return nil, err
	}
	defer os.RemoveAll(tmp)
	for _, e := range ents {
		if e.IsDir() {
			continue
		}
		b, err := os.ReadFile(filepath.Join(dir, e.Name()))
		if err != nil {
			return nil, err
		}
		if err := os.WriteFile(filepath.Join(tmp, e.Name()), b, 0o644); err != nil {
			return nil, err
		}
	}
	rd, err := tagstree.InitAllTagsTreeReader(tmp + "/")
	if err != nil {
		return nil, err
	}
	defer rd.CloseAllTagTreeReaders()
	keys := rd.GetAllTagKeys()
	pairs = map[string]bool{}
	for _, kv := range wanted {
		if _, ok := keys[kv[0]]; !ok {
			continue
		}
		h := structs.CreateNewHll()
		if err := rd.InsertTSIDsForTagPair(kv[0], kv[1], h); err != nil {
			return nil, err
		}
		if h.Cardinality() > 0 {
			pairs[kv[0]+"="+kv[1]] = true
		}
	}
	return pairs, nil
}

func scratchRoot() string {
	if st, err := os.Stat("/dev/shm"); err == nil && st.IsDir() {
		return "/dev/shm"
	}
	return os.TempDir()
}

// diskState is everything the harness reads from the data directory.
type diskState struct {
	wals  []walFile
	names map[string]bool
	metas []*structs.MetricsMeta
	pairs map[string]map[string]bool // TTreeDir -> "key=value" present
	ttErr map[string]error
}

func readDisk(walDir string, nSeries int, extraDirs ...string) (*diskState, error) {
	ds := &diskState{pairs: map[string]map[string]bool{}, ttErr: map[string]error{}}
	var wanted [][2]string
	for i := 0; i < nSeries; i++ {
		wanted = append(wanted, [2]string{"sid", sidOf(i)}, [2]string{"grp", grpOf(i)})
	}
	var err error
	ds.wals, err = readDPWals(walDir)
	if err != nil {
		return nil, err
	}
	ds.names = readMNameWals(walDir)
	ds.metas = readMetaWal(walDir)
	dirs := append([]string(nil), extraDirs...)
	for _, m := range ds.metas {
		if m == nil || m.EarliestEpochSec > m.LatestEpochSec {
			continue // segment without data
		}
		dirs = append(dirs, m.TTreeDir)
	}
	for _, d := range dirs {
		if _, done := ds.pairs[d]; done || d == "" {
			continue
		}
		if _, failed := ds.ttErr[d]; failed {
			continue
		}
		p, err := tagPairsOf(d, wanted)
		if err != nil {
			ds.ttErr[d] = err
			continue
		}
		ds.pairs[d] = p
	}
	return ds, nil
}

// tagsIn reports whether the tag trees under dir hold the two values unique to series i.
func (ds *diskState) tagsIn(dir string, i int) bool {
	p := ds.pairs[dir]
	return p != nil && p["sid="+sidOf(i)] && p["grp="+grpOf(i)]
}

// metaFor reports whether the meta-entry WAL holds a usable entry for the segment whose tag trees live under dir.
func (ds *diskState) metaFor(dir string, qs, qe uint32) bool {
	for _, m := range ds.metas {
		if m != nil && m.TTreeDir == dir && m.EarliestEpochSec <= m.LatestEpochSec && m.LatestEpochSec >= qs && m.EarliestEpochSec <= qe &&
			m.TagKeys["sid"] && m.TagKeys["grp"] && len(m.TagKeys) == 2 {
			return true
		}
	}
	return false
}

// findable reports whether the segment metadata and tag trees that a selector on series i needs
// are on disk: a logged meta entry of a non-empty segment whose tag-tree directory holds, for every
// tag key the entry lists, the value unique to this series.
func (ds *diskState) findable(i int, qs, qe uint32) (string, bool) {
	for _, m := range ds.metas {
		if m == nil || m.EarliestEpochSec > m.LatestEpochSec || m.LatestEpochSec < qs || m.EarliestEpochSec > qe {
			continue
		}
		if !m.TagKeys["sid"] || !m.TagKeys["grp"] || len(m.TagKeys) != 2 {
			continue
		}
		p := ds.pairs[m.TTreeDir]
		if p == nil {
			continue
		}
		if p["sid="+sidOf(i)] && p["grp="+grpOf(i)] {
			return m.TTreeDir, true
		}
	}
	return "", false
}

func (ds *diskState) describe() string {
	var sb strings.Builder
	for _, m := range ds.metas {
		if m == nil || m.EarliestEpochSec > m.LatestEpochSec {
			continue
		}
		fmt.Fprintf(&sb, "meta{dir=%s range=%d..%d keys=%v tt=%s pairs=%v err=%v} ", m.MSegmentDir, m.EarliestEpochSec, m.LatestEpochSec,
			m.TagKeys, m.TTreeDir, ds.pairs[m.TTreeDir], ds.ttErr[m.TTreeDir])
	}
	return sb.String()
}

// ---- the check (timer driven, plain SIGKILL) ------------------------------------------------------

func checkRec(cs *recCase, o *pt.Obs) error {
	if err := cs.valid(); err != nil {
		return pt.Inconclusivef("bad case: %v", err)
	}
	dataDir := pt.NewDataDir()
	defer pt.CleanupDataDir(dataDir)
	opts := sut.Options{DataDir: dataDir, Env: map[string]string{"C10_TAGS_FLUSH_SECS": "1", "VERIF_LOGLEVEL": "error"}}
	var all []recPoint
	for _, ph := range cs.Phases {
		all = append(all, ph.Pts...)
	}
	e := newRecEngine(cs.Series, all, opts, o)
	if err := e.start(); err != nil {
		return err
	}
	defer e.close()
	gone := func(stage string) error {
		return fmt.Errorf("%s: server process died: %s", stage, pt.CrashDetail(e.c))
	}
	if err := e.setWalLimits(cs.WalFlush, cs.WalMax); err != nil {
		return err
	}
	rotationUnobserved := false
	for pi, ph := range cs.Phases {
		stage := fmt.Sprintf("phase %d", pi)
		if err := e.ingest("ingest "+stage, ph.Pts, !ph.Wait); err != nil {
			if errors.Is(err, errServerGone) {
				return gone("ingest " + stage)
			}
			return err
		}
		if !ph.Wait {
			if ph.PauseMs > 0 {
				time.Sleep(time.Duration(ph.PauseMs) * time.Millisecond)
			}
			continue
		}
		if err := e.waitLogged("after " + stage); err != nil {
			return err
		}
		if pi == 0 {
			if err := e.baseline("after " + stage); err != nil {
				if errors.Is(err, errServerGone) {
					return gone("baseline query")
				}
				return err
			}
		}
		if cs.RotateAfter == pi {
			// close the open block of every shard that holds data; wait until its WAL moved on to the next block
			want, err := e.rotationTargets()
			if err != nil {
				return err
			}
			if err := e.c.Call(&sut.Req{Op: "c10.blocklimit", Ints: map[string]int64{"bytes": 1}}, nil); err != nil {
				return e.died("blocklimit", err)
			}
			deadline := time.Now().Add(16 * time.Second) // the rotation timer fires every 10 s
			observed := false
			for {
				done, err := e.rotated(want)
				if err != nil {
					return err
				}
				if done {
					observed = true
					break
				}
				if e.c.Dead() {
					return gone("block rotation")
				}
				if time.Now().After(deadline) {
					break
				}
				time.Sleep(200 * time.Millisecond)
			}
			if err := e.c.Call(&sut.Req{Op: "c10.blocklimit", Ints: map[string]int64{"bytes": 100000000}}, nil); err != nil {
				return e.died("blocklimit", err)
			}
			if observed {
				e.markDurable(want)
			} else {
				// Not fatal and not a reason to drop the case: everything sent so far has been seen
				// in the log and stays owed whether or not (and however) the block was closed.
				o.Class("block_rotation_not_observed")
				rotationUnobserved = true
			}
		}
	}
	if cs.KillDelayMs > 0 {
		time.Sleep(time.Duration(cs.KillDelayMs) * time.Millisecond)
	}
	if e.c.Dead() {
		return gone("before the kill")
	}
	e.c.Kill()
	if cs.Cut != "" && !rotationUnobserved {
		// (with a block rotation of unknown outcome the closed block may hold what the cut removes)
		if err := e.cutLog(cs.Cut, cs.CutGroup); err != nil {
			return err
		}
	}
	if err := e.postMortem(); err != nil {
		return err
	}
	if e.nMust > 0 && e.nLogged > 0 {
		o.NonTrivial()
	}
	if err := e.verify("after restart", opts); err != nil {
		return err
	}
	if cs.SecondCrash {
		o.Class("second_crash")
		e.c.Kill()
		if err := e.verify("after second kill and restart", opts); err != nil {
			return err
		}
	}
	return nil
}

func TestC10Recover(t *testing.T) { pt.RunProp(t, "C10", genRecCase, checkRec) }
