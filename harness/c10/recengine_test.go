package c10

// The recovery engine shared by TestC10Recover (timer driven, plain SIGKILL) and TestC10Crash
// (step driven, crash points): it ingests, records what it has SEEN on disk while the server was
// alive, computes after the death of the server what is owed, restarts and verifies.

import (
	"errors"
	"fmt"
	"math"
	"os"
	"path/filepath"
	"sort"
	"strings"
	"time"

	"verifharness/pt"
	"verifharness/sut"
)

type dpKey struct {
	tsid uint64
	t    uint32
}

func parseSid(id string) (string, bool) {
	i := strings.IndexByte(id, '{')
	if i < 0 {
		return "", false
	}
	for _, kv := range strings.Split(strings.TrimSuffix(id[i+1:], "}"), ",") {
		if strings.HasPrefix(kv, "sid:") {
			return kv[4:], true
		}
	}
	return "", false
}

func mquery(c *sut.Client, text string, qs, qe uint32) (*MQueryResult, error) {
	var mr MQueryResult
	err := c.Call(&sut.Req{Op: "c10.mquery", Text: text, Start: uint64(qs), End: uint64(qe),
		Ints: map[string]int64{"step": 1, "sum": 1}}, &mr)
	return &mr, err
}

func fmtPts(m map[uint32]float64) string {
	ts := make([]uint32, 0, len(m))
	for t := range m {
		ts = append(ts, t)
	}
	sort.Slice(ts, func(i, j int) bool { return ts[i] < ts[j] })
	var sb strings.Builder
	for i, t := range ts {
		if i > 0 {
			sb.WriteByte(' ')
		}
		fmt.Fprintf(&sb, "%d:%v", t, m[t])
	}
	return "[" + sb.String() + "]"
}

type recEngine struct {
	o       *pt.Obs
	series  []recSeries
	opts    sut.Options // options of the first server; restarts use restartOpts
	c       *sut.Client
	walDir  string
	hostDir string // <dataPath><hostID>/
	qs, qe  uint32

	tsidOf   []uint64
	haveTsid []bool
	sent     []map[uint32]float64 // acknowledged by the ingest call
	durable  []map[uint32]float64 // in a block whose rotation was seen completed
	// what the harness has SEEN on disk while the server was alive: a datapoint in a WAL file, the
	// tag-tree directory of a series together with a logged meta entry for it. The logs are
	// append-only between rotations, so whatever was seen logged is owed after any later crash.
	seenLogged  []map[uint32]float64
	ttDirSeen   []string
	shardOfTsid map[uint64]string
	allNames    map[string]bool
	inflight    map[dpKey]bool // sent by an ingest call nobody waited for
	namesSeen   map[string]bool
	// unknownIDs: the server died inside an ingest call that introduced a series, so its id is not known
	unknownIDs bool
	// walLowered: the limits of the datapoint WAL were lowered in the first server
	walLowered bool

	// after the death of the first server
	ds          *diskState
	expect      []map[uint32]float64
	must        []bool
	nMust       int
	nLogged     int
	namesLogged map[string]bool
}

func newRecEngine(series []recSeries, all []recPoint, opts sut.Options, o *pt.Obs) *recEngine {
	e := &recEngine{o: o, series: series, opts: opts, shardOfTsid: map[uint64]string{}, allNames: map[string]bool{},
		inflight: map[dpKey]bool{}, namesSeen: map[string]bool{}}
	n := len(series)
	e.tsidOf, e.haveTsid, e.ttDirSeen = make([]uint64, n), make([]bool, n), make([]string, n)
	e.sent, e.durable, e.seenLogged = make([]map[uint32]float64, n), make([]map[uint32]float64, n), make([]map[uint32]float64, n)
	for i := range series {
		e.sent[i], e.durable[i], e.seenLogged[i] = map[uint32]float64{}, map[uint32]float64{}, map[uint32]float64{}
		e.allNames[series[i].Metric] = true
	}
	e.qs, e.qe = math.MaxUint32, 0
	for _, p := range all {
		if p.T < e.qs {
			e.qs = p.T
		}
		if p.T > e.qe {
			e.qe = p.T
		}
	}
	e.qs, e.qe = e.qs-5, e.qe+5
	return e
}

// died turns a transport error into a verdict: a dead server is a violation, anything else is inconclusive.
func (e *recEngine) died(stage string, err error) error {
	if errors.Is(err, sut.ErrWorkerDied) {
		return fmt.Errorf("%s: server process died: %s", stage, pt.CrashDetail(e.c))
	}
	return pt.Inconclusivef("%s: %v", stage, err)
}

func (e *recEngine) start() error {
	c, err := sut.Start(e.opts)
	if err != nil {
		return pt.Inconclusivef("worker start: %v", err)
	}
	e.c = c
	var paths map[string]string
	if err := c.Call(&sut.Req{Op: "c10.paths"}, &paths); err != nil {
		return e.died("paths", err)
	}
	e.walDir = paths["wal"]
	e.hostDir = paths["data"] + paths["host"] + "/"
	return nil
}

// setWalLimits lowers the limits of the datapoint WAL in the running server (0 = keep the default).
func (e *recEngine) setWalLimits(flush, max int) error {
	if flush == 0 && max == 0 {
		return nil
	}
	if err := e.c.Call(&sut.Req{Op: "c10.wallimits", Ints: map[string]int64{"flush": int64(flush), "maxbytes": int64(max)}}, nil); err != nil {
		return e.died("wallimits", err)
	}
	e.walLowered = true
	return nil
}

// logsOf groups the datapoint WAL files into the rotated logs of their blocks, files in the order of
// their index.
func logsOf(wals []walFile) (map[string][]walFile, []string) {
	logs := map[string][]walFile{}
	for _, wf := range wals {
		logs[wf.group()] = append(logs[wf.group()], wf)
	}
	names := make([]string, 0, len(logs))
	for g := range logs {
		sort.Slice(logs[g], func(a, b int) bool { return logs[g][a].idx < logs[g][b].idx })
		names = append(names, g)
	}
	sort.Strings(names)
	return logs, names
}

// cutLog cuts the newest file of one rotated log the way a crash during its creation or during its
// last append would have left it. The datapoints of the blocks that are no longer complete were not
// "appended completely" in the history that the cut stands for: they are no longer owed and, like
// any datapoint that never reached the log, must not come back.
func (e *recEngine) cutLog(kind string, group int) error {
	before, err := readDPWals(e.walDir)
	if err != nil {
		return pt.Inconclusivef("reading the WAL directory: %v", err)
	}
	logs, names := logsOf(before)
	var withData []string
	for _, g := range names {
		n := 0
		for _, wf := range logs[g] {
			n += len(wf.dps)
		}
		if n > 0 {
			withData = append(withData, g)
		}
	}
	if len(withData) == 0 {
		e.o.Class("cut_no_log_with_data")
		return nil
	}
	log := logs[withData[group%len(withData)]]
	last := log[len(log)-1]
	path := filepath.Join(e.walDir, last.name)
	ends, size := blockEnds(path)
	blockCut := kind != "zero" && kind != "empty"
	if blockCut && size <= 1 && len(log) > 1 {
		// the newest file holds no block: the crash of this history comes earlier, during the append
		// after which the log would have been continued in a new file
		if err := os.Remove(path); err != nil {
			return pt.Inconclusivef("cut: %v", err)
		}
		e.o.Class("cut_before_the_wal_rotation")
		log = log[:len(log)-1]
		last = log[len(log)-1]
		path = filepath.Join(e.walDir, last.name)
		ends, size = blockEnds(path)
	}
	start := 1 // start of the last block (complete or torn)
	if len(ends) >= 2 {
		start = ends[len(ends)-2]
	}
	if len(ends) >= 1 && size > ends[len(ends)-1] {
		start = ends[len(ends)-1] // the kill itself left a torn block at the end
	}
	to := size
	switch kind {
	case "zero":
		to = 0
	case "empty":
		to = 1
	case "len":
		to = start + 2
	case "hdr":
		to = start + 8
	case "mid":
		to = start + 8 + (size-start-8)/2
	case "last":
		to = size - 1
	}
	if to >= size || to < 0 || (blockCut && size-start < 9) {
		e.o.Class("cut_not_applicable_newest_file_has_no_block")
		return nil
	}
	if err := os.Truncate(path, int64(to)); err != nil {
		return pt.Inconclusivef("cut: %v", err)
	}
	after, err := readDPWals(e.walDir)
	if err != nil {
		return pt.Inconclusivef("reading the WAL directory: %v", err)
	}
	kept := 0
	for _, wf := range after {
		if wf.name == last.name {
			kept = len(wf.dps)
		}
	}
	if kept > len(last.dps) {
		return pt.Inconclusivef("cut: the file yields more datapoints after the cut")
	}
	dropped := 0
	for _, dp := range last.dps[kept:] {
		for i := range e.series {
			if e.haveTsid[i] && e.tsidOf[i] == dp.Tsid {
				delete(e.seenLogged[i], dp.Timestamp)
				dropped++
			}
		}
	}
	e.o.Class("cut_" + kind)
	if len(log) > 1 {
		e.o.Class("cut_in_rotated_log")
	}
	if dropped > 0 {
		e.o.Class("cut_removed_logged_datapoints")
	}
	e.o.Count("datapoints_removed_by_cut", int64(dropped))
	return nil
}

func (e *recEngine) close() {
	if e.c != nil {
		e.c.Close()
	}
}

func (e *recEngine) line(p recPoint) string {
	return otsdbLine(e.series, p)
}

// ingest sends the points in one call. errServerGone is returned (wrapped) when the server died in the call.
var errServerGone = errors.New("server gone")

func (e *recEngine) ingest(stage string, pts []recPoint, inflight bool) error {
	if len(pts) == 0 {
		return nil
	}
	lines := make([]string, len(pts))
	for i, p := range pts {
		lines[i] = e.line(p)
	}
	var ir IngestResult
	if err := e.c.Call(&sut.Req{Op: "c10.ingest", Strs: lines}, &ir); err != nil {
		if errors.Is(err, sut.ErrWorkerDied) {
			return errServerGone
		}
		return pt.Inconclusivef("%s: %v", stage, err)
	}
	for i, p := range pts {
		if ir.Errs[i] != "" {
			return pt.Inconclusivef("%s: datapoint %s was refused: %s", stage, lines[i], ir.Errs[i])
		}
		if e.haveTsid[p.S] && e.tsidOf[p.S] != ir.Tsids[i] {
			return pt.Inconclusivef("series %d changed its id", p.S)
		}
		e.tsidOf[p.S], e.haveTsid[p.S] = ir.Tsids[i], true
		e.sent[p.S][p.T] = p.V
		if inflight {
			e.inflight[dpKey{ir.Tsids[i], p.T}] = true
		}
	}
	for i := range e.series {
		for j := 0; j < i; j++ {
			if e.haveTsid[i] && e.haveTsid[j] && e.tsidOf[i] == e.tsidOf[j] {
				return pt.Inconclusivef("series %d and %d share an id", i, j)
			}
		}
	}
	return nil
}

// noteIngestCrash records, for an ingest call in which the server died, which series ids are not
// known: the points of that call may or may not have been applied.
func (e *recEngine) maybeSent(pts []recPoint) {
	// The ids are assigned by the server; without an answer the harness cannot attribute WAL
	// entries of never-seen series. Points of known series are attributed by (tsid, t).
	for _, p := range pts {
		if e.haveTsid[p.S] {
			e.sent[p.S][p.T] = p.V
			e.inflight[dpKey{e.tsidOf[p.S], p.T}] = true
		} else {
			e.unknownIDs = true
		}
	}
}

func (e *recEngine) readDisk() (*diskState, error) {
	return readDisk(e.walDir, len(e.series), e.ttDirSeen...)
}

func (e *recEngine) inWal(ds *diskState) map[dpKey][]float64 {
	m := map[dpKey][]float64{}
	for _, wf := range ds.wals {
		for _, dp := range wf.dps {
			k := dpKey{dp.Tsid, dp.Timestamp}
			m[k] = append(m[k], dp.DpVal)
			e.shardOfTsid[dp.Tsid] = wf.shard
		}
	}
	return m
}

// missing names something sent that is not yet on disk ("" if everything is).
func (e *recEngine) missing(ds *diskState, w map[dpKey][]float64) string {
	for i := range e.series {
		if len(e.sent[i]) == 0 {
			continue
		}
		for t := range e.sent[i] {
			if _, in := e.durable[i][t]; in {
				continue
			}
			if len(w[dpKey{e.tsidOf[i], t}]) == 0 {
				return fmt.Sprintf("datapoint t=%d of series %d", t, i)
			}
		}
		if _, ok := ds.findable(i, e.qs, e.qe); !ok {
			return fmt.Sprintf("segment metadata / tag trees of series %d (%s)", i, ds.describe())
		}
		if !ds.names[e.series[i].Metric] {
			return fmt.Sprintf("metric name %q", e.series[i].Metric)
		}
	}
	return ""
}

// noteSeen records everything of what was sent that is on disk right now.
func (e *recEngine) noteSeen(ds *diskState, w map[dpKey][]float64) {
	for i := range e.series {
		if !e.haveTsid[i] {
			continue
		}
		for t, v := range e.sent[i] {
			if vals := w[dpKey{e.tsidOf[i], t}]; len(vals) == 1 && vals[0] == v {
				e.seenLogged[i][t] = v
			}
		}
		if d, ok := ds.findable(i, e.qs, e.qe); ok {
			e.ttDirSeen[i] = d
		}
	}
	for nme := range ds.names {
		e.namesSeen[nme] = true
	}
}

// observe reads the disk once and records what is there (step mode: after a completed tick).
func (e *recEngine) observe() error {
	ds, err := e.readDisk()
	if err != nil {
		return pt.Inconclusivef("reading data dir: %v", err)
	}
	e.noteSeen(ds, e.inWal(ds))
	return nil
}

// waitLogged polls until everything sent so far is on disk (timer mode).
func (e *recEngine) waitLogged(stage string) error {
	deadline := time.Now().Add(8 * time.Second)
	for {
		ds, err := e.readDisk()
		if err != nil {
			return pt.Inconclusivef("%s: reading data dir: %v", stage, err)
		}
		w := e.inWal(ds)
		miss := e.missing(ds, w)
		if miss == "" {
			e.noteSeen(ds, w)
			return nil
		}
		if e.c.Dead() {
			return fmt.Errorf("%s: server process died: %s", stage, pt.CrashDetail(e.c))
		}
		if time.Now().After(deadline) {
			return pt.Inconclusivef("%s: not on disk within 8 s: %s", stage, miss)
		}
		time.Sleep(100 * time.Millisecond)
	}
}

// baseline: before any crash the selectors must return what was sent, else the case says nothing about recovery.
func (e *recEngine) baseline(stage string) error {
	for i := range e.series {
		if len(e.sent[i]) == 0 {
			continue
		}
		mr, err := mquery(e.c, fmt.Sprintf(`%s{sid=%q}`, e.series[i].Metric, sidOf(i)), e.qs, e.qe)
		if err != nil {
			if errors.Is(err, sut.ErrWorkerDied) {
				return errServerGone
			}
			return pt.Inconclusivef("%s: %v", stage, err)
		}
		got := map[uint32]float64{}
		for _, s := range mr.Series {
			for _, p := range s.Pts {
				got[p.T] = math.Float64frombits(p.V)
			}
		}
		if mr.Err != "" || len(mr.Errors) > 0 || len(mr.Series) != 1 || fmtPts(got) != fmtPts(e.sent[i]) {
			return pt.Inconclusivef("%s: before any crash the selector on series %d does not return what was sent (not a recovery matter): err=%q %v sent=%s got=%s",
				stage, i, mr.Err, mr.Errors, fmtPts(e.sent[i]), fmtPts(got))
		}
	}
	return nil
}

// rotTarget describes, for one shard, the open block that a rotation is expected to close.
type rotTarget struct {
	segID, blockID uint64
	logged         map[dpKey]bool // the datapoints its WAL files hold before the rotation
}

// rotationTargets: for every shard that currently has logged datapoints, the block they belong to
// (highest block id among its WAL files with data) and the logged datapoints themselves.
func (e *recEngine) rotationTargets() (map[string]*rotTarget, error) {
	before, err := readDPWals(e.walDir)
	if err != nil {
		return nil, pt.Inconclusivef("%v", err)
	}
	want := map[string]*rotTarget{}
	for _, wf := range before {
		if len(wf.dps) == 0 {
			continue
		}
		t := want[wf.shard]
		if t == nil {
			t = &rotTarget{segID: wf.segID, blockID: wf.blockID, logged: map[dpKey]bool{}}
			want[wf.shard] = t
		}
		if wf.blockID > t.blockID {
			t.blockID = wf.blockID
		}
		for _, dp := range wf.dps {
			t.logged[dpKey{dp.Tsid, dp.Timestamp}] = true
		}
	}
	return want, nil
}

// rotated reports whether every target shard has closed its block: the block files
// <data>/<host>/final/ts/<shard>/<seg>/<seg>_<block>.tso/.tsg exist and none of the datapoints that
// were in the shard's WAL files is in any WAL file of the shard any more. How the WAL files of the
// next block are called is deliberately not part of the observation.
func (e *recEngine) rotated(want map[string]*rotTarget) (bool, error) {
	now, err := readDPWals(e.walDir)
	if err != nil {
		return false, pt.Inconclusivef("%v", err)
	}
	for _, wf := range now {
		t := want[wf.shard]
		if t == nil {
			continue
		}
		for _, dp := range wf.dps {
			if t.logged[dpKey{dp.Tsid, dp.Timestamp}] {
				return false, nil
			}
		}
	}
	for sh, t := range want {
		base := fmt.Sprintf("%sfinal/ts/%s/%d/%d_%d", e.hostDir, sh, t.segID, t.segID, t.blockID)
		for _, ext := range []string{".tso", ".tsg"} {
			st, err := os.Stat(base + ext)
			if err != nil || st.Size() == 0 {
				return false, nil
			}
		}
	}
	return true, nil
}

// markDurable: everything acknowledged so far for series of the rotated shards sits in a closed block.
func (e *recEngine) markDurable(want map[string]*rotTarget) {
	for i := range e.series {
		if !e.haveTsid[i] {
			continue
		}
		if _, ok := want[e.shardOfTsid[e.tsidOf[i]]]; ok {
			for t, v := range e.sent[i] {
				e.durable[i][t] = v
			}
		}
	}
	e.o.Class("block_rotated_before_crash")
}

// postMortem reads what the dead server left and computes what is owed.
func (e *recEngine) postMortem() error {
	ds, err := e.readDisk()
	if err != nil {
		return pt.Inconclusivef("reading data dir after the kill: %v", err)
	}
	e.ds = ds
	o := e.o
	w := e.inWal(ds)
	n := len(e.series)
	e.expect, e.must = make([]map[uint32]float64, n), make([]bool, n)
	nLost := 0
	lastLogged, lastLost := 0, 0
	for i := range e.series {
		e.expect[i] = map[uint32]float64{}
		for t, v := range e.durable[i] {
			e.expect[i][t] = v
		}
		for t, v := range e.sent[i] {
			k := dpKey{e.tsidOf[i], t}
			vals := w[k]
			if _, dur := e.durable[i][t]; dur {
				if len(vals) > 0 {
					return pt.Inconclusivef("series %d t=%d is in a closed block and still in a WAL file", i, t)
				}
				continue
			}
			switch {
			case len(vals) == 0:
				if sv, seen := e.seenLogged[i][t]; seen {
					// it was in the log while the server was alive and no rotation of its block
					// was seen completed since: still owed (the closed block must have it)
					e.expect[i][t] = sv
					o.Class("logged_datapoint_gone_from_wal_at_kill")
					continue
				}
				nLost++
				if e.inflight[k] {
					lastLost++
				}
			case len(vals) == 1 && vals[0] == v:
				e.expect[i][t] = v
				e.nLogged++
				if e.inflight[k] {
					lastLogged++
				}
			default:
				return fmt.Errorf("the datapoint WAL holds %v for series %d (tsid %d) t=%d; sent once with value %v", vals, i, e.tsidOf[i], t, v)
			}
		}
		if len(e.expect[i]) > 0 {
			if e.ttDirSeen[i] != "" {
				// the segment metadata was seen logged: it stays owed; the tag trees (not
				// write-ahead logged) are judged as found
				e.must[i] = ds.tagsIn(e.ttDirSeen[i], i)
				if e.must[i] && !ds.metaFor(e.ttDirSeen[i], e.qs, e.qe) {
					o.Class("meta_entry_seen_logged_but_unreadable_at_kill")
				}
			} else {
				_, e.must[i] = ds.findable(i, e.qs, e.qe)
			}
		}
		if e.must[i] {
			e.nMust++
		}
	}
	// nothing in the WAL that was never sent
	for k, vals := range w {
		found := false
		for i := range e.series {
			if e.haveTsid[i] && e.tsidOf[i] == k.tsid {
				if _, ok := e.sent[i][k.t]; ok {
					found = true
				}
			}
		}
		if !found && !e.unknownIDs {
			return fmt.Errorf("the datapoint WAL holds tsid=%d t=%d values=%v which was never sent", k.tsid, k.t, vals)
		}
	}
	multiBlockFile := false
	for _, wf := range ds.wals {
		if countBlocks(filepath.Join(e.walDir, wf.name)) > 1 {
			multiBlockFile = true
		}
	}
	o.Count("datapoints_logged_at_kill", int64(e.nLogged))
	o.Count("datapoints_not_logged_at_kill", int64(nLost))
	switch {
	case lastLogged > 0 && lastLost > 0:
		o.Class("inflight_partly_logged")
	case lastLogged > 0:
		o.Class("inflight_fully_logged")
	case lastLost > 0:
		o.Class("inflight_not_logged")
	default:
		o.Class("no_inflight_datapoints")
	}
	if multiBlockFile {
		o.Class("several_wal_blocks")
	}
	e.classifyLogs(ds)
	if len(ds.ttErr) > 0 {
		o.Class("tag_tree_unreadable_after_kill")
	}
	shards := map[string]bool{}
	for i := range e.series {
		if e.haveTsid[i] {
			shards[e.shardOfTsid[e.tsidOf[i]]] = true
		}
	}
	if len(shards) > 1 {
		o.Class("several_shards")
	}
	switch {
	case e.nMust == len(e.series):
		o.Class("all_series_must_return")
	case e.nMust > 0:
		o.Class("some_series_must_return")
	default:
		o.Class("no_series_must_return")
	}
	e.namesLogged = map[string]bool{}
	for nme := range ds.names {
		if !e.allNames[nme] {
			return fmt.Errorf("the metric-name WAL holds %q which was never sent", nme)
		}
		e.namesLogged[nme] = true
	}
	for nme := range e.namesSeen {
		e.namesLogged[nme] = true // seen in the name WAL while the server was alive: stays owed
	}
	return nil
}

// classifyLogs records the shape of the rotated datapoint logs that the dead server left: how many
// files the log of a block has and on which side of a WAL rotation the crash (or cut) fell.
func (e *recEngine) classifyLogs(ds *diskState) {
	o := e.o
	logs, names := logsOf(ds.wals)
	maxFiles := 0
	rotated := false
	for _, g := range names {
		log := logs[g]
		earlier := 0
		for _, wf := range log[:len(log)-1] {
			earlier += len(wf.dps)
		}
		total := earlier + len(log[len(log)-1].dps)
		if total == 0 {
			continue // the untouched log of an idle shard
		}
		if len(log) > maxFiles {
			maxFiles = len(log)
		}
		last := log[len(log)-1]
		ends, size := blockEnds(filepath.Join(e.walDir, last.name))
		torn := size > 1 && (len(ends) == 0 || size > ends[len(ends)-1])
		if len(log) == 1 {
			if e.walLowered {
				o.Class("wal_limits_lowered_log_not_rotated_yet")
			}
			if torn {
				o.Class("wal_single_file_ends_in_torn_block")
			}
			continue
		}
		rotated = true
		if earlier == 0 {
			continue
		}
		switch {
		case size == 0:
			o.Class("wal_rotated_newest_file_without_version_byte")
		case len(ends) == 0 && !torn:
			o.Class("wal_rotated_newest_file_empty")
		case len(ends) == 0 && torn:
			o.Class("wal_rotated_newest_file_torn_first_block")
		case torn:
			o.Class("wal_rotated_newest_file_blocks_then_torn_block")
		default:
			o.Class("wal_rotated_newest_file_complete_blocks")
		}
		if last.idx >= 10 {
			o.Class("wal_rotated_two_digit_file_index")
		}
	}
	if rotated {
		o.Class("wal_rotated_before_crash")
		o.Class("wal_rotated_files_" + bucketN(maxFiles))
	}
	o.Max("wal_files_of_one_block_max", int64(maxFiles))
}

// verify starts a server on the data directory and checks what it returns against what is owed.
func (e *recEngine) verify(stage string, opts sut.Options) error {
	c2, err := sut.Start(opts)
	if err != nil {
		if strings.Contains(err.Error(), "did not become ready") {
			return fmt.Errorf("%s: the server does not start on the data directory left by the crash: %v", stage, err)
		}
		return pt.Inconclusivef("%s: worker start: %v", stage, err)
	}
	e.c = c2
	c := c2
	allMust := e.nMust == len(e.series)
	ds := e.ds
	for i := range e.series {
		if !e.haveTsid[i] {
			continue
		}
		text := fmt.Sprintf(`%s{sid=%q}`, e.series[i].Metric, sidOf(i))
		mr, err := mquery(c, text, e.qs, e.qe)
		if err != nil {
			if errors.Is(err, sut.ErrWorkerDied) && (e.must[i] || len(ds.ttErr) == 0) {
				return fmt.Errorf("%s: query %s killed the server: %s", stage, text, pt.CrashDetail(c))
			}
			return e.died(stage+": query "+text, err)
		}
		if mr.Err != "" || len(mr.Errors) > 0 {
			if e.must[i] && allMust {
				return fmt.Errorf("%s: query %s answers with an error although the log, names, metadata and tags of the series were on disk: %q %v", stage, text, mr.Err, mr.Errors)
			}
			continue
		}
		got := map[uint32]float64{}
		for _, s := range mr.Series {
			sid, ok := parseSid(s.ID)
			if !ok || sid != sidOf(i) {
				return fmt.Errorf("%s: query %s returned series %q", stage, text, s.ID)
			}
			for _, p := range s.Pts {
				v := math.Float64frombits(p.V)
				if _, dup := got[p.T]; dup {
					return fmt.Errorf("%s: query %s returned t=%d twice", stage, text, p.T)
				}
				got[p.T] = v
			}
		}
		if os.Getenv("C10_DEBUG") != "" {
			fmt.Fprintf(os.Stderr, "C10_DEBUG %s: %s must=%v expect=%s got=%s\n", stage, text, e.must[i], fmtPts(e.expect[i]), fmtPts(got))
		}
		for t, v := range got {
			ev, ok := e.expect[i][t]
			if !ok {
				how := "was never sent"
				if _, s := e.sent[i][t]; s {
					how = "was sent but its WAL append had not completed at the kill and its block was not closed"
				}
				return fmt.Errorf("%s: query %s returned t=%d v=%v which %s\n  expected (closed blocks ∪ seen logged ∪ WAL at kill): %s\n  got: %s",
					stage, text, t, v, how, fmtPts(e.expect[i]), fmtPts(got))
			}
			if ev != v {
				hint := ""
				if v == 2*ev {
					hint = " (twice the value: the datapoint is stored twice)"
				}
				return fmt.Errorf("%s: query %s returned t=%d v=%v, logged value %v%s\n  expected: %s\n  got: %s",
					stage, text, t, v, ev, hint, fmtPts(e.expect[i]), fmtPts(got))
			}
		}
		if e.must[i] {
			for t, v := range e.expect[i] {
				if _, ok := got[t]; !ok {
					return fmt.Errorf("%s: query %s lost t=%d v=%v whose WAL append had completed (or whose block was closed) before the crash; the segment metadata had been logged and the tags are on disk\n  expected: %s\n  got: %s",
						stage, text, t, v, fmtPts(e.expect[i]), fmtPts(got))
				}
			}
		}
	}
	// bare selectors: no series that was never sent
	for name := range e.allNames {
		mr, err := mquery(c, name, e.qs, e.qe)
		if err != nil {
			return e.died(stage+": query "+name, err)
		}
		for _, s := range mr.Series {
			sid, ok := parseSid(s.ID)
			known := false
			for i := range e.series {
				if ok && sid == sidOf(i) && e.series[i].Metric == name && (e.haveTsid[i] || e.unknownIDs) {
					known = true
				}
			}
			if !known {
				return fmt.Errorf("%s: query %s returned series %q which was never sent", stage, name, s.ID)
			}
		}
	}
	// metric names
	allNamesLogged := true
	for i := range e.series {
		if e.haveTsid[i] && !e.namesLogged[e.series[i].Metric] {
			allNamesLogged = false
		}
	}
	var names []string
	err = c.Call(&sut.Req{Op: "c10.mnames", Start: uint64(e.qs), End: uint64(e.qe)}, &names)
	if err != nil {
		var oe *sut.OpError
		if !errors.As(err, &oe) {
			return e.died(stage+": metric names", err)
		}
		if allMust && allNamesLogged {
			return fmt.Errorf("%s: listing the metric names fails although every name was in the name WAL and every segment's metadata was logged before the crash: %v", stage, err)
		}
		e.o.Class("metric_name_listing_error_tolerated")
	} else {
		got := map[string]bool{}
		for _, nme := range names {
			if !e.allNames[nme] {
				return fmt.Errorf("%s: metric name %q is listed and was never sent", stage, nme)
			}
			got[nme] = true
		}
		for i := range e.series {
			nme := e.series[i].Metric
			if e.must[i] && allMust && e.namesLogged[nme] && !got[nme] {
				return fmt.Errorf("%s: metric name %q was in the name WAL at the crash and is not listed after the restart (listed: %v)", stage, nme, names)
			}
		}
	}
	return nil
}
