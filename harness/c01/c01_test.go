package c01

import (
	"errors"
	"fmt"
	"math"
	"os"
	"strconv"
	"strings"
	"testing"

	"pgregory.net/rapid"

	"verifharness/gen"
	"verifharness/lq"
	"verifharness/model"
	"verifharness/pt"
	"verifharness/sut"
)

// C01 — ingest→query round trip is lossless and exact.

type c01Case struct {
	DS     *gen.Dataset `json:"ds"`
	Layout gen.Layout   `json:"layout"`
	// Big > 0: instead of DS, this many small synthetic events (built by bigEvents, not stored in the case) are
	// ingested so that single blocks hold tens of thousands of records (sizes around the engine's per-block
	// constants); Layout then applies to them
	Big int `json:"big,omitempty"`
}

// bigEvents builds n small events: a dense id, a low-cardinality integer and a short word, 1 ms apart.
func bigEvents(n int) []*model.Event {
	evs := make([]*model.Event, n)
	for i := 0; i < n; i++ {
		vid := int64(i + 1)
		evs[i] = &model.Event{Vid: vid, Ts: gen.BaseTs + uint64(i), Doc: model.Node{IsObj: true, Obj: []model.Field{
			{Name: "_vid", Node: model.LeafNode(model.Int(vid))},
			{Name: "k", Node: model.LeafNode(model.Int(int64(i % 7)))},
			{Name: "w", Node: model.LeafNode(model.Str("w" + strconv.Itoa(i%13)))}}}}
	}
	return evs
}

func (cs *c01Case) events() []*model.Event {
	if cs.Big > 0 {
		return bigEvents(cs.Big)
	}
	return cs.DS.Events
}

// bigSizes: record counts per block around constants of the block format (15000-bit initial match bitset,
// 2^14, 2^15, the 16-bit record number).
var bigSizes = []int{14999, 15000, 15001, 15002, 16000, 16384, 16385, 20000, 32767, 32769}

func genC01(t *rapid.T) *c01Case {
	if rapid.IntRange(0, 59).Draw(t, "bigBlock") == 0 {
		n := rapid.SampledFrom(bigSizes).Draw(t, "bigSize")
		l := gen.Layout{Batches: []int{n}, Flush: []bool{true}, Rotate: []bool{rapid.Bool().Draw(t, "bigRotate")}}
		if rapid.Bool().Draw(t, "bigTwoBatches") {
			// the same events arriving in two requests before the flush: still one block
			a := rapid.IntRange(1, n-1).Draw(t, "bigCut")
			l = gen.Layout{Batches: []int{a, n - a}, Flush: []bool{false, true}, Rotate: []bool{false, l.Rotate[0]}}
		}
		return &c01Case{DS: &gen.Dataset{}, Layout: l, Big: n}
	}
	maxEv := pt.Scale(60, 700) // thorough: enough events to cross the default dictionary limit of 501 distinct values
	ds := gen.GenDataset(t, gen.DatasetOpts{MaxEvents: maxEv, MaxCols: 7, NullPct: 5})
	cs := &c01Case{DS: ds, Layout: gen.GenLayout(t, len(ds.Events))}
	if rapid.IntRange(0, 3).Draw(t, "staggered") == 0 {
		// block- and segment-level time windows that overlap and nest
		gen.StaggerTimestamps(t, ds.Events, cs.Layout)
	}
	return cs
}

// colKinds summarises which kinds of values each column holds in a set of events.
type colInfo struct {
	hasNum, hasNonNumStr, hasBool, hasStr bool
}

func columnInfo(evs []*model.Event) map[string]*colInfo {
	info := map[string]*colInfo{}
	for _, e := range evs {
		f, _ := e.Flat()
		for name, v := range f {
			ci := info[name]
			if ci == nil {
				ci = &colInfo{}
				info[name] = ci
			}
			switch v.K {
			case model.KInt, model.KFloat:
				ci.hasNum = true
			case model.KStr:
				ci.hasStr = true
				if _, err := strconv.ParseFloat(v.S, 64); err != nil {
					ci.hasNonNumStr = true
				}
			case model.KBool:
				ci.hasBool = true
			}
		}
	}
	return info
}

// valueMatches implements the C01 comparison: exact by value and type, with the relaxations
// the statement and the documented block-level type consolidation grant:
//   - a number may come back as its decimal text if its column also held a non-numeric value
//     (a non-numeric string, or a boolean: "if a column has both [a bloom and a range index] we
//     convert all the values to one type");
//   - a boolean in a column that also holds numbers may come back as the text true/false.
//
// known is set when the only way to accept the value is the known finding
// C01-numtext-to-number (numeric text silently converted to a number).
func valueMatches(want model.Val, got sut.TV, ci *colInfo, known *bool) bool {
	numAsTextOK := ci != nil && ci.hasNum && (ci.hasNonNumStr || ci.hasBool)
	switch want.K {
	case model.KInt:
		if gi, ok := got.Int(); ok && (got.Kind() == 'i' || got.Kind() == 'u') {
			return gi == want.I
		}
		if got.Kind() == 'u' { // > MaxInt64 cannot equal an int64
			return false
		}
		if gf, ok := got.Float(); ok && got.Kind() == 'f' {
			return model.ExactFloat(want.I) && gf == float64(want.I)
		}
		if s, ok := got.Str(); ok && numAsTextOK {
			if pi, err := strconv.ParseInt(s, 10, 64); err == nil {
				return pi == want.I
			}
			if pf, err := strconv.ParseFloat(s, 64); err == nil {
				return model.ExactFloat(want.I) && pf == float64(want.I)
			}
		}
		return false
	case model.KFloat:
		if got.Kind() == 'f' {
			gf, ok := got.Float()
			return ok && floatSame(gf, want.F)
		}
		if got.Kind() == 'i' || got.Kind() == 'u' {
			gf, ok := got.Float()
			if !ok {
				return false
			}
			if gi, ok2 := got.Int(); ok2 && !model.ExactFloat(gi) {
				return false
			}
			return gf == want.F
		}
		if s, ok := got.Str(); ok && numAsTextOK {
			if pf, err := strconv.ParseFloat(s, 64); err == nil {
				return floatSame(pf, want.F)
			}
		}
		return false
	case model.KStr:
		if s, ok := got.Str(); ok {
			return s == want.S
		}
		// known finding C01-numtext-to-number: a numeric text in a column that also holds numbers
		// (and no non-numeric value in the same block) is stored as the number it parses to.
		if ci != nil && ci.hasNum && pt.KnownFindingOpen("C01-numtext-to-number") {
			if pf, err := strconv.ParseFloat(want.S, 64); err == nil {
				if gf, ok := got.Float(); ok && floatSame(gf, pf) {
					if known != nil {
						*known = true
					}
					return true
				}
			}
		}
		return false
	case model.KBool:
		if b, ok := got.Bool(); ok {
			return b == want.B
		}
		if s, ok := got.Str(); ok && ci != nil && ci.hasNum {
			return s == strconv.FormatBool(want.B)
		}
		return false
	}
	return false
}

// floatSame: equal values; +0 and -0 are the same JSON number for this comparison.
func floatSame(a, b float64) bool {
	if a == b {
		return true
	}
	return math.IsNaN(a) && math.IsNaN(b)
}

// compareRecords checks the multiset of returned records against the expected events.
// Columns named in skipCols are ignored.
func compareRecords(recs []sut.Record, want []*model.Event, info map[string]*colInfo, o *pt.Obs) error {
	byVid := map[int64]*model.Event{}
	for _, e := range want {
		byVid[e.Vid] = e
	}
	seen := map[int64]bool{}
	for _, r := range recs {
		vt, ok := r["_vid"]
		if !ok {
			return fmt.Errorf("returned record without _vid: %v", r)
		}
		vid, ok := vt.Int()
		if !ok {
			return fmt.Errorf("returned record with non-integer _vid %q: %v", vt, r)
		}
		e := byVid[vid]
		if e == nil {
			return fmt.Errorf("invented or unexpected record _vid=%d: %v", vid, r)
		}
		if seen[vid] {
			return fmt.Errorf("record _vid=%d returned more than once", vid)
		}
		seen[vid] = true
		if err := compareOne(r, e, info, o); err != nil {
			return fmt.Errorf("_vid=%d: %v\n  sent: %s\n  got:  %v", vid, err, gen.EventJSON(e, true), r)
		}
	}
	for _, e := range want {
		if !seen[e.Vid] {
			return fmt.Errorf("event _vid=%d (flushed) is missing from match-all; sent %s", e.Vid, gen.EventJSON(e, true))
		}
	}
	return nil
}

func compareOne(r sut.Record, e *model.Event, info map[string]*colInfo, o *pt.Obs) error {
	flat, _ := e.Flat()
	ts, ok := r["timestamp"]
	if !ok {
		return fmt.Errorf("no timestamp column")
	}
	if tf, ok := ts.Float(); !ok || uint64(tf) != e.Ts {
		return fmt.Errorf("timestamp %q != sent %d", ts, e.Ts)
	}
	for name, tv := range r {
		if name == "timestamp" || name == "_index" {
			continue
		}
		if tv.IsNil() {
			continue
		}
		w, ok := flat[name]
		if !ok {
			return fmt.Errorf("column %q=%q was not sent with this event (value migrated or invented)", name, tv)
		}
		var known bool
		if !valueMatches(w, tv, info[name], &known) {
			return fmt.Errorf("column %q: sent %s, got %q", name, w, tv)
		}
		if known && o != nil {
			o.Known("C01-numtext-to-number")
		}
	}
	for name, w := range flat {
		tv, ok := r[name]
		if !ok || tv.IsNil() {
			return fmt.Errorf("column %q (sent %s) is missing", name, w)
		}
	}
	return nil
}

func tsRange(evs []*model.Event) (uint64, uint64) {
	lo, hi := uint64(math.MaxUint64), uint64(0)
	for _, e := range evs {
		if e.Ts < lo {
			lo = e.Ts
		}
		if e.Ts > hi {
			hi = e.Ts
		}
	}
	return lo - 1, hi + 1
}

// applyLayout ingests ds under the layout; after each flush/rotate it calls visible(flushedEvents, stage).
func applyLayout(c *sut.Client, index string, org int64, evs []*model.Event, l gen.Layout,
	visible func(flushed []*model.Event, stage string) error) error {
	if l.CardLimit > 0 {
		if err := c.Set("cardLimit", int64(l.CardLimit)); err != nil {
			return err
		}
	}
	if l.GoMaxProcs > 0 {
		if err := c.Set("gomaxprocs", int64(l.GoMaxProcs)); err != nil {
			return err
		}
	}
	pos := 0
	for i, b := range l.Batches {
		batch := evs[pos : pos+b]
		pos += b
		br, err := c.Bulk(org, gen.BulkBody(index, batch))
		if err != nil {
			return fmt.Errorf("bulk batch %d: %w", i, err)
		}
		if br.Err != "" || strings.Contains(string(br.Response), `"errors":true`) {
			return fmt.Errorf("bulk batch %d was not fully accepted: err=%q response=%s", i, br.Err, br.Response)
		}
		last := i == len(l.Batches)-1
		if l.Flush[i] || l.Rotate[i] || last {
			if err := c.Flush(); err != nil {
				return fmt.Errorf("flush: %w", err)
			}
			if visible != nil {
				if err := visible(evs[:pos], fmt.Sprintf("after flush of batch %d", i)); err != nil {
					return err
				}
			}
		}
		if l.Rotate[i] {
			if err := c.Rotate(); err != nil {
				return fmt.Errorf("rotate: %w", err)
			}
			if visible != nil {
				if err := visible(evs[:pos], fmt.Sprintf("after rotate following batch %d", i)); err != nil {
					return err
				}
			}
		}
	}
	if l.FinalRot {
		if err := c.Rotate(); err != nil {
			return fmt.Errorf("rotate: %w", err)
		}
		if visible != nil {
			if err := visible(evs, "after final rotate"); err != nil {
				return err
			}
		}
	}
	return nil
}

func hasDup(evs []*model.Event) bool {
	for _, e := range evs {
		if _, d := e.Flat(); d {
			return true
		}
	}
	return false
}

func checkC01(cs *c01Case, o *pt.Obs) error {
	evs := cs.events()
	info := columnInfo(evs)
	if cs.Big > 0 {
		o.Class("big_block")
	}
	flushes, rots := cs.Layout.Blocks()
	if flushes >= 2 {
		o.Class("multi_block")
	}
	if rots >= 1 {
		o.Class("rotated")
	}
	if rots >= 2 {
		o.Class("multi_segment")
	}
	if cs.Layout.CardLimit > 0 {
		o.Class("low_card_limit")
	}
	nt := flushes >= 2
	for _, col := range cs.DS.Columns {
		o.Class("profile_" + col.Profile.String())
		o.Class("presence_" + col.Presence.String())
		if col.Presence != gen.PrAlways {
			nt = true
		}
		switch col.Profile {
		case gen.PMixNumStr, gen.PMixNumBool, gen.PWidth6Str, gen.PMixIntFloat:
			nt = true
		}
	}
	if nt || cs.Big > 0 {
		o.NonTrivial()
	}
	o.Count("events", int64(len(evs)))
	lo, hi := tsRange(evs)
	return pt.WithWorker(sut.Options{}, func(c *sut.Client) error {
		if pf := os.Getenv("VERIF_CPUPROF"); pf != "" {
			_ = c.Call(&sut.Req{Op: "cpuprof_start", Name: pf}, nil)
			defer func() { _ = c.Call(&sut.Req{Op: "cpuprof_stop"}, nil) }()
		}
		err := applyLayout(c, "c01idx", 0, evs, cs.Layout, func(flushed []*model.Event, stage string) error {
			sr, err := c.Search(sut.Query{Index: "c01idx", Text: "*", Start: lo, End: hi, Size: len(evs) + 10, IncludeNulls: true})
			if err != nil {
				if cerr := lq.Classify(c, stage+": match-all", err); cerr != nil {
					return cerr
				}
			}
			if sr.Err != "" || len(sr.Errors) > 0 {
				return fmt.Errorf("%s: match-all answered with error: %q %v", stage, sr.Err, sr.Errors)
			}
			if err := compareRecords(sr.Records, flushed, info, o); err != nil {
				return fmt.Errorf("%s: %v", stage, err)
			}
			return nil
		})
		if errors.Is(err, sut.ErrWorkerDied) {
			return fmt.Errorf("server process died (%v): %s", err, pt.CrashDetail(c))
		}
		if errors.Is(err, sut.ErrTimeout) {
			return pt.Inconclusivef("worker command exceeded its time budget: %v", err)
		}
		return err
	})
}

func TestC01(t *testing.T) { pt.RunProp(t, "C01", genC01, checkC01) }
