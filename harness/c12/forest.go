package c12

import (
	"encoding/hex"
	"fmt"
	"sort"

	coltracepb "go.opentelemetry.io/proto/otlp/collector/trace/v1"
	commonpb "go.opentelemetry.io/proto/otlp/common/v1"
	resourcepb "go.opentelemetry.io/proto/otlp/resource/v1"
	tracepb "go.opentelemetry.io/proto/otlp/trace/v1"
	"google.golang.org/protobuf/proto"
)

// Status codes of a generated span.
const (
	StUnset = 0
	StOK    = 1
	StError = 2
	StNone  = 3 // no Status message in the span (optional in OTLP); stored as "Unknown"
)

// Span is one generated span. Times are offsets (nanoseconds) from the worker's clock reading
// taken just before ingestion ("base"); they become absolute only inside the check.
type Span struct {
	Vid      int    `json:"vid"`    // unique per generated span; sent as the span attribute "vid"
	Trace    string `json:"trace"`  // 32 hex digits
	ID       string `json:"id"`     // 16 hex digits
	Parent   string `json:"parent"` // 16 hex digits or "" for a root
	Svc      int    `json:"svc"`    // index into Case.Services
	Name     string `json:"name"`
	Status   int    `json:"status"`
	StartOff int64  `json:"startOff"` // ns relative to base (negative = in the past)
	Dur      int64  `json:"dur"`      // ns; negative only in the malformed class "end before start"
}

func (s *Span) EndOff() int64 { return s.StartOff + s.Dur }

func statusString(st int) string {
	switch st {
	case StOK:
		return "STATUS_CODE_OK"
	case StError:
		return "STATUS_CODE_ERROR"
	case StNone:
		return "Unknown"
	}
	return "STATUS_CODE_UNSET"
}

// buildExport renders one batch of spans as an OTLP ExportTraceServiceRequest. Consecutive spans
// of the same service share a ResourceSpans entry (so one request usually carries several
// resources, and a service can occur more than once in a request). nameless is the index of the
// service whose resources carry no service.name attribute (−1: none); such a resource is sent,
// in turn, without a Resource message, with an empty attribute list, or with other attributes
// only. Named resources sometimes carry further attributes before or after service.name, and a
// resource's spans are sometimes split over two ScopeSpans. All variations are functions of the
// span data, so a case replays exactly.
func buildExport(services []string, nameless int, spans []*Span, baseNs int64) ([]byte, error) {
	req := &coltracepb.ExportTraceServiceRequest{}
	strAttr := func(k, v string) *commonpb.KeyValue {
		return &commonpb.KeyValue{Key: k, Value: &commonpb.AnyValue{Value: &commonpb.AnyValue_StringValue{StringValue: v}}}
	}
	var cur *tracepb.ResourceSpans
	curSvc := -1
	for _, s := range spans {
		if cur == nil || s.Svc != curSvc {
			cur = &tracepb.ResourceSpans{ScopeSpans: []*tracepb.ScopeSpans{{}}}
			if s.Svc == nameless {
				switch s.Vid % 3 {
				case 0: // no Resource message at all
				case 1:
					cur.Resource = &resourcepb.Resource{}
				default:
					cur.Resource = &resourcepb.Resource{Attributes: []*commonpb.KeyValue{strAttr("host.name", "node-7"), strAttr("service.namespace", "shop")}}
				}
			} else {
				attrs := []*commonpb.KeyValue{strAttr("service.name", services[s.Svc])}
				switch s.Vid % 4 {
				case 0:
					attrs = append([]*commonpb.KeyValue{strAttr("host.name", "node-7")}, attrs...)
				case 1:
					attrs = append(attrs, strAttr("service.version", "1.2.3"))
				}
				cur.Resource = &resourcepb.Resource{Attributes: attrs}
			}
			curSvc = s.Svc
			req.ResourceSpans = append(req.ResourceSpans, cur)
		} else if s.Vid%5 == 0 {
			cur.ScopeSpans = append(cur.ScopeSpans, &tracepb.ScopeSpans{})
		}
		tid, err := hex.DecodeString(s.Trace)
		if err != nil {
			return nil, fmt.Errorf("trace id %q: %v", s.Trace, err)
		}
		sid, err := hex.DecodeString(s.ID)
		if err != nil {
			return nil, fmt.Errorf("span id %q: %v", s.ID, err)
		}
		var pid []byte
		if s.Parent != "" {
			pid, err = hex.DecodeString(s.Parent)
			if err != nil {
				return nil, fmt.Errorf("parent id %q: %v", s.Parent, err)
			}
		}
		start := uint64(baseNs + s.StartOff)
		end := uint64(baseNs + s.StartOff + s.Dur)
		ps := &tracepb.Span{
			TraceId:           tid,
			SpanId:            sid,
			ParentSpanId:      pid,
			Name:              s.Name,
			Kind:              tracepb.Span_SPAN_KIND_SERVER,
			StartTimeUnixNano: start,
			EndTimeUnixNano:   end,
			Attributes: []*commonpb.KeyValue{{
				Key:   "vid",
				Value: &commonpb.AnyValue{Value: &commonpb.AnyValue_IntValue{IntValue: int64(s.Vid)}},
			}},
		}
		if s.Status != StNone {
			ps.Status = &tracepb.Status{Code: tracepb.Status_StatusCode(s.Status)}
		}
		ss := cur.ScopeSpans[len(cur.ScopeSpans)-1]
		ss.Spans = append(ss.Spans, ps)
	}
	return proto.Marshal(req)
}

// ---- the independent computation of the four views ------------------------------------------

type traceSummary struct {
	ID        string
	Root      *Span
	Spans     []*Span
	ErrCount  int
	SpanCount int
}

func groupTraces(spans []*Span) map[string]*traceSummary {
	out := map[string]*traceSummary{}
	for _, s := range spans {
		t := out[s.Trace]
		if t == nil {
			t = &traceSummary{ID: s.Trace}
			out[s.Trace] = t
		}
		t.Spans = append(t.Spans, s)
		t.SpanCount++
		if s.Status == StError {
			t.ErrCount++
		}
		if s.Parent == "" {
			t.Root = s // well-formed traces have exactly one
		}
	}
	return out
}

// depMatrix: parent service -> child service -> number of parent→child span pairs whose
// services differ. The span-id → service map is global, as the pairs are defined over spans.
func depMatrix(services []string, spans []*Span) map[string]map[string]int {
	svcOf := map[string]int{}
	for _, s := range spans {
		svcOf[s.ID] = s.Svc
	}
	m := map[string]map[string]int{}
	for _, s := range spans {
		if s.Parent == "" {
			continue
		}
		ps, ok := svcOf[s.Parent]
		if !ok || ps == s.Svc {
			continue
		}
		a, b := services[ps], services[s.Svc]
		if m[a] == nil {
			m[a] = map[string]int{}
		}
		m[a][b]++
	}
	return m
}

type redRow struct {
	Rate, ErrorRate, P50, P90, P95, P99 float64
	N                                   int
}

// percentileSorted: the rank rule of FindPercentileData (k = p·(n−1)/100, linear interpolation
// between the neighbouring order statistics), evaluated on a fully sorted copy.
func percentileSorted(sorted []uint64, p int) float64 {
	n := len(sorted)
	if n == 0 {
		return 0
	}
	num := p * (n - 1)
	lo := num / 100
	if num%100 == 0 {
		return float64(sorted[lo])
	}
	hi := lo + 1
	k := float64(num) / float64(100)
	w := k - float64(lo)
	l, u := float64(sorted[lo]), float64(sorted[hi])
	return l + (u-l)*w
}

// redMetrics: per service, over its entry spans (no parent, or the parent belongs to another
// service): rate = n/60, error % = 100·errors/n, p50/p90/p95/p99 of the durations in whole ms.
func redMetrics(services []string, spans []*Span) map[string]*redRow {
	svcOf := map[string]int{}
	for _, s := range spans {
		svcOf[s.ID] = s.Svc
	}
	durs := map[string][]uint64{}
	errs := map[string]int{}
	for _, s := range spans {
		if s.Parent != "" {
			if ps, ok := svcOf[s.Parent]; ok && ps == s.Svc {
				continue
			}
		}
		name := services[s.Svc]
		durs[name] = append(durs[name], uint64(s.Dur)/1000000)
		if s.Status == StError {
			errs[name]++
		}
	}
	out := map[string]*redRow{}
	for name, d := range durs {
		sort.Slice(d, func(i, j int) bool { return d[i] < d[j] })
		n := len(d)
		out[name] = &redRow{
			N:         n,
			Rate:      float64(n) / float64(60),
			ErrorRate: (float64(errs[name]) / float64(n)) * 100,
			P50:       percentileSorted(d, 50),
			P90:       percentileSorted(d, 90),
			P95:       percentileSorted(d, 95),
			P99:       percentileSorted(d, 99),
		}
	}
	return out
}
